(* Flat integer encoding of a model run, read by harness/props/C03.py (decode_world).
   Executable only.  Every list is length-prefixed, so the stream is self-delimiting. *)
From Coq Require Import List Arith ZArith Bool.
Import ListNotations.
Require Import MD.Traj.Model MD.Traj.Extra.
Open Scope Z_scope.

Definition zn (n : nat) : Z := Z.of_nat n.
Definition enc_list {A} (e : A -> list Z) (l : list A) : list Z := zn (length l) :: flat_map e l.
Definition enc_nats (l : list nat) : list Z := enc_list (fun p => [zn p]) l.

Fixpoint enc_fr (x : fr) : list Z :=
  match x with
  | Raw s f w => [0; zn s; zn f; zn w]
  | Sub idx y => 1 :: enc_nats idx ++ enc_fr y
  | Cen y => 2 :: enc_fr y
  | CenM ks y => 3 :: enc_nats ks ++ enc_fr y
  | Sup y r => 4 :: enc_fr y ++ enc_fr r
  | Stk y r => 5 :: enc_fr y ++ enc_fr r
  end.

Definition enc_tval (t : tval) : list Z := match t with TSrc s f => [0; zn s; zn f] | TAr i => [1; zn i; 0] end.
Definition enc_cval (c : cval) : list Z := match c with CSrc s f => [0; zn s; zn f] | CVec s f => [1; zn s; zn f] end.
Definition enc_arr {A} (e : A -> list Z) (a : arr A) : list Z :=
  zn (a_buf a) :: enc_nats (a_pos a) ++ enc_list e (a_val a).
Definition enc_oarr {A} (e : A -> list Z) (o : option (arr A)) : list Z :=
  match o with None => [0] | Some a => 1 :: enc_arr e a end.
Definition zb (b : bool) : Z := if b then 1 else 0.

Definition enc_traj (w : world) (t : traj) : list Z :=
  zn (xb t) :: enc_nats (xp t) ++ [zn (na t)] ++ enc_arr enc_tval (tm t) ++ enc_oarr enc_cval (ul t)
  ++ enc_oarr enc_cval (ua t) ++ [zn (tloc t)] ++ enc_list enc_nats (chains t) ++ enc_oarr enc_fr (tr t)
  ++ [zb (tdef t); zb (cache_ok w t); zb (lengths_ok t)].

Definition enc_res (r : res) : list Z :=
  match r with ROk => [0] | RErr EIndex => [1] | RErr EValue => [2] | RErr EType => [3] | RErr EOther => [9] end.

(* arrays of a register, numbered 5*i + field (0 xyz, 1 time, 2 lengths, 3 angles, 4 traces);
   name space 0 = xyz buffers, 1 = all others *)
Definition arrays_of (i : nat) (t : traj) : list (nat * (nat * nat * list nat)) :=
  let o {A} (k : nat) (x : option (arr A)) :=
    match x with None => [] | Some a => [(5 * i + k, (1, a_buf a, a_pos a))%nat] end in
  (* an xyz array with zero atoms per frame occupies no bytes: numpy reports no shared memory for it,
     whatever frame positions it nominally holds (remove_solvent / atom_slice down to nothing) *)
  (if Nat.eqb (na t) 0 then [] else [((5 * i)%nat, (0, xb t, xp t)%nat)])
  ++ [((5 * i + 1)%nat, (1, a_buf (tm t), a_pos (tm t))%nat)]
  ++ o 2%nat (ul t) ++ o 3%nat (ua t) ++ o 4%nat (tr t).

Definition all_arrays (w : world) : list (nat * (nat * nat * list nat)) :=
  flat_map (fun it => arrays_of (fst it) (snd it)) (combine (seq 0 (length (trajs w))) (trajs w)).

Fixpoint share_pairs (l : list (nat * (nat * nat * list nat))) : list Z :=
  match l with
  | [] => []
  | (i, (ns, b, p)) :: r =>
    flat_map (fun y => let '(j, (ns', b', p')) := y in
                       if Nat.eqb ns ns' && overlap b p b' p' then [zn i; zn j] else []) r
    ++ share_pairs r
  end.

Definition enc_world (wr : world * list res) : list Z :=
  let '(w, rs) := wr in
  enc_list enc_res rs ++ enc_list (enc_list enc_fr) (hx w) ++ enc_list (enc_traj w) (trajs w)
  ++ (let sp := share_pairs (all_arrays w) in zn (length sp) :: sp).

Fixpoint zlist_eqb (a b : list Z) : bool :=
  match a, b with
  | [], [] => true
  | x :: r, y :: q => (x =? y) && zlist_eqb r q
  | _, _ => false
  end.

(* a variant whose run equals the repaired one is emitted as the single digit 0.  Cases are histories over the
   extended alphabet of MD.Traj.Extra (base operations are wrapped in XBase) *)
Definition run_enc (v : variant) (xv : xvariant) (sps : list spec) (ops : list xop) : list Z :=
  enc_world (xrun v xv (init_world sps) ops).

(* the overlap decisions of every join(discard_overlapping_frames=True), in the state the join meets: per op
   [0] (not such a join), [2] (an operand without frames), or 1 :: n :: the n decisions.  The harness compares them
   with the numeric decisions (all |dx| < 2e-3) to recognise cases where two frames are numerically equal although
   their symbolic terms differ (excluded from the tie, counted in the evidence) *)
Definition op_plan (w : world) (o : op) : list Z :=
  let enc (t : traj) (os : list traj) :=
    match join_plan true (map (frames w) (t :: os)) with
    | Some p => 1 :: zn (length p) :: map zb p
    | None => [2]
    end in
  match o with
  | OJoin r os _ true => match nth_error (trajs w) r, get_all w os with Some t, Some l => enc t l | _, _ => [0] end
  | OMdJoin rs true => match get_all w rs with Some (t :: l) => enc t l | _ => [0] end
  | _ => [0]
  end.
Definition xop_plan (w : world) (o : xop) : list Z := match o with XBase o => op_plan w o | _ => [0] end.
Fixpoint run_plans (v : variant) (xv : xvariant) (w : world) (ops : list xop) : list Z :=
  match ops with
  | [] => []
  | o :: rest => xop_plan w o ++ run_plans v xv (fst (xstep v xv w o)) rest
  end.

(* which variant flags a history can observe at all: slice_indexes_traces only inside slice (t[key], slice(), and the
   self[:] of a copying imaging call), aslice_inplace_resets only inside an in-place atom subset, join_keeps_traces only
   inside a join *)
Definition uses_slice (o : xop) : bool :=
  match o with XBase (OSlice _ _ _) | XImage _ false => true | _ => false end.
Definition uses_aslice_ip (o : xop) : bool :=
  match o with XBase (OAtomSlice _ _ true) | XBase (ORemoveSolvent _ true) | XRestrictAtoms _ _ true => true | _ => false end.
Definition uses_join (o : xop) : bool :=
  match o with XBase (OJoin _ _ _ _) | XBase (OMdJoin _ _) => true | _ => false end.
Definition var_index (v : variant) : Z :=
  (if slice_indexes_traces v then 0 else 1) + (if aslice_inplace_resets v then 0 else 2) + (if join_keeps_traces v then 4 else 0).
Definition var_eqb (a b : variant) : bool :=
  Bool.eqb (slice_indexes_traces a) (slice_indexes_traces b) && Bool.eqb (aslice_inplace_resets a) (aslice_inplace_resets b)
  && Bool.eqb (join_keeps_traces a) (join_keeps_traces b).

(* variants 0-7: the three flags of MD.Traj.Model.variant (index = var_index) with the imaging methods repaired; 8, 9: the
   imaging methods as found (they keep _rmsd_traces) on top of variants 0 and 4.  Per variant: [0] = the run equals the
   repaired one; 2 :: k = the run is by construction the run of variant k (the flags in which they differ are never
   looked at by this history), nothing recomputed; 1 :: encoding otherwise *)
Definition run_all (c : list spec * list xop) : list Z :=
  let '(sps, ops) := c in
  let base := run_enc v_fix xv_fix sps ops in
  let us := existsb uses_slice ops in let ua := existsb uses_aslice_ip ops in let uj := existsb uses_join ops in
  let eff (v : variant) := mkVar (slice_indexes_traces v || negb us) (aslice_inplace_resets v || negb ua) (join_keeps_traces v && uj) in
  let other (v : variant) (xv : xvariant) :=
    let e := run_enc v xv sps ops in if zlist_eqb e base then [0] else 1 :: e in
  let other7 (v : variant) :=
    let v' := eff v in
    if var_eqb v' v then other v xv_fix else if var_eqb v' v_fix then [0] else [2; var_index v'] in
  let other_img (v : variant) (k : Z) :=
    if has_image ops then (if var_eqb (eff v) v then other v xv_cur else [2; k]) else [0] in
  base ++ other7 (mkVar false true false) ++ other7 (mkVar true false false) ++ other7 v_cur
  ++ other7 (mkVar true true true) ++ other7 (mkVar false true true) ++ other7 (mkVar true false true)
  ++ other7 (mkVar false false true)
  ++ other_img v_fix 8 ++ other_img (mkVar true true true) 8
  ++ run_plans v_fix xv_fix (init_world sps) ops.
