(* Trajectory bookkeeping model for C03 (and the trajectory-level half of C17).
   Anchors: mdtraj/core/trajectory.py  Trajectory.slice / __getitem__ / join / md.join / stack /
   atom_slice / remove_solvent / center_coordinates / superpose / __init__ and the xyz, time,
   unitcell_lengths, unitcell_angles, unitcell_vectors setters; mdtraj/utils/validation.py
   ensure_type (np.ascontiguousarray decides view-or-copy); mdtraj/rmsd/_rmsd.pyx (the precentred
   shortcut reads target._rmsd_traces[i] and reference._rmsd_traces[frame], coordinates as they are).

   Executable definitions only (no proofs here).

   What is a value.  Nothing numeric happens in the modelled code except inside centring and
   superposition, so coordinates are SYMBOLIC frame terms [fr]; times and cell rows are identifiers.
   The harness gives the symbols their numeric meaning (harness/props/C03.py: eval_fr).
   What is an array.  A numpy array is (buffer id, positions inside the base buffer).  A view keeps
   the buffer id of its base, a copy gets a fresh one; two arrays share memory iff they have the same
   buffer and a common position.  Only xyz buffers are ever written in place (center_coordinates,
   superpose), so only xyz contents live in a heap [hx]; every other array carries its values. *)
From Coq Require Import List Arith ZArith Bool.
Import ListNotations.

(* ------------------------------------------------------------------ values *)
Inductive fr : Type :=
| Raw (s f w : nat)              (* frame f of data source s, w atoms *)
| Sub (idx : list nat) (x : fr)  (* x[idx, :]   (numpy take along the atom axis) *)
| Cen (x : fr)                   (* x - mean(x)                     center_coordinates() *)
| CenM (ks : list nat) (x : fr)  (* x - centre of mass(x), masses of atom kinds ks   center_coordinates(mass_weighted=True) *)
| Sup (x r : fr)                 (* x optimally superposed on r     superpose() *)
| Stk (x y : fr).                (* hstack                           stack() *)

Inductive tval := TSrc (s f : nat) | TAr (i : nat).        (* time[f] of source s | default arange value *)
Inductive cval := CSrc (s f : nat) | CVec (s f : nat).     (* cell row of source s | row computed from box vectors of source s *)

Fixpoint list_eqb {A} (e : A -> A -> bool) (l1 l2 : list A) : bool :=
  match l1, l2 with
  | [], [] => true
  | a :: r1, b :: r2 => e a b && list_eqb e r1 r2
  | _, _ => false
  end.

Fixpoint fr_eqb (a b : fr) : bool :=
  match a, b with
  | Raw s f w, Raw s' f' w' => Nat.eqb s s' && Nat.eqb f f' && Nat.eqb w w'
  | Sub i x, Sub j y => list_eqb Nat.eqb i j && fr_eqb x y
  | Cen x, Cen y => fr_eqb x y
  | CenM k x, CenM l y => list_eqb Nat.eqb k l && fr_eqb x y
  | Sup x r, Sup y q => fr_eqb x y && fr_eqb r q
  | Stk x r, Stk y q => fr_eqb x y && fr_eqb r q
  | _, _ => false
  end.

(* centring is idempotent: centring an already centred frame changes nothing (the float kernel
   subtracts a centroid of size ~1e-8) *)
Definition cen (x : fr) : fr := match x with Cen _ => x | _ => Cen x end.
Definition is_cen (x : fr) : bool := match x with Cen _ => true | _ => false end.

Definition dfr : fr := Raw 0 0 0.

(* "the same coordinates" as join(discard_overlapping_frames=True) decides it (all |x1 - x0| < 2e-3): equality of
   the terms after removing the operations that are numerically the identity: an atom subset selecting every atom in
   order, centring a centred frame, mass-centring twice, superposing a frame on itself or twice on one reference *)
Fixpoint width (x : fr) : nat :=
  match x with
  | Raw _ _ w => w
  | Sub idx _ => length idx
  | Cen y | CenM _ y => width y
  | Sup y _ => width y
  | Stk y z => width y + width z
  end.
(* the centroid of the frame is the origin *)
Fixpoint centred (x : fr) : bool :=
  match x with
  | Cen _ => true
  | Sup _ r => centred r          (* a superposed frame has the centroid of its reference *)
  | _ => false
  end.
(* centring forgets any earlier translation of the whole frame *)
Fixpoint strip_shift (x : fr) : fr :=
  match x with
  | Cen y | CenM _ y => strip_shift y
  | _ => x
  end.
(* an atom subset of a subset / of one part of a stack is a subset of that; the full subset is the frame itself *)
Fixpoint push_sub (idx : list nat) (a : fr) : fr :=
  match a with
  | Sub jdx z => push_sub (map (fun i => nth i jdx 0) idx) z
  | Stk p q =>
    if forallb (fun i => i <? width p) idx then push_sub idx p
    else if forallb (fun i => width p <=? i) idx then push_sub (map (fun i => i - width p) idx) q
    else Sub idx a
  | _ => if list_eqb Nat.eqb idx (seq 0 (width a)) then a else Sub idx a
  end.
Definition origin1 : fr := Cen (Raw 0 0 1).     (* a centred one-atom frame: the origin, whatever it came from *)
Fixpoint norm (x : fr) : fr :=
  match x with
  | Raw _ _ _ => x
  | Sub idx y => push_sub idx (norm y)
  | Cen y => let y' := norm y in
             if Nat.eqb (width y') 1 then origin1
             else if centred y' then y' else Cen (strip_shift y')     (* centring a centred / shifted frame *)
  | CenM ks y => let y' := norm y in
                 if Nat.eqb (width y') 1 then origin1 else CenM ks (strip_shift y')   (* mass-centring a shifted frame *)
  | Sup y r => let y' := norm y in let r' := norm r in
               if fr_eqb y' r' then r'                                   (* a frame superposed on itself stays where it is *)
               else match y' with
                    | Sup _ q => if fr_eqb q r' then y' else Sup y' r'   (* superposed twice on the same reference *)
                    | _ => Sup y' r'
                    end
  | Stk y z => Stk (norm y) (norm z)
  end.
(* frames without atoms are all equal *)
Definition norm0 (x : fr) : fr := if Nat.eqb (width x) 0 then Raw 0 0 0 else norm x.
Definition fr_same (a b : fr) : bool := fr_eqb (norm0 a) (norm0 b).

(* ------------------------------------------------------------------ arrays *)
(* a_f: the array is a transposed (Fortran-ordered) 2-d array with more than one row, as the unitcell_vectors setter
   makes them (np.vstack((a, b, c)).T): never C-contiguous, so ensure_type (np.ascontiguousarray) copies it and
   every view of it *)
Record arr (A : Type) := mkArr { a_buf : nat; a_pos : list nat; a_val : list A; a_f : bool }.
Arguments mkArr {A}. Arguments a_buf {A}. Arguments a_pos {A}. Arguments a_val {A}. Arguments a_f {A}.

Definition sel {A} (d : A) (l : list A) (idx : list nat) : list A := map (fun i => nth i l d) idx.

(* ------------------------------------------------------------------ state *)
Record traj := mkTraj {
  xb : nat; xp : list nat;                  (* _xyz : buffer, positions (frames) in it *)
  na : nat;                                 (* _xyz.shape[1] *)
  tm : arr tval;                            (* _time *)
  ul : option (arr cval);                   (* _unitcell_lengths *)
  ua : option (arr cval);                   (* _unitcell_angles *)
  tloc : nat; chains : list (list nat);     (* _topology: identity of the WHOLE object graph (independence of the graphs made by
                                               deepcopy / subset / Topology.join is C04's copy_independent etc.); chains of atom kinds (one atom per residue,
                                               kind >= 100: solvent residue).  Topology.__eq__ compares exactly this *)
  tr : option (arr fr);                     (* _rmsd_traces: entry i is the trace of the frame term stored *)
  tdef : bool }.                            (* _time_default_to_arange *)

Record world := mkWorld {
  hx : list (list fr);       (* contents of the xyz buffers; buffer id = index *)
  trajs : list traj;         (* registers: every Trajectory object the history has created *)
  nbuf : nat;                (* next fresh id for time/cell/trace buffers *)
  ntop : nat;                (* next fresh topology identity *)
  nsrc : nat }.              (* next fresh data source (arrays the history assigns) *)

Definition kinds (t : traj) : list nat := concat (chains t).
Definition buf_of (w : world) (b : nat) : list fr := nth b (hx w) [].
Definition frames (w : world) (t : traj) : list fr := sel dfr (buf_of w (xb t)) (xp t).
Definition nframes (t : traj) : nat := length (xp t).
Definition have_cell (t : traj) : bool :=
  match ul t, ua t with Some _, Some _ => true | _, _ => false end.

Inductive err := EIndex | EValue | EType | EOther.
Inductive res := ROk | RErr (e : err).

(* the two defects found in the pinned tree, each with its repair *)
Record variant := mkVar {
  slice_indexes_traces : bool;      (* false = as found: slice() hands _rmsd_traces over unindexed *)
  aslice_inplace_resets : bool;     (* false = as found: atom_slice(inplace=True) keeps _rmsd_traces *)
  join_keeps_traces : bool }.       (* false = the code: a joined trajectory starts without a cache.  true = a legitimate
                                       alternative (not a defect): when every operand is cached, the result carries the
                                       concatenation of the operands' caches AFTER the overlap trimming; accepted by the
                                       correspondence because the property is consistency of the cache, not its absence *)
Definition v_cur := mkVar false false false.
Definition v_fix := mkVar true true false.

(* ------------------------------------------------------------------ numpy indexing along axis 0 *)
Inductive key :=
| KInt (z : Z)
| KSlice (a b c : option Z)
| KList (l : list Z)
| KMask (m : list bool).

Definition norm_index (n : nat) (z : Z) : option nat :=
  let n' := Z.of_nat n in
  if ((0 <=? z) && (z <? n'))%Z then Some (Z.to_nat z)
  else if ((z <? 0) && (- n' <=? z))%Z then Some (Z.to_nat (z + n'))
  else None.

Fixpoint norm_indices (n : nat) (l : list Z) : option (list nat) :=
  match l with
  | [] => Some []
  | z :: r => match norm_index n z, norm_indices n r with
              | Some i, Some rest => Some (i :: rest)
              | _, _ => None
              end
  end.

(* CPython PySlice_AdjustIndices; None = step 0 (ValueError) *)
Definition slice_indices (n : nat) (a b c : option Z) : option (list nat) :=
  let n' := Z.of_nat n in
  let step := match c with None => 1%Z | Some s => s end in
  if (step =? 0)%Z then None else
  let neg := (step <? 0)%Z in
  let adj (z : Z) : Z :=
    if (z <? 0)%Z then (let z' := (z + n')%Z in if (z' <? 0)%Z then (if neg then (-1)%Z else 0%Z) else z')
    else if (n' <=? z)%Z then (if neg then (n' - 1)%Z else n') else z in
  let start := match a with None => if neg then (n' - 1)%Z else 0%Z | Some z => adj z end in
  let stop := match b with None => if neg then (-1)%Z else n' | Some z => adj z end in
  let len := if neg then (if (stop <? start)%Z then ((start - stop - 1) / (- step) + 1)%Z else 0%Z)
             else (if (start <? stop)%Z then ((stop - start - 1) / step + 1)%Z else 0%Z) in
  Some (map (fun i => Z.to_nat (start + Z.of_nat i * step)) (seq 0 (Z.to_nat len))).

Fixpoint mask_positions (i : nat) (m : list bool) : list nat :=
  match m with
  | [] => []
  | b :: r => if b then i :: mask_positions (S i) r else mask_positions (S i) r
  end.

(* how numpy materialises a[key]:  a scalar row, a basic-slice view (contiguous or not), or a copy *)
Inductive kshape := KsRow | KsView (contig : bool) | KsFancy.

Definition key_positions (n : nat) (k : key) : err + (list nat * kshape) :=
  match k with
  | KInt z => match norm_index n z with Some i => inr ([i], KsRow) | None => inl EIndex end
  | KSlice a b c =>
      match slice_indices n a b c with
      | None => inl EValue
      | Some idx => inr (idx, KsView (match c with None => true | Some s => (s =? 1)%Z end || (length idx <=? 1)))
      end
  | KList l => match norm_indices n l with Some idx => inr (idx, KsFancy) | None => inl EIndex end
  | KMask m => (* numpy accepts an EMPTY boolean index on an axis of any length (it selects nothing) *)
               if Nat.eqb (length m) n || Nat.eqb (length m) 0 then inr (mask_positions 0 m, KsFancy) else inl EIndex
  end.

(* ------------------------------------------------------------------ allocation *)
Definition alloc_x (w : world) (fs : list fr) : world * nat :=
  (mkWorld (hx w ++ [fs]) (trajs w) (nbuf w) (ntop w) (nsrc w), length (hx w)).
Definition fresh_buf (w : world) : world * nat :=
  (mkWorld (hx w) (trajs w) (S (nbuf w)) (ntop w) (nsrc w), nbuf w).
Definition fresh_top (w : world) : world * nat :=
  (mkWorld (hx w) (trajs w) (nbuf w) (S (ntop w)) (nsrc w), ntop w).
Definition fresh_src (w : world) : world * nat :=
  (mkWorld (hx w) (trajs w) (nbuf w) (ntop w) (S (nsrc w)), nsrc w).
Definition push (w : world) (t : traj) : world :=
  mkWorld (hx w) (trajs w ++ [t]) (nbuf w) (ntop w) (nsrc w).
Fixpoint set_nth {A} (i : nat) (x : A) (l : list A) : list A :=
  match l, i with
  | [], _ => []
  | _ :: r, 0 => x :: r
  | y :: r, S i' => y :: set_nth i' x r
  end.
Definition put (w : world) (r : nat) (t : traj) : world :=
  mkWorld (hx w) (set_nth r t (trajs w)) (nbuf w) (ntop w) (nsrc w).

(* a fresh array holding the given values *)
Definition new_arr {A} (w : world) (vals : list A) : world * arr A :=
  let '(w1, b) := fresh_buf w in (w1, mkArr b (seq 0 (length vals)) vals false).
Definition copy_arr {A} (w : world) (a : arr A) : world * arr A := new_arr w (a_val a).
Definition copy_oarr {A} (w : world) (o : option (arr A)) : world * option (arr A) :=
  match o with None => (w, None) | Some a => let '(w1, a') := copy_arr w a in (w1, Some a') end.

(* ensure_type(value, float32, ...): the same array if it is C-contiguous, otherwise a contiguous copy *)
Definition ensure_oarr {A} (w : world) (o : option (arr A)) : world * option (arr A) :=
  match o with
  | Some a => if a_f a then copy_oarr w o else (w, o)
  | None => (w, None)
  end.

(* a[key] of a stored array: view or copy according to numpy *)
Definition view_arr {A} (d : A) (a : arr A) (idx : list nat) : arr A :=
  mkArr (a_buf a) (sel 0 (a_pos a) idx) (sel d (a_val a) idx) (a_f a).

(* in-place write of new frame values at the positions of a view *)
Fixpoint write_pos (l : list fr) (ps : list nat) (vs : list fr) : list fr :=
  match ps, vs with
  | p :: pr, v :: vr => write_pos (set_nth p v l) pr vr
  | _, _ => l
  end.
Definition write_x (w : world) (b : nat) (ps : list nat) (vs : list fr) : world :=
  mkWorld (set_nth b (write_pos (buf_of w b) ps vs) (hx w)) (trajs w) (nbuf w) (ntop w) (nsrc w).

(* ------------------------------------------------------------------ Trajectory.__init__ *)
(* arguments already materialised as arrays; the checks are the setters' shape checks *)
Definition construct (w : world) (b : nat) (ps : list nat) (natoms : nat) (tloc : nat) (chs : list (list nat))
    (time : arr tval) (l a : option (arr cval)) : world * res :=
  let n := length ps in
  let okc (o : option (arr cval)) := match o with None => true | Some c => Nat.eqb (length (a_val c)) n end in
  if negb (Nat.eqb (length (concat chs)) natoms) then (w, RErr EValue)     (* xyz setter: shape (Any, numAtoms, 3) *)
  else if negb (okc l && okc a) then (w, RErr EValue)                      (* unitcell setters: shape (len(self), 3) *)
  else if negb (Nat.eqb (length (a_val time)) n) then (w, RErr EValue)     (* time setter: shape (n_frames,) *)
  else (push w (mkTraj b ps natoms time l a tloc chs None false), ROk).

(* ------------------------------------------------------------------ slice(key, copy) *)
Definition index_field {A} (d : A) (k : key) (a : arr A) : err + (list nat * kshape) :=
  key_positions (length (a_val a)) k.

(* the array numpy hands to the constructor for field[key], before/after .copy() and the setter *)
Definition slice_arr {A} (d : A) (w : world) (a : arr A) (idx : list nat) (shp : kshape) (copy : bool)
    (thru_ensure_type : bool) (is_time : bool) : world * arr A :=
  let fresh := new_arr w (sel d (a_val a) idx) in
  if copy then fresh else
  if thru_ensure_type && a_f a then fresh else        (* a view of a Fortran-ordered array is not C-contiguous *)
  match shp with
  | KsFancy => fresh
  | KsRow => if is_time then fresh               (* numpy scalar -> np.array([value]) *)
             else (w, view_arr d a idx)          (* row view + newaxis, contiguous *)
  | KsView contig => if thru_ensure_type && negb contig then fresh      (* np.ascontiguousarray copies *)
                     else (w, view_arr d a idx)
  end.

Definition slice_oarr (w : world) (k : key) (o : option (arr cval)) (copy : bool)
    : err + (world * option (arr cval)) :=
  match o with
  | None => inr (w, None)
  | Some a => match index_field (CSrc 0 0) k a with
              | inl e => inl e
              | inr (idx, shp) => let '(w1, a') := slice_arr (CSrc 0 0) w a idx shp copy true false in inr (w1, Some a')
              end
  end.

Definition do_slice (v : variant) (w : world) (r : nat) (k : key) (copy : bool) : world * res :=
  match nth_error (trajs w) r with
  | None => (w, RErr EOther)
  | Some t =>
    match key_positions (nframes t) k with
    | inl e => (w, RErr e)
    | inr (xi, xs) =>
      match index_field (TAr 0) k (tm t) with
      | inl e => (w, RErr e)
      | inr (ti, ts) =>
        match slice_oarr w k (ua t) copy with
        | inl e => (w, RErr e)
        | inr (w1, ua') =>
          match slice_oarr w1 k (ul t) copy with
          | inl e => (w, RErr e)
          | inr (w2, ul') =>
            (* xyz *)
            let fs := sel dfr (frames w t) xi in
            let shares_x := negb copy && match xs with KsFancy => false | KsRow => true | KsView c => c end in
            let '(w3, b', p') := if shares_x then (w2, xb t, sel 0 (xp t) xi)
                                 else let '(wa, b) := alloc_x w2 fs in (wa, b, seq 0 (length fs)) in
            let '(w4, tm') := slice_arr (TAr 0) w3 (tm t) ti ts copy false true in
            let '(w5, tl') := if copy then fresh_top w4 else (w4, tloc t) in
            (* traces *)
            let '(w6, tr') :=
              match tr t with
              | None => (w5, None)
              | Some c =>
                if slice_indexes_traces v then
                  (* repaired: np.array(self._rmsd_traces[key], ndmin=1, copy=True) *)
                  match key_positions (length (a_val c)) k with
                  | inl _ => (w5, None)   (* unreachable when lengths agree; see Proofs.slice_traces_key_ok *)
                  | inr (ci, _) => let '(wa, c') := new_arr w5 (sel dfr (a_val c) ci) in (wa, Some c')
                  end
                else if copy then let '(wa, c') := copy_arr w5 c in (wa, Some c')
                else (w5, Some c)
              end in
            match construct w6 b' p' (na t) tl' (chains t) tm' ul' ua' with
            | (_, RErr e) => (w, RErr e)
            | (w7, ROk) =>
              (* newtraj._rmsd_traces = rmsd_traces *)
              let i := length (trajs w) in
              match nth_error (trajs w7) i with
              | None => (w, RErr EOther)
              | Some nt => (put w7 i (mkTraj (xb nt) (xp nt) (na nt) (tm nt) (ul nt) (ua nt) (tloc nt) (chains nt) tr' (tdef nt)), ROk)
              end
            end
          end
        end
      end
    end
  end.

(* ------------------------------------------------------------------ join *)
Fixpoint get_all (w : world) (rs : list nat) : option (list traj) :=
  match rs with
  | [] => Some []
  | r :: rest => match nth_error (trajs w) r, get_all w rest with
                 | Some t, Some ts => Some (t :: ts)
                 | _, _ => None
                 end
  end.

Definition oval {A} (o : option (arr A)) : list A := match o with Some a => a_val a | None => [] end.

(* join(..., discard_overlapping_frames=True): operand i loses its last frame (trajectories[i] = trajectories[i][:-1])
   when that frame has the coordinates of the first frame of operand i+1.  None: an operand that is compared has no
   frames (xyz[-1] / xyz[0] raise IndexError) *)
Fixpoint discard_plan (fss : list (list fr)) : option (list bool) :=
  match fss with
  | [] => Some []
  | a :: rest =>
    match rest with
    | [] => Some [false]
    | b :: _ =>
      match rev a, b with
      | x :: _, y :: _ => option_map (cons (fr_same x y)) (discard_plan rest)
      | _, _ => None
      end
    end
  end.
Definition join_plan (dis : bool) (fss : list (list fr)) : option (list bool) :=
  if dis then discard_plan fss else Some (map (fun _ => false) fss).

Definition trim_if {A} (d : bool) (l : list A) : list A := if d then removelast l else l.
(* concatenation of the (possibly trimmed) operand fields *)
Definition jparts {A} (plan : list bool) (ls : list (list A)) : list A :=
  concat (map (fun dl => trim_if (fst dl) (snd dl)) (combine plan ls)).

Definition join_trajs (w : world) (t : traj) (others : list traj) (check_top dis : bool) : world * res :=
  if negb (forallb (fun o => Nat.eqb (na t) (na o)) others) then (w, RErr EValue)
  else if check_top && negb (forallb (fun o => list_eqb (list_eqb Nat.eqb) (chains t) (chains o)) others) then (w, RErr EValue)
  else if negb (forallb (fun o => Bool.eqb (have_cell t) (have_cell o)) others) then (w, RErr EValue)
  else
    let all := t :: others in
    match join_plan dis (map (frames w) all) with
    | None => (w, RErr EIndex)
    | Some plan =>
      let fs := jparts plan (map (frames w) all) in
      let '(w1, b) := alloc_x w fs in
      let '(w2, tm') := new_arr w1 (jparts plan (map (fun o => a_val (tm o)) all)) in
      let '(w3, ua') := if have_cell t then let '(wa, a) := new_arr w2 (jparts plan (map (fun o => oval (ua o)) all)) in (wa, Some a) else (w2, None) in
      let '(w4, ul') := if have_cell t then let '(wa, a) := new_arr w3 (jparts plan (map (fun o => oval (ul o)) all)) in (wa, Some a) else (w3, None) in
      let '(w5, tl) := fresh_top w4 in
      match construct w5 b (seq 0 (length fs)) (na t) tl (chains t) tm' ul' ua' with
      | (_, RErr e) => (w, RErr e)
      | ok => ok
      end
    end.

(* the alternative [join_keeps_traces]: the cache of the result, when every operand has one *)
Definition join_traces (v : variant) (w : world) (t : traj) (others : list traj) (dis : bool) : option (list fr) :=
  let all := t :: others in
  if join_keeps_traces v && forallb (fun o => match tr o with Some _ => true | None => false end) all then
    match join_plan dis (map (frames w) all) with
    | Some plan =>
      Some (jparts (map (fun d => d && slice_indexes_traces v) plan) (map (fun o => oval (tr o)) all))
    | None => None
    end
  else None.

(* joined._rmsd_traces = <fresh array> on the register just created *)
Definition attach_traces (w0 : world) (wr : world * res) (tv : option (list fr)) : world * res :=
  match wr, tv with
  | (w1, ROk), Some vals =>
    let i := length (trajs w0) in
    match nth_error (trajs w1) i with
    | Some nt => let '(w2, c) := new_arr w1 vals in
                 (put w2 i (mkTraj (xb nt) (xp nt) (na nt) (tm nt) (ul nt) (ua nt) (tloc nt) (chains nt) (Some c) (tdef nt)), ROk)
    | None => wr
    end
  | _, _ => wr
  end.

Definition do_join (v : variant) (w : world) (r : nat) (others : list nat) (check_top dis : bool) : world * res :=
  match nth_error (trajs w) r, get_all w others with
  | Some t, Some os => attach_traces w (join_trajs w t os check_top dis) (join_traces v w t os dis)
  | _, _ => (w, RErr EOther)
  end.

(* md.join(list, discard_overlapping_frames) = functools.reduce(lambda x, y: x.join(y, ...), list): the accumulated
   trajectory is joined with the next operand, pairwise, each step making complete fresh copies; the intermediate
   results are unreachable afterwards, so only the last one becomes a register (their buffers and identities stay
   consumed).  Each pairwise step is the two-operand join, check_topology=True. *)
Definition join_pair (v : variant) (w : world) (acc o : traj) (dis : bool) : world * res :=
  attach_traces w (join_trajs w acc [o] true dis) (join_traces v w acc [o] dis).

Fixpoint mdjoin_reduce (v : variant) (w0 w : world) (acc : traj) (rest : list traj) (dis : bool) : world * res :=
  match rest with
  | [] => (mkWorld (hx w) (trajs w0 ++ [acc]) (nbuf w) (ntop w) (nsrc w), ROk)
  | o :: rest' =>
    match join_pair v w acc o dis with
    | (w1, ROk) => match nth_error (trajs w1) (length (trajs w)) with
                   | Some nt => mdjoin_reduce v w0 w1 nt rest' dis
                   | None => (w0, RErr EOther)
                   end
    | (_, RErr e) => (w0, RErr e)
    end
  end.

Definition do_mdjoin (v : variant) (w : world) (rs : list nat) (dis : bool) : world * res :=
  match get_all w rs with
  | Some (t :: o :: rest) => mdjoin_reduce v w w t (o :: rest) dis
  | _ => (w, RErr EOther)     (* fewer than two operands: outside the modelled alphabet *)
  end.

(* ------------------------------------------------------------------ stack *)
Fixpoint zip_stk (l1 l2 : list fr) : list fr :=
  match l1, l2 with
  | x :: r1, y :: r2 => Stk x y :: zip_stk r1 r2
  | _, _ => []
  end.

Definition do_stack (w : world) (r r' : nat) : world * res :=
  match nth_error (trajs w) r, nth_error (trajs w) r' with
  | Some t, Some o =>
    if negb (Nat.eqb (nframes t) (nframes o)) then (w, RErr EValue) else
    let fs := zip_stk (frames w t) (frames w o) in
    let '(w1, b) := alloc_x w fs in
    let '(w2, tl) := fresh_top w1 in
    (* unitcell arrays and time are handed over as they are: the result shares them with self, unless
       ensure_type has to copy a Fortran-ordered cell array *)
    let '(w3, ul') := ensure_oarr w2 (ul t) in
    let '(w4, ua') := ensure_oarr w3 (ua t) in
    match construct w4 b (seq 0 (length fs)) (na t + na o) tl (chains t ++ chains o) (tm t) ul' ua' with
    | (_, RErr e) => (w, RErr e)
    | ok => ok
    end
  | _, _ => (w, RErr EOther)
  end.

(* ------------------------------------------------------------------ atom_slice / remove_solvent *)
Fixpoint Zmem (z : Z) (l : list Z) : bool :=
  match l with [] => false | y :: r => (z =? y)%Z || Zmem z r end.

(* Topology.subset keeps the atoms whose index occurs in atom_indices, in topology order *)
Fixpoint subset_kinds (i : nat) (ks : list nat) (idx : list Z) : list nat :=
  match ks with
  | [] => []
  | k :: r => if Zmem (Z.of_nat i) idx then k :: subset_kinds (S i) r idx else subset_kinds (S i) r idx
  end.

Fixpoint subset_chains (i : nat) (cs : list (list nat)) (idx : list Z) : list (list nat) :=
  match cs with
  | [] => []
  | c :: r => match subset_kinds i c idx with
              | [] => subset_chains (i + length c) r idx          (* empty chains are deleted *)
              | c' => c' :: subset_chains (i + length c) r idx
              end
  end.

Definition do_atom_slice (v : variant) (w : world) (r : nat) (idx : list Z) (inplace : bool) : world * res :=
  match nth_error (trajs w) r with
  | None => (w, RErr EOther)
  | Some t =>
    match norm_indices (na t) idx with
    | None => (w, RErr EIndex)
    | Some ni =>
      let fs := map (Sub ni) (frames w t) in
      let '(w1, b) := alloc_x w fs in
      let '(w2, tl) := fresh_top w1 in
      let ks := subset_chains 0 (chains t) idx in
      if inplace then
        (put w2 r (mkTraj b (seq 0 (length fs)) (length ni) (tm t) (ul t) (ua t) tl ks
                     (if aslice_inplace_resets v then None else tr t) (tdef t)), ROk)
      else
        let '(w3, ul', ua') :=
          if have_cell t then
            let '(wa, l') := copy_oarr w2 (ul t) in let '(wb, a') := copy_oarr wa (ua t) in (wb, l', a')
          else (w2, None, None) in
        let '(w4, tm') := copy_arr w3 (tm t) in
        match construct w4 b (seq 0 (length fs)) (length ni) tl ks tm' ul' ua' with
        | (_, RErr e) => (w, RErr e)
        | ok => ok
        end
    end
  end.

Definition is_solvent (k : nat) : bool := 100 <=? k.
Fixpoint nonsolvent_from (i : nat) (ks : list nat) : list Z :=
  match ks with
  | [] => []
  | k :: r => if is_solvent k then nonsolvent_from (S i) r else Z.of_nat i :: nonsolvent_from (S i) r
  end.

Definition do_remove_solvent (v : variant) (w : world) (r : nat) (inplace : bool) : world * res :=
  match nth_error (trajs w) r with
  | None => (w, RErr EOther)
  | Some t => do_atom_slice v w r (nonsolvent_from 0 (kinds t)) inplace
  end.

(* ------------------------------------------------------------------ in-place coordinate changes *)
Definition set_tr (t : traj) (c : option (arr fr)) : traj :=
  mkTraj (xb t) (xp t) (na t) (tm t) (ul t) (ua t) (tloc t) (chains t) c (tdef t).

Definition do_center (w : world) (r : nat) (mass_weighted : bool) : world * res :=
  match nth_error (trajs w) r with
  | None => (w, RErr EOther)
  | Some t =>
    if mass_weighted then
      (* self.xyz -= centre_of_mass : in place on the buffer, then the setter drops the cache *)
      if negb (Nat.eqb (length (kinds t)) (na t)) then (w, RErr EValue) else
      let w1 := write_x w (xb t) (xp t) (map (CenM (kinds t)) (frames w t)) in
      (put w1 r (set_tr t None), ROk)
    else
      if Nat.eqb (nframes t) 0 then (w, RErr EIndex) else
      let fs := map cen (frames w t) in
      let w1 := write_x w (xb t) (xp t) fs in
      let '(w2, c) := new_arr w1 fs in
      (put w2 r (set_tr t (Some c)), ROk)
  end.

Definition do_superpose (w : world) (r ref : nat) (frame : Z) : world * res :=
  match nth_error (trajs w) r, nth_error (trajs w) ref with
  | Some t, Some q =>
    match norm_index (nframes q) frame with
    | None => (w, RErr EIndex)
    | Some fi =>
      if negb (Nat.eqb (na t) (na q)) then
        (* the frames are centred in place before the atom-count check raises; cache untouched *)
        (write_x w (xb t) (xp t) (map cen (frames w t)), RErr EValue)
      else
        let rf := nth fi (frames w q) dfr in
        let w1 := write_x w (xb t) (xp t) (map (fun x => Sup x rf) (frames w t)) in
        if negb (Nat.eqb (length (kinds t)) (na t)) then (w1, RErr EValue)     (* xyz setter shape check, after the fact *)
        else (put w1 r (set_tr t None), ROk)
    end
  | _, _ => (w, RErr EOther)
  end.

(* ------------------------------------------------------------------ assignments *)
Definition set_x (t : traj) (b : nat) (ps : list nat) (natoms : nat) : traj :=
  mkTraj b ps natoms (tm t) (ul t) (ua t) (tloc t) (chains t) None (tdef t).

Definition do_set_xyz_new (w : world) (r m natoms : nat) : world * res :=
  match nth_error (trajs w) r with
  | None => (w, RErr EOther)
  | Some t =>
    if negb (Nat.eqb (length (kinds t)) natoms) then (w, RErr EValue) else
    let '(w1, s) := fresh_src w in
    let fs := map (fun f => Raw s f natoms) (seq 0 m) in
    let '(w2, b) := alloc_x w1 fs in
    (put w2 r (set_x t b (seq 0 m) natoms), ROk)
  end.

Definition do_set_xyz_share (w : world) (r r' : nat) : world * res :=
  match nth_error (trajs w) r, nth_error (trajs w) r' with
  | Some t, Some o =>
    if negb (Nat.eqb (length (kinds t)) (na o)) then (w, RErr EValue)
    else (put w r (set_x t (xb o) (xp o) (na o)), ROk)
  | _, _ => (w, RErr EOther)
  end.

Definition set_tm (t : traj) (a : arr tval) : traj :=
  mkTraj (xb t) (xp t) (na t) a (ul t) (ua t) (tloc t) (chains t) (tr t) (tdef t).

Definition do_set_time_new (w : world) (r m : nat) : world * res :=
  match nth_error (trajs w) r with
  | None => (w, RErr EOther)
  | Some t =>
    if negb (Nat.eqb m (nframes t)) then (w, RErr EValue) else
    let '(w1, s) := fresh_src w in
    let '(w2, a) := new_arr w1 (map (TSrc s) (seq 0 m)) in
    (put w2 r (set_tm t a), ROk)
  end.

Definition do_set_time_share (w : world) (r r' : nat) : world * res :=
  match nth_error (trajs w) r, nth_error (trajs w) r' with
  | Some t, Some o =>
    if negb (Nat.eqb (length (a_val (tm o))) (nframes t)) then (w, RErr EValue)
    else (put w r (set_tm t (tm o)), ROk)
  | _, _ => (w, RErr EOther)
  end.

Definition set_cell (t : traj) (l a : option (arr cval)) : traj :=
  mkTraj (xb t) (xp t) (na t) (tm t) l a (tloc t) (chains t) (tr t) (tdef t).

(* t.unitcell_lengths = array | None  (which = false), t.unitcell_angles = ... (which = true) *)
Definition do_set_cell_part (w : world) (r : nat) (angles : bool) (m : option nat) : world * res :=
  match nth_error (trajs w) r with
  | None => (w, RErr EOther)
  | Some t =>
    match m with
    | None => (put w r (if angles then set_cell t (ul t) None else set_cell t None (ua t)), ROk)
    | Some m =>
      if negb (Nat.eqb m (nframes t)) then (w, RErr EValue) else
      let '(w1, s) := fresh_src w in
      let '(w2, a) := new_arr w1 (map (CSrc s) (seq 0 m)) in
      (put w2 r (if angles then set_cell t (ul t) (Some a) else set_cell t (Some a) (ua t)), ROk)
    end
  end.

(* t.unitcell_vectors = array | None : both parts are replaced by freshly computed arrays, or dropped.
   `vectors is None or np.all(np.abs(vectors) < 1e-15)` (true for an all-zero array of ANY length and for an
   empty array) means "no unit cell" and is tested before the length check *)
Definition do_set_vectors (w : world) (r : nat) (m : option nat) (allzero : bool) : world * res :=
  match nth_error (trajs w) r with
  | None => (w, RErr EOther)
  | Some t =>
    match m with
    | None => (put w r (set_cell t None None), ROk)
    | Some m =>
      if allzero || Nat.eqb m 0 then (put w r (set_cell t None None), ROk) else
      if negb (Nat.eqb m (nframes t)) then (w, RErr EType) else
      let '(w1, s) := fresh_src w in
      let '(w2, l) := new_arr w1 (map (CVec s) (seq 0 m)) in
      let '(w3, a) := new_arr w2 (map (CVec s) (seq 0 m)) in
      let fort (c : arr cval) := mkArr (a_buf c) (a_pos c) (a_val c) (1 <? m) in     (* np.vstack((..)).T *)
      (put w3 r (set_cell t (Some (fort l)) (Some (fort a))), ROk)
    end
  end.

(* ------------------------------------------------------------------ histories *)
Inductive op :=
| OSlice (r : nat) (k : key) (copy : bool)        (* t[key] is OSlice r key true *)
| OJoin (r : nat) (others : list nat) (check_top dis : bool)   (* t.join(o, discard_overlapping_frames=dis) / t + o / t.join([..]) *)
| OMdJoin (rs : list nat) (dis : bool)
| OStack (r r' : nat)
| OAtomSlice (r : nat) (idx : list Z) (inplace : bool)
| ORemoveSolvent (r : nat) (inplace : bool)
| OCenter (r : nat) (mass_weighted : bool)
| OSuperpose (r ref : nat) (frame : Z)
| OSetXyzNew (r m natoms : nat)
| OSetXyzShare (r r' : nat)
| OSetTimeNew (r m : nat)
| OSetTimeShare (r r' : nat)
| OSetLengths (r : nat) (m : option nat)
| OSetAngles (r : nat) (m : option nat)
| OSetVectors (r : nat) (m : option nat) (allzero : bool)
| OReadCell (r : nat).       (* reading unitcell_vectors / unitcell_volumes / unitcell_lengths / unitcell_angles, or a periodic
                                distance computation: observers; they leave every register as it is (no derived value is kept) *)

Definition step (v : variant) (w : world) (o : op) : world * res :=
  match o with
  | OSlice r k c => do_slice v w r k c
  | OJoin r os ct dis => do_join v w r os ct dis
  | OMdJoin rs dis => do_mdjoin v w rs dis
  | OStack r r' => do_stack w r r'
  | OAtomSlice r idx ip => do_atom_slice v w r idx ip
  | ORemoveSolvent r ip => do_remove_solvent v w r ip
  | OCenter r mw => do_center w r mw
  | OSuperpose r q f => do_superpose w r q f
  | OSetXyzNew r m n => do_set_xyz_new w r m n
  | OSetXyzShare r r' => do_set_xyz_share w r r'
  | OSetTimeNew r m => do_set_time_new w r m
  | OSetTimeShare r r' => do_set_time_share w r r'
  | OSetLengths r m => do_set_cell_part w r false m
  | OSetAngles r m => do_set_cell_part w r true m
  | OSetVectors r m z => do_set_vectors w r m z
  | OReadCell r => match nth_error (trajs w) r with Some _ => (w, ROk) | None => (w, RErr EOther) end
  end.

Fixpoint run (v : variant) (w : world) (ops : list op) : world * list res :=
  match ops with
  | [] => (w, [])
  | o :: rest => let '(w1, x) := step v w o in let '(w2, xs) := run v w1 rest in (w2, x :: xs)
  end.

(* ------------------------------------------------------------------ initial trajectories *)
(* md.Trajectory(xyz, top, time=... | None, unitcell_lengths=..., unitcell_angles=...) on fresh arrays:
   (n_frames, chains of atom kinds, has_cell, explicit_time) *)
Definition spec := (nat * list (list nat) * bool * bool)%type.

Definition load (w : world) (sp : spec) : world :=
  let '(n, chs, cell, etime) := sp in
  let ks := concat chs in
  let '(w1, s) := fresh_src w in
  let fs := map (fun f => Raw s f (length ks)) (seq 0 n) in
  let '(w2, b) := alloc_x w1 fs in
  let '(w3, tl) := fresh_top w2 in
  let '(w4, tm') := new_arr w3 (if etime then map (TSrc s) (seq 0 n) else map TAr (seq 0 n)) in
  let '(w5, l) := if cell then let '(wa, a) := new_arr w4 (map (CSrc s) (seq 0 n)) in (wa, Some a) else (w4, None) in
  let '(w6, a) := if cell then let '(wa, a) := new_arr w5 (map (CSrc s) (seq 0 n)) in (wa, Some a) else (w5, None) in
  push w6 (mkTraj b (seq 0 n) (length ks) tm' l a tl chs None (negb etime)).

Definition empty_world := mkWorld [] [] 0 0 0.
Definition init_world (sps : list spec) : world := fold_left load sps empty_world.

(* ------------------------------------------------------------------ what the property observes *)
(* the cache is consistent: absent, or entry i is the trace of the current frame i and that frame is centred *)
Fixpoint cache_match (tr fs : list fr) : bool :=
  match tr, fs with
  | [], [] => true
  | a :: r1, b :: r2 => fr_eqb a b && is_cen b && cache_match r1 r2
  | _, _ => false
  end.
Definition cache_ok (w : world) (t : traj) : bool :=
  match tr t with None => true | Some c => cache_match (a_val c) (frames w t) end.

(* two arrays overlap in memory *)
Definition overlap (b1 : nat) (p1 : list nat) (b2 : nat) (p2 : list nat) : bool :=
  Nat.eqb b1 b2 && existsb (fun p => existsb (Nat.eqb p) p2) p1.

(* equal lengths of all per-frame fields *)
Definition lengths_ok (t : traj) : bool :=
  let n := nframes t in
  Nat.eqb (length (a_val (tm t))) n &&
  match ul t with None => true | Some c => Nat.eqb (length (a_val c)) n end &&
  match ua t with None => true | Some c => Nat.eqb (length (a_val c)) n end.

(* an in-place coordinate change through register r is harmless for the other registers when no other
   register that holds a cache sees the written memory *)
Definition inplace_safe (w : world) (r : nat) : bool :=
  match nth_error (trajs w) r with
  | None => true
  | Some t =>
    forallb (fun io => let '(i, o) := io in
               Nat.eqb i r || negb (overlap (xb t) (xp t) (xb o) (xp o)) ||
               match tr o with None => true | Some _ => false end)
            (combine (seq 0 (length (trajs w))) (trajs w))
  end.
