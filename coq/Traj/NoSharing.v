(* The cache theorem without a dynamic guard on aliasing: histories that never create two trajectories over one
   xyz buffer (no slice(copy=False), no t.xyz = u.xyz).  Then every in-place write is invisible to all other
   registers, whatever the history does. *)
From Coq Require Import List Arith ZArith Bool Lia.
Import ListNotations.
Require Import MD.Traj.Model MD.Traj.Lists MD.Traj.Proofs.

Definition plain_op (o : op) : bool :=
  match o with
  | OSlice _ _ copy => copy
  | OSetXyzShare _ _ => false
  | _ => true
  end.

(* what is left of the guard: superpose only on a register whose topology and coordinates agree on the atom count *)
Definition top_guard (w : world) (o : op) : bool :=
  match o with OSuperpose r _ _ => top_consistent w r | _ => true end.

(* no two registers view the same xyz buffer *)
Definition excl (w : world) : Prop :=
  forall i j ti tj, nth_error (trajs w) i = Some ti -> nth_error (trajs w) j = Some tj -> i <> j -> xb ti <> xb tj.

Lemma excl_inplace_safe w r : excl w -> inplace_safe w r = true.
Proof.
  intros He. unfold inplace_safe. destruct (nth_error (trajs w) r) as [t|] eqn:Hr; [|reflexivity].
  apply forallb_forall. intros [i o] Hin. apply In_combine_seq in Hin. destruct Hin as [_ Hi]. rewrite Nat.sub_0_r in Hi.
  destruct (Nat.eq_dec i r) as [->|Hne]; [rewrite Nat.eqb_refl; reflexivity|].
  assert (xb t <> xb o) by (apply (He r i); auto).
  unfold overlap. replace (Nat.eqb (xb t) (xb o)) with false by (symmetry; apply Nat.eqb_neq; assumption).
  cbn. rewrite orb_true_r. reflexivity.
Qed.

Lemma excl_of_new w w' t' :
  excl w -> trajs w' = trajs w ++ [t'] -> (forall t, In t (trajs w) -> xb t <> xb t') -> excl w'.
Proof.
  intros He Ht Hf i j ti tj Hi Hj Hne. rewrite Ht in Hi, Hj.
  destruct (Nat.lt_ge_cases i (length (trajs w))) as [Li|Li]; destruct (Nat.lt_ge_cases j (length (trajs w))) as [Lj|Lj].
  - rewrite nth_error_app1 in Hi, Hj by assumption. eapply He; eauto.
  - rewrite nth_error_app1 in Hi by assumption. rewrite nth_error_app2 in Hj by assumption.
    destruct (j - length (trajs w)) as [|k]; cbn in Hj; [|destruct k; discriminate]. inversion Hj; subst.
    apply Hf. eapply nth_error_In; eauto.
  - rewrite nth_error_app2 in Hi by assumption. rewrite nth_error_app1 in Hj by assumption.
    destruct (i - length (trajs w)) as [|k]; cbn in Hi; [|destruct k; discriminate]. inversion Hi; subst.
    intro E. symmetry in E. revert E. apply Hf. eapply nth_error_In; eauto.
  - rewrite nth_error_app2 in Hi, Hj by assumption.
    destruct (i - length (trajs w)) as [|k] eqn:Ei; cbn in Hi; [|destruct k; discriminate].
    destruct (j - length (trajs w)) as [|k] eqn:Ej; cbn in Hj; [|destruct k; discriminate]. lia.
Qed.

Lemma excl_of_upd w w' r t t' :
  excl w -> nth_error (trajs w) r = Some t -> trajs w' = set_nth r t' (trajs w) ->
  (xb t' = xb t \/ forall t0, In t0 (trajs w) -> xb t0 <> xb t') -> excl w'.
Proof.
  intros He Hr Ht Hx i j ti tj Hi Hj Hne. rewrite Ht in Hi, Hj.
  assert (Hlen : r < length (trajs w)) by (apply nth_error_Some; congruence).
  destruct (Nat.eq_dec r i) as [Ei|Ni]; [subst i|]; (destruct (Nat.eq_dec r j) as [Ej|Nj]; [subst j|]); try lia.
  - rewrite nth_error_set_nth_same in Hi by assumption. rewrite nth_error_set_nth_other in Hj by assumption.
    inversion Hi; subst. destruct Hx as [E|Hf].
    + rewrite E. eapply He; eauto.
    + intro E. symmetry in E. revert E. apply Hf. eapply nth_error_In; eauto.
  - rewrite nth_error_set_nth_other in Hi by assumption. rewrite nth_error_set_nth_same in Hj by assumption.
    inversion Hj; subst. destruct Hx as [E|Hf].
    + rewrite E. eapply He; eauto.
    + apply Hf. eapply nth_error_In; eauto.
  - rewrite nth_error_set_nth_other in Hi, Hj by assumption. eapply He; eauto.
Qed.

Lemma excl_same_trajs w w' : excl w -> trajs w' = trajs w -> excl w'.
Proof. intros He Ht i j ti tj. rewrite Ht. apply He. Qed.

Lemma fresh_of_bound w t' : wf w -> length (hx w) <= xb t' -> forall t, In t (trajs w) -> xb t <> xb t'.
Proof.
  intros Hwf Hb t Hin. unfold wf in Hwf. rewrite Forall_forall in Hwf. destruct (Hwf t Hin) as [[Hx _] _]. lia.
Qed.

Lemma step_excl v w o w' x : wf w -> excl w -> plain_op o = true -> step v w o = (w', x) -> excl w'.
Proof.
  intros Hwf He Hp H.
  destruct (makes_new_xyz o) eqn:Hm.
  - destruct x as [|e].
    + destruct (step_fresh_xyz _ _ _ _ Hwf Hm H) as [t' [Ht Hf]]. eapply excl_of_new; eauto.
      intros t Hin. apply Hf. exact Hin.
    + assert (w' = w); [|subst; exact He].
      destruct o; cbn [makes_new_xyz] in Hm; try discriminate; cbn [step] in H.
      * eapply slice_err; eauto.
      * eapply join_err; eauto.
      * eapply mdjoin_err; eauto.
      * eapply stack_err; eauto.
      * eapply atom_slice_err; eauto.
      * eapply remove_solvent_err; eauto.
  - destruct o; cbn [makes_new_xyz plain_op] in Hm, Hp; try discriminate; try congruence; cbn [step] in H.
    + (* atom_slice inplace *) destruct inplace; [|discriminate].
      destruct x as [|e]; [|apply atom_slice_err in H; subst; auto].
      destruct (nth_error (trajs w) r) as [t|] eqn:Hr; [|unfold do_atom_slice in H; rewrite Hr in H; discriminate].
      destruct (atom_slice_inplace_ok _ _ _ _ _ _ Hwf Hr H) as [t' [ni [_ [Ht [_ [_ [_ [_ [_ [_ [_ [_ [_ [_ Hb]]]]]]]]]]]]]].
      eapply excl_of_upd; eauto. right. apply fresh_of_bound; auto.
    + (* remove_solvent inplace *) destruct inplace; [|discriminate].
      destruct x as [|e]; [|apply remove_solvent_err in H; subst; auto].
      unfold do_remove_solvent in H. destruct (nth_error (trajs w) r) as [t|] eqn:Hr; [|discriminate].
      destruct (atom_slice_inplace_ok _ _ _ _ _ _ Hwf Hr H) as [t' [ni [_ [Ht [_ [_ [_ [_ [_ [_ [_ [_ [_ [_ Hb]]]]]]]]]]]]]].
      eapply excl_of_upd; eauto. right. apply fresh_of_bound; auto.
    + (* center *) unfold do_center in H. destruct (nth_error (trajs w) r) as [t|] eqn:Hr; [|inversion H; subst; auto].
      destruct mass_weighted.
      * destruct (Nat.eqb (length (kinds t)) (na t)); cbn [negb] in H; inversion H; subst; auto.
        eapply (excl_of_upd w _ r t (set_tr t None)); eauto.
      * destruct (Nat.eqb (nframes t) 0); [inversion H; subst; auto|].
        destruct (new_arr _ _) as [w2 c] eqn:N. inversion H; subst. apply new_arr_spec in N. destruct N as [N1 _].
        eapply (excl_of_upd w _ r t (set_tr t (Some c))); eauto. cbn [trajs put]. now rewrite (ext_trajs _ _ N1).
    + (* superpose *) unfold do_superpose in H.
      destruct (nth_error (trajs w) r) as [t|] eqn:Hr; [|inversion H; subst; auto].
      destruct (nth_error (trajs w) ref) as [q|]; [|inversion H; subst; auto].
      destruct (norm_index (nframes q) frame); [|inversion H; subst; auto].
      destruct (Nat.eqb (na t) (na q)); cbn [negb] in H; [|inversion H; subst; eapply excl_same_trajs; eauto].
      destruct (Nat.eqb (length (kinds t)) (na t)); cbn [negb] in H; [|inversion H; subst; eapply excl_same_trajs; eauto].
      inversion H; subst. eapply (excl_of_upd w _ r t (set_tr t None)); eauto.
    + (* xyz = new array *) unfold do_set_xyz_new in H.
      destruct (nth_error (trajs w) r) as [t|] eqn:Hr; [|inversion H; subst; auto].
      destruct (Nat.eqb (length (kinds t)) natoms); cbn [negb] in H; [|inversion H; subst; auto].
      destruct (fresh_src w) as [w1 s] eqn:S. destruct (alloc_x w1 _) as [w2 b] eqn:A. inversion H; subst.
      apply fresh_src_spec in S. destruct S as [S1 [S2 _]]. apply alloc_x_spec in A. destruct A as [A1 [A2 _]].
      eapply (excl_of_upd w _ r t (set_x t b (seq 0 m) natoms)); eauto.
      * cbn [trajs put]. now rewrite (ext_trajs _ _ (ext_trans _ _ _ S1 A1)).
      * right. apply fresh_of_bound; auto. cbn [xb set_x]. rewrite A2, S2. lia.
    + (* time = new *) unfold do_set_time_new in H.
      destruct (nth_error (trajs w) r) as [t|] eqn:Hr; [|inversion H; subst; auto].
      destruct (Nat.eqb m (nframes t)); cbn [negb] in H; [|inversion H; subst; auto].
      destruct (fresh_src w) as [w1 s] eqn:S. destruct (new_arr w1 _) as [w2 a] eqn:A. inversion H; subst.
      apply fresh_src_spec in S. destruct S as [S1 _]. apply new_arr_spec in A. destruct A as [A1 _].
      eapply (excl_of_upd w _ r t (set_tm t a)); eauto. cbn [trajs put]. now rewrite (ext_trajs _ _ (ext_trans _ _ _ S1 A1)).
    + (* time = shared *) unfold do_set_time_share in H.
      destruct (nth_error (trajs w) r) as [t|] eqn:Hr; [|inversion H; subst; auto].
      destruct (nth_error (trajs w) r') as [o|]; [|inversion H; subst; auto].
      destruct (Nat.eqb (length (a_val (tm o))) (nframes t)); cbn [negb] in H; inversion H; subst; auto.
      eapply (excl_of_upd w _ r t (set_tm t (tm o))); eauto.
    + (* lengths *) unfold do_set_cell_part in H.
      destruct (nth_error (trajs w) r) as [t|] eqn:Hr; [|inversion H; subst; auto].
      destruct m as [m|].
      * destruct (Nat.eqb m (nframes t)); cbn [negb] in H; [|inversion H; subst; auto].
        destruct (fresh_src w) as [w1 s] eqn:S. destruct (new_arr w1 _) as [w2 a] eqn:A. inversion H; subst.
        apply fresh_src_spec in S. destruct S as [S1 _]. apply new_arr_spec in A. destruct A as [A1 _].
        eapply (excl_of_upd w _ r t (set_cell t (Some a) (ua t))); eauto.
        cbn [trajs put]. now rewrite (ext_trajs _ _ (ext_trans _ _ _ S1 A1)).
      * inversion H; subst. eapply (excl_of_upd w _ r t (set_cell t None (ua t))); eauto.
    + (* angles *) unfold do_set_cell_part in H.
      destruct (nth_error (trajs w) r) as [t|] eqn:Hr; [|inversion H; subst; auto].
      destruct m as [m|].
      * destruct (Nat.eqb m (nframes t)); cbn [negb] in H; [|inversion H; subst; auto].
        destruct (fresh_src w) as [w1 s] eqn:S. destruct (new_arr w1 _) as [w2 a] eqn:A. inversion H; subst.
        apply fresh_src_spec in S. destruct S as [S1 _]. apply new_arr_spec in A. destruct A as [A1 _].
        eapply (excl_of_upd w _ r t (set_cell t (ul t) (Some a))); eauto.
        cbn [trajs put]. now rewrite (ext_trajs _ _ (ext_trans _ _ _ S1 A1)).
      * inversion H; subst. eapply (excl_of_upd w _ r t (set_cell t (ul t) None)); eauto.
    + (* vectors *) unfold do_set_vectors in H.
      destruct (nth_error (trajs w) r) as [t|] eqn:Hr; [|inversion H; subst; auto].
      assert (Hdrop : excl (put w r (set_cell t None None))).
      { eapply (excl_of_upd w _ r t (set_cell t None None)); eauto. }
      destruct m as [m|]; [|inversion H; subst; exact Hdrop].
      destruct (allzero || Nat.eqb m 0); [inversion H; subst; exact Hdrop|].
      destruct (Nat.eqb m (nframes t)); cbn [negb] in H; [|inversion H; subst; auto].
      destruct (fresh_src w) as [w1 s] eqn:S. destruct (new_arr w1 _) as [w2 l] eqn:A.
      destruct (new_arr w2 _) as [w3 a] eqn:B. inversion H; subst.
      apply fresh_src_spec in S. destruct S as [S1 _]. apply new_arr_spec in A. destruct A as [A1 _].
      apply new_arr_spec in B. destruct B as [B1 _].
      match goal with |- excl (put _ _ ?t2) => eapply (excl_of_upd w _ r t t2); eauto end.
      cbn [trajs put]. now rewrite (ext_trajs _ _ (ext_trans _ _ _ S1 (ext_trans _ _ _ A1 B1))).
    + (* reading the cell *) destruct (nth_error (trajs w) r); inversion H; subst; exact He.
Qed.

Lemma init_excl sps : excl (init_world sps).
Proof.
  unfold init_world.
  assert (H : wf empty_world /\ excl empty_world).
  { split; [constructor|]. intros i j ti tj Hi. destruct i; discriminate. }
  revert H. generalize empty_world. induction sps as [|sp rest IH]; intros w [Hw He]; cbn; [exact He|].
  apply IH. split; [apply load_wf; exact Hw|].
  destruct sp as [[[n chs] cell] etime]. unfold load.
  destruct (fresh_src w) as [w1 s] eqn:S. destruct (alloc_x w1 _) as [w2 b] eqn:A.
  destruct (fresh_top w2) as [w3 tl] eqn:T. destruct (new_arr w3 _) as [w4 tm'] eqn:N4.
  lazymatch goal with |- excl (let '(_, _) := ?e in _) => destruct e as [w5 l] eqn:N5 end.
  lazymatch goal with |- excl (let '(_, _) := ?e in _) => destruct e as [w6 a] eqn:N6 end.
  assert (Ht : trajs w6 = trajs w /\ b = length (hx w)).
  { unfold fresh_src in S. unfold alloc_x in A. unfold fresh_top in T. unfold new_arr, fresh_buf in *.
    inversion S; subst; clear S. inversion A; subst; clear A. inversion T; subst; clear T. inversion N4; subst; clear N4.
    destruct cell; inversion N5; subst; clear N5; inversion N6; subst; clear N6; auto. }
  destruct Ht as [Ht Hb].
  eapply (excl_of_new w); eauto.
  - cbn [trajs push]. rewrite Ht. reflexivity.
  - apply fresh_of_bound; auto. cbn [xb]. lia.
Qed.

(* the dynamic guard follows from the syntactic condition *)
Lemma plain_guarded ops : forall w, wf w -> excl w ->
  forallb plain_op ops = true -> guarded top_guard v_fix w ops = true -> guarded inplace_guard v_fix w ops = true.
Proof.
  induction ops as [|o rest IH]; intros w Hw He Hp Hg; [reflexivity|].
  cbn [forallb] in Hp. apply andb_true_iff in Hp. destruct Hp as [P1 P2].
  cbn [guarded] in *. apply andb_true_iff in Hg. destruct Hg as [G1 G2].
  destruct (step v_fix w o) as [w1 x] eqn:S. cbn [fst] in *.
  apply andb_true_iff. split.
  - destruct o; cbn [inplace_guard top_guard] in *; auto.
    + apply excl_inplace_safe; auto.
    + rewrite excl_inplace_safe by auto. exact G1.
  - apply IH; auto; [eapply step_wf; eauto|eapply step_excl; eauto].
Qed.

Lemma run_cinv_plain sps ops :
  forallb plain_op ops = true -> guarded top_guard v_fix (init_world sps) ops = true ->
  cinv (fst (run v_fix (init_world sps) ops)).
Proof.
  intros Hp Hg. apply run_cinv_init. apply plain_guarded; auto using init_wf, init_excl.
Qed.

(* non-vacuity: the witnesses of the two recorded defects are plain histories satisfying the guard; with the
   repaired code their caches are consistent, as the theorem says *)
Definition ops_plain_demo : list op :=
  [OCenter 0 false; OSlice 0 (KSlice (Some 1%Z) None None) true; OSlice 0 (KInt (-1)%Z) true; OSlice 0 (KList [2%Z; 2%Z; 0%Z]) true;
   OSuperpose 1 0 0%Z; OCenter 1 false; OAtomSlice 0 [0%Z; 2%Z] true; OJoin 1 [1] true true; OStack 1 1; OCenter 4 true].
Lemma plain_demo :
  forallb plain_op ops_plain_demo = true /\ guarded top_guard v_fix (init_world specs1) ops_plain_demo = true /\
  snd (run v_fix (init_world specs1) ops_plain_demo) = [ROk; ROk; ROk; ROk; ROk; ROk; ROk; ROk; ROk; ROk] /\
  cinvb (fst (run v_fix (init_world specs1) ops_plain_demo)) = true.
Proof. vm_compute. repeat split; reflexivity. Qed.
