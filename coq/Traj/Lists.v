(* List and indexing lemmas used by the trajectory proofs (C03). *)
From Coq Require Import List Arith ZArith Bool Lia.
Import ListNotations.
Require Import MD.Traj.Model.

(* ------------------------------------------------------------------ sel *)
Lemma length_sel {A} (d : A) l idx : length (sel d l idx) = length idx.
Proof. unfold sel. apply map_length. Qed.

Lemma sel_nil {A} (d : A) l : sel d l [] = [].
Proof. reflexivity. Qed.

Lemma sel_app {A} (d : A) l i1 i2 : sel d l (i1 ++ i2) = sel d l i1 ++ sel d l i2.
Proof. unfold sel. apply map_app. Qed.

Lemma sel_seq_shift {A} (d : A) (x : A) l k n : sel d (x :: l) (seq (S k) n) = sel d l (seq k n).
Proof. unfold sel. rewrite <- seq_shift, map_map. reflexivity. Qed.

Lemma sel_seq_id {A} (d : A) l : sel d l (seq 0 (length l)) = l.
Proof.
  unfold sel. induction l as [|x r IH]; [reflexivity|].
  cbn [length seq map nth]. f_equal. rewrite <- seq_shift, map_map. exact IH.
Qed.

Lemma sel_sel {A} (d : A) l idx jdx :
  Forall (fun j => j < length idx) jdx ->
  sel d (sel d l idx) jdx = sel d l (sel 0 idx jdx).
Proof.
  intros H. unfold sel. rewrite map_map. apply map_ext_in. intros j Hj.
  rewrite Forall_forall in H. specialize (H j Hj).
  transitivity (nth j (map (fun i => nth i l d) idx) ((fun i => nth i l d) 0)).
  - apply nth_indep. rewrite map_length; exact H.
  - apply (map_nth (fun i => nth i l d) idx 0 j).
Qed.

Lemma sel_map {A B} (g : A -> B) (d : A) l idx :
  Forall (fun i => i < length l) idx -> sel (g d) (map g l) idx = map g (sel d l idx).
Proof.
  intros H. unfold sel. rewrite map_map. apply map_ext_in. intros i Hi.
  apply map_nth.
Qed.

Lemma sel_default_indep {A} (d d' : A) l idx :
  Forall (fun i => i < length l) idx -> sel d l idx = sel d' l idx.
Proof.
  intros H. unfold sel. apply map_ext_in. intros i Hi. rewrite Forall_forall in H. apply nth_indep. auto.
Qed.

Lemma Forall_sel_lt (ps idx : list nat) n m :
  Forall (fun i => i < length ps) idx -> Forall (fun p => p < m) ps -> n = 0 ->
  Forall (fun p => p < m) (sel n ps idx).
Proof.
  intros Hi Hp _. unfold sel. rewrite Forall_forall in *. intros p Hin. apply in_map_iff in Hin.
  destruct Hin as [i [<- Hi']]. apply Hp. apply nth_In. auto.
Qed.

Lemma NoDup_sel (ps idx : list nat) :
  NoDup ps -> NoDup idx -> Forall (fun i => i < length ps) idx -> NoDup (sel 0 ps idx).
Proof.
  intros Hps Hidx Hlt. unfold sel. induction idx as [|i r IH]; cbn [map]; [constructor|].
  inversion Hidx as [|? ? Hnot Hr]; subst. inversion Hlt as [|? ? Hi Hlr]; subst.
  constructor; [|auto].
  intros Hin. apply in_map_iff in Hin. destruct Hin as [j [Hj Hjr]].
  assert (j = i).
  { rewrite Forall_forall in Hlr. apply (proj1 (NoDup_nth ps 0) Hps j i); auto. }
  subst. contradiction.
Qed.

(* ------------------------------------------------------------------ set_nth *)
Lemma length_set_nth {A} i (x : A) l : length (set_nth i x l) = length l.
Proof. revert i; induction l as [|y r IH]; intros [|i]; cbn; auto. Qed.

Lemma nth_set_nth_same {A} i (x d : A) l : i < length l -> nth i (set_nth i x l) d = x.
Proof. revert i; induction l as [|y r IH]; intros [|i] H; cbn in *; try lia; auto. apply IH. lia. Qed.

Lemma nth_set_nth_other {A} i j (x d : A) l : i <> j -> nth j (set_nth i x l) d = nth j l d.
Proof. revert i j; induction l as [|y r IH]; intros [|i] [|j] H; cbn; auto; try lia. Qed.

Lemma nth_error_set_nth_same {A} i (x : A) l : i < length l -> nth_error (set_nth i x l) i = Some x.
Proof. revert i; induction l as [|y r IH]; intros [|i] H; cbn in *; try lia; auto. apply IH. lia. Qed.

Lemma nth_error_set_nth_other {A} i j (x : A) l : i <> j -> nth_error (set_nth i x l) j = nth_error l j.
Proof. revert i j; induction l as [|y r IH]; intros [|i] [|j] H; cbn; auto; try lia. Qed.

Lemma In_set_nth {A} i (x y : A) l : In y (set_nth i x l) -> y = x \/ In y l.
Proof.
  revert i; induction l as [|z r IH]; intros [|i] H; cbn in *; auto.
  - destruct H; auto.
  - destruct H as [H|H]; auto. destruct (IH _ H); auto.
Qed.

(* ------------------------------------------------------------------ write_pos *)
Lemma length_write_pos l ps vs : length (write_pos l ps vs) = length l.
Proof.
  revert l vs; induction ps as [|p pr IH]; intros l [|v vr]; cbn; auto.
  rewrite IH. apply length_set_nth.
Qed.

Lemma nth_write_pos_other l ps vs q d : ~ In q ps -> nth q (write_pos l ps vs) d = nth q l d.
Proof.
  revert l vs; induction ps as [|p pr IH]; intros l [|v vr] H; cbn; auto.
  rewrite IH by (intro; apply H; right; auto).
  apply nth_set_nth_other. intro; subst. apply H. left; auto.
Qed.

Lemma sel_write_pos_same l ps vs d :
  NoDup ps -> Forall (fun p => p < length l) ps -> length vs = length ps ->
  sel d (write_pos l ps vs) ps = vs.
Proof.
  revert l vs; induction ps as [|p pr IH]; intros l [|v vr] Hnd Hlt Hlen; cbn in *; try discriminate; auto.
  inversion Hnd as [|? ? Hnot Hnd']; subst. inversion Hlt as [|? ? Hp Hlt']; subst.
  unfold sel. cbn [map]. f_equal.
  - rewrite nth_write_pos_other by assumption. apply nth_set_nth_same; assumption.
  - apply IH; auto.
    + rewrite Forall_forall in *. intros q Hq. rewrite length_set_nth. auto.
Qed.

Lemma sel_write_pos_disjoint l ps vs qs d :
  (forall q, In q qs -> ~ In q ps) -> sel d (write_pos l ps vs) qs = sel d l qs.
Proof.
  intros H. unfold sel. apply map_ext_in. intros q Hq. apply nth_write_pos_other. auto.
Qed.

(* writing back what is already there changes nothing *)
Lemma write_pos_same l ps d :
  NoDup ps -> Forall (fun p => p < length l) ps -> write_pos l ps (sel d l ps) = l.
Proof.
  revert l; induction ps as [|p pr IH]; intros l Hnd Hlt; cbn; auto.
  inversion Hnd as [|? ? Hnot Hnd']; subst. inversion Hlt as [|? ? Hp Hlt']; subst.
  assert (E : set_nth p (nth p l d) l = l).
  { clear -Hp. revert p Hp; induction l as [|y r IH]; intros [|p] Hp; cbn in *; try lia; auto.
    f_equal. apply IH. lia. }
  rewrite E. apply IH; auto.
Qed.

(* ------------------------------------------------------------------ equality tests *)
Lemma list_eqb_eq {A} (e : A -> A -> bool) :
  (forall a b, e a b = true <-> a = b) -> forall l1 l2, list_eqb e l1 l2 = true <-> l1 = l2.
Proof.
  intros He. induction l1 as [|a r IH]; intros [|b q]; cbn; split; intro H; try discriminate; auto.
  - apply andb_true_iff in H. destruct H as [H1 H2]. apply He in H1. apply IH in H2. subst; auto.
  - inversion H; subst. apply andb_true_iff. split; [apply He; auto|apply IH; auto].
Qed.

Lemma nat_list_eqb_eq l1 l2 : list_eqb Nat.eqb l1 l2 = true <-> l1 = l2.
Proof. apply list_eqb_eq. intros; apply Nat.eqb_eq. Qed.

Lemma fr_eqb_eq a : forall b, fr_eqb a b = true <-> a = b.
Proof.
  induction a as [s f w|idx x IH|x IH|ks x IH|x IHx r IHr|x IHx r IHr]; intros [s' f' w'|idx' y|y|ks' y|y q|y q];
    cbn; split; intro H; try discriminate; try (inversion H; fail).
  - repeat (apply andb_true_iff in H; destruct H as [H ?]). apply Nat.eqb_eq in H.
    repeat match goal with E : Nat.eqb _ _ = true |- _ => apply Nat.eqb_eq in E end. subst; auto.
  - inversion H; subst. rewrite !Nat.eqb_refl. reflexivity.
  - apply andb_true_iff in H. destruct H as [H1 H2]. apply nat_list_eqb_eq in H1. apply IH in H2. subst; auto.
  - inversion H; subst. apply andb_true_iff. split; [apply nat_list_eqb_eq; auto|apply IH; auto].
  - apply IH in H. subst; auto.
  - inversion H; subst. apply IH; auto.
  - apply andb_true_iff in H. destruct H as [H1 H2]. apply nat_list_eqb_eq in H1. apply IH in H2. subst; auto.
  - inversion H; subst. apply andb_true_iff. split; [apply nat_list_eqb_eq; auto|apply IH; auto].
  - apply andb_true_iff in H. destruct H as [H1 H2]. apply IHx in H1. apply IHr in H2. subst; auto.
  - inversion H; subst. apply andb_true_iff. split; [apply IHx|apply IHr]; auto.
  - apply andb_true_iff in H. destruct H as [H1 H2]. apply IHx in H1. apply IHr in H2. subst; auto.
  - inversion H; subst. apply andb_true_iff. split; [apply IHx|apply IHr]; auto.
Qed.

Lemma cen_idem x : cen (cen x) = cen x.
Proof. destruct x; reflexivity. Qed.

Lemma is_cen_cen x : is_cen (cen x) = true.
Proof. destruct x; reflexivity. Qed.

Lemma cen_fix x : is_cen x = true -> cen x = x.
Proof. destruct x; cbn; intro H; try discriminate; reflexivity. Qed.

(* cache_match tr fs  <->  tr = fs and every frame is centred *)
Lemma cache_match_iff tr fs :
  cache_match tr fs = true <-> tr = fs /\ Forall (fun x => is_cen x = true) fs.
Proof.
  revert fs; induction tr as [|a r IH]; intros [|b q]; cbn; split; intro H; try discriminate; auto.
  - destruct H as [H _]; discriminate.
  - destruct H as [H _]; discriminate.
  - apply andb_true_iff in H. destruct H as [H H3]. apply andb_true_iff in H. destruct H as [H1 H2].
    apply fr_eqb_eq in H1. apply IH in H3. destruct H3 as [-> Hq]. subst. split; auto.
  - destruct H as [H1 H2]. inversion H1; subst. inversion H2; subst.
    apply andb_true_iff. split; [apply andb_true_iff; split; [apply fr_eqb_eq; auto|auto]|apply IH; auto].
Qed.

(* ------------------------------------------------------------------ numpy index normalisation *)
Lemma norm_index_lt n z i : norm_index n z = Some i -> i < n.
Proof.
  unfold norm_index. intros H.
  destruct ((0 <=? z)%Z && (z <? Z.of_nat n)%Z) eqn:E1.
  - inversion H; subst. apply andb_true_iff in E1. destruct E1 as [E1 E2].
    apply Z.leb_le in E1. apply Z.ltb_lt in E2. lia.
  - destruct ((z <? 0)%Z && (- Z.of_nat n <=? z)%Z) eqn:E2; [|discriminate].
    inversion H; subst. apply andb_true_iff in E2. destruct E2 as [E2 E3].
    apply Z.ltb_lt in E2. apply Z.leb_le in E3. lia.
Qed.

Lemma norm_indices_lt n l idx : norm_indices n l = Some idx -> Forall (fun i => i < n) idx.
Proof.
  revert idx; induction l as [|z r IH]; intros idx H; cbn in H.
  - inversion H; constructor.
  - destruct (norm_index n z) eqn:E1; [|discriminate]. destruct (norm_indices n r) eqn:E2; [|discriminate].
    inversion H; subst. constructor; [eapply norm_index_lt; eauto|auto].
Qed.

Lemma norm_indices_length n l idx : norm_indices n l = Some idx -> length idx = length l.
Proof.
  revert idx; induction l as [|z r IH]; intros idx H; cbn in H.
  - inversion H; reflexivity.
  - destruct (norm_index n z); [|discriminate]. destruct (norm_indices n r) eqn:E2; [|discriminate].
    inversion H; subst. cbn. f_equal. auto.
Qed.

Lemma mask_positions_lt m : forall i, Forall (fun p => p < i + length m) (mask_positions i m).
Proof.
  induction m as [|b r IH]; intros i; cbn; [constructor|].
  destruct b.
  - constructor; [lia|]. specialize (IH (S i)). eapply Forall_impl; [|exact IH]. cbn. intros; lia.
  - specialize (IH (S i)). eapply Forall_impl; [|exact IH]. cbn. intros; lia.
Qed.

Lemma mask_positions_ge m : forall i, Forall (fun p => i <= p) (mask_positions i m).
Proof.
  induction m as [|b r IH]; intros i; cbn; [constructor|].
  destruct b.
  - constructor; [lia|]. specialize (IH (S i)). eapply Forall_impl; [|exact IH]. cbn. intros; lia.
  - specialize (IH (S i)). eapply Forall_impl; [|exact IH]. cbn. intros; lia.
Qed.

Lemma mask_positions_NoDup m : forall i, NoDup (mask_positions i m).
Proof.
  induction m as [|b r IH]; intros i; cbn; [constructor|].
  destruct b; [|apply IH].
  constructor; [|apply IH].
  intro Hin. pose proof (mask_positions_ge r (S i)) as H. rewrite Forall_forall in H. specialize (H _ Hin). lia.
Qed.

Lemma NoDup_map_inj_in {A B} (f : A -> B) l :
  (forall x y, In x l -> In y l -> f x = f y -> x = y) -> NoDup l -> NoDup (map f l).
Proof.
  intros Hinj Hnd. induction Hnd as [|a r Hnot Hr IH]; cbn; [constructor|].
  constructor.
  - intros Hin. apply in_map_iff in Hin. destruct Hin as [y [Hy Hyr]].
    assert (y = a) by (apply Hinj; cbn; auto). subst. contradiction.
  - apply IH. intros x y Hx Hy. apply Hinj; cbn; auto.
Qed.

(* Python slice positions: start + i*step, all inside [0, n), pairwise distinct *)
Lemma slice_indices_spec n a b c idx :
  slice_indices n a b c = Some idx ->
  Forall (fun p => p < n) idx /\ NoDup idx.
Proof.
  unfold slice_indices.
  set (n' := Z.of_nat n). set (step := match c with None => 1%Z | Some s => s end).
  destruct (step =? 0)%Z eqn:Es; [discriminate|]. apply Z.eqb_neq in Es.
  set (neg := (step <? 0)%Z).
  set (adj := fun z : Z => if (z <? 0)%Z then (let z' := (z + n')%Z in if (z' <? 0)%Z then (if neg then (-1)%Z else 0%Z) else z')
                  else if (n' <=? z)%Z then (if neg then (n' - 1)%Z else n') else z).
  set (start := match a with None => if neg then (n' - 1)%Z else 0%Z | Some z => adj z end).
  set (stop := match b with None => if neg then (-1)%Z else n' | Some z => adj z end).
  set (len := if neg then (if (stop <? start)%Z then ((start - stop - 1) / (- step) + 1)%Z else 0%Z)
             else (if (start <? stop)%Z then ((stop - start - 1) / step + 1)%Z else 0%Z)).
  intros H.
  assert (Hidx : idx = map (fun i => Z.to_nat (start + Z.of_nat i * step)) (seq 0 (Z.to_nat len)))
    by (inversion H; reflexivity).
  clear H. rewrite Hidx. clear Hidx.
  assert (Hn : (0 <= n')%Z) by (unfold n'; lia).
  assert (Hadj : forall z, if neg then (-1 <= adj z <= n' - 1)%Z else (0 <= adj z <= n')%Z).
  { intros z. unfold adj. destruct neg;
      destruct (z <? 0)%Z eqn:E1; cbn zeta; [destruct (z + n' <? 0)%Z eqn:E2| destruct (n' <=? z)%Z eqn:E2 |
                                   destruct (z + n' <? 0)%Z eqn:E2| destruct (n' <=? z)%Z eqn:E2];
      try apply Z.ltb_lt in E1; try apply Z.ltb_ge in E1; try apply Z.ltb_lt in E2; try apply Z.ltb_ge in E2;
      try apply Z.leb_le in E2; try apply Z.leb_gt in E2; lia. }
  assert (Hstart : if neg then (-1 <= start <= n' - 1)%Z else (0 <= start <= n')%Z).
  { unfold start. destruct a as [z|]; [apply Hadj|]. destruct neg; lia. }
  assert (Hstop : if neg then (-1 <= stop <= n' - 1)%Z else (0 <= stop <= n')%Z).
  { unfold stop. destruct b as [z|]; [apply Hadj|]. destruct neg; lia. }
  (* every position start + i*step, i < len, lies in [0, n') *)
  assert (Hrange : forall i, (0 <= i < len)%Z -> (0 <= start + i * step < n')%Z).
  { intros i Hi. unfold len in Hi. unfold neg in *. destruct (step <? 0)%Z eqn:En.
    - apply Z.ltb_lt in En. destruct (stop <? start)%Z eqn:El; [|lia]. apply Z.ltb_lt in El.
      pose proof (Z.mul_div_le (start - stop - 1) (- step) ltac:(lia)) as Hd.
      assert (i <= (start - stop - 1) / - step)%Z by lia.
      assert (i * (- step) <= (start - stop - 1))%Z by nia.
      split; nia.
    - apply Z.ltb_ge in En. destruct (start <? stop)%Z eqn:El; [|lia]. apply Z.ltb_lt in El.
      pose proof (Z.mul_div_le (stop - start - 1) step ltac:(lia)) as Hd.
      assert (i <= (stop - start - 1) / step)%Z by lia.
      assert (i * step <= (stop - start - 1))%Z by nia.
      split; nia. }
  split.
  - rewrite Forall_forall. intros p Hp. apply in_map_iff in Hp. destruct Hp as [i [<- Hi]].
    apply in_seq in Hi. specialize (Hrange (Z.of_nat i) ltac:(lia)). unfold n' in Hrange. lia.
  - apply NoDup_map_inj_in; [|apply seq_NoDup].
    intros i j Hi Hj E. apply in_seq in Hi. apply in_seq in Hj.
    pose proof (Hrange (Z.of_nat i) ltac:(lia)). pose proof (Hrange (Z.of_nat j) ltac:(lia)).
    assert ((start + Z.of_nat i * step = start + Z.of_nat j * step)%Z) by lia.
    assert ((Z.of_nat i - Z.of_nat j) * step = 0)%Z by lia.
    apply Z.mul_eq_0 in H2. lia.
Qed.

Lemma key_positions_lt n k idx s : key_positions n k = inr (idx, s) -> Forall (fun p => p < n) idx.
Proof.
  destruct k as [z|a b c|l|m]; cbn; intro H.
  - destruct (norm_index n z) eqn:E; [|discriminate]. inversion H; subst. constructor; [|constructor].
    eapply norm_index_lt; eauto.
  - destruct (slice_indices n a b c) eqn:E; [|discriminate]. inversion H; subst.
    apply slice_indices_spec in E. tauto.
  - destruct (norm_indices n l) eqn:E; [|discriminate]. inversion H; subst. eapply norm_indices_lt; eauto.
  - destruct (Nat.eqb (length m) n || Nat.eqb (length m) 0) eqn:E; [|discriminate]. inversion H; subst.
    apply orb_true_iff in E. destruct E as [E|E]; apply Nat.eqb_eq in E.
    + subst. apply (mask_positions_lt m 0).
    + destruct m; [constructor|discriminate].
Qed.

(* a key that numpy serves with a view (or a single row) selects pairwise distinct positions *)
Lemma key_positions_view_NoDup n k idx s :
  key_positions n k = inr (idx, s) -> s <> KsFancy -> NoDup idx.
Proof.
  destruct k as [z|a b c|l|m]; cbn; intros H Hs.
  - destruct (norm_index n z); [|discriminate]. inversion H; subst. constructor; [intros []|constructor].
  - destruct (slice_indices n a b c) eqn:E; [|discriminate]. inversion H; subst.
    apply slice_indices_spec in E. tauto.
  - destruct (norm_indices n l); [|discriminate]. inversion H; subst. contradiction.
  - destruct (Nat.eqb (length m) n || Nat.eqb (length m) 0); [|discriminate]. inversion H; subst. contradiction.
Qed.
