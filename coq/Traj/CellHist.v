(* Trajectory-level half of C17: which registers hold a complete unit cell after a history.
   Built on the per-operation lemmas of MD.Traj.Proofs. *)
From Coq Require Import List Arith ZArith Bool Lia.
Import ListNotations.
Require Import MD.Traj.Model MD.Traj.Lists MD.Traj.Proofs.

Definition is_some {A} (o : option A) : bool := match o with Some _ => true | None => false end.

(* lengths and angles are both present or both absent (what _check_valid_unitcell demands) *)
Definition complete_or_none (t : traj) : bool := Bool.eqb (is_some (ul t)) (is_some (ua t)).
(* lengths without angles / angles without lengths *)
Definition lengths_only (t : traj) : bool := is_some (ul t) && negb (is_some (ua t)).
Definition angles_only (t : traj) : bool := negb (is_some (ul t)) && is_some (ua t).

Lemma have_cell_is_some t : have_cell t = is_some (ul t) && is_some (ua t).
Proof. unfold have_cell. destruct (ul t), (ua t); reflexivity. Qed.

Lemma cell_sliced_presence k o o' : cell_sliced k o o' -> is_some o' = is_some o.
Proof. unfold cell_sliced. destruct o, o'; cbn; tauto. Qed.

(* the register an operation derives its result from, for the operations that build a trajectory out of others *)
Definition structural_source (o : op) : option nat :=
  match o with
  | OSlice r _ _ | OJoin r _ _ _ | OStack r _ | OAtomSlice r _ _ | ORemoveSolvent r _ => Some r
  | OMdJoin (r :: _) _ => Some r
  | _ => None
  end.

Definition is_inplace (o : op) : bool :=
  match o with OAtomSlice _ _ ip | ORemoveSolvent _ ip => ip | _ => false end.

(* slicing, joining, stacking and atom subsetting give a trajectory with a complete cell exactly when their
   (first) input had one; slices and stacks keep even a half-set cell as it is, joins and atom subsets never
   produce a half-set one *)
Lemma structural_have_cell v w o w' r t :
  wf w -> structural_source o = Some r -> nth_error (trajs w) r = Some t -> step v w o = (w', ROk) ->
  exists t',
    (if is_inplace o then nth_error (trajs w') r = Some t' else trajs w' = trajs w ++ [t']) /\
    have_cell t' = have_cell t /\
    match o with
    | OSlice _ _ _ | OStack _ _ => is_some (ul t') = is_some (ul t) /\ is_some (ua t') = is_some (ua t)
    | OJoin _ _ _ _ | OMdJoin _ _ => complete_or_none t' = true
    | _ => if is_inplace o then ul t' = ul t /\ ua t' = ua t else complete_or_none t' = true
    end.
Proof.
  intros Hwf Hs Hr H. destruct o; cbn [structural_source] in Hs; try discriminate; cbn [step is_inplace] in *.
  - inversion Hs; subst r0.
    destruct (slice_ok _ _ _ _ _ _ _ Hwf Hr H) as [t' [xi [xs [_ [Ht [_ [_ [_ [Cl [Ca _]]]]]]]]]].
    exists t'. apply cell_sliced_presence in Cl. apply cell_sliced_presence in Ca.
    split; [exact Ht|]. rewrite !have_cell_is_some, Cl, Ca. auto.
  - inversion Hs; subst r0. fold (step v w (OJoin r others check_top dis)) in H.
    destruct (join_step_full _ _ _ _ _ _ _ H) as [t0 [os [t' [plan [Hr0 [_ JF]]]]]].
    rewrite Hr in Hr0. inversion Hr0; subst t0. destruct JF as [_ [Ht [_ [_ [_ [Hc _]]]]]].
    exists t'. split; [exact Ht|]. unfold complete_or_none. rewrite have_cell_is_some.
    destruct (have_cell t) eqn:E.
    + destruct Hc as [l [a [-> [-> _]]]]. cbn. auto.
    + destruct Hc as [-> ->]. cbn. auto.
  - destruct rs as [|r1 rest]; [discriminate|]. inversion Hs; subst r1.
    fold (step v w (OMdJoin (r :: rest) dis)) in H.
    destruct (mdjoin_step_full _ _ _ _ _ H) as [t0 [o [os [t' [Hg MF]]]]].
    cbn [get_all] in Hg. rewrite Hr in Hg. destruct (get_all w rest) as [gr|]; [|discriminate]. injection Hg as E1 E2. subst t0. clear E2 gr.
    destruct MF as [Ht [_ [Hc _]]].
    exists t'. split; [exact Ht|]. unfold complete_or_none. rewrite have_cell_is_some. unfold cell_shape in Hc.
    destruct (have_cell t) eqn:E.
    + destruct Hc as [l [a [-> ->]]]. cbn. auto.
    + destruct Hc as [-> ->]. cbn. auto.
  - inversion Hs; subst r0.
    destruct (nth_error (trajs w) r') as [o|] eqn:Hr'; [|unfold do_stack in H; rewrite Hr, Hr' in H; discriminate].
    destruct (stack_ok _ _ _ _ _ _ Hwf Hr Hr' H) as [t' [Ht [_ [_ [_ [El [Ea _]]]]]]].
    exists t'. split; [exact Ht|]. apply cell_passed_is_some in El. apply cell_passed_is_some in Ea.
    unfold have_cell, is_some. destruct (ul t), (ul t'), (ua t), (ua t'); tauto.
  - inversion Hs; subst r0. destruct inplace.
    + destruct (atom_slice_inplace_ok _ _ _ _ _ _ Hwf Hr H) as [t' [ni [_ [Ht [_ [_ [_ [El [Ea _]]]]]]]]].
      exists t'. split.
      * rewrite Ht. apply nth_error_set_nth_same. apply nth_error_Some. congruence.
      * unfold have_cell. rewrite El, Ea. auto.
    + destruct (atom_slice_new_ok _ _ _ _ _ _ Hwf Hr H) as [t' [ni [_ [Ht [_ [_ [_ [Hc _]]]]]]]].
      exists t'. split; [exact Ht|]. unfold cell_copied in Hc. unfold complete_or_none. rewrite have_cell_is_some.
      destruct (have_cell t) eqn:E.
      * destruct Hc as [l [a [l' [a' [_ [_ [-> [-> _]]]]]]]]. cbn. auto.
      * destruct Hc as [-> ->]. cbn. auto.
  - inversion Hs; subst r0. unfold do_remove_solvent in H. rewrite Hr in H. destruct inplace.
    + destruct (atom_slice_inplace_ok _ _ _ _ _ _ Hwf Hr H) as [t' [ni [_ [Ht [_ [_ [_ [El [Ea _]]]]]]]]].
      exists t'. split.
      * rewrite Ht. apply nth_error_set_nth_same. apply nth_error_Some. congruence.
      * unfold have_cell. rewrite El, Ea. auto.
    + destruct (atom_slice_new_ok _ _ _ _ _ _ Hwf Hr H) as [t' [ni [_ [Ht [_ [_ [_ [Hc _]]]]]]]].
      exists t'. split; [exact Ht|]. unfold cell_copied in Hc. unfold complete_or_none. rewrite have_cell_is_some.
      destruct (have_cell t) eqn:E.
      * destruct Hc as [l [a [l' [a' [_ [_ [-> [-> _]]]]]]]]. cbn. auto.
      * destruct Hc as [-> ->]. cbn. auto.
Qed.

(* join refuses to mix trajectories with and without a (complete) cell *)
Lemma join_operands_agree v w r others ct dis w' t os :
  wf w -> nth_error (trajs w) r = Some t -> get_all w others = Some os ->
  step v w (OJoin r others ct dis) = (w', ROk) ->
  forallb (fun o => Bool.eqb (have_cell t) (have_cell o)) os = true.
Proof.
  intros Hwf Hr Ho H. destruct (join_step_full _ _ _ _ _ _ _ H) as [t0 [os0 [t' [plan [Hr0 [Ho0 JF]]]]]].
  rewrite Hr in Hr0. rewrite Ho in Ho0. inversion Hr0; inversion Ho0; subst. unfold join_facts in JF. tauto.
Qed.

(* ---- half-set cells arise only from assigning one part alone *)
Definition part_assignment (o : op) : bool :=
  match o with OSetLengths _ _ | OSetAngles _ _ => true | _ => false end.

Definition all_complete (w : world) : Prop := Forall (fun t => complete_or_none t = true) (trajs w).

Lemma complete_of_new w w' t' : all_complete w -> trajs w' = trajs w ++ [t'] -> complete_or_none t' = true -> all_complete w'.
Proof. intros Ha Ht Hn. unfold all_complete. rewrite Ht. apply Forall_app. split; auto. Qed.

Lemma complete_of_upd w w' r t' :
  all_complete w -> trajs w' = set_nth r t' (trajs w) -> complete_or_none t' = true -> all_complete w'.
Proof.
  intros Ha Ht Hn. unfold all_complete in *. rewrite Ht. rewrite Forall_forall in *. intros t0 Hin.
  apply In_set_nth in Hin. destruct Hin as [->|Hin]; auto.
Qed.

Lemma complete_lookup w r t : all_complete w -> nth_error (trajs w) r = Some t -> complete_or_none t = true.
Proof. intros Ha Hr. unfold all_complete in Ha. rewrite Forall_forall in Ha. apply Ha. eapply nth_error_In; eauto. Qed.

Lemma complete_same t t' : ul t' = ul t -> ua t' = ua t -> complete_or_none t' = complete_or_none t.
Proof. intros H1 H2. unfold complete_or_none. now rewrite H1, H2. Qed.

Lemma step_complete v w o w' x :
  wf w -> all_complete w -> part_assignment o = false -> step v w o = (w', x) -> all_complete w'.
Proof.
  intros Hwf Ha Hp H.
  destruct (structural_source o) as [r|] eqn:Hs.
  - (* structural operations *)
    destruct x as [|e].
    + destruct (nth_error (trajs w) r) as [t|] eqn:Hr.
      * destruct (structural_have_cell _ _ _ _ _ _ Hwf Hs Hr H) as [t' [Hpl [Hh Hk]]].
        pose proof (complete_lookup _ _ _ Ha Hr) as Hct.
        assert (Hc' : complete_or_none t' = true).
        { destruct o; cbn [structural_source is_inplace] in *; try discriminate.
          - destruct Hk as [K1 K2]. unfold complete_or_none in *. now rewrite K1, K2.
          - exact Hk.
          - exact Hk.
          - destruct Hk as [K1 K2]. unfold complete_or_none in *. now rewrite K1, K2.
          - destruct inplace; [destruct Hk as [K1 K2]; now rewrite (complete_same t t')|exact Hk].
          - destruct inplace; [destruct Hk as [K1 K2]; now rewrite (complete_same t t')|exact Hk]. }
        destruct (is_inplace o) eqn:Hip.
        -- (* in place: all other registers are untouched *)
           destruct o; cbn [structural_source is_inplace] in *; try discriminate; inversion Hs; subst r0; subst inplace;
             cbn [step] in H.
           ++ destruct (atom_slice_inplace_ok _ _ _ _ _ _ Hwf Hr H) as [t2 [ni [_ [Ht2 _]]]].
              eapply complete_of_upd; eauto. rewrite Ht2 in Hpl.
              rewrite nth_error_set_nth_same in Hpl by (apply nth_error_Some; congruence). inversion Hpl; subst. exact Hc'.
           ++ unfold do_remove_solvent in H. rewrite Hr in H.
              destruct (atom_slice_inplace_ok _ _ _ _ _ _ Hwf Hr H) as [t2 [ni [_ [Ht2 _]]]].
              eapply complete_of_upd; eauto. rewrite Ht2 in Hpl.
              rewrite nth_error_set_nth_same in Hpl by (apply nth_error_Some; congruence). inversion Hpl; subst. exact Hc'.
        -- eapply complete_of_new; eauto.
      * (* the source register does not exist: every such operation is refused *)
        exfalso. destruct o; cbn [structural_source] in Hs; try discriminate; cbn [step] in H.
        -- inversion Hs; subst. unfold do_slice in H. rewrite Hr in H. discriminate.
        -- inversion Hs; subst. unfold do_join in H. rewrite Hr in H. discriminate.
        -- destruct rs as [|r1 rest]; [discriminate|]. inversion Hs; subst. unfold do_mdjoin in H. cbn [get_all] in H.
           rewrite Hr in H. discriminate.
        -- inversion Hs; subst. unfold do_stack in H. rewrite Hr in H. discriminate.
        -- inversion Hs; subst. unfold do_atom_slice in H. rewrite Hr in H. discriminate.
        -- inversion Hs; subst. unfold do_remove_solvent in H. rewrite Hr in H. discriminate.
    + assert (w' = w); [|subst; exact Ha].
      destruct o; cbn [structural_source] in Hs; try discriminate; cbn [step] in H.
      * eapply slice_err; eauto.
      * eapply join_err; eauto.
      * eapply mdjoin_err; eauto.
      * eapply stack_err; eauto.
      * eapply atom_slice_err; eauto.
      * eapply remove_solvent_err; eauto.
  - (* in-place coordinate changes and assignments *)
    destruct o; cbn [structural_source part_assignment] in *; try discriminate; cbn [step] in H.
    + (* md.join [] *) destruct rs; [|discriminate]. unfold do_mdjoin in H. cbn in H. inversion H; subst. exact Ha.
    + (* center *) unfold do_center in H. destruct (nth_error (trajs w) r) as [t|] eqn:Hr; [|inversion H; subst; auto].
      pose proof (complete_lookup _ _ _ Ha Hr) as Hct.
      destruct mass_weighted.
      * destruct (Nat.eqb (length (kinds t)) (na t)); cbn [negb] in H; inversion H; subst; auto.
        eapply (complete_of_upd w _ r (set_tr t None)); eauto.
      * destruct (Nat.eqb (nframes t) 0); [inversion H; subst; auto|].
        destruct (new_arr _ _) as [w2 c] eqn:N. inversion H; subst. apply new_arr_spec in N. destruct N as [N1 _].
        eapply (complete_of_upd w _ r (set_tr t (Some c))); eauto. cbn [trajs put]. now rewrite (ext_trajs _ _ N1).
    + (* superpose *) unfold do_superpose in H.
      destruct (nth_error (trajs w) r) as [t|] eqn:Hr; [|inversion H; subst; auto].
      destruct (nth_error (trajs w) ref) as [q|]; [|inversion H; subst; auto].
      destruct (norm_index (nframes q) frame); [|inversion H; subst; auto].
      pose proof (complete_lookup _ _ _ Ha Hr) as Hct.
      destruct (Nat.eqb (na t) (na q)); cbn [negb] in H; [|inversion H; subst; exact Ha].
      destruct (Nat.eqb (length (kinds t)) (na t)); cbn [negb] in H; [|inversion H; subst; exact Ha].
      inversion H; subst. eapply (complete_of_upd w _ r (set_tr t None)); eauto.
    + (* xyz = new *) unfold do_set_xyz_new in H.
      destruct (nth_error (trajs w) r) as [t|] eqn:Hr; [|inversion H; subst; auto].
      destruct (Nat.eqb (length (kinds t)) natoms); cbn [negb] in H; [|inversion H; subst; auto].
      destruct (fresh_src w) as [w1 s] eqn:S. destruct (alloc_x w1 _) as [w2 b] eqn:A. inversion H; subst.
      apply fresh_src_spec in S. destruct S as [S1 _]. apply alloc_x_spec in A. destruct A as [A1 _].
      eapply (complete_of_upd w _ r (set_x t b (seq 0 m) natoms)); eauto.
      * cbn [trajs put]. now rewrite (ext_trajs _ _ (ext_trans _ _ _ S1 A1)).
      * exact (complete_lookup _ _ _ Ha Hr).
    + (* xyz = shared *) unfold do_set_xyz_share in H.
      destruct (nth_error (trajs w) r) as [t|] eqn:Hr; [|inversion H; subst; auto].
      destruct (nth_error (trajs w) r') as [o|]; [|inversion H; subst; auto].
      destruct (Nat.eqb (length (kinds t)) (na o)); cbn [negb] in H; inversion H; subst; auto.
      eapply (complete_of_upd w _ r (set_x t (xb o) (xp o) (na o))); eauto. exact (complete_lookup _ _ _ Ha Hr).
    + (* time = new *) unfold do_set_time_new in H.
      destruct (nth_error (trajs w) r) as [t|] eqn:Hr; [|inversion H; subst; auto].
      destruct (Nat.eqb m (nframes t)); cbn [negb] in H; [|inversion H; subst; auto].
      destruct (fresh_src w) as [w1 s] eqn:S. destruct (new_arr w1 _) as [w2 a] eqn:A. inversion H; subst.
      apply fresh_src_spec in S. destruct S as [S1 _]. apply new_arr_spec in A. destruct A as [A1 _].
      eapply (complete_of_upd w _ r (set_tm t a)); eauto.
      * cbn [trajs put]. now rewrite (ext_trajs _ _ (ext_trans _ _ _ S1 A1)).
      * exact (complete_lookup _ _ _ Ha Hr).
    + (* time = shared *) unfold do_set_time_share in H.
      destruct (nth_error (trajs w) r) as [t|] eqn:Hr; [|inversion H; subst; auto].
      destruct (nth_error (trajs w) r') as [o|]; [|inversion H; subst; auto].
      destruct (Nat.eqb (length (a_val (tm o))) (nframes t)); cbn [negb] in H; inversion H; subst; auto.
      eapply (complete_of_upd w _ r (set_tm t (tm o))); eauto. exact (complete_lookup _ _ _ Ha Hr).
    + (* unitcell_vectors = *) unfold do_set_vectors in H.
      destruct (nth_error (trajs w) r) as [t|] eqn:Hr; [|inversion H; subst; auto].
      assert (Hdrop : all_complete (put w r (set_cell t None None))).
      { eapply (complete_of_upd w _ r (set_cell t None None)); eauto. }
      destruct m as [m|]; [|inversion H; subst; exact Hdrop].
      destruct (allzero || Nat.eqb m 0); [inversion H; subst; exact Hdrop|].
      destruct (Nat.eqb m (nframes t)); cbn [negb] in H; [|inversion H; subst; auto].
      destruct (fresh_src w) as [w1 s] eqn:S. destruct (new_arr w1 _) as [w2 l] eqn:A.
      destruct (new_arr w2 _) as [w3 a] eqn:B. inversion H; subst.
      apply fresh_src_spec in S. destruct S as [S1 _]. apply new_arr_spec in A. destruct A as [A1 _].
      apply new_arr_spec in B. destruct B as [B1 _].
      match goal with |- all_complete (put _ _ ?t2) => eapply (complete_of_upd w _ r t2); eauto end.
      cbn [trajs put]. now rewrite (ext_trajs _ _ (ext_trans _ _ _ S1 (ext_trans _ _ _ A1 B1))).
    + (* reading the cell *) destruct (nth_error (trajs w) r); inversion H; subst; exact Ha.
Qed.

Lemma init_complete sps : all_complete (init_world sps).
Proof.
  unfold init_world. assert (H : all_complete empty_world) by constructor.
  revert H. generalize empty_world. induction sps as [|sp rest IH]; intros w Hl; cbn; auto.
  apply IH. destruct sp as [[[n chs] cell] etime]. unfold load.
  destruct (fresh_src w) as [w1 s] eqn:S. destruct (alloc_x w1 _) as [w2 b] eqn:A.
  destruct (fresh_top w2) as [w3 tl] eqn:T. destruct (new_arr w3 _) as [w4 tm'] eqn:N4.
  lazymatch goal with |- all_complete (let '(_, _) := ?e in _) => destruct e as [w5 l] eqn:N5 end.
  lazymatch goal with |- all_complete (let '(_, _) := ?e in _) => destruct e as [w6 a] eqn:N6 end.
  assert (Ht : trajs w6 = trajs w /\ is_some l = cell /\ is_some a = cell).
  { unfold fresh_src in S. unfold alloc_x in A. unfold fresh_top in T. unfold new_arr, fresh_buf in *.
    inversion S; subst; clear S. inversion A; subst; clear A. inversion T; subst; clear T. inversion N4; subst; clear N4.
    destruct cell; inversion N5; subst; clear N5; inversion N6; subst; clear N6; auto. }
  destruct Ht as [Ht [Hl1 Ha1]].
  unfold all_complete. cbn [trajs push]. rewrite Ht. apply Forall_app. split; [exact Hl|]. constructor; [|constructor].
  unfold complete_or_none. cbn [ul ua]. rewrite Hl1, Ha1. apply eqb_reflx.
Qed.

(* after any history that never assigns lengths or angles alone, no trajectory holds a half-set cell *)
Lemma run_complete v ops : forall w,
  wf w -> all_complete w -> forallb (fun o => negb (part_assignment o)) ops = true ->
  all_complete (fst (run v w ops)).
Proof.
  induction ops as [|o rest IH]; intros w Hw Ha Hp; cbn [run]; [exact Ha|].
  cbn [forallb] in Hp. apply andb_true_iff in Hp. destruct Hp as [P1 P2]. apply negb_true_iff in P1.
  destruct (step v w o) as [w1 x] eqn:S.
  specialize (IH w1 (step_wf _ _ _ _ _ Hw S) (step_complete _ _ _ _ _ Hw Ha P1 S) P2).
  destruct (run v w1 rest) as [w2 xs]. exact IH.
Qed.

(* the assignments that produce half-set cells, and what the structural operations do with them *)
Definition specs_cell : list spec := [(3, [[1; 2]], true, true); (3, [[1; 2]], false, true)].
Definition reg_state (w : world) (r : nat) : option (bool * bool) :=
  match nth_error (trajs w) r with Some t => Some (is_some (ul t), is_some (ua t)) | None => None end.

Lemma half_set_witnesses :
  (* angles = None on a complete cell: lengths without angles *)
  reg_state (fst (run v_fix (init_world specs_cell) [OSetAngles 0 None])) 0 = Some (true, false) /\
  (* lengths = array on a trajectory without cell: lengths without angles *)
  reg_state (fst (run v_fix (init_world specs_cell) [OSetLengths 1 (Some 3)])) 1 = Some (true, false) /\
  (* lengths = None on a complete cell: angles without lengths *)
  reg_state (fst (run v_fix (init_world specs_cell) [OSetLengths 0 None])) 0 = Some (false, true) /\
  (* a slice and a stack keep the half-set cell, a join and an atom subset lose it entirely *)
  (let w := fst (run v_fix (init_world specs_cell)
                  [OSetAngles 0 None; OSlice 0 (KSlice (Some 1%Z) None None) true; OStack 0 1; OSetAngles 1 None;
                   OJoin 0 [0] true false; OAtomSlice 0 [0%Z] false]) in
   reg_state w 2 = Some (true, false) /\ reg_state w 3 = Some (true, false) /\
   reg_state w 4 = Some (false, false) /\ reg_state w 5 = Some (false, false)).
Proof. vm_compute. repeat split; reflexivity. Qed.

(* reading the cell (vectors, volumes, lengths, angles, a periodic distance computation) changes no register: the model
   keeps no derived cell quantity, so there is nothing that a later single-field assignment could leave stale *)
Lemma read_cell_pure v w r w' x : step v w (OReadCell r) = (w', x) -> w' = w.
Proof. cbn [step]. destruct (nth_error (trajs w) r); intros H; inversion H; reflexivity. Qed.
