(* C20 — reference copy of the effect programs of the pinned mdtraj tree.

   Hand-maintained snapshot of what harness/props/C20.py:translate emitted for the unchanged /repo.  It is
   used ONLY as a stand-in when the translator cannot parse a class or saver any more (a construct outside
   its grammar): Gen/OverwritePrograms.v then defines that one program as the reference program, the
   evidence says "translator degraded", and the tie for that class is the correspondence run alone.
   Definitions only. *)
From Coq Require Import List Bool.
Import ListNotations.
Require Import MD.Overwrite.Model.

Definition ctor_XTC : stmt :=
  (Seq (If (CMode MR)
      (Seq (If (CNot CExists)
          Raise
          Skip)
        (Seq (Do OpenRead)
          (Seq (If (CUnk 1)
              Raise
              Skip)
            (Seq (Do OpenRead)
              (If (CUnk 2)
                Raise
                Skip)))))
      (If (CMode MW)
        (Seq (If (CAnd CForce CExists)
            (Do Unlink)
            Skip)
          (Seq (If (CAnd (CNot CForce) CExists)
              Raise
              Skip)
            (Seq (Do OpenTrunc)
              (If (CUnk 3)
                Raise
                Skip))))
        Raise))
    (If (CUnk 4)
      Raise
      Skip)).

Definition ctor_TRR : stmt :=
  (Seq (If (CMode MR)
      (Seq (If (CNot CExists)
          Raise
          Skip)
        (Seq (Do OpenRead)
          (Seq (If (CUnk 1)
              Raise
              Skip)
            (Seq (Do OpenRead)
              (Seq (If (CUnk 2)
                  Raise
                  Skip)
                (Seq (If (COr (CUnk 3) (CUnk 4))
                    Raise
                    Skip)
                  (If (CUnk 5)
                    Raise
                    Skip)))))))
      (If (CMode MW)
        (Seq (If (CAnd CForce CExists)
            (Do Unlink)
            Skip)
          (Seq (If (CAnd (CNot CForce) CExists)
              Raise
              Skip)
            (Seq (Do OpenTrunc)
              (If (CUnk 6)
                Raise
                Skip))))
        Raise))
    (If (CUnk 7)
      Raise
      Skip)).

Definition ctor_DCD : stmt :=
  (Seq (If (CUnk 1)
      Raise
      Skip)
    (Seq (If (CMode MR)
        (Seq (Do OpenRead)
          (If (CUnk 2)
            Raise
            Skip))
        (If (CMode MW)
          (Seq (Do (DeferOpen KFile))
            (If (CAnd (CNot CForce) CExists)
              Raise
              Skip))
          Raise))
      (If (CUnk 3)
        Raise
        Skip))).

Definition ctor_DTR : stmt :=
  (Seq (If (CMode MR)
      (Seq (Do OpenRead)
        (If (CUnk 1)
          Raise
          Skip))
      (If (CMode MW)
        (Seq (Do (DeferOpen KDir))
          (If CExists
            (If CForce
              (Do Rmtree)
              Raise)
            Skip))
        Raise))
    (If (CUnk 2)
      Raise
      Skip)).

Definition ctor_HDF5 : stmt :=
  (Seq (If (CNot (COr (COr (CMode MR) (CMode MW)) (CMode MA)))
      Raise
      Skip)
    (Seq (If (CAnd (CAnd (CMode MW) (CNot CForce)) CExists)
        Raise
        Skip)
      (Seq (If (CUnk 1)
          Raise
          Skip)
        (Seq (If (CUnk 2)
            (If (CUnk 3)
              Raise
              Skip)
            (If (CUnk 4)
              Skip
              Raise))
          (Seq (Do (LibOpen CTrue))
            (Seq (If (CUnk 5)
                Raise
                Skip)
              (If (CMode MW)
                (If (CNot (CUnk 6))
                  (If (CUnk 7)
                    Raise
                    Skip)
                  Skip)
                (If (CMode MA)
                  (If (CUnk 8)
                    Raise
                    Skip)
                  Skip)))))))).

Definition ctor_LH5 : stmt :=
  (Seq (If (CAnd (CAnd (CMode MW) (CNot CForce)) CExists)
      Raise
      Skip)
    (Seq (If (CUnk 1)
        Raise
        Skip)
      (Seq (If (CMode MW)
          (Seq (If (CUnk 2)
              Raise
              Skip)
            (If (CNot (CUnk 3))
              (If (CUnk 4)
                Raise
                Skip)
              Skip))
          (If (CMode MR)
            Skip
            Raise))
        (Seq (If (CUnk 5)
            Raise
            Skip)
          (Seq (Do (LibOpen CTrue))
            (If (CUnk 6)
              Raise
              Skip)))))).

Definition ctor_NetCDF : stmt :=
  (Seq (If (CUnk 1)
      Raise
      Skip)
    (Seq (If (CNot (COr (CMode MR) (CMode MW)))
        Raise
        Skip)
      (Seq (If (CAnd (CAnd (CMode MW) (CNot CForce)) CExists)
          Raise
          Skip)
        (Seq (Do (LibOpen (COr (CAnd (CUnk 2) CForce) (CAnd (CNot (CUnk 2)) CTrue))))
          (Seq (If (CUnk 3)
              Raise
              Skip)
            (If (CMode MW)
              Skip
              (If (CMode MR)
                Skip
                Raise))))))).

Definition ctor_AmberRestart : stmt :=
  (Seq (If (CNot (COr (CMode MR) (CMode MW)))
      Raise
      Skip)
    (Seq (If (CAnd (CAnd (CMode MW) (CNot CForce)) CExists)
        Raise
        Skip)
      (If (CMode MW)
        (Seq (Do OpenByMode)
          (If (CUnk 1)
            Raise
            Skip))
        (If (CMode MR)
          (Seq (Do OpenByMode)
            (If (CUnk 2)
              Raise
              Skip))
          Raise)))).

Definition ctor_AmberNetCDFRestart : stmt :=
  (Seq (If (CUnk 1)
      Raise
      Skip)
    (Seq (If (CNot (COr (CMode MR) (CMode MW)))
        Raise
        Skip)
      (Seq (If (CAnd (CAnd (CMode MW) (CNot CForce)) CExists)
          Raise
          Skip)
        (Seq (Do (LibOpen CTrue))
          (Seq (If (CUnk 2)
              Raise
              Skip)
            (If (CMode MW)
              Skip
              (If (CMode MR)
                Skip
                Raise))))))).

Definition ctor_MDCRD : stmt :=
  (Seq (If (CUnk 1)
      Raise
      Skip)
    (If (CMode MR)
      (Seq (If (CUnk 2)
          Raise
          Skip)
        (Seq (If (CNot CExists)
            Raise
            Skip)
          (Seq (Do OpenRead)
            (If (CUnk 3)
              Raise
              Skip))))
      (If (CMode MW)
        (Seq (If (CAnd CExists (CNot CForce))
            Raise
            Skip)
          (Seq (Do OpenTrunc)
            (If (CUnk 4)
              Raise
              Skip)))
        Raise))).

Definition ctor_XYZ : stmt :=
  (If (CMode MR)
    (Seq (If (CUnk 1)
        Raise
        Skip)
      (If (CUnk 2)
        (Seq (Do OpenRead)
          (If (CUnk 3)
            Raise
            Skip))
        (If (CUnk 4)
          (Seq (Do OpenRead)
            (If (CUnk 5)
              Raise
              Skip))
          (Seq (Do OpenRead)
            (If (CUnk 6)
              Raise
              Skip)))))
    (If (CMode MW)
      (Seq (If (CUnk 7)
          Raise
          Skip)
        (Seq (If (CAnd CExists (CNot CForce))
            Raise
            Skip)
          (If (CUnk 8)
            (Seq (Do OpenTrunc)
              (If (CUnk 9)
                Raise
                Skip))
            (If (CUnk 10)
              (Seq (Do OpenTrunc)
                (If (CUnk 11)
                  Raise
                  Skip))
              (Seq (Do OpenTrunc)
                (If (CUnk 12)
                  Raise
                  Skip))))))
      Raise)).

Definition ctor_LAMMPS : stmt :=
  (If (CMode MR)
    (Seq (If (CNot CExists)
        Raise
        Skip)
      (Seq (Do OpenRead)
        (If (CUnk 1)
          Raise
          Skip)))
    (If (CMode MW)
      (Seq (If (CAnd (CNot CForce) CExists)
          Raise
          Skip)
        (Seq (Do OpenTrunc)
          (If (CUnk 2)
            Raise
            Skip)))
      Raise)).

Definition ctor_Gro : stmt :=
  (If (CMode MR)
    (Seq (Do OpenRead)
      (If (CUnk 1)
        Raise
        Skip))
    (If (CMode MW)
      (Seq (If (CAnd CExists (CNot CForce))
          Raise
          Skip)
        (Seq (Do OpenTrunc)
          (If (CUnk 2)
            Raise
            Skip)))
      Raise)).

Definition ctor_PDB : stmt :=
  (If (CMode MR)
    (Seq (If (CUnk 1)
        Raise
        Skip)
      (Seq (If (CUnk 2)
          (Seq (Do OpenRead)
            (Seq (If (CUnk 3)
                Raise
                Skip)
              (Seq (If (CUnk 4)
                  (If (CUnk 5)
                    Raise
                    Skip)
                  Skip)
                (If (CUnk 6)
                  Raise
                  Skip))))
          (Seq (If (CUnk 7)
              Raise
              Skip)
            (If (CUnk 8)
              (Seq (Do OpenRead)
                (If (CUnk 9)
                  Raise
                  Skip))
              (If (CUnk 10)
                (Seq (Do OpenRead)
                  (If (CUnk 11)
                    Raise
                    Skip))
                (Seq (Do OpenRead)
                  (If (CUnk 12)
                    Raise
                    Skip))))))
        (If (CUnk 13)
          Raise
          Skip)))
    (If (CMode MW)
      (Seq (If (CUnk 14)
          Raise
          Skip)
        (Seq (If (CAnd CExists (CNot CForce))
            Raise
            Skip)
          (If (CUnk 15)
            (Seq (Do OpenTrunc)
              (If (CUnk 16)
                Raise
                Skip))
            (If (CUnk 17)
              (Seq (Do OpenTrunc)
                (If (CUnk 18)
                  Raise
                  Skip))
              (Seq (Do OpenTrunc)
                (If (CUnk 19)
                  Raise
                  Skip))))))
      Raise)).

Definition ctor_PDBx : stmt :=
  (If (CMode MR)
    (Seq (Do OpenRead)
      (Seq (If (CUnk 1)
          Raise
          Skip)
        (Seq (If (CUnk 2)
            (If (CUnk 3)
              Raise
              Skip)
            Skip)
          (Seq (If (CUnk 4)
              Raise
              Skip)
            (If (CUnk 5)
              (If (CUnk 6)
                Raise
                Skip)
              Skip)))))
    (If (CMode MW)
      (Seq (If (CUnk 7)
          Raise
          Skip)
        (Seq (If (CAnd CExists (CNot CForce))
            Raise
            Skip)
          (If (CUnk 8)
            (Seq (Do OpenTrunc)
              (If (CUnk 9)
                Raise
                Skip))
            (If (CUnk 10)
              (Seq (Do OpenTrunc)
                (If (CUnk 11)
                  Raise
                  Skip))
              (Seq (Do OpenTrunc)
                (If (CUnk 12)
                  Raise
                  Skip))))))
      Raise)).

Definition ctor_Arc : stmt :=
  (Seq (If (CMode MW)
      Raise
      Skip)
    (If (CMode MR)
      (Seq (If (CNot CExists)
          Raise
          Skip)
        (Seq (Do OpenRead)
          (If (CUnk 1)
            Raise
            Skip)))
      Raise)).

Definition save_amberrst7 : sstmt :=
  (SSeq (SMayRaise 1)
    (SIfOne (SWith ctor_AmberRestart MW FPass)
      (SFor (SWith ctor_AmberRestart MW FPass)))).

Definition save_dcd : sstmt :=
  (SSeq (SMayRaise 1)
    (SWith ctor_DCD MW FPass)).

Definition save_dtr : sstmt :=
  (SSeq (SMayRaise 1)
    (SWith ctor_DTR MW FPass)).

Definition save_gro : sstmt :=
  (SSeq (SMayRaise 1)
    (SWith ctor_Gro MW FPass)).

Definition save_hdf5 : sstmt :=
  (SSeq (SMayRaise 1)
    (SWith ctor_HDF5 MW FPass)).

Definition save_lammpstrj : sstmt :=
  (SWith ctor_LAMMPS MW FPass).

Definition save_mdcrd : sstmt :=
  (SSeq (SMayRaise 1)
    (SWith ctor_MDCRD MW FPass)).

Definition save_netcdf : sstmt :=
  (SSeq (SMayRaise 1)
    (SWith ctor_NetCDF MW FPass)).

Definition save_netcdfrst : sstmt :=
  (SSeq (SMayRaise 1)
    (SIfOne (SWith ctor_AmberNetCDFRestart MW FPass)
      (SFor (SWith ctor_AmberNetCDFRestart MW FPass)))).

Definition save_pdb : sstmt :=
  (SSeq (SMayRaise 1)
    (SWith ctor_PDB MW FPass)).

Definition save_trr : sstmt :=
  (SWith ctor_TRR MW FPass).

Definition save_xtc : sstmt :=
  (SWith ctor_XTC MW FPass).

Definition save_xyz : sstmt :=
  (SWith ctor_XYZ MW FPass).
