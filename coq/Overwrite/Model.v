(* C20 — existing files are never modified unless overwriting was requested.

   Executable definitions only (no proofs in this file).

   Level 1: the constructor of a trajectory-file class (and utils/zipped.py:open_maybe_zipped inlined
   into it) is a term of a small effect language [stmt].  A program acts on ONE path, the filename
   argument; its concrete state is the node found at that path (absent / regular file / directory) and
   the handle the object ends up holding.  Conditions read the three things the real constructors
   branch on: the mode argument, force_overwrite, and os.path.exists(filename) evaluated at the moment
   the test runs (so "unlink; if exists: raise" is modelled correctly); every other Python expression
   is an unknown [CUnk i] whose value the environment chooses.

   Level 2: Trajectory.save_* ([sstmt]) opens one or several targets (the numbered restart files)
   through such constructors, writes and closes; it acts on a file system [path -> node].

   The abstract interpreter [aexec] (continuation-passing, all paths) is the reflection checker: the
   checks [check_guarded], [check_truncates], [check_readonly] are instances of it, and Proofs.v shows
   once, for all programs, that an accepted program has the property on every file system. *)
From Coq Require Import List Bool Arith.
Import ListNotations.

(* ------------------------------------------------------------------ syntax *)
Inductive mode := MR | MW | MA | MOther.

Inductive cond :=
| CTrue | CFalse
| CMode (m : mode)        (* mode == 'r' / 'w' / 'a' *)
| CForce                  (* force_overwrite *)
| CExists                 (* os.path.exists(filename), at the time of the test *)
| CNot (c : cond) | CAnd (a b : cond) | COr (a b : cond)
| CUnk (i : nat).         (* anything else: chosen by the environment *)

Inductive fkind := KFile | KDir.

Inductive eff :=
| OpenRead                (* open(f) / open(f,'r') / gzip 'r' / xdrfile_open 'r' / open_dcd_read / dtr open_file_read *)
| OpenTrunc               (* open(f,'w'|'wb') / GzipFile(f,'wb') / BZ2File(f,'wb') / xdrfile_open(f,'w') *)
| OpenAppend              (* open(f,'a') *)
| OpenOverlay             (* open(f,'r+') : writes over the old bytes without truncating *)
| OpenExcl                (* open(f,'x') *)
| OpenByMode              (* open(f, mode) with the mode argument *)
| LibOpen (clobber : cond)(* tables.open_file(f, mode=mode) / netCDF4.Dataset(f, mode=mode, clobber=..) / netcdf_file(f, mode=mode) *)
| Unlink                  (* os.unlink(f) / os.remove(f) *)
| Rmtree                  (* shutil.rmtree(f) *)
| DeferOpen (k : fkind).  (* dcd/dtr: the file is only created (truncating) by the first write *)

Inductive stmt :=
| Skip
| Raise
| Do (e : eff)
| If (c : cond) (t e : stmt)
| Seq (a b : stmt).

(* ------------------------------------------------------------------ concrete semantics, one path *)
Inductive content := File (b : list nat) | Dir (b : list nat).
Definition node := option content.

Inductive wkind := WCur            (* writes are appended to what the file holds now *)
                 | WDefer (k : fkind)  (* first write creates/truncates (dcd) or removes and recreates the directory (dtr) *)
                 | WOver.          (* writes overlay the old bytes from offset 0 *)
Inductive handle := HNone | HRead | HWrite (w : wkind).
Inductive outcome := Normal | Error.

Record env := { e_mode : mode; e_force : bool; e_unk : nat -> bool }.
Record st := { s_node : node; s_h : handle }.

Definition mode_eqb (a b : mode) : bool :=
  match a, b with MR, MR | MW, MW | MA, MA | MOther, MOther => true | _, _ => false end.

Definition exists_ (n : node) : bool := match n with Some _ => true | None => false end.

Fixpoint eval_cond (E : env) (n : node) (c : cond) : bool :=
  match c with
  | CTrue => true | CFalse => false
  | CMode m => mode_eqb (e_mode E) m
  | CForce => e_force E
  | CExists => exists_ n
  | CNot a => negb (eval_cond E n a)
  | CAnd a b => eval_cond E n a && eval_cond E n b
  | COr a b => eval_cond E n a || eval_cond E n b
  | CUnk i => e_unk E i
  end.

Definition open_read (s : st) : outcome * st :=
  match s_node s with
  | None => (Error, s)
  | Some _ => (Normal, {| s_node := s_node s; s_h := HRead |})
  end.
Definition open_trunc (s : st) : outcome * st :=
  match s_node s with
  | Some (Dir _) => (Error, s)
  | _ => (Normal, {| s_node := Some (File []); s_h := HWrite WCur |})
  end.
Definition open_append (s : st) : outcome * st :=
  match s_node s with
  | Some (Dir _) => (Error, s)
  | Some (File _) => (Normal, {| s_node := s_node s; s_h := HWrite WCur |})
  | None => (Normal, {| s_node := Some (File []); s_h := HWrite WCur |})
  end.
Definition open_overlay (s : st) : outcome * st :=
  match s_node s with
  | Some (File _) => (Normal, {| s_node := s_node s; s_h := HWrite WOver |})
  | _ => (Error, s)
  end.
Definition open_excl (s : st) : outcome * st :=
  match s_node s with
  | Some _ => (Error, s)
  | None => (Normal, {| s_node := Some (File []); s_h := HWrite WCur |})
  end.
Definition by_mode (m : mode) (s : st) : outcome * st :=
  match m with
  | MR => open_read s | MW => open_trunc s | MA => open_append s | MOther => (Error, s)
  end.

Definition do_eff (E : env) (e : eff) (s : st) : outcome * st :=
  match e with
  | OpenRead => open_read s
  | OpenTrunc => open_trunc s
  | OpenAppend => open_append s
  | OpenOverlay => open_overlay s
  | OpenExcl => open_excl s
  | OpenByMode => by_mode (e_mode E) s
  | LibOpen cl =>
      match e_mode E with
      | MW => if exists_ (s_node s) && negb (eval_cond E (s_node s) cl) then (Error, s) else open_trunc s
      | m => by_mode m s
      end
  | Unlink => match s_node s with
              | Some (File _) => (Normal, {| s_node := None; s_h := s_h s |})
              | _ => (Error, s) end
  | Rmtree => match s_node s with
              | Some (Dir _) => (Normal, {| s_node := None; s_h := s_h s |})
              | _ => (Error, s) end
  | DeferOpen k => (Normal, {| s_node := s_node s; s_h := HWrite (WDefer k) |})
  end.

Fixpoint run (p : stmt) (E : env) (s : st) : outcome * st :=
  match p with
  | Skip => (Normal, s)
  | Raise => (Error, s)
  | Do e => do_eff E e s
  | If c t e => if eval_cond E (s_node s) c then run t E s else run e E s
  | Seq a b => match run a E s with
               | (Normal, s') => run b E s'
               | (Error, s') => (Error, s')
               end
  end.

(* write the new bytes through the handle and close *)
Definition finish (h : handle) (n : node) (new : list nat) : outcome * node :=
  match h with
  | HWrite WCur => match n with Some (File b) => (Normal, Some (File (b ++ new))) | _ => (Error, n) end
  | HWrite WOver => match n with
                    | Some (File b) => (Normal, Some (File (new ++ skipn (length new) b)))
                    | _ => (Error, n) end
  | HWrite (WDefer KFile) => match n with Some (Dir _) => (Error, n) | _ => (Normal, Some (File new)) end
  | HWrite (WDefer KDir) => (Normal, Some (Dir new))   (* DtrWriter::init: recursivelyRemove, then mkdir *)
  | _ => (Error, n)
  end.

(* construct, and when that succeeded write [new] and close: what one `with Cls(f, m, fo) as h: h.write(..)` does *)
Definition open_write_close (p : stmt) (E : env) (n : node) (new : list nat) : outcome * node :=
  match run p E {| s_node := n; s_h := HNone |} with
  | (Error, s') => (Error, s_node s')
  | (Normal, s') => finish (s_h s') (s_node s') new
  end.

(* ------------------------------------------------------------------ abstract interpreter *)
Inductive anode := AOld     (* untouched since the program started *)
                 | AGone    (* removed by the program *)
                 | AFresh.  (* created or truncated by the program: an empty regular file *)
Record ast := { a_node : anode; a_h : handle }.

Definition a_exists (ex0 : bool) (a : anode) : bool :=
  match a with AOld => ex0 | AGone => false | AFresh => true end.

Definition onot (x : option bool) := match x with Some b => Some (negb b) | None => None end.
Definition oand (x y : option bool) :=
  match x, y with
  | Some false, _ | _, Some false => Some false
  | Some true, Some true => Some true
  | _, _ => None end.
Definition oor (x y : option bool) :=
  match x, y with
  | Some true, _ | _, Some true => Some true
  | Some false, Some false => Some false
  | _, _ => None end.

Fixpoint aeval (m : mode) (f ex : bool) (c : cond) : option bool :=
  match c with
  | CTrue => Some true | CFalse => Some false
  | CMode m' => Some (mode_eqb m m')
  | CForce => Some f
  | CExists => Some ex
  | CNot a => onot (aeval m f ex a)
  | CAnd a b => oand (aeval m f ex a) (aeval m f ex b)
  | COr a b => oor (aeval m f ex a) (aeval m f ex b)
  | CUnk _ => None
  end.

Definition kont := outcome -> ast -> bool.

Definition with_h (a : ast) (h : handle) := {| a_node := a_node a; a_h := h |}.
Definition fresh_w : ast := {| a_node := AFresh; a_h := HWrite WCur |}.

Definition a_read (ex : bool) (a : ast) (k : kont) : bool :=
  if ex then k Normal (with_h a HRead) && k Error a else k Error a.
Definition a_trunc (ex : bool) (a : ast) (k : kont) : bool :=
  if ex then k Normal fresh_w && k Error a else k Normal fresh_w.
Definition a_append (ex : bool) (a : ast) (k : kont) : bool :=
  if ex then k Normal (with_h a (HWrite WCur)) && k Error a else k Normal fresh_w.
Definition a_overlay (ex : bool) (a : ast) (k : kont) : bool :=
  if ex then k Normal (with_h a (HWrite WOver)) && k Error a else k Error a.
Definition a_excl (ex : bool) (a : ast) (k : kont) : bool :=
  if ex then k Error a else k Normal fresh_w.
Definition a_by_mode (m : mode) (ex : bool) (a : ast) (k : kont) : bool :=
  match m with
  | MR => a_read ex a k | MW => a_trunc ex a k | MA => a_append ex a k | MOther => k Error a
  end.
Definition a_remove (ex : bool) (a : ast) (k : kont) : bool :=
  if ex then k Normal {| a_node := AGone; a_h := a_h a |} && k Error a else k Error a.

Definition aeff (m : mode) (f ex0 : bool) (e : eff) (a : ast) (k : kont) : bool :=
  let ex := a_exists ex0 (a_node a) in
  match e with
  | OpenRead => a_read ex a k
  | OpenTrunc => a_trunc ex a k
  | OpenAppend => a_append ex a k
  | OpenOverlay => a_overlay ex a k
  | OpenExcl => a_excl ex a k
  | OpenByMode => a_by_mode m ex a k
  | LibOpen cl =>
      match m with
      | MW => match oand (Some ex) (onot (aeval m f ex cl)) with
              | Some true => k Error a
              | Some false => a_trunc ex a k
              | None => k Error a && a_trunc ex a k
              end
      | _ => a_by_mode m ex a k
      end
  | Unlink => a_remove ex a k
  | Rmtree => a_remove ex a k
  | DeferOpen kd => k Normal (with_h a (HWrite (WDefer kd)))
  end.

Fixpoint aexec (m : mode) (f ex0 : bool) (p : stmt) (a : ast) (k : kont) : bool :=
  match p with
  | Skip => k Normal a
  | Raise => k Error a
  | Do e => aeff m f ex0 e a k
  | If c t e =>
      match aeval m f (a_exists ex0 (a_node a)) c with
      | Some true => aexec m f ex0 t a k
      | Some false => aexec m f ex0 e a k
      | None => aexec m f ex0 t a k && aexec m f ex0 e a k
      end
  | Seq p1 p2 =>
      aexec m f ex0 p1 a (fun o a' => match o with
                                      | Normal => aexec m f ex0 p2 a' k
                                      | Error => k Error a' end)
  end.

Definition a0 : ast := {| a_node := AOld; a_h := HNone |}.

Definition is_old (a : anode) := match a with AOld => true | _ => false end.
Definition is_error (o : outcome) := match o with Error => true | Normal => false end.

(* mode 'w', force_overwrite=False, the path exists: every path of the program raises, nothing touched *)
Definition check_guarded (p : stmt) : bool :=
  aexec MW false true p a0 (fun o a => is_error o && is_old (a_node a)).

(* mode 'w', force_overwrite=True: a constructor that returns normally holds a handle through which the
   new bytes replace the old ones entirely *)
Definition replacing (a : ast) : bool :=
  match a_h a, a_node a with
  | HWrite WCur, AFresh => true
  | HWrite (WDefer _), (AOld | AGone) => true
  | _, _ => false
  end.
Definition check_truncates (p : stmt) : bool :=
  forallb (fun ex0 => aexec MW true ex0 p a0
                        (fun o a => match o with Error => true | Normal => replacing a end))
          [true; false].

(* mode 'r': nothing is touched and the handle cannot write *)
Definition not_writing (h : handle) := match h with HWrite _ => false | _ => true end.
Definition check_readonly (p : stmt) : bool :=
  forallb (fun f => forallb (fun ex0 => aexec MR f ex0 p a0
                                          (fun _ a => is_old (a_node a) && not_writing (a_h a)))
                            [true; false])
          [true; false].

(* ------------------------------------------------------------------ level 2: Trajectory.save_* *)
Definition path := (nat * nat)%type.          (* (file name, 0) is "name"; (name, i) is "name.<i>" *)
Definition path_eqb (p q : path) : bool := Nat.eqb (fst p) (fst q) && Nat.eqb (snd p) (snd q).
Definition fs := path -> node.
Definition upd (F : fs) (p : path) (n : node) : fs := fun q => if path_eqb q p then n else F q.
Definition numbered (p : path) (i : nat) : path := (fst p, i).

Inductive farg := FPass | FLit (b : bool).   (* what is handed on as force_overwrite *)

Inductive sstmt :=
| SSkip
| SMayRaise (i : nat)                         (* _check_valid_unitcell(), shape checks: may raise, touch nothing *)
| SWith (c : stmt) (m : mode) (f : farg)      (* with Cls(target, m, force_overwrite=f) as h: h.write(frames) *)
| SIfOne (a b : sstmt)                        (* if self.n_frames == 1: a else: b *)
| SFor (body : sstmt)                         (* for i in range(self.n_frames): target = "%s.%0Nd" % (filename, i+1) *)
| SSeq (a b : sstmt).

Record senv := { se_force : bool; se_frames : nat; se_unk : nat -> bool; se_new : nat -> list nat }.

Definition farg_val (E : senv) (f : farg) : bool := match f with FPass => se_force E | FLit b => b end.

Fixpoint for_loop (body : path -> fs -> outcome * fs) (base : path) (cnt i : nat) (F : fs) : outcome * fs :=
  match cnt with
  | 0 => (Normal, F)
  | S cnt' => match body (numbered base i) F with
              | (Normal, F') => for_loop body base cnt' (S i) F'
              | (Error, F') => (Error, F')
              end
  end.

Fixpoint srun (p : sstmt) (E : senv) (base cur : path) (F : fs) : outcome * fs :=
  match p with
  | SSkip => (Normal, F)
  | SMayRaise i => if se_unk E i then (Error, F) else (Normal, F)
  | SWith c m f =>
      let '(o, n') := open_write_close c {| e_mode := m; e_force := farg_val E f; e_unk := se_unk E |}
                                       (F cur) (se_new E (snd cur)) in
      (o, upd F cur n')
  | SIfOne a b => if Nat.eqb (se_frames E) 1 then srun a E base cur F else srun b E base cur F
  | SFor body => for_loop (fun c G => srun body E base c G) base (se_frames E) 1 F
  | SSeq a b => match srun a E base cur F with
                | (Normal, F') => srun b E base cur F'
                | (Error, F') => (Error, F')
                end
  end.

(* every constructor call of a save function is a guarded write-mode program that receives the caller's
   force_overwrite (or the literal False), or a read-only read-mode program *)
Fixpoint check_save (p : sstmt) : bool :=
  match p with
  | SSkip | SMayRaise _ => true
  | SWith c MW FPass | SWith c MW (FLit false) => check_guarded c
  | SWith c _ _ => false
  | SIfOne a b | SSeq a b => check_save a && check_save b
  | SFor b => check_save b
  end.

Fixpoint check_save_truncates (p : sstmt) : bool :=
  match p with
  | SSkip | SMayRaise _ => true
  | SWith c MW FPass | SWith c MW (FLit true) => check_truncates c
  | SWith c _ _ => false
  | SIfOne a b | SSeq a b => check_save_truncates a && check_save_truncates b
  | SFor b => check_save_truncates b
  end.

(* the paths a save touches, in order *)
Fixpoint targets (p : sstmt) (frames : nat) (base cur : path) : list path :=
  match p with
  | SSkip | SMayRaise _ => []
  | SWith _ _ _ => [cur]
  | SIfOne a b => if Nat.eqb frames 1 then targets a frames base cur else targets b frames base cur
  | SFor body => flat_map (fun i => targets body frames base (numbered base i)) (seq 1 frames)
  | SSeq a b => targets a frames base cur ++ targets b frames base cur
  end.

(* ------------------------------------------------------------------ observation used by the correspondence *)
(* status of a path after an operation, relative to before and to the bytes that were to be written *)
Inductive status := Unchanged | Absent | NewExact | NewDir | Other.
Definition list_eqb := fix go (a b : list nat) : bool :=
  match a, b with [], [] => true | x :: a', y :: b' => Nat.eqb x y && go a' b' | _, _ => false end.
Definition content_eqb (a b : content) : bool :=
  match a, b with File x, File y => list_eqb x y | Dir x, Dir y => list_eqb x y | _, _ => false end.
Definition node_eqb (a b : node) : bool :=
  match a, b with None, None => true | Some x, Some y => content_eqb x y | _, _ => false end.
Definition classify (before after : node) (new : list nat) : status :=
  if node_eqb before after then Unchanged
  else match after with
       | None => Absent
       | Some (File b) => if list_eqb b new then NewExact else Other
       | Some (Dir b) => if list_eqb b new then NewDir else Other
       end.
Definition status_eqb (a b : status) : bool :=
  match a, b with
  | Unchanged, Unchanged | Absent, Absent | NewExact, NewExact | NewDir, NewDir | Other, Other => true
  | _, _ => false end.
