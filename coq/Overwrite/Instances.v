(* C20 — the general theorems of Proofs.v instantiated at the programs regenerated from /repo
   (Gen/OverwritePrograms.v), plus witnesses that the checkers reject what they should. *)
From Coq Require Import List String Bool Arith.
Import ListNotations.
Require Import MD.Overwrite.Model MD.Overwrite.Proofs MD.Gen.OverwritePrograms MD.Gen.OverwriteChecks.

Lemma in_forallb {A} (f : A -> bool) l x : forallb f l = true -> In x l -> f x = true.
Proof. intros H Hin. rewrite forallb_forall in H. apply H, Hin. Qed.

(* every file class of mdtraj, opened with mode 'w' and force_overwrite=False at an existing path, raises
   and leaves the node untouched *)
Lemma mdtraj_ctors_guarded : forall name p, In (name, p) ctors ->
  forall unk n, n <> None ->
    let E := {| e_mode := MW; e_force := false; e_unk := unk |} in
    fst (run p E {| s_node := n; s_h := HNone |}) = Error /\
    s_node (snd (run p E {| s_node := n; s_h := HNone |})) = n.
Proof.
  intros name p Hin. apply guarded_safe_node.
  exact (in_forallb (fun x => check_guarded (snd x)) ctors (name, p) all_ctors_guarded Hin).
Qed.

Lemma mdtraj_ctors_readonly : forall name p, In (name, p) ctors ->
  forall unk fo n new,
    let E := {| e_mode := MR; e_force := fo; e_unk := unk |} in
    s_node (snd (run p E {| s_node := n; s_h := HNone |})) = n /\
    snd (open_write_close p E n new) = n.
Proof.
  intros name p Hin. apply read_only_node.
  exact (in_forallb (fun x => check_readonly (snd x)) ctors (name, p) all_ctors_readonly Hin).
Qed.

(* Trajectory.save(<name>.<ext>, force_overwrite=False) and md.open(.., 'w', force_overwrite=False):
   every path that existed is unchanged *)
Lemma mdtraj_save_preserves : forall ext p, In (ext, p) (savers ++ openers) ->
  forall E base cur F, se_force E = false -> preserves_existing F (snd (srun p E base cur F)).
Proof.
  intros ext p Hin. apply save_preserves_existing.
  apply in_app_or in Hin. destruct Hin as [Hin|Hin].
  - pose proof (in_forallb _ savers (ext, p) all_savers_checked Hin) as H. apply andb_true_iff in H. apply H.
  - pose proof (in_forallb _ openers (ext, p) all_openers_checked Hin) as H. apply andb_true_iff in H. apply H.
Qed.

Lemma mdtraj_save_refuses : forall ext p, In (ext, p) (savers ++ openers) ->
  forall E base cur F, se_force E = false -> fst (srun p E base cur F) = Normal ->
    forall t, In t (targets p (se_frames E) base cur) -> F t = None.
Proof.
  intros ext p Hin. apply save_refuses_existing_target.
  apply in_app_or in Hin. destruct Hin as [Hin|Hin].
  - pose proof (in_forallb _ savers (ext, p) all_savers_checked Hin) as H. apply andb_true_iff in H. apply H.
  - pose proof (in_forallb _ openers (ext, p) all_openers_checked Hin) as H. apply andb_true_iff in H. apply H.
Qed.

Lemma mdtraj_save_force_replaces : forall ext p, In (ext, p) (savers ++ openers) ->
  forall E base cur F, se_force E = true -> forall q, no_remnant_fs E (F q) (snd (srun p E base cur F) q).
Proof.
  intros ext p Hin. apply save_force_replaces.
  apply in_app_or in Hin. destruct Hin as [Hin|Hin].
  - pose proof (in_forallb _ savers (ext, p) all_savers_checked Hin) as H. apply andb_true_iff in H. apply H.
  - pose proof (in_forallb _ openers (ext, p) all_openers_checked Hin) as H. apply andb_true_iff in H. apply H.
Qed.

(* ------------------------------------------------------------------ the checkers reject harmful programs *)
(* gro.py with the existence test removed *)
Definition gro_unguarded : stmt :=
  If (CMode MR) (Do OpenRead) (If (CMode MW) (Do OpenTrunc) Raise).
(* gro.py with the test after the open *)
Definition gro_late_guard : stmt :=
  If (CMode MW) (Seq (Do OpenTrunc) (If (CAnd CExists (CNot CForce)) Raise Skip)) Raise.
(* a writer that opens 'r+' when the file exists *)
Definition overlay_writer : stmt :=
  If (CAnd CExists (CNot CForce)) Raise (If CExists (Do OpenOverlay) (Do OpenTrunc)).
(* a reader that opens for append *)
Definition appending_reader : stmt := If (CMode MR) (Do OpenAppend) Raise.

Lemma rejected_programs :
  check_guarded gro_unguarded = false /\ check_guarded gro_late_guard = false /\
  check_guarded overlay_writer = true /\ check_truncates overlay_writer = false /\
  check_readonly appending_reader = false.
Proof. vm_compute. repeat split. Qed.

(* ... and these programs do violate the property in the concrete semantics *)
Lemma gro_unguarded_modifies : exists n, n <> None /\
  s_node (snd (run gro_unguarded {| e_mode := MW; e_force := false; e_unk := fun _ => false |}
                   {| s_node := n; s_h := HNone |})) <> n.
Proof. exists (Some (File [1; 2; 3])). split; [discriminate | vm_compute; discriminate]. Qed.

Lemma overlay_writer_keeps_old_tail : exists n new,
  snd (open_write_close overlay_writer {| e_mode := MW; e_force := true; e_unk := fun _ => false |} n new)
  = Some (File [9; 9; 3; 4]) /\ n = Some (File [1; 2; 3; 4]) /\ new = [9; 9].
Proof. exists (Some (File [1; 2; 3; 4])), [9; 9]. vm_compute. repeat split. Qed.

