(* C20 — soundness of the reflection checkers of Overwrite/Model.v, proved once for all programs. *)
From Coq Require Import List Bool Arith Lia.
Import ListNotations.
Require Import MD.Overwrite.Model.

(* ------------------------------------------------------------------ abstraction relation *)
Definition R (n0 : node) (a : ast) (s : st) : Prop :=
  s_h s = a_h a /\
  match a_node a with
  | AOld => s_node s = n0
  | AGone => s_node s = None
  | AFresh => s_node s = Some (File [])
  end.

Lemma R_exists n0 a s : R n0 a s -> exists_ (s_node s) = a_exists (exists_ n0) (a_node a).
Proof.
  intros [_ Hn]. destruct (a_node a); rewrite Hn; reflexivity.
Qed.

Lemma aeval_sound E n c : forall b,
  aeval (e_mode E) (e_force E) (exists_ n) c = Some b -> eval_cond E n c = b.
Proof.
  induction c as [| | m | | | c IH | c1 IH1 c2 IH2 | c1 IH1 c2 IH2 | i]; intros b H; cbn in *;
    try (inversion H; reflexivity).
  - destruct (aeval _ _ _ c) as [x|]; cbn in H; inversion H. rewrite (IH x eq_refl). reflexivity.
  - destruct (aeval _ _ _ c1) as [x|] eqn:H1; destruct (aeval _ _ _ c2) as [y|] eqn:H2;
      try (rewrite (IH1 _ eq_refl)); try (rewrite (IH2 _ eq_refl));
      repeat match goal with x : bool |- _ => destruct x end; cbn in H; inversion H;
      try reflexivity; try apply andb_false_r.
  - destruct (aeval _ _ _ c1) as [x|] eqn:H1; destruct (aeval _ _ _ c2) as [y|] eqn:H2;
      try (rewrite (IH1 _ eq_refl)); try (rewrite (IH2 _ eq_refl));
      repeat match goal with x : bool |- _ => destruct x end; cbn in H; inversion H;
      try reflexivity; try apply orb_true_r.
Qed.

Definition post (n0 : node) (k : kont) (r : outcome * st) : Prop :=
  exists a', R n0 a' (snd r) /\ k (fst r) a' = true.

Ltac split_and :=
  repeat match goal with
         | H : _ && _ = true |- _ => apply andb_true_iff in H; destruct H
         end.

Lemma libopen_case (ex : bool) (cv : option bool) (b P1 P2 : bool) :
  (forall x, cv = Some x -> b = x) ->
  match oand (Some ex) (onot cv) with Some true => P1 | Some false => P2 | None => P1 && P2 end = true ->
  (if ex && negb b then P1 else P2) = true.
Proof.
  intros Hb H. destruct cv as [x|].
  - rewrite (Hb x eq_refl). destruct ex, x; cbn in *; exact H.
  - destruct ex; cbn in *.
    + apply andb_true_iff in H. destruct H. destruct (negb b); assumption.
    + exact H.
Qed.

Section Sound.
  Variable n0 : node.
  Variable E : env.
  Let m := e_mode E.
  Let f := e_force E.
  Let ex0 := exists_ n0.

  Lemma R_same_node a s h : R n0 a s -> R n0 (with_h a h) {| s_node := s_node s; s_h := h |}.
  Proof. intros [Hh Hn]. split; [reflexivity | exact Hn]. Qed.

  Lemma R_fresh : R n0 fresh_w {| s_node := Some (File []); s_h := HWrite WCur |}.
  Proof. split; reflexivity. Qed.

  Lemma a_read_sound a s k : R n0 a s ->
    a_read (a_exists ex0 (a_node a)) a k = true -> post n0 k (open_read s).
  Proof.
    intros HR H. pose proof (R_exists _ _ _ HR) as Hex. fold ex0 in Hex.
    unfold a_read in H. unfold open_read. destruct (s_node s) as [c|] eqn:Hs; cbn in Hex; rewrite <- Hex in H.
    - split_and. exists (with_h a HRead). split; [|assumption]. cbn. rewrite <- Hs. apply R_same_node, HR.
    - exists a. split; assumption.
  Qed.

  Lemma a_trunc_sound a s k : R n0 a s ->
    a_trunc (a_exists ex0 (a_node a)) a k = true -> post n0 k (open_trunc s).
  Proof.
    intros HR H. pose proof (R_exists _ _ _ HR) as Hex. fold ex0 in Hex.
    unfold a_trunc in H. unfold open_trunc. destruct (s_node s) as [[b|b]|] eqn:Hs; cbn in Hex; rewrite <- Hex in H.
    - split_and. exists fresh_w. split; [apply R_fresh | assumption].
    - split_and. exists a. split; assumption.
    - exists fresh_w. split; [apply R_fresh | assumption].
  Qed.

  Lemma a_append_sound a s k : R n0 a s ->
    a_append (a_exists ex0 (a_node a)) a k = true -> post n0 k (open_append s).
  Proof.
    intros HR H. pose proof (R_exists _ _ _ HR) as Hex. fold ex0 in Hex.
    unfold a_append in H. unfold open_append. destruct (s_node s) as [[b|b]|] eqn:Hs; cbn in Hex; rewrite <- Hex in H.
    - split_and. exists (with_h a (HWrite WCur)). split; [|assumption]. cbn. rewrite <- Hs. apply R_same_node, HR.
    - split_and. exists a. split; assumption.
    - exists fresh_w. split; [apply R_fresh | assumption].
  Qed.

  Lemma a_overlay_sound a s k : R n0 a s ->
    a_overlay (a_exists ex0 (a_node a)) a k = true -> post n0 k (open_overlay s).
  Proof.
    intros HR H. pose proof (R_exists _ _ _ HR) as Hex. fold ex0 in Hex.
    unfold a_overlay in H. unfold open_overlay. destruct (s_node s) as [[b|b]|] eqn:Hs; cbn in Hex; rewrite <- Hex in H.
    - split_and. exists (with_h a (HWrite WOver)). split; [|assumption]. cbn. rewrite <- Hs. apply R_same_node, HR.
    - split_and. exists a. split; assumption.
    - exists a. split; assumption.
  Qed.

  Lemma a_excl_sound a s k : R n0 a s ->
    a_excl (a_exists ex0 (a_node a)) a k = true -> post n0 k (open_excl s).
  Proof.
    intros HR H. pose proof (R_exists _ _ _ HR) as Hex. fold ex0 in Hex.
    unfold a_excl in H. unfold open_excl. destruct (s_node s) as [c|] eqn:Hs; cbn in Hex; rewrite <- Hex in H.
    - exists a. split; assumption.
    - exists fresh_w. split; [apply R_fresh | assumption].
  Qed.

  Lemma a_by_mode_sound mm a s k : R n0 a s ->
    a_by_mode mm (a_exists ex0 (a_node a)) a k = true -> post n0 k (by_mode mm s).
  Proof.
    intros HR H. destruct mm; cbn [a_by_mode by_mode] in *.
    - exact (a_read_sound a s k HR H).
    - exact (a_trunc_sound a s k HR H).
    - exact (a_append_sound a s k HR H).
    - exists a. split; assumption.
  Qed.

  Lemma a_remove_file_sound a s k : R n0 a s ->
    a_remove (a_exists ex0 (a_node a)) a k = true ->
    post n0 k (match s_node s with
               | Some (File _) => (Normal, {| s_node := None; s_h := s_h s |})
               | _ => (Error, s) end).
  Proof.
    intros HR H. pose proof (R_exists _ _ _ HR) as Hex. fold ex0 in Hex.
    unfold a_remove in H. destruct (s_node s) as [[b|b]|] eqn:Hs; cbn in Hex; rewrite <- Hex in H.
    - split_and. exists {| a_node := AGone; a_h := a_h a |}. split; [|assumption].
      split; [apply HR | reflexivity].
    - split_and. exists a. split; assumption.
    - exists a. split; assumption.
  Qed.

  Lemma a_remove_dir_sound a s k : R n0 a s ->
    a_remove (a_exists ex0 (a_node a)) a k = true ->
    post n0 k (match s_node s with
               | Some (Dir _) => (Normal, {| s_node := None; s_h := s_h s |})
               | _ => (Error, s) end).
  Proof.
    intros HR H. pose proof (R_exists _ _ _ HR) as Hex. fold ex0 in Hex.
    unfold a_remove in H. destruct (s_node s) as [[b|b]|] eqn:Hs; cbn in Hex; rewrite <- Hex in H.
    - split_and. exists a. split; assumption.
    - split_and. exists {| a_node := AGone; a_h := a_h a |}. split; [|assumption].
      split; [apply HR | reflexivity].
    - exists a. split; assumption.
  Qed.

  Lemma aeff_sound e a s k : R n0 a s ->
    aeff m f ex0 e a k = true -> post n0 k (do_eff E e s).
  Proof.
    intros HR H. destruct e; cbn [aeff do_eff] in *.
    - exact (a_read_sound a s k HR H).
    - exact (a_trunc_sound a s k HR H).
    - exact (a_append_sound a s k HR H).
    - exact (a_overlay_sound a s k HR H).
    - exact (a_excl_sound a s k HR H).
    - exact (a_by_mode_sound _ a s k HR H).
    - fold m. destruct m eqn:Hm; try (exact (a_by_mode_sound _ a s k HR H)).
      pose proof (R_exists _ _ _ HR) as Hex. fold ex0 in Hex.
      pose proof (aeval_sound E (s_node s) clobber) as Hc. fold m f in Hc. rewrite Hm, Hex in Hc.
      rewrite Hex.
      pose proof (libopen_case (a_exists ex0 (a_node a)) (aeval MW f (a_exists ex0 (a_node a)) clobber)
                    (eval_cond E (s_node s) clobber) (k Error a) (a_trunc (a_exists ex0 (a_node a)) a k) Hc H) as Hl.
      destruct (a_exists ex0 (a_node a) && negb (eval_cond E (s_node s) clobber)).
      + exists a. split; assumption.
      + exact (a_trunc_sound a s k HR Hl).
    - exact (a_remove_file_sound a s k HR H).
    - exact (a_remove_dir_sound a s k HR H).
    - exists (with_h a (HWrite (WDefer k0))). split; [|assumption]. apply R_same_node, HR.
  Qed.

  Lemma aexec_sound p : forall a s k, R n0 a s ->
    aexec m f ex0 p a k = true -> post n0 k (run p E s).
  Proof.
    induction p as [| | e | c t IHt e IHe | p1 IH1 p2 IH2]; intros a s k HR H; cbn [aexec run] in *.
    - exists a. split; assumption.
    - exists a. split; assumption.
    - apply aeff_sound with (a := a); assumption.
    - pose proof (R_exists _ _ _ HR) as Hex. fold ex0 in Hex.
      pose proof (aeval_sound E (s_node s) c) as Hc. fold m f in Hc. rewrite Hex in Hc.
      destruct (aeval m f (a_exists ex0 (a_node a)) c) as [[|]|].
      + rewrite (Hc _ eq_refl). eapply IHt; eassumption.
      + rewrite (Hc _ eq_refl). eapply IHe; eassumption.
      + split_and. destruct (eval_cond E (s_node s) c); [eapply IHt | eapply IHe]; eassumption.
    - destruct (IH1 _ _ _ HR H) as [a' [HR' Hk]].
      destruct (run p1 E s) as [[|] s']; cbn [fst snd] in *.
      + eapply IH2; eassumption.
      + exists a'. split; assumption.
  Qed.
End Sound.

Lemma R0 n : R n a0 {| s_node := n; s_h := HNone |}.
Proof. split; reflexivity. Qed.

(* ------------------------------------------------------------------ level 1 theorems *)

(* force_overwrite=False at an existing path: the constructor raises and the node is untouched *)
Theorem guarded_safe_node p : check_guarded p = true ->
  forall unk n, n <> None ->
    let E := {| e_mode := MW; e_force := false; e_unk := unk |} in
    fst (run p E {| s_node := n; s_h := HNone |}) = Error /\
    s_node (snd (run p E {| s_node := n; s_h := HNone |})) = n.
Proof.
  intros Hc unk n Hn E.
  assert (Hex : exists_ n = true) by (destruct n; [reflexivity | contradiction]).
  unfold check_guarded in Hc.
  pose proof (aexec_sound n E p a0 _ (fun o a => is_error o && is_old (a_node a)) (R0 n)) as Hs. cbn [e_mode e_force E] in Hs. rewrite Hex in Hs.
  destruct (Hs Hc) as [a' [[_ HR] Hk]].
  apply andb_true_iff in Hk. destruct Hk as [Ho Ha].
  split.
  - destruct (fst _); [discriminate | reflexivity].
  - destruct (a_node a'); try discriminate. exact HR.
Qed.

Definition no_remnant (old final : node) (new : list nat) : Prop :=
  final = old \/ final = None \/ final = Some (File []) \/ final = Some (File new) \/ final = Some (Dir new).

(* force_overwrite=True: after constructing, writing [new] and closing, the path holds its old node
   untouched (an error was raised first), nothing, an empty file (error after truncation) or exactly the
   new bytes; and when both steps succeed it holds exactly the new bytes *)
Theorem force_replaces_node p : check_truncates p = true ->
  forall unk n new,
    let E := {| e_mode := MW; e_force := true; e_unk := unk |} in
    no_remnant n (snd (open_write_close p E n new)) new /\
    (fst (open_write_close p E n new) = Normal ->
     snd (open_write_close p E n new) = Some (File new) \/ snd (open_write_close p E n new) = Some (Dir new)).
Proof.
  intros Hc unk n new E. unfold check_truncates in Hc. cbn [forallb] in Hc.
  apply andb_true_iff in Hc. destruct Hc as [Ht Hc]. apply andb_true_iff in Hc. destruct Hc as [Hf _].
  pose proof (aexec_sound n E p a0 _ (fun o a => match o with Error => true | Normal => replacing a end) (R0 n)) as Hs. cbn [e_mode e_force E] in Hs.
  assert (Hpost : post n (fun o a => match o with Error => true | Normal => replacing a end)
                       (run p E {| s_node := n; s_h := HNone |})).
  { destruct n; cbn [exists_] in Hs; apply Hs; assumption. }
  destruct Hpost as [a' [[Hh HR] Hk]]. unfold open_write_close.
  destruct (run p E {| s_node := n; s_h := HNone |}) as [[|] s']; cbn [fst snd] in *.
  - unfold replacing in Hk. rewrite Hh. unfold no_remnant.
    destruct (a_h a') as [| |[|kd|]]; try discriminate; destruct (a_node a'); try discriminate; rewrite HR; cbn.
    + split; [right; right; right; left; reflexivity | intros _; left; reflexivity].
    + destruct kd.
      * destruct n as [[b|b]|]; cbn.
        -- split; [right; right; right; left; reflexivity | intros _; left; reflexivity].
        -- split; [left; reflexivity | discriminate].
        -- split; [right; right; right; left; reflexivity | intros _; left; reflexivity].
      * cbn. split; [right; right; right; right; reflexivity | intros _; right; reflexivity].
    + destruct kd; cbn.
      * split; [right; right; right; left; reflexivity | intros _; left; reflexivity].
      * split; [right; right; right; right; reflexivity | intros _; right; reflexivity].
  - split; [|discriminate]. unfold no_remnant.
    destruct (a_node a'); rewrite HR; [left | right; left | right; right; left]; reflexivity.
Qed.

(* mode 'r': the node is untouched whatever force_overwrite is, and the handle cannot write *)
Theorem read_only_node p : check_readonly p = true ->
  forall unk fo n new,
    let E := {| e_mode := MR; e_force := fo; e_unk := unk |} in
    s_node (snd (run p E {| s_node := n; s_h := HNone |})) = n /\
    snd (open_write_close p E n new) = n.
Proof.
  intros Hc unk fo n new E. unfold check_readonly in Hc. cbn [forallb] in Hc.
  split_and.
  pose proof (aexec_sound n E p a0 _ (fun _ a => is_old (a_node a) && not_writing (a_h a)) (R0 n)) as Hs. cbn [e_mode e_force E] in Hs.
  assert (Hpost : post n (fun _ a => is_old (a_node a) && not_writing (a_h a))
                       (run p E {| s_node := n; s_h := HNone |})).
  { destruct fo; destruct n; cbn [exists_] in Hs; apply Hs; assumption. }
  destruct Hpost as [a' [[Hh HR] Hk]]. apply andb_true_iff in Hk. destruct Hk as [Ha Hw].
  destruct (a_node a'); try discriminate.
  unfold open_write_close.
  destruct (run p E {| s_node := n; s_h := HNone |}) as [[|] s']; cbn [fst snd] in *.
  - split; [exact HR|]. rewrite Hh. destruct (a_h a') as [| |w]; try discriminate; cbn; exact HR.
  - split; exact HR.
Qed.

(* ------------------------------------------------------------------ level 2 theorems (file system) *)

Lemma path_eqb_eq p q : path_eqb p q = true <-> p = q.
Proof.
  unfold path_eqb. destruct p as [a b], q as [c d]. cbn. rewrite andb_true_iff, !Nat.eqb_eq.
  split; [intros [-> ->]; reflexivity | intros H; inversion H; auto].
Qed.

Lemma upd_other F p n q : q <> p -> upd F p n q = F q.
Proof. intros H. unfold upd. destruct (path_eqb q p) eqn:He; [apply path_eqb_eq in He; contradiction | reflexivity]. Qed.
Lemma upd_same F p n : upd F p n p = n.
Proof. unfold upd. destruct (path_eqb p p) eqn:He; [reflexivity|]. assert (path_eqb p p = true) by (apply path_eqb_eq; reflexivity). congruence. Qed.

(* a guarded constructor call at any target leaves every existing path as it was *)
Lemma with_guarded_preserves c (Hc : check_guarded c = true) unk F cur new q :
  F q <> None ->
  upd F cur (snd (open_write_close c {| e_mode := MW; e_force := false; e_unk := unk |} (F cur) new)) q = F q.
Proof.
  intros Hq. destruct (path_eqb q cur) eqn:He.
  - apply path_eqb_eq in He. subst q. rewrite upd_same.
    destruct (guarded_safe_node c Hc unk (F cur) Hq) as [Ho Hn]. unfold open_write_close.
    destruct (run c _ _) as [[|] s']; cbn [fst snd] in *; [discriminate | exact Hn].
  - apply upd_other. intros ->. assert (path_eqb cur cur = true) by (apply path_eqb_eq; reflexivity). congruence.
Qed.

Lemma with_guarded_normal_absent c (Hc : check_guarded c = true) unk n new :
  fst (open_write_close c {| e_mode := MW; e_force := false; e_unk := unk |} n new) = Normal -> n = None.
Proof.
  intros Ho. destruct n as [x|]; [|reflexivity]. exfalso.
  destruct (guarded_safe_node c Hc unk (Some x)) as [He _]; [discriminate|].
  unfold open_write_close in Ho. destruct (run c _ _) as [[|] s']; cbn [fst snd] in *; discriminate.
Qed.

Definition preserves_existing (F F' : fs) : Prop := forall q, F q <> None -> F' q = F q.

Lemma preserves_refl F : preserves_existing F F.
Proof. intros q _. reflexivity. Qed.
Lemma preserves_trans F G H : preserves_existing F G -> preserves_existing G H -> preserves_existing F H.
Proof. intros A B q Hq. rewrite B; [apply A, Hq | rewrite A; assumption]. Qed.

Lemma for_loop_preserves body base :
  (forall c F, preserves_existing F (snd (body c F))) ->
  forall cnt i F, preserves_existing F (snd (for_loop body base cnt i F)).
Proof.
  intros Hb. induction cnt as [|cnt IHc]; intros i F; cbn [for_loop].
  - apply preserves_refl.
  - pose proof (Hb (numbered base i) F) as H1.
    destruct (body (numbered base i) F) as [[|] F']; cbn [snd] in *.
    + eapply preserves_trans; [exact H1 | apply IHc].
    + exact H1.
Qed.

Lemma for_loop_refuses body base (T : path -> list path) :
  (forall c F, preserves_existing F (snd (body c F))) ->
  (forall c F, fst (body c F) = Normal -> forall t, In t (T c) -> F t = None) ->
  forall cnt i F, fst (for_loop body base cnt i F) = Normal ->
    forall t, In t (flat_map (fun j => T (numbered base j)) (seq i cnt)) -> F t = None.
Proof.
  intros Hp Hb. induction cnt as [|cnt IHc]; intros i F Ho t Ht; cbn [for_loop seq flat_map] in *.
  - contradiction.
  - apply in_app_or in Ht.
    pose proof (Hp (numbered base i) F) as Hpi. pose proof (Hb (numbered base i) F) as Hbi.
    destruct (body (numbered base i) F) as [[|] F']; cbn [fst snd] in *; [|discriminate].
    destruct Ht as [Ht|Ht].
    + apply Hbi; [reflexivity | exact Ht].
    + pose proof (IHc (S i) F' Ho t Ht) as Hn.
      destruct (F t) eqn:Hft; [|reflexivity].
      rewrite Hpi in Hn; [congruence | rewrite Hft; discriminate].
Qed.

Lemma for_loop_frame body base (T : path -> list path) q :
  (forall c F, ~ In q (T c) -> snd (body c F) q = F q) ->
  forall cnt i F, ~ In q (flat_map (fun j => T (numbered base j)) (seq i cnt)) ->
    snd (for_loop body base cnt i F) q = F q.
Proof.
  intros Hb. induction cnt as [|cnt IHc]; intros i F Hq; cbn [for_loop seq flat_map] in *.
  - reflexivity.
  - pose proof (Hb (numbered base i) F) as H1.
    destruct (body (numbered base i) F) as [[|] F']; cbn [snd] in *.
    + rewrite IHc; [apply H1|]; intros Hin; apply Hq, in_or_app; [left | right]; assumption.
    + apply H1. intros Hin. apply Hq, in_or_app. left. assumption.
Qed.

(* Trajectory.save_* with force_overwrite=False: every path that existed before is unchanged afterwards,
   whatever the number of frames (numbered restart files included) *)
Theorem save_preserves_existing p : check_save p = true ->
  forall E base cur F, se_force E = false ->
    preserves_existing F (snd (srun p E base cur F)).
Proof.
  induction p as [| i | c m f | a IHa b IHb | body IH | a IHa b IHb]; intros Hc E base cur F Hf; cbn [srun check_save] in *.
  - apply preserves_refl.
  - destruct (se_unk E i); apply preserves_refl.
  - assert (Hm : m = MW /\ farg_val E f = false /\ check_guarded c = true).
    { destruct m; try discriminate. destruct f as [|[|]]; try discriminate; cbn; auto. }
    destruct Hm as [-> [Hfv Hg]]. rewrite Hfv.
    destruct (open_write_close c _ (F cur) _) as [o n'] eqn:Hr. cbn [snd].
    intros q Hq. pose proof (with_guarded_preserves c Hg (se_unk E) F cur (se_new E (snd cur)) q Hq) as Hp.
    rewrite Hr in Hp. exact Hp.
  - apply andb_true_iff in Hc. destruct Hc as [Ha Hb].
    destruct (Nat.eqb (se_frames E) 1); [apply IHa | apply IHb]; assumption.
  - apply for_loop_preserves. intros c0 G. apply IH; assumption.
  - apply andb_true_iff in Hc. destruct Hc as [Ha Hb].
    pose proof (IHa Ha E base cur F Hf) as H1.
    destruct (srun a E base cur F) as [[|] F']; cbn [snd] in *.
    + eapply preserves_trans; [exact H1 | apply IHb; assumption].
    + exact H1.
Qed.

(* ... and when it returns normally none of its targets existed before: an existing target makes it raise *)
Theorem save_refuses_existing_target p : check_save p = true ->
  forall E base cur F, se_force E = false ->
    fst (srun p E base cur F) = Normal ->
    forall t, In t (targets p (se_frames E) base cur) -> F t = None.
Proof.
  induction p as [| i | c m f | a IHa b IHb | body IH | a IHa b IHb]; intros Hc E base cur F Hf Ho t Ht;
    cbn [srun check_save targets] in *.
  - contradiction.
  - contradiction.
  - assert (Hm : m = MW /\ farg_val E f = false /\ check_guarded c = true).
    { destruct m; try discriminate. destruct f as [|[|]]; try discriminate; cbn; auto. }
    destruct Hm as [-> [Hfv Hg]]. rewrite Hfv in Ho.
    destruct Ht as [<-|[]].
    destruct (open_write_close c _ (F cur) _) as [o n'] eqn:Hr. cbn [fst] in Ho. subst o.
    apply (with_guarded_normal_absent c Hg (se_unk E) (F cur) (se_new E (snd cur))). rewrite Hr. reflexivity.
  - apply andb_true_iff in Hc. destruct Hc as [Ha Hb].
    destruct (Nat.eqb (se_frames E) 1); [eapply IHa | eapply IHb]; eassumption.
  - eapply (for_loop_refuses (fun c G => srun body E base c G) base (fun c => targets body (se_frames E) base c)).
    + intros c0 G. apply save_preserves_existing; assumption.
    + intros c0 G HoG t0 Ht0. eapply IH; eassumption.
    + exact Ho.
    + exact Ht.
  - apply andb_true_iff in Hc. destruct Hc as [Ha Hb].
    pose proof (save_preserves_existing a Ha E base cur F Hf) as Hp.
    destruct (srun a E base cur F) as [[|] F'] eqn:Hra; cbn [fst snd] in *; [|discriminate].
    apply in_app_or in Ht. destruct Ht as [Ht|Ht].
    + eapply (IHa Ha E base cur F Hf); [rewrite Hra; reflexivity | exact Ht].
    + pose proof (IHb Hb E base cur F' Hf Ho t Ht) as Hn.
      destruct (F t) eqn:Hft; [|reflexivity].
      rewrite Hp in Hn; [congruence | rewrite Hft; discriminate].
Qed.

(* a save only ever touches its targets *)
Theorem save_frame p : forall E base cur F q,
  ~ In q (targets p (se_frames E) base cur) -> snd (srun p E base cur F) q = F q.
Proof.
  induction p as [| i | c m f | a IHa b IHb | body IH | a IHa b IHb]; intros E base cur F q Hq; cbn [srun targets] in *.
  - reflexivity.
  - destruct (se_unk E i); reflexivity.
  - destruct (open_write_close c _ (F cur) _) as [o n']. cbn [snd]. apply upd_other. intros ->. apply Hq. left. reflexivity.
  - destruct (Nat.eqb (se_frames E) 1); [apply IHa | apply IHb]; assumption.
  - apply (for_loop_frame (fun c G => srun body E base c G) base (fun c => targets body (se_frames E) base c)).
    + intros c0 G Hn. apply IH. exact Hn.
    + exact Hq.
  - pose proof (IHa E base cur F q) as H1.
    destruct (srun a E base cur F) as [[|] F']; cbn [snd] in *.
    + rewrite IHb; [apply H1|]; intros Hin; apply Hq, in_or_app; [left | right]; assumption.
    + apply H1. intros Hin. apply Hq, in_or_app. left. assumption.
Qed.

(* force_overwrite=True: whatever was at a path is afterwards untouched, gone, empty, or exactly the bytes
   written for one of the frames: never a mixture of old and new *)
Definition no_remnant_fs (E : senv) (old final : node) : Prop :=
  final = old \/ final = None \/ final = Some (File []) \/
  exists i, final = Some (File (se_new E i)) \/ final = Some (Dir (se_new E i)).

Lemma no_remnant_step E old mid final :
  no_remnant_fs E old mid -> (final = mid \/ final = None \/ final = Some (File []) \/
                              exists i, final = Some (File (se_new E i)) \/ final = Some (Dir (se_new E i))) ->
  no_remnant_fs E old final.
Proof.
  intros H1 [->|H2]; [exact H1|]. right. exact H2.
Qed.

Lemma for_loop_remnant E body base q :
  (forall c F, no_remnant_fs E (F q) (snd (body c F) q)) ->
  forall cnt i F, no_remnant_fs E (F q) (snd (for_loop body base cnt i F) q).
Proof.
  intros Hb. induction cnt as [|cnt IHc]; intros i F; cbn [for_loop].
  - left. reflexivity.
  - pose proof (Hb (numbered base i) F) as H1.
    destruct (body (numbered base i) F) as [[|] F']; cbn [snd] in *.
    + eapply no_remnant_step; [exact H1 | apply IHc].
    + exact H1.
Qed.

Theorem save_force_replaces p : check_save_truncates p = true ->
  forall E base cur F, se_force E = true ->
    forall q, no_remnant_fs E (F q) (snd (srun p E base cur F) q).
Proof.
  induction p as [| i | c m f | a IHa b IHb | body IH | a IHa b IHb]; intros Hc E base cur F Hf q; cbn [srun check_save_truncates] in *.
  - left. reflexivity.
  - destruct (se_unk E i); left; reflexivity.
  - assert (Hm : m = MW /\ farg_val E f = true /\ check_truncates c = true).
    { destruct m; try discriminate. destruct f as [|[|]]; try discriminate; cbn; auto. }
    destruct Hm as [-> [Hfv Hg]]. rewrite Hfv.
    pose proof (force_replaces_node c Hg (se_unk E) (F cur) (se_new E (snd cur))) as [Hr _]. cbn zeta in Hr.
    destruct (open_write_close c _ (F cur) _) as [o n']. cbn [snd] in *.
    destruct (path_eqb q cur) eqn:He.
    + apply path_eqb_eq in He. subst q. rewrite upd_same.
      destruct Hr as [->|[->|[->|[->| ->]]]].
      * left; reflexivity.
      * right; left; reflexivity.
      * right; right; left; reflexivity.
      * right; right; right. exists (snd cur). left. reflexivity.
      * right; right; right. exists (snd cur). right. reflexivity.
    + left. apply upd_other. intros ->. assert (path_eqb cur cur = true) by (apply path_eqb_eq; reflexivity). congruence.
  - apply andb_true_iff in Hc. destruct Hc as [Ha Hb].
    destruct (Nat.eqb (se_frames E) 1); [apply IHa | apply IHb]; assumption.
  - apply for_loop_remnant. intros c0 G. apply IH; assumption.
  - apply andb_true_iff in Hc. destruct Hc as [Ha Hb].
    pose proof (IHa Ha E base cur F Hf q) as H1.
    destruct (srun a E base cur F) as [[|] F']; cbn [snd] in *.
    + eapply no_remnant_step; [exact H1 | apply IHb; assumption].
    + exact H1.
Qed.
