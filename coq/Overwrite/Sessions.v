(* C20 — modes other than 'w', read sessions and load functions.

   Executable definitions only (no proofs in this file).

   Overwrite/Model.v checks a constructor for mode 'w' (guarded / truncating) and mode 'r' (read-only).  This file
   adds what the property says about the remaining ways a path is reached:

   * [check_append]   mode 'a' (HDF5TrajectoryFile, Trajectory.save_hdf5(mode='a')): whatever force_overwrite is,
                      an existing node is either left alone or extended at its end — the old bytes stay a prefix;
   * [check_badmode]  any other mode string: the constructor raises before it touches the path;
   * [session]        after the constructor, the METHODS of a file object may open the path again (__len__ of the
                      text formats re-opens the file to count frames, AmberRestartFile._validate, ...).  The
                      translator lists every such call site of every method that is reachable on an object in
                      mode 'r' ([method_sites], Gen/OverwriteSessions.v); a read session is the constructor followed
                      by ANY sequence of those effects, each of which may fail;
   * [check_load]     the registered load_* functions / md.open defaults as level-2 programs: every constructor
                      call is a mode-'r' call of a read-only constructor. *)
From Coq Require Import List Bool Arith String.
Import ListNotations.
Require Import MD.Overwrite.Model.

(* ------------------------------------------------------------------ mode 'a' *)
Definition append_ok (h : handle) : bool :=
  match h with HNone | HRead | HWrite WCur => true | _ => false end.

(* the path exists: every run leaves the node as it was and can only write behind its end *)
Definition check_append (p : stmt) : bool :=
  forallb (fun f => aexec MA f true p a0 (fun _ a => is_old (a_node a) && append_ok (a_h a))) [true; false].

(* ------------------------------------------------------------------ unknown mode strings *)
Definition check_badmode (p : stmt) : bool :=
  forallb (fun f => forallb (fun ex0 => aexec MOther f ex0 p a0 (fun o a => is_error o && is_old (a_node a)))
                            [true; false])
          [true; false].

(* ------------------------------------------------------------------ read sessions *)
(* effects that cannot modify the node when the object's mode is 'r' *)
Definition eff_reads (e : eff) : bool :=
  match e with OpenRead | OpenByMode | LibOpen _ => true | _ => false end.

(* one method call = one effect, whose failure (an exception) does not end the session *)
Definition session (E : env) (calls : list eff) (s : st) : st :=
  fold_left (fun s e => snd (do_eff E e s)) calls s.

Definition check_session (ctor : stmt) (sites : list eff) : bool :=
  check_readonly ctor && forallb eff_reads sites.

(* ------------------------------------------------------------------ load functions (level 2) *)
Fixpoint check_load (p : sstmt) : bool :=
  match p with
  | SSkip | SMayRaise _ => true
  | SWith c MR _ => check_readonly c
  | SWith _ _ _ => false
  | SIfOne a b | SSeq a b => check_load a && check_load b
  | SFor b => check_load b
  end.

(* default value of the mode parameter of a constructor / of md.open, as read from the signature *)
Definition all_default_read (l : list mode) : bool := forallb (fun m => mode_eqb m MR) l.

(* ------------------------------------------------------------------ Trajectory.save_hdf5(mode='a') (level 2) *)
Fixpoint check_save_append (p : sstmt) : bool :=
  match p with
  | SSkip | SMayRaise _ => true
  | SWith c MA _ => check_append c
  | SWith _ _ _ => false
  | SIfOne a b | SSeq a b => check_save_append a && check_save_append b
  | SFor b => check_save_append b
  end.

(* ------------------------------------------------------------------ every constructor call inside a save_* method
   A purely syntactic census, independent of the control flow the level-2 translator can follow: what each call of a
   file class inside Trajectory.save_* hands on as force_overwrite.  Safe: the caller's value, or the literal False. *)
Definition farg_safe (f : farg) : bool := match f with FPass | FLit false => true | FLit true => false end.
Definition check_saver_calls (l : list (string * farg)) : bool := forallb (fun x => farg_safe (snd x)) l.
