(* C20 — the theorems of Overwrite/SessionsProofs.v instantiated at the programs regenerated from /repo
   (Gen/OverwritePrograms.v; the checkers are re-run on them in Gen/OverwriteChecks.v on every run), and
   witnesses that the new checkers reject programs that really break the property. *)
From Coq Require Import List String Bool Arith.
Import ListNotations.
Require Import MD.Overwrite.Model MD.Overwrite.Proofs MD.Overwrite.Sessions MD.Overwrite.SessionsProofs
               MD.Overwrite.Instances MD.Gen.OverwritePrograms MD.Gen.OverwriteChecks.

Lemma mdtraj_ctors_append : forall name p, In (name, p) ctors ->
  forall unk fo c new,
    let E := {| e_mode := MA; e_force := fo; e_unk := unk |} in
    s_node (snd (run p E {| s_node := Some c; s_h := HNone |})) = Some c /\
    (snd (open_write_close p E (Some c) new) = Some c \/
     exists old, c = File old /\ snd (open_write_close p E (Some c) new) = Some (File (old ++ new))).
Proof.
  intros name p Hin. apply append_keeps_old_node.
  exact (in_forallb (fun x => check_append (snd x)) ctors (name, p) all_ctors_append Hin).
Qed.

Lemma mdtraj_ctors_badmode : forall name p, In (name, p) ctors ->
  forall unk fo n,
    let E := {| e_mode := MOther; e_force := fo; e_unk := unk |} in
    fst (run p E {| s_node := n; s_h := HNone |}) = Error /\
    s_node (snd (run p E {| s_node := n; s_h := HNone |})) = n.
Proof.
  intros name p Hin. apply bad_mode_refused_node.
  exact (in_forallb (fun x => check_badmode (snd x)) ctors (name, p) all_ctors_badmode Hin).
Qed.

Lemma mdtraj_sessions : forall name ctor sites, In (name, ctor, sites) read_sessions ->
  forall unk fo n calls, (forall e, In e calls -> In e sites) ->
    let E := {| e_mode := MR; e_force := fo; e_unk := unk |} in
    let s := session E calls (snd (run ctor E {| s_node := n; s_h := HNone |})) in
    s_node s = n /\ not_writing (s_h s) = true.
Proof.
  intros name ctor sites Hin. apply read_session_untouched.
  exact (in_forallb (fun x => check_session (snd (fst x)) (snd x)) read_sessions (name, ctor, sites)
                    all_sessions_checked Hin).
Qed.

Lemma mdtraj_loaders : forall ext p, In (ext, p) (loaders ++ open_defaults) ->
  forall E base cur F q, snd (srun p E base cur F) q = F q.
Proof.
  intros ext p Hin. apply load_preserves_fs.
  exact (in_forallb (fun x => check_load (snd x)) (loaders ++ open_defaults) (ext, p) all_loaders_checked Hin).
Qed.

Lemma mdtraj_append_savers : forall name p, In (name, p) append_savers ->
  forall E base cur F q, F q <> None -> extends (F q) (snd (srun p E base cur F) q).
Proof.
  intros name p Hin. apply save_append_extends.
  exact (in_forallb (fun x => check_save_append (snd x)) append_savers (name, p) all_append_savers_checked Hin).
Qed.

Lemma mdtraj_default_modes : forall name m, In (name, m) default_modes -> m = MR.
Proof.
  intros name m Hin. pose proof all_default_modes_read as H. unfold all_default_read in H.
  rewrite forallb_forall in H. specialize (H m (in_map snd default_modes (name, m) Hin)).
  destruct m; try discriminate; reflexivity.
Qed.

(* ------------------------------------------------------------------ the checkers are not vacuous *)
(* a constructor that truncates in append mode; one that opens before it rejects an unknown mode; a reader whose
   seek() re-opens the file for writing; a loader that constructs its file object in mode 'w' *)
Definition truncating_appender : stmt := If (CMode MA) (Do OpenTrunc) (If (CMode MW) (Do OpenTrunc) (Do OpenRead)).
Definition late_mode_test : stmt := Seq (Do OpenByMode) (If (COr (CMode MR) (CMode MW)) Skip Raise).
Definition open_anyway : stmt := Seq (If (CMode MR) (Do OpenRead) (Do OpenTrunc)) Skip.
Definition rewriting_seek : list eff := [OpenRead; OpenTrunc].
Definition writing_loader : sstmt := SWith ctor_Gro MW (FLit true).

Lemma sessions_rejected_programs :
  check_append truncating_appender = false /\
  check_badmode late_mode_test = true /\ check_badmode open_anyway = false /\
  check_session ctor_XYZ rewriting_seek = false /\
  check_load writing_loader = false /\ check_save_append (SWith ctor_HDF5 MW FPass) = false.
Proof. vm_compute. repeat split. Qed.

Lemma truncating_appender_loses_bytes :
  snd (open_write_close truncating_appender {| e_mode := MA; e_force := false; e_unk := fun _ => false |}
                        (Some (File [1; 2])) [9]) = Some (File [9]).
Proof. reflexivity. Qed.

Lemma open_anyway_truncates_on_unknown_mode :
  s_node (snd (run open_anyway {| e_mode := MOther; e_force := false; e_unk := fun _ => false |}
                   {| s_node := Some (File [1; 2]); s_h := HNone |})) = Some (File []).
Proof. reflexivity. Qed.

Lemma rewriting_seek_modifies :
  s_node (session {| e_mode := MR; e_force := true; e_unk := fun _ => false |} rewriting_seek
                  (snd (run ctor_XYZ {| e_mode := MR; e_force := true; e_unk := fun _ => false |}
                            {| s_node := Some (File [1; 2]); s_h := HNone |}))) = Some (File []).
Proof. vm_compute. reflexivity. Qed.

(* every write-mode constructor call written inside a Trajectory.save_* method hands on the caller's force_overwrite
   (or the literal False), in whatever branch of the method it stands *)
Lemma mdtraj_saver_calls : forall l f, In (l, f) saver_ctor_calls -> f = FPass \/ f = FLit false.
Proof.
  intros l f Hin. pose proof all_saver_calls_forward as H. unfold check_saver_calls in H.
  rewrite forallb_forall in H. specialize (H (l, f) Hin). cbn in H.
  destruct f as [|[|]]; [left; reflexivity | discriminate | right; reflexivity].
Qed.
