(* C20 — evaluation of the regenerated programs on the cases of the correspondence run.
   Definitions only (must keep running when a proof breaks). *)
From Coq Require Import List String Bool Arith.
Import ListNotations.
Require Import MD.Overwrite.Model MD.Gen.OverwritePrograms.

(* ------------------------------------------------------------------ model evaluation for the correspondence *)
Definition lookup {A} (k : string) (l : list (string * A)) : option A :=
  match find (fun x => String.eqb (fst x) k) l with Some x => Some (snd x) | None => None end.

(* ------------------------------------------------------------------ choosing the unknown conditions
   The theorems quantify over every value of the unknown conditions [CUnk i] (import failures, NULL handles,
   `compression == "zlib"` ...).  To PREDICT one concrete run the harness needs one value for them: the runs
   are made on healthy inputs, so the prediction resolves unknowns in favour of "the constructor does not
   raise" whenever some choice allows that ([runs] enumerates the paths, [pick] takes the first normal
   one).  This chooser is part of the tie's trusted base; it is not proved to coincide with [run] under one
   oracle (that needs the unknown indices along a path to be distinct, which the translator ensures). *)
Fixpoint runs (p : stmt) (E : env) (s : st) : list (outcome * st) :=
  match p with
  | Skip => [(Normal, s)]
  | Raise => [(Error, s)]
  | Do e => [do_eff E e s]
  | If c t e =>
      match aeval (e_mode E) (e_force E) (exists_ (s_node s)) c with
      | Some true => runs t E s
      | Some false => runs e E s
      | None => runs t E s ++ runs e E s
      end
  | Seq a b => flat_map (fun r => match r with
                                  | (Normal, s') => runs b E s'
                                  | (Error, s') => [(Error, s')]
                                  end) (runs a E s)
  end.

Definition pick (l : list (outcome * st)) (dflt : st) : outcome * st :=
  match find (fun r => match fst r with Normal => true | Error => false end) l with
  | Some r => r
  | None => hd (Error, dflt) l
  end.

Definition run_ang (p : stmt) (E : env) (s : st) : outcome * st := pick (runs p E s) s.

Definition owc_ang (p : stmt) (E : env) (n : node) (new : list nat) : outcome * node :=
  match run_ang p E {| s_node := n; s_h := HNone |} with
  | (Error, s') => (Error, s_node s')
  | (Normal, s') => finish (s_h s') (s_node s') new
  end.

(* [srun] of Model.v with the constructor run replaced by [run_ang] and "may raise" steps not raising *)
Fixpoint srun_ang (p : sstmt) (E : senv) (base cur : path) (F : fs) : outcome * fs :=
  match p with
  | SSkip => (Normal, F)
  | SMayRaise _ => (Normal, F)
  | SWith c m f =>
      let '(o, n') := owc_ang c {| e_mode := m; e_force := farg_val E f; e_unk := se_unk E |}
                              (F cur) (se_new E (snd cur)) in
      (o, upd F cur n')
  | SIfOne a b => if Nat.eqb (se_frames E) 1 then srun_ang a E base cur F else srun_ang b E base cur F
  | SFor body => for_loop (fun c G => srun_ang body E base c G) base (se_frames E) 1 F
  | SSeq a b => match srun_ang a E base cur F with
                | (Normal, F') => srun_ang b E base cur F'
                | (Error, F') => (Error, F')
                end
  end.

(* pre-existing content kinds used by the harness *)
Definition pre_node (k : nat) : node :=
  match k with
  | 0 => None
  | 1 => Some (File [1; 2])                 (* valid file of the same format, 2 frames *)
  | 2 => Some (File [1; 2; 3; 4; 5; 6; 7; 8; 9])  (* longer valid file *)
  | 3 => Some (File [42])                   (* unrelated bytes *)
  | _ => Some (Dir [7])                     (* a directory (with a file inside) *)
  end.

Definition new_bytes (i : nat) : list nat := [100 + i].

(* entry 0 = Trajectory.save, 1 = md.open(..,'w') + write + close ([ext] is then the key of the md.open branch
   the argument type reaches: "gro" or "gro@b0"), 2 = the file class called directly.
   The base name is 0; [pre_at] = 0 puts the pre-existing node at the base path, j>0 at "name.j".
   Result: (raised?, status of the paths (0,0), (0,1) .. (0,3)) *)
Definition predict (ext : string) (entry pre pre_at frames : nat) (force : bool) : option (bool * list status) :=
  match (if Nat.eqb entry 0 then lookup ext savers else if Nat.eqb entry 1 then lookup ext openers else lookup ext direct) with
  | None => None
  | Some p =>
      let F0 : fs := fun q => if path_eqb q (0, pre_at) then pre_node pre else None in
      let E := {| se_force := force; se_frames := frames; se_unk := fun _ => false; se_new := new_bytes |} in
      let '(o, F1) := srun_ang p E (0, 0) (0, 0) F0 in
      Some (match o with Error => true | Normal => false end,
            map (fun i => classify (F0 (0, i)) (F1 (0, i)) (new_bytes i)) [0; 1; 2; 3])
  end.

(* md.open(path, 'w', force_overwrite) without writing, then close: only the constructor runs, with the mode and
   force_overwrite that the md.open branch [key] hands on *)
Definition predict_open_only (key : string) (pre : nat) (force : bool) : option (bool * status) :=
  match lookup key openers with
  | Some (SWith c m f) =>
      let fo := match f with FPass => force | FLit b => b end in
      let '(o, s) := run_ang c {| e_mode := m; e_force := fo; e_unk := fun _ => false |}
                             {| s_node := pre_node pre; s_h := HNone |} in
      Some (match o with Error => true | Normal => false end, classify (pre_node pre) (s_node s) [])
  | _ => None
  end.

Definition res_eqb (a b : option (bool * list status)) : bool :=
  match a, b with
  | Some (x, l), Some (y, m) => Bool.eqb x y && (Nat.eqb (List.length l) (List.length m)) &&
                                forallb (fun p => status_eqb (fst p) (snd p)) (combine l m)
  | None, None => true
  | _, _ => false
  end.
Definition res1_eqb (a b : option (bool * status)) : bool :=
  match a, b with
  | Some (x, s), Some (y, t) => Bool.eqb x y && status_eqb s t
  | None, None => true
  | _, _ => false
  end.
Definition predict_case (c : string * nat * nat * nat * nat * bool) :=
  let '(ext, entry, pre, pre_at, frames, force) := c in predict ext entry pre pre_at frames force.
Definition predict_open_case (c : string * nat * bool) :=
  let '(ext, pre, force) := c in predict_open_only ext pre force.

(* ------------------------------------------------------------------ modes other than 'w' (Overwrite/Sessions.v)
   entry 0: md.open(path, m, force_overwrite) with m = 'a' (m = 2) or a mode string that is none of r/w/a (m = 3),
            then write [100] and close;   entry 1: Trajectory.save_hdf5(path, mode='a', force_overwrite).
   Result: (raised?, 0 = path unchanged | 1 = old content followed by the new | 2 = created, exactly the new |
   3 = anything else) *)
Definition predict_mode (c : string * nat * nat * nat * bool) : option (bool * nat) :=
  let '(ext, entry, m, pre, force) := c in
  let prog := if Nat.eqb entry 0
              then match lookup ext direct with
                   | Some (SWith k _ _) => Some (SWith k (if Nat.eqb m 2 then MA else MOther) FPass)
                   | _ => None end
              else lookup ext append_savers in
  match prog with
  | None => None
  | Some p =>
      let n := pre_node pre in
      let F0 : fs := fun q => if path_eqb q (0, 0) then n else None in
      let E := {| se_force := force; se_frames := 1; se_unk := fun _ => false; se_new := fun _ => [100] |} in
      let '(o, F1) := srun_ang p E (0, 0) (0, 0) F0 in
      let n' := F1 (0, 0) in
      Some (match o with Error => true | Normal => false end,
            if node_eqb n n' then 0
            else match n, n' with
                 | Some (File b), Some (File b') => if list_eqb b' (b ++ [100]) then 1 else 3
                 | None, Some (File b') => if list_eqb b' [100] then 2 else 3
                 | _, _ => 3
                 end)
  end.
Definition resm_eqb (a b : option (bool * nat)) : bool :=
  match a, b with
  | Some (x, s), Some (y, t) => Bool.eqb x y && Nat.eqb s t
  | None, None => true
  | _, _ => false
  end.
