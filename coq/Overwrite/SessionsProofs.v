(* C20 — soundness of the checkers of Overwrite/Sessions.v (append mode, unknown modes, read sessions, load
   functions), proved once for all programs from the soundness of the abstract interpreter (Proofs.aexec_sound). *)
From Coq Require Import List Bool Arith Lia.
Import ListNotations.
Require Import MD.Overwrite.Model MD.Overwrite.Proofs MD.Overwrite.Sessions.

(* ------------------------------------------------------------------ mode 'a' *)
Theorem append_keeps_old_node p : check_append p = true ->
  forall unk fo c new,
    let E := {| e_mode := MA; e_force := fo; e_unk := unk |} in
    s_node (snd (run p E {| s_node := Some c; s_h := HNone |})) = Some c /\
    (snd (open_write_close p E (Some c) new) = Some c \/
     exists old, c = File old /\ snd (open_write_close p E (Some c) new) = Some (File (old ++ new))).
Proof.
  intros Hc unk fo c new E. unfold check_append in Hc. cbn [forallb] in Hc. split_and.
  pose proof (aexec_sound (Some c) E p a0 _ (fun _ a => is_old (a_node a) && append_ok (a_h a)) (R0 (Some c))) as Hs.
  cbn [e_mode e_force E exists_] in Hs.
  assert (Hpost : post (Some c) (fun _ a => is_old (a_node a) && append_ok (a_h a))
                       (run p E {| s_node := Some c; s_h := HNone |})).
  { destruct fo; apply Hs; assumption. }
  destruct Hpost as [a' [[Hh HR] Hk]]. apply andb_true_iff in Hk. destruct Hk as [Ha Hw].
  destruct (a_node a'); try discriminate.
  split; [exact HR|].
  unfold open_write_close.
  destruct (run p E {| s_node := Some c; s_h := HNone |}) as [[|] s']; cbn [fst snd] in *.
  - rewrite Hh, HR. destruct (a_h a') as [| |[|k|]]; try discriminate; cbn.
    + left; reflexivity.
    + left; reflexivity.
    + destruct c as [b|b]; cbn.
      * right. exists b. split; reflexivity.
      * left; reflexivity.
  - left. exact HR.
Qed.

(* ------------------------------------------------------------------ unknown mode strings *)
Theorem bad_mode_refused_node p : check_badmode p = true ->
  forall unk fo n,
    let E := {| e_mode := MOther; e_force := fo; e_unk := unk |} in
    fst (run p E {| s_node := n; s_h := HNone |}) = Error /\
    s_node (snd (run p E {| s_node := n; s_h := HNone |})) = n.
Proof.
  intros Hc unk fo n E. unfold check_badmode in Hc. cbn [forallb] in Hc. split_and.
  pose proof (aexec_sound n E p a0 _ (fun o a => is_error o && is_old (a_node a)) (R0 n)) as Hs.
  cbn [e_mode e_force E] in Hs.
  assert (Hpost : post n (fun o a => is_error o && is_old (a_node a)) (run p E {| s_node := n; s_h := HNone |})).
  { destruct fo; destruct n; cbn [exists_] in Hs; apply Hs; assumption. }
  destruct Hpost as [a' [[_ HR] Hk]]. apply andb_true_iff in Hk. destruct Hk as [Ho Ha].
  split.
  - destruct (fst _); [discriminate | reflexivity].
  - destruct (a_node a'); try discriminate. exact HR.
Qed.

(* ------------------------------------------------------------------ read sessions *)
Lemma read_eff_keeps E e s : e_mode E = MR -> eff_reads e = true -> not_writing (s_h s) = true ->
  s_node (snd (do_eff E e s)) = s_node s /\ not_writing (s_h (snd (do_eff E e s))) = true.
Proof.
  intros Hm He Hw. destruct e; try discriminate; cbn [do_eff]; rewrite ?Hm; cbn [by_mode];
    unfold open_read; destruct (s_node s) eqn:Hn; cbn; rewrite ?Hn; auto.
Qed.

Lemma session_keeps E calls : e_mode E = MR -> forallb eff_reads calls = true -> forall s,
  not_writing (s_h s) = true ->
  s_node (session E calls s) = s_node s /\ not_writing (s_h (session E calls s)) = true.
Proof.
  intros Hm. induction calls as [|e calls IH]; intros Hall s Hw; cbn [session fold_left].
  - split; [reflexivity | exact Hw].
  - cbn [forallb] in Hall. apply andb_true_iff in Hall. destruct Hall as [He Hall].
    destruct (read_eff_keeps E e s Hm He Hw) as [Hn Hw'].
    destruct (IH Hall (snd (do_eff E e s)) Hw') as [Hn2 Hw2].
    unfold session in *. split; [rewrite Hn2; exact Hn | exact Hw2].
Qed.

Lemma forallb_sub {A} (f : A -> bool) l calls :
  forallb f l = true -> (forall e, In e calls -> In e l) -> forallb f calls = true.
Proof.
  intros Hl Hsub. apply forallb_forall. intros e He. rewrite forallb_forall in Hl. apply Hl, Hsub, He.
Qed.

(* mode 'r': the constructor followed by ANY sequence of the method-level open calls (each may fail) leaves the
   node as it was and never holds a handle that can write *)
Theorem read_session_untouched ctor sites : check_session ctor sites = true ->
  forall unk fo n calls, (forall e, In e calls -> In e sites) ->
    let E := {| e_mode := MR; e_force := fo; e_unk := unk |} in
    let s := session E calls (snd (run ctor E {| s_node := n; s_h := HNone |})) in
    s_node s = n /\ not_writing (s_h s) = true.
Proof.
  intros Hc unk fo n calls Hsub E. unfold check_session in Hc. apply andb_true_iff in Hc. destruct Hc as [Hro Hsites].
  pose proof (forallb_sub _ _ _ Hsites Hsub) as Hcalls.
  (* the constructor *)
  pose proof Hro as Hro'. unfold check_readonly in Hro'. cbn [forallb] in Hro'. split_and.
  pose proof (aexec_sound n E ctor a0 _ (fun _ a => is_old (a_node a) && not_writing (a_h a)) (R0 n)) as Hs.
  cbn [e_mode e_force E] in Hs.
  assert (Hpost : post n (fun _ a => is_old (a_node a) && not_writing (a_h a))
                       (run ctor E {| s_node := n; s_h := HNone |})).
  { destruct fo; destruct n; cbn [exists_] in Hs; apply Hs; assumption. }
  destruct Hpost as [a' [[Hh HR] Hk]]. apply andb_true_iff in Hk. destruct Hk as [Ha Hw].
  destruct (a_node a'); try discriminate.
  destruct (session_keeps E calls eq_refl Hcalls (snd (run ctor E {| s_node := n; s_h := HNone |}))) as [Hn Hw'].
  { rewrite Hh. exact Hw. }
  cbn zeta. split; [rewrite Hn; exact HR | exact Hw'].
Qed.

(* ------------------------------------------------------------------ load functions *)
Lemma upd_id F p q : upd F p (F p) q = F q.
Proof.
  unfold upd. destruct (path_eqb q p) eqn:Hq; [|reflexivity].
  apply path_eqb_eq in Hq. subst. reflexivity.
Qed.

Lemma for_loop_same body base :
  (forall c G q, snd (body c G) q = G q) ->
  forall cnt i F q, snd (for_loop body base cnt i F) q = F q.
Proof.
  intros Hb. induction cnt as [|cnt IH]; intros i F q; cbn [for_loop]; [reflexivity|].
  pose proof (Hb (numbered base i) F) as H1.
  destruct (body (numbered base i) F) as [[|] F']; cbn [snd] in *.
  - rewrite IH. apply H1.
  - apply H1.
Qed.

(* a load function whose constructor calls are all mode-'r' calls of read-only constructors changes no path of
   the file system — even if its body tried to write through the handle it holds *)
Theorem load_preserves_fs p : check_load p = true ->
  forall E base cur F q, snd (srun p E base cur F) q = F q.
Proof.
  induction p as [| i | c m f | a IHa b IHb | body IH | a IHa b IHb]; intros Hc E base cur F q; cbn [srun check_load] in *.
  - reflexivity.
  - destruct (se_unk E i); reflexivity.
  - destruct m; try discriminate.
    pose proof (read_only_node c Hc (se_unk E) (farg_val E f) (F cur) (se_new E (snd cur))) as [_ Hn].
    cbn zeta in Hn.
    destruct (open_write_close c {| e_mode := MR; e_force := farg_val E f; e_unk := se_unk E |} (F cur)
                               (se_new E (snd cur))) as [o n'].
    cbn [snd] in *. subst n'. apply upd_id.
  - apply andb_true_iff in Hc. destruct Hc as [H1 H2].
    destruct (Nat.eqb (se_frames E) 1); [apply IHa | apply IHb]; assumption.
  - apply for_loop_same. intros c G q'. apply IH. exact Hc.
  - apply andb_true_iff in Hc. destruct Hc as [H1 H2].
    pose proof (IHa H1 E base cur F) as Ha.
    destruct (srun a E base cur F) as [[|] F']; cbn [snd] in *.
    + rewrite (IHb H2 E base cur F' q). apply Ha.
    + apply Ha.
Qed.

(* ------------------------------------------------------------------ save in append mode *)
(* the old content of a path is still there, possibly with more behind it *)
Definition extends (old final : node) : Prop :=
  final = old \/ exists b tail, old = Some (File b) /\ final = Some (File (b ++ tail)).

Lemma extends_refl n : extends n n.
Proof. left; reflexivity. Qed.

Lemma extends_trans a b c : extends a b -> extends b c -> extends a c.
Proof.
  intros [H1|[x [t [H1 H1']]]] [H2|[y [u [H2 H2']]]]; subst.
  - left; reflexivity.
  - right. exists y, u. split; reflexivity.
  - right. exists x, t. split; reflexivity.
  - inversion H2; subst. right. exists x, (t ++ u). split; [reflexivity | rewrite app_assoc; reflexivity].
Qed.

Lemma for_loop_extends body base q :
  (forall c G, G q <> None -> extends (G q) (snd (body c G) q)) ->
  forall cnt i F, F q <> None -> extends (F q) (snd (for_loop body base cnt i F) q).
Proof.
  intros Hb. induction cnt as [|cnt IH]; intros i F Hq; cbn [for_loop]; [apply extends_refl|].
  pose proof (Hb (numbered base i) F Hq) as H1.
  destruct (body (numbered base i) F) as [[|] F']; cbn [snd] in *; [|exact H1].
  eapply extends_trans; [exact H1|]. apply IH.
  destruct H1 as [H1|[b [t [_ H1]]]]; rewrite H1; [exact Hq | discriminate].
Qed.

Theorem save_append_extends p : check_save_append p = true ->
  forall E base cur F q, F q <> None -> extends (F q) (snd (srun p E base cur F) q).
Proof.
  induction p as [| i | c m f | a IHa b IHb | body IH | a IHa b IHb]; intros Hc E base cur F q Hq;
    cbn [srun check_save_append] in *.
  - apply extends_refl.
  - destruct (se_unk E i); apply extends_refl.
  - destruct m; try discriminate.
    destruct (open_write_close c {| e_mode := MA; e_force := farg_val E f; e_unk := se_unk E |} (F cur)
                               (se_new E (snd cur))) as [o n'] eqn:Ho.
    cbn [snd]. unfold upd. destruct (path_eqb q cur) eqn:Hqc; [|apply extends_refl].
    apply path_eqb_eq in Hqc. subst q.
    destruct (F cur) as [cont|] eqn:HF; [|contradiction].
    destruct (append_keeps_old_node c Hc (se_unk E) (farg_val E f) cont (se_new E (snd cur))) as [_ H].
    cbn zeta in H. rewrite Ho in H. cbn [snd] in H.
    destruct H as [H|[old [H1 H2]]]; [left; exact H|].
    right. exists old, (se_new E (snd cur)). subst cont. split; [reflexivity | exact H2].
  - apply andb_true_iff in Hc. destruct Hc as [H1 H2].
    destruct (Nat.eqb (se_frames E) 1); [apply IHa | apply IHb]; assumption.
  - apply for_loop_extends; [|exact Hq]. intros c G HG. apply IH; assumption.
  - apply andb_true_iff in Hc. destruct Hc as [H1 H2].
    pose proof (IHa H1 E base cur F q Hq) as Ha.
    destruct (srun a E base cur F) as [[|] F']; cbn [snd] in *; [|exact Ha].
    eapply extends_trans; [exact Ha|]. apply IHb; [exact H2|].
    destruct Ha as [Ha|[b0 [t [_ Ha]]]]; rewrite Ha; [exact Hq | discriminate].
Qed.
