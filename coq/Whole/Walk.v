(* C11 -- the parent-first bond walk of trajectory.py:_parent_first_bonds (Model.pfb_walk) is, for EVERY bond
   graph, a parent-ordered walk made of bonds that connects the two ends of every bond. *)
From Coq Require Import ZArith List Bool Lia Arith.
Import ListNotations.
Require Import MD.Neigh.Model MD.Neigh.Arith MD.Neigh.NeighborsProofs MD.Neigh.NlistProofs MD.Whole.Model MD.Whole.Proofs.

(* ---------------------------------------------------------------- basics *)
Lemma memn_in x l : memn x l = true <-> In x l.
Proof.
  induction l as [|y l IH]; cbn [memn In]; [split; [discriminate|tauto]|].
  rewrite orb_true_iff, Nat.eqb_eq, IH. split; intros [H|H]; auto.
Qed.

Lemma memn_not_in x l : memn x l = false <-> ~ In x l.
Proof. rewrite <- memn_in. destruct (memn x l); split; congruence. Qed.

Definition adj (bonds : list (nat * nat)) (x y : nat) : Prop := In (x, y) bonds \/ In (y, x) bonds.

Lemma nbrs_spec bonds x y : In y (nbrs bonds x) <-> adj bonds x y.
Proof.
  unfold nbrs, adj. rewrite in_flat_map. split.
  - intros ((a, b) & Hb & Hin). cbn [fst snd] in Hin. apply in_app_or in Hin. destruct Hin as [Hin|Hin].
    + destruct (Nat.eqb a x) eqn:E; [|destruct Hin]. apply Nat.eqb_eq in E. destruct Hin as [<-|[]]. subst. now left.
    + destruct (Nat.eqb b x) eqn:E; [|destruct Hin]. apply Nat.eqb_eq in E. destruct Hin as [<-|[]]. subst. now right.
  - intros [H|H].
    + exists (x, y). split; [exact H|]. cbn [fst snd]. rewrite Nat.eqb_refl. apply in_or_app. left. now left.
    + exists (y, x). split; [exact H|]. cbn [fst snd]. rewrite Nat.eqb_refl. apply in_or_app. right. now left.
Qed.

Lemma adj_sym bonds x y : adj bonds x y -> adj bonds y x.
Proof. unfold adj. tauto. Qed.

(* connected through walk edges *)
Inductive conn (E : list (nat * nat)) : nat -> nat -> Prop :=
| conn_refl x : conn E x x
| conn_edge x y : In (x, y) E -> conn E x y
| conn_sym x y : conn E x y -> conn E y x
| conn_trans x y z : conn E x y -> conn E y z -> conn E x z.

Lemma conn_mono E E' x y : incl E E' -> conn E x y -> conn E' x y.
Proof.
  intros Hi H. induction H.
  - apply conn_refl.
  - apply conn_edge. now apply Hi.
  - now apply conn_sym.
  - now apply (conn_trans E' x y z).
Qed.

Definition walk_atoms (w : list (nat * nat)) : list nat := flat_map (fun e => [fst e; snd e]) w.

Lemma parent_ordered_snoc seen l a b :
  parent_ordered seen l -> a <> b -> ~ In b seen -> ~ In b (walk_atoms l) -> parent_ordered seen (l ++ [(a, b)]).
Proof.
  revert seen; induction l as [|(p, x) l IH]; intros seen Hpo Hab Hs Hw; cbn [app parent_ordered].
  - tauto.
  - cbn [parent_ordered] in Hpo. destruct Hpo as (H1 & H2 & H3). split; [exact H1|]. split; [exact H2|].
    cbn [walk_atoms flat_map fst snd app] in Hw. apply IH; [exact H3|exact Hab| |].
    + intros [E|[E|E]]; [apply Hw; now left|apply Hw; right; now left|contradiction].
    + intros Hin. apply Hw. right. right. exact Hin.
Qed.

Section DFS.
Variables (n : nat) (bonds : list (nat * nat)).
Hypothesis Hvalid : forall b, In b bonds -> (fst b < n)%nat /\ (snd b < n)%nat.

Lemma adj_valid x y : adj bonds x y -> (x < n)%nat /\ (y < n)%nat.
Proof. intros [H|H]; apply Hvalid in H; cbn [fst snd] in H; tauto. Qed.

Lemma bounded_length (l : list nat) : NoDup l -> (forall x, In x l -> (x < n)%nat) -> (length l <= n)%nat.
Proof.
  intros Hnd Hb. rewrite <- (seq_length n 0). apply NoDup_incl_length; [exact Hnd|].
  intros x Hx. apply in_seq. specialize (Hb x Hx). lia.
Qed.

(* ------------------------------------------------ invariant of the walk from one root *)
Section Root.
Variables (old : list nat) (r : nat).
Hypothesis Hold_closed : forall x y, In x old -> adj bonds x y -> In y old.

Definition inv_core (st : dstate) : Prop :=
  let '(placed, walk, stack) := st in
  incl old placed /\ In r placed /\
  (forall x, In x placed -> In x old \/ conn walk x r) /\
  (forall x, In x stack -> In x placed /\ ~ In x old) /\
  incl (walk_atoms walk) placed /\
  parent_ordered [] walk /\
  (forall e, In e walk -> adj bonds (fst e) (snd e)) /\
  NoDup placed /\ (forall x, In x placed -> (x < n)%nat) /\
  (forall x y, In x old -> In y old -> adj bonds x y -> conn walk x y).

(* every placed atom that is not waiting on the stack has all its neighbours placed -- except the atom being
   expanded, whose neighbours may still be in [todo] *)
Definition closedQ (atom : nat) (todo : list nat) (st : dstate) : Prop :=
  let '(placed, walk, stack) := st in
  forall x, In x placed -> ~ In x stack -> forall y, adj bonds x y -> In y placed \/ (x = atom /\ In y todo).
Definition closedP (st : dstate) : Prop :=
  let '(placed, walk, stack) := st in
  forall x, In x placed -> ~ In x stack -> forall y, adj bonds x y -> In y placed.

Definition measure (st : dstate) : nat :=
  let '(placed, walk, stack) := st in (n - length placed) + length stack.

Lemma visit_step atom other todo st :
  inv_core st -> closedQ atom (other :: todo) st -> adj bonds atom other ->
  (let '(placed, walk, stack) := st in In atom placed /\ ~ In atom old /\ conn walk atom r) ->
  let st' := visit atom st other in
  inv_core st' /\ closedQ atom todo st' /\ measure st' = measure st /\
  (let '(placed, walk, stack) := st' in In atom placed /\ ~ In atom old /\ conn walk atom r).
Proof.
  destruct st as ((placed, walk), stack). intros Hinv Hq Hadj (Hap & Hao & Hac). unfold visit.
  destruct (memn other placed) eqn:Em.
  - apply memn_in in Em. split; [exact Hinv|]. split; [|split; [reflexivity|tauto]].
    intros x Hx Hs y Hy. destruct (Hq x Hx Hs y Hy) as [H|(E & [<-|H])]; [now left|now left|right; tauto].
  - apply memn_not_in in Em.
    destruct Hinv as (C1 & C1r & C2 & C3 & C5 & C6 & C7 & C8 & C8b & C9).
    assert (Hincl : incl walk (walk ++ [(atom, other)])) by (intros e He; apply in_or_app; now left).
    assert (Hoo : ~ In other old) by (intros H; apply Em; now apply C1).
    assert (Hne : atom <> other) by (intros ->; contradiction).
    split; [|split; [|split]].
    + cbn [inv_core]. split; [intros x Hx; right; now apply C1|]. split; [now right|].
      split.
      { intros x [<-|Hx].
        - right. apply (conn_trans _ other atom r); [apply conn_sym, conn_edge, in_or_app; right; now left|now apply (conn_mono walk)].
        - destruct (C2 x Hx) as [H|H]; [now left|right; now apply (conn_mono walk)]. }
      split.
      { intros x [<-|Hx]; [split; [now left|exact Hoo]|]. destruct (C3 x Hx) as (H1 & H2). split; [now right|exact H2]. }
      split.
      { unfold walk_atoms. rewrite flat_map_app. intros x Hx. apply in_app_or in Hx. destruct Hx as [Hx|Hx].
        - right. now apply C5.
        - cbn in Hx. destruct Hx as [<-|[<-|[]]]; [now right|now left]. }
      split.
      { apply parent_ordered_snoc; [exact C6|exact Hne|intros []|]. intros H. apply Em. now apply C5. }
      split.
      { intros e He. apply in_app_or in He. destruct He as [He|[<-|[]]]; [now apply C7|exact Hadj]. }
      split; [constructor; assumption|].
      split.
      { intros x [<-|Hx]; [exact (proj2 (adj_valid _ _ Hadj))|now apply C8b]. }
      intros x y Hx Hy Ha. apply (conn_mono walk); [exact Hincl|now apply C9].
    + cbn [closedQ]. intros x [<-|Hx] Hs y Hy.
      * exfalso. apply Hs. now left.
      * assert (Hs' : ~ In x stack) by (intros H; apply Hs; now right).
        destruct (Hq x Hx Hs' y Hy) as [H|(E & [<-|H])]; [left; now right|left; now left|right; tauto].
    + cbn [measure length].
      assert (length (other :: placed) <= n)%nat.
      { apply bounded_length; [constructor; assumption|]. intros x [<-|Hx]; [exact (proj2 (adj_valid _ _ Hadj))|now apply C8b]. }
      cbn [length] in H. lia.
    + split; [now right|]. split; [exact Hao|now apply (conn_mono walk)].
Qed.

Lemma visit_fold atom todo st :
  inv_core st -> closedQ atom todo st -> (forall y, In y todo -> adj bonds atom y) ->
  (let '(placed, walk, stack) := st in In atom placed /\ ~ In atom old /\ conn walk atom r) ->
  let st' := fold_left (visit atom) todo st in
  inv_core st' /\ closedQ atom [] st' /\ measure st' = measure st.
Proof.
  revert st; induction todo as [|other todo IH]; intros st Hinv Hq Htodo Hat; cbn [fold_left].
  - tauto.
  - destruct (visit_step atom other todo st Hinv Hq (Htodo other (or_introl eq_refl)) Hat) as (H1 & H2 & H3 & H4).
    destruct (IH (visit atom st other) H1 H2 (fun y Hy => Htodo y (or_intror Hy)) H4) as (G1 & G2 & G3).
    split; [exact G1|]. split; [exact G2|]. now rewrite G3.
Qed.

Lemma dfs_loop_ok fuel st :
  inv_core st -> closedP st -> (measure st <= fuel)%nat ->
  let st' := dfs_loop fuel bonds st in
  inv_core st' /\ closedP st' /\ snd st' = [].
Proof.
  revert st; induction fuel as [|f IH]; intros st Hinv Hc Hm.
  - destruct st as ((placed, walk), stack). cbn [dfs_loop]. split; [exact Hinv|]. split; [exact Hc|].
    cbn [measure] in Hm. cbn [snd]. destruct stack; [reflexivity|cbn [length] in Hm; lia].
  - destruct st as ((placed, walk), stack). cbn [dfs_loop]. destruct stack as [|atom rest]; [tauto|].
    destruct Hinv as (C1 & C1r & C2 & C3 & C5 & C6 & C7 & C8 & C8b & C9).
    destruct (C3 atom (or_introl eq_refl)) as (Hap & Hao).
    assert (Hac : conn walk atom r) by (destruct (C2 atom Hap) as [H|H]; [contradiction|exact H]).
    assert (Hinv' : inv_core (placed, walk, rest)).
    { cbn [inv_core]. split; [exact C1|]. split; [exact C1r|]. split; [exact C2|]. split; [intros x Hx; apply C3; now right|].
      split; [exact C5|]. split; [exact C6|]. split; [exact C7|]. split; [exact C8|]. split; [exact C8b|exact C9]. }
    assert (Hq : closedQ atom (nbrs bonds atom) (placed, walk, rest)).
    { cbn [closedQ]. intros x Hx Hs y Hy. destruct (Nat.eq_dec x atom) as [->|Hne].
      - right. split; [reflexivity|now apply nbrs_spec].
      - left. apply (Hc x Hx); [|exact Hy]. intros [E|H]; [congruence|contradiction]. }
    destruct (visit_fold atom (nbrs bonds atom) (placed, walk, rest) Hinv' Hq (fun y Hy => proj1 (nbrs_spec bonds atom y) Hy)
                (conj Hap (conj Hao Hac))) as (G1 & G2 & G3).
    apply IH; [exact G1| |].
    + destruct (fold_left (visit atom) (nbrs bonds atom) (placed, walk, rest)) as ((p', w'), s').
      cbn [closedQ closedP] in *. intros x Hx Hs y Hy. destruct (G2 x Hx Hs y Hy) as [H|(_ & [])]. exact H.
    + rewrite G3. cbn [measure length] in *. lia.
Qed.
End Root.
End DFS.

(* ---------------------------------------------------------------- all roots *)
Section Outer.
Variables (n : nat) (bonds : list (nat * nat)).
Hypothesis Hvalid : forall b, In b bonds -> (fst b < n)%nat /\ (snd b < n)%nat.

Definition outer_inv (acc : list nat * list (nat * nat)) : Prop :=
  let '(placed, walk) := acc in
  (forall x y, In x placed -> adj bonds x y -> In y placed) /\
  (forall x y, In x placed -> In y placed -> adj bonds x y -> conn walk x y) /\
  incl (walk_atoms walk) placed /\
  parent_ordered [] walk /\
  (forall e, In e walk -> adj bonds (fst e) (snd e)) /\
  NoDup placed /\ (forall x, In x placed -> (x < n)%nat).

Lemma pfb_root_ok acc root :
  outer_inv acc -> (root < n)%nat ->
  outer_inv (pfb_root n bonds acc root) /\ In root (fst (pfb_root n bonds acc root)) /\
  incl (fst acc) (fst (pfb_root n bonds acc root)) /\
  (forall x, In x (fst (pfb_root n bonds acc root)) -> In x (fst acc) \/ conn (snd (pfb_root n bonds acc root)) x root).
Proof.
  destruct acc as (placed, walk). intros (O1 & O2 & O3 & O4 & O5 & O6 & O7) Hr.
  unfold pfb_root. cbn [fst snd]. destruct (memn root placed) eqn:Em.
  - apply memn_in in Em. cbn [fst]. split; [cbn [outer_inv]; tauto|]. split; [exact Em|]. split; [apply incl_refl|]. intros x Hx. now left.
  - apply memn_not_in in Em.
    set (st0 := (root :: placed, walk, [root]) : dstate).
    assert (Hb : forall x, In x (root :: placed) -> (x < n)%nat) by (intros x [<-|Hx]; [exact Hr|now apply O7]).
    assert (Hlen : (length (root :: placed) <= n)%nat) by (apply bounded_length; [constructor; assumption|exact Hb]).
    assert (Hinv : inv_core n bonds placed root st0).
    { cbn [inv_core st0]. split; [intros x Hx; now right|]. split; [now left|].
      split; [intros x [<-|Hx]; [right; apply conn_refl|now left]|].
      split; [intros x [<-|[]]; split; [now left|exact Em]|].
      split; [intros x Hx; right; now apply O3|]. split; [exact O4|]. split; [exact O5|].
      split; [constructor; assumption|]. split; [exact Hb|exact O2]. }
    assert (Hc : closedP bonds st0).
    { cbn [closedP st0]. intros x [<-|Hx] Hs y Hy; [exfalso; apply Hs; now left|]. right. now apply (O1 x y). }
    assert (Hm : (measure n st0 <= n)%nat) by (cbn [measure st0 length] in *; lia).
    destruct (dfs_loop_ok n bonds Hvalid placed root n st0 Hinv Hc Hm) as (G1 & G2 & G3).
    destruct (dfs_loop n bonds st0) as ((p', w'), s'). cbn [snd] in G3. subst s'. cbn [fst snd].
    destruct G1 as (C1 & C1r & C2 & C3 & C5 & C6 & C7 & C8 & C8b & C9). cbn [closedP] in G2.
    split; [|split; [exact C1r|split; [exact C1|exact C2]]].
    cbn [outer_inv]. split; [intros x y Hx Hy; apply (G2 x Hx); [intros []|exact Hy]|].
    split; [|tauto].
    intros x y Hx Hy Ha.
    destruct (C2 x Hx) as [Hxo|Hxc].
    + assert (In y placed) by (now apply (O1 x y)). now apply C9.
    + destruct (C2 y Hy) as [Hyo|Hyc].
      * assert (In x placed) by (apply (O1 y x); [exact Hyo|now apply adj_sym]). now apply C9.
      * apply (conn_trans _ x root y); [exact Hxc|now apply conn_sym].
Qed.

Lemma pfb_fold_ok l acc :
  outer_inv acc -> (forall x, In x l -> (x < n)%nat) ->
  let res := fold_left (pfb_root n bonds) l acc in
  outer_inv res /\ (forall x, In x l -> In x (fst res)) /\ incl (fst acc) (fst res).
Proof.
  revert acc; induction l as [|r l IH]; intros acc Hinv Hl; cbn [fold_left].
  - split; [exact Hinv|]. split; [intros x []|apply incl_refl].
  - destruct (pfb_root_ok acc r Hinv (Hl r (or_introl eq_refl))) as (H1 & H2 & H3 & _).
    destruct (IH (pfb_root n bonds acc r) H1 (fun x Hx => Hl x (or_intror Hx))) as (G1 & G2 & G3).
    split; [exact G1|]. split.
    + intros x [<-|Hx]; [now apply G3|now apply G2].
    + intros x Hx. apply G3. now apply H3.
Qed.

(* the walk of _parent_first_bonds, for every bond list with valid indices *)
Theorem pfb_walk_ok :
  parent_ordered [] (pfb_walk n bonds) /\
  (forall e, In e (pfb_walk n bonds) -> adj bonds (fst e) (snd e)) /\
  (forall b, In b bonds -> conn (pfb_walk n bonds) (fst b) (snd b)).
Proof.
  unfold pfb_walk.
  assert (H0 : outer_inv ([], [])).
  { cbn [outer_inv]. split; [intros x y []|]. split; [intros x y []|]. split; [intros x []|].
    split; [exact I|]. split; [intros e []|]. split; [constructor|intros x []]. }
  destruct (pfb_fold_ok (seq 0 n) ([], []) H0) as (G1 & G2 & _).
  { intros x Hx. apply in_seq in Hx. lia. }
  destruct (fold_left (pfb_root n bonds) (seq 0 n) ([], [])) as (placed, walk). cbn [fst snd] in *.
  destruct G1 as (O1 & O2 & O3 & O4 & O5 & O6 & O7).
  split; [exact O4|]. split; [exact O5|].
  intros (a, b) Hb. cbn [fst snd]. destruct (Hvalid (a, b) Hb) as (Ha & Hbb). cbn [fst snd] in Ha, Hbb.
  apply O2; [apply G2, in_seq; lia|apply G2, in_seq; lia|now left].
Qed.
End Outer.

(* ---------------------------------------------------------------- the repaired make_whole, full statement *)
Open Scope Z_scope.

Lemma tau_conn B xyz sg st E :
  (forall e, In e E -> vsub (st_pos st (snd e)) (st_pos st (fst e)) = sigma_disp B xyz sg e) ->
  forall x y, conn E x y -> tau B xyz sg st x = tau B xyz sg st y.
Proof.
  intros He x y H. induction H.
  - reflexivity.
  - symmetry. apply tau_edge. exact (He (x, y) H).
  - now symmetry.
  - now transitivity (tau B xyz sg st y).
Qed.

(* Every system that can be made whole at all (sigma: lattice multipliers under which every bond is shorter than
   cn/cd <= half of every diagonal cell entry) IS made whole by the walk of _parent_first_bonds: every bonded pair --
   ring closures included -- ends exactly at its displacement in the whole configuration, shorter than cn/cd and at its
   minimum over all lattice images.  No side condition on the bond graph. *)
Theorem whole_fixed_order_full B cn cd xyz sg bonds :
  box_ok B -> 0 < cd -> 0 <= cn -> half_width_ok B cn cd ->
  (forall b, In b bonds -> (fst b < length xyz)%nat /\ (snd b < length xyz)%nat) ->
  makes_whole B cn cd xyz sg bonds ->
  forall bond, In bond bonds ->
    let st := make_whole B (pfb_walk (length xyz) bonds) (init_state xyz) in
    let d := vsub (st_pos st (snd bond)) (st_pos st (fst bond)) in
    d = sigma_disp B xyz sg bond /\ norm2 d * (cd * cd) < cn * cn /\
    forall k1 k2 k3, norm2 d <= norm2 (vsub d (lat B k1 k2 k3)).
Proof.
  intros HB Hcd Hcn HW Hvalid Hsg bond Hin st d.
  destruct (pfb_walk_ok (length xyz) bonds Hvalid) as (Hpo & Hedges & Hconn).
  set (out := pfb_walk (length xyz) bonds) in *.
  assert (Hout : forall e, In e out -> (snd e < length xyz)%nat /\ norm2 (sigma_disp B xyz sg e) * (cd * cd) < cn * cn).
  { intros e He. destruct (Hedges e He) as [Hb|Hb].
    - replace (fst e, snd e) with e in Hb by (destruct e; reflexivity).
      split; [exact (proj2 (Hvalid e Hb))|now apply Hsg].
    - split; [exact (proj1 (Hvalid _ Hb))|].
      destruct e as (a, b). cbn [fst snd] in Hb. rewrite <- sigma_disp_swap. now apply Hsg. }
  assert (Hedge : forall e, In e out -> vsub (st_pos st (snd e)) (st_pos st (fst e)) = sigma_disp B xyz sg e).
  { intros e He. apply (whole_walk_sigma B cn cd xyz sg HB Hcd Hcn HW out [] (init_state xyz) []); try assumption.
    - apply tracks_init.
    - intros bd []. }
  assert (Htau : tau B xyz sg st (snd bond) = tau B xyz sg st (fst bond)).
  { symmetry. apply (tau_conn B xyz sg st out Hedge). now apply Hconn. }
  assert (Ed : d = sigma_disp B xyz sg bond).
  { subst d. unfold tau, sigma_disp in *. revert Htau.
    generalize (st_pos st (snd bond)) (st_pos st (fst bond)) (sigma_pos B xyz sg (snd bond)) (sigma_pos B xyz sg (fst bond)).
    intros [[x1 y1] z1] [[x2 y2] z2] [[x3 y3] z3] [[x4 y4] z4] Htau.
    unfold vsub, vx, vy, vz in *; cbn [fst snd] in *. inversion Htau as [[E1 E2 E3]]. f_equal; [f_equal|]; lia. }
  split; [exact Ed|]. assert (Hs : norm2 d * (cd * cd) < cn * cn) by (rewrite Ed; now apply Hsg).
  split; [exact Hs|]. intros k1 k2 k3. now apply (short_is_minimum B cn cd d k1 k2 k3 HB Hcd Hcn HW).
Qed.

(* ---------------------------------------------------------------- find_molecules: connected components *)
Section Molecules.
Variables (n : nat) (bonds : list (nat * nat)).
Hypothesis Hvalid : forall b, In b bonds -> (fst b < n)%nat /\ (snd b < n)%nat.

Lemma conn_walk_bonds walk x y :
  (forall e, In e walk -> adj bonds (fst e) (snd e)) -> conn walk x y -> conn bonds x y.
Proof.
  intros He H. induction H.
  - apply conn_refl.
  - destruct (He (x, y) H) as [Hb|Hb]; cbn [fst snd] in Hb; [now apply conn_edge|now apply conn_sym, conn_edge].
  - now apply conn_sym.
  - now apply (conn_trans bonds x y z).
Qed.

Definition fm_inv (acc : (list nat * list (nat * nat)) * list (list nat)) : Prop :=
  outer_inv n bonds (fst acc) /\
  (forall x, In x (fst (fst acc)) <-> In x (concat (snd acc))) /\
  NoDup (concat (snd acc)) /\
  (forall m, In m (snd acc) -> forall a b, In a m -> In b m -> conn bonds a b) /\
  (forall m, In m (snd acc) -> forall a y, In a m -> adj bonds a y -> In y m).

Lemma concat_snoc {A} (l : list (list A)) x : concat (l ++ [x]) = concat l ++ x.
Proof. rewrite concat_app. cbn. now rewrite app_nil_r. Qed.

Lemma fm_root_ok acc root :
  fm_inv acc -> (root < n)%nat ->
  fm_inv (fm_root n bonds acc root) /\ In root (fst (fst (fm_root n bonds acc root))) /\
  incl (fst (fst acc)) (fst (fst (fm_root n bonds acc root))).
Proof.
  destruct acc as ((placed, walk), comps). intros (Ho & F1 & F2 & F4 & F5) Hr. cbn [fst snd] in *.
  unfold fm_root. cbn [fst snd]. destruct (memn root placed) eqn:Em.
  - apply memn_in in Em. split; [unfold fm_inv; cbn [fst snd]; tauto|]. split; [exact Em|apply incl_refl].
  - assert (Em' := proj1 (memn_not_in root placed) Em).
    destruct (pfb_root_ok n bonds Hvalid (placed, walk) root Ho Hr) as (Ho' & Hroot & Hincl & Hreach).
    unfold pfb_root in *. cbn [fst snd] in *. rewrite Em in *.
    set (rr := dfs_loop n bonds (root :: placed, walk, [root])) in *.
    set (placed' := fst (fst rr)) in *. set (walk' := snd (fst rr)) in *. cbn [fst snd] in *.
    set (new := filter (fun x => negb (memn x placed)) placed').
    assert (Hnew : forall x, In x new <-> In x placed' /\ ~ In x placed).
    { intros x. unfold new. rewrite filter_In, negb_true_iff, memn_not_in. tauto. }
    destruct Ho as (O1 & O2 & O3 & O4 & O5 & O6 & O7).
    destruct Ho' as (O1' & O2' & O3' & O4' & O5' & O6' & O7').
    split; [|split; [exact Hroot|exact Hincl]].
    unfold fm_inv. cbn [fst snd]. split; [cbn [outer_inv]; tauto|].
    rewrite concat_snoc.
    split.
    { intros x. rewrite in_app_iff, Hnew, <- F1. split.
      - intros Hx. destruct (in_dec Nat.eq_dec x placed); tauto.
      - intros [Hx|(Hx & _)]; [now apply Hincl|exact Hx]. }
    split.
    { apply NoDup_app_intro; [exact F2|unfold new; now apply List.NoDup_filter|].
      intros x Hx Hx'. apply Hnew in Hx'. apply F1 in Hx. tauto. }
    split.
    { intros m Hm a b Ha Hb. apply in_app_or in Hm. destruct Hm as [Hm|[<-|[]]]; [now apply (F4 m)|].
      apply Hnew in Ha, Hb. destruct Ha as (Ha & Hao), Hb as (Hb & Hbo).
      destruct (Hreach a Ha) as [?|Ca]; [contradiction|]. destruct (Hreach b Hb) as [?|Cb]; [contradiction|].
      apply (conn_walk_bonds walk'); [exact O5'|]. apply (conn_trans _ a root b); [exact Ca|now apply conn_sym]. }
    intros m Hm a y Ha Hy. apply in_app_or in Hm. destruct Hm as [Hm|[<-|[]]]; [now apply (F5 m Hm a y)|].
    apply Hnew in Ha. destruct Ha as (Ha & Hao). apply Hnew. split; [now apply (O1' a y)|].
    intros Hyo. apply Hao. apply (O1 y a Hyo). now apply adj_sym.
Qed.

Lemma fm_fold_ok l acc :
  fm_inv acc -> (forall x, In x l -> (x < n)%nat) ->
  let res := fold_left (fm_root n bonds) l acc in
  fm_inv res /\ (forall x, In x l -> In x (fst (fst res))) /\ incl (fst (fst acc)) (fst (fst res)).
Proof.
  revert acc; induction l as [|r l IH]; intros acc Hinv Hl; cbn [fold_left].
  - split; [exact Hinv|]. split; [intros x []|apply incl_refl].
  - destruct (fm_root_ok acc r Hinv (Hl r (or_introl eq_refl))) as (H1 & H2 & H3).
    destruct (IH (fm_root n bonds acc r) H1 (fun x Hx => Hl x (or_intror Hx))) as (G1 & G2 & G3).
    split; [exact G1|]. split.
    + intros x [<-|Hx]; [now apply G3|now apply G2].
    + intros x Hx. apply G3. now apply H3.
Qed.

(* find_molecules partitions the atoms 0..n-1, and two atoms are in one molecule iff the bond graph connects them *)
Theorem find_molecules_spec :
  let mols := find_molecules n bonds in
  (forall a, (a < n)%nat -> exists m, In m mols /\ In a m) /\
  NoDup (concat mols) /\
  (forall m a, In m mols -> In a m -> (a < n)%nat) /\
  (forall m a b, In m mols -> In a m -> In b m -> conn bonds a b) /\
  (forall a b, conn bonds a b -> forall m, In m mols -> (In a m <-> In b m)).
Proof.
  unfold find_molecules.
  assert (H0 : fm_inv (([], []), [])).
  { unfold fm_inv. cbn [fst snd concat]. split.
    - cbn [outer_inv]. split; [intros x y []|]. split; [intros x y []|]. split; [intros x []|].
      split; [exact I|]. split; [intros e []|]. split; [constructor|intros x []].
    - split; [tauto|]. split; [constructor|]. split; intros m []. }
  destruct (fm_fold_ok (seq 0 n) (([], []), []) H0) as (G1 & G2 & _).
  { intros x Hx. apply in_seq in Hx. lia. }
  destruct (fold_left (fm_root n bonds) (seq 0 n) (([], []), [])) as ((placed, walk), comps). cbn [fst snd] in *.
  destruct G1 as (Ho & F1 & F2 & F4 & F5). cbn [fst snd] in *.
  destruct Ho as (O1 & O2 & O3 & O4 & O5 & O6 & O7).
  split.
  { intros a Ha. assert (Hp : In a placed) by (apply G2, in_seq; lia).
    apply F1, in_concat in Hp. destruct Hp as (m & Hm & Hin). now exists m. }
  split; [exact F2|].
  split.
  { intros m a Hm Ha. apply O7, F1, in_concat. now exists m. }
  split; [intros m a b Hm; now apply F4|].
  intros a b Hc. induction Hc; intros m Hm.
  - tauto.
  - assert (Ha : adj bonds x y) by now left. split; intros Hin; [now apply (F5 m Hm x y)|apply (F5 m Hm y x Hin)]. now apply adj_sym.
  - specialize (IHHc m Hm). tauto.
  - specialize (IHHc1 m Hm). specialize (IHHc2 m Hm). tauto.
Qed.
End Molecules.
