From Coq Require Import ZArith List Bool Lia ZifyBool Arith.
Import ListNotations.
Require Import MD.Neigh.Model MD.Neigh.Arith MD.Neigh.NeighborsProofs MD.Whole.Model.
Open Scope Z_scope.

(* ---------------------------------------------------------------- list update *)
Lemma set_nth_length {A} i (x : A) l : length (set_nth i x l) = length l.
Proof. revert i; induction l as [|y l IH]; intros [|i]; cbn; auto. Qed.

Lemma nth_set_nth_eq {A} i (x d : A) l : (i < length l)%nat -> nth i (set_nth i x l) d = x.
Proof. revert i; induction l as [|y l IH]; intros [|i] H; cbn in *; try lia; auto. apply IH. lia. Qed.

Lemma nth_set_nth_neq {A} i j (x d : A) l : i <> j -> nth j (set_nth i x l) d = nth j l d.
Proof.
  revert i j; induction l as [|y l IH]; intros [|i] [|j] H; cbn; auto; try congruence.
Qed.

(* ---------------------------------------------------------------- lattice algebra *)
Lemma latv_add B k k' : latv B (vadd k k') = vadd (latv B k) (latv B k').
Proof.
  apply vec_eq; unfold latv, lat, vadd, vscale, avec, bvec, cvec, vx, vy, vz; cbn [fst snd]; ring.
Qed.

Lemma latv_zero B : latv B (0, 0, 0) = (0, 0, 0).
Proof. reflexivity. Qed.

Lemma vsub_vsub_vadd p u v : vsub (vsub p u) v = vsub p (vadd u v).
Proof. apply vec_eq; unfold vsub, vadd, vx, vy, vz; cbn [fst snd]; ring. Qed.

(* ---------------------------------------------------------------- every move is a lattice vector *)
(* every atom sits at its original position minus the cell-vector combination it carries *)
Definition tracks (B : box) (xyz : list vec) (st : list atom_st) : Prop :=
  length st = length xyz /\ forall i, st_pos st i = vsub (pos xyz i) (latv B (st_shift st i)).

Lemma st_default_pos : forall i, st_pos [] i = (0, 0, 0).
Proof. intros [|i]; reflexivity. Qed.

Lemma nth_map_lt {A C} (f : A -> C) l i d d' : (i < length l)%nat -> nth i (map f l) d' = f (nth i l d).
Proof. revert i; induction l as [|x l IH]; intros [|i] H; cbn in *; try lia; auto. apply IH. lia. Qed.

Lemma tracks_init B xyz : tracks B xyz (init_state xyz).
Proof.
  split; [apply map_length|]. intros i. unfold st_pos, st_shift, init_state, pos.
  destruct (Nat.lt_ge_cases i (length xyz)) as [H|H].
  - rewrite (nth_map_lt (fun p : vec => (p, (0, 0, 0))) xyz i (0, 0, 0)) by exact H. cbn [fst snd]. rewrite latv_zero.
    apply vec_eq; unfold vsub, vx, vy, vz; cbn [fst snd]; ring.
  - rewrite !nth_overflow by (rewrite ?map_length; lia). reflexivity.
Qed.

Lemma tracks_shift B xyz st k i : tracks B xyz st -> tracks B xyz (shift_atom B k st i).
Proof.
  intros (Hl & Hp). unfold shift_atom. split; [now rewrite set_nth_length|].
  intros j. unfold st_pos, st_shift in *.
  destruct (Nat.eq_dec i j) as [->|Hne].
  - destruct (Nat.lt_ge_cases j (length st)) as [H|H].
    + rewrite !nth_set_nth_eq by exact H. cbn [fst snd]. rewrite latv_add, Hp. apply vsub_vsub_vadd.
    + rewrite !nth_overflow by (rewrite ?set_nth_length; lia). cbn [fst snd].
      specialize (Hp j). rewrite !nth_overflow in Hp by lia. exact Hp.
  - rewrite !nth_set_nth_neq by exact Hne. apply Hp.
Qed.

Lemma tracks_whole_step B xyz st bond : tracks B xyz st -> tracks B xyz (whole_step B st bond).
Proof. intros H. unfold whole_step. now apply tracks_shift. Qed.

Lemma tracks_make_whole B xyz bonds st : tracks B xyz st -> tracks B xyz (make_whole B bonds st).
Proof.
  unfold make_whole. revert st; induction bonds as [|b bonds IH]; intros st H; cbn [fold_left]; [exact H|].
  apply IH. now apply tracks_whole_step.
Qed.

Lemma tracks_fold_shift B xyz k mol st : tracks B xyz st -> tracks B xyz (fold_left (shift_atom B k) mol st).
Proof.
  revert st; induction mol as [|a mol IH]; intros st H; cbn [fold_left]; [exact H|].
  apply IH. now apply tracks_shift.
Qed.

Lemma tracks_cluster B xyz anchors cts fuel used avail st :
  tracks B xyz st -> tracks B xyz (cluster fuel B anchors cts used avail st).
Proof.
  revert used avail st; induction fuel as [|f IH]; intros used avail st H; [destruct avail; exact H|].
  cbn [cluster]. destruct avail as [|a avail]; [exact H|].
  destruct (cluster_pick anchors cts used (a :: avail)) as (((next, nearest), a1), a2).
  apply IH. now apply tracks_fold_shift.
Qed.

Lemma tracks_wrap_fold B xyz SA NA others st :
  tracks B xyz st ->
  tracks B xyz (fold_left (fun s mol => fold_left (shift_atom B (wrap_mol_k B s SA NA mol)) mol s) others st).
Proof.
  revert st; induction others as [|mol others IH]; intros st H; cbn [fold_left]; [exact H|].
  apply IH. now apply tracks_fold_shift.
Qed.

Lemma tracks_image_frame B xyz anchors others st :
  tracks B xyz st -> tracks B xyz (fst (fst (image_frame B anchors others st))).
Proof.
  intros H. unfold image_frame. cbv zeta. cbn [fst].
  apply tracks_wrap_fold. apply tracks_cluster. exact H.
Qed.
