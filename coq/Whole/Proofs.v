From Coq Require Import ZArith List Bool Lia ZifyBool Arith.
Import ListNotations.
Require Import MD.Neigh.Model MD.Neigh.Arith MD.Neigh.NeighborsProofs MD.Whole.Model.
Open Scope Z_scope.

(* ---------------------------------------------------------------- list update *)
Lemma set_nth_length {A} i (x : A) l : length (set_nth i x l) = length l.
Proof. revert i; induction l as [|y l IH]; intros [|i]; cbn; auto. Qed.

Lemma nth_set_nth_eq {A} i (x d : A) l : (i < length l)%nat -> nth i (set_nth i x l) d = x.
Proof. revert i; induction l as [|y l IH]; intros [|i] H; cbn in *; try lia; auto. apply IH. lia. Qed.

Lemma nth_set_nth_neq {A} i j (x d : A) l : i <> j -> nth j (set_nth i x l) d = nth j l d.
Proof.
  revert i j; induction l as [|y l IH]; intros [|i] [|j] H; cbn; auto; try congruence.
Qed.

(* ---------------------------------------------------------------- lattice algebra *)
Lemma latv_add B k k' : latv B (vadd k k') = vadd (latv B k) (latv B k').
Proof.
  apply vec_eq; unfold latv, lat, vadd, vscale, avec, bvec, cvec, vx, vy, vz; cbn [fst snd]; ring.
Qed.

Lemma latv_zero B : latv B (0, 0, 0) = (0, 0, 0).
Proof. reflexivity. Qed.

Lemma vsub_vsub_vadd p u v : vsub (vsub p u) v = vsub p (vadd u v).
Proof. apply vec_eq; unfold vsub, vadd, vx, vy, vz; cbn [fst snd]; ring. Qed.

(* ---------------------------------------------------------------- every move is a lattice vector *)
(* every atom sits at its original position minus the cell-vector combination it carries *)
Definition tracks (B : box) (xyz : list vec) (st : list atom_st) : Prop :=
  length st = length xyz /\ forall i, st_pos st i = vsub (pos xyz i) (latv B (st_shift st i)).

Lemma st_default_pos : forall i, st_pos [] i = (0, 0, 0).
Proof. intros [|i]; reflexivity. Qed.

Lemma nth_map_lt {A C} (f : A -> C) l i d d' : (i < length l)%nat -> nth i (map f l) d' = f (nth i l d).
Proof. revert i; induction l as [|x l IH]; intros [|i] H; cbn in *; try lia; auto. apply IH. lia. Qed.

Lemma tracks_init B xyz : tracks B xyz (init_state xyz).
Proof.
  split; [apply map_length|]. intros i. unfold st_pos, st_shift, init_state, pos.
  destruct (Nat.lt_ge_cases i (length xyz)) as [H|H].
  - rewrite (nth_map_lt (fun p : vec => (p, (0, 0, 0))) xyz i (0, 0, 0)) by exact H. cbn [fst snd]. rewrite latv_zero.
    apply vec_eq; unfold vsub, vx, vy, vz; cbn [fst snd]; ring.
  - rewrite !nth_overflow by (rewrite ?map_length; lia). reflexivity.
Qed.

Lemma tracks_shift B xyz st k i : tracks B xyz st -> tracks B xyz (shift_atom B k st i).
Proof.
  intros (Hl & Hp). unfold shift_atom. split; [now rewrite set_nth_length|].
  intros j. unfold st_pos, st_shift in *.
  destruct (Nat.eq_dec i j) as [->|Hne].
  - destruct (Nat.lt_ge_cases j (length st)) as [H|H].
    + rewrite !nth_set_nth_eq by exact H. cbn [fst snd]. rewrite latv_add, Hp. apply vsub_vsub_vadd.
    + rewrite !nth_overflow by (rewrite ?set_nth_length; lia). cbn [fst snd].
      specialize (Hp j). rewrite !nth_overflow in Hp by lia. exact Hp.
  - rewrite !nth_set_nth_neq by exact Hne. apply Hp.
Qed.

Lemma tracks_whole_step B xyz st bond : tracks B xyz st -> tracks B xyz (whole_step B st bond).
Proof. intros H. unfold whole_step. now apply tracks_shift. Qed.

Lemma tracks_make_whole B xyz bonds st : tracks B xyz st -> tracks B xyz (make_whole B bonds st).
Proof.
  unfold make_whole. revert st; induction bonds as [|b bonds IH]; intros st H; cbn [fold_left]; [exact H|].
  apply IH. now apply tracks_whole_step.
Qed.

Lemma tracks_fold_shift B xyz k mol st : tracks B xyz st -> tracks B xyz (fold_left (shift_atom B k) mol st).
Proof.
  revert st; induction mol as [|a mol IH]; intros st H; cbn [fold_left]; [exact H|].
  apply IH. now apply tracks_shift.
Qed.

Lemma tracks_cluster B xyz anchors cts fuel used avail st :
  tracks B xyz st -> tracks B xyz (cluster fuel B anchors cts used avail st).
Proof.
  revert used avail st; induction fuel as [|f IH]; intros used avail st H; [destruct avail; exact H|].
  cbn [cluster]. destruct avail as [|a avail]; [exact H|].
  destruct (cluster_pick anchors cts used (a :: avail)) as (((next, nearest), a1), a2).
  apply IH. now apply tracks_fold_shift.
Qed.

Lemma tracks_wrap_fold B xyz SA NA others st :
  tracks B xyz st ->
  tracks B xyz (fold_left (fun s mol => fold_left (shift_atom B (wrap_mol_k B s SA NA mol)) mol s) others st).
Proof.
  revert st; induction others as [|mol others IH]; intros st H; cbn [fold_left]; [exact H|].
  apply IH. now apply tracks_fold_shift.
Qed.

Lemma tracks_image_frame B xyz anchors others st :
  tracks B xyz st -> tracks B xyz (fst (fst (image_frame B anchors others st))).
Proof.
  intros H. unfold image_frame. cbv zeta. cbn [fst].
  apply tracks_wrap_fold. apply tracks_cluster. exact H.
Qed.

(* ---------------------------------------------------------------- one bond step *)
Lemma kseq_wrap r B d : vsub d (latv B (kseq r B d)) = wrap_seq r B d.
Proof.
  unfold kseq, wrap_seq, latv. cbv zeta.
  apply vec_eq; unfold vsub, lat, vadd, vscale, avec, bvec, cvec, vx, vy, vz; cbn [fst snd]; ring.
Qed.

Lemma st_pos_shift_same B k st i : (i < length st)%nat ->
  st_pos (shift_atom B k st i) i = vsub (st_pos st i) (latv B k).
Proof. intros H. unfold shift_atom, st_pos at 1. now rewrite nth_set_nth_eq by exact H. Qed.

Lemma st_pos_shift_other B k st i j : i <> j -> st_pos (shift_atom B k st i) j = st_pos st j.
Proof. intros H. unfold shift_atom, st_pos at 1. now rewrite nth_set_nth_neq by exact H. Qed.

Lemma shift_atom_length B k st i : length (shift_atom B k st i) = length st.
Proof. unfold shift_atom. apply set_nth_length. Qed.

Lemma whole_step_pos_b B st a b : (b < length st)%nat ->
  st_pos (whole_step B st (a, b)) b = vadd (st_pos st a) (wrap_seq rnd_haz B (vsub (st_pos st b) (st_pos st a))).
Proof.
  intros H. unfold whole_step. cbn [fst snd]. rewrite st_pos_shift_same by exact H.
  rewrite <- kseq_wrap.
  apply vec_eq; unfold vsub, vadd, vx, vy, vz; cbn [fst snd]; ring.
Qed.

Lemma whole_step_pos_other B st a b j : j <> b -> st_pos (whole_step B st (a, b)) j = st_pos st j.
Proof. intros H. unfold whole_step. cbn [fst snd]. apply st_pos_shift_other. congruence. Qed.

(* ---------------------------------------------------------------- parent-ordered walks *)
(* every atom that has already occurred in a bond (as either end) is never moved again *)
Fixpoint parent_ordered (seen : list nat) (l : list (nat * nat)) : Prop :=
  match l with
  | [] => True
  | (a, b) :: r => a <> b /\ ~ In b seen /\ parent_ordered (a :: b :: seen) r
  end.

(* the bonded pair can be brought to a separation shorter than cn/cd by a lattice translation *)
Definition has_short_image (B : box) (cn cd : Z) (xyz : list vec) (bond : nat * nat) : Prop :=
  exists k1 k2 k3, norm2 (vsub (vsub (pos xyz (snd bond)) (pos xyz (fst bond))) (lat B k1 k2 k3)) * (cd * cd) < cn * cn.
Definition short_now (cn cd : Z) (st : list atom_st) (bond : nat * nat) : Prop :=
  norm2 (vsub (st_pos st (snd bond)) (st_pos st (fst bond))) * (cd * cd) < cn * cn.

Lemma lat_sub B a1 a2 a3 b1 b2 b3 : vsub (lat B a1 a2 a3) (lat B b1 b2 b3) = lat B (a1 - b1) (a2 - b2) (a3 - b3).
Proof. apply vec_eq; unfold vsub, lat, vadd, vscale, avec, bvec, cvec, vx, vy, vz; cbn [fst snd]; ring. Qed.

Lemma whole_walk_short B cn cd xyz :
  box_ok B -> 0 < cd -> 0 <= cn -> half_width_ok B cn cd ->
  forall l seen st done,
    tracks B xyz st ->
    parent_ordered seen l ->
    (forall bond, In bond l -> (snd bond < length xyz)%nat /\ has_short_image B cn cd xyz bond) ->
    (forall bond, In bond done -> In (fst bond) seen /\ In (snd bond) seen /\ short_now cn cd st bond) ->
    forall bond, In bond (done ++ l) -> short_now cn cd (make_whole B l st) bond.
Proof.
  intros HB Hcd Hcn HW. induction l as [|(a, b) l IH]; intros seen st done Htr Hpo Hl Hdone bond Hin.
  - rewrite app_nil_r in Hin. cbn. now apply Hdone.
  - cbn [parent_ordered] in Hpo. destruct Hpo as (Hab & Hb & Hpo).
    unfold make_whole. cbn [fold_left]. fold (make_whole B l (whole_step B st (a, b))).
    destruct Htr as (Hlen & Hpos).
    destruct (Hl (a, b) (or_introl eq_refl)) as (Hbl & (k1 & k2 & k3 & Hshort)). cbn [fst snd] in Hbl, Hshort.
    assert (Hbl' : (b < length st)%nat) by lia.
    apply (IH (a :: b :: seen) (whole_step B st (a, b)) (done ++ [(a, b)])).
    + apply tracks_whole_step. now split.
    + exact Hpo.
    + intros bd Hbd. apply Hl. now right.
    + intros bd Hbd. apply in_app_or in Hbd. destruct Hbd as [Hbd|[<-|[]]].
      * destruct (Hdone bd Hbd) as (H1 & H2 & H3). split; [now right; right|]. split; [now right; right|].
        unfold short_now in *.
        rewrite (whole_step_pos_other B st a b (snd bd)) by (intros E; apply Hb; rewrite <- E; exact H2).
        rewrite (whole_step_pos_other B st a b (fst bd)) by (intros E; apply Hb; rewrite <- E; exact H1).
        exact H3.
      * cbn [fst snd]. split; [now left|]. split; [now right; left|].
        unfold short_now. cbn [fst snd].
        rewrite whole_step_pos_b by exact Hbl'. rewrite whole_step_pos_other by exact Hab.
        set (d := vsub (st_pos st b) (st_pos st a)).
        (* d is the original displacement up to a lattice vector: the short image is an image of d *)
        assert (Ed : exists m1 m2 m3, vsub (vsub (pos xyz b) (pos xyz a)) (lat B k1 k2 k3) = vsub d (lat B m1 m2 m3)).
        { subst d. rewrite (Hpos a), (Hpos b). unfold latv.
          set (sa := st_shift st a). set (sb := st_shift st b).
          exists (k1 - vx sb + vx sa), (k2 - vy sb + vy sa), (k3 - vz sb + vz sa).
          apply vec_eq; unfold vsub, lat, vadd, vscale, avec, bvec, cvec, vx, vy, vz; cbn [fst snd]; ring. }
        destruct Ed as (m1 & m2 & m3 & Ed). rewrite Ed in Hshort.
        destruct HW as (W1 & W2 & W3).
        rewrite (wrap_seq_finds rnd_haz B d m1 m2 m3 cn cd HB Hcd Hcn (fun n dd H => rnd_haz_bound n dd H) W1 W2 W3 Hshort).
        replace (vsub (vadd (st_pos st a) (vsub d (lat B m1 m2 m3))) (st_pos st a)) with (vsub d (lat B m1 m2 m3)); [exact Hshort|].
        apply vec_eq; unfold vsub, vadd, vx, vy, vz; cbn [fst snd]; ring.
    + rewrite <- app_assoc. exact Hin.
Qed.

(* a separation shorter than half of every diagonal entry is the minimum over all lattice images *)
Lemma short_is_minimum B cn cd d k1 k2 k3 :
  box_ok B -> 0 < cd -> 0 <= cn -> half_width_ok B cn cd ->
  norm2 d * (cd * cd) < cn * cn -> norm2 d <= norm2 (vsub d (lat B k1 k2 k3)).
Proof.
  intros HB Hcd Hcn HW Hs.
  destruct (Z_le_gt_dec (norm2 d) (norm2 (vsub d (lat B k1 k2 k3)))) as [H|H]; [exact H|exfalso].
  (* the other image is shorter still, hence also short: both are THE wrapped image, so the lattice vector is 0 *)
  assert (Hs' : norm2 (vsub d (lat B k1 k2 k3)) * (cd * cd) < cn * cn) by nia.
  destruct HW as (W1 & W2 & W3).
  pose proof (wrap_seq_finds rnd_haz B d k1 k2 k3 cn cd HB Hcd Hcn (fun n dd H => rnd_haz_bound n dd H) W1 W2 W3 Hs') as E1.
  assert (Hs0 : norm2 (vsub d (lat B 0 0 0)) * (cd * cd) < cn * cn).
  { replace (vsub d (lat B 0 0 0)) with d; [exact Hs|]. apply vec_eq; unfold vsub, lat, vadd, vscale, avec, bvec, cvec, vx, vy, vz; cbn [fst snd]; ring. }
  pose proof (wrap_seq_finds rnd_haz B d 0 0 0 cn cd HB Hcd Hcn (fun n dd H => rnd_haz_bound n dd H) W1 W2 W3 Hs0) as E0.
  rewrite E1 in E0. rewrite E0 in H.
  replace (vsub d (lat B 0 0 0)) with d in H; [lia|].
  apply vec_eq; unfold vsub, lat, vadd, vscale, avec, bvec, cvec, vx, vy, vz; cbn [fst snd]; ring.
Qed.

(* ---------------------------------------------------------------- packaged: parent-ordered walk *)
Theorem whole_parent_ordered B cn cd xyz l :
  box_ok B -> 0 < cd -> 0 <= cn -> half_width_ok B cn cd ->
  parent_ordered [] l ->
  (forall bond, In bond l -> (snd bond < length xyz)%nat /\ has_short_image B cn cd xyz bond) ->
  forall bond, In bond l ->
    let st := make_whole B l (init_state xyz) in
    let d := vsub (st_pos st (snd bond)) (st_pos st (fst bond)) in
    norm2 d * (cd * cd) < cn * cn /\ forall k1 k2 k3, norm2 d <= norm2 (vsub d (lat B k1 k2 k3)).
Proof.
  intros HB Hcd Hcn HW Hpo Hl bond Hin st d.
  assert (Hs : short_now cn cd st bond).
  { apply (whole_walk_short B cn cd xyz HB Hcd Hcn HW l [] (init_state xyz) []); try assumption.
    - apply tracks_init.
    - intros bd [].
  }
  split; [exact Hs|]. intros k1 k2 k3. now apply (short_is_minimum B cn cd d k1 k2 k3 HB Hcd Hcn HW).
Qed.

(* the order as found (sorted on the first atom) is not parent-ordered in general: a bonded pair stays split *)
Definition w_box : box := mkBox 4096 0 4096 0 0 4096.
Definition w_xyz : list vec := [(1000, 1000, 1000); (5196, 1100, 1000); (1050, 1100, 1000)].
Definition w_bonds : list (nat * nat) := [(0%nat, 2%nat); (1%nat, 2%nat)].

Lemma whole_any_order_counterexample :
  exists B cn cd xyz added,
    box_ok B /\ 0 < cd /\ 0 <= cn /\ half_width_ok B cn cd /\
    (forall bond, In bond added -> (snd bond < length xyz)%nat /\ has_short_image B cn cd xyz bond) /\
    exists bond, In bond added /\
      ~ short_now cn cd (make_whole_cur B added xyz) bond.
Proof.
  exists w_box, 300, 1, w_xyz, w_bonds.
  split; [unfold box_ok, w_box; cbn; lia|]. split; [lia|]. split; [lia|].
  split; [unfold half_width_ok, w_box; cbn; lia|].
  split.
  - intros bond [<-|[<-|[]]]; (split; [cbn; lia|]).
    + exists 0, 0, 0. vm_compute. reflexivity.
    + exists (-1), 0, 0. vm_compute. reflexivity.
  - exists (0%nat, 2%nat). split; [now left|]. unfold short_now. vm_compute. intros H. discriminate H.
Qed.

(* the same system with the repaired walk *)
Lemma whole_fix_on_counterexample :
  forall bond, In bond w_bonds -> short_now 300 1 (make_whole_fix w_box w_bonds w_xyz) bond.
Proof. intros bond [<-|[<-|[]]]; unfold short_now; vm_compute; reflexivity. Qed.

(* ---------------------------------------------------------------- minimum-image observables *)
(* lattice moves do not change the set of lattice images of any interatomic displacement *)
Lemma images_unchanged B xyz st a b v : tracks B xyz st ->
  ((exists k1 k2 k3, vsub (vsub (st_pos st b) (st_pos st a)) (lat B k1 k2 k3) = v) <->
   (exists k1 k2 k3, vsub (vsub (pos xyz b) (pos xyz a)) (lat B k1 k2 k3) = v)).
Proof.
  intros (_ & Hp). rewrite (Hp a), (Hp b). unfold latv.
  set (sa := st_shift st a). set (sb := st_shift st b).
  split; intros (k1 & k2 & k3 & <-).
  - exists (k1 + vx sb - vx sa), (k2 + vy sb - vy sa), (k3 + vz sb - vz sa).
    apply vec_eq; unfold vsub, lat, vadd, vscale, avec, bvec, cvec, vx, vy, vz; cbn [fst snd]; ring.
  - exists (k1 - vx sb + vx sa), (k2 - vy sb + vy sa), (k3 - vz sb + vz sa).
    apply vec_eq; unfold vsub, lat, vadd, vscale, avec, bvec, cvec, vx, vy, vz; cbn [fst snd]; ring.
Qed.

(* ---------------------------------------------------------------- inplace plumbing *)
Lemma apply_frames_copy f t :
  snd (apply_frames f false t) = t /\
  t_cells (fst (apply_frames f false t)) = t_cells t /\ t_time (fst (apply_frames f false t)) = t_time t.
Proof. unfold apply_frames. cbn. tauto. Qed.

Lemma apply_frames_inplace f t :
  snd (apply_frames f true t) = fst (apply_frames f true t) /\
  t_cells (fst (apply_frames f true t)) = t_cells t /\ t_time (fst (apply_frames f true t)) = t_time t /\
  fst (apply_frames f true t) = fst (apply_frames f false t).
Proof. unfold apply_frames. cbn. tauto. Qed.

(* ---------------------------------------------------------------- molecules move as rigid units *)
Lemma st_shift_shift_same B k st i : (i < length st)%nat ->
  st_shift (shift_atom B k st i) i = vadd (st_shift st i) k.
Proof. intros H. unfold shift_atom, st_shift at 1. now rewrite nth_set_nth_eq by exact H. Qed.

Lemma st_shift_shift_other B k st i j : i <> j -> st_shift (shift_atom B k st i) j = st_shift st j.
Proof. intros H. unfold shift_atom, st_shift at 1. now rewrite nth_set_nth_neq by exact H. Qed.

Lemma fold_shift_length B k m st : length (fold_left (shift_atom B k) m st) = length st.
Proof. revert st; induction m as [|x m IH]; intros st; cbn [fold_left]; [reflexivity|]. now rewrite IH, shift_atom_length. Qed.

Lemma fold_shift_out B k m st a : ~ In a m -> st_shift (fold_left (shift_atom B k) m st) a = st_shift st a.
Proof.
  revert st; induction m as [|x m IH]; intros st H; cbn [fold_left]; [reflexivity|].
  rewrite IH by (intros Hin; apply H; now right).
  apply st_shift_shift_other. intros ->. apply H. now left.
Qed.

Lemma fold_shift_in B k m st a : NoDup m -> (forall x, In x m -> (x < length st)%nat) -> In a m ->
  st_shift (fold_left (shift_atom B k) m st) a = vadd (st_shift st a) k.
Proof.
  revert st; induction m as [|x m IH]; intros st Hnd Hv Hin; [destruct Hin|].
  cbn [fold_left]. inversion Hnd as [|? ? Hx Hnd']; subst.
  destruct Hin as [->|Hin].
  - rewrite fold_shift_out by exact Hx. apply st_shift_shift_same. apply Hv. now left.
  - rewrite IH; [|exact Hnd'|intros y Hy; rewrite shift_atom_length; apply Hv; now right|exact Hin].
    rewrite st_shift_shift_other; [reflexivity|]. intros ->. contradiction.
Qed.

Lemma concat_nodup_shared {A} (mols : list (list A)) m m' a :
  NoDup (concat mols) -> In m mols -> In m' mols -> In a m -> In a m' -> m = m'.
Proof.
  induction mols as [|x mols IH]; intros Hnd Hm Hm' Ha Ha'; [destruct Hm|].
  cbn [concat] in Hnd.
  assert (Hsplit : NoDup x /\ NoDup (concat mols) /\ forall y, In y x -> In y (concat mols) -> False).
  { clear - Hnd. induction x as [|y x IHx]; cbn [app] in Hnd.
    - split; [constructor|]. split; [exact Hnd|]. intros y [].
    - inversion Hnd as [|? ? Hy Hnd']; subst. destruct (IHx Hnd') as (H1 & H2 & H3).
      split; [constructor; [intros Hin; apply Hy; apply in_or_app; now left|exact H1]|]. split; [exact H2|].
      intros z [->|Hz] Hc; [apply Hy; apply in_or_app; now right|now apply (H3 z)]. }
  destruct Hsplit as (_ & Hnd2 & Hdis).
  destruct Hm as [->|Hm], Hm' as [->|Hm'].
  - reflexivity.
  - exfalso. apply (Hdis a Ha). apply in_concat. now exists m'.
  - exfalso. apply (Hdis a Ha'). apply in_concat. now exists m.
  - now apply IH.
Qed.

Lemma concat_nodup_each {A} (mols : list (list A)) m : NoDup (concat mols) -> In m mols -> NoDup m.
Proof.
  induction mols as [|x mols IH]; intros Hnd Hm; [destruct Hm|]. cbn [concat] in Hnd.
  destruct Hm as [->|Hm].
  - clear - Hnd. induction m as [|y m IHm]; [constructor|]. cbn [app] in Hnd. inversion Hnd as [|? ? Hy Hnd']; subst.
    constructor; [intros Hin; apply Hy; apply in_or_app; now left|now apply IHm].
  - apply IH; [|exact Hm]. clear - Hnd. induction x as [|y x IHx]; [exact Hnd|]. cbn [app] in Hnd. inversion Hnd; subst. now apply IHx.
Qed.

(* within every molecule all atoms have received the same additional lattice multipliers *)
Definition rigid (mols : list (list nat)) (st0 st : list atom_st) : Prop :=
  length st = length st0 /\
  forall m, In m mols -> forall a b, In a m -> In b m ->
    vsub (st_shift st a) (st_shift st0 a) = vsub (st_shift st b) (st_shift st0 b).

Lemma rigid_refl mols st : rigid mols st st.
Proof. split; [reflexivity|]. intros m _ a b _ _. apply vec_eq; unfold vsub, vx, vy, vz; cbn [fst snd]; ring. Qed.

Lemma rigid_fold_shift B k mols m0 st0 st :
  NoDup (concat mols) -> (forall x, In x (concat mols) -> (x < length st0)%nat) ->
  (In m0 mols \/ m0 = []) -> rigid mols st0 st -> rigid mols st0 (fold_left (shift_atom B k) m0 st).
Proof.
  intros Hnd Hv Hm0 (Hlen & Hr). split; [now rewrite fold_shift_length|].
  destruct Hm0 as [Hm0| ->]; [|exact Hr].
  intros m Hm a b Ha Hb.
  assert (Hnd0 : NoDup m0) by (now apply (concat_nodup_each mols)).
  assert (Hv0 : forall x, In x m0 -> (x < length st)%nat).
  { intros x Hx. rewrite Hlen. apply Hv. apply in_concat. now exists m0. }
  destruct (in_dec Nat.eq_dec a m0) as [Ha0|Ha0].
  - assert (m = m0) by (now apply (concat_nodup_shared mols m m0 a)). subst m.
    rewrite !fold_shift_in by assumption. specialize (Hr m0 Hm0 a b Ha Hb).
    unfold vsub, vadd, vx, vy, vz in *; cbn [fst snd] in *. inversion Hr as [[E1 E2 E3]].
    f_equal; [f_equal|]; lia.
  - assert (Hb0 : ~ In b m0).
    { intros Hb0. apply Ha0. assert (m = m0) by (now apply (concat_nodup_shared mols m m0 b)). now subst. }
    rewrite !fold_shift_out by assumption. exact (Hr m Hm a b Ha Hb).
Qed.

Lemma nth_in_or_nil {A} (l : list (list A)) i : In (nth i l []) l \/ nth i l [] = [].
Proof.
  destruct (Nat.lt_ge_cases i (length l)) as [H|H]; [left; now apply nth_In|right; now apply nth_overflow].
Qed.

Lemma rigid_cluster B mols anchors cts fuel used avail st0 st :
  NoDup (concat mols) -> (forall x, In x (concat mols) -> (x < length st0)%nat) ->
  (forall m, In m anchors -> In m mols) ->
  rigid mols st0 st -> rigid mols st0 (cluster fuel B anchors cts used avail st).
Proof.
  intros Hnd Hv Hsub. revert used avail st; induction fuel as [|f IH]; intros used avail st H; [destruct avail; exact H|].
  cbn [cluster]. destruct avail as [|a avail]; [exact H|].
  destruct (cluster_pick anchors cts used (a :: avail)) as (((next, nearest), a1), a2).
  apply IH. apply rigid_fold_shift; try assumption.
  destruct (nth_in_or_nil anchors next) as [Hin|He]; [left; now apply Hsub|now right].
Qed.

Lemma rigid_wrap_fold B mols SA NA others st0 st :
  NoDup (concat mols) -> (forall x, In x (concat mols) -> (x < length st0)%nat) ->
  (forall m, In m others -> In m mols) ->
  rigid mols st0 st ->
  rigid mols st0 (fold_left (fun s mol => fold_left (shift_atom B (wrap_mol_k B s SA NA mol)) mol s) others st).
Proof.
  intros Hnd Hv. revert st; induction others as [|mol others IH]; intros st Hsub H; cbn [fold_left]; [exact H|].
  apply IH; [intros m Hm; apply Hsub; now right|].
  apply rigid_fold_shift; try assumption. left. apply Hsub. now left.
Qed.

Theorem image_frame_rigid B anchors others st :
  NoDup (concat (anchors ++ others)) -> (forall x, In x (concat (anchors ++ others)) -> (x < length st)%nat) ->
  rigid (anchors ++ others) st (fst (fst (image_frame B anchors others st))).
Proof.
  intros Hnd Hv. unfold image_frame. cbv zeta. cbn [fst].
  apply rigid_wrap_fold; try assumption; [intros m Hm; apply in_or_app; now right|].
  apply rigid_cluster; try assumption; [intros m Hm; apply in_or_app; now left|].
  apply rigid_refl.
Qed.

(* ---------------------------------------------------------------- the repaired walk (certificate form) *)
(* sigma: lattice multipliers that make the system whole (every bond shorter than cn/cd) *)
Definition sigma_pos (B : box) (xyz : list vec) (sg : nat -> vec) (x : nat) : vec := vsub (pos xyz x) (latv B (sg x)).
Definition sigma_disp (B : box) (xyz : list vec) (sg : nat -> vec) (bond : nat * nat) : vec :=
  vsub (sigma_pos B xyz sg (snd bond)) (sigma_pos B xyz sg (fst bond)).
Definition makes_whole (B : box) (cn cd : Z) (xyz : list vec) (sg : nat -> vec) (bonds : list (nat * nat)) : Prop :=
  forall bond, In bond bonds -> norm2 (sigma_disp B xyz sg bond) * (cd * cd) < cn * cn.

Lemma parent_ordered_b_sound seen l : parent_ordered_b seen l = true -> parent_ordered seen l.
Proof.
  revert seen; induction l as [|(a, b) l IH]; intros seen H; [exact I|].
  cbn [parent_ordered_b fst snd] in H. apply andb_true_iff in H. destruct H as (H & H3).
  apply andb_true_iff in H. destruct H as (H1 & H2).
  cbn [parent_ordered]. split; [apply negb_true_iff, Nat.eqb_neq in H1; exact H1|].
  split; [|now apply IH].
  apply negb_true_iff in H2. intros Hin. clear - H2 Hin.
  induction seen as [|x seen IHs]; [destruct Hin|]. cbn [memn] in H2. apply orb_false_iff in H2. destruct H2 as (E1 & E2).
  destruct Hin as [->|Hin]; [rewrite Nat.eqb_refl in E1; discriminate|now apply IHs].
Qed.

(* along a parent-ordered walk whose edges are short in the whole configuration sigma, every walked pair ends
   exactly at its sigma displacement *)
Lemma whole_walk_sigma B cn cd xyz sg :
  box_ok B -> 0 < cd -> 0 <= cn -> half_width_ok B cn cd ->
  forall l seen st done,
    tracks B xyz st ->
    parent_ordered seen l ->
    (forall bond, In bond l -> (snd bond < length xyz)%nat /\ norm2 (sigma_disp B xyz sg bond) * (cd * cd) < cn * cn) ->
    (forall bond, In bond done -> In (fst bond) seen /\ In (snd bond) seen /\
                  vsub (st_pos st (snd bond)) (st_pos st (fst bond)) = sigma_disp B xyz sg bond) ->
    forall bond, In bond (done ++ l) ->
      let st' := make_whole B l st in
      vsub (st_pos st' (snd bond)) (st_pos st' (fst bond)) = sigma_disp B xyz sg bond.
Proof.
  intros HB Hcd Hcn HW. induction l as [|(a, b) l IH]; intros seen st done Htr Hpo Hl Hdone bond Hin.
  - rewrite app_nil_r in Hin. cbn. now apply Hdone.
  - cbn [parent_ordered] in Hpo. destruct Hpo as (Hab & Hb & Hpo).
    unfold make_whole. cbn [fold_left]. fold (make_whole B l (whole_step B st (a, b))).
    destruct Htr as (Hlen & Hpos).
    destruct (Hl (a, b) (or_introl eq_refl)) as (Hbl & Hshort). cbn [fst snd] in Hbl.
    assert (Hbl' : (b < length st)%nat) by lia.
    apply (IH (a :: b :: seen) (whole_step B st (a, b)) (done ++ [(a, b)])).
    + apply tracks_whole_step. now split.
    + exact Hpo.
    + intros bd Hbd. apply Hl. now right.
    + intros bd Hbd. apply in_app_or in Hbd. destruct Hbd as [Hbd|[<-|[]]].
      * destruct (Hdone bd Hbd) as (H1 & H2 & H3). split; [now right; right|]. split; [now right; right|].
        rewrite (whole_step_pos_other B st a b (snd bd)) by (intros E; apply Hb; rewrite <- E; exact H2).
        rewrite (whole_step_pos_other B st a b (fst bd)) by (intros E; apply Hb; rewrite <- E; exact H1).
        exact H3.
      * cbn [fst snd]. split; [now left|]. split; [now right; left|].
        rewrite whole_step_pos_b by exact Hbl'. rewrite whole_step_pos_other by exact Hab.
        set (d := vsub (st_pos st b) (st_pos st a)).
        assert (Ed : exists m1 m2 m3, sigma_disp B xyz sg (a, b) = vsub d (lat B m1 m2 m3)).
        { subst d. rewrite (Hpos a), (Hpos b). unfold sigma_disp, sigma_pos, latv. cbn [fst snd].
          set (sa := st_shift st a). set (sb := st_shift st b). set (ga := sg a). set (gb := sg b).
          exists (vx gb - vx ga - vx sb + vx sa), (vy gb - vy ga - vy sb + vy sa), (vz gb - vz ga - vz sb + vz sa).
          apply vec_eq; unfold vsub, lat, vadd, vscale, avec, bvec, cvec, vx, vy, vz; cbn [fst snd]; ring. }
        destruct Ed as (m1 & m2 & m3 & Ed). rewrite Ed in Hshort.
        destruct HW as (W1 & W2 & W3).
        rewrite (wrap_seq_finds rnd_haz B d m1 m2 m3 cn cd HB Hcd Hcn (fun n dd H => rnd_haz_bound n dd H) W1 W2 W3 Hshort).
        rewrite Ed.
        apply vec_eq; unfold vsub, vadd, vx, vy, vz; cbn [fst snd]; ring.
    + rewrite <- app_assoc. exact Hin.
Qed.

Lemma is_bond_spec bonds e : is_bond bonds e = true -> In e bonds \/ In (snd e, fst e) bonds.
Proof.
  unfold is_bond. rewrite existsb_exists. intros (b & Hb & H).
  apply orb_true_iff in H. destruct H as [H|H]; apply andb_true_iff in H; destruct H as (H1 & H2);
    apply Nat.eqb_eq in H1, H2; destruct b as (b1, b2), e as (e1, e2); cbn [fst snd] in *; subst; tauto.
Qed.

Lemma sigma_disp_swap B xyz sg a b : norm2 (sigma_disp B xyz sg (b, a)) = norm2 (sigma_disp B xyz sg (a, b)).
Proof. unfold sigma_disp, norm2, vsub, vx, vy, vz. cbn [fst snd]. ring. Qed.

(* offset of an atom from its place in the whole configuration sigma *)
Definition tau (B : box) (xyz : list vec) (sg : nat -> vec) (st : list atom_st) (x : nat) : vec :=
  vsub (st_pos st x) (sigma_pos B xyz sg x).

Lemma tau_edge B xyz sg st a b :
  vsub (st_pos st b) (st_pos st a) = sigma_disp B xyz sg (a, b) -> tau B xyz sg st b = tau B xyz sg st a.
Proof.
  unfold tau, sigma_disp. cbn [fst snd].
  generalize (st_pos st b) (st_pos st a) (sigma_pos B xyz sg b) (sigma_pos B xyz sg a).
  intros [[x1 y1] z1] [[x2 y2] z2] [[x3 y3] z3] [[x4 y4] z4] H.
  unfold vsub, vx, vy, vz in *; cbn [fst snd] in *. inversion H as [[E1 E2 E3]]. f_equal; [f_equal|]; lia.
Qed.

Lemma tau_root B xyz sg st out :
  (forall e, In e out -> vsub (st_pos st (snd e)) (st_pos st (fst e)) = sigma_disp B xyz sg e) ->
  forall fuel x, tau B xyz sg st (root_of out fuel x) = tau B xyz sg st x.
Proof.
  intros He. induction fuel as [|f IH]; intros x; [reflexivity|]. cbn [root_of].
  destruct (find (fun e => Nat.eqb (snd e) x) out) as [e|] eqn:E; [|reflexivity].
  apply find_some in E. destruct E as (Hin & Hx). apply Nat.eqb_eq in Hx.
  rewrite IH. destruct e as (p, y). cbn [fst snd] in *. subst y. symmetry. apply tau_edge. exact (He (p, x) Hin).
Qed.

(* PARTIAL (certificate form): whenever the walk passes the executable check [walk_ok] -- it is a parent-first
   walk made of bonds and joins both ends of every bond under one root -- and the system can be made whole at all
   (sigma), every bonded pair ends exactly at its displacement in the whole configuration, hence shorter than cn/cd
   and at its minimum image.  Missing for the unconditional statement: a proof that [tree_order] always passes
   [walk_ok] (termination/coverage of the traversal); the correspondence run evaluates [walk_ok] on every system. *)
Theorem whole_certified_walk B cn cd xyz sg bonds out :
  box_ok B -> 0 < cd -> 0 <= cn -> half_width_ok B cn cd ->
  walk_ok (length xyz) bonds out = true ->
  makes_whole B cn cd xyz sg bonds ->
  forall bond, In bond bonds ->
    let st := make_whole B out (init_state xyz) in
    let d := vsub (st_pos st (snd bond)) (st_pos st (fst bond)) in
    d = sigma_disp B xyz sg bond /\ norm2 d * (cd * cd) < cn * cn /\
    forall k1 k2 k3, norm2 d <= norm2 (vsub d (lat B k1 k2 k3)).
Proof.
  intros HB Hcd Hcn HW Hok Hsg bond Hin st d.
  unfold walk_ok in Hok. apply andb_true_iff in Hok. destruct Hok as (Hok & Hcover).
  apply andb_true_iff in Hok. destruct Hok as (Hok & Hvalid).
  apply andb_true_iff in Hok. destruct Hok as (Hpo & Hedges).
  apply parent_ordered_b_sound in Hpo.
  rewrite forallb_forall in Hedges, Hvalid, Hcover.
  assert (Hout : forall e, In e out -> (snd e < length xyz)%nat /\ norm2 (sigma_disp B xyz sg e) * (cd * cd) < cn * cn).
  { intros e He. destruct (is_bond_spec bonds e (Hedges e He)) as [Hb|Hb].
    - split; [|now apply Hsg]. specialize (Hvalid e Hb). apply andb_true_iff in Hvalid. destruct Hvalid as (_ & H2). now apply Nat.ltb_lt in H2.
    - split.
      + specialize (Hvalid _ Hb). cbn [fst snd] in Hvalid. apply andb_true_iff in Hvalid. destruct Hvalid as (H1 & _). now apply Nat.ltb_lt in H1.
      + destruct e as (a, b). cbn [fst snd] in Hb. rewrite <- sigma_disp_swap. now apply Hsg. }
  assert (Hedge : forall e, In e out -> vsub (st_pos st (snd e)) (st_pos st (fst e)) = sigma_disp B xyz sg e).
  { intros e He. apply (whole_walk_sigma B cn cd xyz sg HB Hcd Hcn HW out [] (init_state xyz) []); try assumption.
    - apply tracks_init.
    - intros bd []. }
  assert (Htau : tau B xyz sg st (snd bond) = tau B xyz sg st (fst bond)).
  { rewrite <- (tau_root B xyz sg st out Hedge (length xyz) (snd bond)).
    rewrite <- (tau_root B xyz sg st out Hedge (length xyz) (fst bond)).
    specialize (Hcover bond Hin). apply Nat.eqb_eq in Hcover. now rewrite Hcover. }
  assert (Ed : d = sigma_disp B xyz sg bond).
  { subst d. unfold tau, sigma_disp in *. revert Htau.
    generalize (st_pos st (snd bond)) (st_pos st (fst bond)) (sigma_pos B xyz sg (snd bond)) (sigma_pos B xyz sg (fst bond)).
    intros [[x1 y1] z1] [[x2 y2] z2] [[x3 y3] z3] [[x4 y4] z4] Htau.
    unfold vsub, vx, vy, vz in *; cbn [fst snd] in *. inversion Htau as [[E1 E2 E3]]. f_equal; [f_equal|]; lia. }
  split; [exact Ed|]. assert (Hs : norm2 d * (cd * cd) < cn * cn) by (rewrite Ed; now apply Hsg).
  split; [exact Hs|]. intros k1 k2 k3. now apply (short_is_minimum B cn cd d k1 k2 k3 HB Hcd Hcn HW).
Qed.

(* ---------------------------------------------------------------- packaged statements / examples for Props/C11.v *)
Lemma image_frame_tracks B xyz walk anchors others :
  tracks B xyz (fst (fst (image_molecules_frame B walk anchors others xyz))).
Proof.
  unfold image_molecules_frame. cbv zeta. apply tracks_image_frame.
  destruct walk as [l|]; [apply tracks_make_whole|]; apply tracks_init.
Qed.

Lemma images_unchanged_whole B bonds xyz a b v :
  let st := make_whole B bonds (init_state xyz) in
  ((exists k1 k2 k3, vsub (vsub (st_pos st b) (st_pos st a)) (lat B k1 k2 k3) = v) <->
   (exists k1 k2 k3, vsub (vsub (pos xyz b) (pos xyz a)) (lat B k1 k2 k3) = v)).
Proof. intros st. apply images_unchanged. apply tracks_make_whole, tracks_init. Qed.

Lemma images_unchanged_image B walk anchors others xyz a b v :
  let st := fst (fst (image_molecules_frame B walk anchors others xyz)) in
  ((exists k1 k2 k3, vsub (vsub (st_pos st b) (st_pos st a)) (lat B k1 k2 k3) = v) <->
   (exists k1 k2 k3, vsub (vsub (pos xyz b) (pos xyz a)) (lat B k1 k2 k3) = v)).
Proof. intros st. apply images_unchanged. apply image_frame_tracks. Qed.

Lemma image_rigid_no_whole B anchors others xyz :
  NoDup (concat (anchors ++ others)) -> (forall x, In x (concat (anchors ++ others)) -> (x < length xyz)%nat) ->
  forall m, In m (anchors ++ others) -> forall a b, In a m -> In b m ->
    st_shift (fst (fst (image_molecules_frame B None anchors others xyz))) a =
    st_shift (fst (fst (image_molecules_frame B None anchors others xyz))) b.
Proof.
  intros Hnd Hv m Hm a b Ha Hb. unfold image_molecules_frame. cbv zeta.
  assert (Hlen : length (init_state xyz) = length xyz) by apply map_length.
  destruct (image_frame_rigid B anchors others (init_state xyz) Hnd) as (_ & Hr).
  { intros x Hx. rewrite Hlen. now apply Hv. }
  specialize (Hr m Hm a b Ha Hb).
  assert (Z0 : forall x, st_shift (init_state xyz) x = (0, 0, 0)).
  { intros x. unfold st_shift, init_state. destruct (Nat.lt_ge_cases x (length xyz)) as [H|H].
    - now rewrite (nth_map_lt (fun p : vec => (p, (0, 0, 0))) xyz x (0, 0, 0)) by exact H.
    - now rewrite nth_overflow by (rewrite map_length; lia). }
  rewrite !Z0 in Hr. revert Hr.
  generalize (st_shift (fst (fst (image_frame B anchors others (init_state xyz)))) a)
             (st_shift (fst (fst (image_frame B anchors others (init_state xyz)))) b).
  intros [[x1 y1] z1] [[x2 y2] z2] Hr. unfold vsub, vx, vy, vz in Hr; cbn [fst snd] in Hr.
  inversion Hr as [[E1 E2 E3]]. f_equal; [f_equal|]; lia.
Qed.

(* examples *)
Definition ex_xyz : list vec := [(1050, 1100, 1000); (1000 - 4096, 1000, 1000 + 8192); (5196, 1100, 1000)].
Definition ex_walk : list (nat * nat) := [(0%nat, 1%nat); (0%nat, 2%nat)].
Lemma ex_parent_ordered_hyps :
  box_ok w_box /\ half_width_ok w_box 300 1 /\ parent_ordered [] ex_walk /\
  (forall bond, In bond ex_walk -> (snd bond < length ex_xyz)%nat /\ has_short_image w_box 300 1 ex_xyz bond) /\
  st_shift (make_whole w_box ex_walk (init_state ex_xyz)) 1 = (-1, 0, 2).
Proof.
  split; [unfold box_ok, w_box; cbn; lia|]. split; [unfold half_width_ok, w_box; cbn; lia|].
  split; [cbn; repeat split; (lia || tauto)|].
  split; [|vm_compute; reflexivity].
  intros bond [<-|[<-|[]]]; (split; [cbn; lia|]).
  - exists (-1), 0, 2. vm_compute. reflexivity.
  - exists 1, 0, 0. vm_compute. reflexivity.
Qed.

Lemma ex_certificate :
  walk_ok (length w_xyz) (map norm_bond w_bonds) (pfb_walk (length w_xyz) (map norm_bond w_bonds)) = true /\
  makes_whole w_box 300 1 w_xyz (fun x => match x with 1%nat => (1, 0, 0) | _ => (0, 0, 0) end) (map norm_bond w_bonds).
Proof.
  split; [vm_compute; reflexivity|].
  intros bond [<-|[<-|[]]]; vm_compute; reflexivity.
Qed.

Lemma whole_tracks B bonds xyz : tracks B xyz (make_whole B bonds (init_state xyz)).
Proof. apply tracks_make_whole, tracks_init. Qed.
