(* C11 -- executable model (definitions only, no proofs) of the loop of mdtraj/core/topology.py:Topology.find_molecules
   as it is written: the adjacency lists atom_bonds, and the recursion "reformulated as a loop" with its two stacks
   atom_stack / neighbor_stack.  MD.Whole.Model.find_molecules models the RESULT (connected components); this file
   models the statements:

     for i in range(num_atoms):
         if atom_molecule[i] == -1:
             atom_stack = [i]; neighbor_stack = [0]; molecule = num_molecules; num_molecules += 1
             while len(atom_stack) > 0:
                 atom = atom_stack[-1]; atom_molecule[atom] = molecule
                 while neighbor_stack[-1] < len(atom_bonds[atom]) and atom_molecule[atom_bonds[atom][neighbor_stack[-1]]] != -1:
                     neighbor_stack[-1] += 1
                 if neighbor_stack[-1] < len(atom_bonds[atom]):
                     atom_stack.append(atom_bonds[atom][neighbor_stack[-1]]); neighbor_stack.append(0)
                 else:
                     del atom_stack[-1]; del neighbor_stack[-1]

   The two stacks are one list of (atom, neighbour index) pairs, top first.  [placed] = atoms whose atom_molecule is set,
   [comp] = the atoms given the current molecule number, in the order they receive it. *)
From Coq Require Import ZArith List Bool.
Import ListNotations.
Require Import MD.Neigh.Model MD.Whole.Model.

(* the inner while: advance the index over neighbours that already have a molecule *)
Fixpoint skip_marked (fuel : nat) (placed nb : list nat) (k : nat) : nat :=
  match fuel with
  | O => k
  | S f => if Nat.ltb k (length nb) && memn (nth k nb 0%nat) placed then skip_marked f placed nb (S k) else k
  end.

(* the outer while; every round ends with a push or a pop, an atom is pushed at most once: 2n+2 rounds suffice *)
Fixpoint fm_run (fuel : nat) (bonds : list (nat * nat)) (placed comp : list nat) (stack : list (nat * nat))
  : list nat * list nat :=
  match fuel with
  | O => (placed, comp)
  | S f =>
      match stack with
      | [] => (placed, comp)
      | (atom, k) :: rest =>
          let fresh := negb (memn atom placed) in
          let placed' := if fresh then atom :: placed else placed in      (* atom_molecule[atom] = molecule *)
          let comp' := if fresh then comp ++ [atom] else comp in
          let nb := nbrs bonds atom in                                    (* atom_bonds[atom] *)
          let k' := skip_marked (length nb) placed' nb k in
          if Nat.ltb k' (length nb)
          then fm_run f bonds placed' comp' ((nth k' nb 0%nat, 0%nat) :: (atom, k') :: rest)
          else fm_run f bonds placed' comp' rest
      end
  end.

Definition fm_loop_root (n : nat) (bonds : list (nat * nat)) (acc : list nat * list (list nat)) (i : nat)
  : list nat * list (list nat) :=
  if memn i (fst acc) then acc
  else let r := fm_run (2 * n + 2) bonds (fst acc) [] [(i, 0%nat)] in (fst r, snd acc ++ [snd r]).

(* molecules in the order of their numbers; each as the list of its atoms *)
Definition find_molecules_loop (n : nat) (bonds : list (nat * nat)) : list (list nat) :=
  snd (fold_left (fm_loop_root n bonds) (seq 0 n) ([], [])).

(* ---------------------------------------------------------------- enumeration used by the bounded sweep *)
Definition all_edges (n : nat) : list (nat * nat) :=
  flat_map (fun i => map (fun j => (i, j)) (seq (S i) (n - S i))) (seq 0 n).
Definition edge_eqb (a b : nat * nat) : bool := Nat.eqb (fst a) (fst b) && Nat.eqb (snd a) (snd b).
(* every list of at most k DISTINCT elements of E, each exactly once (so: every order of every subset) *)
Fixpoint inj_lists (k : nat) (E : list (nat * nat)) : list (list (nat * nat)) :=
  match k with
  | O => [[]]
  | S k' => [] :: flat_map (fun e => map (cons e) (inj_lists k' (filter (fun x => negb (edge_eqb x e)) E))) E
  end.
