(* C11 -- executable model (definitions only, no proofs) of the argument handling of

     mdtraj/core/trajectory.py   Trajectory.image_molecules, Trajectory.make_molecules_whole
     mdtraj/core/topology.py     Topology.guess_anchor_molecules

   i.e. everything between the call and the kernel modelled in MD.Whole.Model: the refusal without a unit cell, the
   guessed anchor molecules, the default other_molecules, which bond walk (if any) is handed to the kernel.
   [bonds] is topology.bonds (each bond as (lower index, higher index)), [n] the number of atoms. *)
From Coq Require Import ZArith List Bool.
Import ListNotations.
Require Import MD.Neigh.Model MD.Whole.Model.

(* molecules.sort(key=lambda x: -len(x)): Python's sort is stable -- molecules of equal size keep the order of
   find_molecules (that of their lowest atom) *)
Fixpoint ins_mol (m : list nat) (l : list (list nat)) : list (list nat) :=
  match l with
  | [] => [m]
  | y :: r => if Nat.leb (length y) (length m) then m :: l else y :: ins_mol m r
  end.
Definition sort_mols (l : list (list nat)) : list (list nat) := fold_right ins_mol [] l.

(* atoms_cutoff = max(len(molecules[int(0.1*len(molecules))]), int(0.1*len(molecules[0]))).
   int(0.1*k) = k/10 for every k that can occur: the double 0.1 lies above 1/10, the rounded product never falls below
   the true quotient, and the fractional part of k/10 is at least 1/10 otherwise *)
Definition anchor_cutoff (mols : list (list nat)) : nat :=
  Nat.max (length (nth (length mols / 10) mols [])) (length (nth 0 mols []) / 10).

(* None = ValueError("Could not find any anchor molecules ...") *)
Definition guess_anchor_molecules (n : nat) (bonds : list (nat * nat)) : option (list (list nat)) :=
  let mols := sort_mols (find_molecules n bonds) in
  match filter (fun m => Nat.ltb (anchor_cutoff mols) (length m)) mols with
  | [] => None
  | a => Some a
  end.

(* "mol not in anchor_molecules": molecules are Python sets, compared by content *)
Definition same_mol (a b : list nat) : bool := forallb (fun x => memn x b) a && forallb (fun x => memn x a) b.
Definition default_others (n : nat) (bonds : list (nat * nat)) (anchors : list (list nat)) : list (list nat) :=
  filter (fun m => negb (existsb (same_mol m) anchors)) (find_molecules n bonds).

Record im_args := mkImArgs {
  ia_anchors : option (list (list nat));        (* anchor_molecules=None | explicit *)
  ia_others : option (list (list nat));         (* other_molecules=None | explicit *)
  ia_sorted : option (list (nat * nat));        (* sorted_bonds=None | explicit *)
  ia_make_whole : bool }.

(* what image_molecules hands to _geometry.image_molecules (for every frame alike) *)
Inductive im_plan := ImValueError | ImPlan (anchors others : list (list nat)) (walk : option (list (nat * nat))).

Definition image_molecules_plan (has_cell : bool) (n : nat) (bonds : list (nat * nat)) (a : im_args) : im_plan :=
  if negb has_cell then ImValueError            (* "This Trajectory does not define a periodic unit cell" *)
  else
    match (match ia_anchors a with Some x => Some x | None => guess_anchor_molecules n bonds end) with
    | None => ImValueError
    | Some anchors =>
        let others := match ia_others a with Some x => x | None => default_others n bonds anchors end in
        (* if make_whole and sorted_bonds is None: sorted_bonds = _parent_first_bonds(topology)
           elif not make_whole: sorted_bonds = None *)
        let walk := if ia_make_whole a
                    then Some (match ia_sorted a with Some l => l | None => pfb_walk n bonds end)
                    else None in
        ImPlan anchors others walk
    end.

(* make_molecules_whole: None = ValueError (no unit cell) *)
Definition make_whole_plan (has_cell : bool) (n : nat) (bonds : list (nat * nat)) (sorted : option (list (nat * nat)))
  : option (list (nat * nat)) :=
  if negb has_cell then None else Some (match sorted with Some l => l | None => pfb_walk n bonds end).

(* one frame of Trajectory.image_molecules, arguments included *)
Definition image_molecules_call (B : box) (n : nat) (bonds : list (nat * nat)) (a : im_args) (xyz : list vec)
  : option (list atom_st * vec * Z) :=
  match image_molecules_plan true n bonds a with
  | ImValueError => None
  | ImPlan anchors others walk => Some (image_molecules_frame B walk anchors others xyz)
  end.

(* What the translator (harness/props/C11.py:translate_dispatch) reads off today's source of Trajectory.make_molecules_whole
   and Trajectory.image_molecules, and the values the definitions above implement.  Gen/WholeDispatch.v is regenerated from
   /repo on every run and Props/C11.v proves it equal to [model_dispatch_spec]: a RECOGNISED statement that deviates (kernel
   run on self.xyz, result = self in both branches, the elif that drops sorted_bonds missing, other_molecules not filtered
   by the anchors, ...) breaks that obligation; a shape the translator cannot read degrades to the correspondence alone. *)
Record dispatch_spec := mkDispatch {
  ds_mw_cell_guard : bool;        (* make_molecules_whole: raise ValueError when self.unitcell_vectors is None *)
  ds_mw_copy : bool;              (*   result = self if inplace else self[:] *)
  ds_mw_walk_default : bool;      (*   if sorted_bonds is None: sorted_bonds = _parent_first_bonds(self._topology) *)
  ds_mw_kernel_on_result : bool;  (*   whole_molecules(result.xyz, cells of result, sorted_bonds) *)
  ds_mw_returns : bool;           (*   returns result when not inplace, self otherwise *)
  ds_im_cell_guard : bool;        (* image_molecules: the same five ... *)
  ds_im_copy : bool;
  ds_im_walk_default : bool;      (*   if make_whole and sorted_bonds is None: ...  elif not make_whole: sorted_bonds = None *)
  ds_im_kernel_on_result : bool;  (*   image_molecules(result.xyz, cells of result, anchors, others, sorted_bonds) *)
  ds_im_returns : bool;
  ds_im_anchor_default : bool;    (*   if anchor_molecules is None: anchor_molecules = topology.guess_anchor_molecules() *)
  ds_im_others_default : bool     (*   if other_molecules is None: [mol for mol in find_molecules() if mol not in anchor_molecules] *) }.
Definition model_dispatch_spec : dispatch_spec := mkDispatch true true true true true true true true true true true true.
