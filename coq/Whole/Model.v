(* C11 -- executable model (definitions only, no proofs) of

     mdtraj/geometry/src/image_molecules.pxi   make_whole, anchor_dists, image_frame, wrap_mols
     mdtraj/geometry/src/geometry.cpp          find_closest_contact
     mdtraj/core/trajectory.py                 make_molecules_whole, image_molecules (bond ordering, inplace)

   The .pxi cannot be recompiled in this sandbox, so this model is hand-written and tied to the compiled
   binary by the correspondence run only (plus the framework's pyx-drift detection).

   Conventions as in MD.Neigh.Model: every float32 input of a frame is a dyadic rational, positions and the
   (lower-triangular) cell are integers in one unit 2^-k, the model is the code's logic in exact arithmetic.
   Every atom carries the integer combination (k1,k2,k3) of the frame's cell vectors a,b,c it has been
   moved by so far: position = original - (k1*a + k2*b + k3*c) (+ one common translation in image_frame). *)
From Coq Require Import ZArith List Bool.
Import ListNotations.
Require Import MD.Neigh.Model.
Open Scope Z_scope.

(* numpy round(): nearest, ties to even (divisor d > 0) *)
Definition rnd_hev (n d : Z) : Z :=
  let q := (2 * n + d) / (2 * d) in                      (* floor(n/d + 1/2) *)
  if ((2 * n + d) mod (2 * d) =? 0) && Z.odd q then q - 1 else q.

(* the three successive multipliers: k3 = r(dz/cz); k2 = r((dy - k3*cy)/by); k1 = r((dx - k3*cx - k2*bx)/ax) *)
Definition kseq (r : Z -> Z -> Z) (B : box) (d : vec) : vec :=
  let k3 := r (vz d) (b_cz B) in
  let k2 := r (vy d - k3 * b_cy B) (b_by B) in
  let k1 := r (vx d - k3 * b_cx B - k2 * b_bx B) (b_ax B) in
  (k1, k2, k3).
Definition latv (B : box) (k : vec) : vec := lat B (vx k) (vy k) (vz k).

(* state of one frame: per atom (current position, accumulated lattice multipliers) *)
Definition atom_st := (vec * vec)%type.
Definition st_pos (st : list atom_st) (i : nat) : vec := fst (nth i st ((0, 0, 0), (0, 0, 0))).
Definition st_shift (st : list atom_st) (i : nat) : vec := snd (nth i st ((0, 0, 0), (0, 0, 0))).

Fixpoint set_nth {A} (i : nat) (x : A) (l : list A) : list A :=
  match l, i with
  | [], _ => []
  | _ :: r, O => x :: r
  | y :: r, S i' => y :: set_nth i' x r
  end.

(* move atom i by -lat(k) *)
Definition shift_atom (B : box) (k : vec) (st : list atom_st) (i : nat) : list atom_st :=
  set_nth i (vsub (st_pos st i) (latv B k), vadd (st_shift st i) k) st.

Definition init_state (xyz : list vec) : list atom_st := map (fun p => (p, (0, 0, 0))) xyz.

(* ---------------------------------------------------------------- make_whole *)
(* one bond: delta = x[atom2]-x[atom1]; offset = c*roundf(dz/cz) + b*roundf((dy-off_y)/by) + a*roundf((dx-off_x)/ax);
   x[atom2] -= offset *)
Definition whole_step (B : box) (st : list atom_st) (bond : nat * nat) : list atom_st :=
  let d := vsub (st_pos st (snd bond)) (st_pos st (fst bond)) in
  shift_atom B (kseq rnd_haz B d) st (snd bond).

Definition make_whole (B : box) (bonds : list (nat * nat)) (st : list atom_st) : list atom_st :=
  fold_left (whole_step B) bonds st.

(* trajectory.py: sorted(topology.bonds, key=lambda bond: bond[0].index) -- a stable sort on the first atom;
   Topology.add_bond stores every bond as (lower index, higher index) *)
Fixpoint insert_bond (b : nat * nat) (l : list (nat * nat)) : list (nat * nat) :=
  match l with
  | [] => [b]
  | x :: r => if Nat.ltb (fst b) (fst x) then b :: l else x :: insert_bond b r
  end.
Definition sort_bonds (l : list (nat * nat)) : list (nat * nat) := fold_right insert_bond [] l.
Definition norm_bond (b : nat * nat) : nat * nat := if Nat.ltb (snd b) (fst b) then (snd b, fst b) else b.
Definition topology_bonds (added : list (nat * nat)) : list (nat * nat) := sort_bonds (map norm_bond added).

(* repaired ordering (two-variant rule) = trajectory.py:_parent_first_bonds as committed in /repo:

     neighbors = [[] for _ in range(n_atoms)]
     for b0, b1 in topology.bonds: neighbors[b0.index].append(b1.index); neighbors[b1.index].append(b0.index)
     placed = [False]*n_atoms; walk = []
     for root in range(n_atoms):
         if placed[root]: continue
         placed[root] = True; stack = [root]
         while stack:
             atom = stack.pop()
             for other in neighbors[atom]:
                 if not placed[other]: placed[other] = True; walk.append((atom, other)); stack.append(other)

   The stack is a list whose head is the top.  [fuel] bounds the number of pops (each atom is pushed once). *)
Fixpoint memn (x : nat) (l : list nat) : bool :=
  match l with [] => false | y :: r => Nat.eqb x y || memn x r end.
Definition nbrs (bonds : list (nat * nat)) (a : nat) : list nat :=
  flat_map (fun b => (if Nat.eqb (fst b) a then [snd b] else []) ++ (if Nat.eqb (snd b) a then [fst b] else [])) bonds.
Definition dstate := (list nat * list (nat * nat) * list nat)%type.       (* placed, walk, stack *)
Definition visit (atom : nat) (st : dstate) (other : nat) : dstate :=
  let '(placed, walk, stack) := st in
  if memn other placed then st else (other :: placed, walk ++ [(atom, other)], other :: stack).
Fixpoint dfs_loop (fuel : nat) (bonds : list (nat * nat)) (st : dstate) : dstate :=
  match fuel with
  | O => st
  | S f =>
      let '(placed, walk, stack) := st in
      match stack with
      | [] => st
      | atom :: rest => dfs_loop f bonds (fold_left (visit atom) (nbrs bonds atom) (placed, walk, rest))
      end
  end.
Definition pfb_root (n : nat) (bonds : list (nat * nat)) (acc : list nat * list (nat * nat)) (root : nat)
  : list nat * list (nat * nat) :=
  if memn root (fst acc) then acc
  else let r := dfs_loop n bonds (root :: fst acc, snd acc, [root]) in (fst (fst r), snd (fst r)).
Definition pfb_walk (n : nat) (bonds : list (nat * nat)) : list (nat * nat) :=
  snd (fold_left (pfb_root n bonds) (seq 0 n) ([], [])).

(* What the translator (harness/props/C11.py:translate) reads off the source of _parent_first_bonds, and the
   values that [pfb_walk] implements.  Gen/WholeWalk.v is regenerated from /repo on every run and Props/C11.v
   proves it equal to [model_walk_spec]: a change of the traversal that flips one of these breaks that obligation;
   a rewrite the translator cannot read degrades to the correspondence alone. *)
Record walk_spec := mkWalkSpec {
  ws_roots_ascending : bool;      (* for root in range(n_atoms) *)
  ws_adj_both : bool;             (* neighbors[b0].append(b1) AND neighbors[b1].append(b0) *)
  ws_pop_last : bool;             (* atom = stack.pop() *)
  ws_skip_placed : bool;          (* if not placed[other] *)
  ws_mark_on_push : bool;         (* placed[other] = True *)
  ws_emit_parent_child : bool;    (* walk.append((atom, other)) *)
  ws_push_new : bool;             (* stack.append(other) *)
  ws_fresh : bool                 (* recomputed from topology.bonds on every call: no early return, nothing stored on or
                                     read from the topology / module (no cache, no memoisation) *) }.
Definition model_walk_spec : walk_spec := mkWalkSpec true true true true true true true true.

(* topology.py:find_molecules -- the connected components of the bond graph, numbered in the order of their
   lowest atom.  Modelled as a FUNCTION (the partition), computed with the traversal above; the Python code uses its
   own depth-first loop (atom_stack / neighbor_stack), whose visiting order differs but cannot be observed in the
   result (a list of atom SETS); the correspondence compares the partition exactly on every generated topology. *)
Definition fm_root (n : nat) (bonds : list (nat * nat))
           (acc : (list nat * list (nat * nat)) * list (list nat)) (root : nat)
  : (list nat * list (nat * nat)) * list (list nat) :=
  if memn root (fst (fst acc)) then acc
  else let acc' := pfb_root n bonds (fst acc) root in
       (acc', snd acc ++ [filter (fun x => negb (memn x (fst (fst acc)))) (fst acc')]).
Definition find_molecules (n : nat) (bonds : list (nat * nat)) : list (list nat) :=
  snd (fold_left (fm_root n bonds) (seq 0 n) (([], []), [])).

(* the bond list handed to the kernel: the caller's sorted_bonds verbatim when given *)
Definition bond_walk (fixed : bool) (n : nat) (added : list (nat * nat)) (explicit : option (list (nat * nat)))
  : list (nat * nat) :=
  match explicit with
  | Some l => l
  | None => if fixed then pfb_walk n (map norm_bond added) else topology_bonds added
  end.

(* executable certificate that a walk is a proper parent-first walk of the bond graph:
   parent-ordered, made of bonds only, indices valid, and both ends of every bond hang under the same root *)
Fixpoint parent_ordered_b (seen : list nat) (l : list (nat * nat)) : bool :=
  match l with
  | [] => true
  | b :: r => negb (Nat.eqb (fst b) (snd b)) && negb (memn (snd b) seen) && parent_ordered_b (fst b :: snd b :: seen) r
  end.
Fixpoint root_of (out : list (nat * nat)) (fuel : nat) (x : nat) : nat :=
  match fuel with
  | O => x
  | S f => match find (fun e => Nat.eqb (snd e) x) out with
           | Some e => root_of out f (fst e)
           | None => x
           end
  end.
Definition is_bond (bonds : list (nat * nat)) (e : nat * nat) : bool :=
  existsb (fun b => (Nat.eqb (fst b) (fst e) && Nat.eqb (snd b) (snd e)) ||
                    (Nat.eqb (fst b) (snd e) && Nat.eqb (snd b) (fst e))) bonds.
Definition walk_ok (n : nat) (bonds out : list (nat * nat)) : bool :=
  parent_ordered_b [] out &&
  forallb (is_bond bonds) out &&
  forallb (fun b => Nat.ltb (fst b) n && Nat.ltb (snd b) n) bonds &&
  forallb (fun b => Nat.eqb (root_of out n (fst b)) (root_of out n (snd b))) bonds.

Definition make_whole_cur (B : box) (added : list (nat * nat)) (xyz : list vec) : list atom_st :=
  make_whole B (topology_bonds added) (init_state xyz).
Definition make_whole_fix (B : box) (added : list (nat * nat)) (xyz : list vec) : list atom_st :=
  make_whole B (pfb_walk (length xyz) (map norm_bond added)) (init_state xyz).

(* ---------------------------------------------------------------- image_frame *)
(* find_closest_contact(group1, group2): first pair with the strictly smallest wrapped squared distance *)
Definition contact := (Z * nat * nat)%type.      (* (r2, atom of group1, atom of group2); r2 < 0 encodes "none yet" *)
Definition closest_contact (B : box) (st : list atom_st) (g1 g2 : list nat) : contact :=
  fold_left (fun best i =>
    fold_left (fun best j =>
      let r2 := norm2 (wrap_seq fl_half B (vsub (st_pos st i) (st_pos st j))) in
      let '(b2, _, _) := best in
      if (b2 <? 0) || (r2 <? b2) then (r2, i, j) else best) g2 best) g1 (-1, 0%nat, 0%nat).

(* anchor_dists: entry (m1, m2), m2 < m1, holds the contact of anchors[m1] (group1) with anchors[m2] (group2);
   the matrix is symmetric and stores the same (ca1, ca2) on both sides *)
Definition contact_of (B : box) (st : list atom_st) (anchors : list (list nat)) (m1 m2 : nat) : contact :=
  let hi := Nat.max m1 m2 in
  let lo := Nat.min m1 m2 in
  if Nat.eqb m1 m2 then (0, 0%nat, 0%nat)
  else closest_contact B st (nth hi anchors []) (nth lo anchors []).
Definition contact_d2 (c : contact) : Z := fst (fst c).

(* index (in the list) of the first minimal element; squared distances order like the distances *)
Fixpoint argmin_from (f : nat -> Z) (l : list nat) (best : nat) : nat :=
  match l with
  | [] => best
  | x :: r => argmin_from f r (if f x <? f best then x else best)
  end.
Definition argmin (f : nat -> Z) (l : list nat) : nat :=
  match l with [] => 0%nat | x :: r => argmin_from f r x end.

Fixpoint remove_first (x : nat) (l : list nat) : list nat :=
  match l with [] => [] | y :: r => if Nat.eqb x y then r else y :: remove_first x r end.

(* one round of the anchor clustering loop: which anchor is added next, which used anchor it is nearest to,
   and the two contact atoms (a1 in the used anchor, a2 in the molecule being moved).
   d2/cts is the matrix computed BEFORE the loop (never updated); min_anchor_dist is row 0 of it (a view,
   never updated either), so "nearest to an existing anchor" is in fact "nearest to anchor 0". *)
Definition cluster_pick (anchors : list (list nat)) (cts : nat -> nat -> contact) (used avail : list nat)
  : nat * nat * nat * nat :=
  let next := argmin (fun a => contact_d2 (cts 0%nat a)) avail in
  let nearest := argmin (fun u => contact_d2 (cts next u)) used in
  let '(_, ca1, ca2) := cts next nearest in
  let mol := nth next anchors [] in
  (* "if a1 in anchor_molecule_indices[i:j]: a2, a1 = a1, a2": a2 is the atom of the molecule being moved *)
  let a1 := if memn ca1 mol then ca2 else ca1 in
  let a2 := if memn ca1 mol then ca1 else ca2 in
  (next, nearest, a1, a2).

Fixpoint cluster (fuel : nat) (B : box) (anchors : list (list nat)) (cts : nat -> nat -> contact)
         (used avail : list nat) (st : list atom_st) : list atom_st :=
  match fuel, avail with
  | O, _ => st
  | _, [] => st
  | S f, _ =>
      let '(next, _, a1, a2) := cluster_pick anchors cts used avail in
      let k := kseq rnd_hev B (vsub (st_pos st a2) (st_pos st a1)) in
      let st' := fold_left (shift_atom B k) (nth next anchors []) st in
      cluster f B anchors cts (used ++ [next]) (remove_first next avail) st'
  end.

(* sums of the current positions of a list of atoms *)
Definition sum_pos (st : list atom_st) (l : list nat) : vec :=
  fold_left (fun acc i => vadd acc (st_pos st i)) l (0, 0, 0).

(* wrap_mols for one non-anchor molecule.  The common translation is T = diag/2 - SA/NA (SA = sum over the
   anchor atoms, NA their number); the molecule's centre after it is SM/n + T.  All of that is kept over the
   common denominator den = 2*n*NA:  centre*den = 2*NA*SM + n*NA*diag - 2*n*SA.
   mol_offset = centre - c*floor(cz'/cz) - b*floor(cy'/by) - a*floor(cx'/ax) (each on the updated value);
   the molecule moves by mol_offset - centre = -(k1*a + k2*b + k3*c). *)
Definition wrap_mol_k (B : box) (st : list atom_st) (SA : vec) (NA : Z) (mol : list nat) : vec :=
  let n := Z.of_nat (length mol) in
  let SM := sum_pos st mol in
  let den := 2 * n * NA in
  let cen (s diag sa : Z) := 2 * NA * s + n * NA * diag - 2 * n * sa in
  let cx := cen (vx SM) (b_ax B) (vx SA) in
  let cy := cen (vy SM) (b_by B) (vy SA) in
  let cz := cen (vz SM) (b_cz B) (vz SA) in
  let k3 := cz / (b_cz B * den) in
  let cy1 := cy - k3 * (b_cy B * den) in
  let cx1 := cx - k3 * (b_cx B * den) in
  let k2 := cy1 / (b_by B * den) in
  let cx2 := cx1 - k2 * (b_bx B * den) in
  let k1 := cx2 / (b_ax B * den) in
  (k1, k2, k3).

Definition contact_table (B : box) (st : list atom_st) (anchors : list (list nat)) : nat -> nat -> contact :=
  let na := length anchors in
  let table := map (fun m1 => map (fun m2 => contact_of B st anchors m1 m2) (seq 0 na)) (seq 0 na) in
  fun m1 m2 => nth m2 (nth m1 table []) (0, 0%nat, 0%nat).

(* image_frame after the optional make_whole: result = (state, SA, NA) where every position still lacks the
   common translation T = diag/2 - SA/NA (kept symbolic because it is not a grid value) *)
Definition image_frame (B : box) (anchors others : list (list nat)) (st : list atom_st)
  : list atom_st * vec * Z :=
  let na := length anchors in
  let cts := contact_table B st anchors in
  let st1 := cluster na B anchors cts [0%nat] (seq 1 (na - 1)) st in
  let aatoms := concat anchors in
  let SA := sum_pos st1 aatoms in
  let NA := Z.of_nat (length aatoms) in
  let st2 := fold_left (fun s mol => fold_left (shift_atom B (wrap_mol_k B s SA NA mol)) mol s) others st1 in
  (st2, SA, NA).

(* Trajectory.image_molecules for one frame *)
Definition image_molecules_frame (B : box) (walk : option (list (nat * nat)))
           (anchors others : list (list nat)) (xyz : list vec) : list atom_st * vec * Z :=
  let st0 := init_state xyz in
  let st := match walk with Some l => make_whole B l st0 | None => st0 end in
  image_frame B anchors others st.

(* ---------------------------------------------------------------- Trajectory plumbing (inplace) *)
(* a trajectory as far as C11 is concerned: coordinates, cells, times (each an opaque list) *)
Record traj := mkTraj { t_xyz : list (list vec); t_cells : list box; t_time : list Z }.
(* returns (the returned trajectory, the receiver after the call) *)
Definition apply_frames (f : box -> list vec -> list vec) (inplace : bool) (t : traj) : traj * traj :=
  let r := mkTraj (map (fun bx => f (fst bx) (snd bx)) (combine (t_cells t) (t_xyz t))) (t_cells t) (t_time t) in
  if inplace then (r, r) else (r, t).
