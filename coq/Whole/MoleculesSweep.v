(* C11 -- the loop of Topology.find_molecules (MD.Whole.Molecules) against the function model (MD.Whole.Model
   .find_molecules, about which find_molecules_spec is proved for every bond graph).  BOUNDED statements, checked by
   exhaustive evaluation: every bond graph on 4 atoms with its bonds added in every order (1957 bond lists), and every bond
   list of at most 4 distinct bonds on 5 and on 6 atoms.  The general refinement proof is not done. *)
From Coq Require Import ZArith List Bool.
Import ListNotations.
Require Import MD.Neigh.Model MD.Whole.Model MD.Whole.Run MD.Whole.Molecules.

(* same molecules in the same order, each with the same atoms *)
Definition loop_agrees (n : nat) (bonds : list (nat * nat)) : bool :=
  mols_eqb (find_molecules n bonds) (map nsort (find_molecules_loop n bonds)).

Lemma sweep_count : length (inj_lists 6 (all_edges 4)) = 1957%nat /\ length (inj_lists 4 (all_edges 5)) = 5861%nat.
Proof. vm_compute. split; reflexivity. Qed.

Lemma loop_agrees_4_atoms : forallb (loop_agrees 4) (inj_lists 6 (all_edges 4)) = true.
Proof. vm_compute. reflexivity. Qed.

Lemma loop_agrees_5_atoms_4_bonds : forallb (loop_agrees 5) (inj_lists 4 (all_edges 5)) = true.
Proof. vm_compute. reflexivity. Qed.

Lemma loop_agrees_6_atoms_3_bonds : forallb (loop_agrees 6) (inj_lists 3 (all_edges 6)) = true.
Proof. vm_compute. reflexivity. Qed.

Lemma loop_example :
  find_molecules_loop 6 [(1, 4); (0, 4); (2, 5)]%nat = [[0; 4; 1]; [2; 5]; [3]]%nat /\
  find_molecules 6 [(1, 4); (0, 4); (2, 5)]%nat = [[1; 4; 0]; [5; 2]; [3]]%nat.
Proof. vm_compute. split; reflexivity. Qed.
