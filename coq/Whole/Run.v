(* C11 -- executable comparison functions used by the correspondence run (harness/props/C11.py).
   No proofs here.  The implementation's per-atom lattice moves (integer triples recovered from the
   returned coordinates) are compared with the model inside coqc.  A frame in which some discrete decision of
   the code is (nearly) tied in exact arithmetic -- a rounding at a half-integer, a floor at an integer, two
   candidates of an argmin at (almost) the same distance -- is reported as "fragile" and not compared,
   because float32 rounding inside the kernel decides it. *)
From Coq Require Import ZArith List Bool.
Import ListNotations.
Require Import MD.Neigh.Model MD.Whole.Model.
Open Scope Z_scope.

Record wcase := mkW {
  w_box : box;
  w_added : list (nat * nat);                    (* bonds in the order of Topology.add_bond *)
  w_sorted : option (list (nat * nat));          (* explicit sorted_bonds argument *)
  w_image : bool;                                (* false: make_molecules_whole, true: image_molecules *)
  w_do_whole : bool;                             (* image_molecules(make_whole=...) *)
  w_anchors : list (list nat);
  w_others : list (list nat);
  w_xyz : list vec }.

Definition TD : Z := 4096.     (* relative width of a "near tie": 1/4096, far above float32 rounding *)

(* n/d within 1/(2*TD) of a half-integer / of an integer (d > 0) *)
Definition near_half (n d : Z) : bool := Z.abs ((2 * n) mod (2 * d) - d) * TD <=? d.
Definition near_int (n d : Z) : bool := let r := n mod d in (r * TD <=? d) || ((d - r) * TD <=? d).

(* the three roundings of kseq *)
Definition kseq_fragile (r : Z -> Z -> Z) (B : box) (d : vec) : bool :=
  let k3 := r (vz d) (b_cz B) in
  let k2 := r (vy d - k3 * b_cy B) (b_by B) in
  near_half (vz d) (b_cz B) || near_half (vy d - k3 * b_cy B) (b_by B) ||
  near_half (vx d - k3 * b_cx B - k2 * b_bx B) (b_ax B).

(* make_whole, collecting fragility of every step on the way *)
Definition whole_frag (B : box) (bonds : list (nat * nat)) (st : list atom_st) : list atom_st * bool :=
  fold_left (fun acc bond =>
               let st := fst acc in
               let d := vsub (st_pos st (snd bond)) (st_pos st (fst bond)) in
               (whole_step B st bond, snd acc || kseq_fragile rnd_haz B d)) bonds (st, false).

Definition argmin_fragile (f : nat -> Z) (l : list nat) : bool :=
  let b := argmin f l in
  existsb (fun x => negb (Nat.eqb x b) && ((f x - f b) * TD <=? f b)) l.

(* two different atom pairs (almost) equally close *)
Definition contact_fragile (B : box) (st : list atom_st) (g1 g2 : list nat) : bool :=
  let best := contact_d2 (closest_contact B st g1 g2) in
  let cnt := fold_left (fun acc i => fold_left (fun acc j =>
               let r2 := norm2 (wrap_seq fl_half B (vsub (st_pos st i) (st_pos st j))) in
               if (r2 - best) * TD <=? best then S acc else acc) g2 acc) g1 O in
  negb (Nat.leb cnt 1).

Fixpoint cluster_frag (fuel : nat) (B : box) (anchors : list (list nat)) (cts : nat -> nat -> contact)
         (used avail : list nat) (st0 st : list atom_st) (fr : bool) : bool :=
  match fuel, avail with
  | O, _ => fr
  | _, [] => fr
  | S f, _ =>
      let '(next, nearest, a1, a2) := cluster_pick anchors cts used avail in
      let d := vsub (st_pos st a2) (st_pos st a1) in
      let k := kseq rnd_hev B d in
      let st' := fold_left (shift_atom B k) (nth next anchors []) st in
      let fr' := fr || argmin_fragile (fun a => contact_d2 (cts 0%nat a)) avail
                    || argmin_fragile (fun u => contact_d2 (cts next u)) used
                    || contact_fragile B st0 (nth (Nat.max next nearest) anchors []) (nth (Nat.min next nearest) anchors [])
                    || kseq_fragile rnd_hev B d in
      cluster_frag f B anchors cts (used ++ [next]) (remove_first next avail) st0 st' fr'
  end.

(* the three floors of wrap_mol_k *)
Definition wrap_mol_fragile (B : box) (st : list atom_st) (SA : vec) (NA : Z) (mol : list nat) : bool :=
  let n := Z.of_nat (length mol) in
  let SM := sum_pos st mol in
  let den := 2 * n * NA in
  let cen (s diag sa : Z) := 2 * NA * s + n * NA * diag - 2 * n * sa in
  let cx := cen (vx SM) (b_ax B) (vx SA) in
  let cy := cen (vy SM) (b_by B) (vy SA) in
  let cz := cen (vz SM) (b_cz B) (vz SA) in
  let k3 := cz / (b_cz B * den) in
  let cy1 := cy - k3 * (b_cy B * den) in
  let cx1 := cx - k3 * (b_cx B * den) in
  let k2 := cy1 / (b_by B * den) in
  let cx2 := cx1 - k2 * (b_bx B * den) in
  near_int cz (b_cz B * den) || near_int cy1 (b_by B * den) || near_int cx2 (b_ax B * den).

Definition the_walk (fixed : bool) (k : wcase) : option (list (nat * nat)) :=
  if negb (w_image k) || w_do_whole k
  then Some (bond_walk fixed (length (w_xyz k)) (w_added k) (w_sorted k)) else None.

(* result of the model for one frame: per-atom lattice multipliers (relative to the first anchor atom for
   image_molecules, absolute for make_molecules_whole) and the fragility flag *)
Definition run_case (fixed : bool) (k : wcase) : list vec * bool :=
  let B := w_box k in
  let st0 := init_state (w_xyz k) in
  let wf := match the_walk fixed k with Some l => whole_frag B l st0 | None => (st0, false) end in
  if negb (w_image k) then (map snd (fst wf), snd wf)
  else
    let st := fst wf in
    let anchors := w_anchors k in
    let na := length anchors in
    let cts := contact_table B st anchors in
    let fr1 := cluster_frag na B anchors cts [0%nat] (seq 1 (na - 1)) st st (snd wf) in
    let st1 := cluster na B anchors cts [0%nat] (seq 1 (na - 1)) st in
    let aatoms := concat anchors in
    let SA := sum_pos st1 aatoms in
    let NA := Z.of_nat (length aatoms) in
    let r2 := fold_left (fun acc mol =>
                 (fold_left (shift_atom B (wrap_mol_k B (fst acc) SA NA mol)) mol (fst acc),
                  snd acc || wrap_mol_fragile B (fst acc) SA NA mol)) (w_others k) (st1, fr1) in
    let ref := st_shift (fst r2) (nth 0 aatoms 0%nat) in
    (map (fun a => vsub (snd a) ref) (fst r2), snd r2).

Fixpoint vlist_eqb (a b : list vec) : bool :=
  match a, b with
  | [], [] => true
  | p :: a', q :: b' => (vx p =? vx q) && (vy p =? vy q) && (vz p =? vz q) && vlist_eqb a' b'
  | _, _ => false
  end.

Fixpoint vlist_eqb_pre (a b : list vec) : bool :=
  match a, b with
  | [], [] => true
  | p :: a', q :: b' => (vx p =? vx q) && (vy p =? vy q) && (vz p =? vz q) && vlist_eqb_pre a' b'
  | _, _ => false
  end.
(* the walk above repeats the control flow of Model.image_frame to collect the flags; check it against the
   model function the theorems are about *)
Definition walk_consistent (fixed : bool) (k : wcase) : bool :=
  if negb (w_image k) then true
  else
    let '(st, _, _) := image_molecules_frame (w_box k) (the_walk fixed k) (w_anchors k) (w_others k) (w_xyz k) in
    let ref := st_shift st (nth 0 (concat (w_anchors k)) 0%nat) in
    vlist_eqb_pre (map (fun a => vsub (snd a) ref) st) (fst (run_case fixed k)).

(* 0 = agrees with both bond orders, 1 = only with the repaired order, 2 = only with the order as found,
   3 = with neither, 4 = fragile frame (not compared), 5 = internal inconsistency of this file *)
Definition w_code (k : wcase) (impl : list vec) : Z :=
  let rc := run_case false k in
  let rf := run_case true k in
  if negb (walk_consistent false k && walk_consistent true k) then 5
  else if snd rc || snd rf then 4
  else (if vlist_eqb (fst rc) impl then 0 else 1) + (if vlist_eqb (fst rf) impl then 0 else 2).

(* the model's own view of the result (used by the oracle-side consistency check of the harness) *)
Definition w_model (fixed : bool) (k : wcase) : list vec := fst (run_case fixed k).

(* does the model predict a bonded pair that is not at its wrapped (minimum-image) separation after the
   make_whole stage?  bit 0: with the bond order as found, bit 1: with the repaired order, bit 2: the
   make_whole stage itself had a (nearly) tied rounding.  Used to attribute a split bond observed on the
   implementation to the known bond-order defect even when later stages of the frame are fragile. *)
Definition split_pred (fixed : bool) (k : wcase) : bool * bool :=
  match the_walk fixed k with
  | None => (false, false)
  | Some l =>
      let wf := whole_frag (w_box k) l (init_state (w_xyz k)) in
      (existsb (fun b => let kk := kseq rnd_haz (w_box k) (vsub (st_pos (fst wf) (snd b)) (st_pos (fst wf) (fst b))) in
                         negb ((vx kk =? 0) && (vy kk =? 0) && (vz kk =? 0))) (w_added k), snd wf)
  end.
(* bit 3: the repaired walk fails the executable certificate [walk_ok] of Props/C11.v whole_fixed_order_partial *)
Definition w_split_code (k : wcase) : Z :=
  let c := split_pred false k in
  let f := split_pred true k in
  let nb := map norm_bond (w_added k) in
  (if fst c then 1 else 0) + (if fst f then 2 else 0) + (if snd c || snd f then 4 else 0) +
  (if walk_ok (length (w_xyz k)) nb (pfb_walk (length (w_xyz k)) nb) then 0 else 8).

(* Topology.find_molecules as reported by the implementation (atom lists ascending, molecules in order) against
   Model.find_molecules on the same bonds *)
Fixpoint ninsert (x : nat) (l : list nat) : list nat :=
  match l with [] => [x] | y :: r => if Nat.leb x y then x :: l else y :: ninsert x r end.
Definition nsort (l : list nat) : list nat := fold_right ninsert [] l.
Fixpoint nlist_eqb (a b : list nat) : bool :=
  match a, b with [], [] => true | x :: a', y :: b' => Nat.eqb x y && nlist_eqb a' b' | _, _ => false end.
Fixpoint mols_eqb (a b : list (list nat)) : bool :=
  match a, b with [], [] => true | x :: a', y :: b' => nlist_eqb (nsort x) y && mols_eqb a' b' | _, _ => false end.
Definition w_mols_ok (k : wcase) (mols : list (list nat)) : bool :=
  mols_eqb (find_molecules (length (w_xyz k)) (map norm_bond (w_added k))) mols.

(* Topology.guess_anchor_molecules as reported by the implementation (None = it refuses; molecules in its order, atom
   lists ascending) against Anchors.guess_anchor_molecules; the default other_molecules (given the anchors actually
   used) against Anchors.default_others *)
Require Import MD.Whole.Anchors.
Definition w_guess_ok (k : wcase) (impl : option (list (list nat))) : bool :=
  match guess_anchor_molecules (length (w_xyz k)) (map norm_bond (w_added k)), impl with
  | None, None => true
  | Some a, Some b => mols_eqb a b
  | _, _ => false
  end.
Definition w_others_ok (k : wcase) (impl : list (list nat)) : bool :=
  mols_eqb (default_others (length (w_xyz k)) (map norm_bond (w_added k)) (w_anchors k)) impl.

(* the same report against the loop-level model MD.Whole.Molecules.find_molecules_loop (atom_stack / neighbor_stack) *)
Require Import MD.Whole.Molecules.
Definition w_mols_loop_ok (k : wcase) (mols : list (list nat)) : bool :=
  mols_eqb (find_molecules_loop (length (w_xyz k)) (map norm_bond (w_added k))) mols.
