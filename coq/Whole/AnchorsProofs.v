(* C11 -- facts about the argument handling modelled in MD.Whole.Anchors *)
From Coq Require Import ZArith List Bool Lia ZifyBool Arith Sorted Permutation.
Import ListNotations.
Require Import MD.Neigh.Model MD.Whole.Model MD.Whole.Proofs MD.Whole.Walk MD.Whole.Anchors.

(* ---------------------------------------------------------------- list facts *)
Lemma filter_perm {A} (f : A -> bool) l l' : Permutation l l' -> Permutation (filter f l) (filter f l').
Proof.
  induction 1 as [|x l l' H IH|x y l|l l' l'' H1 IH1 H2 IH2]; cbn [filter].
  - constructor.
  - destruct (f x); [now constructor|exact IH].
  - destruct (f x), (f y); try reflexivity. apply perm_swap.
  - etransitivity; eassumption.
Qed.

Lemma filter_split_perm {A} (f : A -> bool) l : Permutation (filter f l ++ filter (fun x => negb (f x)) l) l.
Proof.
  induction l as [|a l IH]; cbn [filter app]; [constructor|].
  destruct (f a); cbn [negb app].
  - now constructor.
  - apply Permutation_sym, Permutation_cons_app, Permutation_sym, IH.
Qed.

Lemma perm_concat {A} (l l' : list (list A)) : Permutation l l' -> Permutation (concat l) (concat l').
Proof.
  induction 1 as [|x l l' H IH|x y l|l l' l'' H1 IH1 H2 IH2]; cbn [concat].
  - constructor.
  - now apply Permutation_app_head.
  - rewrite !app_assoc. apply Permutation_app_tail, Permutation_app_comm.
  - etransitivity; eassumption.
Qed.

Lemma filter_nil_if' {A} (f : A -> bool) l : (forall x, In x l -> f x = false) -> filter f l = [].
Proof.
  induction l as [|a l IH]; intros H; cbn [filter]; [reflexivity|].
  rewrite (H a (or_introl eq_refl)). apply IH. intros x Hx. apply H. now right.
Qed.

Lemma same_mol_iff a b : same_mol a b = true <-> (forall x, In x a <-> In x b).
Proof.
  unfold same_mol. rewrite andb_true_iff, !forallb_forall. split.
  - intros (H1 & H2) x. split; intros Hx; [apply memn_in, H1, Hx|apply memn_in, H2, Hx].
  - intros H. split; intros x Hx; apply memn_in, H, Hx.
Qed.

(* ---------------------------------------------------------------- the stable sort on decreasing size *)
Definition ge_len (a b : list nat) : Prop := (length b <= length a)%nat.

Lemma ins_mol_perm m l : Permutation (m :: l) (ins_mol m l).
Proof.
  induction l as [|a l IH]; cbn [ins_mol]; [reflexivity|].
  destruct (Nat.leb (length a) (length m)); [reflexivity|].
  etransitivity; [apply perm_swap|]. now apply perm_skip.
Qed.

Lemma sort_mols_perm l : Permutation l (sort_mols l).
Proof.
  induction l as [|a l IH]; cbn [sort_mols fold_right]; [constructor|].
  etransitivity; [apply perm_skip, IH|apply ins_mol_perm].
Qed.

Lemma ins_mol_sorted m l : StronglySorted ge_len l -> StronglySorted ge_len (ins_mol m l).
Proof.
  induction 1 as [|a l Hl IH Hf]; cbn [ins_mol].
  - constructor; constructor.
  - destruct (Nat.leb (length a) (length m)) eqn:E.
    + apply Nat.leb_le in E. constructor; [now constructor|]. constructor; [exact E|].
      rewrite Forall_forall in *. intros z Hz. specialize (Hf z Hz). unfold ge_len in *. lia.
    + apply Nat.leb_gt in E. constructor; [exact IH|]. rewrite Forall_forall in *. intros z Hz.
      apply (Permutation_in _ (Permutation_sym (ins_mol_perm m l))) in Hz. destruct Hz as [<-|Hz].
      * unfold ge_len. lia.
      * now apply Hf.
Qed.

Lemma sort_mols_sorted l : StronglySorted ge_len (sort_mols l).
Proof. induction l as [|a l IH]; cbn [sort_mols fold_right]; [constructor|]. now apply ins_mol_sorted. Qed.

(* the head of a list sorted on decreasing size is a largest element *)
Lemma sorted_hd_max S : StronglySorted ge_len S -> forall m, In m S -> (length m <= length (hd [] S))%nat.
Proof.
  intros Hs m Hm. destruct Hs as [|a l Hl Hf]; [destruct Hm|]. cbn [hd].
  destruct Hm as [<-|Hm]; [lia|]. rewrite Forall_forall in Hf. exact (Hf m Hm).
Qed.

(* filtering a list sorted on decreasing size by "larger than c" keeps the head whenever it keeps anything *)
Lemma filter_sorted_hd S c : StronglySorted ge_len S ->
  filter (fun m => Nat.ltb c (length m)) S <> [] ->
  hd [] (filter (fun m => Nat.ltb c (length m)) S) = hd [] S.
Proof.
  intros Hs Hne. destruct Hs as [|a l Hl Hf]; [now destruct Hne|]. cbn [filter hd] in *.
  destruct (Nat.ltb c (length a)) eqn:E; [reflexivity|]. exfalso. apply Hne.
  apply Nat.ltb_ge in E. clear Hne. rewrite Forall_forall in Hf.
  induction l as [|b l IH]; [reflexivity|]. cbn [filter].
  assert (Hb : ge_len a b) by (apply Hf; now left). unfold ge_len in Hb.
  replace (Nat.ltb c (length b)) with false by (symmetry; apply Nat.ltb_ge; lia).
  apply IH; [now inversion Hl|]. intros z Hz. apply Hf. now right.
Qed.

(* ---------------------------------------------------------------- guess_anchor_molecules, default other_molecules *)
Section Guess.
Variables (n : nat) (bonds : list (nat * nat)).
Hypothesis Hvalid : forall b, In b bonds -> (fst b < n)%nat /\ (snd b < n)%nat.

(* the guessed anchors are molecules of the bond graph, each strictly larger than the size threshold, and the FIRST
   anchor (the one the clustering starts from: "the largest molecule") is a largest molecule of the system *)
Theorem guessed_anchors_spec anchors :
  guess_anchor_molecules n bonds = Some anchors ->
  anchors <> [] /\
  (forall m, In m anchors -> In m (find_molecules n bonds) /\
                             (anchor_cutoff (sort_mols (find_molecules n bonds)) < length m)%nat) /\
  (forall m, In m (find_molecules n bonds) -> (length m <= length (hd [] anchors))%nat).
Proof.
  unfold guess_anchor_molecules. cbv zeta. set (M := find_molecules n bonds). set (S := sort_mols M).
  set (c := anchor_cutoff S).
  destruct (filter (fun m => Nat.ltb c (length m)) S) as [|a0 l] eqn:E; [discriminate|].
  intros H. inversion H. subst anchors. clear H. rewrite <- E.
  split; [rewrite E; discriminate|]. split.
  - intros m Hm. apply filter_In in Hm. destruct Hm as (Hm & Hc). apply Nat.ltb_lt in Hc. split; [|exact Hc].
    exact (Permutation_in _ (Permutation_sym (sort_mols_perm M)) Hm).
  - intros m Hm. rewrite filter_sorted_hd; [|apply sort_mols_sorted|rewrite E; discriminate].
    apply sorted_hd_max; [apply sort_mols_sorted|]. exact (Permutation_in _ (sort_mols_perm M) Hm).
Qed.

(* other_molecules=None: exactly the molecules that are not anchors -- anchors and others together are the molecules
   of the system, each once *)
Theorem default_others_complement anchors :
  guess_anchor_molecules n bonds = Some anchors ->
  Permutation (anchors ++ default_others n bonds anchors) (find_molecules n bonds).
Proof.
  intros Hg. destruct (guessed_anchors_spec anchors Hg) as (_ & Ha & _).
  destruct (find_molecules_spec n bonds Hvalid) as (_ & Hnd & _). cbv zeta in Hnd.
  revert Hg Ha. unfold guess_anchor_molecules, default_others. cbv zeta.
  set (M := find_molecules n bonds) in *. set (S := sort_mols M). set (c := anchor_cutoff S).
  set (P := fun m : list nat => Nat.ltb c (length m)).
  intros Hg Ha.
  assert (Ea : anchors = filter P S).
  { destruct (filter P S) as [|a0 l]; [discriminate|]. now inversion Hg. }
  assert (Eo : filter (fun m => negb (existsb (same_mol m) anchors)) M = filter (fun m => negb (P m)) M).
  { apply filter_ext_in. intros m Hm. f_equal. apply eq_true_iff_eq. rewrite existsb_exists. split.
    - intros (a & Hin & Hs). destruct (Ha a Hin) as (HaM & Hlen). pose proof (proj1 (same_mol_iff m a) Hs) as Hs'. clear Hs. rename Hs' into Hs.
      destruct a as [|x a']; [cbn in Hlen; lia|].
      assert (m = x :: a').
      { apply (concat_nodup_shared M m (x :: a') x Hnd Hm HaM); [apply Hs; now left|now left]. }
      subst m. unfold P. apply Nat.ltb_lt. exact Hlen.
    - intros HP. exists m. split; [|apply (proj2 (same_mol_iff m m)); tauto]. rewrite Ea. apply filter_In. split; [|exact HP].
      exact (Permutation_in _ (sort_mols_perm M) Hm). }
  rewrite Eo, Ea.
  etransitivity; [apply Permutation_app_tail, filter_perm, Permutation_sym, sort_mols_perm|apply filter_split_perm].
Qed.

(* hence, for the default arguments, the hypotheses of image_units_rigid hold by themselves *)
Theorem default_molecules_partition anchors :
  guess_anchor_molecules n bonds = Some anchors ->
  NoDup (concat (anchors ++ default_others n bonds anchors)) /\
  (forall x, In x (concat (anchors ++ default_others n bonds anchors)) <-> (x < n)%nat).
Proof.
  intros Hg. pose proof (perm_concat _ _ (default_others_complement anchors Hg)) as Hp.
  destruct (find_molecules_spec n bonds Hvalid) as (Hcov & Hnd & Hrange & _). cbv zeta in *.
  split; [exact (Permutation_NoDup (Permutation_sym Hp) Hnd)|].
  intros x. split.
  - intros Hx. apply (Permutation_in _ Hp) in Hx. apply in_concat in Hx. destruct Hx as (m & Hm & Hin). exact (Hrange m x Hm Hin).
  - intros Hx. destruct (Hcov x Hx) as (m & Hm & Hin). apply (Permutation_in _ (Permutation_sym Hp)). apply in_concat. now exists m.
Qed.

(* the heuristic refuses (ValueError) whenever all molecules have the same size -- in particular for a system that
   is one single molecule *)
Theorem guess_refuses_equal_sizes k :
  (forall m, In m (find_molecules n bonds) -> length m = k) -> guess_anchor_molecules n bonds = None.
Proof.
  intros Hk. unfold guess_anchor_molecules. cbv zeta. set (M := find_molecules n bonds) in *. set (S := sort_mols M).
  assert (HS : forall m, In m S -> length m = k).
  { intros m Hm. apply Hk. exact (Permutation_in _ (Permutation_sym (sort_mols_perm M)) Hm). }
  replace (filter _ S) with (@nil (list nat)); [reflexivity|].
  symmetry. apply filter_nil_if'. intros m Hm. apply Nat.ltb_ge. rewrite (HS m Hm).
  unfold anchor_cutoff.
  assert (Hidx : (length S / 10 < length S)%nat).
  { destruct S as [|s0 S']; [destruct Hm|]. apply Nat.div_lt; cbn [length]; lia. }
  rewrite (HS (nth (length S / 10) S [])) by (apply nth_In; exact Hidx). lia.
Qed.
End Guess.

(* ---------------------------------------------------------------- the dispatch *)
(* make_whole=False: no bond walk reaches the kernel, whatever sorted_bonds was passed *)
Theorem plan_make_whole_false n bonds anchors others sorted anchors' others' walk :
  image_molecules_plan true n bonds (mkImArgs anchors others sorted false) = ImPlan anchors' others' walk -> walk = None.
Proof.
  unfold image_molecules_plan. cbn [negb ia_anchors ia_others ia_sorted ia_make_whole].
  destruct (match anchors with Some x => Some x | None => guess_anchor_molecules n bonds end); [|discriminate].
  intros H. now inversion H.
Qed.

(* make_whole=True: the caller's sorted_bonds verbatim, else the parent-first walk of the topology's bonds *)
Theorem plan_make_whole_true n bonds anchors others sorted anchors' others' walk :
  image_molecules_plan true n bonds (mkImArgs anchors others sorted true) = ImPlan anchors' others' walk ->
  walk = Some (match sorted with Some l => l | None => pfb_walk n bonds end).
Proof.
  unfold image_molecules_plan. cbn [negb ia_anchors ia_others ia_sorted ia_make_whole].
  destruct (match anchors with Some x => Some x | None => guess_anchor_molecules n bonds end); [|discriminate].
  intros H. now inversion H.
Qed.

(* ValueError exactly: no unit cell, or anchors to be guessed and the heuristic finds none *)
Theorem plan_refuses_iff has_cell n bonds a :
  image_molecules_plan has_cell n bonds a = ImValueError <->
  has_cell = false \/ (ia_anchors a = None /\ guess_anchor_molecules n bonds = None).
Proof.
  unfold image_molecules_plan. destruct has_cell; cbn [negb]; [|tauto].
  destruct (ia_anchors a) as [x|]; [split; [discriminate|intros [H|(H & _)]; discriminate]|].
  destruct (guess_anchor_molecules n bonds); split; try discriminate; try tauto.
  intros [H|(_ & H)]; discriminate.
Qed.

(* END TO END, default arguments, make_whole=False: every molecule of the system -- anchor or not -- is moved as a rigid
   unit, and every atom by a lattice vector plus the one common translation; no hypothesis on the molecules left *)
Theorem image_default_rigid B n bonds xyz st SA NA :
  (forall b, In b bonds -> (fst b < n)%nat /\ (snd b < n)%nat) -> length xyz = n ->
  image_molecules_call B n bonds (mkImArgs None None None false) xyz = Some (st, SA, NA) ->
  tracks B xyz st /\
  forall m, In m (find_molecules n bonds) -> forall a b, In a m -> In b m -> st_shift st a = st_shift st b.
Proof.
  intros Hv Hlen. unfold image_molecules_call, image_molecules_plan. cbn [negb ia_anchors ia_others ia_sorted ia_make_whole].
  destruct (guess_anchor_molecules n bonds) as [anchors|] eqn:Hg; [|discriminate].
  intros H.
  assert (E : image_molecules_frame B None anchors (default_others n bonds anchors) xyz = (st, SA, NA)) by congruence.
  clear H. assert (Est : st = fst (fst (image_molecules_frame B None anchors (default_others n bonds anchors) xyz))) by now rewrite E.
  split.
  - rewrite Est. apply image_frame_tracks.
  - intros m Hm a b Ha Hb. rewrite Est.
    destruct (default_molecules_partition n bonds Hv anchors Hg) as (Hnd & Hcov).
    apply (image_rigid_no_whole B anchors (default_others n bonds anchors) xyz Hnd) with (m := m); try assumption.
    + intros x Hx. rewrite Hlen. now apply Hcov.
    + exact (Permutation_in _ (Permutation_sym (default_others_complement n bonds Hv anchors Hg)) Hm).
Qed.

(* non-vacuity: 11 molecules (one of 4 atoms, ten single atoms): the big one is the anchor, the rest are the others;
   a system of equal molecules is refused *)
Definition anch_bonds : list (nat * nat) := [(0, 1); (1, 2); (2, 3)]%nat.
Lemma anchors_example :
  guess_anchor_molecules 14 anch_bonds = Some [[3; 2; 1; 0]]%nat /\
  length (default_others 14 anch_bonds [[3; 2; 1; 0]]%nat) = 10%nat /\
  guess_anchor_molecules 4 anch_bonds = None /\
  image_molecules_plan true 14 anch_bonds (mkImArgs None None (Some [(0, 1)]%nat) false) =
    ImPlan [[3; 2; 1; 0]]%nat (default_others 14 anch_bonds [[3; 2; 1; 0]]%nat) None.
Proof. vm_compute. repeat split; reflexivity. Qed.
