(* C10 -- refinement (continued): one voxel, getNeighbors, the push_back completion, the whole kernel.
   See MD.Neigh.Bins (model) and MD.Neigh.BinsProofs (sorting, binary searches, ranges). *)
From Coq Require Import ZArith List Bool Lia ZifyBool Arith Sorted Permutation.
Import ListNotations.
Require Import MD.Neigh.Model MD.Neigh.Arith MD.Neigh.NeighborsProofs MD.Neigh.NlistProofs MD.Neigh.Complete MD.Neigh.Complete2 MD.Neigh.CompleteOpen MD.Neigh.Bins MD.Neigh.BinsProofs.
Open Scope Z_scope.

(* ---------------------------------------------------------------- one voxel: the loops visit exactly the model's piece *)
Lemma existsb_perm {A} (f : A -> bool) l l' : Permutation l l' -> existsb f l = existsb f l'.
Proof.
  intros Hp. apply eq_true_iff_eq. rewrite !existsb_exists. split; intros (x & Hx & Hf); exists x; split; try exact Hf.
  - now apply (Permutation_in _ Hp).
  - now apply (Permutation_in _ (Permutation_sym Hp)).
Qed.

Lemma wy_ll_eq g y : wy_ll g y = wy_of g y. Proof. reflexivity. Qed.
Lemma wz_ll_eq g z : wz_ll g z = wz_of g z. Proof. reflexivity. Qed.

Lemma item_ok_iff g c i p r e : item_ok g c i p r e = true <-> (fst e < i)%nat /\ dist_ok g c p r (snd e) = true.
Proof.
  unfold item_ok. destruct (Nat.ltb (fst e) i) eqn:E.
  - apply Nat.ltb_lt in E. tauto.
  - apply Nat.ltb_ge in E. split; [discriminate|]. intros (H & _). lia.
Qed.

Lemma in_piece_ll_iff g c bins sbins i p z y e :
  (forall wy wz, Permutation (bins wy wz) (sbins wy wz) /\ StronglySorted xle (sbins wy wz)) ->
  (In e (piece_ll g c sbins i p z y) <-> In e (piece g c bins i p z y)).
Proof.
  intros Hb. unfold piece_ll, piece. cbv zeta. rewrite wy_ll_eq, wz_ll_eq.
  set (r := vox_range g c p _ _ y z). destruct (r_skip r); [reflexivity|].
  destruct (Hb (wy_of g y) (wz_of g z)) as (Hperm & Hsort).
  set (bin := bins (wy_of g y) (wz_of g z)) in *. set (sbin := sbins (wy_of g y) (wz_of g z)) in *.
  rewrite (existsb_perm _ _ _ Hperm : has_below g (vx p) r bin = has_below g (vx p) r sbin).
  rewrite (existsb_perm _ _ _ Hperm : has_above g (vx p) r bin = has_above g (vx p) r sbin).
  rewrite in_flat_map, filter_In, cand_ok_iff. split.
  - intros (se & Hse & Hin). apply filter_In in Hin. destruct Hin as (Hin & Hok).
    apply in_slice in Hin; [|now apply (ranges_bounded g (vx p) r sbin)].
    destruct Hin as (idx & Hidx & Hx). pose proof (ranges_bounded g (vx p) r sbin se Hsort Hse) as Hb2.
    assert (Hlt : (idx < length sbin)%nat) by lia.
    split; [apply (Permutation_in _ (Permutation_sym Hperm)); rewrite <- Hx; now apply nth_In|].
    apply item_ok_iff in Hok. destruct Hok as (Hi & Hd). split; [exact Hi|]. split; [|exact Hd].
    pose proof (proj1 (ranges_cover g (vx p) r sbin idx Hsort Hlt)) as Hc. rewrite Hx in Hc. apply Hc. now exists se.
  - intros (Hin & Hi & Hr & Hd). apply (Permutation_in _ Hperm) in Hin.
    destruct (In_nth _ _ ent0 Hin) as (idx & Hlt & Hx).
    pose proof (proj2 (ranges_cover g (vx p) r sbin idx Hsort Hlt)) as Hc. rewrite Hx in Hc.
    destruct (Hc Hr) as (se & Hse & Hrange). exists se. split; [exact Hse|]. apply filter_In. split.
    + apply in_slice; [now apply (ranges_bounded g (vx p) r sbin)|]. now exists idx.
    + apply item_ok_iff. now split.
Qed.

Lemma NoDup_map_filter {A B} (f : A -> B) (h : A -> bool) l : NoDup (map f l) -> NoDup (map f (filter h l)).
Proof.
  induction l as [|a l IH]; cbn [map filter]; intros H; [constructor|]. inversion H as [|? ? Ha Hl]; subst.
  destruct (h a); cbn [map]; [|now apply IH]. constructor; [|now apply IH].
  intros Hin. apply Ha. apply in_map_iff in Hin. destruct Hin as (x & Hx & Hin). apply filter_In in Hin.
  apply in_map_iff. exists x. tauto.
Qed.

Lemma fst_nth_inj bin i j : NoDup (map fst bin) -> (i < length bin)%nat -> (j < length bin)%nat ->
  fst (nth i bin ent0) = fst (nth j bin ent0) -> i = j.
Proof.
  intros Hnd Hi Hj E. rewrite (NoDup_nth (map fst bin) 0%nat) in Hnd. apply Hnd; rewrite ?map_length; try assumption.
  change 0%nat with (fst ent0). now rewrite !map_nth.
Qed.

Lemma NoDup_fst_slice bin s e : NoDup (map fst bin) -> (e <= length bin)%nat -> NoDup (map fst (slice bin s e)).
Proof.
  intros Hnd He. apply (NoDup_nth _ 0%nat). intros i j Hi Hj E.
  rewrite map_length, slice_length in Hi, Hj by exact He.
  change 0%nat with (fst ent0) in E. rewrite !map_nth in E. rewrite !slice_nth in E by lia.
  apply fst_nth_inj in E; [lia|exact Hnd|lia|lia].
Qed.

Lemma NoDup_piece_ll g c sbins i p z y :
  (forall wy wz, NoDup (map fst (sbins wy wz)) /\ StronglySorted xle (sbins wy wz)) ->
  NoDup (map fst (piece_ll g c sbins i p z y)).
Proof.
  intros Hb. unfold piece_ll. cbv zeta. set (r := vox_range g c p _ _ y z). destruct (r_skip r); [constructor|].
  destruct (Hb (wy_ll g y) (wz_ll g z)) as (Hnd & Hsort). set (bin := sbins (wy_ll g y) (wz_ll g z)) in *.
  pose proof (ranges_bounded g (vx p) r bin) as Hbd.
  destruct (ranges_disjoint g (vx p) r bin Hsort) as [(a & E)|(a & b & E & Hdis)]; rewrite E in *; cbn [flat_map].
  - rewrite app_nil_r. apply NoDup_map_filter, NoDup_fst_slice; [exact Hnd|]. apply Hbd; [exact Hsort|now left].
  - rewrite app_nil_r, map_app.
    assert (Ha : (snd a <= length bin)%nat) by (apply Hbd; [exact Hsort|now left]).
    assert (Hb' : (snd b <= length bin)%nat) by (apply Hbd; [exact Hsort|right; now left]).
    apply NoDup_app_intro.
    + now apply NoDup_map_filter, NoDup_fst_slice.
    + now apply NoDup_map_filter, NoDup_fst_slice.
    + intros x Hx Hx'. apply in_map_iff in Hx, Hx'. destruct Hx as (e1 & E1 & H1), Hx' as (e2 & E2 & H2).
      apply filter_In in H1, H2. destruct H1 as (H1 & _), H2 as (H2 & _).
      apply in_slice in H1, H2; try assumption. destruct H1 as (i1 & Hi1 & N1), H2 as (i2 & Hi2 & N2).
      assert (i1 = i2) by (apply (fst_nth_inj bin); [exact Hnd|lia|lia|rewrite N1, N2; congruence]). lia.
Qed.

Lemma perm_flat_map_pointwise {A B} (f h : A -> list B) l :
  (forall a, In a l -> Permutation (f a) (h a)) -> Permutation (flat_map f l) (flat_map h l).
Proof.
  induction l as [|a l IH]; intros H; cbn [flat_map]; [constructor|].
  apply Permutation_app; [apply H; now left|apply IH; intros b Hb; apply H; now right].
Qed.

(* ---------------------------------------------------------------- getNeighbors: same members, no duplicates *)
Lemma sorted_bins_ok fl cell c xyz wy wz :
  Permutation (the_bins fl cell c xyz wy wz) (sorted_bins (the_grid fl cell c xyz) (atoms_of xyz) wy wz) /\
  StronglySorted xle (sorted_bins (the_grid fl cell c xyz) (atoms_of xyz) wy wz).
Proof. split; [apply sort_bin_perm|apply sort_bin_sorted]. Qed.

Lemma half_list_ll_perm fl cell c xyz i p :
  Permutation (half_list_ll (the_grid fl cell c xyz) c (sorted_bins (the_grid fl cell c xyz) (atoms_of xyz)) i p)
              (half_list (the_grid fl cell c xyz) c (the_bins fl cell c xyz) i p).
Proof.
  rewrite half_list_pieces. unfold half_list_ll. cbv zeta.
  apply perm_flat_map_pointwise. intros z _. apply perm_flat_map_pointwise. intros y _.
  apply NoDup_Permutation.
  - apply NoDup_piece_ll. intros wy wz. destruct (sorted_bins_ok fl cell c xyz wy wz) as (Hp & Hs). split; [|exact Hs].
    apply (Permutation_NoDup (Permutation_map fst Hp)). apply NoDup_the_bins.
  - apply NoDup_piece.
  - intros j. rewrite !in_map_iff. split; intros (e & Hj & He); exists e; (split; [exact Hj|]).
    + apply (in_piece_ll_iff _ c (the_bins fl cell c xyz)) in He; [exact He|apply sorted_bins_ok].
    + apply (in_piece_ll_iff _ c (the_bins fl cell c xyz)); [apply sorted_bins_ok|exact He].
Qed.

Lemma nlist_half_ll_length fl cell c xyz : length (nlist_half_ll fl cell c xyz) = length xyz.
Proof. unfold nlist_half_ll. cbv zeta. now rewrite map_length, atoms_of_length. Qed.

Lemma nth_nlist_half_ll fl cell c xyz i : (i < length xyz)%nat ->
  nth i (nlist_half_ll fl cell c xyz) [] =
  half_list_ll (the_grid fl cell c xyz) c (sorted_bins (the_grid fl cell c xyz) (atoms_of xyz)) i (pos xyz i).
Proof.
  intros Hi. unfold nlist_half_ll. cbv zeta.
  set (f := fun e : nat * vec => half_list_ll _ _ _ (fst e) (snd e)).
  rewrite (nth_indep _ [] (f (0%nat, (0, 0, 0)))) by (rewrite map_length, atoms_of_length; exact Hi).
  rewrite map_nth. rewrite nth_atoms_of by exact Hi. reflexivity.
Qed.

Lemma nlist_half_ll_perm fl cell c xyz i :
  Permutation (nth i (nlist_half_ll fl cell c xyz) []) (nth i (nlist_half_gen fl cell c xyz) []).
Proof.
  destruct (Nat.lt_ge_cases i (length xyz)) as [Hi|Hi].
  - rewrite nth_nlist_half_ll, nth_nlist_half by exact Hi. apply half_list_ll_perm.
  - rewrite !nth_overflow by (rewrite ?nlist_half_ll_length, ?nlist_half_length; exact Hi). constructor.
Qed.

(* ---------------------------------------------------------------- the push_back completion *)
Lemma upd_nth_length {A} (f : A -> A) l : forall k, length (upd_nth k f l) = length l.
Proof. induction l as [|a l IH]; intros [|k]; cbn [upd_nth length]; auto. Qed.

Lemma nth_upd_nth {A} (f : A -> A) (d : A) l : forall k j, (k < length l)%nat ->
  nth j (upd_nth k f l) d = if Nat.eqb j k then f (nth j l d) else nth j l d.
Proof.
  induction l as [|a l IH]; intros k j Hk; cbn [length] in Hk; [lia|].
  destruct k as [|k], j as [|j]; cbn [upd_nth nth Nat.eqb]; try reflexivity. apply IH. lia.
Qed.

(* pushing i onto the rows listed in l (all distinct, all existing) *)
Lemma push_rows i l : forall N, NoDup l -> (forall k, In k l -> (k < length N)%nat) ->
  length (fold_left (push_at i) l N) = length N /\
  forall j, nth j (fold_left (push_at i) l N) [] = nth j N [] ++ (if existsb (Nat.eqb j) l then [i] else []).
Proof.
  induction l as [|k l IH]; intros N Hnd Hlt; cbn [fold_left existsb].
  - split; [reflexivity|]. intros j. now rewrite app_nil_r.
  - inversion Hnd as [|? ? Hk Hl]; subst.
    assert (Hkn : (k < length N)%nat) by (apply Hlt; now left).
    assert (Hlen : length (push_at i N k) = length N) by (unfold push_at; apply upd_nth_length).
    destruct (IH (push_at i N k) Hl) as (L & E).
    { intros k' Hk'. rewrite Hlen. apply Hlt. now right. }
    split; [now rewrite L|].
    intros j. rewrite E. unfold push_at. rewrite nth_upd_nth by exact Hkn.
    destruct (Nat.eqb j k) eqn:Ejk; cbn [orb]; [|reflexivity].
    apply Nat.eqb_eq in Ejk. subst j.
    replace (existsb (Nat.eqb k) l) with false; [now rewrite app_nil_r|].
    symmetry. apply not_true_is_false. intros H. apply existsb_eqb_in in H. contradiction.
Qed.

Lemma filter_seq_snoc (f : nat -> bool) m : filter f (seq 0 (S m)) = filter f (seq 0 m) ++ (if f m then [m] else []).
Proof. rewrite seq_S, filter_app. cbn [plus filter]. now destruct (f m). Qed.

Lemma complete_ll_prefix H : half_ok H -> forall m, (m <= length H)%nat ->
  let N := fold_left (fun N i => fold_left (push_at i) (nth i N []) N) (seq 0 m) H in
  length N = length H /\
  forall k, nth k N [] = nth k H [] ++ filter (fun i => existsb (Nat.eqb k) (nth i H [])) (seq 0 m).
Proof.
  intros (Hlt & Hnd). induction m as [|m IH]; intros Hm; cbv zeta.
  - cbn [seq fold_left filter]. split; [reflexivity|]. intros k. now rewrite app_nil_r.
  - rewrite seq_S, fold_left_app. cbn [plus fold_left].
    destruct (IH ltac:(lia)) as (L & E). cbv zeta in L, E.
    set (N := fold_left _ (seq 0 m) H) in *.
    assert (Erow : nth m N [] = nth m H []).
    { rewrite E. replace (filter _ (seq 0 m)) with (@nil nat); [now rewrite app_nil_r|].
      symmetry. apply filter_nil_if. intros i Hi. apply in_seq in Hi.
      apply not_true_is_false. intros Hx. apply existsb_eqb_in in Hx. apply Hlt in Hx. lia. }
    rewrite Erow.
    destruct (push_rows m (nth m H []) N (Hnd m)) as (L' & E').
    { intros k Hk. apply Hlt in Hk. lia. }
    split; [lia|]. intros k. rewrite E', E, <- app_assoc. f_equal. rewrite filter_app. cbn [plus filter].
    now destruct (existsb (Nat.eqb k) (nth m H [])).
Qed.

(* the nested push_back loop computes the closed form of the model, row by row and in the same order *)
Theorem complete_ll_eq H : half_ok H -> complete_ll H = complete H.
Proof.
  intros Hok. destruct (complete_ll_prefix H Hok (length H) (le_n _)) as (L & E). cbv zeta in L, E.
  apply (nth_ext _ _ [] []).
  - unfold complete_ll. rewrite L. now rewrite complete_length.
  - intros k Hk. unfold complete_ll in *. rewrite E. rewrite L in Hk. now rewrite nth_complete.
Qed.

(* ---------------------------------------------------------------- the whole kernel *)
Lemma half_ok_perm H H' : length H' = length H -> (forall i, Permutation (nth i H' []) (nth i H [])) -> half_ok H -> half_ok H'.
Proof.
  intros _ Hp (Hlt & Hnd). split.
  - intros i j Hin. apply (Hlt i j). now apply (Permutation_in _ (Hp i)).
  - intros i. apply (Permutation_NoDup (Permutation_sym (Hp i))). apply Hnd.
Qed.

Lemma complete_perm H H' : length H' = length H -> (forall i, Permutation (nth i H' []) (nth i H [])) ->
  forall i, Permutation (nth i (complete H') []) (nth i (complete H) []).
Proof.
  intros Hl Hp i. destruct (Nat.lt_ge_cases i (length H)) as [Hi|Hi].
  - rewrite !nth_complete by lia. rewrite Hl. apply Permutation_app; [apply Hp|].
    replace (filter (fun k => existsb (Nat.eqb i) (nth k H' [])) (seq 0 (length H)))
       with (filter (fun k => existsb (Nat.eqb i) (nth k H [])) (seq 0 (length H))); [reflexivity|].
    apply filter_ext. intros k. apply eq_true_iff_eq. rewrite !existsb_eqb_in.
    split; apply Permutation_in; [apply Permutation_sym|]; apply Hp.
  - rewrite !nth_overflow by (rewrite complete_length; lia). constructor.
Qed.

Definition half_ll_src (fully : bool) (cell : option box) (c : Z) (xyz : list vec) : list (list nat) :=
  match cell with
  | Some B => nlist_half_ll fully cell c (map (wrap_into_cell (reduce_box B)) xyz)
  | None => nlist_half_ll fully cell c xyz
  end.

Lemma half_ll_src_perm fl cell c xyz i :
  Permutation (nth i (half_ll_src fl cell c xyz) []) (nth i (nlist_half_fix_gen fl cell c xyz) []).
Proof. unfold half_ll_src, nlist_half_fix_gen. destruct cell; apply nlist_half_ll_perm. Qed.

Lemma half_ll_src_length fl cell c xyz : length (half_ll_src fl cell c xyz) = length (nlist_half_fix_gen fl cell c xyz).
Proof.
  unfold half_ll_src, nlist_half_fix_gen. destruct cell; now rewrite nlist_half_ll_length, nlist_half_length.
Qed.

(* rows before the completion: smaller indices only, no duplicates *)
Lemma half_ll_ok fl cell c xyz : half_ok (half_ll_src fl cell c xyz).
Proof.
  apply (half_ok_perm (nlist_half_fix_gen fl cell c xyz)).
  - apply half_ll_src_length.
  - apply half_ll_src_perm.
  - apply nlist_half_fix_gen_ok.
Qed.

(* REFINEMENT: neighborlist.cpp with its sorted bins, binary searches, one-or-two index ranges and push_back
   completion returns, for every atom, a permutation of the row of the abstract model -- for every input *)
Theorem nlist_ll_refines fl cell c xyz i :
  Permutation (nth i (nlist_ll_gen fl cell c xyz) [])
              (nth i (complete (nlist_half_fix_gen fl cell c xyz)) []).
Proof.
  unfold nlist_ll_gen. fold (half_ll_src fl cell c xyz). rewrite complete_ll_eq by apply half_ll_ok.
  apply complete_perm; [apply half_ll_src_length|apply half_ll_src_perm].
Qed.

Corollary nlist_ll_refines_fix2 cell c xyz i :
  Permutation (nth i (nlist_ll cell c xyz) []) (nth i (nlist_fix2 cell c xyz) []).
Proof. apply nlist_ll_refines. Qed.

(* hence the relation it returns is symmetric, irreflexive, duplicate-free, and mentions existing atoms only *)
Theorem nlist_ll_relation cell c xyz i j :
  let N := nlist_ll cell c xyz in
  (In j (nth i N []) -> In i (nth j N [])) /\ ~ In i (nth i N []) /\ NoDup (nth i N []) /\
  (In j (nth i N []) -> (i < length xyz)%nat /\ (j < length xyz)%nat).
Proof.
  cbv zeta. destruct (nlist_fix2_relation cell c xyz i j) as (Hs & Hi & Hn & Hr). cbv zeta in *.
  pose proof (nlist_ll_refines_fix2 cell c xyz) as P.
  split; [|split; [|split]].
  - intros H. apply (Permutation_in _ (Permutation_sym (P j))). apply Hs. now apply (Permutation_in _ (P i)).
  - intros H. apply Hi. now apply (Permutation_in _ (P i)).
  - apply (Permutation_NoDup (Permutation_sym (P i))). exact Hn.
  - intros H. apply Hr. now apply (Permutation_in _ (P i)).
Qed.

(* the order inside a row is that of the loops (range 0 in x order, then range 1; then the completions ascending):
   on this frame md.compute_neighborlist returns exactly the first list, rows in this order; row 3 of the abstract
   model is the same set in another order *)
Definition ll_example_xyz : list vec := [(100, 100, 100); (3900, 150, 120); (300, 200, 90); (250, 3900, 100); (2000, 2000, 2000)].
Lemma ll_example :
  nlist_ll (Some (mkBox 4096 0 4096 0 0 4096)) 700 ll_example_xyz = [[1; 2; 3]; [0; 2; 3]; [0; 1; 3]; [0; 2; 1]; []]%nat /\
  nlist_fix2 (Some (mkBox 4096 0 4096 0 0 4096)) 700 ll_example_xyz = [[1; 2; 3]; [0; 2; 3]; [0; 1; 3]; [0; 1; 2]; []]%nat.
Proof. vm_compute. split; reflexivity. Qed.

(* consequences for the loops as written: nothing beyond the cutoff is listed, and (orthorhombic cell, cutoff <= half
   of each edge, atoms anywhere; or no cell) everything closer than the cutoff is *)
Theorem nlist_ll_sound cell c xyz i j : In j (nth i (nlist_ll cell c xyz) []) ->
  i <> j /\ (image_within cell c (pos xyz i) (pos xyz j) \/ image_within cell c (pos xyz j) (pos xyz i)).
Proof.
  intros H. apply (Permutation_in _ (nlist_ll_refines_fix2 cell c xyz i)) in H. unfold nlist_fix2 in H.
  pose proof (nlist_half_fix_gen_ok true cell c xyz) as Hok.
  destruct (complete_range _ i j Hok H) as (Hi & Hj).
  apply (in_complete _ i j Hok Hi) in H.
  destruct H as [H|H]; apply nlist_half_fix_gen_sound in H; destruct H as (Hlt & _ & Him); (split; [lia|]); [left|right]; exact Him.
Qed.

Theorem nlist_ll_complete_ortho B c xyz i j k1 k2 k3 :
  box_ok B -> Complete.ortho B -> 0 < c ->
  2 * c <= b_ax B /\ 2 * c <= b_by B /\ 2 * c <= b_cz B ->
  (i < length xyz)%nat -> (j < length xyz)%nat -> i <> j ->
  norm2 (vsub (vsub (pos xyz j) (pos xyz i)) (lat B k1 k2 k3)) < c * c ->
  In j (nth i (nlist_ll (Some B) c xyz) []).
Proof.
  intros. apply (Permutation_in _ (Permutation_sym (nlist_ll_refines_fix2 _ _ _ i))).
  now apply (nlist_fix2_complete_ortho B c xyz i j k1 k2 k3).
Qed.

Theorem nlist_ll_complete_nocell c xyz i j :
  0 < c -> (i < length xyz)%nat -> (j < length xyz)%nat -> i <> j ->
  norm2 (vsub (pos xyz j) (pos xyz i)) < c * c ->
  In j (nth i (nlist_ll None c xyz) []).
Proof.
  intros. apply (Permutation_in _ (Permutation_sym (nlist_ll_refines_fix2 _ _ _ i))).
  now apply CompleteOpen.nlist_fix2_complete_nocell.
Qed.
