(* C10 -- refinement of the loops of MD.Neigh.Bins (sorted bins, binary searches, index ranges, push_back
   completion) to the abstract voxel list of MD.Neigh.Model (bins as sets, ranges as predicates, closed-form
   completion). *)
From Coq Require Import ZArith List Bool Lia ZifyBool Arith Sorted Permutation.
Import ListNotations.
Require Import MD.Neigh.Model MD.Neigh.Arith MD.Neigh.NeighborsProofs MD.Neigh.NlistProofs MD.Neigh.Complete2 MD.Neigh.Bins.
Open Scope Z_scope.

(* ---------------------------------------------------------------- std::sort *)
Definition xle (a b : nat * vec) : Prop := ent_x a <= ent_x b.

Lemma ins_entry_perm e l : Permutation (e :: l) (ins_entry e l).
Proof.
  induction l as [|a l IH]; cbn [ins_entry]; [reflexivity|].
  destruct (ent_ltb a e); [|reflexivity].
  etransitivity; [apply perm_swap|]. now apply perm_skip.
Qed.

Lemma sort_bin_perm l : Permutation l (sort_bin l).
Proof.
  induction l as [|a l IH]; cbn [sort_bin fold_right]; [constructor|].
  etransitivity; [apply perm_skip, IH|apply ins_entry_perm].
Qed.

Lemma ins_entry_sorted e l : StronglySorted xle l -> StronglySorted xle (ins_entry e l).
Proof.
  induction 1 as [|a l Hl IH Hf]; cbn [ins_entry].
  - constructor; constructor.
  - destruct (ent_ltb a e) eqn:E.
    + constructor; [exact IH|]. rewrite Forall_forall. intros z Hz.
      apply (Permutation_in _ (Permutation_sym (ins_entry_perm e l))) in Hz. destruct Hz as [<-|Hz].
      * unfold xle, ent_ltb in *. lia.
      * rewrite Forall_forall in Hf. now apply Hf.
    + constructor; [now constructor|]. constructor.
      * unfold xle, ent_ltb in *. lia.
      * rewrite Forall_forall in *. intros z Hz. specialize (Hf z Hz). unfold xle, ent_ltb in *. lia.
Qed.

Lemma sort_bin_sorted l : StronglySorted xle (sort_bin l).
Proof. induction l as [|a l IH]; cbn [sort_bin fold_right]; [constructor|]. now apply ins_entry_sorted. Qed.

Lemma sorted_nth l : StronglySorted xle l ->
  forall i j, (i <= j < length l)%nat -> ent_x (nth i l ent0) <= ent_x (nth j l ent0).
Proof.
  induction 1 as [|a l Hl IH Hf]; intros i j Hij; cbn [length] in Hij; [lia|].
  destruct i as [|i], j as [|j]; cbn [nth]; try lia.
  - rewrite Forall_forall in Hf. apply Hf. apply nth_In. lia.
  - apply IH. lia.
Qed.

(* ---------------------------------------------------------------- monotone predicates on a sorted bin *)
Definition down_closed (f : Z -> bool) : Prop := forall x y, x <= y -> f y = true -> f x = true.
Definition up_closed (f : Z -> bool) : Prop := forall x y, x <= y -> f x = true -> f y = true.

Lemma prefix_exists f l : StronglySorted xle l -> down_closed f ->
  exists k, (k <= length l)%nat /\ forall i, (i < length l)%nat -> f (ent_x (nth i l ent0)) = (i <? k)%nat.
Proof.
  intros Hs Hd. induction Hs as [|a l Hl IH Hf].
  - exists 0%nat. split; [cbn; lia|]. cbn. intros i Hi. lia.
  - destruct (f (ent_x a)) eqn:Ea.
    + destruct IH as (k & Hk & Hi). exists (S k). split; [cbn [length]; lia|].
      intros [|i] Hlt; cbn [nth]; [exact Ea|]. cbn [length] in Hlt. rewrite Hi by lia. reflexivity.
    + exists 0%nat. split; [lia|]. intros [|i] Hlt; cbn [nth]; [exact Ea|].
      cbn [length] in Hlt. destruct (f (ent_x (nth i l ent0))) eqn:E; [|reflexivity].
      rewrite Forall_forall in Hf. assert (Hx : xle a (nth i l ent0)) by (apply Hf, nth_In; lia).
      rewrite (Hd _ _ Hx E) in Ea. discriminate.
Qed.

Lemma suffix_exists f l : StronglySorted xle l -> up_closed f ->
  exists k, (k <= length l)%nat /\ forall i, (i < length l)%nat -> f (ent_x (nth i l ent0)) = (k <=? i)%nat.
Proof.
  intros Hs Hu. destruct (prefix_exists (fun v => negb (f v)) l Hs) as (k & Hk & Hi).
  - intros x y Hxy Hy. destruct (f x) eqn:Ex; [|reflexivity]. rewrite (Hu _ _ Hxy Ex) in Hy. discriminate.
  - exists k. split; [exact Hk|]. intros i Hlt. specialize (Hi i Hlt). cbv beta in Hi.
    destruct (f (ent_x (nth i l ent0))); cbn [negb] in Hi; lia.
Qed.

(* ---------------------------------------------------------------- the binary searches *)
Lemma mid_bounds lo hi : (lo < hi)%nat -> (lo <= (lo + hi) / 2 < hi)%nat.
Proof.
  intros H. split; [apply Nat.div_le_lower_bound; lia|apply Nat.div_lt_upper_bound; lia].
Qed.

(* on a bin where "x < bound" holds exactly for the first k items, findLowerBound(lower, upper) = k clamped *)
Lemma find_lower_spec below bin k :
  (forall i, (i < length bin)%nat -> below (ent_x (nth i bin ent0)) = (i <? k)%nat) ->
  forall fuel lo hi, (lo <= hi <= length bin)%nat -> (hi - lo <= fuel)%nat ->
    find_lower fuel below bin lo hi = Nat.max lo (Nat.min hi k).
Proof.
  intros Hp. induction fuel as [|fuel IH]; intros lo hi H1 H2; cbn [find_lower]; [lia|].
  destruct (Nat.ltb lo hi) eqn:E; [|lia].
  apply Nat.ltb_lt in E. pose proof (mid_bounds lo hi E) as Hm.
  set (m := ((lo + hi) / 2)%nat) in *. rewrite Hp by lia.
  destruct (m <? k)%nat eqn:Em; rewrite IH by lia; lia.
Qed.

(* on a bin where "x > bound" holds exactly from item k on, findUpperBound(lower, upper) = k clamped *)
Lemma find_upper_spec above bin k :
  (forall i, (i < length bin)%nat -> above (ent_x (nth i bin ent0)) = (k <=? i)%nat) ->
  forall fuel lo hi, (lo <= hi <= length bin)%nat -> (hi - lo <= fuel)%nat ->
    find_upper fuel above bin lo hi = Nat.max lo (Nat.min hi k).
Proof.
  intros Hp. induction fuel as [|fuel IH]; intros lo hi H1 H2; cbn [find_upper]; [lia|].
  destruct (Nat.ltb lo hi) eqn:E; [|lia].
  apply Nat.ltb_lt in E. pose proof (mid_bounds lo hi E) as Hm.
  set (m := ((lo + hi) / 2)%nat) in *. rewrite Hp by lia.
  destruct (k <=? m)%nat eqn:Em; rewrite IH by lia; lia.
Qed.

(* ---------------------------------------------------------------- slices *)
Lemma nth_firstn_lt {A} (d : A) n : forall l i, (i < n)%nat -> nth i (firstn n l) d = nth i l d.
Proof.
  induction n as [|n IH]; intros l i Hi; [lia|].
  destruct l as [|a l]; cbn [firstn nth]; [reflexivity|]. destruct i as [|i]; [reflexivity|]. apply IH. lia.
Qed.

Lemma nth_skipn_add {A} (d : A) s : forall l i, nth i (skipn s l) d = nth (s + i) l d.
Proof.
  induction s as [|s IH]; intros l i; cbn [skipn plus]; [reflexivity|].
  destruct l as [|a l]; cbn [nth]; [destruct i; reflexivity|]. apply IH.
Qed.

Lemma slice_length bin s e : (e <= length bin)%nat -> length (slice bin s e) = (e - s)%nat.
Proof. intros H. unfold slice. rewrite firstn_length, skipn_length. lia. Qed.

Lemma slice_nth bin s e i : (i < e - s)%nat -> nth i (slice bin s e) ent0 = nth (s + i) bin ent0.
Proof. intros H. unfold slice. rewrite nth_firstn_lt by exact H. apply nth_skipn_add. Qed.

Lemma in_slice bin s e x : (e <= length bin)%nat ->
  (In x (slice bin s e) <-> exists idx, (s <= idx < e)%nat /\ nth idx bin ent0 = x).
Proof.
  intros He. split.
  - intros H. destruct (In_nth _ _ ent0 H) as (i & Hi & Hx). rewrite slice_length in Hi by exact He.
    rewrite slice_nth in Hx by exact Hi. exists (s + i)%nat. split; [lia|exact Hx].
  - intros (idx & Hidx & Hx). rewrite <- Hx. replace idx with (s + (idx - s))%nat by lia.
    rewrite <- (slice_nth bin s e) by lia. apply nth_In. rewrite slice_length by exact He. lia.
Qed.

(* ---------------------------------------------------------------- the range-end comparisons are monotone in x *)
Lemma ge_minx_up S px r : up_closed (ge_minx (S * S) px r).
Proof.
  intros x y Hxy H. unfold ge_minx, sqle in *. rewrite !orb_true_iff, !Z.leb_le in *.
  destruct H as [H|[H|H]]; [left; lia|right; left; lia|].
  destruct (Z_le_gt_dec (r_lo r - y) 0) as [Hy|Hy]; [right; left; lia|]. right; right.
  assert (H1 : (r_lo r - y) * (r_lo r - y) <= (r_lo r - x) * (r_lo r - x)) by nia.
  pose proof (Z.square_nonneg S). nia.
Qed.

Lemma le_maxx_down S px r : down_closed (le_maxx (S * S) px r).
Proof.
  intros x y Hxy H. unfold le_maxx, sqle in *. rewrite !orb_true_iff, !Z.leb_le in *.
  destruct H as [H|[H|H]]; [left; lia|right; left; lia|].
  destruct (Z_le_gt_dec (x - r_hi r) 0) as [Hy|Hy]; [right; left; lia|]. right; right.
  assert (H1 : (x - r_hi r) * (x - r_hi r) <= (y - r_hi r) * (y - r_hi r)) by nia.
  pose proof (Z.square_nonneg S). nia.
Qed.

Lemma lt_minx_down g px r : down_closed (lt_minx g px r).
Proof.
  intros x y Hxy H. unfold lt_minx in *. destruct (ge_minx _ px r x) eqn:E; [|reflexivity].
  rewrite (ge_minx_up (gS g) px r x y Hxy E) in H. discriminate.
Qed.

Lemma gt_maxx_up g px r : up_closed (gt_maxx g px r).
Proof.
  intros x y Hxy H. unfold gt_maxx in *. destruct (le_maxx _ px r y) eqn:E; [|reflexivity].
  rewrite (le_maxx_down (gS g) px r x y Hxy E) in H. discriminate.
Qed.

Lemma lt_minx_sh_down g px r : down_closed (lt_minx_sh g px r).
Proof. intros x y Hxy. unfold lt_minx_sh. apply lt_minx_down. lia. Qed.

Lemma gt_maxx_sh_up g px r : up_closed (gt_maxx_sh g px r).
Proof. intros x y Hxy. unfold gt_maxx_sh. apply gt_maxx_up. lia. Qed.

(* x < minx implies x <= maxx (minx <= px <= maxx) *)
Lemma lt_minx_not_gt_maxx g px r v : lt_minx g px r v = true -> gt_maxx g px r v = false.
Proof.
  unfold lt_minx, gt_maxx, ge_minx, le_maxx. intros H.
  destruct (px <=? v) eqn:E; cbn [orb negb] in H; [discriminate|].
  assert (E' : (v <=? px) = true) by lia. rewrite E'. reflexivity.
Qed.

(* ---------------------------------------------------------------- the ranges in closed form *)
Lemma ranges_explicit g px r bin : StronglySorted xle bin ->
  let n := length bin in
  exists k1 k2 k3 k4 : nat,
    (k1 <= k2 <= n)%nat /\ (k3 <= n)%nat /\ (k4 <= n)%nat /\
    (forall i, (i < n)%nat -> lt_minx g px r (ent_x (nth i bin ent0)) = (i <? k1)%nat) /\
    (forall i, (i < n)%nat -> gt_maxx g px r (ent_x (nth i bin ent0)) = (k2 <=? i)%nat) /\
    (forall i, (i < n)%nat -> gt_maxx_sh g px r (ent_x (nth i bin ent0)) = (k3 <=? i)%nat) /\
    (forall i, (i < n)%nat -> lt_minx_sh g px r (ent_x (nth i bin ent0)) = (i <? k4)%nat) /\
    ranges_ll g px r bin =
      if r_needp r then
        if Nat.ltb 0 k1 && Nat.ltb k2 n then [(k1, k2)]
        else if Nat.ltb 0 k1 then [(k1, k2); (0%nat, Nat.min k1 k3)]
        else [(k1, k2); (Nat.max k2 (Nat.min n k4), n)]
      else [(k1, k2)].
Proof.
  intros Hs n.
  destruct (prefix_exists _ bin Hs (lt_minx_down g px r)) as (k1 & Hk1 & H1).
  destruct (suffix_exists _ bin Hs (gt_maxx_up g px r)) as (k2 & Hk2 & H2).
  destruct (suffix_exists _ bin Hs (gt_maxx_sh_up g px r)) as (k3 & Hk3 & H3).
  destruct (prefix_exists _ bin Hs (lt_minx_sh_down g px r)) as (k4 & Hk4 & H4).
  fold n in Hk1, Hk2, Hk3, Hk4, H1, H2, H3, H4.
  assert (H12 : (k1 <= k2)%nat).
  { destruct k1 as [|k]; [lia|]. assert (Hk : (k < n)%nat) by lia.
    pose proof (H1 k Hk) as Ha. pose proof (H2 k Hk) as Hb.
    replace (k <? S k)%nat with true in Ha by lia. rewrite (lt_minx_not_gt_maxx _ _ _ _ Ha) in Hb. lia. }
  exists k1, k2, k3, k4. repeat (split; [first [assumption|lia]|]).
  unfold ranges_ll. cbv zeta. fold n.
  rewrite (find_lower_spec (lt_minx g px r) bin k1 H1 n 0 n) by lia.
  replace (Nat.max 0 (Nat.min n k1)) with k1 by lia.
  rewrite (find_upper_spec (gt_maxx g px r) bin k2 H2 n k1 n) by lia.
  replace (Nat.max k1 (Nat.min n k2)) with k2 by lia.
  rewrite (find_upper_spec (gt_maxx_sh g px r) bin k3 H3 n 0 k1) by lia.
  rewrite (find_lower_spec (lt_minx_sh g px r) bin k4 H4 n k2 n) by lia.
  replace (Nat.min (Nat.max 0 (Nat.min k1 k3)) k1) with (Nat.min k1 k3) by lia.
  replace (Nat.max (Nat.max k2 (Nat.min n k4)) k2) with (Nat.max k2 (Nat.min n k4)) by lia.
  reflexivity.
Qed.

Lemma existsb_nth_iff (f : nat * vec -> bool) bin :
  existsb f bin = true <-> exists i, (i < length bin)%nat /\ f (nth i bin ent0) = true.
Proof.
  rewrite existsb_exists. split.
  - intros (x & Hx & Hf). destruct (In_nth _ _ ent0 Hx) as (i & Hi & E). exists i. now rewrite E.
  - intros (i & Hi & Hf). exists (nth i bin ent0). split; [now apply nth_In|exact Hf].
Qed.

(* item idx of the sorted bin lies in one of the index ranges  <->  its x satisfies the range predicate of the model *)
Lemma ranges_cover g px r bin idx : StronglySorted xle bin -> (idx < length bin)%nat ->
  ((exists se, In se (ranges_ll g px r bin) /\ (fst se <= idx < snd se)%nat) <->
   in_ranges g px r (has_below g px r bin) (has_above g px r bin) (ent_x (nth idx bin ent0)) = true).
Proof.
  intros Hs Hidx. destruct (ranges_explicit g px r bin Hs) as (k1 & k2 & k3 & k4 & H12 & Hk3 & Hk4 & H1 & H2 & H3 & H4 & E).
  cbv zeta in *. set (n := length bin) in *.
  assert (Hbelow : has_below g px r bin = Nat.ltb 0 k1).
  { apply eq_true_iff_eq. unfold has_below. rewrite existsb_nth_iff. fold n. split.
    - intros (i & Hi & Hf). change (lt_minx g px r (ent_x (nth i bin ent0)) = true) in Hf. rewrite H1 in Hf by exact Hi. lia.
    - intros H0. exists 0%nat. split; [lia|]. change (lt_minx g px r (ent_x (nth 0 bin ent0)) = true). rewrite H1 by lia. lia. }
  assert (Habove : has_above g px r bin = Nat.ltb k2 n).
  { apply eq_true_iff_eq. unfold has_above. rewrite existsb_nth_iff. fold n. split.
    - intros (i & Hi & Hf). change (gt_maxx g px r (ent_x (nth i bin ent0)) = true) in Hf. rewrite H2 in Hf by exact Hi. lia.
    - intros H0. exists k2. split; [lia|]. change (gt_maxx g px r (ent_x (nth k2 bin ent0)) = true). rewrite H2 by lia. lia. }
  rewrite Hbelow, Habove, E. clear E Hbelow Habove.
  pose proof (H1 idx Hidx) as A1. pose proof (H2 idx Hidx) as A2. pose proof (H3 idx Hidx) as A3. pose proof (H4 idx Hidx) as A4.
  unfold in_ranges. cbv zeta.
  set (x := ent_x (nth idx bin ent0)) in *.
  unfold lt_minx_sh, gt_maxx_sh in A3, A4. unfold lt_minx, gt_maxx in A1, A2, A3, A4.
  destruct (ge_minx (gS g * gS g) px r x) eqn:G1, (le_maxx (gS g * gS g) px r x) eqn:L1,
           (le_maxx (gS g * gS g) px r (x + b_ax (g_box g))) eqn:L2, (ge_minx (gS g * gS g) px r (x - b_ax (g_box g))) eqn:G2;
    cbn [negb andb] in *;
    destruct (r_needp r); destruct (Nat.ltb 0 k1) eqn:B1; destruct (Nat.ltb k2 n) eqn:B2; cbn [andb negb];
    (split; [intros (se & Hin & Hr); cbn [In] in Hin;
             repeat (destruct Hin as [<-|Hin]; [cbn [fst snd] in Hr; try reflexivity; lia|]); destruct Hin
            |intros Ht; try discriminate;
             first [ exists (k1, k2); split; [cbn [In]; tauto|cbn [fst snd]; lia]
                   | exists (0%nat, Nat.min k1 k3); split; [cbn [In]; tauto|cbn [fst snd]; lia]
                   | exists (Nat.max k2 (Nat.min n k4), n); split; [cbn [In]; tauto|cbn [fst snd]; lia] ]]).
Qed.

Lemma ranges_bounded g px r bin se : StronglySorted xle bin -> In se (ranges_ll g px r bin) -> (snd se <= length bin)%nat.
Proof.
  intros Hs Hin. destruct (ranges_explicit g px r bin Hs) as (k1 & k2 & k3 & k4 & H12 & Hk3 & Hk4 & _ & _ & _ & _ & E).
  cbv zeta in *. rewrite E in Hin.
  destruct (r_needp r); [destruct (Nat.ltb 0 k1 && Nat.ltb k2 (length bin)); [|destruct (Nat.ltb 0 k1)]|];
    cbn [In] in Hin; repeat (destruct Hin as [<-|Hin]; [cbn [snd]; lia|]); destruct Hin.
Qed.

(* the ranges never overlap: no item is visited twice *)
Lemma ranges_disjoint g px r bin : StronglySorted xle bin ->
  (exists a, ranges_ll g px r bin = [a]) \/
  (exists a b, ranges_ll g px r bin = [a; b] /\ ((snd b <= fst a)%nat \/ (snd a <= fst b)%nat)).
Proof.
  intros Hs. destruct (ranges_explicit g px r bin Hs) as (k1 & k2 & k3 & k4 & H12 & Hk3 & Hk4 & _ & _ & _ & _ & E).
  cbv zeta in *. rewrite E.
  destruct (r_needp r); [destruct (Nat.ltb 0 k1 && Nat.ltb k2 (length bin)); [|destruct (Nat.ltb 0 k1)]|].
  - left. eauto.
  - right. do 2 eexists. split; [reflexivity|]. left. cbn [fst snd]. lia.
  - right. do 2 eexists. split; [reflexivity|]. right. cbn [fst snd]. lia.
  - left. eauto.
Qed.

