(* C10 -- refinement of the loops of MD.Neigh.Bins (sorted bins, binary searches, index ranges, push_back
   completion) to the abstract voxel list of MD.Neigh.Model (bins as sets, ranges as predicates, closed-form
   completion). *)
From Coq Require Import ZArith List Bool Lia ZifyBool Arith Sorted Permutation.
Import ListNotations.
Require Import MD.Neigh.Model MD.Neigh.Arith MD.Neigh.NeighborsProofs MD.Neigh.NlistProofs MD.Neigh.Complete2 MD.Neigh.Bins.
Open Scope Z_scope.

(* ---------------------------------------------------------------- std::sort *)
Definition xle (a b : nat * vec) : Prop := ent_x a <= ent_x b.

Lemma ins_entry_perm e l : Permutation (e :: l) (ins_entry e l).
Proof.
  induction l as [|a l IH]; cbn [ins_entry]; [reflexivity|].
  destruct (ent_ltb a e); [|reflexivity].
  etransitivity; [apply perm_swap|]. now apply perm_skip.
Qed.

Lemma sort_bin_perm l : Permutation l (sort_bin l).
Proof.
  induction l as [|a l IH]; cbn [sort_bin fold_right]; [constructor|].
  etransitivity; [apply perm_skip, IH|apply ins_entry_perm].
Qed.

Lemma ins_entry_sorted e l : StronglySorted xle l -> StronglySorted xle (ins_entry e l).
Proof.
  induction 1 as [|a l Hl IH Hf]; cbn [ins_entry].
  - constructor; constructor.
  - destruct (ent_ltb a e) eqn:E.
    + constructor; [exact IH|]. rewrite Forall_forall. intros z Hz.
      apply (Permutation_in _ (Permutation_sym (ins_entry_perm e l))) in Hz. destruct Hz as [<-|Hz].
      * unfold xle, ent_ltb in *. lia.
      * rewrite Forall_forall in Hf. now apply Hf.
    + constructor; [now constructor|]. constructor.
      * unfold xle, ent_ltb in *. lia.
      * rewrite Forall_forall in *. intros z Hz. specialize (Hf z Hz). unfold xle, ent_ltb in *. lia.
Qed.

Lemma sort_bin_sorted l : StronglySorted xle (sort_bin l).
Proof. induction l as [|a l IH]; cbn [sort_bin fold_right]; [constructor|]. now apply ins_entry_sorted. Qed.

Lemma sorted_nth l : StronglySorted xle l ->
  forall i j, (i <= j < length l)%nat -> ent_x (nth i l ent0) <= ent_x (nth j l ent0).
Proof.
  induction 1 as [|a l Hl IH Hf]; intros i j Hij; cbn [length] in Hij; [lia|].
  destruct i as [|i], j as [|j]; cbn [nth]; try lia.
  - rewrite Forall_forall in Hf. apply Hf. apply nth_In. lia.
  - apply IH. lia.
Qed.

(* ---------------------------------------------------------------- monotone predicates on a sorted bin *)
Definition down_closed (f : Z -> bool) : Prop := forall x y, x <= y -> f y = true -> f x = true.
Definition up_closed (f : Z -> bool) : Prop := forall x y, x <= y -> f x = true -> f y = true.

Lemma prefix_exists f l : StronglySorted xle l -> down_closed f ->
  exists k, (k <= length l)%nat /\ forall i, (i < length l)%nat -> f (ent_x (nth i l ent0)) = (i <? k)%nat.
Proof.
  intros Hs Hd. induction Hs as [|a l Hl IH Hf].
  - exists 0%nat. split; [cbn; lia|]. cbn. intros i Hi. lia.
  - destruct (f (ent_x a)) eqn:Ea.
    + destruct IH as (k & Hk & Hi). exists (S k). split; [cbn [length]; lia|].
      intros [|i] Hlt; cbn [nth]; [exact Ea|]. cbn [length] in Hlt. rewrite Hi by lia. reflexivity.
    + exists 0%nat. split; [lia|]. intros [|i] Hlt; cbn [nth]; [exact Ea|].
      cbn [length] in Hlt. destruct (f (ent_x (nth i l ent0))) eqn:E; [|reflexivity].
      rewrite Forall_forall in Hf. assert (Hx : xle a (nth i l ent0)) by (apply Hf, nth_In; lia).
      rewrite (Hd _ _ Hx E) in Ea. discriminate.
Qed.

Lemma suffix_exists f l : StronglySorted xle l -> up_closed f ->
  exists k, (k <= length l)%nat /\ forall i, (i < length l)%nat -> f (ent_x (nth i l ent0)) = (k <=? i)%nat.
Proof.
  intros Hs Hu. destruct (prefix_exists (fun v => negb (f v)) l Hs) as (k & Hk & Hi).
  - intros x y Hxy Hy. destruct (f x) eqn:Ex; [|reflexivity]. rewrite (Hu _ _ Hxy Ex) in Hy. discriminate.
  - exists k. split; [exact Hk|]. intros i Hlt. specialize (Hi i Hlt). cbv beta in Hi.
    destruct (f (ent_x (nth i l ent0))); cbn [negb] in Hi; lia.
Qed.

(* ---------------------------------------------------------------- the binary searches *)
Lemma mid_bounds lo hi : (lo < hi)%nat -> (lo <= (lo + hi) / 2 < hi)%nat.
Proof.
  intros H. split; [apply Nat.div_le_lower_bound; lia|apply Nat.div_lt_upper_bound; lia].
Qed.

(* on a bin where "x < bound" holds exactly for the first k items, findLowerBound(lower, upper) = k clamped *)
Lemma find_lower_spec below bin k :
  (forall i, (i < length bin)%nat -> below (ent_x (nth i bin ent0)) = (i <? k)%nat) ->
  forall fuel lo hi, (lo <= hi <= length bin)%nat -> (hi - lo <= fuel)%nat ->
    find_lower fuel below bin lo hi = Nat.max lo (Nat.min hi k).
Proof.
  intros Hp. induction fuel as [|fuel IH]; intros lo hi H1 H2; cbn [find_lower]; [lia|].
  destruct (Nat.ltb lo hi) eqn:E; [|lia].
  apply Nat.ltb_lt in E. pose proof (mid_bounds lo hi E) as Hm.
  set (m := ((lo + hi) / 2)%nat) in *. rewrite Hp by lia.
  destruct (m <? k)%nat eqn:Em; rewrite IH by lia; lia.
Qed.

(* on a bin where "x > bound" holds exactly from item k on, findUpperBound(lower, upper) = k clamped *)
Lemma find_upper_spec above bin k :
  (forall i, (i < length bin)%nat -> above (ent_x (nth i bin ent0)) = (k <=? i)%nat) ->
  forall fuel lo hi, (lo <= hi <= length bin)%nat -> (hi - lo <= fuel)%nat ->
    find_upper fuel above bin lo hi = Nat.max lo (Nat.min hi k).
Proof.
  intros Hp. induction fuel as [|fuel IH]; intros lo hi H1 H2; cbn [find_upper]; [lia|].
  destruct (Nat.ltb lo hi) eqn:E; [|lia].
  apply Nat.ltb_lt in E. pose proof (mid_bounds lo hi E) as Hm.
  set (m := ((lo + hi) / 2)%nat) in *. rewrite Hp by lia.
  destruct (k <=? m)%nat eqn:Em; rewrite IH by lia; lia.
Qed.

(* ---------------------------------------------------------------- slices *)
Lemma nth_firstn_lt {A} (d : A) n : forall l i, (i < n)%nat -> nth i (firstn n l) d = nth i l d.
Proof.
  induction n as [|n IH]; intros l i Hi; [lia|].
  destruct l as [|a l]; cbn [firstn nth]; [reflexivity|]. destruct i as [|i]; [reflexivity|]. apply IH. lia.
Qed.

Lemma nth_skipn_add {A} (d : A) s : forall l i, nth i (skipn s l) d = nth (s + i) l d.
Proof.
  induction s as [|s IH]; intros l i; cbn [skipn plus]; [reflexivity|].
  destruct l as [|a l]; cbn [nth]; [destruct i; reflexivity|]. apply IH.
Qed.

Lemma slice_length bin s e : (e <= length bin)%nat -> length (slice bin s e) = (e - s)%nat.
Proof. intros H. unfold slice. rewrite firstn_length, skipn_length. lia. Qed.

Lemma slice_nth bin s e i : (i < e - s)%nat -> nth i (slice bin s e) ent0 = nth (s + i) bin ent0.
Proof. intros H. unfold slice. rewrite nth_firstn_lt by exact H. apply nth_skipn_add. Qed.

Lemma in_slice bin s e x : (e <= length bin)%nat ->
  (In x (slice bin s e) <-> exists idx, (s <= idx < e)%nat /\ nth idx bin ent0 = x).
Proof.
  intros He. split.
  - intros H. destruct (In_nth _ _ ent0 H) as (i & Hi & Hx). rewrite slice_length in Hi by exact He.
    rewrite slice_nth in Hx by exact Hi. exists (s + i)%nat. split; [lia|exact Hx].
  - intros (idx & Hidx & Hx). rewrite <- Hx. replace idx with (s + (idx - s))%nat by lia.
    rewrite <- (slice_nth bin s e) by lia. apply nth_In. rewrite slice_length by exact He. lia.
Qed.
