(* C10 -- executable model (definitions only, no proofs) of

     mdtraj/geometry/src/neighbors.cpp      _compute_neighbors      (brute force search)
     mdtraj/geometry/src/neighborlist.cpp   Voxels, _compute_neighborlist (voxel neighbour list)

   Conventions (DESIGN.md 3.1).  Every float32 input of one case is a dyadic rational, so positions,
   box entries and the cutoff are integers in one common unit 2^-k; the model is the kernels' logic in
   exact arithmetic (the float32 rounding inside the kernels is outside the model: the tie compares
   with guard bands).  No square root appears: the x-range of a voxel,
   [centre - sqrt(D), centre + sqrt(D)], is kept as the squared quantity D and every comparison with a
   range end is a squared-distance predicate ([sqle], [sqlt]).  Voxel sizes are rationals
   (box length / number of voxels); all y/z lengths that involve them are carried multiplied by the
   common denominator S = syd*szd.

   The unit cell is the lower-triangular matrix  a=(ax,0,0) b=(bx,by,0) c=(cx,cy,cz)  -- the only form
   Trajectory.unitcell_vectors produces (lengths_and_angles_to_box_vectors), so the only form the two
   kernels can receive through md.compute_neighbors / md.compute_neighborlist. *)
From Coq Require Import ZArith List Bool.
Import ListNotations.
Open Scope Z_scope.

(* ------------------------------------------------------------------ vectors *)
Definition vec := (Z * Z * Z)%type.
Definition vx (v : vec) : Z := fst (fst v).
Definition vy (v : vec) : Z := snd (fst v).
Definition vz (v : vec) : Z := snd v.
Definition vsub (u v : vec) : vec := (vx u - vx v, vy u - vy v, vz u - vz v).
Definition vadd (u v : vec) : vec := (vx u + vx v, vy u + vy v, vz u + vz v).
Definition vscale (k : Z) (v : vec) : vec := (k * vx v, k * vy v, k * vz v).
Definition norm2 (v : vec) : Z := vx v * vx v + vy v * vy v + vz v * vz v.

(* lower-triangular cell: ((ax, bx, by), (cx, cy, cz)) *)
Record box := mkBox { b_ax : Z; b_bx : Z; b_by : Z; b_cx : Z; b_cy : Z; b_cz : Z }.
Definition avec (B : box) : vec := (b_ax B, 0, 0).
Definition bvec (B : box) : vec := (b_bx B, b_by B, 0).
Definition cvec (B : box) : vec := (b_cx B, b_cy B, b_cz B).
(* integer combination of the cell vectors *)
Definition lat (B : box) (k1 k2 k3 : Z) : vec :=
  vadd (vscale k1 (avec B)) (vadd (vscale k2 (bvec B)) (vscale k3 (cvec B))).

(* ------------------------------------------------------------------ roundings (divisor d > 0) *)
(* C roundf(n/d): nearest, ties away from zero *)
Definition rnd_haz (n d : Z) : Z :=
  if 0 <=? n then (2 * n + d) / (2 * d) else - ((2 * (- n) + d) / (2 * d)).
(* fvec4 round() of vectorize_sse.h (_mm_round_ps2): nearest, ties toward zero *)
Definition rnd_htz (n d : Z) : Z :=
  if 0 <=? n then (2 * n + d - 1) / (2 * d) else - ((2 * (- n) + d - 1) / (2 * d)).
(* floorf(n/d + 0.5f) *)
Definition fl_half (n d : Z) : Z := (2 * n + d) / (2 * d).
(* ceil(n/d) *)
Definition cdiv (n d : Z) : Z := - ((- n) / d).

(* "Make sure box vectors are in reduced form": c -= b*roundf(cy/by); c -= a*roundf(cx/ax);
   b -= a*roundf(bx/ax)  (identical in both kernels for a lower-triangular cell) *)
Definition reduce_box (B : box) : box :=
  let k1 := rnd_haz (b_cy B) (b_by B) in
  let cx1 := b_cx B - k1 * b_bx B in
  let cy1 := b_cy B - k1 * b_by B in
  let k2 := rnd_haz cx1 (b_ax B) in
  let cx2 := cx1 - k2 * b_ax B in
  let k3 := rnd_haz (b_bx B) (b_ax B) in
  mkBox (b_ax B) (b_bx B - k3 * b_ax B) (b_by B) cx2 cy1 (b_cz B).

Definition offdiag_nonzero (B : box) : bool :=
  negb (b_bx B =? 0) || negb (b_cx B =? 0) || negb (b_cy B =? 0).

(* delta -= c*r(dz/cz); delta -= b*r(dy/by); delta -= a*r(dx/ax), each using the updated delta *)
Definition wrap_seq (r : Z -> Z -> Z) (B : box) (d : vec) : vec :=
  let d1 := vsub d (vscale (r (vz d) (b_cz B)) (cvec B)) in
  let d2 := vsub d1 (vscale (r (vy d1) (b_by B)) (bvec B)) in
  vsub d2 (vscale (r (vx d2) (b_ax B)) (avec B)).
(* delta -= round(delta*inv_box_size)*box_size, componentwise on the diagonal *)
Definition wrap_diag (B : box) (d : vec) : vec :=
  (vx d - rnd_htz (vx d) (b_ax B) * b_ax B,
   vy d - rnd_htz (vy d) (b_by B) * b_by B,
   vz d - rnd_htz (vz d) (b_cz B) * b_cz B).

Definition pos (xyz : list vec) (i : nat) : vec := nth i xyz (0, 0, 0).

(* a cutoff given as the rational cn/cd (cd > 0): d2 < (cn/cd)^2.  The kernels' own value has cd = 1;
   the correspondence also evaluates the model at cutoff -/+ 1e-5 (the property's exclusion band). *)
Definition lt_cut (d2 cn cd : Z) : bool := d2 * (cd * cd) <? cn * cn.
Definition le_cut (d2 cn cd : Z) : bool := d2 * (cd * cd) <=? cn * cn.

(* =================================================================== neighbors.cpp *)
(* displacement haystack atom - query atom as the kernel wraps it.  `triclinic` is decided on the box
   as passed in; the wrap uses the reduced vectors and the diagonal of the original box. *)
Definition nb_delta (cell : option box) (p1 p2 : vec) : vec :=
  let d := vsub p1 p2 in
  match cell with
  | None => d
  | Some B => if offdiag_nonzero B then wrap_seq rnd_haz (reduce_box B) d else wrap_diag B d
  end.

(* an atom index together with its position (frame_xyz[3*i..3*i+2]) *)
Notation entry := (nat * vec)%type (only parsing).
Definition entries (xyz : list vec) (idx : list nat) : list entry := map (fun i => (i, pos xyz i)) idx.

(* inner loop over the query atoms with its `continue` (same atom) and `break` (first hit) *)
Fixpoint hit_any (cell : option box) (cn cd : Z) (h : entry) (qs : list entry) : bool :=
  match qs with
  | [] => false
  | q :: qs' =>
      if Nat.eqb (fst h) (fst q) then hit_any cell cn cd h qs'
      else if lt_cut (norm2 (nb_delta cell (snd h) (snd q))) cn cd then true
      else hit_any cell cn cd h qs'
  end.

(* outer loop over the haystack: result.push_back(i) *)
Definition neighbors_frame (cell : option box) (cn cd : Z) (xyz : list vec) (query hay : list nat) : list nat :=
  let qs := entries xyz query in
  fold_left (fun acc h => if hit_any cell cn cd h qs then acc ++ [fst h] else acc) (entries xyz hay) [].

(* neighbors.pyx: indices are validated first (ValueError = None) *)
Definition indices_ok (n : nat) (l : list nat) : bool := forallb (fun i => Nat.ltb i n) l.
Definition compute_neighbors (cell : option box) (cn cd : Z) (xyz : list vec) (query hay : list nat)
  : option (list nat) :=
  if indices_ok (length xyz) query && indices_ok (length xyz) hay
  then Some (neighbors_frame cell cn cd xyz query hay) else None.

(* =================================================================== neighborlist.cpp *)
(* The voxel grid built by _compute_neighborlist + Voxels::Voxels.
   g_box: reduced cell (unused when not periodic); voxel sizes are the rationals syn/syd, szn/szd. *)
Record vgrid := mkGrid {
  g_per : bool; g_tric : bool; g_box : box;
  g_ny : Z; g_nz : Z;
  g_syn : Z; g_syd : Z; g_szn : Z; g_szd : Z;
  g_miny : Z; g_minz : Z;
  g_fully : bool      (* second repair (triclinic cell with fewer than 5 z voxels): scan every y voxel *) }.

Definition zmin_list (d : Z) (l : list Z) : Z := fold_left Z.min l d.
Definition zmax_list (d : Z) (l : list Z) : Z := fold_left Z.max l d.

(* periodic: edge = 0.6f*L/floorf(L/c), n = max(1, floorf(L/edge + 0.5f)): in exact arithmetic
   n = max(1, floor(5k/3 + 1/2)) with k = floor(L/c); the fractional part of 5k/3 + 1/2 is 1/6, 1/2 or 5/6,
   so float32 rounding cannot change it.  non-periodic: edge = c, n = max(1, floorf(span/c + 0.5f)). *)
Definition nvox_per (L c : Z) : Z := Z.max 1 ((10 * (L / c) + 3) / 6).
Definition nvox_open (span c : Z) : Z := Z.max 1 (fl_half span c).

Definition make_grid_gen (fully : bool) (cell : option box) (c : Z) (xyz : list vec) : vgrid :=
  match cell with
  | Some B0 =>
      let B := reduce_box B0 in
      let ny := nvox_per (b_by B) c in
      let nz := nvox_per (b_cz B) c in
      mkGrid true (offdiag_nonzero B) B ny nz (b_by B) ny (b_cz B) nz 0 0 fully
  | None =>
      let p0 := pos xyz 0 in
      let miny := zmin_list (vy p0) (map vy xyz) in
      let maxy := zmax_list (vy p0) (map vy xyz) in
      let minz := zmin_list (vz p0) (map vz xyz) in
      let maxz := zmax_list (vz p0) (map vz xyz) in
      let ny := nvox_open (maxy - miny) c in
      let nz := nvox_open (maxz - minz) c in
      mkGrid false false (mkBox 0 0 0 0 0 0) ny nz
             (if miny <? maxy then maxy - miny else c) (if miny <? maxy then ny else 1)
             (if minz <? maxz then maxz - minz else c) (if minz <? maxz then nz else 1)
             miny minz fully
  end.
Notation make_grid := (make_grid_gen false).

Definition clampZ (lo hi v : Z) : Z := Z.max lo (Z.min hi v).

(* Voxels::getVoxelIndex.  NB the y wrap subtracts periodicBoxVectors[1][0] (= bx), as the code does. *)
Definition vox_index (g : vgrid) (p : vec) : Z * Z :=
  let B := g_box g in
  let yz :=
    if g_per g then
      let s2 := vz p / b_cz B in
      let yp := vy p - b_cy B * s2 in
      let zp := vz p - b_cz B * s2 in
      let s1 := yp / b_by B in
      (yp - b_bx B * s1, zp)
    else (vy p - g_miny g, vz p - g_minz g) in
  (clampZ 0 (g_ny g - 1) (fst yz * g_syd g / g_syn g),
   clampZ 0 (g_nz g - 1) (snd yz * g_szd g / g_szn g)).

(* lo..hi inclusive *)
Definition zrange (lo hi : Z) : list Z :=
  map (fun k => lo + Z.of_nat k) (seq 0 (Z.to_nat (hi - lo + 1))).

Definition wrap1 (n y : Z) : Z := if y <? 0 then y + n else if n <=? y then y - n else y.

(* dIndex = int(maxDistance/voxelSize)+1, capped by n/2 when periodic *)
Definition dindex (per : bool) (c sn sd n : Z) : Z :=
  let d := c * sd / sn + 1 in if per then Z.min (n / 2) d else d.

Definition zwindow (g : vgrid) (c vzi : Z) : list Z :=
  let d := dindex (g_per g) c (g_szn g) (g_szd g) (g_nz g) in
  let s := vzi - d in
  let e := vzi + d in
  if g_per g then zrange s (Z.min e (s + g_nz g - 1))
  else zrange (Z.max s 0) (Z.min e (g_nz g - 1)).

(* yoffset = boxz*c_y with boxz = floor(z/nz) *)
Definition yoffset (g : vgrid) (z : Z) : Z := if g_per g then (z / g_nz g) * b_cy (g_box g) else 0.

Definition ywindow (g : vgrid) (c vyi z : Z) : list Z :=
  let d := dindex (g_per g) c (g_syn g) (g_syd g) (g_ny g) in
  let s := vyi - d in
  let e := vyi + d in
  if g_per g then
    if g_fully g && g_tric g && (g_nz g <? 5) then zrange 0 (g_ny g - 1)
    else
    let yo := yoffset g z in
    let s' := s - cdiv (yo * g_syd g) (g_syn g) in
    let e' := e - (yo * g_syd g) / (g_syn g) in
    zrange s' (Z.min e' (s' + g_ny g - 1))
  else zrange (Z.max s 0) (Z.min e (g_ny g - 1)).

(* The x-range of one voxel for one centre atom:
     minx = min(px, lo - sqrt(D)), maxx = max(px, hi + sqrt(D))  when D > 0, else the voxel is skipped.
   r_D is D multiplied by S^2 (S = syd*szd). *)
Record vrange := mkRange { r_skip : bool; r_lo : Z; r_hi : Z; r_D : Z; r_needp : bool }.

Definition gS (g : vgrid) : Z := g_syd g * g_szd g.
Definition gSY (g : vgrid) : Z := g_syn g * g_szd g.   (* voxelSizeY * S *)
Definition gSZ (g : vgrid) : Z := g_szn g * g_syd g.   (* voxelSizeZ * S *)

(* t <= sqrt(D/S^2), t < sqrt(D/S^2)   (D >= 0) *)
Definition sqle (S2 D t : Z) : bool := (t <=? 0) || (t * t * S2 <=? D).
Definition sqlt (S2 D t : Z) : bool := (t <? 0) || (t * t * S2 <? D).

Definition ge_minx (S2 : Z) (px : Z) (r : vrange) (x : Z) : bool := (px <=? x) || sqle S2 (r_D r) (r_lo r - x).
Definition le_maxx (S2 : Z) (px : Z) (r : vrange) (x : Z) : bool := (x <=? px) || sqle S2 (r_D r) (x - r_hi r).

(* S-scaled wrap used on voxel corners in the triclinic branch: x is in plain units, y and z are
   multiplied by S; floorf(.*recip + 0.5f) successive wrap *)
Definition wrapS (B : box) (S : Z) (d : vec) : vec :=
  let k2 := fl_half (vz d) (b_cz B * S) in
  let d1 := (vx d - k2 * b_cx B, vy d - k2 * (b_cy B * S), vz d - k2 * (b_cz B * S)) in
  let k1 := fl_half (vy d1) (b_by B * S) in
  let d2 := (vx d1 - k1 * b_bx B, vy d1 - k1 * (b_by B * S), vz d1) in
  let k0 := fl_half (vx d2) (b_ax B) in
  (vx d2 - k0 * b_ax B, vy d2, vz d2).

Definition zero_y (d : vec) : vec := (vx d, 0, vz d).
Definition zero_z (d : vec) : vec := (vx d, vy d, 0).
Definition min4 (a b c d : Z) : Z := Z.min (Z.min (Z.min a b) c) d.
Definition max4 (a b c d : Z) : Z := Z.max (Z.max (Z.max a b) c) d.

(* geometry of voxel (y,z) (loop values, before the periodic wrap of the index) seen from centre p
   sitting in voxel (vyi,vzi): lo, hi, D and needPeriodic *)
Definition vox_range (g : vgrid) (c : Z) (p : vec) (vyi vzi y z : Z) : vrange :=
  let B := g_box g in
  let S := gS g in
  let SY := gSY g in
  let SZ := gSZ g in
  let S2 := S * S in
  let px := vx p in
  let mk (lo hi D : Z) :=
    if 0 <? D then
      (* minx == maxx  <->  lo - dist >= px and hi + dist <= px *)
      let skip := negb (sqlt S2 D (lo - px)) && negb (sqlt S2 D (px - hi)) in
      let needp := g_per g &&
        ((vy p <? c) || (b_by B - c <? vy p) || (vz p <? c) || (b_cz B - c <? vz p) ||
         (px <? 0) || sqlt S2 D lo || (b_ax B <? px) || sqlt S2 D (b_ax B - hi)) in
      mkRange skip lo hi D needp
    else mkRange true px px 0 false in
  if g_per g && g_tric g then
    let wy := wrap1 (g_ny g) y in
    let wz := wrap1 (g_nz g) z in
    let e1 := (0, SY * wy - vy p * S, SZ * wz - vz p * S) in
    let e2 := (0, vy e1 + SY, vz e1) in
    let e3 := (0, vy e1, vz e1 + SZ) in
    let e4 := (0, vy e1 + SY, vz e1 + SZ) in
    let d1 := wrapS B S e1 in
    let d2 := wrapS B S e2 in
    let d3 := wrapS B S e3 in
    let d4 := wrapS B S e4 in
    let d1 := if (vy d1 <? 0) && (0 <? vy d1 + SY) then zero_y d1 else d1 in
    let d1 := if (vz d1 <? 0) && (0 <? vz d1 + SZ) then zero_z d1 else d1 in
    let d3 := if (vy d3 <? 0) && (0 <? vy d3 + SY) then zero_y d3 else d3 in
    let d2 := if (vz d2 <? 0) && (0 <? vz d2 + SZ) then zero_z d2 else d2 in
    let dy := if wy =? vyi then 0 else min4 (Z.abs (vy d1)) (Z.abs (vy d2)) (Z.abs (vy d3)) (Z.abs (vy d4)) in
    let dz := if wz =? vzi then 0 else min4 (Z.abs (vz d1)) (Z.abs (vz d2)) (Z.abs (vz d3)) (Z.abs (vz d4)) in
    let D := c * c * S2 - dy * dy - dz * dz in
    mk (px - max4 (vx d1) (vx d2) (vx d3) (vx d4)) (px - min4 (vx d1) (vx d2) (vx d3) (vx d4)) D
  else
    let yo := yoffset g z in
    (* xoffset = boxy*b_x + boxz*c_x: zero here, because this branch is only reached with a periodic cell
       when b_x = c_x = c_y = 0 *)
    let xo := if g_per g then (y / g_ny g) * b_bx B + (z / g_nz g) * b_cx B else 0 in
    let e1y := (g_miny g - yo - vy p) * S + SY * y in
    let e1z := (g_minz g - vz p) * S + SZ * z in
    let w (e L : Z) := if g_per g then e - rnd_htz e (L * S) * (L * S) else e in
    let dy := if y =? vyi then 0 else Z.min (Z.abs (w e1y (b_by B))) (Z.abs (w (e1y + SY) (b_by B))) in
    let dz := if z =? vzi then 0 else Z.min (Z.abs (w e1z (b_cz B))) (Z.abs (w (e1z + SZ) (b_cz B))) in
    let D := c * c * S2 - dy * dy - dz * dz in
    mk (px - xo) (px - xo) D.

(* A bin holds (atom index, position) pairs -- the C++ bins hold (x, index) and read the rest of the
   position from atomLocations[3*index].
   Atoms of one bin that fall into the one or two index ranges of getNeighbors.  The bin is sorted on x,
   findLowerBound/findUpperBound are binary searches, so the ranges are these sets:
     range 0: minx <= x <= maxx;  if needPeriodic and not (some x < minx and some x > maxx):
     range 1: (some x < minx) ? { x < minx, x <= maxx - ax } : { x > maxx, x >= minx + ax }        *)
(* rangeStart[0] > 0 (some x < minx) and rangeEnd[0] < binSize (some x > maxx): computed once per bin *)
Definition has_below (g : vgrid) (px : Z) (r : vrange) (bin : list entry) : bool :=
  existsb (fun e => negb (ge_minx (gS g * gS g) px r (vx (snd e)))) bin.
Definition has_above (g : vgrid) (px : Z) (r : vrange) (bin : list entry) : bool :=
  existsb (fun e => negb (le_maxx (gS g * gS g) px r (vx (snd e)))) bin.
Definition in_ranges (g : vgrid) (px : Z) (r : vrange) (below above : bool) (xj : Z) : bool :=
  let S2 := gS g * gS g in
  let ax := b_ax (g_box g) in
  let ge x := ge_minx S2 px r x in
  let le x := le_maxx S2 px r x in
  if ge xj && le xj then true
  else if r_needp r then
    (if below then (if above then false else negb (ge xj) && le (xj + ax))
     else negb (le xj) && ge (xj - ax))
  else false.

(* the final distance test: raw displacement, or wrapped when needPeriodic *)
Definition dist_ok (g : vgrid) (c : Z) (p : vec) (r : vrange) (q : vec) : bool :=
  let d := vsub q p in
  let d' := if r_needp r then (if g_tric g then wrap_seq fl_half (g_box g) d else wrap_diag (g_box g) d) else d in
  norm2 d' <=? c * c.

(* one bin entry is reported iff it lies in one of the index ranges, "if (index >= atomIndex) continue",
   and it passes the distance test.  (Written with `if` so that evaluation is lazy; it is the conjunction.) *)
Definition cand_ok (g : vgrid) (c : Z) (i : nat) (p : vec) (r : vrange) (below above : bool) (e : entry) : bool :=
  if in_ranges g (vx p) r below above (vx (snd e)) then
    if Nat.ltb (fst e) i then dist_ok g c p r (snd e) else false
  else false.

(* Voxels::getNeighbors for atom i at p; [bins wy wz] = the atoms inserted into voxel (wy,wz) *)
Definition half_list (g : vgrid) (c : Z) (bins : Z -> Z -> list entry) (i : nat) (p : vec) : list nat :=
  let v := vox_index g p in
  flat_map (fun z =>
    flat_map (fun y =>
      let r := vox_range g c p (fst v) (snd v) y z in
      if r_skip r then []
      else
        let wy := if g_per g then wrap1 (g_ny g) y else y in
        let wz := if g_per g then wrap1 (g_nz g) z else z in
        let bin := bins wy wz in
        let below := has_below g (vx p) r bin in
        let above := has_above g (vx p) r bin in
        map fst (filter (cand_ok g c i p r below above) bin))
      (ywindow g c (fst v) z))
    (zwindow g c (snd v)).

(* the bins: voxels.insert(i, ...) for every atom.  Kept sparse (only occupied voxels), two levels:
   wy -> wz -> entries, so that a case with very many empty voxels stays cheap to evaluate. *)
Definition atoms_of (xyz : list vec) : list entry := combine (seq 0 (length xyz)) xyz.
Definition bin_atoms (g : vgrid) (es : list entry) (wy wz : Z) : list entry :=
  filter (fun e => let v := vox_index g (snd e) in (fst v =? wy) && (snd v =? wz)) es.
Definition bin_table (g : vgrid) (es : list entry) : list (Z * list (Z * list entry)) :=
  let ves := map (fun e => (vox_index g (snd e), e)) es in
  map (fun wy =>
         let slab := filter (fun ve => fst (fst ve) =? wy) ves in
         (wy, map (fun wz => (wz, map snd (filter (fun ve => snd (fst ve) =? wz) slab)))
                  (nodup Z.eq_dec (map (fun ve => snd (fst ve)) slab))))
      (nodup Z.eq_dec (map (fun ve => fst (fst ve)) ves)).
Definition assoc {A} (k : Z) (l : list (Z * list A)) : list A :=
  match find (fun kv => fst kv =? k) l with Some kv => snd kv | None => [] end.
Definition bin_lookup (tbl : list (Z * list (Z * list entry))) (wy wz : Z) : list entry :=
  assoc wz (assoc wy tbl).

(* neighbors[i] before "Add in the symmetric entries": for every atom the neighbours with a smaller index *)
Definition nlist_half_gen (fully : bool) (cell : option box) (c : Z) (xyz : list vec) : list (list nat) :=
  let g := make_grid_gen fully cell c xyz in
  let es := atoms_of xyz in
  let tbl := bin_table g es in
  map (fun e => half_list g c (bin_lookup tbl) (fst e) (snd e)) es.

Notation nlist_half := (nlist_half_gen false).

(* symmetric completion: neighbors[neighbors[i][j]].push_back(i) for i ascending *)
Definition complete (H : list (list nat)) : list (list nat) :=
  map (fun i => nth i H [] ++ filter (fun k => existsb (Nat.eqb i) (nth k H [])) (seq 0 (length H)))
      (seq 0 (length H)).

(* _compute_neighborlist as found *)
Definition nlist_cur (cell : option box) (c : Z) (xyz : list vec) : list (list nat) :=
  complete (nlist_half cell c xyz).

(* minimal repair of the known defect (positions outside the primary cell): bring every position into
   the cell [0,ax) x [0,by) x [0,cz) of the reduced vectors first, the way getVoxelIndex intends to *)
Definition wrap_into_cell (B : box) (p : vec) : vec :=
  let p1 := vsub p (vscale (vz p / b_cz B) (cvec B)) in
  let p2 := vsub p1 (vscale (vy p1 / b_by B) (bvec B)) in
  vsub p2 (vscale (vx p2 / b_ax B) (avec B)).

Definition nlist_half_fix_gen (fully : bool) (cell : option box) (c : Z) (xyz : list vec) : list (list nat) :=
  match cell with
  | Some B => nlist_half_gen fully cell c (map (wrap_into_cell (reduce_box B)) xyz)
  | None => nlist_half_gen fully cell c xyz
  end.
Notation nlist_half_fix := (nlist_half_fix_gen false).
Definition nlist_fix (cell : option box) (c : Z) (xyz : list vec) : list (list nat) :=
  complete (nlist_half_fix cell c xyz).

(* second repair, on top of the first: in a triclinic cell whose z extent holds fewer than 5 voxels one voxel
   can hold neighbours both directly and through the periodic image one cell up/down, and the y window of
   getNeighbors is shifted by the image's c_y; scan all y voxels in that case (Voxels::getNeighbors:
   "if (triclinic && nz < 5) { starty = 0; endy = ny-1; }") *)
Definition nlist_fix2 (cell : option box) (c : Z) (xyz : list vec) : list (list nat) :=
  complete (nlist_half_fix_gen true cell c xyz).
