From Coq Require Import ZArith List Bool Lia ZifyBool Arith.
Import ListNotations.
Require Import MD.Neigh.Model MD.Neigh.Arith.
Open Scope Z_scope.

(* ---------------------------------------------------------------- the search as a filter *)
Definition within (cell : option box) (cn cd : Z) (xyz : list vec) (i j : nat) : bool :=
  lt_cut (norm2 (nb_delta cell (pos xyz i) (pos xyz j))) cn cd.

Lemma hit_any_existsb cell cn cd xyz i qs :
  hit_any cell cn cd (i, pos xyz i) (entries xyz qs) =
  existsb (fun j => negb (Nat.eqb i j) && within cell cn cd xyz i j) qs.
Proof.
  induction qs as [|j qs IH]; [reflexivity|].
  cbn [entries map hit_any existsb fst snd]. fold (entries xyz qs). rewrite IH.
  unfold within. destruct (Nat.eqb i j); cbn [negb andb orb]; [reflexivity|].
  destruct (lt_cut _ _ _); reflexivity.
Qed.

Lemma fold_push_filter {A B} (f : A -> bool) (g : A -> B) l acc :
  fold_left (fun acc h => if f h then acc ++ [g h] else acc) l acc = acc ++ map g (filter f l).
Proof.
  revert acc; induction l as [|x l IH]; intros acc; cbn [fold_left filter map].
  - now rewrite app_nil_r.
  - rewrite IH. destruct (f x); cbn [map]; [now rewrite <- app_assoc|reflexivity].
Qed.

Lemma neighbors_frame_filter cell cn cd xyz query hay :
  neighbors_frame cell cn cd xyz query hay =
  filter (fun i => existsb (fun j => negb (Nat.eqb i j) && within cell cn cd xyz i j) query) hay.
Proof.
  unfold neighbors_frame. rewrite fold_push_filter. cbn [app].
  unfold entries at 2. induction hay as [|i hay IH]; [reflexivity|].
  cbn [map filter fst]. rewrite (hit_any_existsb cell cn cd xyz i query).
  destruct (existsb _ query); cbn [map fst]; now rewrite IH.
Qed.

Lemma NoDup_filter {A} (f : A -> bool) l : NoDup l -> NoDup (filter f l).
Proof.
  induction 1 as [|x l Hx Hl IH]; cbn [filter]; [constructor|].
  destruct (f x); [constructor; [|exact IH]|exact IH].
  intros Hin. apply filter_In in Hin. tauto.
Qed.

Lemma neighbors_nodup cell cn cd xyz query hay :
  NoDup hay -> NoDup (neighbors_frame cell cn cd xyz query hay).
Proof. intros H. rewrite neighbors_frame_filter. now apply NoDup_filter. Qed.

(* ---------------------------------------------------------------- lattice facts *)
Definition box_ok (B : box) : Prop := 0 < b_ax B /\ 0 < b_by B /\ 0 < b_cz B.

Lemma vec_eq (u v : vec) : vx u = vx v -> vy u = vy v -> vz u = vz v -> u = v.
Proof. destruct u as [[a b] c], v as [[a' b'] c']; cbn; intros; subst; reflexivity. Qed.

Lemma reduce_lat B k1 k2 k3 : exists m1 m2 m3, lat (reduce_box B) k1 k2 k3 = lat B m1 m2 m3.
Proof.
  set (r1 := rnd_haz (b_cy B) (b_by B)).
  set (r2 := rnd_haz (b_cx B - r1 * b_bx B) (b_ax B)).
  set (r3 := rnd_haz (b_bx B) (b_ax B)).
  exists (k1 - r3 * k2 - r2 * k3), (k2 - r1 * k3), k3.
  apply vec_eq; unfold lat, reduce_box, vadd, vscale, avec, bvec, cvec, vx, vy, vz; cbn [fst snd b_ax b_bx b_by b_cx b_cy b_cz];
    fold r1; fold r2; fold r3; ring.
Qed.

Lemma lat_reduce B k1 k2 k3 : exists m1 m2 m3, lat B k1 k2 k3 = lat (reduce_box B) m1 m2 m3.
Proof.
  set (r1 := rnd_haz (b_cy B) (b_by B)).
  set (r2 := rnd_haz (b_cx B - r1 * b_bx B) (b_ax B)).
  set (r3 := rnd_haz (b_bx B) (b_ax B)).
  exists (k1 + r3 * (k2 + r1 * k3) + r2 * k3), (k2 + r1 * k3), k3.
  apply vec_eq; unfold lat, reduce_box, vadd, vscale, avec, bvec, cvec, vx, vy, vz; cbn [fst snd b_ax b_bx b_by b_cx b_cy b_cz];
    fold r1; fold r2; fold r3; ring.
Qed.

Lemma reduce_box_ok B : box_ok B -> box_ok (reduce_box B).
Proof. unfold box_ok, reduce_box; cbn; tauto. Qed.

(* the successive wrap subtracts a lattice vector *)
Lemma wrap_seq_lat r B d : exists k1 k2 k3, wrap_seq r B d = vsub d (lat B k1 k2 k3).
Proof.
  unfold wrap_seq.
  set (k3 := r (vz d) (b_cz B)).
  set (d1 := vsub d (vscale k3 (cvec B))).
  set (k2 := r (vy d1) (b_by B)).
  set (d2 := vsub d1 (vscale k2 (bvec B))).
  set (k1 := r (vx d2) (b_ax B)).
  exists k1, k2, k3.
  apply vec_eq; subst d2 d1; unfold lat, vsub, vadd, vscale, avec, bvec, cvec, vx, vy, vz; cbn [fst snd]; ring.
Qed.

Lemma wrap_diag_lat B d : b_bx B = 0 -> b_cx B = 0 -> b_cy B = 0 ->
  exists k1 k2 k3, wrap_diag B d = vsub d (lat B k1 k2 k3).
Proof.
  intros H1 H2 H3. exists (rnd_htz (vx d) (b_ax B)), (rnd_htz (vy d) (b_by B)), (rnd_htz (vz d) (b_cz B)).
  apply vec_eq; unfold wrap_diag, lat, vsub, vadd, vscale, avec, bvec, cvec, vx, vy, vz; cbn [fst snd];
    rewrite ?H1, ?H2, ?H3; ring.
Qed.

(* if some image of d is shorter than c and 2c <= every diagonal entry, the successive wrap with a
   nearest-integer rounding returns exactly that image *)
Lemma sq_lt_abs a b : 0 <= b -> a * a < b * b -> - b < a < b.
Proof. intros; nia. Qed.

Lemma wrap_seq_finds r B d k1 k2 k3 cn cd :
  box_ok B -> 0 < cd -> 0 <= cn ->
  (forall n dd, 0 < dd -> - dd <= 2 * (n - r n dd * dd) <= dd) ->
  2 * cn <= cd * b_ax B -> 2 * cn <= cd * b_by B -> 2 * cn <= cd * b_cz B ->
  norm2 (vsub d (lat B k1 k2 k3)) * (cd * cd) < cn * cn ->
  wrap_seq r B d = vsub d (lat B k1 k2 k3).
Proof.
  intros (Ha & Hb & Hc) Hcd Hcn Hr Lx Ly Lz Hn.
  set (v := vsub d (lat B k1 k2 k3)) in *.
  assert (Hvx : - b_ax B < 2 * vx v < b_ax B).
  { assert ((2 * vx v * cd) * (2 * vx v * cd) < (cd * b_ax B) * (cd * b_ax B)).
    { unfold norm2 in Hn. nia. }
    apply sq_lt_abs in H; nia. }
  assert (Hvy : - b_by B < 2 * vy v < b_by B).
  { assert ((2 * vy v * cd) * (2 * vy v * cd) < (cd * b_by B) * (cd * b_by B)).
    { unfold norm2 in Hn. nia. }
    apply sq_lt_abs in H; nia. }
  assert (Hvz : - b_cz B < 2 * vz v < b_cz B).
  { assert ((2 * vz v * cd) * (2 * vz v * cd) < (cd * b_cz B) * (cd * b_cz B)).
    { unfold norm2 in Hn. nia. }
    apply sq_lt_abs in H; nia. }
  unfold wrap_seq.
  assert (E3 : r (vz d) (b_cz B) = k3).
  { symmetry. apply (nearest_unique (vz d) (b_cz B)); [exact Hc|apply Hr; exact Hc|].
    subst v. unfold vsub, lat, vadd, vscale, avec, bvec, cvec, vx, vy, vz in Hvz; cbn [fst snd] in Hvz.
    unfold vz. lia. }
  rewrite E3.
  set (d1 := vsub d (vscale k3 (cvec B))).
  assert (E2 : r (vy d1) (b_by B) = k2).
  { symmetry. apply (nearest_unique (vy d1) (b_by B)); [exact Hb|apply Hr; exact Hb|].
    subst v d1. unfold vsub, lat, vadd, vscale, avec, bvec, cvec, vx, vy, vz in *; cbn [fst snd] in *. lia. }
  rewrite E2.
  set (d2 := vsub d1 (vscale k2 (bvec B))).
  assert (E1 : r (vx d2) (b_ax B) = k1).
  { symmetry. apply (nearest_unique (vx d2) (b_ax B)); [exact Ha|apply Hr; exact Ha|].
    subst v d2 d1. unfold vsub, lat, vadd, vscale, avec, bvec, cvec, vx, vy, vz in *; cbn [fst snd] in *. lia. }
  rewrite E1.
  apply vec_eq; subst v d2 d1; unfold vsub, lat, vadd, vscale, avec, bvec, cvec, vx, vy, vz; cbn [fst snd]; ring.
Qed.

Lemma offdiag_false B : offdiag_nonzero B = false -> b_bx B = 0 /\ b_cx B = 0 /\ b_cy B = 0.
Proof. unfold offdiag_nonzero. lia. Qed.

Lemma nearest_minimal n d r k : 0 < d -> - d <= 2 * (n - r * d) <= d ->
  (n - r * d) * (n - r * d) <= (n - k * d) * (n - k * d).
Proof.
  intros Hd Hr. destruct (Z.eq_dec k r) as [->|Hne]; [lia|].
  assert (H : k - r <= -1 \/ 1 <= k - r) by lia.
  replace (n - k * d) with ((n - r * d) - (k - r) * d) by ring.
  set (e := n - r * d) in *. set (m := k - r) in *.
  replace ((e - m * d) * (e - m * d)) with (e * e + (m * d) * (m * d - 2 * e)) by ring.
  destruct H as [H|H].
  - assert (m * d <= - d) by nia. assert (0 <= (- (m * d)) * (- (m * d - 2 * e))) by (apply Z.mul_nonneg_nonneg; lia). lia.
  - assert (d <= m * d) by nia. assert (0 <= (m * d) * (m * d - 2 * e)) by (apply Z.mul_nonneg_nonneg; lia). lia.
Qed.

Lemma wrap_diag_minimal B d k1 k2 k3 : box_ok B -> offdiag_nonzero B = false ->
  norm2 (wrap_diag B d) <= norm2 (vsub d (lat B k1 k2 k3)).
Proof.
  intros (Ha & Hb & Hc) Ho. apply offdiag_false in Ho. destruct Ho as (H1 & H2 & H3).
  unfold norm2, wrap_diag, vsub, lat, vadd, vscale, avec, bvec, cvec, vx, vy, vz; cbn [fst snd].
  rewrite H1, H2, H3.
  pose proof (nearest_minimal (fst (fst d)) (b_ax B) _ k1 Ha (rnd_htz_bound _ _ Ha)).
  pose proof (nearest_minimal (snd (fst d)) (b_by B) _ k2 Hb (rnd_htz_bound _ _ Hb)).
  pose proof (nearest_minimal (snd d) (b_cz B) _ k3 Hc (rnd_htz_bound _ _ Hc)).
  replace (fst (fst d) - (k1 * b_ax B + (k2 * 0 + k3 * 0))) with (fst (fst d) - k1 * b_ax B) by ring.
  replace (snd (fst d) - (k1 * 0 + (k2 * b_by B + k3 * 0))) with (snd (fst d) - k2 * b_by B) by ring.
  replace (snd d - (k1 * 0 + (k2 * 0 + k3 * b_cz B))) with (snd d - k3 * b_cz B) by ring.
  lia.
Qed.

(* the displacement the kernel uses is a lattice image of the plain displacement *)
Lemma nb_delta_lat B p1 p2 : exists k1 k2 k3, nb_delta (Some B) p1 p2 = vsub (vsub p1 p2) (lat B k1 k2 k3).
Proof.
  unfold nb_delta. destruct (offdiag_nonzero B) eqn:E.
  - destruct (wrap_seq_lat rnd_haz (reduce_box B) (vsub p1 p2)) as (k1 & k2 & k3 & H).
    destruct (reduce_lat B k1 k2 k3) as (m1 & m2 & m3 & Hm).
    exists m1, m2, m3. now rewrite H, Hm.
  - apply offdiag_false in E. destruct E as (H1 & H2 & H3). now apply wrap_diag_lat.
Qed.

Lemma reduce_diag B : b_ax (reduce_box B) = b_ax B /\ b_by (reduce_box B) = b_by B /\ b_cz (reduce_box B) = b_cz B.
Proof. unfold reduce_box; cbn; tauto. Qed.

Definition half_width_ok (B : box) (cn cd : Z) : Prop :=
  2 * cn <= cd * b_ax B /\ 2 * cn <= cd * b_by B /\ 2 * cn <= cd * b_cz B.

(* under cutoff <= half of every diagonal entry of the cell (implied by cutoff <= half the shortest
   cell width, since each width is at most the matching diagonal entry) the kernel's wrapped
   distance is below the cutoff exactly when the minimum-image distance is *)
Lemma nb_within_iff_mic B cn cd p1 p2 :
  box_ok B -> 0 < cd -> 0 <= cn -> half_width_ok B cn cd ->
  lt_cut (norm2 (nb_delta (Some B) p1 p2)) cn cd = true <->
  exists k1 k2 k3, lt_cut (norm2 (vsub (vsub p1 p2) (lat B k1 k2 k3))) cn cd = true.
Proof.
  intros HB Hcd Hcn (Lx & Ly & Lz). split.
  - intros H. destruct (nb_delta_lat B p1 p2) as (k1 & k2 & k3 & E). exists k1, k2, k3. now rewrite <- E.
  - intros (k1 & k2 & k3 & H). unfold lt_cut in H. apply Z.ltb_lt in H.
    unfold nb_delta. destruct (offdiag_nonzero B) eqn:E.
    + destruct (lat_reduce B k1 k2 k3) as (m1 & m2 & m3 & Hm). rewrite Hm in H.
      destruct (reduce_diag B) as (Ea & Eb & Ec).
      assert (W : wrap_seq rnd_haz (reduce_box B) (vsub p1 p2) = vsub (vsub p1 p2) (lat (reduce_box B) m1 m2 m3)).
      { apply (wrap_seq_finds rnd_haz (reduce_box B) (vsub p1 p2) m1 m2 m3 cn cd).
        - now apply reduce_box_ok.
        - exact Hcd.
        - exact Hcn.
        - intros n dd Hdd. now apply rnd_haz_bound.
        - now rewrite Ea.
        - now rewrite Eb.
        - now rewrite Ec.
        - exact H. }
      rewrite W. unfold lt_cut. now apply Z.ltb_lt.
    + unfold lt_cut. apply Z.ltb_lt.
      pose proof (wrap_diag_minimal B (vsub p1 p2) k1 k2 k3 HB E).
      assert (0 < cd * cd) by nia. nia.
Qed.

(* ---------------------------------------------------------------- statements used by Props/C10.v *)
Lemma in_neighbors_iff cell cn cd xyz query hay i :
  In i (neighbors_frame cell cn cd xyz query hay) <->
  In i hay /\ exists j, In j query /\ j <> i /\ within cell cn cd xyz i j = true.
Proof.
  rewrite neighbors_frame_filter, filter_In, existsb_exists. split.
  - intros (Hi & j & Hj & Hb). split; [exact Hi|]. exists j. split; [exact Hj|].
    apply andb_true_iff in Hb. destruct Hb as (Hne & Hw). split; [|exact Hw].
    intros ->. rewrite Nat.eqb_refl in Hne. discriminate.
  - intros (Hi & j & Hj & Hne & Hw). split; [exact Hi|]. exists j. split; [exact Hj|].
    apply andb_true_iff. split; [|exact Hw].
    apply negb_true_iff, Nat.eqb_neq. congruence.
Qed.

Lemma neighbors_mic_char B cn cd xyz query hay i :
  box_ok B -> 0 < cd -> 0 <= cn -> half_width_ok B cn cd ->
  (In i (neighbors_frame (Some B) cn cd xyz query hay) <->
   In i hay /\ exists j, In j query /\ j <> i /\
     exists k1 k2 k3, norm2 (vsub (vsub (pos xyz i) (pos xyz j)) (lat B k1 k2 k3)) * (cd * cd) < cn * cn).
Proof.
  intros HB Hcd Hcn HW. rewrite in_neighbors_iff. unfold within.
  split; intros (Hi & j & Hj & Hne & H); (split; [exact Hi|]); exists j; (split; [exact Hj|]); (split; [exact Hne|]).
  - apply (nb_within_iff_mic B cn cd _ _ HB Hcd Hcn HW) in H. destruct H as (k1 & k2 & k3 & H).
    exists k1, k2, k3. unfold lt_cut in H. now apply Z.ltb_lt in H.
  - apply (nb_within_iff_mic B cn cd _ _ HB Hcd Hcn HW). destruct H as (k1 & k2 & k3 & H).
    exists k1, k2, k3. unfold lt_cut. now apply Z.ltb_lt.
Qed.

(* orthorhombic cell: minimum image for every cutoff (no half-width restriction) *)
Lemma neighbors_ortho_char B cn cd xyz query hay i :
  box_ok B -> offdiag_nonzero B = false -> 0 < cd ->
  (In i (neighbors_frame (Some B) cn cd xyz query hay) <->
   In i hay /\ exists j, In j query /\ j <> i /\
     exists k1 k2 k3, norm2 (vsub (vsub (pos xyz i) (pos xyz j)) (lat B k1 k2 k3)) * (cd * cd) < cn * cn).
Proof.
  intros HB Ho Hcd. rewrite in_neighbors_iff. unfold within.
  split; intros (Hi & j & Hj & Hne & H); (split; [exact Hi|]); exists j; (split; [exact Hj|]); (split; [exact Hne|]).
  - destruct (nb_delta_lat B (pos xyz i) (pos xyz j)) as (k1 & k2 & k3 & E). exists k1, k2, k3.
    rewrite <- E. unfold lt_cut in H. now apply Z.ltb_lt in H.
  - destruct H as (k1 & k2 & k3 & H). unfold nb_delta. rewrite Ho. unfold lt_cut. apply Z.ltb_lt.
    pose proof (wrap_diag_minimal B (vsub (pos xyz i) (pos xyz j)) k1 k2 k3 HB Ho).
    assert (0 < cd * cd) by nia. nia.
Qed.

Lemma neighbors_nocell_char cn cd xyz query hay i :
  In i (neighbors_frame None cn cd xyz query hay) <->
  In i hay /\ exists j, In j query /\ j <> i /\
     norm2 (vsub (pos xyz i) (pos xyz j)) * (cd * cd) < cn * cn.
Proof.
  rewrite in_neighbors_iff. unfold within, nb_delta, lt_cut.
  split; intros (Hi & j & Hj & Hne & H); (split; [exact Hi|]); exists j; (split; [exact Hj|]); (split; [exact Hne|]).
  - now apply Z.ltb_lt in H.
  - now apply Z.ltb_lt.
Qed.

Lemma forallb_ltb n l : forallb (fun i => Nat.ltb i n) l = true <-> (forall i, In i l -> (i < n)%nat).
Proof. rewrite forallb_forall. split; intros H i Hi; specialize (H i Hi); now apply Nat.ltb_lt. Qed.

(* the Python wrapper: a result exactly when every index is valid, otherwise ValueError *)
Lemma compute_neighbors_some cell cn cd xyz query hay :
  (forall i, In i (query ++ hay) -> (i < length xyz)%nat) ->
  compute_neighbors cell cn cd xyz query hay = Some (neighbors_frame cell cn cd xyz query hay).
Proof.
  intros H. unfold compute_neighbors, indices_ok.
  assert (H1 : forallb (fun i => Nat.ltb i (length xyz)) query = true).
  { apply forallb_ltb. intros i Hi. apply H, in_or_app. now left. }
  assert (H2 : forallb (fun i => Nat.ltb i (length xyz)) hay = true).
  { apply forallb_ltb. intros i Hi. apply H, in_or_app. now right. }
  now rewrite H1, H2.
Qed.

Lemma compute_neighbors_none cell cn cd xyz query hay i :
  In i (query ++ hay) -> (length xyz <= i)%nat ->
  compute_neighbors cell cn cd xyz query hay = None.
Proof.
  intros Hi Hn. unfold compute_neighbors, indices_ok.
  destruct (forallb _ query) eqn:E1; [|reflexivity].
  destruct (forallb _ hay) eqn:E2; [|reflexivity].
  exfalso. apply in_app_or in Hi. destruct Hi as [Hi|Hi].
  - apply forallb_ltb with (i := i) in E1; [lia|exact Hi].
  - apply forallb_ltb with (i := i) in E2; [lia|exact Hi].
Qed.

Lemma neighbors_spec_both cell cn cd xyz query hay :
  neighbors_frame cell cn cd xyz query hay =
    filter (fun i => existsb (fun j => negb (Nat.eqb i j) && within cell cn cd xyz i j) query) hay
  /\ (NoDup hay -> NoDup (neighbors_frame cell cn cd xyz query hay)).
Proof. split; [apply neighbors_frame_filter|apply neighbors_nodup]. Qed.
