From Coq Require Import ZArith List Bool Lia ZifyBool.
Import ListNotations.
Require Import MD.Neigh.Model.
Open Scope Z_scope.

Lemma div_bounds n d : 0 < d -> d * (n / d) <= n < d * (n / d) + d.
Proof. intros Hd. pose proof (Z.mul_div_le n d Hd). pose proof (Z.mul_succ_div_gt n d Hd). lia. Qed.

Lemma rnd_haz_bound n d : 0 < d -> - d <= 2 * (n - rnd_haz n d * d) <= d.
Proof.
  intros Hd. unfold rnd_haz. destruct (0 <=? n) eqn:E.
  - pose proof (div_bounds (2*n+d) (2*d) ltac:(lia)). lia.
  - pose proof (div_bounds (2*(-n)+d) (2*d) ltac:(lia)). lia.
Qed.

Lemma rnd_htz_bound n d : 0 < d -> - d <= 2 * (n - rnd_htz n d * d) <= d.
Proof.
  intros Hd. unfold rnd_htz. destruct (0 <=? n) eqn:E.
  - pose proof (div_bounds (2*n+d-1) (2*d) ltac:(lia)). lia.
  - pose proof (div_bounds (2*(-n)+d-1) (2*d) ltac:(lia)). lia.
Qed.

Lemma fl_half_bound n d : 0 < d -> - d <= 2 * (n - fl_half n d * d) < d.
Proof.
  intros Hd. unfold fl_half. pose proof (div_bounds (2*n+d) (2*d) ltac:(lia)). lia.
Qed.

(* a nearest integer is unique strictly inside the half-open cell *)
Lemma nearest_unique n d k r : 0 < d -> - d <= 2 * (n - r * d) <= d -> - d < 2 * (n - k * d) < d -> k = r.
Proof. intros Hd Hr Hk. nia. Qed.
