From Coq Require Import ZArith List Bool Lia ZifyBool Arith.
Import ListNotations.
Require Import MD.Neigh.Model MD.Neigh.Arith MD.Neigh.NeighborsProofs MD.Neigh.NlistProofs.
Open Scope Z_scope.

(* ---------------------------------------------------------------- one-dimensional facts *)
Lemma abs_sq_le a b : Z.abs a <= b -> a * a <= b * b.
Proof. intros. nia. Qed.

Lemma sq_lt_sq a b : 0 <= b -> a * a < b * b -> Z.abs a < b.
Proof. intros. nia. Qed.

(* floor of a shifted argument moves by at most floor(|t|/L)+1 *)
Lemma floor_shift L u t : 0 < L -> Z.abs ((u + t) / L - u / L) <= Z.abs t / L + 1.
Proof.
  intros HL.
  pose proof (div_bounds (u + t) L HL). pose proof (div_bounds u L HL).
  pose proof (div_bounds (Z.abs t) L HL).
  set (a := (u + t) / L) in *. set (b := u / L) in *. set (q := Z.abs t / L) in *. nia.
Qed.

Lemma div_le_mono_pos a b L : 0 < L -> a <= b -> a / L <= b / L.
Proof. intros. now apply Z.div_le_mono. Qed.

(* the window of the periodic voxel loops contains a representative of the wanted residue *)
Lemma window_has_residue n vi vj d0 m :
  0 < n -> 0 <= vi < n -> 0 <= vj < n -> 1 <= d0 ->
  Z.abs (vj + m * n - vi) <= d0 ->
  let d := Z.min (n / 2) d0 in
  let s := vi - d in
  exists y, s <= y <= Z.min (vi + d) (s + n - 1) /\ wrap1 n y = vj.
Proof.
  intros Hn Hvi Hvj Hd0 Hm d s.
  pose proof (div_bounds n 2 ltac:(lia)) as Hh.
  destruct (Z_le_gt_dec (2 * d0) (n - 1)) as [Hsmall|Hbig].
  - (* untruncated window [vi-d0, vi+d0] *)
    assert (d = d0) by (subst d; lia).
    exists (vj + m * n). split; [subst s; lia|].
    assert (-1 <= m <= 1) by nia.
    unfold wrap1. assert (m = -1 \/ m = 0 \/ m = 1) as [->|[->| ->]] by lia.
    + destruct (vj + -1 * n <? 0) eqn:E; lia.
    + destruct (vj + 0 * n <? 0) eqn:E; [lia|]. destruct (n <=? vj + 0 * n) eqn:E2; lia.
    + destruct (vj + 1 * n <? 0) eqn:E; [lia|]. destruct (n <=? vj + 1 * n) eqn:E2; lia.
  - (* the window is n consecutive integers *)
    assert (Hwin : Z.min (vi + d) (s + n - 1) = s + n - 1) by (subst s d; lia).
    rewrite Hwin.
    assert (Hs : - n <= s <= n - 1) by (subst s d; lia).
    assert (exists y, s <= y <= s + n - 1 /\ (y = vj \/ y = vj - n \/ y = vj + n)) as (y & Hy & Hc).
    { destruct (Z_le_gt_dec s vj).
      - destruct (Z_le_gt_dec vj (s + n - 1)); [exists vj; lia|exists (vj - n); lia].
      - exists (vj + n). lia. }
    exists y. split; [exact Hy|]. unfold wrap1.
    destruct Hc as [->|[->| ->]].
    + destruct (vj <? 0) eqn:E; [lia|]. destruct (n <=? vj) eqn:E2; lia.
    + destruct (vj - n <? 0) eqn:E; lia.
    + destruct (vj + n <? 0) eqn:E; [lia|]. destruct (n <=? vj + n) eqn:E2; lia.
Qed.

Lemma sq_le_abs a b : a * a <= b * b -> Z.abs a <= Z.abs b.
Proof. intros. nia. Qed.

(* nearest representative modulo W is no longer than any other representative *)
Lemma htz_abs_min e W q : 0 < W -> Z.abs (e - rnd_htz e W * W) <= Z.abs (e - q * W).
Proof.
  intros HW. apply sq_le_abs. apply nearest_minimal; [exact HW|]. now apply rnd_htz_bound.
Qed.

(* periodic distance from an atom at py to the voxel holding yj, as getNeighbors computes it (scaled by
   n*m), never exceeds the periodic separation of the two atoms -- unless both sit in the same voxel *)
Lemma dy_bound L n m py yj dlt k q :
  0 < L -> 0 < n -> 0 < m -> 0 <= py < L -> 0 <= yj < L ->
  yj = py + dlt + k * L ->
  py * n / L <> yj * n / L ->
  let vj := yj * n / L in
  let y := vj + q * n in
  let e1 := (- py) * (n * m) + (L * m) * y in
  let W := L * (n * m) in
  Z.min (Z.abs (e1 - rnd_htz e1 W * W)) (Z.abs (e1 + L * m - rnd_htz (e1 + L * m) W * W)) <= Z.abs dlt * (n * m).
Proof.
  intros HL Hn Hm Hpy Hyj Hrel Hne vj y e1 W.
  assert (HW : 0 < W) by (subst W; apply Z.mul_pos_pos; [lia|apply Z.mul_pos_pos; lia]).
  pose proof (div_bounds (yj * n) L HL) as Hvj. fold vj in Hvj.
  pose proof (div_bounds (py * n) L HL) as Hvi.
  set (vi := py * n / L) in *.
  set (r := yj * n - L * vj).
  assert (Hr : 0 <= r < L) by (subst r; lia).
  set (a1 := n * dlt - r).
  assert (E1 : e1 = m * a1 + (k + q) * W).
  { subst e1 W a1 r y. rewrite Hrel. ring. }
  assert (B1 : Z.abs (e1 - rnd_htz e1 W * W) <= Z.abs (m * a1)).
  { pose proof (htz_abs_min e1 W (k + q) HW) as H. rewrite E1 in H at 3.
    replace (m * a1 + (k + q) * W - (k + q) * W) with (m * a1) in H by ring. exact H. }
  assert (B2 : Z.abs (e1 + L * m - rnd_htz (e1 + L * m) W * W) <= Z.abs (m * (a1 + L))).
  { pose proof (htz_abs_min (e1 + L * m) W (k + q) HW) as H. rewrite E1 in H at 3.
    replace (m * a1 + (k + q) * W + L * m - (k + q) * W) with (m * (a1 + L)) in H by ring. exact H. }
  destruct (Z_le_gt_dec 0 a1) as [Ha1|Ha1].
  - (* lower edge beyond the centre *)
    assert (Z.abs (m * a1) <= Z.abs dlt * (n * m)); [|lia].
    rewrite Z.abs_mul, (Z.abs_eq m), (Z.abs_eq a1) by lia.
    assert (a1 <= n * Z.abs dlt).
    { subst a1. assert (n * dlt <= n * Z.abs dlt) by (apply Z.mul_le_mono_nonneg_l; lia). lia. }
    replace (Z.abs dlt * (n * m)) with (m * (n * Z.abs dlt)) by ring.
    apply Z.mul_le_mono_nonneg_l; lia.
  - destruct (Z_le_gt_dec (a1 + L) 0) as [Ha2|Ha2].
    + assert (Z.abs (m * (a1 + L)) <= Z.abs dlt * (n * m)); [|lia].
      rewrite Z.abs_mul, (Z.abs_eq m), (Z.abs_neq (a1 + L)) by lia.
      assert (- (a1 + L) <= n * Z.abs dlt).
      { subst a1. assert (n * (- dlt) <= n * Z.abs dlt) by (apply Z.mul_le_mono_nonneg_l; lia). lia. }
      replace (Z.abs dlt * (n * m)) with (m * (n * Z.abs dlt)) by ring.
      apply Z.mul_le_mono_nonneg_l; lia.
    + exfalso. apply Hne. fold vi.
      (* py*n = L*(vj - n*k) + (r - n*dlt) with 0 < r - n*dlt < L *)
      assert (Hpn : py * n = L * (vj - n * k) + (r - n * dlt)).
      { subst r. rewrite Hrel. ring. }
      assert (Hvi' : vi = vj - n * k).
      { subst vi. symmetry. apply Z.div_unique with (r := r - n * dlt); [left; subst a1; lia|].
        rewrite Hpn. ring. }
      assert (0 <= py * n) by (apply Z.mul_nonneg_nonneg; lia).
      assert (0 <= yj * n) by (apply Z.mul_nonneg_nonneg; lia).
      assert (py * n < L * n) by (apply Z.mul_lt_mono_pos_r; lia).
      assert (yj * n < L * n) by (apply Z.mul_lt_mono_pos_r; lia).
      assert (0 <= vi < n) by (subst vi; split; [apply Z.div_pos; lia|apply Z.div_lt_upper_bound; lia]).
      assert (0 <= vj < n) by (subst vj; split; [apply Z.div_pos; lia|apply Z.div_lt_upper_bound; lia]).
      assert (Hnk : - n < n * k < n) by lia.
      assert (k = 0) by (clear - Hnk Hn; nia). subst k. lia.
Qed.

(* ---------------------------------------------------------------- the x ranges *)
Lemma sqle_true S2 D t : t * t * S2 <= D -> sqle S2 D t = true.
Proof. intros. unfold sqle. lia. Qed.

Lemma sq_mono_abs a b S2 : 0 < S2 -> Z.abs a <= Z.abs b -> a * a * S2 <= b * b * S2.
Proof. intros HS H. apply Z.mul_le_mono_nonneg_r; [lia|]. nia. Qed.

Lemma ge_minx_near S2 D px x r : r_lo r = px -> r_D r = D -> (px - x) * (px - x) * S2 <= D -> ge_minx S2 px r x = true.
Proof. intros E1 E2 H. unfold ge_minx. rewrite E1, E2. rewrite (sqle_true S2 D (px - x) H). lia. Qed.

Lemma le_maxx_near S2 D px x r : r_hi r = px -> r_D r = D -> (x - px) * (x - px) * S2 <= D -> le_maxx S2 px r x = true.
Proof. intros E1 E2 H. unfold le_maxx. rewrite E1, E2. rewrite (sqle_true S2 D (x - px) H). lia. Qed.

Lemma existsb_false {A} (f : A -> bool) l : (forall x, In x l -> f x = false) -> existsb f l = false.
Proof.
  intros H. destruct (existsb f l) eqn:E; [|reflexivity].
  apply existsb_exists in E. destruct E as (x & Hx & Hf). rewrite (H x Hx) in Hf. discriminate.
Qed.

Lemma xrange_ok g px xj dx k1 D np (bin : list entry) :
  let S2 := gS g * gS g in
  let ax := b_ax (g_box g) in
  let r := mkRange false px px D np in
  0 < S2 -> 0 < ax -> xj = px + dx + k1 * ax -> 0 <= px < ax -> 0 <= xj < ax -> 2 * Z.abs dx < ax ->
  dx * dx * S2 < D ->
  (forall e, In e bin -> 0 <= vx (snd e) < ax) ->
  (exists e, In e bin /\ vx (snd e) = xj) ->
  (k1 <> 0 -> np = true) ->
  in_ranges g px r (has_below g px r bin) (has_above g px r bin) xj = true.
Proof.
  intros S2 ax r HS Hax Hrel Hpx Hxj Hdx HD Hbin (ej & Hej & Exj) Hnp.
  assert (Hk : k1 = -1 \/ k1 = 0 \/ k1 = 1) by nia.
  unfold in_ranges. fold S2. fold ax. cbv zeta. change (r_needp r) with np.
  assert (Gnear : forall x, Z.abs (x - px) <= Z.abs dx -> ge_minx S2 px r x = true /\ le_maxx S2 px r x = true).
  { intros x Hx. split.
    - apply (ge_minx_near S2 D px x r eq_refl eq_refl).
      assert (Hm := sq_mono_abs (px - x) dx S2 HS ltac:(lia)). lia.
    - apply (le_maxx_near S2 D px x r eq_refl eq_refl).
      assert (Hm := sq_mono_abs (x - px) dx S2 HS ltac:(lia)). lia. }
  destruct Hk as [Hk|[Hk|Hk]]; subst k1.
  - (* image on the left: xj = px + dx - ax, dx >= ax - px > 0 *)
    assert (Hle : le_maxx S2 px r xj = true) by (unfold le_maxx; lia).
    assert (Habove : has_above g px r bin = false).
    { unfold has_above. apply existsb_false. intros e He. fold S2. apply negb_false_iff.
      specialize (Hbin e He). destruct (Z_le_gt_dec (vx (snd e)) px); [unfold le_maxx; lia|].
      apply Gnear. lia. }
    rewrite Habove, Hle, (Hnp ltac:(lia)).
    destruct (ge_minx S2 px r xj) eqn:Ege; [reflexivity|]. cbn [andb negb].
    destruct (has_below g px r bin) eqn:Eb.
    + apply Gnear. lia.
    + exfalso. unfold has_below in Eb. fold S2 in Eb.
      assert (H : existsb (fun e : nat * vec => negb (ge_minx S2 px r (vx (snd e)))) bin = true).
      { apply existsb_exists. exists ej. split; [exact Hej|]. rewrite Exj, Ege. reflexivity. }
      rewrite H in Eb. discriminate.
  - destruct (Gnear xj ltac:(lia)) as (G1 & G2). now rewrite G1, G2.
  - (* image on the right: xj = px + dx + ax, dx < -px <= 0 *)
    assert (Hge : ge_minx S2 px r xj = true) by (unfold ge_minx; lia).
    assert (Hbelow : has_below g px r bin = false).
    { unfold has_below. apply existsb_false. intros e He. fold S2. apply negb_false_iff.
      specialize (Hbin e He). destruct (Z_le_gt_dec px (vx (snd e))); [unfold ge_minx; lia|].
      apply Gnear. lia. }
    rewrite Hbelow, Hge, (Hnp ltac:(lia)).
    destruct (le_maxx S2 px r xj) eqn:Ele; [reflexivity|]. cbn [andb negb].
    apply Gnear. lia.
Qed.

(* ---------------------------------------------------------------- orthorhombic cell, atoms in the cell *)
Definition ortho (B : box) : Prop := b_bx B = 0 /\ b_cx B = 0 /\ b_cy B = 0.
Definition in_cell (B : box) (p : vec) : Prop :=
  0 <= vx p < b_ax B /\ 0 <= vy p < b_by B /\ 0 <= vz p < b_cz B.

Lemma rnd_haz_zero d : 0 < d -> rnd_haz 0 d = 0.
Proof. intros Hd. unfold rnd_haz. change (0 <=? 0) with true. cbv iota. rewrite Z.mul_0_r, Z.add_0_l. apply Z.div_small. lia. Qed.

Lemma reduce_box_ortho B : box_ok B -> ortho B -> reduce_box B = B.
Proof.
  intros (Ha & Hb & Hc) (H1 & H2 & H3). destruct B as [ax bx by_ cx cy cz]. cbn in *. subst.
  unfold reduce_box. cbn [b_ax b_bx b_by b_cx b_cy b_cz].
  rewrite (rnd_haz_zero by_ Hb). change (0 - 0 * 0) with 0. rewrite (rnd_haz_zero ax Ha). reflexivity.
Qed.

Lemma nvox_per_pos L c : 1 <= nvox_per L c.
Proof. unfold nvox_per. lia. Qed.

Lemma ortho_offdiag B : ortho B -> offdiag_nonzero B = false.
Proof. intros (H1 & H2 & H3). unfold offdiag_nonzero. rewrite H1, H2, H3. reflexivity. Qed.

Section OrthoComplete.
Variables (fl : bool) (B : box) (c : Z) (xyz : list vec).
Hypothesis HB : box_ok B.
Hypothesis HO : ortho B.
Hypothesis Hc : 0 < c.
Hypothesis Hhalf : 2 * c <= b_ax B /\ 2 * c <= b_by B /\ 2 * c <= b_cz B.
Hypothesis Hin : forall k, (k < length xyz)%nat -> in_cell B (pos xyz k).

Let g := the_grid fl (Some B) c xyz.
Let ny := nvox_per (b_by B) c.
Let nz := nvox_per (b_cz B) c.

Lemma g_unfold : g = mkGrid true false B ny nz (b_by B) ny (b_cz B) nz 0 0 fl.
Proof.
  unfold g, the_grid, make_grid_gen. rewrite (reduce_box_ortho B HB HO). rewrite (ortho_offdiag B HO). reflexivity.
Qed.

Lemma vox_index_incell p : in_cell B p ->
  vox_index g p = (vy p * ny / b_by B, vz p * nz / b_cz B) /\
  0 <= vy p * ny / b_by B < ny /\ 0 <= vz p * nz / b_cz B < nz.
Proof.
  intros (Hx & Hy & Hz). destruct HB as (Ha & Hb & Hcz). destruct HO as (H1 & H2 & H3).
  pose proof (nvox_per_pos (b_by B) c) as Hny. pose proof (nvox_per_pos (b_cz B) c) as Hnz. fold ny in Hny. fold nz in Hnz.
  assert (Ey : 0 <= vy p * ny / b_by B < ny).
  { split; [apply Z.div_pos; [apply Z.mul_nonneg_nonneg|]; lia|].
    apply Z.div_lt_upper_bound; [lia|]. apply Z.mul_lt_mono_pos_r; lia. }
  assert (Ez : 0 <= vz p * nz / b_cz B < nz).
  { split; [apply Z.div_pos; [apply Z.mul_nonneg_nonneg|]; lia|].
    apply Z.div_lt_upper_bound; [lia|]. apply Z.mul_lt_mono_pos_r; lia. }
  split; [|tauto].
  rewrite g_unfold. unfold vox_index. cbn [g_per g_box g_ny g_nz g_syn g_syd g_szn g_szd g_miny g_minz fst snd].
  rewrite (Z.div_small (vz p) (b_cz B)) by lia. rewrite H3, !Z.mul_0_r, !Z.sub_0_r.
  rewrite (Z.div_small (vy p) (b_by B)) by lia. rewrite !Z.mul_0_r, !Z.sub_0_r.
  unfold clampZ. f_equal; lia.
Qed.

Lemma axis_window L n pi_ pj_ dl k :
  0 < L -> 1 <= n -> 0 <= pi_ < L -> 0 <= pj_ < L -> pj_ = pi_ + dl + k * L -> Z.abs dl < c ->
  let vi := pi_ * n / L in
  let vj := pj_ * n / L in
  let d := dindex true c L n n in
  exists y, In y (zrange (vi - d) (Z.min (vi + d) (vi - d + n - 1))) /\ wrap1 n y = vj.
Proof.
  intros HL Hn Hpi Hpj Hrel Hdl vi vj d.
  assert (Hvi : 0 <= vi < n).
  { subst vi. split; [apply Z.div_pos; [apply Z.mul_nonneg_nonneg|]; lia|].
    apply Z.div_lt_upper_bound; [lia|]. apply Z.mul_lt_mono_pos_r; lia. }
  assert (Hvj : 0 <= vj < n).
  { subst vj. split; [apply Z.div_pos; [apply Z.mul_nonneg_nonneg|]; lia|].
    apply Z.div_lt_upper_bound; [lia|]. apply Z.mul_lt_mono_pos_r; lia. }
  set (d0 := c * n / L + 1).
  assert (Hd0 : 1 <= d0).
  { subst d0. assert (0 <= c * n / L) by (apply Z.div_pos; [apply Z.mul_nonneg_nonneg|]; lia). lia. }
  assert (Hm : Z.abs (vj + (- k) * n - vi) <= d0).
  { assert (E : vj = (pi_ * n + dl * n) / L + k * n).
    { subst vj. rewrite Hrel. replace ((pi_ + dl + k * L) * n) with (pi_ * n + dl * n + k * n * L) by ring.
      now rewrite Z.div_add by lia. }
    rewrite E. replace ((pi_ * n + dl * n) / L + k * n + - k * n - vi) with ((pi_ * n + dl * n) / L - pi_ * n / L) by (subst vi; ring).
    pose proof (floor_shift L (pi_ * n) (dl * n) HL) as Hs.
    assert (Z.abs (dl * n) / L <= c * n / L).
    { apply Z.div_le_mono; [lia|]. rewrite Z.abs_mul, (Z.abs_eq n) by lia. apply Z.mul_le_mono_nonneg_r; lia. }
    subst d0. lia. }
  destruct (window_has_residue n vi vj d0 (- k) ltac:(lia) Hvi Hvj Hd0 Hm) as (y & Hy & Hw).
  exists y. split; [|exact Hw]. apply in_zrange. unfold d, dindex. fold d0. exact Hy.
Qed.

Lemma zwindow_eq vzi : zwindow g c vzi =
  let d := dindex true c (b_cz B) nz nz in zrange (vzi - d) (Z.min (vzi + d) (vzi - d + nz - 1)).
Proof. rewrite g_unfold. reflexivity. Qed.

Lemma ywindow_eq vyi z : ywindow g c vyi z =
  let d := dindex true c (b_by B) ny ny in zrange (vyi - d) (Z.min (vyi + d) (vyi - d + ny - 1)).
Proof.
  rewrite g_unfold. unfold ywindow, yoffset. cbn [g_per g_box g_ny g_nz g_syn g_syd g_fully g_tric].
  rewrite andb_false_r. cbn [andb].
  destruct HO as (_ & _ & H3). rewrite H3. rewrite Z.mul_0_r, Z.mul_0_l. unfold cdiv. cbn [Z.opp]. rewrite Z.div_0_l.
  - cbn [Z.opp]. cbv zeta. now rewrite !Z.sub_0_r.
  - destruct HB as (_ & Hb & _). lia.
Qed.

Let S := ny * nz.
Let S2 := S * S.
Let WY := b_by B * S.
Let WZ := b_cz B * S.
Definition wr (W e : Z) : Z := e - rnd_htz e W * W.
Definition needp_of (p : vec) (D : Z) : bool :=
  (vy p <? c) || (b_by B - c <? vy p) || (vz p <? c) || (b_cz B - c <? vz p) ||
  (vx p <? 0) || sqlt S2 D (vx p) || (b_ax B <? vx p) || sqlt S2 D (b_ax B - vx p).

Lemma gS_eq : gS g = S.
Proof. rewrite g_unfold. reflexivity. Qed.

Lemma vox_range_ortho p vyi vzi y z :
  let e1y := (- vy p) * S + (b_by B * nz) * y in
  let e1z := (- vz p) * S + (b_cz B * ny) * z in
  let dy := if y =? vyi then 0 else Z.min (Z.abs (wr WY e1y)) (Z.abs (wr WY (e1y + b_by B * nz))) in
  let dz := if z =? vzi then 0 else Z.min (Z.abs (wr WZ e1z)) (Z.abs (wr WZ (e1z + b_cz B * ny))) in
  let D := c * c * S2 - dy * dy - dz * dz in
  vox_range g c p vyi vzi y z =
  if 0 <? D then mkRange false (vx p) (vx p) D (needp_of p D) else mkRange true (vx p) (vx p) 0 false.
Proof.
  cbv zeta. rewrite g_unfold. unfold vox_range, yoffset, gS, gSY, gSZ.
  cbn [g_per g_tric g_box g_ny g_nz g_syn g_syd g_szn g_szd g_miny g_minz andb].
  destruct HO as (H1 & H2 & H3). rewrite H1, H2, H3. rewrite !Z.mul_0_r, !Z.add_0_r, !Z.sub_0_r.
  fold S. fold S2. fold WY. fold WZ. unfold wr.
  replace ((0 - vy p) * S) with (- vy p * S) by ring. replace ((0 - vz p) * S) with (- vz p * S) by ring.

  match goal with |- (if 0 <? ?D then _ else _) = _ => set (DD := D) end.
  destruct (0 <? DD) eqn:E; [|reflexivity].
  f_equal.
  rewrite Z.sub_diag. unfold sqlt. replace (0 <? 0) with false by reflexivity. cbn [orb].
  replace (0 * 0 * S2) with 0 by ring. rewrite E. reflexivity.
Qed.

Lemma lat_ortho k1 k2 k3 : lat B k1 k2 k3 = (k1 * b_ax B, k2 * b_by B, k3 * b_cz B).
Proof.
  destruct HO as (H1 & H2 & H3).
  apply vec_eq; unfold lat, vadd, vscale, avec, bvec, cvec, vx, vy, vz; cbn [fst snd]; rewrite ?H1, ?H2, ?H3; ring.
Qed.

Lemma S_pos : 0 < S.
Proof.
  pose proof (nvox_per_pos (b_by B) c). pose proof (nvox_per_pos (b_cz B) c).
  unfold S, ny, nz. apply Z.mul_pos_pos; lia.
Qed.

(* periodic distance of the centre to a visited voxel (as computed), against the separation of the atoms *)
Lemma dy_le py yj dl k y vyi :
  0 <= py < b_by B -> 0 <= yj < b_by B -> yj = py + dl + k * b_by B ->
  vyi = py * ny / b_by B -> wrap1 ny y = yj * ny / b_by B ->
  (y = vyi -> False) \/ True ->
  (y <> vyi -> py * ny / b_by B <> yj * ny / b_by B) ->
  let e1y := (- py) * S + (b_by B * nz) * y in
  let dy := if y =? vyi then 0 else Z.min (Z.abs (wr WY e1y)) (Z.abs (wr WY (e1y + b_by B * nz))) in
  0 <= dy <= Z.abs dl * S.
Proof.
  intros Hpy Hyj Hrel Hvi Hw _ Hne e1y dy.
  pose proof S_pos as HS. destruct HB as (_ & Hb & _).
  pose proof (nvox_per_pos (b_by B) c) as Hny. fold ny in Hny.
  pose proof (nvox_per_pos (b_cz B) c) as Hnz. fold nz in Hnz.
  subst dy. destruct (y =? vyi) eqn:E.
  - split; [lia|]. apply Z.mul_nonneg_nonneg; lia.
  - split; [lia|].
    assert (Hq : exists q, y = yj * ny / b_by B + q * ny).
    { unfold wrap1 in Hw. destruct (y <? 0); [exists (-1); lia|]. destruct (ny <=? y); [exists 1; lia|exists 0; lia]. }
    destruct Hq as (q & Hq).
    pose proof (dy_bound (b_by B) ny nz py yj dl k q Hb ltac:(lia) ltac:(lia) Hpy Hyj Hrel (Hne ltac:(lia))) as Hd.
    cbv zeta in Hd. rewrite <- Hq in Hd. unfold wr, WY, S, e1y. unfold S in Hd. exact Hd.
Qed.

Lemma dz_le pz zj dl k z vzi :
  0 <= pz < b_cz B -> 0 <= zj < b_cz B -> zj = pz + dl + k * b_cz B ->
  vzi = pz * nz / b_cz B -> wrap1 nz z = zj * nz / b_cz B ->
  (z <> vzi -> pz * nz / b_cz B <> zj * nz / b_cz B) ->
  let e1z := (- pz) * S + (b_cz B * ny) * z in
  let dz := if z =? vzi then 0 else Z.min (Z.abs (wr WZ e1z)) (Z.abs (wr WZ (e1z + b_cz B * ny))) in
  0 <= dz <= Z.abs dl * S.
Proof.
  intros Hpz Hzj Hrel Hvi Hw Hne e1z dz.
  pose proof S_pos as HS. destruct HB as (_ & _ & Hcz).
  pose proof (nvox_per_pos (b_by B) c) as Hny. fold ny in Hny.
  pose proof (nvox_per_pos (b_cz B) c) as Hnz. fold nz in Hnz.
  subst dz. destruct (z =? vzi) eqn:E.
  - split; [lia|]. apply Z.mul_nonneg_nonneg; lia.
  - split; [lia|].
    assert (Hq : exists q, z = zj * nz / b_cz B + q * nz).
    { unfold wrap1 in Hw. destruct (z <? 0); [exists (-1); lia|]. destruct (nz <=? z); [exists 1; lia|exists 0; lia]. }
    destruct Hq as (q & Hq).
    pose proof (dy_bound (b_cz B) nz ny pz zj dl k q Hcz ltac:(lia) ltac:(lia) Hpz Hzj Hrel (Hne ltac:(lia))) as Hd.
    cbv zeta in Hd. rewrite <- Hq in Hd. unfold wr, WZ, S, e1z.
    replace (nz * ny) with (ny * nz) in Hd by ring. exact Hd.
Qed.

Lemma wy_of_eq y : wy_of g y = wrap1 ny y.
Proof. rewrite g_unfold. reflexivity. Qed.
Lemma wz_of_eq z : wz_of g z = wrap1 nz z.
Proof. rewrite g_unfold. reflexivity. Qed.
Lemma g_box_eq : g_box g = B.
Proof. rewrite g_unfold. reflexivity. Qed.
Lemma g_tric_eq : g_tric g = false.
Proof. rewrite g_unfold. reflexivity. Qed.

Lemma self_in_window n vi d : 1 <= n -> 0 <= d <= n / 2 ->
  In vi (zrange (vi - d) (Z.min (vi + d) (vi - d + n - 1))).
Proof. intros Hn Hd. apply in_zrange. pose proof (div_bounds n 2 ltac:(lia)). lia. Qed.

Lemma dindex_range L n : 0 < L -> 1 <= n -> 0 <= dindex true c L n n <= n / 2.
Proof.
  intros HL Hn. unfold dindex. assert (0 <= c * n / L) by (apply Z.div_pos; [apply Z.mul_nonneg_nonneg|]; lia).
  assert (0 <= n / 2) by (apply Z.div_pos; lia). lia.
Qed.

Theorem ortho_incell_half i j k1 k2 k3 :
  (j < i)%nat -> (i < length xyz)%nat ->
  norm2 (vsub (vsub (pos xyz j) (pos xyz i)) (lat B k1 k2 k3)) < c * c ->
  In j (nth i (nlist_half_gen fl (Some B) c xyz) []).
Proof.
  intros Hji Hi Hn.
  rewrite nth_nlist_half by exact Hi. fold g.
  set (p := pos xyz i). set (q := pos xyz j).
  destruct (Hin i Hi) as (Hxi & Hyi & Hzi). fold p in Hxi, Hyi, Hzi.
  assert (Hj : (j < length xyz)%nat) by lia.
  destruct (Hin j Hj) as (Hxj & Hyj & Hzj). fold q in Hxj, Hyj, Hzj.
  destruct HB as (Ha & Hb & Hcz). destruct Hhalf as (Lx & Ly & Lz).
  pose proof (nvox_per_pos (b_by B) c) as Hny. fold ny in Hny.
  pose proof (nvox_per_pos (b_cz B) c) as Hnz. fold nz in Hnz.
  pose proof S_pos as HS.
  rewrite lat_ortho in Hn.
  set (dx := vx q - vx p - k1 * b_ax B).
  set (dy := vy q - vy p - k2 * b_by B).
  set (dz := vz q - vz p - k3 * b_cz B).
  assert (Hn' : dx * dx + dy * dy + dz * dz < c * c).
  { unfold norm2, vsub, vx, vy, vz in Hn; cbn [fst snd] in Hn. subst dx dy dz. unfold vx, vy, vz. exact Hn. }
  pose proof (Z.square_nonneg dx) as Qx. pose proof (Z.square_nonneg dy) as Qy. pose proof (Z.square_nonneg dz) as Qz.
  assert (Hdx : Z.abs dx < c) by (apply sq_lt_sq; lia).
  assert (Hdy : Z.abs dy < c) by (apply sq_lt_sq; lia).
  assert (Hdz : Z.abs dz < c) by (apply sq_lt_sq; lia).
  destruct (vox_index_incell p (conj Hxi (conj Hyi Hzi))) as (Evp & Hvyp & Hvzp).
  destruct (vox_index_incell q (conj Hxj (conj Hyj Hzj))) as (Evq & Hvyq & Hvzq).
  destruct (axis_window (b_cz B) nz (vz p) (vz q) dz k3 Hcz Hnz Hzi Hzj ltac:(subst dz; lia) Hdz) as (z & Hz & Hwz).
  destruct (axis_window (b_by B) ny (vy p) (vy q) dy k2 Hb Hny Hyi Hyj ltac:(subst dy; lia) Hdy) as (y & Hy & Hwy).
  apply in_half_list. exists z, y, (j, q). rewrite Evp. cbn [fst snd].
  split; [rewrite zwindow_eq; exact Hz|]. split; [rewrite ywindow_eq; exact Hy|]. split; [|reflexivity].
  unfold piece. rewrite Evp. cbn [fst snd]. rewrite vox_range_ortho. cbv zeta.
  rewrite wy_of_eq, wz_of_eq, Hwy, Hwz.
  set (vyi := vy p * ny / b_by B) in *. set (vzi := vz p * nz / b_cz B) in *.
  set (vyj := vy q * ny / b_by B) in *. set (vzj := vz q * nz / b_cz B) in *.
  (* the voxel distances never exceed the separation of the two atoms *)
  assert (Hyne : y <> vyi -> vyi <> vyj).
  { intros Hne E. apply Hne. pose proof (dindex_range (b_by B) ny Hb Hny) as Hd.
    pose proof (self_in_window ny vyi _ Hny Hd) as Hs.
    apply in_zrange in Hs, Hy.
    apply (wrap1_inj ny y vyi ltac:(lia)); [lia|]. rewrite Hwy, <- E. unfold wrap1.
    destruct (vyi <? 0) eqn:E1; [lia|]. destruct (ny <=? vyi) eqn:E2; lia. }
  assert (Hzne : z <> vzi -> vzi <> vzj).
  { intros Hne E. apply Hne. pose proof (dindex_range (b_cz B) nz Hcz Hnz) as Hd.
    pose proof (self_in_window nz vzi _ Hnz Hd) as Hs.
    apply in_zrange in Hs, Hz.
    apply (wrap1_inj nz z vzi ltac:(lia)); [lia|]. rewrite Hwz, <- E. unfold wrap1.
    destruct (vzi <? 0) eqn:E1; [lia|]. destruct (nz <=? vzi) eqn:E2; lia. }
  pose proof (dy_le (vy p) (vy q) dy k2 y vyi Hyi Hyj ltac:(subst dy; lia) eq_refl Hwy (or_intror I) Hyne) as Bdy.
  pose proof (dz_le (vz p) (vz q) dz k3 z vzi Hzi Hzj ltac:(subst dz; lia) eq_refl Hwz Hzne) as Bdz.
  cbv zeta in Bdy, Bdz.
  match goal with |- context [if 0 <? ?DD then _ else _] => set (D := DD) end.
  match type of Bdy with 0 <= ?a <= _ => set (dyv := a) in * end.
  match type of Bdz with 0 <= ?a <= _ => set (dzv := a) in * end.
  assert (HD : dx * dx * S2 < D).
  { subst D. fold dyv dzv.
    assert (dyv * dyv <= (Z.abs dy * S) * (Z.abs dy * S)) by (apply Z.mul_le_mono_nonneg; lia).
    assert (dzv * dzv <= (Z.abs dz * S) * (Z.abs dz * S)) by (apply Z.mul_le_mono_nonneg; lia).
    assert (Z.abs dy * S * (Z.abs dy * S) = dy * dy * S2).
    { unfold S2. replace (Z.abs dy * S * (Z.abs dy * S)) with (Z.abs dy * Z.abs dy * (S * S)) by ring. now rewrite Z.abs_square. }
    assert (Z.abs dz * S * (Z.abs dz * S) = dz * dz * S2).
    { unfold S2. replace (Z.abs dz * S * (Z.abs dz * S)) with (Z.abs dz * Z.abs dz * (S * S)) by ring. now rewrite Z.abs_square. }
    assert (0 < S2) by (unfold S2; apply Z.mul_pos_pos; lia).
    assert ((dx * dx + dy * dy + dz * dz) * S2 < c * c * S2) by (apply Z.mul_lt_mono_pos_r; lia).
    lia. }
  assert (HS2 : 0 < S2) by (unfold S2; apply Z.mul_pos_pos; lia).
  assert (HD0 : (0 <? D) = true).
  { apply Z.ltb_lt. assert (0 <= dx * dx * S2) by (apply Z.mul_nonneg_nonneg; [apply Z.square_nonneg|lia]). lia. }
  rewrite HD0.
  set (np := needp_of p D).
  cbn [r_skip]. apply filter_In.
  assert (Hbin : In (j, q) (the_bins fl (Some B) c xyz vyj vzj)).
  { apply in_the_bins. cbn [fst snd]. split; [exact Hj|]. split; [reflexivity|]. fold g. exact Evq. }
  split; [exact Hbin|].
  apply cand_ok_iff. cbn [fst snd]. split; [exact Hji|].
  (* k1 <> 0 forces needPeriodic through the x tests *)
  assert (Hnp : k1 <> 0 -> np = true).
  { intros Hk. unfold np, needp_of.
    assert (Hrel : vx q = vx p + dx + k1 * b_ax B) by (subst dx; lia).
    destruct (Z_lt_ge_dec k1 0).
    - (* k1 <= -1: dx >= ax - px *)
      assert (k1 <= -1) by lia.
      assert (sqlt S2 D (b_ax B - vx p) = true); [|lia].
      unfold sqlt. assert ((b_ax B - vx p) * (b_ax B - vx p) * S2 <= dx * dx * S2); [|lia].
      apply sq_mono_abs; [exact HS2|]. clear - Hrel H Hxi Hxj Ha. nia.
    - assert (1 <= k1) by lia.
      assert (sqlt S2 D (vx p) = true); [|lia].
      unfold sqlt. assert (vx p * vx p * S2 <= dx * dx * S2); [|lia].
      apply sq_mono_abs; [exact HS2|]. clear - Hrel H Hxi Hxj Ha. nia. }
  split.
  - (* inside the x ranges *)
    pose proof (xrange_ok g (vx p) (vx q) dx k1 D np (the_bins fl (Some B) c xyz vyj vzj)) as HX.
    cbv zeta in HX. rewrite gS_eq, g_box_eq in HX. fold S2 in HX.
    apply HX; clear HX; try assumption; try lia.
    + intros e He. apply in_the_bins in He. destruct He as (Hk & Epos & _).
      destruct (Hin (fst e) Hk) as (Hx & _). rewrite Epos. exact Hx.
    + exists (j, q). split; [exact Hbin|reflexivity].
  - (* the final distance test *)
    unfold dist_ok. cbv zeta. cbn [r_needp]. rewrite g_tric_eq, g_box_eq. fold np.
    apply Z.leb_le.
    destruct np eqn:Enp.
    + pose proof (wrap_diag_minimal B (vsub q p) k1 k2 k3 (conj Ha (conj Hb Hcz)) (ortho_offdiag B HO)) as Hm.
      rewrite lat_ortho in Hm.
      assert (norm2 (vsub (vsub q p) (k1 * b_ax B, k2 * b_by B, k3 * b_cz B)) = dx * dx + dy * dy + dz * dz).
      { unfold norm2, vsub, vx, vy, vz; cbn [fst snd]. subst dx dy dz. unfold vx, vy, vz. ring. }
      lia.
    + (* no wrap: then the nearest image is the atom itself *)
      assert (k1 = 0) by (destruct (Z.eq_dec k1 0) as [E|E]; [exact E|specialize (Hnp E); discriminate]).
      unfold np, needp_of in Enp.
      assert (Ey2 : vy q = vy p + dy + k2 * b_by B) by (subst dy; lia).
      assert (Ez2 : vz q = vz p + dz + k3 * b_cz B) by (subst dz; lia).
      assert (Hpy : c <= vy p <= b_by B - c) by lia.
      assert (Hpz : c <= vz p <= b_cz B - c) by lia.
      assert (k2 = 0) by (clear - Ey2 Hpy Hdy Hyj Hb; nia).
      assert (k3 = 0) by (clear - Ez2 Hpz Hdz Hzj Hcz; nia).
      subst k1 k2 k3.
      assert (norm2 (vsub q p) = dx * dx + dy * dy + dz * dz).
      { unfold norm2, vsub, vx, vy, vz; cbn [fst snd]. subst dx dy dz. unfold vx, vy, vz. ring. }
      lia.
Qed.
End OrthoComplete.
