(* C10 -- executable comparison of the wrapper model MD.Neigh.Api with md.compute_neighbors / md.compute_neighborlist
   on whole calls (all frames, default haystack, periodic flag, invalid indices, frame selection).  No proofs.
   The model is evaluated at cutoff - 1e-5 and cutoff + 1e-5; a call on which the two differ has a pair inside the
   property's exclusion band and is not compared (code 2). *)
From Coq Require Import ZArith List Bool.
Import ListNotations.
Require Import MD.Neigh.Model MD.Neigh.Api MD.Neigh.Run.
Open Scope Z_scope.

Record api_case := mkApi {
  a_nb : bool;                       (* true: compute_neighbors, false: compute_neighborlist *)
  a_traj : ntraj;
  a_lo : Z; a_hi : Z; a_d : Z;       (* compute_neighbors: (cutoff -/+ 1e-5) = a_lo/a_d, a_hi/a_d *)
  a_clo : Z; a_chi : Z;              (* compute_neighborlist: integer cutoffs below / above the band *)
  a_query : list Z; a_hay : option (list Z);
  a_frame : Z; a_periodic : bool }.

Fixpoint rows_eqb (a b : list (list nat)) : bool :=
  match a, b with
  | [], [] => true
  | x :: a', y :: b' => list_eqb x y && rows_eqb a' b'
  | _, _ => false
  end.
Definition sort_rows (r : list (list nat)) : list (list Z) := map (fun row => zsort (map Z.of_nat row)) r.
Fixpoint zrows_eqb (a b : list (list Z)) : bool :=
  match a, b with
  | [], [] => true
  | x :: a', y :: b' => zlist_eqb x y && zrows_eqb a' b'
  | _, _ => false
  end.

(* impl: None = the error the model predicts for bad arguments (ValueError / IndexError); the harness encodes any
   other outcome that is not a result as a row mentioning a non-existing atom *)
Definition api_code (k : api_case) (impl : option (list (list nat))) : Z :=
  if a_nb k then
    match compute_neighbors_api (a_traj k) (a_lo k) (a_d k) (a_query k) (a_hay k) (a_periodic k),
          compute_neighbors_api (a_traj k) (a_hi k) (a_d k) (a_query k) (a_hay k) (a_periodic k) with
    | NbValueError, _ => match impl with None => 0 | Some _ => 1 end
    | NbFrames r1, NbFrames r2 =>
        if rows_eqb r1 r2 then match impl with Some r => if rows_eqb r1 r then 0 else 1 | None => 1 end else 2
    | _, _ => 1
    end
  else
    match compute_neighborlist_api (a_traj k) (a_clo k) (a_frame k) (a_periodic k),
          compute_neighborlist_api (a_traj k) (a_chi k) (a_frame k) (a_periodic k) with
    | NlIndexError, _ => match impl with None => 0 | Some _ => 1 end
    | NlRows r1, NlRows r2 =>
        if zrows_eqb (sort_rows r1) (sort_rows r2)
        then match impl with Some r => if zrows_eqb (sort_rows r1) (sort_rows r) then 0 else 1 | None => 1 end else 2
    | _, _ => 1
    end.

(* INFORMATIONAL (never a failure: the order inside a row is not part of the property): does the implementation
   return its rows in the order of the loops of MD.Neigh.Bins (sorted bins, range 0 then range 1, completions
   ascending)?  0 = identical lists, 1 = same sets in another order, 2 = different sets *)
Require Import MD.Neigh.Bins.
Definition ll_order_code (cell : option box) (c : Z) (xyz : list vec) (impl : list (list nat)) : Z :=
  let m := nlist_ll cell c xyz in
  if rows_eqb m impl then 0 else if zrows_eqb (sort_rows m) (sort_rows impl) then 1 else 2.
