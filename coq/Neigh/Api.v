(* C10 -- executable model (definitions only, no proofs) of the Cython wrappers

     mdtraj/geometry/neighbors.pyx      compute_neighbors(traj, cutoff, query_indices, haystack_indices=None, periodic=True)
     mdtraj/geometry/neighborlist.pyx   compute_neighborlist(traj, cutoff, frame=0, periodic=True)

   around the kernels modelled in MD.Neigh.Model: the default haystack, the index validation (negative indices
   included -- indices are integers here, not naturals), the decision whether a cell is used at all
   ("periodic and traj.unitcell_vectors is not None"), the loop over the frames with the cell of each frame, the
   frame selection of compute_neighborlist (numpy indexing: a negative frame counts from the end, anything outside
   raises IndexError).
   NOT modelled: ensure_type's conversions of the index arguments (a float array is cast to int32, a scalar or a 2-D
   array is refused with its own exception); a cutoff that is not positive; a trajectory without atoms. *)
From Coq Require Import ZArith List Bool.
Import ListNotations.
Require Import MD.Neigh.Model.
Open Scope Z_scope.

(* what the wrappers read from the Trajectory: xyz (n_frames x n_atoms x 3) and unitcell_vectors (None or one
   cell per frame) *)
Record ntraj := mkNT { nt_natoms : nat; nt_xyz : list (list vec); nt_cells : option (list box) }.

Definition box0 : box := mkBox 0 0 0 0 0 0.

(* is_periodic = periodic and (traj.unitcell_vectors is not None); box_matrix_pointer = &box_matrix[k,0,0] or NULL *)
Definition cell_used (t : ntraj) (periodic : bool) (k : nat) : option box :=
  if periodic then match nt_cells t with Some cs => Some (nth k cs box0) | None => None end else None.

(* np.all((idx >= 0) * (idx < n_atoms)) *)
Definition idx_valid (n : nat) (i : Z) : bool := (0 <=? i) && (i <? Z.of_nat n).

Inductive nb_result := NbValueError | NbFrames (r : list (list nat)).

Definition compute_neighbors_api (t : ntraj) (cn cd : Z) (query : list Z) (hay : option (list Z)) (periodic : bool)
  : nb_result :=
  let n := nt_natoms t in
  (* if haystack_indices is None: haystack_indices = np.arange(traj.xyz.shape[1]) *)
  let hay' := match hay with Some h => h | None => map Z.of_nat (seq 0 n) end in
  if negb (forallb (idx_valid n) query) then NbValueError      (* "query_indices must be valid positive indices" *)
  else if negb (forallb (idx_valid n) hay') then NbValueError  (* "haystack_indices must be valid positive indices" *)
  else
    (* for i in range(n_frames): _compute_neighbors(&xyz[i,0,0], n_atoms, cutoff, query, haystack, box of frame i) *)
    NbFrames (map (fun k => neighbors_frame (cell_used t periodic k) cn cd (nth k (nt_xyz t) [])
                                            (map Z.to_nat query) (map Z.to_nat hay'))
                  (seq 0 (length (nt_xyz t)))).

Inductive nl_result := NlIndexError | NlRows (r : list (list nat)).

(* traj.xyz[frame], traj.unitcell_vectors[frame] *)
Definition frame_index (nf : nat) (frame : Z) : option nat :=
  let f := if frame <? 0 then frame + Z.of_nat nf else frame in
  if (0 <=? f) && (f <? Z.of_nat nf) then Some (Z.to_nat f) else None.

(* the kernel of /repo today = Model.nlist_fix2 (positions wrapped into the cell first; every y voxel in a triclinic
   cell with fewer than 5 z voxels); [kernel] lets the as-found variants be plugged in as well *)
Definition compute_neighborlist_api_gen (kernel : option box -> Z -> list vec -> list (list nat))
           (t : ntraj) (c : Z) (frame : Z) (periodic : bool) : nl_result :=
  match frame_index (length (nt_xyz t)) frame with
  | None => NlIndexError
  | Some f => NlRows (kernel (cell_used t periodic f) c (nth f (nt_xyz t) []))
  end.
Definition compute_neighborlist_api := compute_neighborlist_api_gen nlist_fix2.
