(* C10 -- facts about the wrapper model MD.Neigh.Api *)
From Coq Require Import ZArith List Bool Lia ZifyBool Arith.
Import ListNotations.
Require Import MD.Neigh.Model MD.Neigh.Arith MD.Neigh.NeighborsProofs MD.Neigh.NlistProofs MD.Neigh.Complete2 MD.Neigh.Api.
Open Scope Z_scope.

Definition default_hay (t : ntraj) (hay : option (list Z)) : list Z :=
  match hay with Some h => h | None => map Z.of_nat (seq 0 (nt_natoms t)) end.

Lemma forallb_idx_valid n l : forallb (idx_valid n) l = true <-> forall i, In i l -> 0 <= i < Z.of_nat n.
Proof.
  rewrite forallb_forall. unfold idx_valid. split; intros H i Hi; specialize (H i Hi); lia.
Qed.

Lemma default_hay_valid t : forallb (idx_valid (nt_natoms t)) (default_hay t None) = true.
Proof.
  apply forallb_idx_valid. cbn [default_hay]. intros i Hi. apply in_map_iff in Hi.
  destruct Hi as (k & <- & Hk). apply in_seq in Hk. lia.
Qed.

(* ValueError exactly when some index (query, or explicit haystack) is negative or >= n_atoms *)
Theorem nb_api_valueerror_iff t cn cd query hay periodic :
  compute_neighbors_api t cn cd query hay periodic = NbValueError <->
  exists i, In i (query ++ default_hay t hay) /\ (i < 0 \/ Z.of_nat (nt_natoms t) <= i).
Proof.
  unfold compute_neighbors_api. cbv zeta. fold (default_hay t hay).
  destruct (forallb (idx_valid (nt_natoms t)) query) eqn:Eq; cbn [negb].
  - destruct (forallb (idx_valid (nt_natoms t)) (default_hay t hay)) eqn:Eh; cbn [negb].
    + split; [discriminate|]. intros (i & Hi & Hbad). apply in_app_or in Hi.
      rewrite forallb_idx_valid in Eq, Eh. destruct Hi as [Hi|Hi]; [specialize (Eq i Hi)|specialize (Eh i Hi)]; lia.
    + split; [intros _|reflexivity].
      assert (H : ~ (forall i, In i (default_hay t hay) -> 0 <= i < Z.of_nat (nt_natoms t))).
      { intros H. apply forallb_idx_valid in H. congruence. }
      clear Eh. induction (default_hay t hay) as [|a l IH].
      * exfalso. apply H. intros i [].
      * destruct (Z_lt_dec a 0) as [Ha|Ha]; [exists a; split; [apply in_or_app; right; now left|lia]|].
        destruct (Z_le_dec (Z.of_nat (nt_natoms t)) a) as [Hb|Hb]; [exists a; split; [apply in_or_app; right; now left|lia]|].
        destruct IH as (i & Hi & Hbad).
        { intros H'. apply H. intros i [<-|Hi]; [lia|now apply H']. }
        exists i. split; [|exact Hbad]. apply in_app_or in Hi. apply in_or_app. destruct Hi; [now left|right; now right].
  - split; [intros _|reflexivity].
    assert (H : ~ (forall i, In i query -> 0 <= i < Z.of_nat (nt_natoms t))).
    { intros H. apply forallb_idx_valid in H. congruence. }
    clear Eq. induction query as [|a l IH].
    + exfalso. apply H. intros i [].
    + destruct (Z_lt_dec a 0) as [Ha|Ha]; [exists a; split; [now left|lia]|].
      destruct (Z_le_dec (Z.of_nat (nt_natoms t)) a) as [Hb|Hb]; [exists a; split; [now left|lia]|].
      destruct IH as (i & Hi & Hbad).
      { intros H'. apply H. intros i [<-|Hi]; [lia|now apply H']. }
      exists i. split; [now right|exact Hbad].
Qed.

(* with valid indices: one answer per frame, and the answer of frame k is the kernel's answer on the coordinates
   and the cell of frame k alone -- the haystack, in its order, filtered by "some query atom j <> i is closer than
   the cutoff" (nothing is carried from one frame to the next) *)
Theorem nb_api_frames t cn cd query hay periodic :
  (forall i, In i (query ++ default_hay t hay) -> 0 <= i < Z.of_nat (nt_natoms t)) ->
  exists R, compute_neighbors_api t cn cd query hay periodic = NbFrames R /\
    length R = length (nt_xyz t) /\
    forall k, (k < length (nt_xyz t))%nat ->
      nth k R [] =
      filter (fun i => existsb (fun j => negb (Nat.eqb i j) && within (cell_used t periodic k) cn cd (nth k (nt_xyz t) []) i j)
                               (map Z.to_nat query))
             (map Z.to_nat (default_hay t hay)).
Proof.
  intros Hv. unfold compute_neighbors_api. cbv zeta. fold (default_hay t hay).
  assert (Eq : forallb (idx_valid (nt_natoms t)) query = true).
  { apply forallb_idx_valid. intros i Hi. apply Hv, in_or_app. now left. }
  assert (Eh : forallb (idx_valid (nt_natoms t)) (default_hay t hay) = true).
  { apply forallb_idx_valid. intros i Hi. apply Hv, in_or_app. now right. }
  rewrite Eq, Eh. cbn [negb]. eexists. split; [reflexivity|]. split; [now rewrite map_length, seq_length|].
  intros k Hk.
  set (f := fun k => neighbors_frame _ cn cd _ _ _).
  rewrite (nth_indep _ [] (f 0%nat)) by (now rewrite map_length, seq_length).
  rewrite map_nth, seq_nth by exact Hk. subst f. cbn [plus]. apply neighbors_spec_both.
Qed.

(* haystack_indices=None is the haystack 0..n_atoms-1 *)
Theorem nb_api_default_haystack t cn cd query periodic :
  compute_neighbors_api t cn cd query None periodic =
  compute_neighbors_api t cn cd query (Some (map Z.of_nat (seq 0 (nt_natoms t)))) periodic.
Proof. reflexivity. Qed.

(* periodic=False is the same call on the trajectory without its unit cells *)
Theorem nb_api_not_periodic t cn cd query hay p :
  compute_neighbors_api t cn cd query hay false =
  compute_neighbors_api (mkNT (nt_natoms t) (nt_xyz t) None) cn cd query hay p.
Proof.
  unfold compute_neighbors_api. cbv zeta. cbn [nt_natoms nt_xyz].
  destruct (negb _); [reflexivity|]. destruct (negb _); [reflexivity|]. f_equal. apply map_ext. intros k.
  unfold cell_used. cbn [nt_cells]. now destruct p.
Qed.

(* the answer depends on the query atoms as a SET: order and repetitions in query_indices are immaterial *)
Theorem nb_query_as_set cell cn cd xyz q1 q2 hay :
  (forall j, In j q1 <-> In j q2) ->
  neighbors_frame cell cn cd xyz q1 hay = neighbors_frame cell cn cd xyz q2 hay.
Proof.
  intros H. rewrite (proj1 (neighbors_spec_both cell cn cd xyz q1 hay)), (proj1 (neighbors_spec_both cell cn cd xyz q2 hay)).
  apply filter_ext. intros i. apply eq_true_iff_eq. rewrite !existsb_exists.
  split; intros (j & Hj & Hf); exists j; (split; [now apply H|exact Hf]).
Qed.

(* a haystack atom is reported as often as it occurs in the haystack when it has a close query atom, never otherwise:
   "without duplicates" holds exactly for a duplicate-free haystack *)
Theorem nb_multiplicity cell cn cd xyz query hay i :
  count_occ Nat.eq_dec (neighbors_frame cell cn cd xyz query hay) i =
  if existsb (fun j => negb (Nat.eqb i j) && within cell cn cd xyz i j) query
  then count_occ Nat.eq_dec hay i else 0%nat.
Proof.
  rewrite (proj1 (neighbors_spec_both cell cn cd xyz query hay)).
  set (f := fun i => existsb _ query). change (existsb _ query) with (f i).
  induction hay as [|a l IH]; cbn [filter count_occ]; [now destruct (f i)|].
  destruct (Nat.eq_dec a i) as [->|Hne].
  - destruct (f i) eqn:E; cbn [count_occ]; [|exact IH].
    destruct (Nat.eq_dec i i) as [_|Hn]; [|contradiction]. now rewrite IH.
  - destruct (f a); cbn [count_occ]; [|exact IH]. destruct (Nat.eq_dec a i); [contradiction|exact IH].
Qed.

(* the two searches treat a pair at EXACTLY the cutoff differently (strict < in neighbors.cpp, "dSquared >
   maxDistanceSquared: continue" in neighborlist.cpp); such pairs lie inside the property's 1e-5 exclusion band *)
Lemma boundary_pair_strictness :
  neighbors_frame None 500 1 [(0, 0, 0); (300, 400, 0)] [0%nat] [1%nat] = [] /\
  neighbors_frame None 501 1 [(0, 0, 0); (300, 400, 0)] [0%nat] [1%nat] = [1%nat] /\
  nlist_fix2 None 500 [(0, 0, 0); (300, 400, 0)] = [[1%nat]; [0%nat]] /\
  nlist_fix2 None 499 [(0, 0, 0); (300, 400, 0)] = [[]; []].
Proof. vm_compute. repeat split; reflexivity. Qed.

(* ---------------------------------------------------------------- compute_neighborlist *)
Lemma frame_index_some nf frame f : frame_index nf frame = Some f ->
  (f < nf)%nat /\ (Z.of_nat f = frame \/ Z.of_nat f = frame + Z.of_nat nf /\ frame < 0).
Proof.
  unfold frame_index. cbv zeta. destruct (frame <? 0) eqn:E.
  - destruct ((0 <=? frame + Z.of_nat nf) && (frame + Z.of_nat nf <? Z.of_nat nf)) eqn:E2; [|discriminate].
    intros H. inversion H. lia.
  - destruct ((0 <=? frame) && (frame <? Z.of_nat nf)) eqn:E2; [|discriminate]. intros H. inversion H. lia.
Qed.

(* the answer is the kernel's answer on the coordinates and the cell of the selected frame alone *)
Theorem nl_api_frame t c frame periodic f :
  frame_index (length (nt_xyz t)) frame = Some f ->
  compute_neighborlist_api t c frame periodic = NlRows (nlist_fix2 (cell_used t periodic f) c (nth f (nt_xyz t) [])).
Proof. intros H. unfold compute_neighborlist_api, compute_neighborlist_api_gen. now rewrite H. Qed.

(* a negative frame counts from the end; outside [-n_frames, n_frames) the call raises IndexError *)
Theorem nl_api_frame_selection t c frame periodic :
  let nf := Z.of_nat (length (nt_xyz t)) in
  (- nf <= frame < 0 -> compute_neighborlist_api t c frame periodic = compute_neighborlist_api t c (frame + nf) periodic) /\
  ((frame < - nf \/ nf <= frame) <-> compute_neighborlist_api t c frame periodic = NlIndexError).
Proof.
  cbv zeta. unfold compute_neighborlist_api, compute_neighborlist_api_gen, frame_index. cbv zeta.
  set (nf := Z.of_nat (length (nt_xyz t))). split.
  - intros H. replace (frame <? 0) with true by lia. replace (frame + nf <? 0) with false by lia. reflexivity.
  - destruct (frame <? 0) eqn:E.
    + destruct ((0 <=? frame + nf) && (frame + nf <? nf)) eqn:E2; split; intros H; try discriminate; try reflexivity; lia.
    + destruct ((0 <=? frame) && (frame <? nf)) eqn:E2; split; intros H; try discriminate; try reflexivity; lia.
Qed.

Theorem nl_api_not_periodic t c frame p :
  compute_neighborlist_api t c frame false = compute_neighborlist_api (mkNT (nt_natoms t) (nt_xyz t) None) c frame p.
Proof.
  unfold compute_neighborlist_api, compute_neighborlist_api_gen. cbn [nt_xyz].
  destruct (frame_index _ frame); [|reflexivity]. unfold cell_used. cbn [nt_cells]. now destruct p.
Qed.

(* whatever the frame and the flag: symmetric, irreflexive, duplicate-free rows over existing atoms *)
Theorem nl_api_relation t c frame periodic N i j :
  compute_neighborlist_api t c frame periodic = NlRows N ->
  (In j (nth i N []) -> In i (nth j N [])) /\ ~ In i (nth i N []) /\ NoDup (nth i N []).
Proof.
  unfold compute_neighborlist_api, compute_neighborlist_api_gen. destruct (frame_index _ frame) as [f|]; [|discriminate].
  intros H. inversion H. subst N.
  destruct (nlist_fix2_relation (cell_used t periodic f) c (nth f (nt_xyz t) []) i j) as (H1 & H2 & H3 & _). tauto.
Qed.

(* non-vacuity: a two-frame trajectory whose frames have different cells *)
Definition api_example : ntraj :=
  mkNT 3 [[(100, 100, 100); (3900, 150, 120); (2000, 2000, 2000)]; [(100, 100, 100); (3900, 150, 120); (2000, 2000, 2000)]]
       (Some [mkBox 4096 0 4096 0 0 4096; mkBox 8192 0 4096 0 0 4096]).
Lemma api_example_runs :
  compute_neighbors_api api_example 700 1 [0] None true = NbFrames [[1%nat]; []] /\
  compute_neighbors_api api_example 700 1 [0] None false = NbFrames [[]; []] /\
  compute_neighbors_api api_example 700 1 [0; -1] None true = NbValueError /\
  compute_neighbors_api api_example 700 1 [0] (Some [3]) true = NbValueError /\
  compute_neighborlist_api api_example 700 (-2) true = NlRows [[1%nat]; [0%nat]; []] /\
  compute_neighborlist_api api_example 700 (-1) true = NlRows [[]; []; []] /\
  compute_neighborlist_api api_example 700 2 true = NlIndexError.
Proof. vm_compute. repeat split; reflexivity. Qed.
