From Coq Require Import ZArith List Bool Lia ZifyBool Arith.
Import ListNotations.
Require Import MD.Neigh.Model MD.Neigh.Arith MD.Neigh.NeighborsProofs MD.Neigh.NlistProofs MD.Neigh.Complete.
Open Scope Z_scope.

(* ---------------------------------------------------------------- no cell *)
Lemma zmin_list_le d l : zmin_list d l <= d /\ forall x, In x l -> zmin_list d l <= x.
Proof.
  unfold zmin_list. revert d; induction l as [|a l IH]; intros d; cbn [fold_left]; [split; [lia|intros x []]|].
  destruct (IH (Z.min d a)) as (H1 & H2). split; [lia|].
  intros x [->|Hx]; [lia|now apply H2].
Qed.

Lemma zmax_list_ge d l : d <= zmax_list d l /\ forall x, In x l -> x <= zmax_list d l.
Proof.
  unfold zmax_list. revert d; induction l as [|a l IH]; intros d; cbn [fold_left]; [split; [lia|intros x []]|].
  destruct (IH (Z.max d a)) as (H1 & H2). split; [lia|].
  intros x [->|Hx]; [lia|now apply H2].
Qed.

Lemma in_pos_map (f : vec -> Z) xyz k : (k < length xyz)%nat -> In (f (pos xyz k)) (map f xyz).
Proof. intros Hk. apply in_map. unfold pos. now apply nth_In. Qed.

(* one axis of the open grid: atoms a, b (offsets from the minimum), n voxels of size sn/sd *)
Lemma open_axis_window sn sd n a b cc :
  0 < sn -> 0 < sd -> 1 <= n -> 0 <= a -> 0 <= b -> Z.abs (b - a) < cc ->
  let vi := clampZ 0 (n - 1) (a * sd / sn) in
  let vj := clampZ 0 (n - 1) (b * sd / sn) in
  let d := cc * sd / sn + 1 in
  Z.max (vi - d) 0 <= vj <= Z.min (vi + d) (n - 1).
Proof.
  intros Hsn Hsd Hn Ha Hb Hab vi vj d.
  pose proof (floor_shift sn (a * sd) ((b - a) * sd) Hsn) as Hs.
  replace (a * sd + (b - a) * sd) with (b * sd) in Hs by ring.
  assert (Z.abs ((b - a) * sd) / sn <= cc * sd / sn).
  { apply Z.div_le_mono; [lia|]. rewrite Z.abs_mul, (Z.abs_eq sd) by lia. apply Z.mul_le_mono_nonneg_r; lia. }
  unfold vi, vj, d, clampZ. lia.
Qed.

Lemma open_axis_dy sn sd n m a b :
  0 < sn -> 0 < sd -> 1 <= n -> 0 < m -> 0 <= a -> 0 <= b -> a * sd <= sn * n -> b * sd <= sn * n ->
  let vi := clampZ 0 (n - 1) (a * sd / sn) in
  let vj := clampZ 0 (n - 1) (b * sd / sn) in
  vi <> vj ->
  let e1 := (- a) * (sd * m) + (sn * m) * vj in
  Z.min (Z.abs e1) (Z.abs (e1 + sn * m)) <= Z.abs (b - a) * (sd * m).
Proof.
  intros Hsn Hsd Hn Hm Ha Hb Han Hbn vi vj Hne e1.
  pose proof (div_bounds (a * sd) sn Hsn) as Da. pose proof (div_bounds (b * sd) sn Hsn) as Db.
  assert (0 <= a * sd) by (apply Z.mul_nonneg_nonneg; lia).
  assert (0 <= b * sd) by (apply Z.mul_nonneg_nonneg; lia).
  assert (0 <= a * sd / sn) by (apply Z.div_pos; lia).
  assert (0 <= b * sd / sn) by (apply Z.div_pos; lia).
  set (fa := a * sd / sn) in *. set (fb := b * sd / sn) in *.
  assert (E1 : e1 = m * (sn * vj - a * sd)) by (subst e1; ring).
  assert (E2 : e1 + sn * m = m * (sn * (vj + 1) - a * sd)) by (subst e1; ring).
  replace (Z.abs (b - a) * (sd * m)) with (m * (Z.abs (b - a) * sd)) by ring.
  assert (Habs : Z.abs (b - a) * sd = Z.abs (b * sd - a * sd)).
  { replace (b * sd - a * sd) with ((b - a) * sd) by ring. rewrite Z.abs_mul, (Z.abs_eq sd) by lia. reflexivity. }
  rewrite Habs.
  destruct (Z_lt_ge_dec vi vj) as [Hlt|Hge].
  - (* centre left of the voxel: distance to its lower edge *)
    assert (fa = vi) by (unfold vi, vj, clampZ in *; lia).
    assert (sn * vj <= b * sd) by (unfold vj, clampZ in *; nia).
    assert (a * sd < sn * vj) by (unfold vi, vj, clampZ in *; nia).
    assert (Z.abs e1 <= m * Z.abs (b * sd - a * sd)); [|lia].
    rewrite E1, Z.abs_mul, (Z.abs_eq m) by lia. apply Z.mul_le_mono_nonneg_l; lia.
  - assert (Hgt : vj < vi) by lia.
    assert (fb = vj) by (unfold vi, vj, clampZ in *; lia).
    assert (b * sd < sn * (vj + 1)) by nia.
    assert (sn * (vj + 1) <= a * sd) by (unfold vi, vj, clampZ in *; nia).
    assert (Z.abs (e1 + sn * m) <= m * Z.abs (b * sd - a * sd)); [|lia].
    rewrite E2, Z.abs_mul, (Z.abs_eq m) by lia. apply Z.mul_le_mono_nonneg_l; lia.
Qed.

Section OpenComplete.
Variables (fl : bool) (c : Z) (xyz : list vec).
Hypothesis Hc : 0 < c.

Let g := the_grid fl None c xyz.
Let miny := zmin_list (vy (pos xyz 0)) (map vy xyz).
Let maxy := zmax_list (vy (pos xyz 0)) (map vy xyz).
Let minz := zmin_list (vz (pos xyz 0)) (map vz xyz).
Let maxz := zmax_list (vz (pos xyz 0)) (map vz xyz).
Let ny := nvox_open (maxy - miny) c.
Let nz := nvox_open (maxz - minz) c.
Let syn := if miny <? maxy then maxy - miny else c.
Let syd := if miny <? maxy then ny else 1.
Let szn := if minz <? maxz then maxz - minz else c.
Let szd := if minz <? maxz then nz else 1.
Let S := syd * szd.
Let S2 := S * S.

Lemma og_unfold : g = mkGrid false false (mkBox 0 0 0 0 0 0) ny nz syn syd szn szd miny minz fl.
Proof. reflexivity. Qed.

Lemma nvox_open_pos s : 1 <= nvox_open s c.
Proof. unfold nvox_open. lia. Qed.

Lemma open_bounds k : (k < length xyz)%nat ->
  miny <= vy (pos xyz k) <= maxy /\ minz <= vz (pos xyz k) <= maxz.
Proof.
  intros Hk.
  pose proof (proj2 (zmin_list_le (vy (pos xyz 0)) (map vy xyz)) _ (in_pos_map vy xyz k Hk)).
  pose proof (proj2 (zmax_list_ge (vy (pos xyz 0)) (map vy xyz)) _ (in_pos_map vy xyz k Hk)).
  pose proof (proj2 (zmin_list_le (vz (pos xyz 0)) (map vz xyz)) _ (in_pos_map vz xyz k Hk)).
  pose proof (proj2 (zmax_list_ge (vz (pos xyz 0)) (map vz xyz)) _ (in_pos_map vz xyz k Hk)).
  fold miny in H. fold maxy in H0. fold minz in H1. fold maxz in H2. lia.
Qed.

Lemma open_sizes : 0 < syn /\ 0 < syd /\ 0 < szn /\ 0 < szd /\ 1 <= ny /\ 1 <= nz.
Proof.
  pose proof (nvox_open_pos (maxy - miny)) as H1. pose proof (nvox_open_pos (maxz - minz)) as H2.
  fold ny in H1. fold nz in H2. unfold syn, syd, szn, szd.
  destruct (miny <? maxy) eqn:E1, (minz <? maxz) eqn:E2; lia.
Qed.

Lemma open_fit_y a : 0 <= a <= maxy - miny -> a * syd <= syn * ny.
Proof.
  intros Ha. pose proof (nvox_open_pos (maxy - miny)) as H1. fold ny in H1. unfold syn, syd.
  destruct (miny <? maxy) eqn:E1.
  - apply Z.mul_le_mono_nonneg_r; lia.
  - assert (a = 0) by lia. subst a. apply Z.mul_nonneg_nonneg; lia.
Qed.

Lemma open_fit_z a : 0 <= a <= maxz - minz -> a * szd <= szn * nz.
Proof.
  intros Ha. pose proof (nvox_open_pos (maxz - minz)) as H1. fold nz in H1. unfold szn, szd.
  destruct (minz <? maxz) eqn:E1.
  - apply Z.mul_le_mono_nonneg_r; lia.
  - assert (a = 0) by lia. subst a. apply Z.mul_nonneg_nonneg; lia.
Qed.

Lemma vox_range_open p vyi vzi y z :
  let e1y := (miny - vy p) * S + (syn * szd) * y in
  let e1z := (minz - vz p) * S + (szn * syd) * z in
  let dy := if y =? vyi then 0 else Z.min (Z.abs e1y) (Z.abs (e1y + syn * szd)) in
  let dz := if z =? vzi then 0 else Z.min (Z.abs e1z) (Z.abs (e1z + szn * syd)) in
  let D := c * c * S2 - dy * dy - dz * dz in
  vox_range g c p vyi vzi y z =
  if 0 <? D then mkRange false (vx p) (vx p) D false else mkRange true (vx p) (vx p) 0 false.
Proof.
  cbv zeta. rewrite og_unfold. unfold vox_range, yoffset, gS, gSY, gSZ.
  cbn [g_per g_tric g_box g_ny g_nz g_syn g_syd g_szn g_szd g_miny g_minz andb].
  rewrite !Z.sub_0_r. fold S. fold S2.
  match goal with |- (if 0 <? ?D then _ else _) = _ => set (DD := D) end.
  destruct (0 <? DD) eqn:E; [|reflexivity].
  f_equal.
  rewrite Z.sub_diag. unfold sqlt. replace (0 <? 0) with false by reflexivity. cbn [orb].
  replace (0 * 0 * S2) with 0 by ring. rewrite E. reflexivity.
Qed.

Theorem open_half i j :
  (j < i)%nat -> (i < length xyz)%nat ->
  norm2 (vsub (pos xyz j) (pos xyz i)) < c * c ->
  In j (nth i (nlist_half_gen fl None c xyz) []).
Proof.
  intros Hji Hi Hn.
  rewrite nth_nlist_half by exact Hi. fold g.
  set (p := pos xyz i). set (q := pos xyz j).
  assert (Hj : (j < length xyz)%nat) by lia.
  destruct (open_bounds i Hi) as (Byi & Bzi). destruct (open_bounds j Hj) as (Byj & Bzj). fold p in Byi, Bzi. fold q in Byj, Bzj.
  destruct open_sizes as (Hsyn & Hsyd & Hszn & Hszd & Hny & Hnz).
  set (dx := vx q - vx p). set (dy := vy q - vy p). set (dz := vz q - vz p).
  assert (Hn' : dx * dx + dy * dy + dz * dz < c * c).
  { unfold norm2, vsub, vx, vy, vz in Hn; cbn [fst snd] in Hn. subst dx dy dz. unfold vx, vy, vz. exact Hn. }
  pose proof (Z.square_nonneg dx) as Qx. pose proof (Z.square_nonneg dy) as Qy. pose proof (Z.square_nonneg dz) as Qz.
  assert (Hdy : Z.abs dy < c) by (apply sq_lt_sq; lia).
  assert (Hdz : Z.abs dz < c) by (apply sq_lt_sq; lia).
  assert (HS : 0 < S) by (unfold S; apply Z.mul_pos_pos; lia).
  assert (HS2 : 0 < S2) by (unfold S2; apply Z.mul_pos_pos; lia).
  (* voxel indices *)
  set (ai := vy p - miny). set (aj := vy q - miny). set (bi := vz p - minz). set (bj := vz q - minz).
  set (vyi := clampZ 0 (ny - 1) (ai * syd / syn)). set (vyj := clampZ 0 (ny - 1) (aj * syd / syn)).
  set (vzi := clampZ 0 (nz - 1) (bi * szd / szn)). set (vzj := clampZ 0 (nz - 1) (bj * szd / szn)).
  assert (Evp : vox_index g p = (vyi, vzi)) by reflexivity.
  assert (Evq : vox_index g q = (vyj, vzj)) by reflexivity.
  pose proof (open_axis_window syn syd ny ai aj c Hsyn Hsyd Hny ltac:(subst ai; lia) ltac:(subst aj; lia) ltac:(subst ai aj dy; lia)) as Wy.
  pose proof (open_axis_window szn szd nz bi bj c Hszn Hszd Hnz ltac:(subst bi; lia) ltac:(subst bj; lia) ltac:(subst bi bj dz; lia)) as Wz.
  cbv zeta in Wy, Wz. fold vyi vyj in Wy. fold vzi vzj in Wz.
  apply in_half_list. exists vzj, vyj, (j, q). rewrite Evp. cbn [fst snd].
  split; [apply in_zrange; exact Wz|]. split; [apply in_zrange; exact Wy|]. split; [|reflexivity].
  unfold piece. rewrite Evp. cbn [fst snd]. rewrite vox_range_open. cbv zeta.
  assert (Ewy : wy_of g vyj = vyj) by reflexivity. assert (Ewz : wz_of g vzj = vzj) by reflexivity.
  rewrite Ewy, Ewz.
  (* voxel distances against the separation *)
  assert (Bdy : 0 <= (if vyj =? vyi then 0 else Z.min (Z.abs ((miny - vy p) * S + syn * szd * vyj)) (Z.abs ((miny - vy p) * S + syn * szd * vyj + syn * szd))) <= Z.abs dy * S).
  { destruct (vyj =? vyi) eqn:E; [split; [lia|apply Z.mul_nonneg_nonneg; lia]|]. split; [lia|].
    pose proof (open_axis_dy syn syd ny szd ai aj Hsyn Hsyd Hny Hszd ltac:(subst ai; lia) ltac:(subst aj; lia)
                  (open_fit_y ai ltac:(subst ai; lia)) (open_fit_y aj ltac:(subst aj; lia))) as Hd.
    cbv zeta in Hd. fold vyi vyj in Hd. specialize (Hd ltac:(lia)).
    replace (miny - vy p) with (- ai) by (subst ai; ring). replace dy with (aj - ai) by (subst ai aj dy; ring).
    unfold S. exact Hd. }
  assert (Bdz : 0 <= (if vzj =? vzi then 0 else Z.min (Z.abs ((minz - vz p) * S + szn * syd * vzj)) (Z.abs ((minz - vz p) * S + szn * syd * vzj + szn * syd))) <= Z.abs dz * S).
  { destruct (vzj =? vzi) eqn:E; [split; [lia|apply Z.mul_nonneg_nonneg; lia]|]. split; [lia|].
    pose proof (open_axis_dy szn szd nz syd bi bj Hszn Hszd Hnz Hsyd ltac:(subst bi; lia) ltac:(subst bj; lia)
                  (open_fit_z bi ltac:(subst bi; lia)) (open_fit_z bj ltac:(subst bj; lia))) as Hd.
    cbv zeta in Hd. fold vzi vzj in Hd. specialize (Hd ltac:(lia)).
    replace (minz - vz p) with (- bi) by (subst bi; ring). replace dz with (bj - bi) by (subst bi bj dz; ring).
    unfold S. replace (syd * szd) with (szd * syd) by ring. exact Hd. }
  match goal with |- context [if 0 <? ?DD then _ else _] => set (D := DD) end.
  match type of Bdy with 0 <= ?a <= _ => set (dyv := a) in * end.
  match type of Bdz with 0 <= ?a <= _ => set (dzv := a) in * end.
  assert (HD : dx * dx * S2 < D).
  { subst D. fold dyv dzv.
    assert (dyv * dyv <= (Z.abs dy * S) * (Z.abs dy * S)) by (apply Z.mul_le_mono_nonneg; lia).
    assert (dzv * dzv <= (Z.abs dz * S) * (Z.abs dz * S)) by (apply Z.mul_le_mono_nonneg; lia).
    assert (Z.abs dy * S * (Z.abs dy * S) = dy * dy * S2).
    { unfold S2. replace (Z.abs dy * S * (Z.abs dy * S)) with (Z.abs dy * Z.abs dy * (S * S)) by ring. now rewrite Z.abs_square. }
    assert (Z.abs dz * S * (Z.abs dz * S) = dz * dz * S2).
    { unfold S2. replace (Z.abs dz * S * (Z.abs dz * S)) with (Z.abs dz * Z.abs dz * (S * S)) by ring. now rewrite Z.abs_square. }
    assert ((dx * dx + dy * dy + dz * dz) * S2 < c * c * S2) by (apply Z.mul_lt_mono_pos_r; lia).
    lia. }
  assert (HD0 : (0 <? D) = true).
  { apply Z.ltb_lt. assert (0 <= dx * dx * S2) by (apply Z.mul_nonneg_nonneg; [apply Z.square_nonneg|lia]). lia. }
  rewrite HD0. cbn [r_skip]. apply filter_In.
  assert (Hbin : In (j, q) (the_bins fl None c xyz vyj vzj)).
  { apply in_the_bins. cbn [fst snd]. split; [exact Hj|]. split; [reflexivity|]. fold g. exact Evq. }
  split; [exact Hbin|].
  apply cand_ok_iff. cbn [fst snd]. split; [exact Hji|]. split.
  - unfold in_ranges. cbv zeta.
    assert (E : gS g * gS g = S2) by reflexivity. rewrite E.
    set (r := mkRange false (vx p) (vx p) D false).
    assert (G1 : ge_minx S2 (vx p) r (vx q) = true).
    { apply (ge_minx_near S2 D (vx p) (vx q) r eq_refl eq_refl). replace (vx p - vx q) with (- dx) by (subst dx; ring).
      replace (- dx * - dx) with (dx * dx) by ring. lia. }
    assert (G2 : le_maxx S2 (vx p) r (vx q) = true).
    { apply (le_maxx_near S2 D (vx p) (vx q) r eq_refl eq_refl). fold dx. lia. }
    now rewrite G1, G2.
  - unfold dist_ok. cbv zeta. cbn [r_needp]. apply Z.leb_le.
    assert (norm2 (vsub q p) = dx * dx + dy * dy + dz * dz).
    { unfold norm2, vsub, vx, vy, vz; cbn [fst snd]. subst dx dy dz. unfold vx, vy, vz. ring. }
    lia.
Qed.
End OpenComplete.

Theorem nlist_cur_complete_nocell c xyz i j :
  0 < c -> (i < length xyz)%nat -> (j < length xyz)%nat -> i <> j ->
  norm2 (vsub (pos xyz j) (pos xyz i)) < c * c ->
  In j (nth i (nlist_cur None c xyz) []).
Proof.
  intros Hc Hi Hj Hne Hn. unfold nlist_cur.
  apply (in_complete _ i j (nlist_half_ok false None c xyz)); [now rewrite nlist_half_length|].
  destruct (Nat.lt_ge_cases j i) as [Hlt|Hge].
  - left. now apply open_half.
  - right. apply open_half; [exact Hc|lia|exact Hj|].
    replace (norm2 (vsub (pos xyz i) (pos xyz j))) with (norm2 (vsub (pos xyz j) (pos xyz i))); [exact Hn|].
    unfold norm2, vsub, vx, vy, vz; cbn [fst snd]. ring.
Qed.

Theorem nlist_fix2_complete_nocell c xyz i j :
  0 < c -> (i < length xyz)%nat -> (j < length xyz)%nat -> i <> j ->
  norm2 (vsub (pos xyz j) (pos xyz i)) < c * c ->
  In j (nth i (nlist_fix2 None c xyz) []).
Proof.
  intros Hc Hi Hj Hne Hn. unfold nlist_fix2, nlist_half_fix_gen.
  apply (in_complete _ i j (nlist_half_ok true None c xyz)); [now rewrite nlist_half_length|].
  destruct (Nat.lt_ge_cases j i) as [Hlt|Hge].
  - left. now apply open_half.
  - right. apply open_half; [exact Hc|lia|exact Hj|].
    replace (norm2 (vsub (pos xyz i) (pos xyz j))) with (norm2 (vsub (pos xyz j) (pos xyz i))); [exact Hn|].
    unfold norm2, vsub, vx, vy, vz; cbn [fst snd]. ring.
Qed.

