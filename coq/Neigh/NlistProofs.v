From Coq Require Import ZArith List Bool Lia ZifyBool Arith.
Import ListNotations.
Require Import MD.Neigh.Model MD.Neigh.Arith MD.Neigh.NeighborsProofs.
Open Scope Z_scope.

(* ---------------------------------------------------------------- list facts *)
Lemma NoDup_app_intro {A} (l1 l2 : list A) :
  NoDup l1 -> NoDup l2 -> (forall x, In x l1 -> In x l2 -> False) -> NoDup (l1 ++ l2).
Proof.
  induction 1 as [|x l1 Hx H1 IH]; intros H2 Hd; cbn [app]; [exact H2|].
  constructor.
  - intros Hin. apply in_app_or in Hin. destruct Hin as [Hin|Hin]; [contradiction|].
    apply (Hd x); [now left|exact Hin].
  - apply IH; [exact H2|]. intros y Hy. apply Hd. now right.
Qed.

Lemma NoDup_flat_map {A B} (f : A -> list B) (l : list A) :
  NoDup l -> (forall x, In x l -> NoDup (f x)) ->
  (forall x y b, In x l -> In y l -> In b (f x) -> In b (f y) -> x = y) ->
  NoDup (flat_map f l).
Proof.
  induction 1 as [|x l Hx Hl IH]; intros Hf Hd; cbn [flat_map]; [constructor|].
  apply NoDup_app_intro.
  - apply Hf. now left.
  - apply IH; [intros y Hy; apply Hf; now right|].
    intros y z b Hy Hz. apply Hd; now right.
  - intros b Hb Hb'. apply in_flat_map in Hb'. destruct Hb' as (y & Hy & Hby).
    assert (x = y) by (apply (Hd x y b); [now left|now right|exact Hb|exact Hby]).
    subst y. contradiction.
Qed.

Lemma NoDup_map_inj {A B} (f : A -> B) (l : list A) :
  (forall x y, In x l -> In y l -> f x = f y -> x = y) -> NoDup l -> NoDup (map f l).
Proof.
  intros Hinj H. induction H as [|x l Hx Hl IH]; cbn [map]; [constructor|].
  constructor.
  - intros Hin. apply in_map_iff in Hin. destruct Hin as (y & Hy & Hyl).
    assert (y = x) by (apply Hinj; [now right|now left|exact Hy]). subst y. contradiction.
  - apply IH. intros y z Hy Hz. apply Hinj; now right.
Qed.

(* ---------------------------------------------------------------- zrange, wrap1 *)
Lemma in_zrange lo hi z : In z (zrange lo hi) <-> lo <= z <= hi.
Proof.
  unfold zrange. rewrite in_map_iff. split.
  - intros (k & Hk & Hin). apply in_seq in Hin. lia.
  - intros H. exists (Z.to_nat (z - lo)). split; [lia|]. apply in_seq. lia.
Qed.

Lemma NoDup_zrange lo hi : NoDup (zrange lo hi).
Proof.
  unfold zrange. apply NoDup_map_inj; [|apply seq_NoDup].
  intros x y _ _ H. lia.
Qed.

(* on a window of at most n consecutive integers the single-step wrap is injective *)
Lemma wrap1_inj n y y' : 0 < n -> Z.abs (y - y') < n -> wrap1 n y = wrap1 n y' -> y = y'.
Proof. unfold wrap1. intros Hn Hd. destruct (y <? 0) eqn:E1, (y' <? 0) eqn:E2, (n <=? y) eqn:E3, (n <=? y') eqn:E4; lia. Qed.

(* ---------------------------------------------------------------- the bins *)
Lemma in_combine_seq {A} (l : list A) (d : A) s i p :
  In (i, p) (combine (seq s (length l)) l) <-> (s <= i < s + length l)%nat /\ nth (i - s) l d = p.
Proof.
  revert s; induction l as [|x l IH]; intros s; cbn [length seq combine].
  - split; [intros []|lia].
  - cbn [In]. rewrite IH. split.
    + intros [H|(H1 & H2)].
      * inversion H; subst. split; [lia|]. now rewrite Nat.sub_diag.
      * split; [lia|]. replace (i - s)%nat with (S (i - S s)) by lia. exact H2.
    + intros (H1 & H2). destruct (Nat.eq_dec i s) as [->|Hne].
      * left. rewrite Nat.sub_diag in H2. cbn in H2. now subst.
      * right. split; [lia|]. replace (i - s)%nat with (S (i - S s)) in H2 by lia. exact H2.
Qed.

Lemma map_fst_combine_seq {A} (l : list A) s : map fst (combine (seq s (length l)) l) = seq s (length l).
Proof. revert s; induction l as [|x l IH]; intros s; cbn; [reflexivity|]. now rewrite IH. Qed.

Lemma in_atoms_of xyz i p : In (i, p) (atoms_of xyz) <-> (i < length xyz)%nat /\ pos xyz i = p.
Proof.
  unfold atoms_of, pos. rewrite (in_combine_seq xyz (0, 0, 0) 0%nat i p). rewrite Nat.sub_0_r. split; intros (H1 & H2); (split; [lia|exact H2]).
Qed.

Lemma atoms_of_fst xyz : map fst (atoms_of xyz) = seq 0 (length xyz).
Proof. apply map_fst_combine_seq. Qed.

Lemma atoms_of_length xyz : length (atoms_of xyz) = length xyz.
Proof. transitivity (length (map fst (atoms_of xyz))); [symmetry; apply map_length|]. rewrite atoms_of_fst. apply seq_length. Qed.

Lemma assoc_map_in {A} (f : Z -> list A) keys k :
  In k keys -> assoc k (map (fun x => (x, f x)) keys) = f k.
Proof.
  unfold assoc. induction keys as [|x keys IH]; intros Hin; [destruct Hin|].
  cbn [map find fst]. destruct (x =? k) eqn:E.
  - apply Z.eqb_eq in E. now subst.
  - apply IH. destruct Hin as [->|Hin]; [rewrite Z.eqb_refl in E; discriminate|exact Hin].
Qed.

Lemma assoc_map_notin {A} (f : Z -> list A) keys k :
  ~ In k keys -> assoc k (map (fun x => (x, f x)) keys) = [].
Proof.
  unfold assoc. induction keys as [|x keys IH]; intros Hin; [reflexivity|].
  cbn [map find fst]. destruct (x =? k) eqn:E.
  - apply Z.eqb_eq in E. subst. exfalso. apply Hin. now left.
  - apply IH. intros H. apply Hin. now right.
Qed.

Lemma filter_nil_if {A} (f : A -> bool) l : (forall x, In x l -> f x = false) -> filter f l = [].
Proof.
  induction l as [|x l IH]; intros H; [reflexivity|]. cbn [filter].
  rewrite (H x (or_introl eq_refl)). apply IH. intros y Hy. apply H. now right.
Qed.

Lemma filter_filter {A} (f g : A -> bool) l : filter f (filter g l) = filter (fun x => g x && f x) l.
Proof.
  induction l as [|x l IH]; [reflexivity|]. cbn [filter]. destruct (g x); cbn [filter andb]; [destruct (f x)|]; now rewrite IH.
Qed.

Lemma map_snd_filter_tag {A K} (key : A -> K) (f : K -> bool) (l : list A) :
  map snd (filter (fun ve => f (fst ve)) (map (fun e => (key e, e)) l)) = filter (fun e => f (key e)) l.
Proof.
  induction l as [|x l IH]; [reflexivity|]. cbn [map filter fst]. destruct (f (key x)); cbn [map snd]; now rewrite IH.
Qed.

Lemma bin_lookup_table g es wy wz : bin_lookup (bin_table g es) wy wz = bin_atoms g es wy wz.
Proof.
  unfold bin_lookup, bin_table, bin_atoms. cbv zeta.
  set (ves := map (fun e => (vox_index g (snd e), e)) es).
  set (ys := nodup Z.eq_dec (map (fun ve => fst (fst ve)) ves)).
  destruct (in_dec Z.eq_dec wy ys) as [Hy|Hy].
  - rewrite (assoc_map_in (fun wy => map (fun wz => (wz, map snd (filter (fun ve => snd (fst ve) =? wz)
               (filter (fun ve => fst (fst ve) =? wy) ves))))
               (nodup Z.eq_dec (map (fun ve => snd (fst ve)) (filter (fun ve => fst (fst ve) =? wy) ves)))) ys wy Hy).
    set (slab := filter (fun ve => fst (fst ve) =? wy) ves).
    set (zs := nodup Z.eq_dec (map (fun ve => snd (fst ve)) slab)).
    destruct (in_dec Z.eq_dec wz zs) as [Hz|Hz].
    + rewrite (assoc_map_in (fun wz => map snd (filter (fun ve => snd (fst ve) =? wz) slab)) zs wz Hz).
      subst slab. rewrite filter_filter. subst ves.
      apply (map_snd_filter_tag (fun e => vox_index g (snd e)) (fun v => (fst v =? wy) && (snd v =? wz)) es).
    + rewrite (assoc_map_notin (fun wz => map snd (filter (fun ve => snd (fst ve) =? wz) slab)) zs wz Hz).
      symmetry. apply filter_nil_if. intros e He.
      destruct (fst (vox_index g (snd e)) =? wy) eqn:E1; [|reflexivity].
      destruct (snd (vox_index g (snd e)) =? wz) eqn:E2; [|reflexivity].
      exfalso. apply Hz. subst zs. apply nodup_In. apply in_map_iff.
      exists (vox_index g (snd e), e). cbn [fst snd]. split; [lia|].
      subst slab. apply filter_In. cbn [fst]. split; [|exact E1].
      subst ves. apply in_map_iff. now exists e.
  - rewrite (assoc_map_notin _ ys wy Hy). cbn [assoc find].
    symmetry. apply filter_nil_if. intros e He.
    destruct (fst (vox_index g (snd e)) =? wy) eqn:E1; [|reflexivity].
    exfalso. apply Hy. subst ys. apply nodup_In. apply in_map_iff.
    exists (vox_index g (snd e), e). cbn [fst snd]. split; [lia|].
    subst ves. apply in_map_iff. now exists e.
Qed.

(* ---------------------------------------------------------------- the grid *)
Definition grid_pos (g : vgrid) : Prop := 0 < g_ny g /\ 0 < g_nz g.

Lemma make_grid_pos fl cell c xyz : grid_pos (make_grid_gen fl cell c xyz).
Proof. unfold grid_pos, make_grid_gen, nvox_per, nvox_open. destruct cell; cbn [g_ny g_nz]; lia. Qed.

Definition wy_of (g : vgrid) (y : Z) : Z := if g_per g then wrap1 (g_ny g) y else y.
Definition wz_of (g : vgrid) (z : Z) : Z := if g_per g then wrap1 (g_nz g) z else z.

(* one visited voxel contributes these entries *)
Definition piece (g : vgrid) (c : Z) (bins : Z -> Z -> list entry) (i : nat) (p : vec) (z y : Z) : list entry :=
  let v := vox_index g p in
  let r := vox_range g c p (fst v) (snd v) y z in
  if r_skip r then []
  else filter (cand_ok g c i p r (has_below g (vx p) r (bins (wy_of g y) (wz_of g z)))
                                 (has_above g (vx p) r (bins (wy_of g y) (wz_of g z))))
              (bins (wy_of g y) (wz_of g z)).

Lemma half_list_pieces g c bins i p :
  half_list g c bins i p =
  flat_map (fun z => flat_map (fun y => map fst (piece g c bins i p z y)) (ywindow g c (fst (vox_index g p)) z))
           (zwindow g c (snd (vox_index g p))).
Proof.
  unfold half_list, piece, wy_of, wz_of. cbv zeta.
  apply flat_map_ext. intros z. apply flat_map_ext. intros y.
  destruct (r_skip _); reflexivity.
Qed.

Lemma in_half_list g c bins i p j :
  In j (half_list g c bins i p) <->
  exists z y e, In z (zwindow g c (snd (vox_index g p))) /\ In y (ywindow g c (fst (vox_index g p)) z) /\
                In e (piece g c bins i p z y) /\ fst e = j.
Proof.
  rewrite half_list_pieces, in_flat_map. split.
  - intros (z & Hz & H). apply in_flat_map in H. destruct H as (y & Hy & H).
    apply in_map_iff in H. destruct H as (e & He & Hin). now exists z, y, e.
  - intros (z & y & e & Hz & Hy & He & Hj). exists z. split; [exact Hz|].
    apply in_flat_map. exists y. split; [exact Hy|]. apply in_map_iff. now exists e.
Qed.

Lemma cand_ok_iff g c i p r below above e :
  cand_ok g c i p r below above e = true <->
  (fst e < i)%nat /\ in_ranges g (vx p) r below above (vx (snd e)) = true /\ dist_ok g c p r (snd e) = true.
Proof.
  unfold cand_ok. destruct (in_ranges _ _ _ _ _ _).
  - destruct (Nat.ltb (fst e) i) eqn:E1.
    + apply Nat.ltb_lt in E1. tauto.
    + apply Nat.ltb_ge in E1. split; [discriminate|]. intros (H & _). lia.
  - split; [discriminate|]. intros (_ & H & _). discriminate.
Qed.

Lemma in_piece g c bins i p z y e :
  In e (piece g c bins i p z y) ->
  In e (bins (wy_of g y) (wz_of g z)) /\ (fst e < i)%nat /\
  dist_ok g c p (vox_range g c p (fst (vox_index g p)) (snd (vox_index g p)) y z) (snd e) = true.
Proof.
  unfold piece. cbv zeta. destruct (r_skip _); [intros []|].
  intros H. apply filter_In in H. destruct H as (H1 & H2). apply cand_ok_iff in H2. tauto.
Qed.

(* F1: only smaller indices *)
Lemma half_list_lt g c bins i p j : In j (half_list g c bins i p) -> (j < i)%nat.
Proof.
  intros H. apply in_half_list in H. destruct H as (z & y & e & _ & _ & He & <-).
  apply in_piece in He. tauto.
Qed.

(* F4: a listed atom has a lattice image (the plain displacement when there is no cell) within the cutoff *)
Lemma wrap_diag_lat' B d : exists k1 k2 k3,
  wrap_diag B d = vsub d (k1 * b_ax B, k2 * b_by B, k3 * b_cz B).
Proof.
  exists (rnd_htz (vx d) (b_ax B)), (rnd_htz (vy d) (b_by B)), (rnd_htz (vz d) (b_cz B)).
  apply vec_eq; unfold wrap_diag, vsub, vx, vy, vz; cbn [fst snd]; ring.
Qed.

Lemma half_list_sound g c bins i p j :
  (forall wy wz e, In e (bins wy wz) -> True) ->
  In j (half_list g c bins i p) ->
  exists z y e, In e (bins (wy_of g y) (wz_of g z)) /\ fst e = j /\
    let d := vsub (snd e) p in
    (norm2 d <= c * c \/
     (g_per g = true /\
      ((g_tric g = true /\ exists k1 k2 k3, norm2 (vsub d (lat (g_box g) k1 k2 k3)) <= c * c) \/
       (g_tric g = false /\ exists k1 k2 k3, norm2 (vsub d (k1 * b_ax (g_box g), k2 * b_by (g_box g), k3 * b_cz (g_box g))) <= c * c)))).
Proof.
  intros _ H. apply in_half_list in H. destruct H as (z & y & e & _ & _ & He & Hj).
  exists z, y, e. apply in_piece in He. destruct He as (Hin & _ & Hf). split; [exact Hin|]. split; [exact Hj|].
  cbv zeta. unfold dist_ok in Hf. cbv zeta in Hf.
  set (r := vox_range _ _ _ _ _ _ _) in Hf.
  destruct (r_needp r) eqn:En.
  - right.
    assert (Hper : g_per g = true).
    { subst r. unfold vox_range in En. cbv zeta in En.
      destruct (g_per g); [reflexivity|]. cbn [andb] in En.
      match type of En with context [if 0 <? ?D then _ else _] => destruct (0 <? D) end; cbn in En; discriminate. }
    split; [exact Hper|].
    destruct (g_tric g) eqn:Et.
    + left. split; [reflexivity|]. destruct (wrap_seq_lat fl_half (g_box g) (vsub (snd e) p)) as (k1 & k2 & k3 & E).
      exists k1, k2, k3. rewrite <- E. now apply Z.leb_le.
    + right. split; [reflexivity|]. destruct (wrap_diag_lat' (g_box g) (vsub (snd e) p)) as (k1 & k2 & k3 & E).
      exists k1, k2, k3. rewrite <- E. now apply Z.leb_le.
  - left. now apply Z.leb_le.
Qed.

(* ---------------------------------------------------------------- per-atom view of nlist_half *)
Lemma nth_atoms_of xyz i d : (i < length xyz)%nat -> nth i (atoms_of xyz) d = (i, pos xyz i).
Proof.
  intros Hi. unfold atoms_of. destruct d as (d1, d2). rewrite combine_nth by (now rewrite seq_length).
  rewrite seq_nth by exact Hi. unfold pos. cbn [plus]. f_equal. apply nth_indep. exact Hi.
Qed.

Definition the_grid (fl : bool) (cell : option box) (c : Z) (xyz : list vec) : vgrid := make_grid_gen fl cell c xyz.
Definition the_bins (fl : bool) (cell : option box) (c : Z) (xyz : list vec) : Z -> Z -> list entry :=
  bin_atoms (the_grid fl cell c xyz) (atoms_of xyz).

Lemma half_list_ext g c bins bins' i p : (forall wy wz, bins wy wz = bins' wy wz) ->
  half_list g c bins i p = half_list g c bins' i p.
Proof.
  intros H. unfold half_list. cbv zeta. apply flat_map_ext. intros z. apply flat_map_ext. intros y.
  now rewrite H.
Qed.

Lemma nth_nlist_half fl cell c xyz i : (i < length xyz)%nat ->
  nth i (nlist_half_gen fl cell c xyz) [] =
  half_list (the_grid fl cell c xyz) c (the_bins fl cell c xyz) i (pos xyz i).
Proof.
  intros Hi. unfold nlist_half_gen. cbv zeta.
  set (f := fun e : entry => half_list _ _ _ (fst e) (snd e)).
  assert (E : [] = f (0%nat, (0, 0, 0)) \/ True) by now right.
  rewrite (nth_indep _ [] (f (0%nat, (0, 0, 0)))) by (rewrite map_length, atoms_of_length; exact Hi).
  rewrite map_nth. rewrite nth_atoms_of by exact Hi. subst f. cbn [fst snd].
  apply half_list_ext. intros wy wz. apply bin_lookup_table.
Qed.

Lemma nlist_half_length fl cell c xyz : length (nlist_half_gen fl cell c xyz) = length xyz.
Proof. unfold nlist_half_gen. cbv zeta. now rewrite map_length, atoms_of_length. Qed.

Lemma in_nlist_half fl cell c xyz i j :
  In j (nth i (nlist_half_gen fl cell c xyz) []) ->
  (i < length xyz)%nat /\ In j (half_list (the_grid fl cell c xyz) c (the_bins fl cell c xyz) i (pos xyz i)).
Proof.
  intros H. destruct (Nat.lt_ge_cases i (length xyz)) as [Hi|Hi].
  - split; [exact Hi|]. now rewrite <- nth_nlist_half.
  - rewrite nth_overflow in H by (now rewrite nlist_half_length). destruct H.
Qed.

Lemma in_the_bins fl cell c xyz wy wz e :
  In e (the_bins fl cell c xyz wy wz) <->
  (fst e < length xyz)%nat /\ snd e = pos xyz (fst e) /\ vox_index (the_grid fl cell c xyz) (snd e) = (wy, wz).
Proof.
  unfold the_bins, bin_atoms. rewrite filter_In. cbv zeta. destruct e as (j, q). rewrite in_atoms_of. cbn [fst snd].
  destruct (vox_index _ q) as (a, b). cbn [fst snd]. split.
  - intros ((H1 & H2) & H3). split; [exact H1|]. split; [now symmetry|]. f_equal; lia.
  - intros (H1 & H2 & H3). inversion H3; subst. split; [split; [exact H1|reflexivity]|]. lia.
Qed.

(* ---------------------------------------------------------------- soundness *)
Definition image_within (cell : option box) (c : Z) (p q : vec) : Prop :=
  match cell with
  | None => norm2 (vsub q p) <= c * c
  | Some B => exists k1 k2 k3, norm2 (vsub (vsub q p) (lat B k1 k2 k3)) <= c * c
  end.

Lemma lat_zero B : lat B 0 0 0 = (0, 0, 0).
Proof. reflexivity. Qed.

Lemma vsub_zero d : vsub d (0, 0, 0) = d.
Proof. destruct d as ((a, b), c). unfold vsub, vx, vy, vz; cbn. f_equal; [f_equal|]; ring. Qed.

Lemma nlist_half_sound fl cell c xyz i j :
  In j (nth i (nlist_half_gen fl cell c xyz) []) ->
  (j < i)%nat /\ (i < length xyz)%nat /\ image_within cell c (pos xyz i) (pos xyz j).
Proof.
  intros H. apply in_nlist_half in H. destruct H as (Hi & H).
  split; [now apply half_list_lt in H|]. split; [exact Hi|].
  apply half_list_sound in H; [|trivial]. destruct H as (z & y & e & Hin & Hj & H). cbv zeta in H.
  apply in_the_bins in Hin. destruct Hin as (_ & He & _). rewrite Hj in He. rewrite He in H.
  unfold image_within, the_grid, make_grid in *. destruct cell as [B0|].
  - cbn [g_per g_tric g_box] in H. destruct H as [H|(_ & [(Ht & k1 & k2 & k3 & H)|(Ht & k1 & k2 & k3 & H)])].
    + exists 0, 0, 0. now rewrite lat_zero, vsub_zero.
    + destruct (reduce_lat B0 k1 k2 k3) as (m1 & m2 & m3 & E). exists m1, m2, m3. now rewrite <- E.
    + apply offdiag_false in Ht. destruct Ht as (H1 & H2 & H3).
      destruct (reduce_lat B0 k1 k2 k3) as (m1 & m2 & m3 & E). exists m1, m2, m3. rewrite <- E.
      replace (lat (reduce_box B0) k1 k2 k3) with
        (k1 * b_ax (reduce_box B0), k2 * b_by (reduce_box B0), k3 * b_cz (reduce_box B0)); [exact H|].
      apply vec_eq; unfold lat, vadd, vscale, avec, bvec, cvec, vx, vy, vz; cbn [fst snd]; rewrite ?H1, ?H2, ?H3; ring.
  - cbn [g_per] in H. destruct H as [H|(Hp & _)]; [exact H|discriminate].
Qed.

(* ---------------------------------------------------------------- F2: no duplicates in a half list *)
Lemma zwindow_span g c vzi z z' : grid_pos g -> g_per g = true ->
  In z (zwindow g c vzi) -> In z' (zwindow g c vzi) -> Z.abs (z - z') < g_nz g.
Proof.
  intros (_ & Hn) Hp. unfold zwindow. rewrite Hp. cbv zeta. rewrite !in_zrange. lia.
Qed.

Lemma ywindow_span g c vyi zz y y' : grid_pos g -> g_per g = true ->
  In y (ywindow g c vyi zz) -> In y' (ywindow g c vyi zz) -> Z.abs (y - y') < g_ny g.
Proof.
  intros (Hn & _) Hp. unfold ywindow. rewrite Hp. cbv zeta.
  destruct (g_fully g && g_tric g && (g_nz g <? 5)); rewrite !in_zrange; lia.
Qed.

Lemma NoDup_zwindow g c vzi : NoDup (zwindow g c vzi).
Proof. unfold zwindow. cbv zeta. destruct (g_per g); apply NoDup_zrange. Qed.

Lemma NoDup_ywindow g c vyi z : NoDup (ywindow g c vyi z).
Proof. unfold ywindow. cbv zeta. destruct (g_per g); [destruct (g_fully g && g_tric g && (g_nz g <? 5))|]; apply NoDup_zrange. Qed.

Lemma wz_of_inj g c vzi z z' : grid_pos g ->
  In z (zwindow g c vzi) -> In z' (zwindow g c vzi) -> wz_of g z = wz_of g z' -> z = z'.
Proof.
  intros Hg Hz Hz'. unfold wz_of. destruct (g_per g) eqn:Hp; [|tauto].
  apply wrap1_inj; [apply Hg|]. now apply (zwindow_span g c vzi).
Qed.

Lemma wy_of_inj g c vyi zz y y' : grid_pos g ->
  In y (ywindow g c vyi zz) -> In y' (ywindow g c vyi zz) -> wy_of g y = wy_of g y' -> y = y'.
Proof.
  intros Hg Hy Hy'. unfold wy_of. destruct (g_per g) eqn:Hp; [|tauto].
  apply wrap1_inj; [apply Hg|]. now apply (ywindow_span g c vyi zz).
Qed.

Lemma the_bins_fst_inj fl cell c xyz wy wz wy' wz' e e' :
  In e (the_bins fl cell c xyz wy wz) -> In e' (the_bins fl cell c xyz wy' wz') -> fst e = fst e' ->
  e = e' /\ wy = wy' /\ wz = wz'.
Proof.
  intros H H' Hf. apply in_the_bins in H, H'. destruct H as (_ & H2 & H3), H' as (_ & H2' & H3').
  assert (E : snd e = snd e') by (rewrite H2, H2', Hf; reflexivity).
  split; [destruct e, e'; cbn in *; now subst|]. rewrite E in H3. rewrite H3 in H3'. now inversion H3'.
Qed.

Lemma NoDup_the_bins fl cell c xyz wy wz : NoDup (map fst (the_bins fl cell c xyz wy wz)).
Proof.
  apply NoDup_map_inj.
  - intros e e' He He' Hf. now destruct (the_bins_fst_inj fl cell c xyz wy wz wy wz e e' He He' Hf).
  - unfold the_bins, bin_atoms. apply List.NoDup_filter.
    apply (NoDup_map_inv fst). rewrite atoms_of_fst. apply seq_NoDup.
Qed.

Lemma piece_incl g c bins i p z y e : In e (piece g c bins i p z y) -> In e (bins (wy_of g y) (wz_of g z)).
Proof. intros H. now apply in_piece in H. Qed.

Lemma NoDup_piece fl cell c xyz i p z y :
  NoDup (map fst (piece (the_grid fl cell c xyz) c (the_bins fl cell c xyz) i p z y)).
Proof.
  unfold piece. cbv zeta. destruct (r_skip _); [constructor|].
  apply NoDup_map_inj.
  - intros e e' He He' Hf. apply filter_In in He, He'.
    now destruct (the_bins_fst_inj fl cell c xyz _ _ _ _ e e' (proj1 He) (proj1 He') Hf).
  - apply List.NoDup_filter. apply (NoDup_map_inv fst). apply NoDup_the_bins.
Qed.

Lemma half_list_nodup fl cell c xyz i p :
  NoDup (half_list (the_grid fl cell c xyz) c (the_bins fl cell c xyz) i p).
Proof.
  set (g := the_grid fl cell c xyz).
  assert (Hg : grid_pos g) by apply make_grid_pos.
  rewrite half_list_pieces. apply NoDup_flat_map.
  - apply NoDup_zwindow.
  - intros z Hz. apply NoDup_flat_map.
    + apply NoDup_ywindow.
    + intros y Hy. apply NoDup_piece.
    + intros y y' b Hy Hy' Hb Hb'. apply in_map_iff in Hb, Hb'.
      destruct Hb as (e & He & Hin), Hb' as (e' & He' & Hin').
      apply piece_incl in Hin, Hin'.
      destruct (the_bins_fst_inj fl cell c xyz _ _ _ _ e e' Hin Hin' ltac:(congruence)) as (_ & Hwy & _).
      now apply (wy_of_inj g c (fst (vox_index g p)) z).
  - intros z z' b Hz Hz' Hb Hb'. apply in_flat_map in Hb, Hb'.
    destruct Hb as (y & Hy & Hb), Hb' as (y' & Hy' & Hb').
    apply in_map_iff in Hb, Hb'.
    destruct Hb as (e & He & Hin), Hb' as (e' & He' & Hin').
    apply piece_incl in Hin, Hin'.
    destruct (the_bins_fst_inj fl cell c xyz _ _ _ _ e e' Hin Hin' ltac:(congruence)) as (_ & _ & Hwz).
    now apply (wz_of_inj g c (snd (vox_index g p))).
Qed.

(* ---------------------------------------------------------------- F5: symmetric completion *)
Definition half_ok (H : list (list nat)) : Prop :=
  (forall i j, In j (nth i H []) -> (j < i)%nat) /\ (forall i, NoDup (nth i H [])).

Lemma nlist_half_ok fl cell c xyz : half_ok (nlist_half_gen fl cell c xyz).
Proof.
  split.
  - intros i j H. now apply nlist_half_sound in H.
  - intros i. destruct (Nat.lt_ge_cases i (length xyz)) as [Hi|Hi].
    + rewrite nth_nlist_half by exact Hi. apply half_list_nodup.
    + rewrite nth_overflow by (now rewrite nlist_half_length). constructor.
Qed.

Lemma nth_complete H i : (i < length H)%nat ->
  nth i (complete H) [] = nth i H [] ++ filter (fun k => existsb (Nat.eqb i) (nth k H [])) (seq 0 (length H)).
Proof.
  intros Hi. unfold complete.
  set (f := fun i => nth i H [] ++ filter (fun k => existsb (Nat.eqb i) (nth k H [])) (seq 0 (length H))).
  rewrite (nth_indep _ [] (f 0%nat)) by (now rewrite map_length, seq_length).
  rewrite map_nth. now rewrite seq_nth by exact Hi.
Qed.

Lemma complete_length H : length (complete H) = length H.
Proof. unfold complete. now rewrite map_length, seq_length. Qed.

Lemma existsb_eqb_in i l : existsb (Nat.eqb i) l = true <-> In i l.
Proof.
  rewrite existsb_exists. split.
  - intros (x & Hx & E). apply Nat.eqb_eq in E. now subst.
  - intros Hi. exists i. split; [exact Hi|apply Nat.eqb_refl].
Qed.

Lemma in_complete H i j : half_ok H -> (i < length H)%nat ->
  (In j (nth i (complete H) []) <-> In j (nth i H []) \/ In i (nth j H [])).
Proof.
  intros (Hlt & _) Hi. rewrite nth_complete by exact Hi. rewrite in_app_iff, filter_In, in_seq, existsb_eqb_in.
  split; [tauto|]. intros [Hj|Hj]; [now left|right]. split; [|exact Hj].
  destruct (Nat.lt_ge_cases j (length H)) as [Hjl|Hjl]; [lia|].
  rewrite nth_overflow in Hj by exact Hjl. destruct Hj.
Qed.

Lemma complete_sym H i j : half_ok H ->
  In j (nth i (complete H) []) -> In i (nth j (complete H) []).
Proof.
  intros Hok Hin.
  assert (Hi : (i < length H)%nat).
  { destruct (Nat.lt_ge_cases i (length H)) as [Hi|Hi]; [exact Hi|].
    rewrite nth_overflow in Hin by (now rewrite complete_length). destruct Hin. }
  apply (in_complete H i j Hok Hi) in Hin.
  assert (Hj : (j < length H)%nat).
  { destruct Hok as (Hlt & _). destruct Hin as [Hin|Hin].
    - apply Hlt in Hin. lia.
    - destruct (Nat.lt_ge_cases j (length H)) as [Hj|Hj]; [exact Hj|].
      rewrite nth_overflow in Hin by exact Hj. destruct Hin. }
  apply (in_complete H j i Hok Hj). tauto.
Qed.

Lemma complete_irrefl H i : half_ok H -> ~ In i (nth i (complete H) []).
Proof.
  intros Hok Hin.
  assert (Hi : (i < length H)%nat).
  { destruct (Nat.lt_ge_cases i (length H)) as [Hi|Hi]; [exact Hi|].
    rewrite nth_overflow in Hin by (now rewrite complete_length). destruct Hin. }
  apply (in_complete H i i Hok Hi) in Hin. destruct Hok as (Hlt & _).
  destruct Hin as [Hin|Hin]; apply Hlt in Hin; lia.
Qed.

Lemma complete_nodup H i : half_ok H -> NoDup (nth i (complete H) []).
Proof.
  intros Hok. destruct (Nat.lt_ge_cases i (length H)) as [Hi|Hi].
  - rewrite nth_complete by exact Hi. destruct Hok as (Hlt & Hnd). apply NoDup_app_intro.
    + apply Hnd.
    + apply List.NoDup_filter, seq_NoDup.
    + intros x Hx Hx'. apply filter_In in Hx'. destruct Hx' as (_ & Hx'). apply existsb_eqb_in in Hx'.
      apply Hlt in Hx, Hx'. lia.
  - rewrite nth_overflow by (now rewrite complete_length). constructor.
Qed.

Lemma complete_range H i j : half_ok H -> In j (nth i (complete H) []) -> (i < length H)%nat /\ (j < length H)%nat.
Proof.
  intros Hok Hin.
  assert (Hi : (i < length H)%nat).
  { destruct (Nat.lt_ge_cases i (length H)) as [Hi|Hi]; [exact Hi|].
    rewrite nth_overflow in Hin by (now rewrite complete_length). destruct Hin. }
  split; [exact Hi|]. apply (in_complete H i j Hok Hi) in Hin. destruct Hok as (Hlt & _).
  destruct Hin as [Hin|Hin].
  - apply Hlt in Hin. lia.
  - destruct (Nat.lt_ge_cases j (length H)) as [Hj|Hj]; [exact Hj|].
    rewrite nth_overflow in Hin by exact Hj. destruct Hin.
Qed.
