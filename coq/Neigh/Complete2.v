From Coq Require Import ZArith List Bool Lia ZifyBool Arith.
Import ListNotations.
Require Import MD.Neigh.Model MD.Neigh.Arith MD.Neigh.NeighborsProofs MD.Neigh.NlistProofs MD.Neigh.Complete.
Open Scope Z_scope.

Lemma norm2_neg_image B p q k1 k2 k3 :
  norm2 (vsub (vsub p q) (lat B (- k1) (- k2) (- k3))) = norm2 (vsub (vsub q p) (lat B k1 k2 k3)).
Proof. unfold norm2, vsub, lat, vadd, vscale, avec, bvec, cvec, vx, vy, vz; cbn [fst snd]. ring. Qed.

(* the full list (after symmetric completion), both orders *)
Theorem nlist_gen_complete_ortho_incell fl B c xyz i j k1 k2 k3 :
  box_ok B -> ortho B -> 0 < c ->
  2 * c <= b_ax B /\ 2 * c <= b_by B /\ 2 * c <= b_cz B ->
  (forall k, (k < length xyz)%nat -> in_cell B (pos xyz k)) ->
  (i < length xyz)%nat -> (j < length xyz)%nat -> i <> j ->
  norm2 (vsub (vsub (pos xyz j) (pos xyz i)) (lat B k1 k2 k3)) < c * c ->
  In j (nth i (complete (nlist_half_gen fl (Some B) c xyz)) []).
Proof.
  intros HB HO Hc Hh Hin Hi Hj Hne Hn.
  apply (in_complete _ i j (nlist_half_ok fl (Some B) c xyz)); [now rewrite nlist_half_length|].
  destruct (Nat.lt_ge_cases j i) as [Hlt|Hge].
  - left. now apply (ortho_incell_half fl B c xyz HB HO Hc Hh Hin i j k1 k2 k3).
  - right. apply (ortho_incell_half fl B c xyz HB HO Hc Hh Hin j i (- k1) (- k2) (- k3)); [lia|exact Hj|].
    now rewrite norm2_neg_image.
Qed.

Theorem nlist_cur_complete_ortho_incell B c xyz i j k1 k2 k3 :
  box_ok B -> ortho B -> 0 < c ->
  2 * c <= b_ax B /\ 2 * c <= b_by B /\ 2 * c <= b_cz B ->
  (forall k, (k < length xyz)%nat -> in_cell B (pos xyz k)) ->
  (i < length xyz)%nat -> (j < length xyz)%nat -> i <> j ->
  norm2 (vsub (vsub (pos xyz j) (pos xyz i)) (lat B k1 k2 k3)) < c * c ->
  In j (nth i (nlist_cur (Some B) c xyz) []).
Proof.
  intros HB HO Hc Hh Hin Hi Hj Hne Hn. unfold nlist_cur.
  apply (in_complete _ i j (nlist_half_ok false (Some B) c xyz)); [now rewrite nlist_half_length|].
  destruct (Nat.lt_ge_cases j i) as [Hlt|Hge].
  - left. now apply (ortho_incell_half false B c xyz HB HO Hc Hh Hin i j k1 k2 k3).
  - right. apply (ortho_incell_half false B c xyz HB HO Hc Hh Hin j i (- k1) (- k2) (- k3)); [lia|exact Hj|].
    now rewrite norm2_neg_image.
Qed.

(* ---------------------------------------------------------------- the repaired variant *)
Lemma wrap_into_cell_lat B p : exists m1 m2 m3, wrap_into_cell B p = vsub p (lat B m1 m2 m3).
Proof.
  unfold wrap_into_cell.
  set (q3 := vz p / b_cz B). set (p1 := vsub p (vscale q3 (cvec B))).
  set (q2 := vy p1 / b_by B). set (p2 := vsub p1 (vscale q2 (bvec B))).
  set (q1 := vx p2 / b_ax B).
  exists q1, q2, q3. apply vec_eq; subst p2 p1; unfold vsub, lat, vadd, vscale, avec, bvec, cvec, vx, vy, vz; cbn [fst snd]; ring.
Qed.

Lemma wrap_into_cell_in B p : box_ok B -> ortho B -> in_cell B (wrap_into_cell B p).
Proof.
  intros (Ha & Hb & Hc) (H1 & H2 & H3). unfold in_cell, wrap_into_cell, vsub, vscale, avec, bvec, cvec, vx, vy, vz; cbn [fst snd].
  rewrite H1, H2, H3. rewrite !Z.mul_0_r, !Z.sub_0_r.
  pose proof (div_bounds (fst (fst p)) (b_ax B) Ha). pose proof (div_bounds (snd (fst p)) (b_by B) Hb).
  pose proof (div_bounds (snd p) (b_cz B) Hc). lia.
Qed.

Lemma pos_map f xyz k : (k < length xyz)%nat -> pos (map f xyz) k = f (pos xyz k).
Proof.
  intros Hk. unfold pos. rewrite (nth_indep (map f xyz) (0, 0, 0) (f (0, 0, 0))) by (now rewrite map_length).
  apply map_nth.
Qed.

Theorem nlist_fix_complete_ortho B c xyz i j k1 k2 k3 :
  box_ok B -> ortho B -> 0 < c ->
  2 * c <= b_ax B /\ 2 * c <= b_by B /\ 2 * c <= b_cz B ->
  (i < length xyz)%nat -> (j < length xyz)%nat -> i <> j ->
  norm2 (vsub (vsub (pos xyz j) (pos xyz i)) (lat B k1 k2 k3)) < c * c ->
  In j (nth i (nlist_fix (Some B) c xyz) []).
Proof.
  intros HB HO Hc Hh Hi Hj Hne Hn. unfold nlist_fix, nlist_half_fix. rewrite (reduce_box_ortho B HB HO).
  set (xyz' := map (wrap_into_cell B) xyz).
  assert (Hlen : length xyz' = length xyz) by (unfold xyz'; apply map_length).
  destruct (wrap_into_cell_lat B (pos xyz i)) as (a1 & a2 & a3 & Ei).
  destruct (wrap_into_cell_lat B (pos xyz j)) as (b1 & b2 & b3 & Ej).
  apply (nlist_cur_complete_ortho_incell B c xyz' i j (k1 - b1 + a1) (k2 - b2 + a2) (k3 - b3 + a3) HB HO Hc Hh).
  - intros k Hk. rewrite Hlen in Hk. unfold xyz'. rewrite pos_map by exact Hk. now apply wrap_into_cell_in.
  - now rewrite Hlen.
  - now rewrite Hlen.
  - exact Hne.
  - unfold xyz'. rewrite !pos_map by assumption. rewrite Ei, Ej.
    replace (norm2 _) with (norm2 (vsub (vsub (pos xyz j) (pos xyz i)) (lat B k1 k2 k3))); [exact Hn|].
    unfold norm2, vsub, lat, vadd, vscale, avec, bvec, cvec, vx, vy, vz; cbn [fst snd]. ring.
Qed.

(* the repaired variant is sound for the ORIGINAL positions, any cell *)
Lemma nlist_half_fix_ok cell c xyz : half_ok (nlist_half_fix cell c xyz).
Proof. unfold nlist_half_fix. destruct cell; apply nlist_half_ok. Qed.

Lemma nlist_half_fix_length cell c xyz : length (nlist_half_fix cell c xyz) = length xyz.
Proof. unfold nlist_half_fix. destruct cell; rewrite nlist_half_length; [apply map_length|reflexivity]. Qed.

Theorem nlist_half_fix_sound cell c xyz i j :
  In j (nth i (nlist_half_fix cell c xyz) []) ->
  (j < i)%nat /\ (i < length xyz)%nat /\ image_within cell c (pos xyz i) (pos xyz j).
Proof.
  unfold nlist_half_fix. destruct cell as [B|]; [|apply nlist_half_sound].
  intros H. apply nlist_half_sound in H. destruct H as (Hji & Hi & Him). rewrite map_length in Hi.
  split; [exact Hji|]. split; [exact Hi|].
  unfold image_within in *. destruct Him as (k1 & k2 & k3 & Hn).
  rewrite !pos_map in Hn by lia.
  destruct (wrap_into_cell_lat (reduce_box B) (pos xyz i)) as (a1 & a2 & a3 & Ei).
  destruct (wrap_into_cell_lat (reduce_box B) (pos xyz j)) as (b1 & b2 & b3 & Ej).
  rewrite Ei, Ej in Hn.
  destruct (reduce_lat B a1 a2 a3) as (a1' & a2' & a3' & Ea). destruct (reduce_lat B b1 b2 b3) as (b1' & b2' & b3' & Eb).
  rewrite Ea, Eb in Hn.
  exists (k1 + b1' - a1'), (k2 + b2' - a2'), (k3 + b3' - a3').
  replace (norm2 _) with (norm2 (vsub (vsub (vsub (pos xyz j) (lat B b1' b2' b3')) (vsub (pos xyz i) (lat B a1' a2' a3'))) (lat B k1 k2 k3))); [exact Hn|].
  unfold norm2, vsub, lat, vadd, vscale, avec, bvec, cvec, vx, vy, vz; cbn [fst snd]. ring.
Qed.

(* ---------------------------------------------------------------- the as-found variant outside the cell *)
Definition witness_box : box := mkBox 4096 0 4096 0 0 4096.
Definition witness_xyz : list vec := [(100, 2200, 100); (100, 6096, 100)].

(* atoms 0 and 1 are 200 units apart (after one lattice translation along b), the cutoff is 1024 and
   at most half of each cell edge, yet atom 0 is not in the list of atom 1 *)
Lemma nlist_cur_outside_cell_counterexample :
  exists B c xyz i j k1 k2 k3,
    box_ok B /\ ortho B /\ 0 < c /\ (2 * c <= b_ax B /\ 2 * c <= b_by B /\ 2 * c <= b_cz B) /\
    (i < length xyz)%nat /\ (j < length xyz)%nat /\ i <> j /\
    norm2 (vsub (vsub (pos xyz j) (pos xyz i)) (lat B k1 k2 k3)) < c * c /\
    ~ In j (nth i (nlist_cur (Some B) c xyz) []).
Proof.
  exists witness_box, 1024, witness_xyz, 1%nat, 0%nat, 0, (-1), 0.
  repeat split; try (vm_compute; (reflexivity || discriminate || lia)).
Qed.

(* ---------------------------------------------------------------- packaged statements for Props/C10.v *)
Lemma nlist_relation_ok (H : list (list nat)) n i j : half_ok H -> length H = n ->
  let N := complete H in
  (In j (nth i N []) -> In i (nth j N [])) /\ ~ In i (nth i N []) /\ NoDup (nth i N []) /\
  (In j (nth i N []) -> (i < n)%nat /\ (j < n)%nat).
Proof.
  intros Hok Hlen N. subst N.
  split; [exact (complete_sym _ i j Hok)|]. split; [exact (complete_irrefl _ i Hok)|].
  split; [exact (complete_nodup _ i Hok)|].
  intros Hin. rewrite <- Hlen. exact (complete_range _ i j Hok Hin).
Qed.

Lemma nlist_cur_relation cell c xyz i j :
  let N := nlist_cur cell c xyz in
  (In j (nth i N []) -> In i (nth j N [])) /\ ~ In i (nth i N []) /\ NoDup (nth i N []) /\
  (In j (nth i N []) -> (i < length xyz)%nat /\ (j < length xyz)%nat).
Proof. exact (nlist_relation_ok _ _ i j (nlist_half_ok false cell c xyz) (nlist_half_length false cell c xyz)). Qed.

Lemma nlist_fix_relation cell c xyz i j :
  let N := nlist_fix cell c xyz in
  (In j (nth i N []) -> In i (nth j N [])) /\ ~ In i (nth i N []) /\ NoDup (nth i N []) /\
  (In j (nth i N []) -> (i < length xyz)%nat /\ (j < length xyz)%nat).
Proof. exact (nlist_relation_ok _ _ i j (nlist_half_fix_ok cell c xyz) (nlist_half_fix_length cell c xyz)). Qed.

(* non-vacuity witnesses *)
Definition example_box : box := mkBox 4096 0 3072 0 0 5120.
Definition example_tric : box := mkBox 4096 (-700) 3900 1700 1200 4500.
Definition example_xyz : list vec := [(100, 2200, 100); (4000, 2000, 5000); (2000, 1000, 3000)].

Lemma example_in_cell : forall k, (k < length example_xyz)%nat -> in_cell example_box (pos example_xyz k).
Proof.
  intros k Hk. unfold example_xyz in Hk. cbn [length] in Hk.
  destruct k as [|[|[|k]]]; [| | |lia]; unfold in_cell, pos, example_xyz, example_box, vx, vy, vz; cbn; lia.
Qed.

Lemma example_hyps :
  box_ok example_box /\ ortho example_box /\ 0 < 1024 /\
  (2 * 1024 <= b_ax example_box /\ 2 * 1024 <= b_by example_box /\ 2 * 1024 <= b_cz example_box) /\
  (forall k, (k < length example_xyz)%nat -> in_cell example_box (pos example_xyz k)) /\
  norm2 (vsub (vsub (pos example_xyz 1) (pos example_xyz 0)) (lat example_box 1 0 1)) < 1024 * 1024 /\
  In 1%nat (nth 0 (nlist_cur (Some example_box) 1024 example_xyz) []).
Proof.
  split; [unfold box_ok, example_box; cbn; lia|].
  split; [unfold ortho, example_box; cbn; lia|].
  split; [lia|].
  split; [unfold example_box; cbn; lia|].
  split; [exact example_in_cell|].
  split; [vm_compute; reflexivity|].
  vm_compute. left. reflexivity.
Qed.

Lemma example_tric_hyps :
  box_ok example_tric /\ offdiag_nonzero example_tric = true /\ half_width_ok example_tric 1900 1 /\
  In 1%nat (neighbors_frame (Some example_tric) 1900 1 [(100, 2200, 100); (600 + 1700, 2500 + 1200, 300 + 4500)] [0%nat] [1%nat]).
Proof.
  split; [unfold box_ok, example_tric; cbn; lia|].
  split; [reflexivity|].
  split; [unfold half_width_ok, example_tric; cbn; lia|].
  vm_compute. left. reflexivity.
Qed.

(* ---------------------------------------------------------------- triclinic cell, atoms inside the cell *)
(* found by the correspondence/oracle run (thorough tier), reproduced on md.compute_neighborlist:
   a flat skewed cell whose z extent holds only three voxels.  Two atoms inside the cell, plain distance 589
   < cutoff 676 <= half of every diagonal entry (and of every cell width), two z-voxels apart: the z window is
   capped at nz/2 = 1 voxel, so the other atom's voxel is only reached as the periodic image one cell up, whose
   y window is shifted by c_y -- the direct neighbour is never examined.  Neither variant lists the pair. *)
Definition tric_box : box := mkBox 4323 1674 3375 (-1479) 1533 1358.
Definition tric_xyz : list vec := [(2704, 842, 452); (2704, 677, 1017)].

Lemma nlist_triclinic_incell_counterexample :
  exists B c xyz i j,
    box_ok B /\ reduce_box B = B /\ 0 < c /\ half_width_ok B c 1 /\
    (forall k, (k < length xyz)%nat -> in_cell B (pos xyz k)) /\
    (i < length xyz)%nat /\ (j < length xyz)%nat /\ i <> j /\
    norm2 (vsub (pos xyz j) (pos xyz i)) < c * c /\
    ~ In j (nth i (nlist_cur (Some B) c xyz) []) /\ ~ In j (nth i (nlist_fix (Some B) c xyz) []).
Proof.
  exists tric_box, 676, tric_xyz, 1%nat, 0%nat.
  split; [unfold box_ok, tric_box; cbn; lia|].
  split; [vm_compute; reflexivity|].
  split; [lia|].
  split; [unfold half_width_ok, tric_box; cbn; lia|].
  split.
  { intros k Hk. unfold tric_xyz in Hk. cbn [length] in Hk.
    destruct k as [|[|k]]; [| |lia]; unfold in_cell, pos, tric_xyz, tric_box, vx, vy, vz; cbn; lia. }
  split; [cbn; lia|]. split; [cbn; lia|]. split; [discriminate|].
  split; [vm_compute; reflexivity|].
  split; vm_compute; intros H; exact H.
Qed.

(* ---------------------------------------------------------------- second repair (flag = true) *)
Lemma nlist_half_fix_gen_ok fl cell c xyz : half_ok (nlist_half_fix_gen fl cell c xyz).
Proof. unfold nlist_half_fix_gen. destruct cell; apply nlist_half_ok. Qed.

Lemma nlist_half_fix_gen_length fl cell c xyz : length (nlist_half_fix_gen fl cell c xyz) = length xyz.
Proof. unfold nlist_half_fix_gen. destruct cell; rewrite nlist_half_length; [apply map_length|reflexivity]. Qed.

Lemma nlist_fix2_relation cell c xyz i j :
  let N := nlist_fix2 cell c xyz in
  (In j (nth i N []) -> In i (nth j N [])) /\ ~ In i (nth i N []) /\ NoDup (nth i N []) /\
  (In j (nth i N []) -> (i < length xyz)%nat /\ (j < length xyz)%nat).
Proof. exact (nlist_relation_ok _ _ i j (nlist_half_fix_gen_ok true cell c xyz) (nlist_half_fix_gen_length true cell c xyz)). Qed.

Theorem nlist_half_fix_gen_sound fl cell c xyz i j :
  In j (nth i (nlist_half_fix_gen fl cell c xyz) []) ->
  (j < i)%nat /\ (i < length xyz)%nat /\ image_within cell c (pos xyz i) (pos xyz j).
Proof.
  unfold nlist_half_fix_gen. destruct cell as [B|]; [|apply nlist_half_sound].
  intros H. apply nlist_half_sound in H. destruct H as (Hji & Hi & Him). rewrite map_length in Hi.
  split; [exact Hji|]. split; [exact Hi|].
  unfold image_within in *. destruct Him as (k1 & k2 & k3 & Hn).
  rewrite !pos_map in Hn by lia.
  destruct (wrap_into_cell_lat (reduce_box B) (pos xyz i)) as (a1 & a2 & a3 & Ei).
  destruct (wrap_into_cell_lat (reduce_box B) (pos xyz j)) as (b1 & b2 & b3 & Ej).
  rewrite Ei, Ej in Hn.
  destruct (reduce_lat B a1 a2 a3) as (a1' & a2' & a3' & Ea). destruct (reduce_lat B b1 b2 b3) as (b1' & b2' & b3' & Eb).
  rewrite Ea, Eb in Hn.
  exists (k1 + b1' - a1'), (k2 + b2' - a2'), (k3 + b3' - a3').
  replace (norm2 _) with (norm2 (vsub (vsub (vsub (pos xyz j) (lat B b1' b2' b3')) (vsub (pos xyz i) (lat B a1' a2' a3'))) (lat B k1 k2 k3))); [exact Hn|].
  unfold norm2, vsub, lat, vadd, vscale, avec, bvec, cvec, vx, vy, vz; cbn [fst snd]. ring.
Qed.

Theorem nlist_fix2_complete_ortho B c xyz i j k1 k2 k3 :
  box_ok B -> ortho B -> 0 < c ->
  2 * c <= b_ax B /\ 2 * c <= b_by B /\ 2 * c <= b_cz B ->
  (i < length xyz)%nat -> (j < length xyz)%nat -> i <> j ->
  norm2 (vsub (vsub (pos xyz j) (pos xyz i)) (lat B k1 k2 k3)) < c * c ->
  In j (nth i (nlist_fix2 (Some B) c xyz) []).
Proof.
  intros HB HO Hc Hh Hi Hj Hne Hn. unfold nlist_fix2, nlist_half_fix_gen. rewrite (reduce_box_ortho B HB HO).
  set (xyz' := map (wrap_into_cell B) xyz).
  assert (Hlen : length xyz' = length xyz) by (unfold xyz'; apply map_length).
  destruct (wrap_into_cell_lat B (pos xyz i)) as (a1 & a2 & a3 & Ei).
  destruct (wrap_into_cell_lat B (pos xyz j)) as (b1 & b2 & b3 & Ej).
  apply (nlist_gen_complete_ortho_incell true B c xyz' i j (k1 - b1 + a1) (k2 - b2 + a2) (k3 - b3 + a3) HB HO Hc Hh).
  - intros k Hk. rewrite Hlen in Hk. unfold xyz'. rewrite pos_map by exact Hk. now apply wrap_into_cell_in.
  - now rewrite Hlen.
  - now rewrite Hlen.
  - exact Hne.
  - unfold xyz'. rewrite !pos_map by assumption. rewrite Ei, Ej.
    replace (norm2 _) with (norm2 (vsub (vsub (pos xyz j) (pos xyz i)) (lat B k1 k2 k3))); [exact Hn|].
    unfold norm2, vsub, lat, vadd, vscale, avec, bvec, cvec, vx, vy, vz; cbn [fst snd]. ring.
Qed.

(* the triclinic three-voxel witness is listed by the second repair *)
Lemma nlist_fix2_on_triclinic_witness :
  In 0%nat (nth 1 (nlist_fix2 (Some tric_box) 676 tric_xyz) []) /\ In 1%nat (nth 0 (nlist_fix2 (Some tric_box) 676 tric_xyz) []).
Proof. split; vm_compute; left; reflexivity. Qed.
