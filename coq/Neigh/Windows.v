(* C10 -- the voxel WINDOWS of Voxels::getNeighbors as the code writes them (Model.ywindow / Model.zwindow): the y window
   of an image cell is the centre's window moved by the y component of the c vector (yoffset = boxz*c_y) and WIDENED:
       starty -= ceil(yoffset/voxelSizeY);  endy -= floor(yoffset/voxelSizeY).
   Proved here: that window contains the loop index of every voxel of the image cell that holds a point whose y coordinate is
   within the cutoff of the centre's; the same for the z window.  This is the window part of the triclinic completeness that
   is still open (the four-corner x-range part is not proved).  A window shifted rigidly by floor(yoffset/voxelSizeY) at both
   ends -- a plausible simplification -- does NOT have the property (witness below). *)
From Coq Require Import ZArith List Bool Lia ZifyBool.
Import ListNotations.
Require Import MD.Neigh.Model MD.Neigh.Arith MD.Neigh.NeighborsProofs MD.Neigh.NlistProofs.
Open Scope Z_scope.

Lemma div_superadd a b s : 0 < s -> a / s + b / s <= (a + b) / s.
Proof.
  intros Hs. apply Z.div_le_lower_bound; [exact Hs|].
  pose proof (Z.mul_div_le a s Hs). pose proof (Z.mul_div_le b s Hs). lia.
Qed.

Lemma cdiv_ge n s : 0 < s -> n <= s * cdiv n s.
Proof. intros Hs. unfold cdiv. pose proof (Z.mul_div_le (- n) s Hs). lia. Qed.

Lemma cdiv_lt n s : 0 < s -> s * cdiv n s < n + s.
Proof. intros Hs. unfold cdiv. pose proof (Z.mul_succ_div_gt (- n) s Hs). lia. Qed.

(* floor(a+b) <= floor(a) + ceil(b) *)
Lemma div_add_cdiv a b s : 0 < s -> (a + b) / s <= a / s + cdiv b s.
Proof.
  intros Hs. apply Z.lt_succ_r. apply Z.div_lt_upper_bound; [exact Hs|].
  pose proof (Z.mul_succ_div_gt a s Hs). pose proof (cdiv_ge b s Hs). lia.
Qed.

Lemma cdiv_subadd a b s : 0 < s -> cdiv (a + b) s <= cdiv a s + cdiv b s.
Proof.
  intros Hs. unfold cdiv. pose proof (div_superadd (- a) (- b) s Hs). replace (- (a + b)) with (- a + - b) by ring. lia.
Qed.

Lemma cdiv_le_div_succ a s : 0 < s -> cdiv a s <= a / s + 1.
Proof.
  intros Hs. pose proof (cdiv_lt a s Hs). pose proof (Z.mul_div_le a s Hs). pose proof (Z.mul_succ_div_gt a s Hs). nia.
Qed.

(* the arithmetic core, in the common unit: A = y of the centre, YY = y of the image point, O = yoffset, C = cutoff (all
   multiplied by the denominator of the voxel size), s = numerator of the voxel size *)
Lemma window_core A YY O C s : 0 < s -> 0 <= C -> A - C <= YY <= A + C ->
  A / s - (C / s + 1) - cdiv O s <= (YY - O) / s <= A / s + (C / s + 1) - O / s.
Proof.
  intros Hs HC (H1 & H2). split.
  - transitivity ((A + ((- C) + (- O))) / s); [|apply Z.div_le_mono; lia].
    pose proof (div_superadd A (- C + - O) s Hs). pose proof (div_superadd (- C) (- O) s Hs).
    assert (E1 : (- O) / s = - cdiv O s) by (unfold cdiv; lia).
    assert (E2 : - (C / s + 1) <= (- C) / s).
    { pose proof (cdiv_le_div_succ C s Hs). unfold cdiv in *. lia. }
    lia.
  - transitivity ((A + (C + - O)) / s); [apply Z.div_le_mono; lia|].
    pose proof (div_add_cdiv A (C + - O) s Hs). pose proof (cdiv_subadd C (- O) s Hs).
    assert (E1 : cdiv (- O) s = - (O / s)) by (unfold cdiv; now rewrite Z.opp_involutive).
    pose proof (cdiv_le_div_succ C s Hs). lia.
Qed.

(* Y WINDOW.  Centre atom with y coordinate yp in voxel vyi = floor(yp/voxelSizeY); an image point with y coordinate Y
   (in the centre's frame) within the cutoff in y, lying in the image cell reached at loop value z (its voxels sit at
   voxelSizeY*y + yoffset): the loop index of its voxel is inside the window.  Hypotheses: periodic grid with enough y
   voxels that neither the cap dIndexY <= ny/2 nor the cap on the window length applies. *)
Theorem ywindow_covers g c vyi z yp Y :
  g_per g = true -> (g_fully g && g_tric g && (g_nz g <? 5)) = false ->
  0 < g_syn g -> 0 < g_syd g -> 0 <= c ->
  2 * (c * g_syd g / g_syn g + 1) + 2 <= g_ny g ->
  vyi = yp * g_syd g / g_syn g ->
  yp - c <= Y <= yp + c ->
  In ((Y - yoffset g z) * g_syd g / g_syn g) (ywindow g c vyi z).
Proof.
  intros Hper Hfl Hsn Hsd Hc Hny Hv HY. unfold ywindow. cbv zeta. rewrite Hper, Hfl.
  unfold dindex. set (O := yoffset g z).
  assert (Hd : Z.min (g_ny g / 2) (c * g_syd g / g_syn g + 1) = c * g_syd g / g_syn g + 1).
  { apply Z.min_r. apply Z.div_le_lower_bound; lia. }
  rewrite Hd. apply in_zrange.
  pose proof (window_core (yp * g_syd g) (Y * g_syd g) (O * g_syd g) (c * g_syd g) (g_syn g) Hsn ltac:(nia) ltac:(nia)) as (L & U).
  replace (Y * g_syd g - O * g_syd g) with ((Y - O) * g_syd g) in L, U by ring.
  subst vyi. split; [exact L|].
  pose proof (cdiv_le_div_succ (O * g_syd g) (g_syn g) Hsn). pose proof (cdiv_ge (O * g_syd g) (g_syn g) Hsn).
  pose proof (Z.mul_div_le (O * g_syd g) (g_syn g) Hsn).
  assert (O * g_syd g / g_syn g <= cdiv (O * g_syd g) (g_syn g)) by nia.
  apply Z.min_glb; lia.
Qed.

(* Z WINDOW: the same without an offset *)
Theorem zwindow_covers g c vzi zp Zc :
  g_per g = true -> 0 < g_szn g -> 0 < g_szd g -> 0 <= c ->
  2 * (c * g_szd g / g_szn g + 1) + 1 <= g_nz g ->
  vzi = zp * g_szd g / g_szn g ->
  zp - c <= Zc <= zp + c ->
  In (Zc * g_szd g / g_szn g) (zwindow g c vzi).
Proof.
  intros Hper Hsn Hsd Hc Hnz Hv HZ. unfold zwindow. cbv zeta. rewrite Hper. unfold dindex.
  assert (Hd : Z.min (g_nz g / 2) (c * g_szd g / g_szn g + 1) = c * g_szd g / g_szn g + 1).
  { apply Z.min_r. apply Z.div_le_lower_bound; lia. }
  rewrite Hd. apply in_zrange.
  pose proof (window_core (zp * g_szd g) (Zc * g_szd g) 0 (c * g_szd g) (g_szn g) Hsn ltac:(nia) ltac:(nia)) as (L & U).
  assert (E1 : 0 / g_szn g = 0) by (apply Z.div_0_l; lia).
  assert (E0 : cdiv 0 (g_szn g) = 0) by (unfold cdiv; change (- 0) with 0; rewrite E1; reflexivity).
  replace (Zc * g_szd g - 0) with (Zc * g_szd g) in L, U by ring.
  rewrite ?E0 in L. rewrite ?E1 in U.
  subst vzi. split; [lia|]. apply Z.min_glb; lia.
Qed.

(* the rigidly shifted window (both ends moved by floor(yoffset/voxelSizeY)) misses the lowest voxel *)
Definition ywindow_rigid (g : vgrid) (c vyi z : Z) : list Z :=
  let d := dindex (g_per g) c (g_syn g) (g_syd g) (g_ny g) in
  let sh := (yoffset g z * g_syd g) / g_syn g in
  zrange (vyi - d - sh) (Z.min (vyi + d - sh) (vyi - d - sh + g_ny g - 1)).

Definition win_grid : vgrid :=
  mkGrid true true (mkBox 4096 0 6144 0 1751 4811) 10 8 6144 10 4811 8 0 0 true.

Lemma ywindow_rigid_counterexample :
  exists g c yp Y z,
    g_per g = true /\ (g_fully g && g_tric g && (g_nz g <? 5)) = false /\
    2 * (c * g_syd g / g_syn g + 1) + 2 <= g_ny g /\ yp - c <= Y <= yp + c /\
    existsb (Z.eqb ((Y - yoffset g z) * g_syd g / g_syn g)) (ywindow g c (yp * g_syd g / g_syn g) z) = true /\
    existsb (Z.eqb ((Y - yoffset g z) * g_syd g / g_syn g)) (ywindow_rigid g c (yp * g_syd g / g_syn g) z) = false.
Proof.
  exists win_grid, 1198, 1873, 675, (-1).
  repeat split; vm_compute; try reflexivity; intros H; discriminate H.
Qed.
