(* C10 -- executable comparison functions used by the correspondence run (harness/props/C10.py).
   No proofs here.  The implementation's answers are compared with the model inside coqc; the only
   slack is the property's own exclusion band: a pair whose distance is within 1e-5 nm of the cutoff
   may be reported either way (float32 rounding of the squared distance decides it in the kernel). *)
From Coq Require Import ZArith List Bool.
Import ListNotations.
Require Import MD.Neigh.Model.
Open Scope Z_scope.

Fixpoint mem (x : nat) (l : list nat) : bool :=
  match l with [] => false | y :: r => Nat.eqb x y || mem x r end.

Fixpoint list_eqb (a b : list nat) : bool :=
  match a, b with
  | [], [] => true
  | x :: a', y :: b' => Nat.eqb x y && list_eqb a' b'
  | _, _ => false
  end.

(* ------------------------------------------------------------------ compute_neighbors *)
(* a case: cell, exact cutoff c (cd = 1), the band cutoffs (lo_n/band_d, hi_n/band_d) = c -/+ 1e-5,
   positions, query, haystack *)
Record nb_case := mkNb {
  nb_cell : option box; nb_c : Z; nb_lo : Z; nb_hi : Z; nb_d : Z;
  nb_xyz : list vec; nb_query : list nat; nb_hay : list nat }.

(* walk the haystack: an atom hit at cutoff-1e-5 must come next in the answer, an atom not hit at
   cutoff+1e-5 must not; answer must be exhausted at the end (so order = haystack order) *)
Fixpoint nb_walk (k : nb_case) (qs : list entry) (hay : list entry) (ans : list nat) : bool :=
  match hay with
  | [] => match ans with [] => true | _ => false end
  | h :: hay' =>
      let sure := hit_any (nb_cell k) (nb_lo k) (nb_d k) h qs in
      let may := hit_any (nb_cell k) (nb_hi k) (nb_d k) h qs in
      match ans with
      | a :: ans' =>
          if Nat.eqb a (fst h) && may then nb_walk k qs hay' ans'
          else negb sure && nb_walk k qs hay' ans
      | [] => negb sure && nb_walk k qs hay' []
      end
  end.

(* expected = None for ValueError *)
Definition nb_check (k : nb_case) (ans : option (list nat)) : bool :=
  if indices_ok (length (nb_xyz k)) (nb_query k) && indices_ok (length (nb_xyz k)) (nb_hay k) then
    match ans with
    | Some l => nb_walk k (entries (nb_xyz k) (nb_query k)) (entries (nb_xyz k) (nb_hay k)) l
    | None => false
    end
  else match ans with None => true | Some _ => false end.

(* the exact model answer equals the implementation's (used to count how many cases needed the band) *)
Definition nb_exact (k : nb_case) (ans : option (list nat)) : bool :=
  match compute_neighbors (nb_cell k) (nb_c k) 1 (nb_xyz k) (nb_query k) (nb_hay k), ans with
  | None, None => true
  | Some m, Some l => list_eqb m l
  | _, _ => false
  end.

(* ------------------------------------------------------------------ compute_neighborlist *)
Record nl_case := mkNl {
  nl_cell : option box; nl_c : Z; nl_lo : Z; nl_hi : Z; nl_d : Z; nl_xyz : list vec }.

(* is the pair inside the exclusion band, in the plain or in the wrapped form of the final distance test *)
Definition in_band (k : nl_case) (g : vgrid) (p q : vec) : bool :=
  let d := vsub q p in
  let dw := if g_per g then (if g_tric g then wrap_seq fl_half (g_box g) d else wrap_diag (g_box g) d) else d in
  let b (d2 : Z) := le_cut d2 (nl_hi k) (nl_d k) && negb (lt_cut d2 (nl_lo k) (nl_d k)) in
  b (norm2 d) || b (norm2 dw).

(* per atom: every index in exactly one of the two lists must be a band pair *)
Definition nl_row_ok (k : nl_case) (g : vgrid) (xyz : list vec) (i : nat) (model impl : list nat) : bool :=
  forallb (fun j => if mem j impl then true else in_band k g (pos xyz i) (pos xyz j)) model &&
  forallb (fun j => if mem j model then true else (Nat.ltb j i && in_band k g (pos xyz i) (pos xyz j))) impl.

Fixpoint nl_rows (k : nl_case) (g : vgrid) (xyz : list vec) (i : nat) (model impl : list (list nat)) : bool :=
  match model, impl with
  | [], [] => true
  | m :: model', a :: impl' => nl_row_ok k g xyz i m a && nl_rows k g xyz (S i) model' impl'
  | _, _ => false
  end.

(* variant false = as found (nlist_half), true = repaired (positions wrapped into the cell first);
   impl = for every atom the reported neighbours with a smaller index *)
Definition nl_check (fixed : bool) (k : nl_case) (impl : list (list nat)) : bool :=
  let xyz := if fixed then
               match nl_cell k with Some B => map (wrap_into_cell (reduce_box B)) (nl_xyz k) | None => nl_xyz k end
             else nl_xyz k in
  let g := make_grid (nl_cell k) (nl_c k) xyz in
  nl_rows k g xyz 0 (nlist_half (nl_cell k) (nl_c k) xyz) impl.

Fixpoint rows_eqb (a b : list (list nat)) : bool :=
  match a, b with
  | [], [] => true
  | x :: a', y :: b' => forallb (fun j => mem j y) x && forallb (fun j => mem j x) y && rows_eqb a' b'
  | _, _ => false
  end.
Definition nl_exact (fixed : bool) (k : nl_case) (impl : list (list nat)) : bool :=
  rows_eqb (if fixed then nlist_half_fix (nl_cell k) (nl_c k) (nl_xyz k) else nlist_half (nl_cell k) (nl_c k) (nl_xyz k)) impl.
