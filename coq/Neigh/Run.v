(* C10 -- executable comparison functions used by the correspondence run (harness/props/C10.py).
   No proofs here.  The implementation's answers are compared with the model inside coqc; the only
   slack is the property's own exclusion band: a pair whose distance is within 1e-5 nm of the cutoff
   may be reported either way (float32 rounding of the squared distance decides it in the kernel). *)
From Coq Require Import ZArith List Bool.
Import ListNotations.
Require Import MD.Neigh.Model.
Open Scope Z_scope.

Fixpoint mem (x : nat) (l : list nat) : bool :=
  match l with [] => false | y :: r => Nat.eqb x y || mem x r end.

Fixpoint list_eqb (a b : list nat) : bool :=
  match a, b with
  | [], [] => true
  | x :: a', y :: b' => Nat.eqb x y && list_eqb a' b'
  | _, _ => false
  end.

(* ------------------------------------------------------------------ compute_neighbors *)
(* a case: cell, exact cutoff c (cd = 1), the band cutoffs (lo_n/band_d, hi_n/band_d) = c -/+ 1e-5,
   positions, query, haystack *)
Record nb_case := mkNb {
  nb_cell : option box; nb_c : Z; nb_lo : Z; nb_hi : Z; nb_d : Z;
  nb_xyz : list vec; nb_query : list nat; nb_hay : list nat }.

(* walk the haystack: an atom hit at cutoff-1e-5 must come next in the answer, an atom not hit at
   cutoff+1e-5 must not; answer must be exhausted at the end (so order = haystack order) *)
Fixpoint nb_walk (k : nb_case) (qs : list entry) (hay : list entry) (ans : list nat) : bool :=
  match hay with
  | [] => match ans with [] => true | _ => false end
  | h :: hay' =>
      let sure := hit_any (nb_cell k) (nb_lo k) (nb_d k) h qs in
      let may := hit_any (nb_cell k) (nb_hi k) (nb_d k) h qs in
      match ans with
      | a :: ans' =>
          if Nat.eqb a (fst h) && may then nb_walk k qs hay' ans'
          else negb sure && nb_walk k qs hay' ans
      | [] => negb sure && nb_walk k qs hay' []
      end
  end.

(* expected = None for ValueError *)
Definition nb_check (k : nb_case) (ans : option (list nat)) : bool :=
  if indices_ok (length (nb_xyz k)) (nb_query k) && indices_ok (length (nb_xyz k)) (nb_hay k) then
    match ans with
    | Some l => nb_walk k (entries (nb_xyz k) (nb_query k)) (entries (nb_xyz k) (nb_hay k)) l
    | None => false
    end
  else match ans with None => true | Some _ => false end.

(* the exact model answer equals the implementation's (used to count how many cases needed the band) *)
Definition nb_exact (k : nb_case) (ans : option (list nat)) : bool :=
  match compute_neighbors (nb_cell k) (nb_c k) 1 (nb_xyz k) (nb_query k) (nb_hay k), ans with
  | None, None => true
  | Some m, Some l => list_eqb m l
  | _, _ => false
  end.

(* ------------------------------------------------------------------ compute_neighborlist *)
Record nl_case := mkNl {
  nl_cell : option box; nl_c : Z; nl_lo : Z; nl_hi : Z; nl_d : Z; nl_xyz : list vec }.

(* is the pair inside the exclusion band, in the plain or in the wrapped form of the final distance test *)
Definition in_band (k : nl_case) (g : vgrid) (p q : vec) : bool :=
  let d := vsub q p in
  let dw := if g_per g then (if g_tric g then wrap_seq fl_half (g_box g) d else wrap_diag (g_box g) d) else d in
  let b (d2 : Z) := le_cut d2 (nl_hi k) (nl_d k) && negb (lt_cut d2 (nl_lo k) (nl_d k)) in
  b (norm2 d) || b (norm2 dw).

(* rows are compared as sorted lists of binary integers (unary nat comparisons would dominate the run) *)
Fixpoint zinsert (x : Z) (l : list Z) : list Z :=
  match l with [] => [x] | y :: r => if x <=? y then x :: l else y :: zinsert x r end.
Definition zsort (l : list Z) : list Z := fold_right zinsert [] l.
Fixpoint zlist_eqb (a b : list Z) : bool :=
  match a, b with
  | [], [] => true
  | x :: a', y :: b' => (x =? y) && zlist_eqb a' b'
  | _, _ => false
  end.
Fixpoint zmem (x : Z) (l : list Z) : bool :=
  match l with [] => false | y :: r => if x =? y then true else zmem x r end.

(* per atom: model row = implementation row, or every index in exactly one of them is a band pair *)
Definition nl_row_ok (k : nl_case) (g : vgrid) (xyz : list vec) (i : nat) (model : list nat) (impl : list Z) : bool :=
  let mz := zsort (map Z.of_nat model) in
  if zlist_eqb mz impl then true
  else
    forallb (fun j => if zmem j impl then true else in_band k g (pos xyz i) (pos xyz (Z.to_nat j))) mz &&
    forallb (fun j => if zmem j mz then true
                      else ((0 <=? j) && (j <? Z.of_nat i) && in_band k g (pos xyz i) (pos xyz (Z.to_nat j)))) impl.

Fixpoint nl_rows (k : nl_case) (g : vgrid) (xyz : list vec) (i : nat) (model : list (list nat)) (impl : list (list Z)) : bool :=
  match model, impl with
  | [], [] => true
  | m :: model', a :: impl' => if nl_row_ok k g xyz i m a then nl_rows k g xyz (S i) model' impl' else false
  | _, _ => false
  end.

Definition nl_check_on (fully : bool) (k : nl_case) (xyz : list vec) (impl : list (list Z)) : bool :=
  let g := make_grid_gen fully (nl_cell k) (nl_c k) xyz in
  nl_rows k g xyz 0 (nlist_half_gen fully (nl_cell k) (nl_c k) xyz) impl.

Fixpoint vecs_eqb (a b : list vec) : bool :=
  match a, b with
  | [], [] => true
  | p :: a', q :: b' => (vx p =? vx q) && (vy p =? vy q) && (vz p =? vz q) && vecs_eqb a' b'
  | _, _ => false
  end.

(* impl = for every atom the reported neighbours with a smaller index, ascending.
   Result: bit 0 = agrees with the kernel as found at the pinned commit (nlist_cur), bit 1 = with the first repair
   (positions wrapped into the cell first, nlist_fix), bit 2 = with the second repair on top of it (all y voxels
   in a triclinic cell with fewer than 5 z voxels, nlist_fix2).  Computations that cannot differ are done once:
   wrapping that changes no position; the second repair outside its trigger condition. *)
Definition nl_code (k : nl_case) (impl : list (list Z)) : Z :=
  let cur := nl_check_on false k (nl_xyz k) impl in
  let wrapped := match nl_cell k with
                 | Some B => map (wrap_into_cell (reduce_box B)) (nl_xyz k)
                 | None => nl_xyz k
                 end in
  let fx := if vecs_eqb wrapped (nl_xyz k) then cur else nl_check_on false k wrapped impl in
  let g := make_grid_gen true (nl_cell k) (nl_c k) wrapped in
  let fx2 := if g_per g && g_tric g && (g_nz g <? 5) then nl_check_on true k wrapped impl else fx in
  (if cur then 1 else 0) + (if fx then 2 else 0) + (if fx2 then 4 else 0).
