(* C10 -- low-level executable model (definitions only, no proofs) of the parts of
     mdtraj/geometry/src/neighborlist.cpp
   that MD.Neigh.Model abstracts:

     Voxels::sortItems           every bin is a vector<pair<float,int>> sorted with std::sort, i.e. on (x, index)
     Voxels::findLowerBound      binary search: first item whose x is >= the bound
     Voxels::findUpperBound      binary search: first item whose x is >  the bound
     Voxels::getNeighbors        rangeStart[0..1] / rangeEnd[0..1] / numRanges as index intervals into the sorted bin,
                                 with the min(.., rangeStart[0]) and max(.., rangeEnd[0]) clamps; the item loop
                                 "for range / for item: if (index >= atomIndex) continue; distance test; push_back"
     _compute_neighborlist       "Add in the symmetric entries": the nested push_back loop

   MD.Neigh.Model keeps a bin as the (unsorted) list of its atoms and a range as the SET of entries whose x
   satisfies the range predicate ([in_ranges]); the completion as a closed form ([complete]).  BinsProofs.v proves
   that the loops below compute the same neighbour lists up to the order inside one row (same members, no
   duplicates), and exactly the same completion.

   As in MD.Neigh.Model a comparison of an item's x with a range end (minx, maxx: values that involve a square
   root) is the squared-distance predicate [ge_minx]/[le_maxx]; "x < minx" is its negation. *)
From Coq Require Import ZArith List Bool.
Import ListNotations.
Require Import MD.Neigh.Model.
Open Scope Z_scope.

Definition ent_x (e : nat * vec) : Z := vx (snd e).
Definition ent0 : nat * vec := (0%nat, (0, 0, 0)).

(* operator< of pair<float,int>: x first, then the atom index *)
Definition ent_ltb (a b : nat * vec) : bool :=
  (ent_x a <? ent_x b) || ((ent_x a =? ent_x b) && Nat.ltb (fst a) (fst b)).
Fixpoint ins_entry (e : nat * vec) (l : list (nat * vec)) : list (nat * vec) :=
  match l with
  | [] => [e]
  | y :: r => if ent_ltb y e then y :: ins_entry e r else e :: l
  end.
(* the result of std::sort is the sorted permutation; which algorithm produces it is immaterial *)
Definition sort_bin (l : list (nat * vec)) : list (nat * vec) := fold_right ins_entry [] l.

(* findLowerBound(y, z, x, lower, upper):  while (lower < upper) { middle = (lower+upper)/2;
     if (bin[middle].first < x) lower = middle+1; else upper = middle; }  return lower;
   [below v] stands for "v < x".  fuel: the interval shrinks in every round. *)
Fixpoint find_lower (fuel : nat) (below : Z -> bool) (bin : list (nat * vec)) (lower upper : nat) : nat :=
  match fuel with
  | O => lower
  | S f =>
      if Nat.ltb lower upper then
        let middle := Nat.div (lower + upper) 2 in
        if below (ent_x (nth middle bin ent0)) then find_lower f below bin (S middle) upper
        else find_lower f below bin lower middle
      else lower
  end.

(* findUpperBound: ... if (bin[middle].first > x) upper = middle; else lower = middle+1; ... return upper;
   [above v] stands for "v > x" *)
Fixpoint find_upper (fuel : nat) (above : Z -> bool) (bin : list (nat * vec)) (lower upper : nat) : nat :=
  match fuel with
  | O => upper
  | S f =>
      if Nat.ltb lower upper then
        let middle := Nat.div (lower + upper) 2 in
        if above (ent_x (nth middle bin ent0)) then find_upper f above bin lower middle
        else find_upper f above bin (S middle) upper
      else upper
  end.

(* items rangeStart <= item < rangeEnd of the bin *)
Definition slice (bin : list (nat * vec)) (s e : nat) : list (nat * vec) := firstn (e - s) (skipn s bin).

(* comparisons of an item's x with the range ends: v < minx, v > maxx, v > maxx - ax, v < minx + ax *)
Definition lt_minx (g : vgrid) (px : Z) (r : vrange) (v : Z) : bool := negb (ge_minx (gS g * gS g) px r v).
Definition gt_maxx (g : vgrid) (px : Z) (r : vrange) (v : Z) : bool := negb (le_maxx (gS g * gS g) px r v).
Definition gt_maxx_sh (g : vgrid) (px : Z) (r : vrange) (v : Z) : bool := gt_maxx g px r (v + b_ax (g_box g)).
Definition lt_minx_sh (g : vgrid) (px : Z) (r : vrange) (v : Z) : bool := lt_minx g px r (v - b_ax (g_box g)).

(* the one or two index ranges of one voxel: (rangeStart[k], rangeEnd[k]) for k < numRanges *)
Definition ranges_ll (g : vgrid) (px : Z) (r : vrange) (bin : list (nat * vec)) : list (nat * nat) :=
  let n := length bin in
  let rs0 := find_lower n (lt_minx g px r) bin 0 n in
  let re0 := find_upper n (gt_maxx g px r) bin rs0 n in
  if r_needp r then
    if Nat.ltb 0 rs0 && Nat.ltb re0 n then [(rs0, re0)]                                   (* numRanges = 1 *)
    else if Nat.ltb 0 rs0 then
      (* rangeStart[1] = 0; rangeEnd[1] = min(findUpperBound(maxx - ax, 0, rangeStart[0]), rangeStart[0]) *)
      [(rs0, re0); (0%nat, Nat.min (find_upper n (gt_maxx_sh g px r) bin 0 rs0) rs0)]
    else
      (* rangeStart[1] = max(findLowerBound(minx + ax, rangeEnd[0], binSize), rangeEnd[0]); rangeEnd[1] = binSize *)
      [(rs0, re0); (Nat.max (find_lower n (lt_minx_sh g px r) bin re0 n) re0, n)]
  else [(rs0, re0)].

(* "if (index >= atomIndex) continue; ... if (dSquared > maxDistanceSquared) continue; push_back(index)" *)
Definition item_ok (g : vgrid) (c : Z) (i : nat) (p : vec) (r : vrange) (e : nat * vec) : bool :=
  if Nat.ltb (fst e) i then dist_ok g c p r (snd e) else false.

Definition wy_ll (g : vgrid) (y : Z) : Z := if g_per g then wrap1 (g_ny g) y else y.
Definition wz_ll (g : vgrid) (z : Z) : Z := if g_per g then wrap1 (g_nz g) z else z.

(* the items of voxel (y,z) pushed for centre atom i at p, in the order the loops push them *)
Definition piece_ll (g : vgrid) (c : Z) (sbins : Z -> Z -> list (nat * vec)) (i : nat) (p : vec) (z y : Z)
  : list (nat * vec) :=
  let v := vox_index g p in
  let r := vox_range g c p (fst v) (snd v) y z in
  if r_skip r then []
  else
    let bin := sbins (wy_ll g y) (wz_ll g z) in
    flat_map (fun se => filter (item_ok g c i p r) (slice bin (fst se) (snd se))) (ranges_ll g (vx p) r bin).

(* Voxels::getNeighbors: z loop, y loop, ranges, items *)
Definition half_list_ll (g : vgrid) (c : Z) (sbins : Z -> Z -> list (nat * vec)) (i : nat) (p : vec) : list nat :=
  let v := vox_index g p in
  flat_map (fun z => flat_map (fun y => map fst (piece_ll g c sbins i p z y)) (ywindow g c (fst v) z))
           (zwindow g c (snd v)).

(* voxels.insert for every atom, then voxels.sortItems() *)
Definition sorted_bins (g : vgrid) (es : list (nat * vec)) (wy wz : Z) : list (nat * vec) :=
  sort_bin (bin_atoms g es wy wz).

(* neighbors[i] for every atom before the symmetric completion *)
Definition nlist_half_ll (fully : bool) (cell : option box) (c : Z) (xyz : list vec) : list (list nat) :=
  let g := make_grid_gen fully cell c xyz in
  let es := atoms_of xyz in
  map (fun e => half_list_ll g c (sorted_bins g es) (fst e) (snd e)) es.

(* neighbors[k].push_back(i) *)
Fixpoint upd_nth {A} (k : nat) (f : A -> A) (l : list A) : list A :=
  match l, k with
  | [], _ => []
  | x :: r, O => f x :: r
  | x :: r, S k' => x :: upd_nth k' f r
  end.
Definition push_at (i : nat) (N : list (list nat)) (k : nat) : list (list nat) := upd_nth k (fun row => row ++ [i]) N.

(* for (i = 0; i < numAtoms; i++) for (j = 0; j < neighbors[i].size(); j++) neighbors[neighbors[i][j]].push_back(i);
   the inner loop runs over row i as it is when i is reached (the C++ loop re-reads size() and the element in
   every round; row i itself is never appended to while i is processed because its entries differ from i -- they
   are smaller, BinsProofs.half_ll_ok) *)
Definition complete_ll (H : list (list nat)) : list (list nat) :=
  fold_left (fun N i => fold_left (push_at i) (nth i N []) N) (seq 0 (length H)) H.

(* _compute_neighborlist as it is in /repo today (positions wrapped into the cell first, every y voxel in a
   triclinic cell with fewer than 5 z voxels), loops and buffers as written *)
Definition nlist_ll_gen (fully : bool) (cell : option box) (c : Z) (xyz : list vec) : list (list nat) :=
  complete_ll (match cell with
               | Some B => nlist_half_ll fully cell c (map (wrap_into_cell (reduce_box B)) xyz)
               | None => nlist_half_ll fully cell c xyz
               end).
Definition nlist_ll := nlist_ll_gen true.
