(* GENERATED on every run by harness/props/C17.py:translate from mdtraj/utils/unitcell.py -- do not edit.
   Straight-line arithmetic of lengths_and_angles_to_box_vectors (before the 1e-6 snap) and of
   box_vectors_to_lengths_and_angles.  la lb lc: the three lengths by argument position; ca cb cg: np.cos of the
   4th, 5th, 6th argument (after `x * np.pi / 180`); sg: np.sin of the 6th.  For the inverse the cosines
   handed to np.arccos are emitted (the angles are arccos(.) * 180 / pi of them).  The order of the components
   follows the order of the return statements. *)
From Coq Require Import Reals.
Open Scope R_scope.

Definition dot (u v : R * R * R) : R :=
  let '(u1, u2, u3) := u in let '(v1, v2, v3) := v in u1 * v1 + u2 * v2 + u3 * v3.

Definition gen_to_vectors (la lb lc ca cb cg sg : R) : (R * R * R) * (R * R * R) * (R * R * R) :=
  ((la, 0, 0),
   ((lb * cg), (lb * sg), 0),
   ((lc * cb), ((lc * (ca - (cb * cg))) / sg), (sqrt (((lc * lc) - ((lc * cb) * (lc * cb))) - (((lc * (ca - (cb * cg))) / sg) * ((lc * (ca - (cb * cg))) / sg)))))).

Definition gen_from_vectors (a b c : R * R * R) : R * R * R * (R * R * R) :=
  (((sqrt (dot a a)),
    (sqrt (dot b b)),
    (sqrt (dot c c))),
   (((dot b c) / ((sqrt (dot b b)) * (sqrt (dot c c)))),
    ((dot c a) / ((sqrt (dot c c)) * (sqrt (dot a a)))),
    ((dot a b) / ((sqrt (dot a a)) * (sqrt (dot b b)))))).

Definition gen_snap_tol : R := / 1000000.

(* ---- the same two functions with the angles themselves (degrees) as arguments: the source converts with
   `x * np.pi / 180` before np.cos / np.sin and with `np.arccos(.) * 180.0 / np.pi` on the way back (the translator accepts
   exactly these two forms) *)
Definition gen_deg2rad (x : R) : R := x * PI / 180.
Definition gen_rad2deg (x : R) : R := x * 180 / PI.

Definition gen_to_vectors_deg (la lb lc alpha beta gamma : R) : (R * R * R) * (R * R * R) * (R * R * R) :=
  gen_to_vectors la lb lc (cos (gen_deg2rad alpha)) (cos (gen_deg2rad beta)) (cos (gen_deg2rad gamma)) (sin (gen_deg2rad gamma)).

Definition gen_from_vectors_deg (a b c : R * R * R) : R * R * R * (R * R * R) :=
  let '(l, (x, y, z)) := gen_from_vectors a b c in
  (l, (gen_rad2deg (acos x), gen_rad2deg (acos y), gen_rad2deg (acos z))).

(* ---- lengths_and_angles_to_tilt_factors: the six returned numbers in return order (lx, ly, lz, xy, xz, yz);
   ca cb cg: np.cos(np.deg2rad(.)) of the 4th, 5th, 6th argument *)
Definition gen_tilt_factors (la lb lc ca cb cg : R) : R * R * R * R * R * R :=
  (la,
   (sqrt ((lb * lb) - ((lb * cg) * (lb * cg)))),
   (sqrt (((lc * lc) - ((lc * cb) * (lc * cb))) - (((((lb * lc) * ca) - ((lb * cg) * (lc * cb))) / (sqrt ((lb * lb) - ((lb * cg) * (lb * cg))))) * ((((lb * lc) * ca) - ((lb * cg) * (lc * cb))) / (sqrt ((lb * lb) - ((lb * cg) * (lb * cg)))))))),
   (lb * cg),
   (lc * cb),
   ((((lb * lc) * ca) - ((lb * cg) * (lc * cb))) / (sqrt ((lb * lb) - ((lb * cg) * (lb * cg)))))).

(* ---- the glue of mdtraj/core/trajectory.py, one frame: Trajectory.unitcell_vectors getter (which stored column goes to which
   argument; which returned vector becomes which row) and setter (which row goes to which argument; which returned number
   goes to which stored column), before the snap *)
Definition gen_getter_frame (l a : R * R * R) : (R * R * R) * (R * R * R) * (R * R * R) :=
  let '(l0, l1, l2) := l in let '(a0, a1, a2) := a in
  let '(v1, v2, v3) := gen_to_vectors_deg l0 l1 l2 a0 a1 a2 in
  (v1, v2, v3).

Definition gen_setter_frame (m : (R * R * R) * (R * R * R) * (R * R * R)) : (R * R * R) * (R * R * R) :=
  let '(r0, r1, r2) := m in
  let v1 := r0 in let v2 := r1 in let v3 := r2 in
  let '((a, b, c), (alpha, beta, gamma)) := gen_from_vectors_deg v1 v2 v3 in
  ((a, b, c), (alpha, beta, gamma)).

(* `vectors is None or np.all(np.abs(vectors) < 1e-15)` *)
Definition gen_zero_tol : R := / 1000000000000000.
