(* GENERATED on every run by harness/props/C17.py:translate from mdtraj/utils/unitcell.py -- do not edit.
   Straight-line arithmetic of lengths_and_angles_to_box_vectors (before the 1e-6 snap) and of
   box_vectors_to_lengths_and_angles.  la lb lc: the three lengths by argument position; ca cb cg: np.cos of the
   4th, 5th, 6th argument (after `x * np.pi / 180`); sg: np.sin of the 6th.  For the inverse the cosines
   handed to np.arccos are emitted (the angles are arccos(.) * 180 / pi of them).  The order of the components
   follows the order of the return statements. *)
From Coq Require Import Reals.
Open Scope R_scope.

Definition dot (u v : R * R * R) : R :=
  let '(u1, u2, u3) := u in let '(v1, v2, v3) := v in u1 * v1 + u2 * v2 + u3 * v3.

Definition gen_to_vectors (la lb lc ca cb cg sg : R) : (R * R * R) * (R * R * R) * (R * R * R) :=
  ((la, 0, 0),
   ((lb * cg), (lb * sg), 0),
   ((lc * cb), ((lc * (ca - (cb * cg))) / sg), (sqrt (((lc * lc) - ((lc * cb) * (lc * cb))) - (((lc * (ca - (cb * cg))) / sg) * ((lc * (ca - (cb * cg))) / sg)))))).

Definition gen_from_vectors (a b c : R * R * R) : R * R * R * (R * R * R) :=
  (((sqrt (dot a a)),
    (sqrt (dot b b)),
    (sqrt (dot c c))),
   (((dot b c) / ((sqrt (dot b b)) * (sqrt (dot c c)))),
    ((dot c a) / ((sqrt (dot c c)) * (sqrt (dot a a)))),
    ((dot a b) / ((sqrt (dot a a)) * (sqrt (dot b b)))))).

Definition gen_snap_tol : R := / 1000000.
