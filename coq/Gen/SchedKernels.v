(* GENERATED on every run by harness/props/C08.py + C08_scan.py from mdtraj's C/C++ sources: one term of
   MD.Sched.FrameLoop per per-frame loop (and per per-call kernel, whose body is the iteration and whose only
   possible carried state is static / file-scope variables).  Per-run obligations: every term is disciplined
   (no scratch read before this iteration wrote it; every cursor that is used is advanced once per iteration,
   after its last use) and no per-call kernel writes static / file-scope state.  A term that fails stops the build. *)
From Coq Require Import String.
From Coq Require Import List ZArith Bool.
Import ListNotations.
Require Import MD.Sched.FrameLoop.
Open Scope Z_scope.

(* dssp_loop : dssp in mdtraj/geometry/src/dssp.cpp
   cells: 0=<control>, 1=framexyz, 2=hbonds, 3=henergies, 4=framesecondary, 5=j, 6=ss | cursors:  | per-frame arrays: 0=xyz | globals: 0=n_atoms, 1=n_residues, 2=nco_indices, 3=ca_indices, 4=is_proline, 5=chain_ids, 6=skip *)
Definition dssp_loop : fprog :=
  [FSet 1 (FAdd (FIdx 0) (FGlob 0));
   FSet 2 (FGlob 1);
   FSet 3 (FGlob 1);
   FSet 4 (FGlob 1);
   FSet 2 (FAdd (FAdd (FAdd (FAdd (FAdd (FAdd (FAdd (FCell 1) (FGlob 2)) (FGlob 3)) (FGlob 4)) (FGlob 0)) (FGlob 1)) (FCell 2)) (FCell 3));
   FSet 3 (FAdd (FAdd (FAdd (FAdd (FAdd (FAdd (FAdd (FCell 1) (FGlob 2)) (FGlob 3)) (FGlob 4)) (FGlob 0)) (FGlob 1)) (FCell 2)) (FCell 3));
   FSet 4 (FAdd (FAdd (FAdd (FAdd (FGlob 5) (FCell 2)) (FGlob 6)) (FGlob 1)) (FCell 4));
   FSet 4 (FAdd (FAdd (FAdd (FAdd (FAdd (FAdd (FAdd (FCell 1) (FGlob 3)) (FGlob 5)) (FCell 2)) (FGlob 6)) (FGlob 0)) (FGlob 1)) (FCell 4));
   FSet 5 (FConst 0);
   FSet 0 (FAdd (FCell 5) (FGlob 1));
   FSet 5 (FCell 5);
   FSet 6 (FConst 0);
   FSet 0 (FAdd (FCell 4) (FCell 5));
   FSet 6 (FConst 0);
   FSet 6 (FConst 0);
   FSet 6 (FConst 0);
   FSet 6 (FConst 0);
   FSet 6 (FConst 0);
   FSet 6 (FConst 0);
   FSet 6 (FConst 0);
   FSet 6 (FConst 0);
   FOutIdx (FAdd (FAdd (FCell 6) (FGlob 1)) (FCell 5))].

(* kabsch_sander_loop : kabsch_sander in mdtraj/geometry/src/geometry.cpp
   cells: 0=<control>, 1=hcoords, 2=ri, 3=ri_ca, 4=rj, 5=rj_ca, 6=r12, 7=e | cursors: 0=xyz, 1=hbonds, 2=henergies | per-frame arrays: 0=xyz, 1=hbonds, 2=henergies | globals: 0=nco_indices, 1=n_residues, 2=skip, 3=ca_indices, 4=MINIMAL_CA_DISTANCE2, 5=HBOND_ENERGY_CUTOFF, 6=is_proline, 7=n_atoms *)
Definition kabsch_sander_loop : fprog :=
  [FSet 1 (FAdd (FAdd (FAdd (FVia 0 0) (FGlob 0)) (FGlob 1)) (FGlob 2));
   FSet 2 (FConst 0);
   FSet 0 (FAdd (FCell 2) (FGlob 1));
   FSet 2 (FCell 2);
   FSet 0 (FAdd (FGlob 2) (FCell 2));
   FSet 3 (FAdd (FAdd (FVia 0 0) (FGlob 3)) (FCell 2));
   FSet 4 (FCell 2);
   FSet 0 (FAdd (FCell 4) (FGlob 1));
   FSet 4 (FCell 4);
   FSet 0 (FAdd (FGlob 2) (FCell 4));
   FSet 5 (FAdd (FAdd (FVia 0 0) (FGlob 3)) (FCell 4));
   FSet 6 (FAdd (FCell 3) (FCell 5));
   FSet 0 (FAdd (FCell 6) (FGlob 4));
   FSet 7 (FAdd (FAdd (FAdd (FAdd (FVia 0 0) (FCell 1)) (FGlob 0)) (FCell 2)) (FCell 4));
   FSet 0 (FAdd (FAdd (FAdd (FCell 7) (FGlob 5)) (FGlob 6)) (FCell 2));
   FOutVia 1 (FAdd (FAdd (FAdd (FAdd (FVia 1 1) (FVia 2 2)) (FCell 2)) (FCell 4)) (FCell 7));
   FOutVia 2 (FAdd (FAdd (FAdd (FAdd (FVia 1 1) (FVia 2 2)) (FCell 2)) (FCell 4)) (FCell 7));
   FSet 0 (FAdd (FCell 4) (FCell 2));
   FSet 7 (FAdd (FAdd (FAdd (FAdd (FVia 0 0) (FCell 1)) (FGlob 0)) (FCell 4)) (FCell 2));
   FSet 0 (FAdd (FAdd (FAdd (FCell 7) (FGlob 5)) (FGlob 6)) (FCell 4));
   FOutVia 1 (FAdd (FAdd (FAdd (FAdd (FVia 1 1) (FVia 2 2)) (FCell 4)) (FCell 2)) (FCell 7));
   FOutVia 2 (FAdd (FAdd (FAdd (FAdd (FVia 1 1) (FVia 2 2)) (FCell 4)) (FCell 2)) (FCell 7));
   FAdv 0;
   FAdv 1;
   FAdv 2].

(* dist_loop : dist in mdtraj/geometry/src/kernels/distancekernels.h
   cells: 0=<control>, 1=j, 2=offset1, 3=pos1, 4=offset2, 5=pos2, 6=r12, 7=temp | cursors: 0=xyz, 1=displacement_out, 2=distance_out | per-frame arrays: 0=xyz, 1=displacement_out, 2=distance_out | globals: 0=n_pairs, 1=pairs, 2=store_displacement, 3=store_distance, 4=n_atoms *)
Definition dist_loop : fprog :=
  [FSet 1 (FConst 0);
   FSet 0 (FAdd (FCell 1) (FGlob 0));
   FSet 1 (FCell 1);
   FSet 2 (FAdd (FGlob 1) (FCell 1));
   FSet 3 (FAdd (FVia 0 0) (FCell 2));
   FSet 4 (FAdd (FGlob 1) (FCell 1));
   FSet 5 (FAdd (FVia 0 0) (FCell 4));
   FSet 6 (FAdd (FCell 5) (FCell 3));
   FSet 0 (FGlob 2);
   FSet 7 (FCell 6);
   FOutVia 1 (FCell 7);
   FSet 0 (FVia 1 1);
   FOutVia 1 (FCell 7);
   FSet 0 (FVia 1 1);
   FOutVia 1 (FCell 7);
   FAdv 1;
   FSet 0 (FGlob 3);
   FOutVia 2 (FCell 6);
   FAdv 2;
   FAdv 0].

(* dist_mic_loop : dist_mic in mdtraj/geometry/src/kernels/distancekernels.h
   cells: 0=<control>, 1=box_size, 2=inv_box_size, 3=j, 4=offset1, 5=pos1, 6=offset2, 7=pos2, 8=r12, 9=temp | cursors: 0=box_matrix, 1=xyz, 2=displacement_out, 3=distance_out | per-frame arrays: 0=box_matrix, 1=xyz, 2=displacement_out, 3=distance_out | globals: 0=n_pairs, 1=pairs, 2=store_displacement, 3=store_distance, 4=n_atoms *)
Definition dist_mic_loop : fprog :=
  [FSet 1 (FVia 0 0);
   FSet 2 (FVia 0 0);
   FSet 3 (FConst 0);
   FSet 0 (FAdd (FCell 3) (FGlob 0));
   FSet 3 (FCell 3);
   FSet 4 (FAdd (FGlob 1) (FCell 3));
   FSet 5 (FAdd (FVia 1 1) (FCell 4));
   FSet 6 (FAdd (FGlob 1) (FCell 3));
   FSet 7 (FAdd (FVia 1 1) (FCell 6));
   FSet 8 (FAdd (FCell 7) (FCell 5));
   FSet 8 (FAdd (FAdd (FCell 8) (FCell 2)) (FCell 1));
   FSet 0 (FGlob 2);
   FSet 9 (FCell 8);
   FOutVia 2 (FCell 9);
   FSet 0 (FVia 2 2);
   FOutVia 2 (FCell 9);
   FSet 0 (FVia 2 2);
   FOutVia 2 (FCell 9);
   FAdv 2;
   FSet 0 (FGlob 3);
   FOutVia 3 (FCell 8);
   FAdv 3;
   FAdv 1;
   FAdv 0].

(* dist_mic_triclinic_loop : dist_mic_triclinic in mdtraj/geometry/src/geometry.cpp
   cells: 0=<control>, 1=box_vec1, 2=box_vec2, 3=box_vec3, 4=recip_box_size, 5=j, 6=offset1, 7=pos1, 8=offset2, 9=pos2, 10=r12, 11=min_dist2, 12=min_r, 13=x, 14=ra, 15=y, 16=rb, 17=z, 18=rc, 19=dist2, 20=temp | cursors: 0=box_matrix, 1=xyz, 2=displacement_out, 3=distance_out | per-frame arrays: 0=box_matrix, 1=xyz, 2=displacement_out, 3=distance_out | globals: 0=n_pairs, 1=pairs, 2=store_displacement, 3=store_distance, 4=n_atoms *)
Definition dist_mic_triclinic_loop : fprog :=
  [FSet 1 (FVia 0 0);
   FSet 2 (FVia 0 0);
   FSet 3 (FVia 0 0);
   FSet 3 (FAdd (FCell 3) (FCell 2));
   FSet 3 (FAdd (FCell 3) (FCell 1));
   FSet 2 (FAdd (FCell 2) (FCell 1));
   FSet 4 (FAdd (FAdd (FCell 1) (FCell 2)) (FCell 3));
   FSet 5 (FConst 0);
   FSet 0 (FAdd (FCell 5) (FGlob 0));
   FSet 5 (FCell 5);
   FSet 6 (FAdd (FGlob 1) (FCell 5));
   FSet 7 (FAdd (FVia 1 1) (FCell 6));
   FSet 8 (FAdd (FGlob 1) (FCell 5));
   FSet 9 (FAdd (FVia 1 1) (FCell 8));
   FSet 10 (FAdd (FCell 9) (FCell 7));
   FSet 10 (FAdd (FAdd (FCell 10) (FCell 3)) (FCell 4));
   FSet 10 (FAdd (FAdd (FCell 10) (FCell 2)) (FCell 4));
   FSet 10 (FAdd (FAdd (FCell 10) (FCell 1)) (FCell 4));
   FSet 11 (FConst 0);
   FSet 12 (FCell 10);
   FSet 13 (FConst 0);
   FSet 0 (FCell 13);
   FSet 13 (FCell 13);
   FSet 14 (FAdd (FAdd (FCell 10) (FCell 1)) (FCell 13));
   FSet 15 (FConst 0);
   FSet 0 (FCell 15);
   FSet 15 (FCell 15);
   FSet 16 (FAdd (FAdd (FCell 14) (FCell 2)) (FCell 15));
   FSet 17 (FConst 0);
   FSet 0 (FCell 17);
   FSet 17 (FCell 17);
   FSet 18 (FAdd (FAdd (FCell 16) (FCell 3)) (FCell 17));
   FSet 19 (FCell 18);
   FSet 0 (FAdd (FCell 19) (FCell 11));
   FSet 11 (FCell 19);
   FSet 12 (FCell 18);
   FSet 0 (FGlob 2);
   FSet 20 (FCell 12);
   FOutVia 2 (FCell 20);
   FSet 0 (FVia 2 2);
   FOutVia 2 (FCell 20);
   FSet 0 (FVia 2 2);
   FOutVia 2 (FCell 20);
   FAdv 2;
   FSet 0 (FGlob 3);
   FOutVia 3 (FCell 11);
   FAdv 3;
   FAdv 1;
   FAdv 0].

(* angle_loop : angle in mdtraj/geometry/src/kernels/anglekernels.h
   cells: 0=<control>, 1=v1, 2=v2, 3=cosine, 4=angle | cursors:  | per-frame arrays: 0=displacements, 1=distances | globals: 0=n_angles, 1=i *)
Definition angle_loop : fprog :=
  [FSet 1 (FIdx 0);
   FSet 2 (FIdx 0);
   FSet 3 (FAdd (FAdd (FCell 1) (FCell 2)) (FIdx 1));
   FSet 0 (FCell 3);
   FSet 3 (FConst 0);
   FSet 0 (FCell 3);
   FSet 3 (FConst 0);
   FSet 4 (FCell 3);
   FOutIdx (FAdd (FAdd (FCell 4) (FGlob 0)) (FGlob 1))].

(* angle_mic_loop : angle_mic in mdtraj/geometry/src/kernels/anglekernels.h
   cells: 0=<control>, 1=v1, 2=v2, 3=cosine, 4=angle | cursors:  | per-frame arrays: 0=displacements, 1=distances | globals: 0=n_angles, 1=i *)
Definition angle_mic_loop : fprog :=
  [FSet 1 (FIdx 0);
   FSet 2 (FIdx 0);
   FSet 3 (FAdd (FAdd (FCell 1) (FCell 2)) (FIdx 1));
   FSet 0 (FCell 3);
   FSet 3 (FConst 0);
   FSet 0 (FCell 3);
   FSet 3 (FConst 0);
   FSet 4 (FCell 3);
   FOutIdx (FAdd (FAdd (FCell 4) (FGlob 0)) (FGlob 1))].

(* angle_mic_triclinic_loop : angle_mic_triclinic in mdtraj/geometry/src/kernels/anglekernels.h
   cells: 0=<control>, 1=v1, 2=v2, 3=cosine, 4=angle | cursors:  | per-frame arrays: 0=displacements, 1=distances | globals: 0=n_angles, 1=i *)
Definition angle_mic_triclinic_loop : fprog :=
  [FSet 1 (FIdx 0);
   FSet 2 (FIdx 0);
   FSet 3 (FAdd (FAdd (FCell 1) (FCell 2)) (FIdx 1));
   FSet 0 (FCell 3);
   FSet 3 (FConst 0);
   FSet 0 (FCell 3);
   FSet 3 (FConst 0);
   FSet 4 (FCell 3);
   FOutIdx (FAdd (FAdd (FCell 4) (FGlob 0)) (FGlob 1))].

(* dihedral_loop : dihedral in mdtraj/geometry/src/kernels/dihedralkernels.h
   cells: 0=<control>, 1=v1, 2=v2, 3=v3, 4=c1, 5=c2, 6=p1, 7=p2 | cursors:  | per-frame arrays: 0=displacements, 1=distances | globals: 0=n_quartets, 1=i *)
Definition dihedral_loop : fprog :=
  [FSet 1 (FIdx 0);
   FSet 2 (FIdx 0);
   FSet 3 (FIdx 0);
   FSet 4 (FAdd (FCell 2) (FCell 3));
   FSet 5 (FAdd (FCell 1) (FCell 2));
   FSet 6 (FAdd (FAdd (FCell 1) (FCell 4)) (FIdx 1));
   FSet 7 (FAdd (FCell 4) (FCell 5));
   FOutIdx (FAdd (FAdd (FAdd (FCell 6) (FCell 7)) (FGlob 0)) (FGlob 1))].

(* dihedral_mic_loop : dihedral_mic in mdtraj/geometry/src/kernels/dihedralkernels.h
   cells: 0=<control>, 1=v1, 2=v2, 3=v3, 4=c1, 5=c2, 6=p1, 7=p2 | cursors:  | per-frame arrays: 0=displacements, 1=distances | globals: 0=n_quartets, 1=i *)
Definition dihedral_mic_loop : fprog :=
  [FSet 1 (FIdx 0);
   FSet 2 (FIdx 0);
   FSet 3 (FIdx 0);
   FSet 4 (FAdd (FCell 2) (FCell 3));
   FSet 5 (FAdd (FCell 1) (FCell 2));
   FSet 6 (FAdd (FAdd (FCell 1) (FCell 4)) (FIdx 1));
   FSet 7 (FAdd (FCell 4) (FCell 5));
   FOutIdx (FAdd (FAdd (FAdd (FCell 6) (FCell 7)) (FGlob 0)) (FGlob 1))].

(* dihedral_mic_triclinic_loop : dihedral_mic_triclinic in mdtraj/geometry/src/kernels/dihedralkernels.h
   cells: 0=<control>, 1=v1, 2=v2, 3=v3, 4=c1, 5=c2, 6=p1, 7=p2 | cursors:  | per-frame arrays: 0=displacements, 1=distances | globals: 0=n_quartets, 1=i *)
Definition dihedral_mic_triclinic_loop : fprog :=
  [FSet 1 (FIdx 0);
   FSet 2 (FIdx 0);
   FSet 3 (FIdx 0);
   FSet 4 (FAdd (FCell 2) (FCell 3));
   FSet 5 (FAdd (FCell 1) (FCell 2));
   FSet 6 (FAdd (FAdd (FCell 1) (FCell 4)) (FIdx 1));
   FSet 7 (FAdd (FCell 4) (FCell 5));
   FOutIdx (FAdd (FAdd (FAdd (FCell 6) (FCell 7)) (FGlob 0)) (FGlob 1))].

(* center_loop : inplace_center_and_trace_atom_major in mdtraj/rmsd/src/center_sse.h
   cells: 0=<control>, 1=confp, 2=sx_, 3=sy_, 4=sz_, 5=trace_, 6=i, 7=x, 8=y, 9=z, 10=sx, 11=sy, 12=sz, 13=sxf, 14=syf, 15=szf, 16=mux_, 17=muy_, 18=muz_, 19=x2, 20=y2, 21=z2, 22=trace | cursors:  | per-frame arrays: 0=coords | globals: 0=n_atoms, 1=traces!=NULL *)
Definition center_loop : fprog :=
  [FSet 1 (FAdd (FIdx 0) (FGlob 0));
   FSet 2 (FConst 0);
   FSet 3 (FConst 0);
   FSet 4 (FConst 0);
   FSet 5 (FConst 0);
   FSet 6 (FConst 0);
   FSet 0 (FAdd (FCell 6) (FGlob 0));
   FSet 6 (FCell 6);
   FSet 7 (FCell 1);
   FSet 8 (FCell 1);
   FSet 9 (FCell 1);
   FSet 2 (FAdd (FCell 2) (FCell 7));
   FSet 3 (FAdd (FCell 3) (FCell 8));
   FSet 4 (FAdd (FCell 4) (FCell 9));
   FSet 2 (FAdd (FCell 2) (FCell 7));
   FSet 3 (FAdd (FCell 3) (FCell 8));
   FSet 4 (FAdd (FCell 4) (FCell 9));
   FSet 1 (FCell 1);
   FSet 10 (FCell 2);
   FSet 11 (FCell 3);
   FSet 12 (FCell 4);
   FSet 6 (FConst 0);
   FSet 0 (FAdd (FCell 6) (FGlob 0));
   FSet 6 (FCell 6);
   FSet 10 (FAdd (FAdd (FCell 10) (FCell 1)) (FCell 6));
   FSet 11 (FAdd (FAdd (FCell 11) (FCell 1)) (FCell 6));
   FSet 12 (FAdd (FAdd (FCell 12) (FCell 1)) (FCell 6));
   FSet 10 (FCell 10);
   FSet 11 (FCell 11);
   FSet 12 (FCell 12);
   FSet 10 (FAdd (FCell 10) (FGlob 0));
   FSet 11 (FAdd (FCell 11) (FGlob 0));
   FSet 12 (FAdd (FCell 12) (FGlob 0));
   FSet 13 (FCell 10);
   FSet 14 (FCell 11);
   FSet 15 (FCell 12);
   FSet 16 (FCell 13);
   FSet 17 (FCell 14);
   FSet 18 (FCell 15);
   FSet 1 (FAdd (FIdx 0) (FGlob 0));
   FSet 6 (FConst 0);
   FSet 0 (FAdd (FCell 6) (FGlob 0));
   FSet 6 (FCell 6);
   FSet 7 (FCell 1);
   FSet 8 (FCell 1);
   FSet 9 (FCell 1);
   FSet 7 (FAdd (FCell 7) (FCell 16));
   FSet 8 (FAdd (FCell 8) (FCell 17));
   FSet 9 (FAdd (FCell 9) (FCell 18));
   FSet 19 (FCell 7);
   FSet 20 (FCell 8);
   FSet 21 (FCell 9);
   FSet 5 (FAdd (FCell 5) (FCell 19));
   FSet 5 (FAdd (FCell 5) (FCell 20));
   FSet 5 (FAdd (FCell 5) (FCell 21));
   FSet 5 (FAdd (FCell 5) (FCell 19));
   FSet 5 (FAdd (FCell 5) (FCell 20));
   FSet 5 (FAdd (FCell 5) (FCell 21));
   FSet 0 (FAdd (FAdd (FAdd (FCell 1) (FCell 7)) (FCell 8)) (FCell 9));
   FSet 1 (FCell 1);
   FSet 22 (FCell 5);
   FSet 6 (FConst 0);
   FSet 0 (FAdd (FCell 6) (FGlob 0));
   FSet 6 (FCell 6);
   FSet 1 (FAdd (FAdd (FCell 1) (FCell 6)) (FCell 13));
   FSet 1 (FAdd (FAdd (FCell 1) (FCell 6)) (FCell 14));
   FSet 1 (FAdd (FAdd (FCell 1) (FCell 6)) (FCell 15));
   FSet 22 (FAdd (FAdd (FCell 22) (FCell 1)) (FCell 6));
   FSet 22 (FAdd (FAdd (FCell 22) (FCell 1)) (FCell 6));
   FSet 22 (FAdd (FAdd (FCell 22) (FCell 1)) (FCell 6));
   FSet 22 (FCell 22);
   FSet 0 (FGlob 1);
   FOutIdx (FCell 22)].

(* compute_neighbors_call : _compute_neighbors in mdtraj/geometry/src/neighbors.cpp (per call)
   cells: 0=<control>, 1=cutoff2, 2=periodic, 3=triclinic, 4=recip_box_size, 5=box_size, 6=inv_box_size, 7=box_vec1, 8=box_vec2, 9=box_vec3, 10=result, 11=hit, 12=i, 13=pos1, 14=qit, 15=j, 16=pos2, 17=delta, 18=dist2 | cursors:  | per-frame arrays:  | globals: 0=cutoff, 1=box_matrix, 2=haystack_indices, 3=frame_xyz, 4=query_indices *)
Definition compute_neighbors_call : fprog :=
  [FSet 1 (FGlob 0);
   FSet 2 (FGlob 1);
   FSet 3 (FAdd (FCell 2) (FGlob 1));
   FSet 4 (FConst 0);
   FSet 0 (FCell 2);
   FSet 4 (FAdd (FGlob 1) (FCell 4));
   FSet 4 (FAdd (FGlob 1) (FCell 4));
   FSet 4 (FAdd (FGlob 1) (FCell 4));
   FSet 5 (FGlob 1);
   FSet 6 (FCell 4);
   FSet 7 (FGlob 1);
   FSet 8 (FGlob 1);
   FSet 9 (FGlob 1);
   FSet 9 (FAdd (FCell 9) (FCell 8));
   FSet 9 (FAdd (FCell 9) (FCell 7));
   FSet 8 (FAdd (FCell 8) (FCell 7));
   FSet 10 (FConst 0);
   FSet 11 (FGlob 2);
   FSet 0 (FAdd (FCell 11) (FGlob 2));
   FSet 11 (FCell 11);
   FSet 12 (FCell 11);
   FSet 13 (FAdd (FGlob 3) (FCell 12));
   FSet 14 (FGlob 4);
   FSet 0 (FAdd (FCell 14) (FGlob 4));
   FSet 14 (FCell 14);
   FSet 15 (FCell 14);
   FSet 0 (FAdd (FCell 12) (FCell 15));
   FSet 16 (FAdd (FGlob 3) (FCell 15));
   FSet 17 (FAdd (FCell 13) (FCell 16));
   FSet 0 (FCell 3);
   FSet 17 (FAdd (FAdd (FCell 17) (FCell 9)) (FCell 4));
   FSet 17 (FAdd (FAdd (FCell 17) (FCell 8)) (FCell 4));
   FSet 17 (FAdd (FAdd (FCell 17) (FCell 7)) (FCell 4));
   FSet 0 (FCell 2);
   FSet 17 (FAdd (FAdd (FCell 17) (FCell 6)) (FCell 5));
   FSet 18 (FCell 17);
   FSet 0 (FAdd (FCell 18) (FCell 1));
   FSet 10 (FAdd (FCell 10) (FCell 12));
   FOutIdx (FCell 10)].

(* drid_moments_call : drid_moments in mdtraj/geometry/src/dridkernels.cpp (per call)
   cells: 0=<control>, 1=onlinemoments, 2=x, 3=i, 4=y, 5=r, 6=d | cursors:  | per-frame arrays:  | globals: 0=coords, 1=index, 2=n_partners, 3=partners, 4=moments *)
Definition drid_moments_call : fprog :=
  [FSet 1 (FConst 0);
   FSet 2 (FAdd (FGlob 0) (FGlob 1));
   FSet 3 (FConst 0);
   FSet 0 (FAdd (FCell 3) (FGlob 2));
   FSet 3 (FCell 3);
   FSet 4 (FAdd (FAdd (FGlob 0) (FGlob 3)) (FCell 3));
   FSet 5 (FAdd (FCell 2) (FCell 4));
   FSet 6 (FCell 5);
   FSet 1 (FAdd (FCell 1) (FCell 6));
   FOutIdx (FAdd (FCell 1) (FGlob 4));
   FOutIdx (FAdd (FCell 1) (FGlob 4));
   FOutIdx (FAdd (FCell 1) (FGlob 4))].

(* moments_clear_call : moments_clear in mdtraj/geometry/src/moments.cpp (per call)
   cells: 0=<control> | cursors:  | per-frame arrays:  | globals: 0=self *)
Definition moments_clear_call : fprog :=
  [FOutIdx (FGlob 0);
   FOutIdx (FGlob 0);
   FOutIdx (FGlob 0);
   FOutIdx (FGlob 0)].

(* moments_push_call : moments_push in mdtraj/geometry/src/moments.cpp (per call)
   cells: 0=<control>, 1=n1, 2=delta, 3=delta_n, 4=term1 | cursors:  | per-frame arrays:  | globals: 0=self, 1=x *)
Definition moments_push_call : fprog :=
  [FSet 1 (FGlob 0);
   FOutIdx (FGlob 0);
   FSet 2 (FAdd (FGlob 1) (FGlob 0));
   FSet 3 (FAdd (FCell 2) (FGlob 0));
   FSet 4 (FAdd (FAdd (FCell 2) (FCell 3)) (FCell 1));
   FOutIdx (FAdd (FGlob 0) (FCell 3));
   FOutIdx (FAdd (FAdd (FGlob 0) (FCell 4)) (FCell 3));
   FOutIdx (FAdd (FGlob 0) (FCell 4))].

(* moments_mean_call : moments_mean in mdtraj/geometry/src/moments.cpp (per call)
   cells: 0=<control> | cursors:  | per-frame arrays:  | globals: 0=self *)
Definition moments_mean_call : fprog :=
  [FOutIdx (FGlob 0)].

(* moments_second_call : moments_second in mdtraj/geometry/src/moments.cpp (per call)
   cells: 0=<control> | cursors:  | per-frame arrays:  | globals: 0=self *)
Definition moments_second_call : fprog :=
  [FOutIdx (FGlob 0)].

(* moments_third_call : moments_third in mdtraj/geometry/src/moments.cpp (per call)
   cells: 0=<control> | cursors:  | per-frame arrays:  | globals: 0=self *)
Definition moments_third_call : fprog :=
  [FOutIdx (FGlob 0)].

Definition scanned_kernels : list (string * fprog) :=
  [("dssp_loop"%string, dssp_loop);
   ("kabsch_sander_loop"%string, kabsch_sander_loop);
   ("dist_loop"%string, dist_loop);
   ("dist_mic_loop"%string, dist_mic_loop);
   ("dist_mic_triclinic_loop"%string, dist_mic_triclinic_loop);
   ("angle_loop"%string, angle_loop);
   ("angle_mic_loop"%string, angle_mic_loop);
   ("angle_mic_triclinic_loop"%string, angle_mic_triclinic_loop);
   ("dihedral_loop"%string, dihedral_loop);
   ("dihedral_mic_loop"%string, dihedral_mic_loop);
   ("dihedral_mic_triclinic_loop"%string, dihedral_mic_triclinic_loop);
   ("center_loop"%string, center_loop);
   ("compute_neighbors_call"%string, compute_neighbors_call);
   ("drid_moments_call"%string, drid_moments_call);
   ("moments_clear_call"%string, moments_clear_call);
   ("moments_push_call"%string, moments_push_call);
   ("moments_mean_call"%string, moments_mean_call);
   ("moments_second_call"%string, moments_second_call);
   ("moments_third_call"%string, moments_third_call)].
Definition percall_static_written : list string := [].

Lemma scanned_kernels_disciplined : forallb (fun k => fdisc (snd k)) scanned_kernels = true.
Proof. vm_compute. reflexivity. Qed.
Lemma percall_kernels_stateless : percall_static_written = [].
Proof. reflexivity. Qed.
(* mutable file-scope variables and static locals found in the kernel source files (sasa.cpp, dssp.cpp, geometry.cpp,
   neighbors.cpp, neighborlist.cpp, dridkernels.cpp, moments.cpp, the kernel headers, the rmsd sources): state that
   outlives a call *)
Definition kernel_files_static_state : list string := [].
Lemma kernel_files_stateless : kernel_files_static_state = [].
Proof. reflexivity. Qed.
