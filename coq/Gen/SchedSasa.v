(* GENERATED on every run by harness/props/C08.py from mdtraj/geometry/src/sasa.cpp (and neighborlist.cpp for the
   shared-variable list).  ops: zero acc scale out *)
From Coq Require Import String.
From Coq Require Import List ZArith Bool.
Import ListNotations.
Require Import MD.Sched.Scratch MD.Sched.Kernels.
Open Scope Z_scope.

(* cell 0 = the thread's outframebuffer entry of one atom; Inp 0 = accessible points in this frame; Inp 1 = c*r*r *)
Definition sasa_prog : prog := [Set_ 0 (Const 0); Set_ 0 (Add (Cell 0) (Inp 0)); Set_ 0 (Mul (Cell 0) (Inp 1)); Out (Cell 0)].

(* variables declared outside an omp parallel region, written inside it, and not private *)
Definition shared_written : list string := [].

(* per-run obligation: the loop as it is written today either obeys the scratch discipline or is exactly the
   recorded as-found loop (whose violation is the known finding); anything else stops the build *)
Lemma sasa_prog_classified : ok_prog sasa_prog = true \/ sasa_prog = sasa_cur_prog.
Proof. first [left; vm_compute; reflexivity | right; reflexivity]. Qed.
