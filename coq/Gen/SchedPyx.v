(* GENERATED on every run by harness/props/C08.py + C08_pyx.py + C08_scan.py.
   (1) one term of MD.Sched.FrameLoop per control-flow path of every per-frame loop of mdtraj's cython sources
       (_rmsd.pyx, drid.pyx, neighbors.pyx): `for i in prange(n_frames)` and its serial twin `for i in range(n_frames)`;
   (2) the hand-written OpenMP frame loops (sasa.cpp:sasa, center_sse.h);
   (3) the OpenMP clauses of the C++ that cython generated (the compiled file) matched, in textual order, against the
       prange loops of the .pyx, and the clauses of the hand-written pragmas.
   Per-run obligations: every term is disciplined; every PARALLEL term is also cursor-free (par_ok), so that
   MD.Sched.FrameLoopPar.par_loop_schedule_free applies; no reduction clause / in-place scalar update in a prange body;
   every scalar a prange body assigns is lastprivate in the generated pragma; every variable an omp loop body writes
   and that is declared outside the region is in a private clause. *)
From Coq Require Import String.
From Coq Require Import List ZArith Bool.
Import ListNotations.
Require Import MD.Sched.FrameLoop.
Open Scope Z_scope.

(* rmsd_prange : prange loop of rmsd in mdtraj/rmsd/_rmsd.pyx
   cells: 0=<control>, 1=msd | cursors:  | per-frame arrays: 0=target_xyz, 1=target_g | globals: 0=n_atoms, 1=ref_xyz_frame, 2=ref_g *)
Definition rmsd_prange : fprog :=
  [FSet 1 (FAdd (FAdd (FAdd (FAdd (FGlob 0) (FIdx 0)) (FGlob 1)) (FIdx 1)) (FGlob 2));
   FOutIdx (FCell 1)].

(* rmsd_serial : range loop of rmsd in mdtraj/rmsd/_rmsd.pyx
   cells: 0=<control>, 1=msd | cursors:  | per-frame arrays: 0=target_xyz, 1=target_g | globals: 0=n_atoms, 1=ref_xyz_frame, 2=ref_g *)
Definition rmsd_serial : fprog :=
  [FSet 1 (FAdd (FAdd (FAdd (FAdd (FGlob 0) (FIdx 0)) (FGlob 1)) (FIdx 1)) (FGlob 2));
   FOutIdx (FCell 1)].

(* rmsf_superpose_prange : prange loop of rmsf in mdtraj/rmsd/_rmsd.pyx
   cells: 0=<control> | cursors:  | per-frame arrays: 0=target_xyz, 1=target_g, 2=target_displaced_xyz, 3=rot | globals: 0=n_atoms, 1=ref_xyz_frame, 2=ref_g *)
Definition rmsf_superpose_prange : fprog :=
  [FOutIdx (FAdd (FAdd (FAdd (FAdd (FGlob 0) (FIdx 0)) (FGlob 1)) (FGlob 2)) (FIdx 1));
   FOutIdx (FAdd (FAdd (FGlob 0) (FIdx 2)) (FIdx 3))].

(* rmsf_superpose_serial : range loop of rmsf in mdtraj/rmsd/_rmsd.pyx
   cells: 0=<control> | cursors:  | per-frame arrays: 0=target_xyz, 1=target_g, 2=target_displaced_xyz, 3=rot | globals: 0=n_atoms, 1=ref_xyz_frame, 2=ref_g *)
Definition rmsf_superpose_serial : fprog :=
  [FOutIdx (FAdd (FAdd (FAdd (FAdd (FGlob 0) (FIdx 0)) (FGlob 1)) (FGlob 2)) (FIdx 1));
   FOutIdx (FAdd (FAdd (FGlob 0) (FIdx 2)) (FIdx 3))].

(* multi_rmsd_axis_major_prange : prange loop of getMultipleRMSDs_axis_major in mdtraj/rmsd/_rmsd.pyx
   cells: 0=<control>, 1=msd | cursors:  | per-frame arrays: 0=xyz2, 1=g2 | globals: 0=n_atoms, 1=xyz1, 2=frame, 3=g1 *)
Definition multi_rmsd_axis_major_prange : fprog :=
  [FSet 1 (FAdd (FAdd (FAdd (FAdd (FAdd (FGlob 0) (FGlob 1)) (FGlob 2)) (FIdx 0)) (FGlob 3)) (FIdx 1));
   FOutIdx (FCell 1)].

(* multi_rmsd_axis_major_serial : range loop of getMultipleRMSDs_axis_major in mdtraj/rmsd/_rmsd.pyx
   cells: 0=<control>, 1=msd | cursors:  | per-frame arrays: 0=xyz2, 1=g2 | globals: 0=n_atoms, 1=xyz1, 2=frame, 3=g1 *)
Definition multi_rmsd_axis_major_serial : fprog :=
  [FSet 1 (FAdd (FAdd (FAdd (FAdd (FAdd (FGlob 0) (FGlob 1)) (FGlob 2)) (FIdx 0)) (FGlob 3)) (FIdx 1));
   FOutIdx (FCell 1)].

(* multi_rmsd_atom_major_prange : prange loop of getMultipleRMSDs_atom_major in mdtraj/rmsd/_rmsd.pyx
   cells: 0=<control>, 1=msd | cursors:  | per-frame arrays: 0=xyz2, 1=g2 | globals: 0=n_atoms, 1=xyz1, 2=frame, 3=g1 *)
Definition multi_rmsd_atom_major_prange : fprog :=
  [FSet 1 (FAdd (FAdd (FAdd (FAdd (FAdd (FGlob 0) (FGlob 1)) (FGlob 2)) (FIdx 0)) (FGlob 3)) (FIdx 1));
   FOutIdx (FCell 1)].

(* multi_rmsd_atom_major_serial : range loop of getMultipleRMSDs_atom_major in mdtraj/rmsd/_rmsd.pyx
   cells: 0=<control>, 1=msd | cursors:  | per-frame arrays: 0=xyz2, 1=g2 | globals: 0=n_atoms, 1=xyz1, 2=frame, 3=g1 *)
Definition multi_rmsd_atom_major_serial : fprog :=
  [FSet 1 (FAdd (FAdd (FAdd (FAdd (FAdd (FGlob 0) (FGlob 1)) (FGlob 2)) (FIdx 0)) (FGlob 3)) (FIdx 1));
   FOutIdx (FCell 1)].

(* superpose_prange : prange loop of superpose_atom_major in mdtraj/rmsd/_rmsd.pyx
   cells: 0=<control> | cursors:  | per-frame arrays: 0=xyz_align_mobile, 1=g_mobile, 2=xyz_displace_mobile, 3=rot | globals: 0=n_atoms_align, 1=xyz_align_target, 2=target_frame, 3=g_target, 4=n_atoms_displace *)
Definition superpose_prange : fprog :=
  [FOutIdx (FAdd (FAdd (FAdd (FAdd (FAdd (FGlob 0) (FIdx 0)) (FGlob 1)) (FGlob 2)) (FGlob 3)) (FIdx 1));
   FOutIdx (FAdd (FAdd (FGlob 4) (FIdx 2)) (FIdx 3))].

(* superpose_serial : range loop of superpose_atom_major in mdtraj/rmsd/_rmsd.pyx
   cells: 0=<control> | cursors:  | per-frame arrays: 0=xyz_align_mobile, 1=g_mobile, 2=xyz_displace_mobile, 3=rot | globals: 0=n_atoms_align, 1=xyz_align_target, 2=target_frame, 3=g_target, 4=n_atoms_displace *)
Definition superpose_serial : fprog :=
  [FOutIdx (FAdd (FAdd (FAdd (FAdd (FAdd (FGlob 0) (FIdx 0)) (FGlob 1)) (FGlob 2)) (FGlob 3)) (FIdx 1));
   FOutIdx (FAdd (FAdd (FGlob 4) (FIdx 2)) (FIdx 3))].

(* align_displace_rmsd_prange : prange loop of getMultipleAlignDisplaceRMSDs_atom_major in mdtraj/rmsd/_rmsd.pyx
   cells: 0=<control>, 1=msd | cursors:  | per-frame arrays: 0=xyz_align2, 1=g_align2, 2=xyz_displ2, 3=rot | globals: 0=n_atoms_align, 1=n_align_atoms_padded, 2=xyz_align1, 3=frame, 4=g_align1, 5=n_atoms_displ, 6=n_displ_atoms_padded, 7=xyz_displ1 *)
Definition align_displace_rmsd_prange : fprog :=
  [FOutIdx (FAdd (FAdd (FAdd (FAdd (FAdd (FAdd (FGlob 0) (FGlob 1)) (FGlob 2)) (FGlob 3)) (FIdx 0)) (FGlob 4)) (FIdx 1));
   FSet 1 (FAdd (FAdd (FAdd (FAdd (FAdd (FGlob 5) (FGlob 6)) (FGlob 7)) (FGlob 3)) (FIdx 2)) (FIdx 3));
   FOutIdx (FCell 1)].

(* align_displace_rmsd_serial : range loop of getMultipleAlignDisplaceRMSDs_atom_major in mdtraj/rmsd/_rmsd.pyx
   cells: 0=<control>, 1=msd | cursors:  | per-frame arrays: 0=xyz_align2, 1=g_align2, 2=xyz_displ2, 3=rot | globals: 0=n_atoms_align, 1=n_align_atoms_padded, 2=xyz_align1, 3=frame, 4=g_align1, 5=n_atoms_displ, 6=n_displ_atoms_padded, 7=xyz_displ1 *)
Definition align_displace_rmsd_serial : fprog :=
  [FOutIdx (FAdd (FAdd (FAdd (FAdd (FAdd (FAdd (FGlob 0) (FGlob 1)) (FGlob 2)) (FGlob 3)) (FIdx 0)) (FGlob 4)) (FIdx 1));
   FSet 1 (FAdd (FAdd (FAdd (FAdd (FAdd (FGlob 5) (FGlob 6)) (FGlob 7)) (FGlob 3)) (FIdx 2)) (FIdx 3));
   FOutIdx (FCell 1)].

(* drid_frames : range loop of _drid in mdtraj/geometry/drid.pyx
   cells: 0=<control>, 1=j | cursors:  | per-frame arrays: 0=xyz | globals: 0=n_atom_indices, 1=atom_indices, 2=partners, 3=n_partners *)
Definition drid_frames : fprog :=
  [FSet 1 (FGlob 0);
   FOutIdx (FAdd (FAdd (FAdd (FAdd (FIdx 0) (FGlob 1)) (FCell 1)) (FGlob 2)) (FGlob 3))].

(* drid_atoms_prange : prange loop of _drid in mdtraj/geometry/drid.pyx
   cells: 0=<control> | cursors:  | per-frame arrays: 0=atom_indices, 1=partners, 2=n_partners | globals: 0=xyz, 1=i *)
Definition drid_atoms_prange : fprog :=
  [FOutIdx (FAdd (FAdd (FAdd (FAdd (FGlob 0) (FGlob 1)) (FIdx 0)) (FIdx 1)) (FIdx 2))].

(* compute_neighbors_frames_path0 : range loop of compute_neighbors in mdtraj/geometry/neighbors.pyx
   cells: 0=<control>, 1=box_matrix_pointer, 2=frame_neighbors, 3=frame_neighbors_mview | cursors:  | per-frame arrays: 0=box_matrix, 1=xyz | globals: 0=is_periodic, 1=traj, 2=cutoff, 3=query_indices_, 4=haystack_indices_ *)
Definition compute_neighbors_frames_path0 : fprog :=
  [FSet 0 (FGlob 0);
   FSet 1 (FIdx 0);
   FSet 2 (FAdd (FAdd (FAdd (FAdd (FAdd (FIdx 1) (FGlob 1)) (FGlob 2)) (FGlob 3)) (FGlob 4)) (FCell 1));
   FSet 0 (FCell 2);
   FSet 3 (FCell 2);
   FOutIdx (FCell 3)].

(* compute_neighbors_frames_path1 : range loop of compute_neighbors in mdtraj/geometry/neighbors.pyx
   cells: 0=<control>, 1=box_matrix_pointer, 2=frame_neighbors | cursors:  | per-frame arrays: 0=box_matrix, 1=xyz | globals: 0=is_periodic, 1=traj, 2=cutoff, 3=query_indices_, 4=haystack_indices_ *)
Definition compute_neighbors_frames_path1 : fprog :=
  [FSet 0 (FGlob 0);
   FSet 1 (FIdx 0);
   FSet 2 (FAdd (FAdd (FAdd (FAdd (FAdd (FIdx 1) (FGlob 1)) (FGlob 2)) (FGlob 3)) (FGlob 4)) (FCell 1));
   FSet 0 (FCell 2);
   FOutIdx (FConst 0)].

(* compute_neighbors_frames_path2 : range loop of compute_neighbors in mdtraj/geometry/neighbors.pyx
   cells: 0=<control>, 1=frame_neighbors, 2=frame_neighbors_mview | cursors:  | per-frame arrays: 0=xyz | globals: 0=is_periodic, 1=traj, 2=cutoff, 3=query_indices_, 4=haystack_indices_, 5=box_matrix_pointer *)
Definition compute_neighbors_frames_path2 : fprog :=
  [FSet 0 (FGlob 0);
   FSet 1 (FAdd (FAdd (FAdd (FAdd (FAdd (FIdx 0) (FGlob 1)) (FGlob 2)) (FGlob 3)) (FGlob 4)) (FGlob 5));
   FSet 0 (FCell 1);
   FSet 2 (FCell 1);
   FOutIdx (FCell 2)].

(* compute_neighbors_frames_path3 : range loop of compute_neighbors in mdtraj/geometry/neighbors.pyx
   cells: 0=<control>, 1=frame_neighbors | cursors:  | per-frame arrays: 0=xyz | globals: 0=is_periodic, 1=traj, 2=cutoff, 3=query_indices_, 4=haystack_indices_, 5=box_matrix_pointer *)
Definition compute_neighbors_frames_path3 : fprog :=
  [FSet 0 (FGlob 0);
   FSet 1 (FAdd (FAdd (FAdd (FAdd (FAdd (FIdx 0) (FGlob 1)) (FGlob 2)) (FGlob 3)) (FGlob 4)) (FGlob 5));
   FSet 0 (FCell 1);
   FOutIdx (FConst 0)].

(* sasa_frames_omp : omp loop of sasa in mdtraj/geometry/src/sasa.cpp
   cells: 0=<control>, 1=outframebuffer, 2=wb1, 3=wb2, 4=outframe, 5=k | cursors:  | per-frame arrays: 0=xyzlist, 1=out | globals: 0=n_atoms, 1=atom_radii, 2=sphere_points, 3=n_sphere_points, 4=atom_selection_mask, 5=n_groups, 6=atom_mapping *)
Definition sasa_frames_omp : fprog :=
  [FSet 1 (FGlob 0);
   FSet 2 (FAdd (FAdd (FAdd (FAdd (FAdd (FAdd (FIdx 0) (FGlob 0)) (FGlob 1)) (FGlob 2)) (FGlob 3)) (FGlob 4)) (FCell 1));
   FSet 3 (FAdd (FAdd (FAdd (FAdd (FAdd (FAdd (FIdx 0) (FGlob 0)) (FGlob 1)) (FGlob 2)) (FGlob 3)) (FGlob 4)) (FCell 1));
   FSet 1 (FAdd (FAdd (FAdd (FAdd (FAdd (FAdd (FIdx 0) (FGlob 0)) (FGlob 1)) (FGlob 2)) (FGlob 3)) (FGlob 4)) (FCell 1));
   FSet 4 (FAdd (FIdx 1) (FGlob 5));
   FSet 5 (FConst 0);
   FSet 0 (FAdd (FCell 5) (FGlob 0));
   FSet 5 (FCell 5);
   FSet 4 (FAdd (FAdd (FAdd (FCell 4) (FGlob 6)) (FCell 5)) (FCell 1))].

(* center_frames_omp : omp loop of inplace_center_and_trace_atom_major in mdtraj/rmsd/src/center_sse.h
   cells: 0=<control>, 1=confp, 2=sx_, 3=sy_, 4=sz_, 5=trace_, 6=i, 7=x, 8=y, 9=z, 10=sx, 11=sy, 12=sz, 13=sxf, 14=syf, 15=szf, 16=mux_, 17=muy_, 18=muz_, 19=x2, 20=y2, 21=z2, 22=trace | cursors:  | per-frame arrays: 0=coords | globals: 0=n_atoms, 1=traces!=NULL *)
Definition center_frames_omp : fprog :=
  [FSet 1 (FAdd (FIdx 0) (FGlob 0));
   FSet 2 (FConst 0);
   FSet 3 (FConst 0);
   FSet 4 (FConst 0);
   FSet 5 (FConst 0);
   FSet 6 (FConst 0);
   FSet 0 (FAdd (FCell 6) (FGlob 0));
   FSet 6 (FCell 6);
   FSet 7 (FCell 1);
   FSet 8 (FCell 1);
   FSet 9 (FCell 1);
   FSet 2 (FAdd (FCell 2) (FCell 7));
   FSet 3 (FAdd (FCell 3) (FCell 8));
   FSet 4 (FAdd (FCell 4) (FCell 9));
   FSet 2 (FAdd (FCell 2) (FCell 7));
   FSet 3 (FAdd (FCell 3) (FCell 8));
   FSet 4 (FAdd (FCell 4) (FCell 9));
   FSet 1 (FCell 1);
   FSet 10 (FCell 2);
   FSet 11 (FCell 3);
   FSet 12 (FCell 4);
   FSet 6 (FConst 0);
   FSet 0 (FAdd (FCell 6) (FGlob 0));
   FSet 6 (FCell 6);
   FSet 10 (FAdd (FAdd (FCell 10) (FCell 1)) (FCell 6));
   FSet 11 (FAdd (FAdd (FCell 11) (FCell 1)) (FCell 6));
   FSet 12 (FAdd (FAdd (FCell 12) (FCell 1)) (FCell 6));
   FSet 10 (FCell 10);
   FSet 11 (FCell 11);
   FSet 12 (FCell 12);
   FSet 10 (FAdd (FCell 10) (FGlob 0));
   FSet 11 (FAdd (FCell 11) (FGlob 0));
   FSet 12 (FAdd (FCell 12) (FGlob 0));
   FSet 13 (FCell 10);
   FSet 14 (FCell 11);
   FSet 15 (FCell 12);
   FSet 16 (FCell 13);
   FSet 17 (FCell 14);
   FSet 18 (FCell 15);
   FSet 1 (FAdd (FIdx 0) (FGlob 0));
   FSet 6 (FConst 0);
   FSet 0 (FAdd (FCell 6) (FGlob 0));
   FSet 6 (FCell 6);
   FSet 7 (FCell 1);
   FSet 8 (FCell 1);
   FSet 9 (FCell 1);
   FSet 7 (FAdd (FCell 7) (FCell 16));
   FSet 8 (FAdd (FCell 8) (FCell 17));
   FSet 9 (FAdd (FCell 9) (FCell 18));
   FSet 19 (FCell 7);
   FSet 20 (FCell 8);
   FSet 21 (FCell 9);
   FSet 5 (FAdd (FCell 5) (FCell 19));
   FSet 5 (FAdd (FCell 5) (FCell 20));
   FSet 5 (FAdd (FCell 5) (FCell 21));
   FSet 5 (FAdd (FCell 5) (FCell 19));
   FSet 5 (FAdd (FCell 5) (FCell 20));
   FSet 5 (FAdd (FCell 5) (FCell 21));
   FSet 0 (FAdd (FAdd (FAdd (FCell 1) (FCell 7)) (FCell 8)) (FCell 9));
   FSet 1 (FCell 1);
   FSet 22 (FCell 5);
   FSet 6 (FConst 0);
   FSet 0 (FAdd (FCell 6) (FGlob 0));
   FSet 6 (FCell 6);
   FSet 1 (FAdd (FAdd (FCell 1) (FCell 6)) (FCell 13));
   FSet 1 (FAdd (FAdd (FCell 1) (FCell 6)) (FCell 14));
   FSet 1 (FAdd (FAdd (FCell 1) (FCell 6)) (FCell 15));
   FSet 22 (FAdd (FAdd (FCell 22) (FCell 1)) (FCell 6));
   FSet 22 (FAdd (FAdd (FCell 22) (FCell 1)) (FCell 6));
   FSet 22 (FAdd (FAdd (FCell 22) (FCell 1)) (FCell 6));
   FSet 22 (FCell 22);
   FSet 0 (FGlob 1);
   FOutIdx (FCell 22)].

Definition pyx_loops : list (string * fprog) :=
  [("rmsd_prange"%string, rmsd_prange);
   ("rmsd_serial"%string, rmsd_serial);
   ("rmsf_superpose_prange"%string, rmsf_superpose_prange);
   ("rmsf_superpose_serial"%string, rmsf_superpose_serial);
   ("multi_rmsd_axis_major_prange"%string, multi_rmsd_axis_major_prange);
   ("multi_rmsd_axis_major_serial"%string, multi_rmsd_axis_major_serial);
   ("multi_rmsd_atom_major_prange"%string, multi_rmsd_atom_major_prange);
   ("multi_rmsd_atom_major_serial"%string, multi_rmsd_atom_major_serial);
   ("superpose_prange"%string, superpose_prange);
   ("superpose_serial"%string, superpose_serial);
   ("align_displace_rmsd_prange"%string, align_displace_rmsd_prange);
   ("align_displace_rmsd_serial"%string, align_displace_rmsd_serial);
   ("drid_frames"%string, drid_frames);
   ("drid_atoms_prange"%string, drid_atoms_prange);
   ("compute_neighbors_frames_path0"%string, compute_neighbors_frames_path0);
   ("compute_neighbors_frames_path1"%string, compute_neighbors_frames_path1);
   ("compute_neighbors_frames_path2"%string, compute_neighbors_frames_path2);
   ("compute_neighbors_frames_path3"%string, compute_neighbors_frames_path3);
   ("sasa_frames_omp"%string, sasa_frames_omp);
   ("center_frames_omp"%string, center_frames_omp)].
Definition parallel_loops : list (string * fprog) :=
  [("rmsd_prange"%string, rmsd_prange);
   ("rmsf_superpose_prange"%string, rmsf_superpose_prange);
   ("multi_rmsd_axis_major_prange"%string, multi_rmsd_axis_major_prange);
   ("multi_rmsd_atom_major_prange"%string, multi_rmsd_atom_major_prange);
   ("superpose_prange"%string, superpose_prange);
   ("align_displace_rmsd_prange"%string, align_displace_rmsd_prange);
   ("drid_atoms_prange"%string, drid_atoms_prange);
   ("sasa_frames_omp"%string, sasa_frames_omp);
   ("center_frames_omp"%string, center_frames_omp)].
(* (prange at file:line, (lastprivate variables of the generated omp for, (reduction clauses, schedule clause))) *)
Definition prange_clauses : list (string * (list string * (list string * string))) :=
  [("drid.pyx:127"%string, (["j"%string], ([], ""%string))); ("_rmsd.pyx:197"%string, (["i"%string; "msd"%string], ([], ""%string))); ("_rmsd.pyx:363"%string, (["i"%string], ([], ""%string))); ("_rmsd.pyx:372"%string, (["i"%string; "j"%string], ([], ""%string))); ("_rmsd.pyx:385"%string, (["i"%string; "j"%string], ([], ""%string))); ("_rmsd.pyx:465"%string, (["i"%string; "msd"%string], ([], ""%string))); ("_rmsd.pyx:525"%string, (["i"%string; "msd"%string], ([], ""%string))); ("_rmsd.pyx:582"%string, (["i"%string], ([], ""%string))); ("_rmsd.pyx:667"%string, (["i"%string; "msd"%string], ([], ""%string)))].
(* (hand-written pragma, (private variables, (reduction clauses, schedule clause))) *)
Definition omp_clauses : list (string * (list string * (list string * string))) :=
  [("sasa.cpp:parallel"%string, (["outframe"%string; "outframebuffer"%string; "wb1"%string; "wb2"%string], ([], ""%string))); ("sasa.cpp:for"%string, ([], ([], ""%string))); ("neighborlist.cpp:parallel for"%string, ([], ([], ""%string))); ("center_sse.h:parallel for"%string, (["confp"%string; "i"%string; "mux_"%string; "muy_"%string; "muz_"%string; "sx"%string; "sx_"%string; "sxf"%string; "sy"%string; "sy_"%string; "syf"%string; "sz"%string; "sz_"%string; "szf"%string; "trace"%string; "trace_"%string; "x"%string; "x2"%string; "y"%string; "y2"%string; "z"%string; "z2"%string], ([], ""%string)))].
Definition prange_reductions : list string := [].
Definition prange_unprivatised : list string := [].
Definition prange_generated_mismatch : list string := [].
Definition omp_unprivatised : list string := [].

Lemma pyx_loops_disciplined : forallb (fun k => fdisc (snd k)) pyx_loops = true.
Proof. vm_compute. reflexivity. Qed.
Lemma parallel_loops_par_ok : forallb (fun k => par_ok (snd k)) parallel_loops = true.
Proof. vm_compute. reflexivity. Qed.
Lemma no_reductions : prange_reductions = [].
Proof. reflexivity. Qed.
Lemma prange_scalars_private : prange_unprivatised = [].
Proof. reflexivity. Qed.
Lemma prange_generated_in_step : prange_generated_mismatch = [].
Proof. reflexivity. Qed.
Lemma omp_written_variables_private : omp_unprivatised = [].
Proof. reflexivity. Qed.
