(* GENERATED: harness/props/C03.py:translate could not read mdtraj/core/trajectory.py
   (unbound name rmsd_traces); the data-flow tie is degraded to the correspondence run. *)
Definition translator_degraded := true.
