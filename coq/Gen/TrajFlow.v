(* GENERATED: harness/props/C03.py:translate could not read mdtraj/core/trajectory.py
   (field variable assigned inside a validation branch); the data-flow tie is degraded to the correspondence run. *)
Definition translator_degraded := true.
