(* GENERATED on every run by harness/props/C03.py:translate from mdtraj/core/trajectory.py -- do not edit.
   Field data-flow of Trajectory.slice / join / stack / atom_slice and the cache effects of the in-place methods
   (term language and its semantics: MD.Traj.Flow; soundness of the checkers: MD.Traj.FlowProofs). *)
Require Import MD.Traj.Model MD.Traj.Flow MD.Traj.Extra.

Definition slice_flow : flow := mkFlow (FCopyIf (FIdx (FField OSelf SXyz))) (FCopyIf (FIdx (FField OSelf STime))) (FCopyIf (FIdx (FField OSelf SLen))) (FCopyIf (FIdx (FField OSelf SAng))) (FCopyIf (FField OSelf STop)) (FCopyIf (FArr1 (FIdx (FField OSelf STraces)))).
Definition join_flow : flow := mkFlow (FConcat SXyz) (FConcat STime) (FConcat SLen) (FConcat SAng) (FDeep (FField OSelf STop)) FNone.
Definition stack_flow : flow := mkFlow FHstack (FField OSelf STime) (FField OSelf SLen) (FField OSelf SAng) FTopJoin FNone.
Definition atom_slice_flow : flow := mkFlow (FCopy (FAtoms (FField OSelf SXyz))) (FCopy (FField OSelf STime)) (FCopy (FField OSelf SLen)) (FCopy (FField OSelf SAng)) FSubset FNone.
Definition inplace_effects : effects :=
  mkEffects (FEnsure FArg) FNone
            (FCopy (FAtoms (FField OSelf SXyz))) FNone
            FCentred (FSetter FArg) (FSetter FArg)
            true false false.

(* each extracted term passes the checker, hence (FlowProofs.check_*_sound) denotes the model's operation *)
Lemma slice_flow_checks : check_slice slice_flow = true.
Proof. vm_compute. reflexivity. Qed.
Lemma join_flow_checks : check_join join_flow = true.
Proof. vm_compute. reflexivity. Qed.
Lemma stack_flow_checks : check_stack stack_flow = true.
Proof. vm_compute. reflexivity. Qed.
Lemma atom_slice_flow_checks : check_atom_slice atom_slice_flow = true.
Proof. vm_compute. reflexivity. Qed.
Lemma inplace_effects_check : check_effects inplace_effects = true.
Proof. vm_compute. reflexivity. Qed.

(* second layer (MD.Traj.Extra): restrict_atoms / make_molecules_whole / image_molecules / smooth as read *)
Definition layer2_as_read : layer2_reading := mkL2 true true true true true.
Lemma layer2_checks : check_layer2 layer2_as_read = true.
Proof. vm_compute. reflexivity. Qed.
