(* GENERATED on every run by harness/props/C03.py:translate from mdtraj/core/trajectory.py -- do not edit.
   Field data-flow of Trajectory.slice / join / stack / atom_slice (term language: MD.Traj.Flow). *)
Require Import MD.Traj.Model MD.Traj.Flow.

Definition slice_flow : flow := mkFlow (FCopyIf (FIdx (FField SXyz))) (FCopyIf (FIdx (FField STime))) (FCopyIf (FIdx (FField SLen))) (FCopyIf (FIdx (FField SAng))) (FCopyIf (FField STop)) (FCopyIf (FArr1 (FIdx (FField STraces)))).
Definition join_flow : flow := mkFlow (FConcat SXyz) (FConcat STime) (FConcat SLen) (FConcat SAng) (FDeep (FField STop)) FNone.
Definition stack_flow : flow := mkFlow FHstack (FField STime) (FField SLen) (FField SAng) FTopJoin FNone.
Definition atom_slice_flow : flow := mkFlow (FCopy (FAtoms (FField SXyz))) (FCopy (FField STime)) (FCopy (FField SLen)) (FCopy (FField SAng)) FSubset FNone.
Definition atom_slice_inplace_flow : flow := mkFlow (FCopy (FAtoms (FField SXyz))) FKeep FKeep FKeep FSubset FNone.

(* the extracted flows are flows the model implements, for some variant of the two recorded defects *)
Definition source_variant : option variant := variant_of_flows slice_flow atom_slice_inplace_flow.
Lemma source_flows_are_modelled :
  match source_variant with
  | Some v => flows_known slice_flow atom_slice_inplace_flow join_flow stack_flow atom_slice_flow v
  | None => false
  end = true.
Proof. vm_compute. reflexivity. Qed.
