(* GENERATED on every run by harness/props/C13.py from mdtraj/geometry/sasa.py:_ATOMIC_RADII.
   Radii in the model's length unit U = 2^-20 * 1e-3 nm (exact for decimals with <= 3 places). *)
From Coq Require Import String.
From Coq Require Import List ZArith Bool.
Import ListNotations.
Require Import MD.Sasa.Model MD.Sasa.Proofs.
Open Scope Z_scope.

Definition units_per_nm : Z := 1048576000.
Definition atomic_radii_U : list (string * Z) := [
  ("H"%string, (125829120)%Z);
  ("D"%string, (125829120)%Z);
  ("He"%string, (146800640)%Z);
  ("Li"%string, (79691776)%Z);
  ("Be"%string, (61865984)%Z);
  ("B"%string, (201326592)%Z);
  ("C"%string, (178257920)%Z);
  ("N"%string, (162529280)%Z);
  ("O"%string, (159383552)%Z);
  ("F"%string, (154140672)%Z);
  ("Ne"%string, (161480704)%Z);
  ("Na"%string, (106954752)%Z);
  ("Mg"%string, (90177536)%Z);
  ("Al"%string, (192937984)%Z);
  ("Si"%string, (220200960)%Z);
  ("P"%string, (188743680)%Z);
  ("S"%string, (188743680)%Z);
  ("Cl"%string, (189792256)%Z);
  ("Ar"%string, (197132288)%Z);
  ("K"%string, (144703488)%Z);
  ("Ca"%string, (119537664)%Z);
  ("Sc"%string, (221249536)%Z);
  ("Ti"%string, (209715200)%Z);
  ("V"%string, (209715200)%Z);
  ("Cr"%string, (209715200)%Z);
  ("Mn"%string, (209715200)%Z);
  ("Fe"%string, (209715200)%Z);
  ("Co"%string, (209715200)%Z);
  ("Ni"%string, (170917888)%Z);
  ("Cu"%string, (146800640)%Z);
  ("Zn"%string, (145752064)%Z);
  ("Ga"%string, (196083712)%Z);
  ("Ge"%string, (221249536)%Z);
  ("As"%string, (193986560)%Z);
  ("Se"%string, (199229440)%Z);
  ("Br"%string, (193986560)%Z);
  ("Kr"%string, (211812352)%Z);
  ("Rb"%string, (317718528)%Z);
  ("Sr"%string, (261095424)%Z);
  ("Y"%string, (209715200)%Z);
  ("Zr"%string, (209715200)%Z);
  ("Nb"%string, (209715200)%Z);
  ("Mo"%string, (209715200)%Z);
  ("Tc"%string, (209715200)%Z);
  ("Ru"%string, (209715200)%Z);
  ("Rh"%string, (209715200)%Z);
  ("Pd"%string, (170917888)%Z);
  ("Ag"%string, (180355072)%Z);
  ("Cd"%string, (165675008)%Z);
  ("In"%string, (202375168)%Z);
  ("Sn"%string, (227540992)%Z);
  ("Sb"%string, (216006656)%Z);
  ("Te"%string, (216006656)%Z);
  ("I"%string, (207618048)%Z);
  ("Xe"%string, (226492416)%Z);
  ("Cs"%string, (175112192)%Z);
  ("Ba"%string, (156237824)%Z);
  ("La"%string, (209715200)%Z);
  ("Ce"%string, (209715200)%Z);
  ("Pr"%string, (209715200)%Z);
  ("Nd"%string, (209715200)%Z);
  ("Pm"%string, (209715200)%Z);
  ("Sm"%string, (209715200)%Z);
  ("Eu"%string, (209715200)%Z);
  ("Gd"%string, (209715200)%Z);
  ("Tb"%string, (209715200)%Z);
  ("Dy"%string, (209715200)%Z);
  ("Ho"%string, (209715200)%Z);
  ("Er"%string, (209715200)%Z);
  ("Tm"%string, (209715200)%Z);
  ("Yb"%string, (209715200)%Z);
  ("Lu"%string, (209715200)%Z);
  ("Hf"%string, (209715200)%Z);
  ("Ta"%string, (209715200)%Z);
  ("W"%string, (209715200)%Z);
  ("Re"%string, (209715200)%Z);
  ("Os"%string, (209715200)%Z);
  ("Ir"%string, (209715200)%Z);
  ("Pt"%string, (183500800)%Z);
  ("Au"%string, (174063616)%Z);
  ("Hg"%string, (162529280)%Z);
  ("Tl"%string, (205520896)%Z);
  ("Pb"%string, (211812352)%Z);
  ("Bi"%string, (217055232)%Z);
  ("Po"%string, (206569472)%Z);
  ("At"%string, (211812352)%Z);
  ("Rn"%string, (230686720)%Z);
  ("Fr"%string, (364904448)%Z);
  ("Ra"%string, (296747008)%Z);
  ("Ac"%string, (209715200)%Z);
  ("Th"%string, (209715200)%Z);
  ("Pa"%string, (209715200)%Z);
  ("U"%string, (195035136)%Z);
  ("Np"%string, (209715200)%Z);
  ("Pu"%string, (209715200)%Z);
  ("Am"%string, (209715200)%Z);
  ("Cm"%string, (209715200)%Z);
  ("Bk"%string, (209715200)%Z);
  ("Cf"%string, (209715200)%Z);
  ("Es"%string, (209715200)%Z);
  ("Fm"%string, (209715200)%Z);
  ("Md"%string, (209715200)%Z);
  ("No"%string, (209715200)%Z);
  ("Lr"%string, (209715200)%Z);
  ("Rf"%string, (209715200)%Z);
  ("Db"%string, (209715200)%Z);
  ("Sg"%string, (209715200)%Z);
  ("Bh"%string, (209715200)%Z);
  ("Hs"%string, (209715200)%Z);
  ("Mt"%string, (209715200)%Z);
  ("Ds"%string, (209715200)%Z);
  ("Rg"%string, (209715200)%Z);
  ("Cn"%string, (209715200)%Z);
  ("Uub"%string, (209715200)%Z);
  ("Uut"%string, (209715200)%Z);
  ("Fl"%string, (209715200)%Z);
  ("Uuq"%string, (209715200)%Z);
  ("Uup"%string, (209715200)%Z);
  ("Lv"%string, (209715200)%Z);
  ("Uuh"%string, (209715200)%Z);
  ("Uus"%string, (209715200)%Z);
  ("Uuo"%string, (209715200)%Z)
].

(* per-run obligation: every radius is positive and no symbol is listed twice *)
Lemma atomic_radii_wf : table_wf atomic_radii_U = true.
Proof. vm_compute. reflexivity. Qed.
