(* GENERATED on every run by harness/props/C17.py:translate from Trajectory._savers and the save_* methods of
   mdtraj/core/trajectory.py -- do not edit.  Which route each registered extension uses to hand the cell to its writer. *)
From Coq Require Import List String.
Import ListNotations.
Require Import MD.Cell.Formats.
Open Scope string_scope.

Definition source_savers : list (string * route) :=
  [(".xtc", RVectors);
   (".trr", RVectors);
   (".pdb", RLengthsAngles);
   (".pdb.gz", RLengthsAngles);
   (".dcd", RLengthsAngles);
   (".h5", RLengthsAngles);
   (".nc", RLengthsAngles);
   (".netcdf", RLengthsAngles);
   (".ncrst", RLengthsAngles);
   (".crd", RLengthsOnly);
   (".mdcrd", RLengthsOnly);
   (".ncdf", RLengthsAngles);
   (".lh5", RNothing);
   (".lammpstrj", RLengthsAngles);
   (".xyz", RNothing);
   (".xyz.gz", RNothing);
   (".gro", RVectors);
   (".rst7", RLengthsAngles);
   (".dtr", RLengthsAngles);
   (".gsd", RLengthsAngles)].

(* the hand-written table of MD.Cell.Formats describes exactly the formats the source registers *)
Lemma format_table_matches_source : table_matches_source source_savers = true.
Proof. vm_compute. reflexivity. Qed.

(* the keyword arguments of the registered save_* methods: each is one of the options the table declares cell-neutral
   (and that the runs exercise) *)
Definition source_saver_options : list (string * list string) :=
  [("save_xtc", ["force_overwrite"]);
   ("save_trr", ["force_overwrite"]);
   ("save_pdb", ["force_overwrite"; "bfactors"; "ter"; "header"]);
   ("save_dcd", ["force_overwrite"]);
   ("save_hdf5", ["mode"; "force_overwrite"]);
   ("save_netcdf", ["force_overwrite"]);
   ("save_netcdfrst", ["force_overwrite"]);
   ("save_mdcrd", ["force_overwrite"]);
   ("save_lh5", ["force_overwrite"]);
   ("save_lammpstrj", ["force_overwrite"]);
   ("save_xyz", ["force_overwrite"]);
   ("save_gro", ["force_overwrite"; "precision"]);
   ("save_amberrst7", ["force_overwrite"]);
   ("save_dtr", ["force_overwrite"]);
   ("save_gsd", ["force_overwrite"])].

Lemma saver_options_known : options_known source_saver_options = true.
Proof. vm_compute. reflexivity. Qed.
