(* Executable model of mdtraj's trajectory-file cursors (C18) and partial loading (C02).
   No proofs in this file (DESIGN.md section 1).

   A file is a list of frames; frames are opaque identifiers (nat in the runs).
   Each reader family is written the way the code computes it:
     arr      hdf5.py          slice(i, min(i+n,T)); i += stop-start
     seq      mdcrd/xyz/lammpstrj/arc/dcd/dtr   one frame per _read, counter per frame
     xdr      xtc.pyx          counter += number of frames returned
     nc_cur   netcdf.py        i += min(n, T)                (today's code)
     nc_fix   netcdf.py        i  = min(i + n, T)            (minimal repair)
     trr_cur  trr.pyx          counter += i, where i also counts the failed EOF read *)
From Coq Require Import List Arith ZArith Bool Lia.
Import ListNotations.
Require Import MD.Lib.Strided.

Definition frame := nat.
Definition file := list frame.

Inductive op := Read (n : nat) | ReadAll | Seek (k : nat) | SeekRel (d : Z) | Tell | Len.
Inductive out := Frames (l : list frame) | Pos (n : nat) | Done | Err.

(* ------------------------------------------------------------------ abstract cursor *)
Definition spec_pos (T p : nat) (o : op) : nat :=
  match o with
  | Read n => Nat.min (p + n) T
  | ReadAll => T
  | Seek k => k
  | SeekRel d => Z.to_nat (Z.of_nat p + d)
  | Tell | Len => p
  end.

Definition spec_out (f : file) (p : nat) (o : op) : out :=
  match o with
  | Read n => Frames (firstn n (skipn p f))
  | ReadAll => Frames (skipn p f)
  | Seek _ | SeekRel _ => Done
  | Tell => Pos p
  | Len => Pos (length f)
  end.

Definition spec_step (f : file) (p : nat) (o : op) : nat * out :=
  (spec_pos (length f) p o, spec_out f p o).

(* the operations the property quantifies over *)
Definition in_range (T p : nat) (o : op) : bool :=
  match o with
  | Read n => (1 <=? n) && (p + n <=? T)
  | ReadAll => true
  | Seek k => k <? T
  | SeekRel d => (0 <=? Z.of_nat p + d)%Z && (Z.of_nat p + d <? Z.of_nat T)%Z
  | Tell | Len => true
  end.

Fixpoint spec_run (f : file) (p : nat) (ops : list op) : list out :=
  match ops with
  | [] => []
  | o :: r => spec_out f p o :: spec_run f (spec_pos (length f) p o) r
  end.

Fixpoint all_in_range (T p : nat) (ops : list op) : bool :=
  match ops with
  | [] => true
  | o :: r => in_range T p o && all_in_range T (spec_pos T p o) r
  end.

(* ------------------------------------------------------------------ concrete readers.
   State = (phys, cnt): physical position in the file and the counter tell() reports.
   Only trr_cur lets them differ. *)
Definition cst := (nat * nat)%type.

Definition seek_abs (T : nat) (strict : bool) (k : Z) (s : cst) : cst * out :=
  if (k <? 0)%Z then (s, Err)
  else if strict && (Z.of_nat T <=? k)%Z then (s, Err)
  else ((Z.to_nat k, Z.to_nat k), Done).

(* hdf5.py *)
Definition arr_step (f : file) (s : cst) (o : op) : cst * out :=
  let T := length f in let i := snd s in
  match o with
  | Read n => let stop := Nat.min (i + n) T in
              ((i + (stop - i), i + (stop - i)), Frames (firstn (stop - i) (skipn i f)))
  | ReadAll => let stop := T in
              ((i + (stop - i), i + (stop - i)), Frames (firstn (stop - i) (skipn i f)))
  | Seek k => seek_abs T false (Z.of_nat k) s
  | SeekRel d => ((Z.to_nat (Z.of_nat i + d), Z.to_nat (Z.of_nat i + d)), Done)
  | Tell => (s, Pos i)
  | Len => (s, Pos T)
  end.

(* one _read() per frame; EOF ends the loop; the counter counts successful _read()s *)
Fixpoint seq_read (n : nat) (i : nat) (f : file) : nat * list frame :=
  match n with
  | 0 => (i, [])
  | S n' => match nth_error f i with
            | None => (i, [])
            | Some x => let '(i', l) := seq_read n' (S i) f in (i', x :: l)
            end
  end.

Definition seq_step (f : file) (s : cst) (o : op) : cst * out :=
  let T := length f in let i := snd s in
  match o with
  | Read n => let '(i', l) := seq_read n i f in ((i', i'), Frames l)
  | ReadAll => let '(i', l) := seq_read (S T) i f in ((i', i'), Frames l)
  | Seek k => ((k, k), Done)
  | SeekRel d => seek_abs T false (Z.of_nat i + d) s
  | Tell => (s, Pos i)
  | Len => (s, Pos T)
  end.

(* xtc.pyx: frame_counter += len(xyz) *)
Definition xdr_step (f : file) (s : cst) (o : op) : cst * out :=
  let T := length f in let i := snd s in
  match o with
  | Read n => let l := firstn n (skipn i f) in ((i + length l, i + length l), Frames l)
  | ReadAll => let l := skipn i f in ((i + length l, i + length l), Frames l)
  | Seek k => seek_abs T true (Z.of_nat k) s
  | SeekRel d => seek_abs T true (Z.of_nat i + d) s
  | Tell => (s, Pos i)
  | Len => (s, Pos T)
  end.

(* netcdf.py as it is today *)
Definition nc_cur_step (f : file) (s : cst) (o : op) : cst * out :=
  let T := length f in let i := snd s in
  match o with
  | Read n => if T <=? i then (s, Frames [])
              else let m := Nat.min n T in ((i + m, i + m), Frames (firstn m (skipn i f)))
  | ReadAll => if T <=? i then (s, Frames [])
              else let m := T in ((i + m, i + m), Frames (firstn m (skipn i f)))
  | Seek k => seek_abs T false (Z.of_nat k) s
  | SeekRel d => ((Z.to_nat (Z.of_nat i + d), Z.to_nat (Z.of_nat i + d)), Done)
  | Tell => (s, Pos i)
  | Len => (s, Pos T)
  end.

(* netcdf.py with  self._frame_index = min(self._frame_index + n_frames, total_n_frames) *)
Definition nc_fix_step (f : file) (s : cst) (o : op) : cst * out :=
  let T := length f in let i := snd s in
  match o with
  | Read n => if T <=? i then (s, Frames [])
              else let m := Nat.min n T in
                   ((Nat.min (i + n) T, Nat.min (i + n) T), Frames (firstn m (skipn i f)))
  | ReadAll => if T <=? i then (s, Frames [])
              else ((T, T), Frames (firstn T (skipn i f)))
  | Seek k => seek_abs T false (Z.of_nat k) s
  | SeekRel d => ((Z.to_nat (Z.of_nat i + d), Z.to_nat (Z.of_nat i + d)), Done)
  | Tell => (s, Pos i)
  | Len => (s, Pos T)
  end.

(* trr.pyx: _read(n) tries n frames; the failed read at EOF is counted in i, then the
   result is trimmed by one, and frame_counter += i.  read() without n loops over _read(chunk)
   (chunk >= 100) until a chunk comes back empty and fails with ValueError when the first
   chunk is already empty (np.concatenate of an empty list). *)
Definition trr_read (f : file) (s : cst) (n : nat) : cst * list frame :=
  let T := length f in let p := Nat.min (fst s) T in let avail := T - p in
  if n <=? avail then ((p + n, snd s + n), firstn n (skipn p f))
  else ((T, snd s + avail + 1), skipn p f).

Definition trr_chunk := 100.

Fixpoint trr_readall (fuel : nat) (f : file) (s : cst) (acc : list frame) (first : bool) : cst * out :=
  match fuel with
  | 0 => (s, Err)
  | S fuel' =>
      let '(s', l) := trr_read f s trr_chunk in
      match l with
      | [] => if first then (s', Err) else (s', Frames acc)
      | _ => trr_readall fuel' f s' (acc ++ l) false
      end
  end.

Definition trr_cur_step (f : file) (s : cst) (o : op) : cst * out :=
  let T := length f in let i := snd s in
  match o with
  | Read n => let '(s', l) := trr_read f s n in (s', Frames l)
  | ReadAll => trr_readall (S (S T)) f s [] true
  | Seek k => seek_abs T true (Z.of_nat k) s
  | SeekRel d => seek_abs T true (Z.of_nat i + d) s
  | Tell => (s, Pos i)
  | Len => (s, Pos T)
  end.

Definition stepper := file -> cst -> op -> cst * out.

Fixpoint run (st : stepper) (f : file) (s : cst) (ops : list op) : list out :=
  match ops with
  | [] => []
  | o :: r => let '(s', x) := st f s o in x :: run st f s' r
  end.

Fixpoint final (st : stepper) (f : file) (s : cst) (ops : list op) : cst :=
  match ops with
  | [] => s
  | o :: r => final st f (fst (st f s o)) r
  end.

(* two handles on one file: an op is tagged with the handle it is applied to *)
Fixpoint run2 (st : stepper) (f : file) (s0 s1 : cst) (ops : list (bool * op)) : list out :=
  match ops with
  | [] => []
  | (false, o) :: r => let '(s', x) := st f s0 o in x :: run2 st f s' s1 r
  | (true, o) :: r => let '(s', x) := st f s1 o in x :: run2 st f s0 s' r
  end.

Definition proj (h : bool) (ops : list (bool * op)) : list op :=
  map snd (filter (fun x => Bool.eqb (fst x) h) ops).

(* outputs of handle h inside an interleaved run *)
Fixpoint outs_of (h : bool) (ops : list (bool * op)) (outs : list out) : list out :=
  match ops, outs with
  | (h', _) :: r, x :: xs => if Bool.eqb h' h then x :: outs_of h r xs else outs_of h r xs
  | _, _ => []
  end.

(* ------------------------------------------------------------------ executable equality, variants *)
Definition out_eqb (a b : out) : bool :=
  match a, b with
  | Frames l1, Frames l2 => if list_eq_dec Nat.eq_dec l1 l2 then true else false
  | Pos n, Pos m => n =? m
  | Done, Done => true
  | Err, Err => true
  | _, _ => false
  end.

Fixpoint outs_eqb (a b : list out) : bool :=
  match a, b with
  | [], [] => true
  | x :: r, y :: t => out_eqb x y && outs_eqb r t
  | _, _ => false
  end.

(* the abstract cursor packaged as a stepper (used to compare the implementation with the SPEC) *)
Definition spec_stepper : stepper := fun f s o =>
  ((spec_pos (length f) (snd s) o, spec_pos (length f) (snd s) o), spec_out f (snd s) o).

Definition variant (v : nat) : stepper :=
  match v with
  | 0 => arr_step | 1 => seq_step | 2 => xdr_step | 3 => nc_cur_step | 4 => nc_fix_step
  | 5 => trr_cur_step
  | _ => spec_stepper
  end.

Definition case_in_range (c : nat * nat * list (bool * op)) : bool :=
  let '(_, T, ops) := c in all_in_range T 0 (proj false ops) && all_in_range T 0 (proj true ops).

Definition run_case (c : nat * nat * list (bool * op)) : list out :=
  let '(v, T, ops) := c in run2 (variant v) (seq 0 T) (0, 0) (0, 0) ops.
