(* Proofs about the cursor models (C18). *)
From Coq Require Import List Arith ZArith Bool Lia ZifyBool.
Import ListNotations.
Require Import MD.Lib.Strided MD.Cursor.Model.

(* A stepper is "faithful on in-range operations" when, started with phys = cnt = p <= T,
   it produces the abstract cursor's output and new position. *)
Definition step_ok (st : stepper) : Prop :=
  forall f p o, p <= length f -> in_range (length f) p o = true ->
    st f (p, p) o = ((spec_pos (length f) p o, spec_pos (length f) p o), spec_out f p o).

Lemma spec_pos_le T p o : p <= T -> in_range T p o = true -> spec_pos T p o <= T.
Proof.
  intros Hp Hr. destruct o as [n| |k|d| |]; simpl in *; lia.
Qed.

Theorem run_refines st : step_ok st ->
  forall f ops p, p <= length f -> all_in_range (length f) p ops = true ->
    run st f (p, p) ops = spec_run f p ops.
Proof.
  intros Hst f ops. induction ops as [|o r IH]; intros p Hp Hr; [reflexivity|].
  cbn [all_in_range] in Hr. apply andb_true_iff in Hr as [Ho Hr].
  cbn [run spec_run]. rewrite (Hst f p o Hp Ho). f_equal.
  apply IH; [apply spec_pos_le; assumption | exact Hr].
Qed.

Theorem final_refines st : step_ok st ->
  forall f ops p, p <= length f -> all_in_range (length f) p ops = true ->
    exists q, final st f (p, p) ops = (q, q) /\ q <= length f.
Proof.
  intros Hst f ops. induction ops as [|o r IH]; intros p Hp Hr.
  - exists p. split; [reflexivity|exact Hp].
  - cbn [all_in_range] in Hr. apply andb_true_iff in Hr as [Ho Hr].
    cbn [final]. rewrite (Hst f p o Hp Ho). cbn [fst].
    apply IH; [apply spec_pos_le; assumption | exact Hr].
Qed.

(* ---------------------------------------------------------------- list facts *)
Lemma firstn_skipn_all (f : file) p : firstn (length f - p) (skipn p f) = skipn p f.
Proof. apply firstn_all2. rewrite skipn_length. lia. Qed.

Lemma seq_read_spec n : forall i f, i <= length f ->
  seq_read n i f = (Nat.min (i + n) (length f), firstn n (skipn i f)).
Proof.
  induction n as [|n IH]; intros i f Hi; cbn [seq_read].
  - rewrite Nat.add_0_r, Nat.min_l by lia. reflexivity.
  - destruct (nth_error f i) as [x|] eqn:E.
    + assert (Hlt : i < length f) by (apply nth_error_Some; congruence).
      rewrite IH by lia.
      replace (Nat.min (S i + n) (length f)) with (Nat.min (i + S n) (length f)) by (f_equal; lia).
      f_equal.
      assert (Hs : skipn i f = x :: skipn (S i) f).
      { clear IH. revert i E Hi Hlt. induction f as [|y t IHf]; intros i E Hi Hlt; simpl in *; [lia|].
        destruct i; simpl in *; [congruence|]. apply IHf; [assumption|lia|lia]. }
      rewrite Hs. reflexivity.
    + apply nth_error_None in E. assert (i = length f) by lia. subst i.
      rewrite skipn_all. rewrite Nat.min_r by lia. destruct n; reflexivity.
Qed.

(* ---------------------------------------------------------------- the conforming families *)
Ltac zb := repeat match goal with
  | H : (_ && _) = true |- _ => apply andb_true_iff in H; destruct H
  | H : (_ <=? _) = true |- _ => apply Nat.leb_le in H
  | H : (_ <? _) = true |- _ => apply Nat.ltb_lt in H
  | H : (_ <=? _)%Z = true |- _ => apply Z.leb_le in H
  | H : (_ <? _)%Z = true |- _ => apply Z.ltb_lt in H
  end.

Lemma seek_abs_ok T strict k s : (0 <= k < Z.of_nat T)%Z ->
  seek_abs T strict k s = ((Z.to_nat k, Z.to_nat k), Done).
Proof.
  intros Hk. unfold seek_abs.
  destruct (k <? 0)%Z eqn:E1; [apply Z.ltb_lt in E1; lia|].
  destruct (Z.of_nat T <=? k)%Z eqn:E2; [apply Z.leb_le in E2; lia|].
  rewrite andb_false_r. reflexivity.
Qed.

Lemma arr_ok : step_ok arr_step.
Proof.
  intros f p o Hp Hr. destruct o as [n| |k|d| |]; cbn [arr_step in_range spec_pos spec_out snd] in *; zb.
  - rewrite Nat.min_l by lia. replace (p + n - p) with n by lia. reflexivity.
  - replace (p + (length f - p)) with (length f) by lia. rewrite firstn_skipn_all. reflexivity.
  - rewrite seek_abs_ok by lia. rewrite Nat2Z.id. reflexivity.
  - reflexivity.
  - reflexivity.
  - reflexivity.
Qed.

Lemma seq_ok : step_ok seq_step.
Proof.
  intros f p o Hp Hr. destruct o as [n| |k|d| |]; cbn [seq_step in_range spec_pos spec_out snd] in *; zb.
  - rewrite seq_read_spec by lia. reflexivity.
  - rewrite seq_read_spec by lia. rewrite Nat.min_r by lia.
    rewrite firstn_all2 by (rewrite skipn_length; lia). reflexivity.
  - reflexivity.
  - rewrite seek_abs_ok by lia. reflexivity.
  - reflexivity.
  - reflexivity.
Qed.

Lemma xdr_ok : step_ok xdr_step.
Proof.
  intros f p o Hp Hr. destruct o as [n| |k|d| |]; cbn [xdr_step in_range spec_pos spec_out snd] in *; zb.
  - rewrite firstn_length, skipn_length. rewrite Nat.min_l by lia. rewrite (Nat.min_l (p + n)) by lia. reflexivity.
  - rewrite skipn_length. replace (p + (length f - p)) with (length f) by lia. reflexivity.
  - rewrite seek_abs_ok by lia. rewrite Nat2Z.id. reflexivity.
  - rewrite seek_abs_ok by lia. reflexivity.
  - reflexivity.
  - reflexivity.
Qed.

Lemma nc_fix_ok : step_ok nc_fix_step.
Proof.
  intros f p o Hp Hr. destruct o as [n| |k|d| |]; cbn [nc_fix_step in_range spec_pos spec_out snd] in *; zb.
  - destruct (length f <=? p) eqn:E; [apply Nat.leb_le in E; lia|].
    rewrite (Nat.min_l n) by lia. reflexivity.
  - destruct (length f <=? p) eqn:E.
    + apply Nat.leb_le in E. assert (p = length f) by lia. subst p. rewrite skipn_all. reflexivity.
    + rewrite firstn_all2 by (rewrite skipn_length; lia). reflexivity.
  - rewrite seek_abs_ok by lia. rewrite Nat2Z.id. reflexivity.
  - reflexivity.
  - reflexivity.
  - reflexivity.
Qed.

(* ---------------------------------------------------------------- today's netcdf and trr readers
   do NOT refine the cursor: concrete in-range witnesses *)
Definition refuted (st : stepper) : Prop :=
  exists f ops, all_in_range (length f) 0 ops = true /\ run st f (0, 0) ops <> spec_run f 0 ops.

Lemma nc_cur_refuted : refuted nc_cur_step.
Proof. exists [0; 1; 2], [Seek 1; ReadAll; Tell]. split; [reflexivity|]. vm_compute. discriminate. Qed.

Lemma trr_cur_refuted : refuted trr_cur_step.
Proof. exists [0; 1; 2], [ReadAll; Tell]. split; [reflexivity|]. vm_compute. discriminate. Qed.

(* but both return the right FRAMES on in-range reads that do not follow an over-run: the defect is
   confined to the reported position *)

(* ---------------------------------------------------------------- two handles *)
Theorem handles_independent (st : stepper) f : forall ops s0 s1 h,
  outs_of h ops (run2 st f s0 s1 ops) = run st f (if h then s1 else s0) (proj h ops).
Proof.
  induction ops as [|[h' o] r IH]; intros s0 s1 h; [destruct h; reflexivity|].
  destruct h', h; cbn [run2 proj filter map fst snd Bool.eqb];
    match goal with |- context [st f ?s o] => destruct (st f s o) as [s' x] eqn:E end;
    cbn [outs_of Bool.eqb fst run]; rewrite IH; cbn [proj]; try rewrite E; reflexivity.
Qed.

(* len is the number of frames in every state, whatever happened before *)
Lemma len_any_state f s :
  snd (arr_step f s Len) = Pos (length f) /\ snd (seq_step f s Len) = Pos (length f) /\
  snd (xdr_step f s Len) = Pos (length f) /\ snd (nc_cur_step f s Len) = Pos (length f) /\
  snd (nc_fix_step f s Len) = Pos (length f) /\ snd (trr_cur_step f s Len) = Pos (length f).
Proof. repeat split. Qed.
