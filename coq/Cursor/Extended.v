(* C18, beyond the in-range alphabet.

   1. Extended abstract cursor.  [spec_out] / [spec_pos] of Model.v already say what an over-read does
      (read(n) with fewer than n frames left returns the rest and leaves the position at len; a read at
      the end of the file returns nothing and leaves the position unchanged); only [in_range] excluded
      such operations.  [ext_in_range] allows them, and the conforming families (arr, seq, xdr, nc_fix)
      refine the abstract cursor on every ext-range history: this is the theorem behind the
      correspondence's "overread" stream.
   2. Exact characterisation of the two defective readers over ALL histories (no range condition):
      an "offset cursor" whose state is (abstract position p, excess e): every output is the abstract
      cursor's output at p, except tell, which reports p + e; the rules for e are the defect.
        trr as found : a read(n) that hits the end of the file adds 1, read() adds 2 (and raises at the end
                       of the file), seek(k) clears e, seek(d, 1) is relative to the REPORTED position.
        nc as found  : a read(n) from p < len that over-runs leaves p + min(n, len) reported (e = overshoot),
                       read() leaves p + len; at the end nothing changes; seek(d, 1) relative to the reported one.
   3. The cursor contract does not depend on what a frame is (file variants): [spec_run] is natural in
      the frames. *)
From Coq Require Import List Arith ZArith Bool Lia ZifyBool.
Import ListNotations.
Require Import MD.Lib.Strided MD.Cursor.Model MD.Cursor.Proofs.

(* ------------------------------------------------------------------ 1. extended range *)
Definition ext_in_range (T p : nat) (o : op) : bool :=
  match o with
  | Read n => 1 <=? n                       (* any positive count, also past the end *)
  | ReadAll => true
  | Seek k => k <? T
  | SeekRel d => (0 <=? Z.of_nat p + d)%Z && (Z.of_nat p + d <? Z.of_nat T)%Z
  | Tell | Len => true
  end.

Fixpoint all_ext_range (T p : nat) (ops : list op) : bool :=
  match ops with
  | [] => true
  | o :: r => ext_in_range T p o && all_ext_range T (spec_pos T p o) r
  end.

Lemma in_range_ext T p o : in_range T p o = true -> ext_in_range T p o = true.
Proof. destruct o; cbn; intros H; try assumption. apply andb_true_iff in H as [H _]. exact H. Qed.

Lemma all_in_range_ext T : forall ops p, all_in_range T p ops = true -> all_ext_range T p ops = true.
Proof.
  induction ops as [|o r IH]; intros p H; [reflexivity|]. cbn in *. apply andb_true_iff in H as [H1 H2].
  rewrite (in_range_ext _ _ _ H1). now apply IH.
Qed.

Definition step_ok_ext (st : stepper) : Prop :=
  forall f p o, p <= length f -> ext_in_range (length f) p o = true ->
    st f (p, p) o = ((spec_pos (length f) p o, spec_pos (length f) p o), spec_out f p o).

Lemma spec_pos_le_ext T p o : p <= T -> ext_in_range T p o = true -> spec_pos T p o <= T.
Proof. intros Hp Hr. destruct o as [n| |k|d| |]; simpl in *; lia. Qed.

Theorem run_refines_ext st : step_ok_ext st ->
  forall f ops p, p <= length f -> all_ext_range (length f) p ops = true ->
    run st f (p, p) ops = spec_run f p ops.
Proof.
  intros Hst f ops. induction ops as [|o r IH]; intros p Hp Hr; [reflexivity|].
  cbn [all_ext_range] in Hr. apply andb_true_iff in Hr as [Ho Hr].
  cbn [run spec_run]. rewrite (Hst f p o Hp Ho). f_equal.
  apply IH; [apply spec_pos_le_ext; assumption | exact Hr].
Qed.

Lemma firstn_rest (f : file) p n : firstn (Nat.min (p + n) (length f) - p) (skipn p f) = firstn n (skipn p f).
Proof.
  destruct (Nat.le_gt_cases (p + n) (length f)) as [H|H].
  - rewrite Nat.min_l by lia. f_equal. lia.
  - rewrite Nat.min_r by lia. rewrite !firstn_all2; try reflexivity; rewrite skipn_length; lia.
Qed.

Lemma arr_ok_ext : step_ok_ext arr_step.
Proof.
  intros f p o Hp Hr. destruct o as [n| |k|d| |]; cbn [arr_step ext_in_range spec_pos spec_out snd] in *; zb.
  - rewrite firstn_rest. replace (p + (Nat.min (p + n) (length f) - p)) with (Nat.min (p + n) (length f)) by lia.
    reflexivity.
  - replace (p + (length f - p)) with (length f) by lia. rewrite firstn_skipn_all. reflexivity.
  - rewrite seek_abs_ok by lia. rewrite Nat2Z.id. reflexivity.
  - reflexivity.
  - reflexivity.
  - reflexivity.
Qed.

Lemma seq_ok_ext : step_ok_ext seq_step.
Proof.
  intros f p o Hp Hr. destruct o as [n| |k|d| |]; cbn [seq_step ext_in_range spec_pos spec_out snd] in *; zb.
  - rewrite seq_read_spec by lia. reflexivity.
  - rewrite seq_read_spec by lia. rewrite Nat.min_r by lia.
    rewrite firstn_all2 by (rewrite skipn_length; lia). reflexivity.
  - reflexivity.
  - rewrite seek_abs_ok by lia. reflexivity.
  - reflexivity.
  - reflexivity.
Qed.

Lemma xdr_ok_ext : step_ok_ext xdr_step.
Proof.
  intros f p o Hp Hr. destruct o as [n| |k|d| |]; cbn [xdr_step ext_in_range spec_pos spec_out snd] in *; zb.
  - rewrite firstn_length, skipn_length.
    replace (p + Nat.min n (length f - p)) with (Nat.min (p + n) (length f)) by lia. reflexivity.
  - rewrite skipn_length. replace (p + (length f - p)) with (length f) by lia. reflexivity.
  - rewrite seek_abs_ok by lia. rewrite Nat2Z.id. reflexivity.
  - rewrite seek_abs_ok by lia. reflexivity.
  - reflexivity.
  - reflexivity.
Qed.

Lemma nc_fix_ok_ext : step_ok_ext nc_fix_step.
Proof.
  intros f p o Hp Hr. destruct o as [n| |k|d| |]; cbn [nc_fix_step ext_in_range spec_pos spec_out snd] in *; zb.
  - destruct (length f <=? p) eqn:E.
    + apply Nat.leb_le in E. assert (p = length f) by lia. subst p.
      rewrite skipn_all, firstn_nil. rewrite Nat.min_r by lia. reflexivity.
    + apply Nat.leb_gt in E. f_equal. f_equal.
      destruct (Nat.le_gt_cases n (length f)) as [H|H]; [now rewrite Nat.min_l|].
      rewrite Nat.min_r by lia. rewrite !firstn_all2; try reflexivity; rewrite skipn_length; lia.
  - destruct (length f <=? p) eqn:E.
    + apply Nat.leb_le in E. assert (p = length f) by lia. subst p. rewrite skipn_all. reflexivity.
    + rewrite firstn_all2 by (rewrite skipn_length; lia). reflexivity.
  - rewrite seek_abs_ok by lia. rewrite Nat2Z.id. reflexivity.
  - reflexivity.
  - reflexivity.
  - reflexivity.
Qed.

(* ------------------------------------------------------------------ 2. offset cursors *)
(* state (p, e): abstract position and excess of the reported position; [upd] = the family's rules *)
Definition ost := (nat * nat)%type.

Definition off_out (f : file) (s : ost) (o : op) (err : bool) : out :=
  if err then Err else match o with Tell => Pos (fst s + snd s) | _ => spec_out f (fst s) o end.

Fixpoint off_run (upd : file -> ost -> op -> ost * bool) (f : file) (s : ost) (ops : list op) : list out :=
  match ops with
  | [] => []
  | o :: r => let '(s', err) := upd f s o in off_out f s o err :: off_run upd f s' r
  end.

(* trr.pyx as found *)
Definition trr_upd (f : file) (s : ost) (o : op) : ost * bool :=
  let T := length f in let '(p, e) := s in
  match o with
  | Read n => if n <=? T - p then ((p + n, e), false) else ((T, e + 1), false)
  | ReadAll => if T - p =? 0 then ((T, e + 1), true) else ((T, e + 2), false)
  | Seek k => if T <=? k then (s, true) else ((k, 0), false)
  | SeekRel d => let t := (Z.of_nat (p + e) + d)%Z in
                 if (t <? 0)%Z || (Z.of_nat T <=? t)%Z then (s, true) else ((Z.to_nat t, 0), false)
  | Tell | Len => (s, false)
  end.

Lemma trr_step_char (f : file) p e o : p <= length f -> length f < trr_chunk ->
  let '(s', err) := trr_upd f (p, e) o in
  trr_cur_step f (p, p + e) o = ((fst s', fst s' + snd s'), off_out f (p, e) o err) /\ fst s' <= length f.
Proof.
  intros Hp HT. unfold trr_chunk in HT.
  destruct o as [n| |k|d| |]; cbn [trr_upd trr_cur_step off_out spec_out fst snd].
  - unfold trr_read. cbn [fst snd]. rewrite (Nat.min_l p) by lia.
    destruct (n <=? length f - p) eqn:E; cbn [fst snd].
    + apply Nat.leb_le in E. unfold off_out; cbn [spec_out fst snd]; split; [|lia]. f_equal. f_equal. lia.
    + apply Nat.leb_gt in E. unfold off_out; cbn [spec_out fst snd]; split; [|lia]. rewrite (firstn_all2 (skipn p f)) by (rewrite skipn_length; lia).
      f_equal. f_equal. lia.
  - cbn [trr_readall]. unfold trr_read at 1. cbn [fst snd]. rewrite (Nat.min_l p) by lia.
    unfold trr_chunk. replace (100 <=? length f - p) with false by (symmetry; apply Nat.leb_gt; lia).
    destruct (length f - p =? 0) eqn:E.
    + apply Nat.eqb_eq in E. assert (p = length f) by lia. subst p. rewrite skipn_all. cbn [fst snd].
      unfold off_out; cbn [spec_out fst snd]; split; [|lia]. f_equal. f_equal. lia.
    + apply Nat.eqb_neq in E. destruct (skipn p f) as [|x r] eqn:Es.
      * exfalso. assert (L : length (skipn p f) = 0) by now rewrite Es. rewrite skipn_length in L. lia.
      * cbn [trr_readall]. unfold trr_read. cbn [fst snd]. rewrite Nat.min_r by lia. rewrite Nat.sub_diag.
        change (100 <=? 0) with false. rewrite skipn_all. cbn [fst snd app]. unfold off_out; cbn [spec_out fst snd]; split; [|lia].
        f_equal; [f_equal; lia|now rewrite Es].
  - unfold seek_abs. replace (Z.of_nat k <? 0)%Z with false by (symmetry; apply Z.ltb_ge; lia). cbn [andb].
    destruct (length f <=? k) eqn:E.
    + replace (Z.of_nat (length f) <=? Z.of_nat k)%Z with true by (symmetry; apply Z.leb_le; apply Nat.leb_le in E; lia).
      cbn [fst snd]. unfold off_out; cbn [spec_out fst snd]; split; [reflexivity|lia].
    + apply Nat.leb_gt in E.
      replace (Z.of_nat (length f) <=? Z.of_nat k)%Z with false by (symmetry; apply Z.leb_gt; lia).
      rewrite Nat2Z.id. cbn [fst snd]. unfold off_out; cbn [spec_out fst snd]; split; [|lia]. f_equal. f_equal. lia.
  - unfold seek_abs. cbn [andb]. set (t := (Z.of_nat (p + e) + d)%Z).
    destruct (t <? 0)%Z eqn:E1; cbn [orb fst snd]; [unfold off_out; cbn [spec_out fst snd]; split; [reflexivity|lia]|].
    destruct (Z.of_nat (length f) <=? t)%Z eqn:E2; cbn [fst snd]; [unfold off_out; cbn [spec_out fst snd]; split; [reflexivity|lia]|].
    apply Z.ltb_ge in E1. apply Z.leb_gt in E2. unfold off_out; cbn [spec_out fst snd]; split; [|lia]. f_equal. f_equal. lia.
  - unfold off_out; cbn [spec_out fst snd]; split; [reflexivity|lia].
  - unfold off_out; cbn [spec_out fst snd]; split; [reflexivity|lia].
Qed.

Theorem trr_cur_characterised (f : file) : length f < trr_chunk -> forall ops p e, p <= length f ->
  run trr_cur_step f (p, p + e) ops = off_run trr_upd f (p, e) ops.
Proof.
  intros HT. induction ops as [|o r IH]; intros p e Hp; [reflexivity|].
  pose proof (trr_step_char f p e o Hp HT) as H. cbn [run off_run].
  destruct (trr_upd f (p, e) o) as [[p' e'] err]. cbn [fst snd] in H. destruct H as [H Hp'].
  rewrite H. f_equal. now apply IH.
Qed.

(* netcdf.py as found (before commit 06df8fa8) *)
Definition nc_upd (f : file) (s : ost) (o : op) : ost * bool :=
  let T := length f in let '(p, e) := s in
  let rep := p + e in
  let mk := fun r => (Nat.min r T, r - Nat.min r T) in
  match o with
  | Read n => if T <=? rep then (s, false) else (mk (rep + Nat.min n T), false)
  | ReadAll => if T <=? rep then (s, false) else (mk (rep + T), false)
  | Seek k => (mk k, false)
  | SeekRel d => (mk (Z.to_nat (Z.of_nat rep + d)), false)
  | Tell | Len => (s, false)
  end.

(* the reported position r determines the state: p = min r len, e = r - p *)
Lemma nc_step_char (f : file) r o :
  let p := Nat.min r (length f) in
  let '(s', err) := nc_upd f (p, r - p) o in
  nc_cur_step f (r, r) o = ((fst s' + snd s', fst s' + snd s'), off_out f (p, r - p) o err) /\
  fst s' = Nat.min (fst s' + snd s') (length f).
Proof.
  cbn zeta. set (p := Nat.min r (length f)). assert (Hr : p + (r - p) = r) by (unfold p; lia).
  destruct o as [n| |k|d| |]; cbn [nc_upd nc_cur_step off_out spec_out fst snd]; rewrite ?Hr.
  - destruct (length f <=? r) eqn:E; cbn [fst snd].
    + apply Nat.leb_le in E. rewrite Hr. unfold off_out; cbn [spec_out fst snd]; split; [|unfold p; lia].
      f_equal. f_equal. unfold p. rewrite Nat.min_r by lia. now rewrite skipn_all, firstn_nil.
    + apply Nat.leb_gt in E. assert (p = r) by (unfold p; lia). unfold off_out; cbn [spec_out fst snd]; split; [|lia].
      f_equal; [f_equal; lia|]. f_equal. rewrite H.
      destruct (Nat.le_gt_cases n (length f)) as [Hn|Hn]; [now rewrite Nat.min_l|].
      rewrite Nat.min_r by lia. rewrite !firstn_all2; try reflexivity; rewrite skipn_length; lia.
  - destruct (length f <=? r) eqn:E; cbn [fst snd].
    + apply Nat.leb_le in E. rewrite Hr. unfold off_out; cbn [spec_out fst snd]; split; [|unfold p; lia].
      f_equal. f_equal. unfold p. rewrite Nat.min_r by lia. now rewrite skipn_all.
    + apply Nat.leb_gt in E. assert (p = r) by (unfold p; lia). unfold off_out; cbn [spec_out fst snd]; split; [|lia].
      f_equal; [f_equal; lia|]. f_equal. rewrite H. apply firstn_all2. rewrite skipn_length. lia.
  - unfold seek_abs. replace (Z.of_nat k <? 0)%Z with false by (symmetry; apply Z.ltb_ge; lia). cbn [andb].
    rewrite Nat2Z.id. unfold off_out; cbn [spec_out fst snd]; split; [|lia]. f_equal. f_equal; lia.
  - unfold off_out; cbn [spec_out fst snd]; split; [|lia]. f_equal. f_equal; lia.
  - unfold off_out; cbn [spec_out fst snd]; split; [reflexivity|unfold p; lia].
  - unfold off_out; cbn [spec_out fst snd]; split; [reflexivity|unfold p; lia].
Qed.

Theorem nc_cur_characterised (f : file) : forall ops r,
  run nc_cur_step f (r, r) ops = off_run nc_upd f (Nat.min r (length f), r - Nat.min r (length f)) ops.
Proof.
  induction ops as [|o t IH]; intros r; [reflexivity|].
  pose proof (nc_step_char f r o) as H. cbn zeta in H. cbn [run off_run].
  destruct (nc_upd f (Nat.min r (length f), r - Nat.min r (length f)) o) as [[p' e'] err]. cbn [fst snd] in H.
  destruct H as [H Hp']. rewrite H. f_equal. rewrite IH. f_equal. f_equal; lia.
Qed.

(* what the characterisations say about frames: whenever no error is raised, a read returns exactly what the
   abstract cursor returns at the abstract position (the defect is confined to tell / relative seeks) *)
Lemma off_out_read f s n : off_out f s (Read n) false = spec_out f (fst s) (Read n).
Proof. reflexivity. Qed.
Lemma off_out_readall f s : off_out f s ReadAll false = spec_out f (fst s) ReadAll.
Proof. reflexivity. Qed.

(* ------------------------------------------------------------------ 3. the contract does not depend on what a frame is *)
Definition map_out (g : frame -> frame) (x : out) : out :=
  match x with Frames l => Frames (map g l) | y => y end.

Theorem spec_run_natural (g : frame -> frame) (f : file) : forall ops p,
  spec_run (map g f) p ops = map (map_out g) (spec_run f p ops).
Proof.
  induction ops as [|o r IH]; intros p; [reflexivity|].
  cbn [spec_run map]. rewrite map_length. rewrite IH. f_equal.
  destruct o; cbn [spec_out map_out]; rewrite ?map_length, ?skipn_map, ?firstn_map; reflexivity.
Qed.

(* executable check used by the correspondence: both handles of a generated history stay in the extended range *)
Definition case_ext_range (c : nat * nat * list (bool * op)) : bool :=
  let '(_, T, ops) := c in all_ext_range T 0 (proj false ops) && all_ext_range T 0 (proj true ops).
