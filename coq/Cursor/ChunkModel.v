(* C18: the read-ahead loops of the XDR readers made explicit.
   xtc.pyx / trr.pyx read() (no n_frames) loop over _read(chunk) with
       chunk = max(abs(int((approx_n_frames - frame_counter) * chunk_size_multiplier)), min_chunk_size)
   i.e. a function of the REPORTED frame counter that is at least min_chunk_size >= 1 (both are keyword arguments of the
   file objects, so small chunks can be exercised on small files).  Model.v has the loop only for trr and only with the
   constant chunk 100 (the default min_chunk_size, larger than every file of the runs); xdr_step (xtc) has no loop at all.
   Here the chunk is an arbitrary function [ch] of the reported counter.  Definitions only; theorems in ChunkProofs.v. *)
From Coq Require Import List Arith ZArith Bool.
Import ListNotations.
Require Import MD.Lib.Strided MD.Cursor.Model MD.Cursor.Proofs MD.Cursor.Extended.

Definition chunk_fn := nat -> nat.
Definition const_chunk (c : nat) : chunk_fn := fun _ => Nat.max c 1.
Definition chunk_ok (ch : chunk_fn) : Prop := forall r, 1 <= ch r.

(* xtc.pyx: `while status == _EXDROK`: _read(chunk) leaves status OK exactly when the chunk was filled;
   frame_counter += len(xyz) inside every _read.  None = the loop did not end within the fuel (never: ChunkProofs) *)
Fixpoint xtc_readall_ch (fuel : nat) (ch : chunk_fn) (f : file) (i : nat) (acc : list frame) : option (nat * list frame) :=
  match fuel with
  | 0 => None
  | S k => let c := ch i in
           let l := firstn c (skipn i f) in
           if c <=? length f - i then xtc_readall_ch k ch f (i + length l) (acc ++ l)
           else Some (i + length l, acc ++ l)
  end.

Definition xtc_ch_step (ch : chunk_fn) (f : file) (s : cst) (o : op) : cst * out :=
  match o with
  | ReadAll => match xtc_readall_ch (S (length f)) ch f (snd s) [] with
               | Some (i', l) => ((i', i'), Frames l)
               | None => (s, Err)
               end
  | _ => xdr_step f s o
  end.

(* trr.pyx: `while True`: _read(chunk); an empty chunk ends the loop; np.concatenate of no chunk at all raises *)
Fixpoint trr_readall_ch (fuel : nat) (ch : chunk_fn) (f : file) (s : cst) (acc : list frame) (first : bool) : cst * out :=
  match fuel with
  | 0 => (s, Err)
  | S k => let '(s', l) := trr_read f s (ch (snd s)) in
           match l with
           | [] => if first then (s', Err) else (s', Frames acc)
           | _ => trr_readall_ch k ch f s' (acc ++ l) false
           end
  end.

Definition trr_ch_step (ch : chunk_fn) (f : file) (s : cst) (o : op) : cst * out :=
  match o with
  | ReadAll => trr_readall_ch (S (S (length f))) ch f s [] true
  | _ => trr_cur_step f s o
  end.

(* how many failed reads read() counts, from [rem] remaining frames with reported counter [r]:
   1 when the chunks tile the remainder exactly (only the final empty chunk fails), 2 otherwise (the short chunk
   and the final empty one) *)
Fixpoint trr_tail_aux (fuel : nat) (ch : chunk_fn) (rem r : nat) : nat :=
  match fuel with
  | 0 => 0
  | S k => if rem =? 0 then 1
           else if ch r <=? rem then trr_tail_aux k ch (rem - ch r) (r + ch r)
           else 2
  end.
Definition trr_tail (ch : chunk_fn) (rem r : nat) : nat := trr_tail_aux (S rem) ch rem r.

(* the offset cursor of Extended.v with the read-ahead made explicit *)
Definition trr_upd_ch (ch : chunk_fn) (f : file) (s : ost) (o : op) : ost * bool :=
  let T := length f in let '(p, e) := s in
  match o with
  | ReadAll => if T - p =? 0 then ((T, e + 1), true) else ((T, e + trr_tail ch (T - p) (p + e)), false)
  | _ => trr_upd f s o
  end.

(* the runs: (variant, min_chunk_size, T, ops) with variant 2 = xtc, 5 = trr as found, anything else = abstract cursor *)
Definition variant_ch (v c : nat) : stepper :=
  match v with
  | 2 => xtc_ch_step (const_chunk c)
  | 5 => trr_ch_step (const_chunk c)
  | _ => spec_stepper
  end.
Definition run_case_ch (c : nat * nat * nat * list (bool * op)) : list out :=
  let '(v, k, T, ops) := c in run2 (variant_ch v k) (seq 0 T) (0, 0) (0, 0) ops.
