(* C18: theorems about the read-ahead loops (Cursor/ChunkModel.v).
   1. xtc: for EVERY chunk function (>= 1 everywhere) the loop returns all remaining frames and leaves the counter at the
      end: xtc_ch_step = xdr_step, so every cursor theorem about xdr_step holds for the loop code, whatever
      min_chunk_size / chunk_size_multiplier / file size.
   2. trr as found: the loop with the constant chunk 100 is Model.trr_cur_step; for every chunk function and EVERY file
      (no bound on its length) the reader is the offset cursor trr_upd_ch: read() adds 1 to the reported position when the
      chunks tile the remainder exactly and 2 otherwise. *)
From Coq Require Import List Arith ZArith Bool Lia ZifyBool.
Import ListNotations.
Require Import MD.Lib.Strided MD.Cursor.Model MD.Cursor.Proofs MD.Cursor.Extended MD.Cursor.ChunkModel.

Lemma const_chunk_ok c : chunk_ok (const_chunk c).
Proof. intros r. unfold const_chunk. lia. Qed.

Lemma skipn_plus {A} i c : forall (f : list A), skipn (i + c) f = skipn c (skipn i f).
Proof.
  induction i as [|i IH]; intros f; [reflexivity|]. destruct f as [|x f]; [now rewrite !skipn_nil|].
  cbn [Nat.add skipn]. apply IH.
Qed.

Lemma firstn_skipn_join (f : file) i c : firstn c (skipn i f) ++ skipn (i + c) f = skipn i f.
Proof. rewrite skipn_plus. apply firstn_skipn. Qed.

(* ---- 1. xtc *)
Lemma xtc_loop ch (f : file) : chunk_ok ch -> forall fuel i acc, length f - i < fuel ->
  xtc_readall_ch fuel ch f i acc = Some (i + length (skipn i f), acc ++ skipn i f).
Proof.
  intros Hc. induction fuel as [|k IH]; intros i acc Hf; [lia|].
  cbn [xtc_readall_ch]. pose proof (Hc i) as H1.
  destruct (ch i <=? length f - i) eqn:E.
  - apply Nat.leb_le in E.
    assert (L : length (firstn (ch i) (skipn i f)) = ch i) by (rewrite firstn_length, skipn_length; lia).
    rewrite L. rewrite IH by lia. f_equal. f_equal.
    + rewrite !skipn_length. lia.
    + rewrite <- app_assoc. f_equal. apply firstn_skipn_join.
  - apply Nat.leb_gt in E. rewrite firstn_all2 by (rewrite skipn_length; lia). reflexivity.
Qed.

Theorem xtc_ch_step_is_xdr_step ch : chunk_ok ch -> forall f s o, xtc_ch_step ch f s o = xdr_step f s o.
Proof.
  intros Hc f s o. destruct o; try reflexivity. cbn [xtc_ch_step xdr_step].
  rewrite (xtc_loop ch f Hc) by lia. reflexivity.
Qed.

Lemma run_ext_eq (st st' : stepper) : (forall f s o, st f s o = st' f s o) -> forall f ops s, run st f s ops = run st' f s ops.
Proof. intros E f ops. induction ops as [|o r IH]; intros s; [reflexivity|]. cbn [run]. rewrite E. destruct (st' f s o). now rewrite IH. Qed.

Theorem xtc_chunked_refines_cursor ch : chunk_ok ch -> forall f ops,
  all_ext_range (length f) 0 ops = true -> run (xtc_ch_step ch) f (0, 0) ops = spec_run f 0 ops.
Proof.
  intros Hc f ops Hr. rewrite (run_ext_eq _ _ (xtc_ch_step_is_xdr_step ch Hc)).
  apply (run_refines_ext xdr_step xdr_ok_ext); [lia|exact Hr].
Qed.

(* ---- 2. trr *)
Lemma trr_readall_const f : forall fuel s acc first,
  trr_readall_ch fuel (fun _ => trr_chunk) f s acc first = trr_readall fuel f s acc first.
Proof.
  induction fuel as [|k IH]; intros s acc first; [reflexivity|]. cbn [trr_readall_ch trr_readall].
  destruct (trr_read f s trr_chunk) as [s' l]. destruct l; [reflexivity|apply IH].
Qed.

Theorem trr_default_chunk_is_model f s o : trr_ch_step (fun _ => trr_chunk) f s o = trr_cur_step f s o.
Proof. destruct o; try reflexivity. cbn [trr_ch_step trr_cur_step]. apply trr_readall_const. Qed.

Lemma trr_loop ch (f : file) : chunk_ok ch -> forall fuel fuel2 p e acc first,
  p <= length f -> length f - p + 1 < fuel -> length f - p < fuel2 ->
  trr_readall_ch fuel ch f (p, p + e) acc first =
  ((length f, p + e + (length f - p) + trr_tail_aux fuel2 ch (length f - p) (p + e)),
   if first && (length f - p =? 0) then Err else Frames (acc ++ skipn p f)).
Proof.
  intros Hc. induction fuel as [|k IH]; intros fuel2 p e acc first Hp Hf Hf2; [lia|].
  destruct fuel2 as [|k2]; [lia|].
  cbn [trr_readall_ch trr_tail_aux]. unfold trr_read. cbn [fst snd]. rewrite (Nat.min_l p) by lia.
  pose proof (Hc (p + e)) as H1.
  destruct (length f - p =? 0) eqn:E0.
  - apply Nat.eqb_eq in E0. assert (p = length f) by lia. subst p.
    replace (ch (length f + e) <=? length f - length f) with false by (symmetry; apply Nat.leb_gt; lia).
    rewrite skipn_all. cbn [fst snd]. rewrite andb_true_r, app_nil_r.
    destruct first; (f_equal; f_equal; lia).
  - apply Nat.eqb_neq in E0. rewrite andb_false_r.
    destruct (ch (p + e) <=? length f - p) eqn:E.
    + apply Nat.leb_le in E.
      destruct (firstn (ch (p + e)) (skipn p f)) as [|x r] eqn:El.
      * exfalso. assert (L : length (firstn (ch (p + e)) (skipn p f)) = 0) by now rewrite El.
        rewrite firstn_length, skipn_length in L. lia.
      * rewrite <- El.
        replace (p + e + ch (p + e)) with ((p + ch (p + e)) + e) by lia.
        rewrite (IH k2 (p + ch (p + e)) e) by lia. cbn [andb].
        replace (length f - (p + ch (p + e))) with (length f - p - ch (p + e)) by lia.
        replace (p + ch (p + e) + e) with (p + e + ch (p + e)) by lia.
        f_equal; [f_equal; lia|]. f_equal. rewrite <- app_assoc. f_equal. apply firstn_skipn_join.
    + apply Nat.leb_gt in E.
      destruct (skipn p f) as [|x r] eqn:Es.
      * exfalso. assert (L : length (skipn p f) = 0) by now rewrite Es. rewrite skipn_length in L. lia.
      * rewrite <- Es. cbn [fst snd].
        (* the state is now (T, reported); one more (empty) chunk ends the loop *)
        destruct k as [|k']; [lia|]. cbn [trr_readall_ch]. unfold trr_read. cbn [fst snd].
        rewrite Nat.min_id, Nat.sub_diag.
        pose proof (Hc (p + e + (length f - p) + 1)) as H2.
        replace (ch (p + e + (length f - p) + 1) <=? 0) with false by (symmetry; apply Nat.leb_gt; lia).
        rewrite skipn_all. cbn [fst snd]. rewrite Es at 1. cbn [app].
        rewrite <- Es. f_equal. f_equal. lia.
Qed.

Lemma trr_ch_step_char ch (f : file) p e o : chunk_ok ch -> p <= length f ->
  let '(s', err) := trr_upd_ch ch f (p, e) o in
  trr_ch_step ch f (p, p + e) o = ((fst s', fst s' + snd s'), off_out f (p, e) o err) /\ fst s' <= length f.
Proof.
  intros Hc Hp.
  destruct o as [n| |k|d| |]; cbn [trr_upd_ch trr_upd trr_ch_step trr_cur_step off_out spec_out fst snd].
  - unfold trr_read. cbn [fst snd]. rewrite (Nat.min_l p) by lia.
    destruct (n <=? length f - p) eqn:E; cbn [fst snd].
    + apply Nat.leb_le in E. unfold off_out; cbn [spec_out fst snd]; split; [|lia]. f_equal. f_equal. lia.
    + apply Nat.leb_gt in E. unfold off_out; cbn [spec_out fst snd]; split; [|lia]. rewrite (firstn_all2 (skipn p f)) by (rewrite skipn_length; lia).
      f_equal. f_equal. lia.
  - rewrite (trr_loop ch f Hc (S (S (length f))) (S (length f - p)) p e [] true Hp) by lia.
    fold (trr_tail ch (length f - p) (p + e)). cbn [andb app].
    destruct (length f - p =? 0) eqn:E; cbn [fst snd].
    + apply Nat.eqb_eq in E. unfold off_out. split; [|lia]. f_equal. f_equal.
      unfold trr_tail. cbn [trr_tail_aux]. rewrite E. cbn. lia.
    + unfold off_out; cbn [spec_out fst snd]. split; [|lia]. f_equal. f_equal. lia.
  - unfold seek_abs. replace (Z.of_nat k <? 0)%Z with false by (symmetry; apply Z.ltb_ge; lia). cbn [andb].
    destruct (length f <=? k) eqn:E.
    + replace (Z.of_nat (length f) <=? Z.of_nat k)%Z with true by (symmetry; apply Z.leb_le; apply Nat.leb_le in E; lia).
      cbn [fst snd]. unfold off_out; cbn [spec_out fst snd]; split; [reflexivity|lia].
    + apply Nat.leb_gt in E.
      replace (Z.of_nat (length f) <=? Z.of_nat k)%Z with false by (symmetry; apply Z.leb_gt; lia).
      rewrite Nat2Z.id. cbn [fst snd]. unfold off_out; cbn [spec_out fst snd]; split; [|lia]. f_equal. f_equal. lia.
  - unfold seek_abs. cbn [andb]. set (t := (Z.of_nat (p + e) + d)%Z).
    destruct (t <? 0)%Z eqn:E1; cbn [orb fst snd]; [unfold off_out; cbn [spec_out fst snd]; split; [reflexivity|lia]|].
    destruct (Z.of_nat (length f) <=? t)%Z eqn:E2; cbn [fst snd]; [unfold off_out; cbn [spec_out fst snd]; split; [reflexivity|lia]|].
    apply Z.ltb_ge in E1. apply Z.leb_gt in E2. unfold off_out; cbn [spec_out fst snd]; split; [|lia]. f_equal. f_equal. lia.
  - unfold off_out; cbn [spec_out fst snd]; split; [reflexivity|lia].
  - unfold off_out; cbn [spec_out fst snd]; split; [reflexivity|lia].
Qed.

Theorem trr_chunked_characterised ch (f : file) : chunk_ok ch -> forall ops p e, p <= length f ->
  run (trr_ch_step ch) f (p, p + e) ops = off_run (trr_upd_ch ch) f (p, e) ops.
Proof.
  intros Hc. induction ops as [|o r IH]; intros p e Hp; [reflexivity|].
  pose proof (trr_ch_step_char ch f p e o Hc Hp) as H. cbn [run off_run].
  destruct (trr_upd_ch ch f (p, e) o) as [[p' e'] err]. cbn [fst snd] in H. destruct H as [H Hp'].
  rewrite H. f_equal. now apply IH.
Qed.

(* what read() adds to the reported position of a TRR handle, constant chunk c >= 1: 1 if c divides the remainder, else 2 *)
Lemma trr_tail_const_aux c : 1 <= c -> forall fuel rem r, rem < fuel ->
  trr_tail_aux fuel (fun _ => c) rem r = if rem mod c =? 0 then 1 else 2.
Proof.
  intros Hc. induction fuel as [|k IH]; intros rem r Hf; [lia|]. cbn [trr_tail_aux].
  destruct (rem =? 0) eqn:E0.
  - apply Nat.eqb_eq in E0. subst. rewrite Nat.mod_0_l by lia. reflexivity.
  - apply Nat.eqb_neq in E0. destruct (c <=? rem) eqn:E.
    + apply Nat.leb_le in E. rewrite IH by lia.
      replace rem with ((rem - c) + 1 * c) at 2 by lia. rewrite Nat.mod_add by lia. reflexivity.
    + apply Nat.leb_gt in E. rewrite Nat.mod_small by lia. replace (rem =? 0) with false by (symmetry; apply Nat.eqb_neq; lia).
      reflexivity.
Qed.

Theorem trr_tail_constant_chunk c rem r : 1 <= c -> trr_tail (fun _ => c) rem r = if rem mod c =? 0 then 1 else 2.
Proof. intros Hc. apply trr_tail_const_aux; [exact Hc|lia]. Qed.

(* witnesses on a 6-frame file: read(); tell() is 7 with chunk 3 (3 divides 6) and 8 with chunk 4 *)
Lemma trr_chunk_witnesses :
  run (trr_ch_step (const_chunk 3)) (seq 0 6) (0, 0) [ReadAll; Tell] = [Frames (seq 0 6); Pos 7] /\
  run (trr_ch_step (const_chunk 4)) (seq 0 6) (0, 0) [ReadAll; Tell] = [Frames (seq 0 6); Pos 8] /\
  run (xtc_ch_step (const_chunk 4)) (seq 0 6) (0, 0) [ReadAll; Tell] = [Frames (seq 0 6); Pos 6].
Proof. vm_compute. repeat split. Qed.
