(* A disciplined, cursor-free frame-loop body run as a PARALLEL loop (omp for, cython prange) is schedule-free (C08):
   bridge between MD.Sched.FrameLoop (terms regenerated from the sources) and MD.Sched.ParFor (schedules). *)
From Coq Require Import List Arith ZArith Bool Lia.
Import ListNotations.
Require Import MD.Sched.ParFor MD.Sched.Proofs MD.Sched.Scratch MD.Sched.ScratchProofs MD.Sched.FrameLoop MD.Sched.FrameLoopProofs.
Open Scope Z_scope.

Lemma par_ok_parts : forall p, par_ok p = true -> fdisc p = true /\ used_cursors p = [] /\ no_adv p = true.
Proof.
  intros p H. unfold par_ok in H. apply andb_prop in H. destruct H as [H H3]. apply andb_prop in H. destruct H as [H1 H2].
  repeat split; auto. unfold cursor_free in H2. destruct (used_cursors p); [reflexivity|discriminate].
Qed.

Section Par.
  Variable G : nat -> Z.
  Variable A : nat -> nat -> Z.

  (* what iteration i writes, from ANY incoming private state, is what the body writes on frame i alone from the empty state *)
  Lemma par_iteration_alone : forall p, par_ok p = true -> forall i st,
    snd (frun G A p i st) = map (lift i) (snd (frun G (shift A i) p 0 ([], []))).
  Proof.
    intros p H i st. destruct (par_ok_parts p H) as [Hd [Hu _]].
    unfold fdisc in Hd. rewrite Hu in Hd.
    destruct (frun_alone G A i [] p [] [] st ([], [])) as [E _]; auto.
    - rewrite Hu. apply incl_refl.
    - intros c [].
    - intros cur [].
    - intros cur [].
  Qed.

  Theorem par_ok_ignores_scratch : forall p, par_ok p = true -> body_ignores_scratch (fbody G A p).
  Proof.
    intros p H st st' i. unfold fbody. rewrite (par_iteration_alone p H i st), (par_iteration_alone p H i st'). reflexivity.
  Qed.

  (* every write of iteration i lands at position i: no two iterations write the same output slot *)
  Theorem par_ok_writes_own_slot : forall p, par_ok p = true -> forall i st,
    Forall (fun w => fst w = i) (snd (frun G A p i st)).
  Proof.
    intros p H i st. destruct (par_ok_parts p H) as [Hd [Hu _]].
    unfold fdisc in Hd. rewrite Hu in Hd.
    destruct (frun_alone G A i [] p [] [] st ([], [])) as [E [Z0 _]]; auto.
    - rewrite Hu. apply incl_refl.
    - intros c [].
    - intros cur [].
    - intros cur [].
    - rewrite E. apply Forall_forall. intros x Hx. apply in_map_iff in Hx. destruct Hx as [y [<- Hy]].
      rewrite Forall_forall in Z0. unfold lift. cbn. rewrite (Z0 y Hy). reflexivity.
  Qed.

  (* every schedule that runs each iteration leaves, in slot i, the writes of the body run on frame i alone *)
  Theorem par_loop_schedule_free : forall p, par_ok p = true -> forall n s0 sched, covers n sched ->
    parfor (fbody G A p) s0 0%nat (seq 0 n) sched =
    map (fun i => Some (map (lift i) (snd (frun G (shift A i) p 0 ([], []))))) (seq 0 n).
  Proof.
    intros p H n s0 sched Hc.
    rewrite (parfor_schedule_free nat fstate (list (nat * Z)) (fbody G A p) s0 0%nat (par_ok_ignores_scratch p H) (seq 0 n) sched)
      by (rewrite seq_length; exact Hc).
    unfold reference. apply map_ext. intros i. unfold fbody. now rewrite (par_iteration_alone p H i s0).
  Qed.

  Corollary par_loop_any_two_schedules : forall p, par_ok p = true -> forall n s0 s0' sc1 sc2, covers n sc1 -> covers n sc2 ->
    parfor (fbody G A p) s0 0%nat (seq 0 n) sc1 = parfor (fbody G A p) s0' 0%nat (seq 0 n) sc2.
  Proof. intros. rewrite !par_loop_schedule_free; auto. Qed.

  (* parallel = serial: the omp/prange loop leaves what the plain serial loop leaves *)
  Corollary par_loop_eq_serial : forall p, par_ok p = true -> forall n s0 sched j, covers n sched -> (j < n)%nat ->
    nth j (parfor (fbody G A p) s0 0%nat (seq 0 n) sched) None =
    Some (map (fun v => (j, v)) (writes_at j (floop G A p n 0 (fst s0, [])))).
  Proof.
    intros p H n s0 sched j Hc Hj. rewrite (par_loop_schedule_free p H n s0 sched Hc).
    destruct (par_ok_parts p H) as [Hd _].
    rewrite (frame_loop_local G A p Hd n (fst s0) [] j Hj).
    set (f := fun i : nat => Some (map (lift i) (snd (frun G (shift A i) p 0 ([], []))))).
    rewrite (nth_indep (map f (seq 0 n)) None (f 0%nat)) by (rewrite map_length, seq_length; exact Hj).
    rewrite (map_nth f (seq 0 n) 0%nat j). unfold f.
    rewrite seq_nth by exact Hj. cbn [plus]. f_equal. rewrite map_map.
    assert (Z0 : Forall (fun x => fst x = 0%nat) (snd (frun G (shift A j) p 0 ([], [])))).
    { destruct (par_ok_parts p H) as [Hd' [Hu _]]. unfold fdisc in Hd'. rewrite Hu in Hd'.
      destruct (frun_alone G A j [] p [] [] ([], []) ([], [])) as [_ [Z0 _]]; auto.
      - rewrite Hu. apply incl_refl.
      - intros c [].
      - intros cur [].
      - intros cur []. }
    apply map_ext_in. intros x Hx. rewrite Forall_forall in Z0. unfold lift. rewrite (Z0 x Hx). reflexivity.
  Qed.
End Par.
