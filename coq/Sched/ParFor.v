(* A parallel-for over iterations 0..n-1 as OpenMP runs it (C08, used by C13).

   schedule     = one list of iteration indices per thread, in the order that thread runs them
   scratch      = a per-thread private state (work buffers); every thread starts from [s0]
                  (the malloc/calloc before "#pragma omp for") and threads it through its iterations
   body s x     = one iteration: consumes the incoming scratch and the iteration's input,
                  returns the outgoing scratch and the output written at the iteration's index

   Definitions only; the lemmas are in MD.Sched.Proofs.  The OpenMP runtime itself (which schedule is
   chosen, memory model) is not modelled: the theorems quantify over every schedule that covers
   each iteration. *)
From Coq Require Import List Arith Bool.
Import ListNotations.

Section ParFor.
  Variables (I S O : Type).
  Variable body : S -> I -> S * O.
  Variable s0 : S.
  Variable dflt : I.

  (* one thread: run its iterations in order, carrying the scratch *)
  Fixpoint run_thread (inputs : list I) (s : S) (its : list nat) : list (nat * O) :=
    match its with
    | [] => []
    | i :: r => let '(s', o) := body s (nth i inputs dflt) in (i, o) :: run_thread inputs s' r
    end.

  Definition schedule := list (list nat).

  Definition writes (inputs : list I) (sched : schedule) : list (nat * O) :=
    concat (map (run_thread inputs s0) sched).

  Fixpoint lookup (i : nat) (w : list (nat * O)) : option O :=
    match w with
    | [] => None
    | (j, o) :: r => if Nat.eqb i j then Some o else lookup i r
    end.

  (* the output array: slot i holds what the thread that ran iteration i wrote there *)
  Definition parfor (inputs : list I) (sched : schedule) : list (option O) :=
    map (fun i => lookup i (writes inputs sched)) (seq 0 (length inputs)).

  (* a schedule is admissible when it runs every iteration and only iterations in range *)
  Definition covers (n : nat) (sched : schedule) : Prop :=
    (forall i, i < n -> In i (concat sched)) /\ (forall i, In i (concat sched) -> i < n).

  (* the discipline: what an iteration writes does not depend on the scratch it receives *)
  Definition body_ignores_scratch : Prop := forall s s' x, snd (body s x) = snd (body s' x).

  (* the sequential reference: each iteration alone, from a fresh scratch *)
  Definition reference (inputs : list I) : list (option O) :=
    map (fun x => Some (snd (body s0 x))) inputs.
End ParFor.

Arguments run_thread {I S O}.
Arguments writes {I S O}.
Arguments lookup {O}.
Arguments parfor {I S O}.
Arguments covers n sched : clear implicits.
Arguments body_ignores_scratch {I S O}.
Arguments reference {I S O}.

(* standard schedules, for examples and for the correspondence *)
Definition sched_serial (n : nat) : list (list nat) := [seq 0 n].
Definition sched_one_each (n : nat) : list (list nat) := map (fun i => [i]) (seq 0 n).
(* OpenMP schedule(static) without chunk: contiguous blocks, the first n mod t threads get one more *)
Fixpoint static_blocks (start n t : nat) {struct t} : list (list nat) :=
  match t with
  | 0 => []
  | S t' => let q := n / t + (if n mod t =? 0 then 0 else 1) in
            seq start q :: static_blocks (start + q) (n - q) t'
  end.
Definition sched_static (n t : nat) : list (list nat) := static_blocks 0 n t.

(* the iterations that start from the fresh scratch: the first one of every thread *)
Definition first_of_thread (sched : list (list nat)) : list nat :=
  flat_map (fun l => match l with [] => [] | x :: _ => [x] end) sched.
Definition nat_list_eqb (a b : list nat) : bool :=
  Nat.eqb (length a) (length b) && forallb (fun p => Nat.eqb (fst p) (snd p)) (combine a b).
(* observed set of "fresh" iterations is what a static schedule with some thread count 1..tmax predicts *)
Definition static_fresh_matches (n tmax : nat) (obs : list nat) : bool :=
  existsb (fun t => nat_list_eqb obs (first_of_thread (sched_static n t))) (seq 1 tmax).
Definition static_fresh_exact (n t : nat) (obs : list nat) : bool :=
  nat_list_eqb obs (first_of_thread (sched_static n t)).
