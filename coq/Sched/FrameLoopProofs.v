(* A disciplined serial frame loop is frame-local (C08). *)
From Coq Require Import List Arith ZArith Bool Lia.
Import ListNotations.
Require Import MD.Sched.Scratch MD.Sched.ScratchProofs MD.Sched.FrameLoop.
Open Scope Z_scope.

Lemma memn_In : forall c l, memn c l = true <-> In c l.
Proof.
  intros c l. unfold memn. rewrite existsb_exists. split.
  - intros [x [Hx He]]. apply Nat.eqb_eq in He. now subst.
  - intros H. exists c. split; [assumption|apply Nat.eqb_refl].
Qed.

Lemma memn_false : forall c l, negb (memn c l) = true -> ~ In c l.
Proof. intros c l H Hin. apply memn_In in Hin. rewrite Hin in H. discriminate. Qed.

Lemma set_cur_same : forall c v s, nth c (set_cur c v s) 0%nat = v.
Proof. induction c as [|c IH]; intros v [|x r]; cbn; auto. Qed.

Lemma set_cur_other : forall c d v s, c <> d -> nth d (set_cur c v s) 0%nat = nth d s 0%nat.
Proof.
  induction c as [|c IH]; intros [|d] v [|x r] H; cbn; try congruence; auto.
  - now destruct d.
  - rewrite IH by congruence. now destruct d.
Qed.

Lemma nth_nil_nat : forall c, nth c (@nil nat) 0%nat = 0%nat.
Proof. now destruct c. Qed.

Section Local.
  Variable G : nat -> Z.
  Variable A : nat -> nat -> Z.

  Lemma feval_alone : forall i used w adv e st st',
    incl (fe_cursors e) used ->
    agree w (fst st) (fst st') ->
    (forall cur, In cur used -> ~ In cur adv -> nth cur (snd st) 0%nat = i /\ nth cur (snd st') 0%nat = 0%nat) ->
    fe_ok w adv e = true ->
    feval G A i st e = feval G (shift A i) 0 st' e.
  Proof.
    intros i used w adv e. induction e as [k|cur arr|arr|c|z|a IHa b IHb|a IHa b IHb];
      intros st st' Hin Hag Hc Hok; cbn in *; try reflexivity.
    - assert (Hu : In cur used) by (apply Hin; now left).
      destruct (Hc cur Hu (memn_false _ _ Hok)) as [H1 H2]. rewrite H1, H2. unfold shift. now rewrite Nat.add_0_r.
    - unfold shift. now rewrite Nat.add_0_r.
    - apply Hag. now apply memn_In.
    - apply andb_prop in Hok. destruct Hok.
      rewrite (IHa st st'), (IHb st st'); auto; intros x Hx; apply Hin, in_or_app; auto.
    - apply andb_prop in Hok. destruct Hok.
      rewrite (IHa st st'), (IHb st st'); auto; intros x Hx; apply Hin, in_or_app; auto.
  Qed.

  Definition lift (i : nat) (w : nat * Z) : nat * Z := ((fst w + i)%nat, snd w).

  Lemma frun_alone : forall i used p w adv st st',
    incl (used_cursors p) used ->
    agree w (fst st) (fst st') ->
    (forall cur, In cur used -> ~ In cur adv -> nth cur (snd st) 0%nat = i /\ nth cur (snd st') 0%nat = 0%nat) ->
    (forall cur, In cur used -> In cur adv -> nth cur (snd st) 0%nat = S i) ->
    fdisc_from used w adv p = true ->
    snd (frun G A p i st) = map (lift i) (snd (frun G (shift A i) p 0 st')) /\
    Forall (fun x => fst x = 0%nat) (snd (frun G (shift A i) p 0 st')) /\
    (forall cur, In cur used -> nth cur (snd (fst (frun G A p i st))) 0%nat = S i).
  Proof.
    intros i used p. induction p as [|[c e|e|cur e|cur] r IH]; intros w adv st st' Hin Hag H2 H3 Hd; cbn in Hd.
    - cbn. repeat split; [constructor|]. intros cur Hc. apply H3; [assumption|].
      rewrite forallb_forall in Hd. apply memn_In. now apply Hd.
    - apply andb_prop in Hd. destruct Hd as [He Hr]. cbn [frun].
      assert (Hi : incl (fe_cursors e) used) by (intros x Hx; apply Hin; cbn; apply in_or_app; auto).
      rewrite (feval_alone i used w adv e st st' Hi Hag H2 He).
      apply (IH (c :: w) adv); cbn [fst snd]; auto.
      + intros x Hx. apply Hin. cbn. apply in_or_app. auto.
      + now apply agree_set.
    - apply andb_prop in Hd. destruct Hd as [He Hr]. cbn [frun].
      assert (Hi : incl (fe_cursors e) used) by (intros x Hx; apply Hin; cbn; apply in_or_app; auto).
      assert (Hi' : incl (used_cursors r) used) by (intros x Hx; apply Hin; cbn; apply in_or_app; auto).
      destruct (IH w adv st st' Hi' Hag H2 H3 Hr) as [E1 [E2 E3]].
      destruct (frun G A r i st) as [s1 o1]. destruct (frun G (shift A i) r 0 st') as [s1' o1']. cbn [fst snd] in *.
      rewrite (feval_alone i used w adv e st st' Hi Hag H2 He). repeat split.
      + rewrite E1. reflexivity.
      + constructor; [reflexivity|assumption].
      + assumption.
    - apply andb_prop in Hd. destruct Hd as [Hd Hr]. apply andb_prop in Hd. destruct Hd as [Hc He]. cbn [frun].
      assert (Hu : In cur used) by (apply Hin; cbn; now left).
      assert (Hi : incl (fe_cursors e) used) by (intros x Hx; apply Hin; cbn; right; apply in_or_app; auto).
      assert (Hi' : incl (used_cursors r) used) by (intros x Hx; apply Hin; cbn; right; apply in_or_app; auto).
      destruct (H2 cur Hu (memn_false _ _ Hc)) as [P1 P2].
      destruct (IH w adv st st' Hi' Hag H2 H3 Hr) as [E1 [E2 E3]].
      destruct (frun G A r i st) as [s1 o1]. destruct (frun G (shift A i) r 0 st') as [s1' o1']. cbn [fst snd] in *.
      rewrite (feval_alone i used w adv e st st' Hi Hag H2 He). rewrite P1, P2. repeat split.
      + rewrite E1. reflexivity.
      + constructor; [reflexivity|assumption].
      + assumption.
    - apply andb_prop in Hd. destruct Hd as [Hc Hr]. cbn [frun].
      apply (IH w (cur :: adv)); cbn [fst snd]; auto.
      + intros x Hx Hn. assert (x <> cur) by (intros ->; apply Hn; now left).
        rewrite !set_cur_other by congruence. apply H2; [assumption|]. intros Ha. apply Hn. now right.
      + intros x Hx [->|Ha].
        * rewrite set_cur_same. f_equal. apply H2; [assumption|]. now apply memn_false.
        * destruct (Nat.eq_dec cur x) as [->|Hne].
          -- rewrite set_cur_same. f_equal. apply H2; [assumption|]. now apply memn_false.
          -- rewrite set_cur_other by assumption. now apply H3.
  Qed.

  Lemma writes_at_app : forall j a b, writes_at j (a ++ b) = writes_at j a ++ writes_at j b.
  Proof. intros. unfold writes_at. now rewrite filter_app, map_app. Qed.

  Lemma writes_at_all : forall j l, Forall (fun x => fst x = j) l -> writes_at j l = map snd l.
  Proof.
    intros j l H. unfold writes_at. induction H as [|x l Hx Hl IH]; [reflexivity|].
    cbn. rewrite Hx, Nat.eqb_refl. cbn. now rewrite IH.
  Qed.

  Lemma writes_at_none : forall j l, Forall (fun x => fst x <> j) l -> writes_at j l = [].
  Proof.
    intros j l H. unfold writes_at. induction H as [|x l Hx Hl IH]; [reflexivity|].
    cbn. destruct (Nat.eqb_spec (fst x) j); [contradiction|exact IH].
  Qed.

  Theorem floop_spec : forall p, fdisc p = true -> forall m i st,
    (forall cur, In cur (used_cursors p) -> nth cur (snd st) 0%nat = i) ->
    Forall (fun x => (i <= fst x)%nat) (floop G A p m i st) /\
    forall j s0', (i <= j < i + m)%nat ->
      writes_at j (floop G A p m i st) = map snd (snd (frun G (shift A j) p 0 (s0', []))).
  Proof.
    intros p Hd m. induction m as [|m IH]; intros i st Hinv.
    - cbn. split; [constructor|]. intros; lia.
    - cbn [floop].
      assert (Hone : forall s0',
        snd (frun G A p i st) = map (lift i) (snd (frun G (shift A i) p 0 (s0', []))) /\
        Forall (fun x => fst x = 0%nat) (snd (frun G (shift A i) p 0 (s0', []))) /\
        (forall cur, In cur (used_cursors p) -> nth cur (snd (fst (frun G A p i st))) 0%nat = S i)).
      { intros s0'. apply (frun_alone i (used_cursors p) p [] [] st (s0', [])).
        - apply incl_refl.
        - intros c [].
        - intros cur Hc _. split; [now apply Hinv|]. cbn. apply nth_nil_nat.
        - intros cur _ [].
        - exact Hd. }
      destruct (frun G A p i st) as [st1 o] eqn:E. cbn [fst snd] in Hone.
      destruct (Hone []) as [_ [_ Hnext]].
      destruct (IH (S i) st1 Hnext) as [Hpos Hat].
      assert (Hoi : Forall (fun x => fst x = i) o).
      { destruct (Hone []) as [Eo [Ez _]]. rewrite Eo. apply Forall_forall. intros x Hx.
        apply in_map_iff in Hx. destruct Hx as [y [<- Hy]]. rewrite Forall_forall in Ez.
        unfold lift. cbn. rewrite (Ez y Hy). reflexivity. }
      split.
      + apply Forall_app. split.
        * eapply Forall_impl; [|exact Hoi]. cbn. intros x Hx. lia.
        * eapply Forall_impl; [|exact Hpos]. cbn. intros x Hx. lia.
      + intros j s0' Hj. rewrite writes_at_app. destruct (Nat.eq_dec j i) as [->|Hne].
        * rewrite (writes_at_none i (floop G A p m (S i) st1)).
          2:{ eapply Forall_impl; [|exact Hpos]. cbn. intros x Hx. lia. }
          rewrite app_nil_r, (writes_at_all i o Hoi).
          destruct (Hone s0') as [Eo _]. rewrite Eo, map_map. apply map_ext. reflexivity.
        * rewrite (writes_at_none j o).
          2:{ eapply Forall_impl; [|exact Hoi]. cbn. intros x Hx. lia. }
          cbn. apply Hat. lia.
  Qed.

  (* what a disciplined loop leaves at position j is what the body writes on frame j alone, from any scratch *)
  Corollary frame_loop_local : forall p, fdisc p = true -> forall n s0 s0' j, (j < n)%nat ->
    writes_at j (floop G A p n 0 (s0, [])) = map snd (snd (frun G (shift A j) p 0 (s0', []))).
  Proof.
    intros p Hd n s0 s0' j Hj. apply (floop_spec p Hd n 0%nat (s0, [])); [|lia].
    intros cur _. cbn. apply nth_nil_nat.
  Qed.
End Local.
