(* Per-kernel skeletons of mdtraj's per-frame loops in the scratch language (C08).  Definitions only.

   These are HAND ABSTRACTIONS of the C++/Cython loops named next to each of them: they record which buffer is
   carried by a thread from one iteration to the next, in which order one iteration writes and reads it, and what
   is written at the iteration's own output index.  Arithmetic is abstracted (a per-frame quantity computed from
   the frame alone is an input Inp k; one representative cell stands for a whole buffer).  What is proved about
   them is the discipline; that the compiled code follows the skeleton is tested, bitwise, by the schedule sweep
   of harness/props/C08.py.  sasa_prog (coq/Gen/SchedSasa.v) is regenerated from sasa.cpp on every run and compared
   with the two sasa skeletons below. *)
From Coq Require Import List Arith ZArith Bool.
Import ListNotations.
Require Import MD.Sched.Scratch.
Open Scope Z_scope.

(* mdtraj/geometry/src/sasa.cpp  sasa(): "#pragma omp parallel private(outframebuffer) ... #pragma omp for" over frames.
   cell 0 = outframebuffer[j] (calloc'd once per thread, before the loop); Inp 0 = number of accessible points of
   atom j in this frame, Inp 1 = constant*r_j*r_j.
   asa_frame:  areas[j]++ (once per accessible point);  areas[j] *= constant*r*r;   then out[i][map[j]] += buffer[j] *)
Definition sasa_cur_prog : prog :=
  [Set_ 0 (Add (Cell 0) (Inp 0)); Set_ 0 (Mul (Cell 0) (Inp 1)); Out (Cell 0)].
(* minimal repair: the buffer is zeroed at the start of every frame *)
Definition sasa_fix_prog : prog := Set_ 0 (Const 0) :: sasa_cur_prog.

(* mdtraj/rmsd/_rmsd.pyx  rmsd(): for i in prange(n_frames): msd = msd_atom_major(frame i, ref); distances[i] = sqrtf(msd)
   cell 0 = the thread-private cdef float msd; Inp 0 = msd of frame i *)
Definition rmsd_prog : prog := [Set_ 0 (Inp 0); Out (Cell 0)].

(* mdtraj/rmsd/_rmsd.pyx  superpose_atom_major(): prange over frames; msd_atom_major(..., &rot[i,0,0]);
   rot_atom_major(xyz[i], &rot[i,0,0]).  cell 0 = rot[i] (indexed by the frame, written then read); Inp 0 = optimal
   rotation of frame i, Inp 1 = coordinates of frame i *)
Definition superpose_prog : prog := [Set_ 0 (Inp 0); Out (Mul (Cell 0) (Inp 1))].

(* mdtraj/geometry/drid.pyx  _drid(): serial over frames, prange over atoms j; drid_moments(frame i, atom j,
   &result[i,j,0]) uses only stack locals.  Inp 0 = moments of atom j in frame i *)
Definition drid_prog : prog := [Out (Inp 0)].

(* mdtraj/geometry/src/neighborlist.cpp  "#pragma omp parallel for default(shared)" over atoms i:
   voxels.getNeighbors(neighbors[i], i, ...) pushes into atom i's own (initially empty) vector and only reads the
   shared voxel hash.  Inp 0 = the lower-index neighbours of atom i.  The symmetric completion that follows is a
   serial function of this loop's output array. *)
Definition neighborlist_prog : prog := [Out (Inp 0)].

(* mdtraj/geometry/src/geometry.cpp  kabsch_sander(): serial over frames; the hcoords vector is allocated once and
   carried; ks_assign_hydrogens overwrites the entries of all non-skipped residues before ks_donor_acceptor reads
   them; hbonds/henergies are the caller-initialised output slots of frame i.
   cell 0 = hcoords; Inp 0 = hydrogen positions of frame i, Inp 1 = the frame *)
Definition kabsch_sander_prog : prog := [Set_ 0 (Inp 0); Out (Mul (Cell 0) (Inp 1))].

(* mdtraj/geometry/src/dssp.cpp  dssp(): serial over frames; hbonds(-1), henergies(0), framesecondary(SS_LOOP) are
   constructed inside the loop body.  cells 0,1,2 = those vectors; Inp 0 = the frame's H-bond pattern *)
Definition dssp_prog : prog :=
  [Set_ 0 (Const (-1)); Set_ 1 (Const 0); Set_ 2 (Const 0);
   Set_ 0 (Add (Cell 0) (Inp 0)); Set_ 1 (Add (Cell 1) (Inp 0));
   Set_ 2 (Add (Cell 2) (Mul (Cell 0) (Cell 1))); Out (Cell 2)].

(* mdtraj/geometry/src/kernels/{dist,angle,dihedral}kernels.h via geometry.cpp: serial over frames, stack locals
   only, out[i*n + j] written once.  Inp 0 = the value for frame i *)
Definition pointwise_prog : prog := [Out (Inp 0)].

(* mdtraj/rmsd/src/center_sse.h  inplace_center_and_trace_atom_major(): "#pragma omp parallel for" over frames with every
   temporary in the private(...) clause; sx_ = ... = _mm_setzero_pd() at the top of each iteration, then accumulated,
   then the frame is shifted in place and its trace stored at traces[k].
   cell 0 = the coordinate sums, cell 1 = the float mean; Inp 0 = the frame *)
Definition center_prog : prog :=
  [Set_ 0 (Const 0); Set_ 0 (Add (Cell 0) (Inp 0)); Set_ 1 (Cell 0);
   Out (Add (Inp 0) (Mul (Const (-1)) (Cell 1)))].

Definition skeletons : list prog :=
  [sasa_fix_prog; center_prog; rmsd_prog; superpose_prog; drid_prog; neighborlist_prog; kabsch_sander_prog; dssp_prog; pointwise_prog].
