(* A small language for per-iteration loop bodies that use per-thread scratch cells (C08).

   A body is a list of operations on a store of scratch cells (the thread-private work buffers) executed for one
   iteration with that iteration's inputs:
       Set c e    scratch[c] := e          (e may read inputs, constants and scratch cells)
       Out e      append e to what the iteration writes at its own index of the output array
   [ok_prog] is the discipline: no cell is read before this same iteration has written it.  MD.Sched.ScratchProofs
   shows that a body satisfying it ignores the incoming scratch (hence every schedule gives the same outputs, by
   MD.Sched.Proofs.parfor_schedule_free).  Per-kernel skeletons - hand abstractions of mdtraj's loops, one
   representative cell per buffer - are in MD.Sched.Kernels.  Definitions only. *)
From Coq Require Import List Arith ZArith Bool.
Import ListNotations.
Open Scope Z_scope.

Inductive expr :=
| Inp (k : nat)            (* k-th input of the iteration (frame data, per-frame precomputed values) *)
| Cell (c : nat)           (* read scratch cell c *)
| Const (z : Z)
| Add (a b : expr)
| Mul (a b : expr).

Inductive op := Set_ (c : nat) (e : expr) | Out (e : expr).
Definition prog := list op.

Definition store := list Z.          (* scratch cells by number; cells beyond the list read as 0 *)

Fixpoint eval (inp : list Z) (s : store) (e : expr) : Z :=
  match e with
  | Inp k => nth k inp 0
  | Cell c => nth c s 0
  | Const z => z
  | Add a b => eval inp s a + eval inp s b
  | Mul a b => eval inp s a * eval inp s b
  end.

Fixpoint set_cell (c : nat) (v : Z) (s : store) : store :=
  match c, s with
  | O, [] => [v]
  | O, _ :: r => v :: r
  | S c', [] => 0 :: set_cell c' v []
  | S c', x :: r => x :: set_cell c' v r
  end.

Fixpoint run (p : prog) (inp : list Z) (s : store) : store * list Z :=
  match p with
  | [] => (s, [])
  | Set_ c e :: r => run r inp (set_cell c (eval inp s e) s)
  | Out e :: r => let '(s', o) := run r inp s in (s', eval inp s e :: o)
  end.

(* the loop body in the shape MD.Sched.ParFor expects *)
Definition body_of (p : prog) (s : store) (inp : list Z) : store * list Z := run p inp s.

(* ---- the discipline ---- *)
Fixpoint reads_ok (w : list nat) (e : expr) : bool :=
  match e with
  | Inp _ | Const _ => true
  | Cell c => existsb (Nat.eqb c) w
  | Add a b | Mul a b => reads_ok w a && reads_ok w b
  end.

Fixpoint ok_from (w : list nat) (p : prog) : bool :=
  match p with
  | [] => true
  | Set_ c e :: r => reads_ok w e && ok_from (c :: w) r
  | Out e :: r => reads_ok w e && ok_from w r
  end.

Definition ok_prog (p : prog) : bool := ok_from [] p.
