(* Serial per-frame loops with carried cursors (C08): the shape of mdtraj's C/C++ frame loops
       for (i = 0; i < n_frames; i++) { ... xyz += n_atoms*3; box_matrix += 9; out++ ... }

   A body is a list of operations executed for frame index i on
     cells    scratch variables and buffers (anything declared outside the loop, or inside it without initialiser)
     cursors  pointers into per-frame arrays that the body itself advances (FAdv)
   and may read frame-independent inputs (FGlob), per-frame arrays at the loop index (FIdx) or through a cursor (FVia),
   and write results at the loop index (FOutIdx) or through a cursor (FOutVia).
   [fdisc] is the discipline: no cell is read before the same iteration wrote it; a cursor that is used is advanced
   exactly once per iteration, after its last use.  MD.Sched.FrameLoopProofs: a disciplined loop writes, at position j,
   exactly what the body writes when it is run on frame j alone (from any scratch).  The terms for mdtraj's kernels are
   regenerated from the C/C++ sources on every run (coq/Gen/SchedKernels.v).  Definitions only. *)
From Coq Require Import List Arith ZArith Bool.
Import ListNotations.
Require Import MD.Sched.Scratch.
Open Scope Z_scope.

Inductive fexpr :=
| FGlob (k : nat)              (* frame-independent input number k *)
| FVia (cur arr : nat)         (* per-frame array arr read at the position of cursor cur *)
| FIdx (arr : nat)             (* per-frame array arr read at the loop index *)
| FCell (c : nat)
| FConst (z : Z)
| FAdd (a b : fexpr)
| FMul (a b : fexpr).

Inductive fop :=
| FSet (c : nat) (e : fexpr)
| FOutIdx (e : fexpr)
| FOutVia (cur : nat) (e : fexpr)
| FAdv (cur : nat).
Definition fprog := list fop.

Definition fstate := (store * list nat)%type.       (* cells, cursor positions (in frames) *)

Fixpoint set_cur (c : nat) (v : nat) (s : list nat) : list nat :=
  match c, s with
  | O, [] => [v]
  | O, _ :: r => v :: r
  | S c', [] => 0%nat :: set_cur c' v []
  | S c', x :: r => x :: set_cur c' v r
  end.

Section Sem.
  Variable G : nat -> Z.                 (* frame-independent inputs *)
  Variable A : nat -> nat -> Z.          (* per-frame arrays: array number, frame position *)

  Fixpoint feval (i : nat) (st : fstate) (e : fexpr) : Z :=
    match e with
    | FGlob k => G k
    | FVia cur arr => A arr (nth cur (snd st) 0%nat)
    | FIdx arr => A arr i
    | FCell c => nth c (fst st) 0
    | FConst z => z
    | FAdd a b => feval i st a + feval i st b
    | FMul a b => feval i st a * feval i st b
    end.

  (* one iteration: final state and the list of (position, value) writes, in order *)
  Fixpoint frun (p : fprog) (i : nat) (st : fstate) : fstate * list (nat * Z) :=
    match p with
    | [] => (st, [])
    | FSet c e :: r => frun r i (set_cell c (feval i st e) (fst st), snd st)
    | FOutIdx e :: r => let '(st', o) := frun r i st in (st', (i, feval i st e) :: o)
    | FOutVia cur e :: r => let '(st', o) := frun r i st in (st', (nth cur (snd st) 0%nat, feval i st e) :: o)
    | FAdv cur :: r => frun r i (fst st, set_cur cur (S (nth cur (snd st) 0%nat)) (snd st))
    end.

  (* the loop: n iterations starting at index i, state carried from one iteration to the next *)
  Fixpoint floop (p : fprog) (n i : nat) (st : fstate) : list (nat * Z) :=
    match n with
    | O => []
    | S m => let '(st', o) := frun p i st in o ++ floop p m (S i) st'
    end.
End Sem.

(* what ended up at position j of the output *)
Definition writes_at (j : nat) (ws : list (nat * Z)) : list Z :=
  map snd (filter (fun w => Nat.eqb (fst w) j) ws).

(* the trajectory seen from frame j on: frame j alone is position 0 of it *)
Definition shift (A : nat -> nat -> Z) (j : nat) : nat -> nat -> Z := fun arr pos => A arr (j + pos)%nat.

(* ---- the discipline ---- *)
Definition memn (c : nat) (l : list nat) : bool := existsb (Nat.eqb c) l.

Fixpoint fe_ok (w adv : list nat) (e : fexpr) : bool :=
  match e with
  | FGlob _ | FIdx _ | FConst _ => true
  | FVia cur _ => negb (memn cur adv)
  | FCell c => memn c w
  | FAdd a b | FMul a b => fe_ok w adv a && fe_ok w adv b
  end.

Fixpoint fe_cursors (e : fexpr) : list nat :=
  match e with
  | FVia cur _ => [cur]
  | FAdd a b | FMul a b => fe_cursors a ++ fe_cursors b
  | _ => []
  end.

Fixpoint used_cursors (p : fprog) : list nat :=
  match p with
  | [] => []
  | FSet _ e :: r | FOutIdx e :: r => fe_cursors e ++ used_cursors r
  | FOutVia cur e :: r => cur :: fe_cursors e ++ used_cursors r
  | FAdv _ :: r => used_cursors r
  end.

Fixpoint fdisc_from (used w adv : list nat) (p : fprog) : bool :=
  match p with
  | [] => forallb (fun c => memn c adv) used
  | FSet c e :: r => fe_ok w adv e && fdisc_from used (c :: w) adv r
  | FOutIdx e :: r => fe_ok w adv e && fdisc_from used w adv r
  | FOutVia cur e :: r => negb (memn cur adv) && fe_ok w adv e && fdisc_from used w adv r
  | FAdv cur :: r => negb (memn cur adv) && fdisc_from used w (cur :: adv) r
  end.

Definition fdisc (p : fprog) : bool := fdisc_from (used_cursors p) [] [] p.

(* ---- the same body as an iteration of a PARALLEL loop (omp for / cython prange over frames or atoms) ----
   The iteration index is the input; the cells are the thread-private variables (MD.Sched.ParFor threads them through
   the iterations a thread runs); the output of iteration i is the list of (position, value) writes.  A parallel loop
   must not use self-advanced cursors (their meaning depends on the serial order): [par_ok] asks for none. *)
Definition fbody (G : nat -> Z) (A : nat -> nat -> Z) (p : fprog) (st : fstate) (i : nat) : fstate * list (nat * Z) :=
  frun G A p i st.

Definition cursor_free (p : fprog) : bool := match used_cursors p with [] => true | _ :: _ => false end.
Fixpoint no_adv (p : fprog) : bool :=
  match p with
  | [] => true
  | FAdv _ :: _ => false
  | _ :: r => no_adv r
  end.
Definition par_ok (p : fprog) : bool := fdisc p && cursor_free p && no_adv p.
