(* Lemmas about the parallel-for model (C08). *)
From Coq Require Import List Arith Bool Lia Permutation.
Import ListNotations.
Require Import MD.Sched.ParFor.

Section Proofs.
  Variables (I S O : Type).
  Variable body : S -> I -> S * O.
  Variable s0 : S.
  Variable dflt : I.
  Hypothesis Hign : body_ignores_scratch body.

  Lemma run_thread_values : forall inputs its s i o,
    In (i, o) (run_thread body dflt inputs s its) -> o = snd (body s0 (nth i inputs dflt)).
  Proof.
    intros inputs its; induction its as [|j r IH]; intros s i o Hin; cbn in Hin.
    - contradiction.
    - destruct (body s (nth j inputs dflt)) as [s' o'] eqn:E. cbn in Hin. destruct Hin as [Heq|Hin].
      + inversion Heq; subst. rewrite (Hign s0 s), E. reflexivity.
      + eapply IH; eauto.
  Qed.

  Lemma run_thread_indices : forall inputs its s,
    map fst (run_thread body dflt inputs s its) = its.
  Proof.
    intros inputs its; induction its as [|j r IH]; intros s; cbn; [reflexivity|].
    destruct (body s (nth j inputs dflt)) as [s' o']. cbn. now rewrite IH.
  Qed.

  Lemma writes_values : forall inputs sched i o,
    In (i, o) (writes body s0 dflt inputs sched) -> o = snd (body s0 (nth i inputs dflt)).
  Proof.
    intros inputs sched i o Hin. unfold writes in Hin. apply in_concat in Hin.
    destruct Hin as [l [Hl Hin]]. apply in_map_iff in Hl. destruct Hl as [its [<- _]].
    eapply run_thread_values; eauto.
  Qed.

  Lemma writes_indices : forall inputs sched,
    map fst (writes body s0 dflt inputs sched) = concat sched.
  Proof.
    intros inputs sched. unfold writes. induction sched as [|its r IH]; cbn; [reflexivity|].
    rewrite map_app, run_thread_indices, IH. reflexivity.
  Qed.

  Lemma lookup_some : forall (w : list (nat * O)) i, In i (map fst w) ->
    exists o, lookup i w = Some o /\ In (i, o) w.
  Proof.
    induction w as [|[j o] r IH]; intros i Hin; cbn in *; [contradiction|].
    destruct (Nat.eqb_spec i j) as [->|Hne].
    - exists o; split; auto.
    - destruct Hin as [Heq|Hin]; [congruence|]. destruct (IH i Hin) as [o' [H1 H2]]. exists o'; auto.
  Qed.

  Lemma map_seq_nth : forall (B : Type) (g : I -> B) (l : list I),
    map g l = map (fun i => g (nth i l dflt)) (seq 0 (length l)).
  Proof.
    intros B g l. induction l as [|x r IH]; cbn; [reflexivity|].
    f_equal. rewrite <- seq_shift, map_map. exact IH.
  Qed.

  (* every schedule that runs each iteration yields exactly the sequential reference *)
  Theorem parfor_schedule_free : forall inputs sched, covers (length inputs) sched ->
    parfor body s0 dflt inputs sched = reference body s0 inputs.
  Proof.
    intros inputs sched [Hcov _]. unfold parfor, reference.
    rewrite (map_seq_nth _ (fun x => Some (snd (body s0 x))) inputs).
    apply map_ext_in. intros i Hi. apply in_seq in Hi.
    assert (Hin : In i (map fst (writes body s0 dflt inputs sched))).
    { rewrite writes_indices. apply Hcov. lia. }
    destruct (lookup_some _ _ Hin) as [o [Hl Ho]]. rewrite Hl.
    f_equal. eapply writes_values; eauto.
  Qed.

  (* consequences: thread-count / schedule independence, frame locality, permutation equivariance *)
  Corollary parfor_any_two_schedules : forall inputs sc1 sc2,
    covers (length inputs) sc1 -> covers (length inputs) sc2 ->
    parfor body s0 dflt inputs sc1 = parfor body s0 dflt inputs sc2.
  Proof. intros. rewrite !parfor_schedule_free; auto. Qed.

  Lemma nth_reference : forall inputs i, i < length inputs ->
    nth i (reference body s0 inputs) None = Some (snd (body s0 (nth i inputs dflt))).
  Proof.
    intros inputs. induction inputs as [|x r IH]; intros i Hi; cbn in *; [lia|].
    destruct i as [|i]; [reflexivity|]. apply IH. lia.
  Qed.

  Corollary parfor_frame_local : forall inputs sched i, covers (length inputs) sched -> i < length inputs ->
    nth i (parfor body s0 dflt inputs sched) None =
    nth 0 (parfor body s0 dflt [nth i inputs dflt] (sched_serial 1)) None.
  Proof.
    intros inputs sched i Hc Hi. rewrite parfor_schedule_free by assumption.
    rewrite nth_reference by assumption.
    cbn. destruct (body s0 (nth i inputs dflt)) as [s' o] eqn:E. cbn. reflexivity.
  Qed.

  Corollary parfor_permutation : forall inputs sigma sched sched',
    covers (length inputs) sched -> covers (length sigma) sched' ->
    (forall j, In j sigma -> j < length inputs) ->
    parfor body s0 dflt (map (fun j => nth j inputs dflt) sigma) sched' =
    map (fun j => nth j (parfor body s0 dflt inputs sched) None) sigma.
  Proof.
    intros inputs sigma sched sched' Hc Hc' Hr.
    rewrite parfor_schedule_free by (rewrite map_length; assumption).
    rewrite (parfor_schedule_free inputs sched) by assumption.
    unfold reference at 1. rewrite map_map. apply map_ext_in. intros j Hj.
    now rewrite nth_reference by auto.
  Qed.
End Proofs.

(* With one iteration per thread every iteration starts from the fresh scratch: the reference result is obtained
   whatever the body does with its scratch.  (This is why a carried-over buffer is invisible when there are at
   least as many threads as frames.) *)
Section OneEach.
  Variables (I S O : Type).
  Variable body : S -> I -> S * O.
  Variable s0 : S.
  Variable dflt : I.

  Lemma writes_one_each : forall inputs l,
    writes body s0 dflt inputs (map (fun i => [i]) l) = map (fun i => (i, snd (body s0 (nth i inputs dflt)))) l.
  Proof.
    intros inputs l. unfold writes. induction l as [|i l IH]; cbn; [reflexivity|].
    destruct (body s0 (nth i inputs dflt)) as [s' o] eqn:E. cbn. f_equal. exact IH.
  Qed.

  Lemma lookup_map_seq : forall (f : nat -> O) l i, In i l ->
    lookup i (map (fun j => (j, f j)) l) = Some (f i).
  Proof.
    intros f l. induction l as [|j l IH]; intros i Hi; cbn in *; [contradiction|].
    destruct (Nat.eqb_spec i j) as [->|Hne]; [reflexivity|]. destruct Hi as [->|Hi]; [congruence|auto].
  Qed.

  Theorem parfor_one_each : forall inputs,
    parfor body s0 dflt inputs (sched_one_each (length inputs)) = reference body s0 inputs.
  Proof.
    intros inputs. unfold parfor, reference, sched_one_each. rewrite writes_one_each.
    rewrite (map_seq_nth I dflt _ (fun x => Some (snd (body s0 x))) inputs).
    apply map_ext_in. intros i Hi. now rewrite lookup_map_seq.
  Qed.
End OneEach.

(* ---- the standard schedules are admissible ---- *)
Lemma covers_of_concat_seq : forall n sched, concat sched = seq 0 n -> covers n sched.
Proof. intros n sched H. unfold covers. rewrite H. split; intros i Hi; [apply in_seq; lia|apply in_seq in Hi; lia]. Qed.

Lemma serial_covers : forall n, covers n (sched_serial n).
Proof. intros n. apply covers_of_concat_seq. cbn. now rewrite app_nil_r. Qed.

Lemma one_each_covers : forall n, covers n (sched_one_each n).
Proof.
  intros n. apply covers_of_concat_seq. unfold sched_one_each.
  induction (seq 0 n) as [|x l IH]; cbn; [reflexivity|now rewrite IH].
Qed.

Lemma static_chunk_le : forall n t, 1 <= t -> n / t + (if n mod t =? 0 then 0 else 1) <= n.
Proof.
  intros n t Ht. pose proof (Nat.div_mod n t ltac:(lia)) as E.
  pose proof (Nat.mod_upper_bound n t ltac:(lia)) as U.
  destruct (Nat.eqb_spec (n mod t) 0) as [Hz|Hz]; nia.
Qed.

Lemma static_blocks_concat : forall t start n, 1 <= t -> concat (static_blocks start n t) = seq start n.
Proof.
  induction t as [|t IH]; intros start n Ht; [lia|].
  cbn [static_blocks concat]. set (q := n / S t + (if n mod S t =? 0 then 0 else 1)).
  assert (Hq : q <= n) by (apply static_chunk_le; lia).
  destruct t as [|t].
  - cbn [static_blocks concat]. rewrite app_nil_r.
    assert (Hn : q = n). { unfold q. rewrite Nat.div_1_r, Nat.mod_1_r. cbn. lia. }
    now rewrite Hn.
  - rewrite IH by lia. replace n with (q + (n - q)) at 2 by lia. now rewrite seq_app.
Qed.

Lemma static_covers : forall n t, 1 <= t -> covers n (sched_static n t).
Proof. intros n t Ht. apply covers_of_concat_seq. now apply static_blocks_concat. Qed.
