(* Lemmas about the parallel-for model (C08). *)
From Coq Require Import List Arith Bool Lia Permutation.
Import ListNotations.
Require Import MD.Sched.ParFor.

Section Proofs.
  Variables (I S O : Type).
  Variable body : S -> I -> S * O.
  Variable s0 : S.
  Variable dflt : I.
  Hypothesis Hign : body_ignores_scratch body.

  Lemma run_thread_values : forall inputs its s i o,
    In (i, o) (run_thread body dflt inputs s its) -> o = snd (body s0 (nth i inputs dflt)).
  Proof.
    intros inputs its; induction its as [|j r IH]; intros s i o Hin; cbn in Hin.
    - contradiction.
    - destruct (body s (nth j inputs dflt)) as [s' o'] eqn:E. cbn in Hin. destruct Hin as [Heq|Hin].
      + inversion Heq; subst. rewrite (Hign s0 s), E. reflexivity.
      + eapply IH; eauto.
  Qed.

  Lemma run_thread_indices : forall inputs its s,
    map fst (run_thread body dflt inputs s its) = its.
  Proof.
    intros inputs its; induction its as [|j r IH]; intros s; cbn; [reflexivity|].
    destruct (body s (nth j inputs dflt)) as [s' o']. cbn. now rewrite IH.
  Qed.

  Lemma writes_values : forall inputs sched i o,
    In (i, o) (writes body s0 dflt inputs sched) -> o = snd (body s0 (nth i inputs dflt)).
  Proof.
    intros inputs sched i o Hin. unfold writes in Hin. apply in_concat in Hin.
    destruct Hin as [l [Hl Hin]]. apply in_map_iff in Hl. destruct Hl as [its [<- _]].
    eapply run_thread_values; eauto.
  Qed.

  Lemma writes_indices : forall inputs sched,
    map fst (writes body s0 dflt inputs sched) = concat sched.
  Proof.
    intros inputs sched. unfold writes. induction sched as [|its r IH]; cbn; [reflexivity|].
    rewrite map_app, run_thread_indices, IH. reflexivity.
  Qed.

  Lemma lookup_some : forall (w : list (nat * O)) i, In i (map fst w) ->
    exists o, lookup i w = Some o /\ In (i, o) w.
  Proof.
    induction w as [|[j o] r IH]; intros i Hin; cbn in *; [contradiction|].
    destruct (Nat.eqb_spec i j) as [->|Hne].
    - exists o; split; auto.
    - destruct Hin as [Heq|Hin]; [congruence|]. destruct (IH i Hin) as [o' [H1 H2]]. exists o'; auto.
  Qed.

  Lemma map_seq_nth : forall (B : Type) (g : I -> B) (l : list I),
    map g l = map (fun i => g (nth i l dflt)) (seq 0 (length l)).
  Proof.
    intros B g l. induction l as [|x r IH]; cbn; [reflexivity|].
    f_equal. rewrite <- seq_shift, map_map. exact IH.
  Qed.

  (* every schedule that runs each iteration yields exactly the sequential reference *)
  Theorem parfor_schedule_free : forall inputs sched, covers (length inputs) sched ->
    parfor body s0 dflt inputs sched = reference body s0 inputs.
  Proof.
    intros inputs sched [Hcov _]. unfold parfor, reference.
    rewrite (map_seq_nth _ (fun x => Some (snd (body s0 x))) inputs).
    apply map_ext_in. intros i Hi. apply in_seq in Hi.
    assert (Hin : In i (map fst (writes body s0 dflt inputs sched))).
    { rewrite writes_indices. apply Hcov. lia. }
    destruct (lookup_some _ _ Hin) as [o [Hl Ho]]. rewrite Hl.
    f_equal. eapply writes_values; eauto.
  Qed.

  (* consequences: thread-count / schedule independence, frame locality, permutation equivariance *)
  Corollary parfor_any_two_schedules : forall inputs sc1 sc2,
    covers (length inputs) sc1 -> covers (length inputs) sc2 ->
    parfor body s0 dflt inputs sc1 = parfor body s0 dflt inputs sc2.
  Proof. intros. rewrite !parfor_schedule_free; auto. Qed.

  Lemma nth_reference : forall inputs i, i < length inputs ->
    nth i (reference body s0 inputs) None = Some (snd (body s0 (nth i inputs dflt))).
  Proof.
    intros inputs. induction inputs as [|x r IH]; intros i Hi; cbn in *; [lia|].
    destruct i as [|i]; [reflexivity|]. apply IH. lia.
  Qed.

  Corollary parfor_frame_local : forall inputs sched i, covers (length inputs) sched -> i < length inputs ->
    nth i (parfor body s0 dflt inputs sched) None =
    nth 0 (parfor body s0 dflt [nth i inputs dflt] (sched_serial 1)) None.
  Proof.
    intros inputs sched i Hc Hi. rewrite parfor_schedule_free by assumption.
    rewrite nth_reference by assumption.
    cbn. destruct (body s0 (nth i inputs dflt)) as [s' o] eqn:E. cbn. reflexivity.
  Qed.

  Corollary parfor_permutation : forall inputs sigma sched sched',
    covers (length inputs) sched -> covers (length sigma) sched' ->
    (forall j, In j sigma -> j < length inputs) ->
    parfor body s0 dflt (map (fun j => nth j inputs dflt) sigma) sched' =
    map (fun j => nth j (parfor body s0 dflt inputs sched) None) sigma.
  Proof.
    intros inputs sigma sched sched' Hc Hc' Hr.
    rewrite parfor_schedule_free by (rewrite map_length; assumption).
    rewrite (parfor_schedule_free inputs sched) by assumption.
    unfold reference at 1. rewrite map_map. apply map_ext_in. intros j Hj.
    now rewrite nth_reference by auto.
  Qed.
End Proofs.
