(* Lemmas about the parallel-for model (C08). *)
From Coq Require Import List Arith Bool Lia Permutation.
Import ListNotations.
Require Import MD.Sched.ParFor.

Section Proofs.
  Variables (I S O : Type).
  Variable body : S -> I -> S * O.
  Variable s0 : S.
  Variable dflt : I.
  Hypothesis Hign : body_ignores_scratch body.

  Lemma run_thread_values : forall inputs its s i o,
    In (i, o) (run_thread body dflt inputs s its) -> o = snd (body s0 (nth i inputs dflt)).
  Proof.
    intros inputs its; induction its as [|j r IH]; intros s i o Hin; cbn in Hin.
    - contradiction.
    - destruct (body s (nth j inputs dflt)) as [s' o'] eqn:E. cbn in Hin. destruct Hin as [Heq|Hin].
      + inversion Heq; subst. rewrite (Hign s0 s), E. reflexivity.
      + eapply IH; eauto.
  Qed.

  Lemma run_thread_indices : forall inputs its s,
    map fst (run_thread body dflt inputs s its) = its.
  Proof.
    intros inputs its; induction its as [|j r IH]; intros s; cbn; [reflexivity|].
    destruct (body s (nth j inputs dflt)) as [s' o']. cbn. now rewrite IH.
  Qed.

  Lemma writes_values : forall inputs sched i o,
    In (i, o) (writes body s0 dflt inputs sched) -> o = snd (body s0 (nth i inputs dflt)).
  Proof.
    intros inputs sched i o Hin. unfold writes in Hin. apply in_concat in Hin.
    destruct Hin as [l [Hl Hin]]. apply in_map_iff in Hl. destruct Hl as [its [<- _]].
    eapply run_thread_values; eauto.
  Qed.

  Lemma writes_indices : forall inputs sched,
    map fst (writes body s0 dflt inputs sched) = concat sched.
  Proof.
    intros inputs sched. unfold writes. induction sched as [|its r IH]; cbn; [reflexivity|].
    rewrite map_app, run_thread_indices, IH. reflexivity.
  Qed.

  Lemma lookup_some : forall (w : list (nat * O)) i, In i (map fst w) ->
    exists o, lookup i w = Some o /\ In (i, o) w.
  Proof.
    induction w as [|[j o] r IH]; intros i Hin; cbn in *; [contradiction|].
    destruct (Nat.eqb_spec i j) as [->|Hne].
    - exists o; split; auto.
    - destruct Hin as [Heq|Hin]; [congruence|]. destruct (IH i Hin) as [o' [H1 H2]]. exists o'; auto.
  Qed.

  (* every schedule that runs each iteration yields exactly the sequential reference *)
  Theorem parfor_schedule_free : forall inputs sched, covers (length inputs) sched ->
    parfor body s0 dflt inputs sched = reference body s0 inputs.
  Proof.
    intros inputs sched [Hcov _]. unfold parfor, reference.
    apply nth_error_ext_local.
  Abort.
End Proofs.
