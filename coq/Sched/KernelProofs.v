(* The kernel skeletons and the discipline (C08). *)
From Coq Require Import String.
From Coq Require Import List Arith ZArith Bool Lia.
Import ListNotations.
Require Import MD.Sched.ParFor MD.Sched.Proofs MD.Sched.Scratch MD.Sched.ScratchProofs MD.Sched.Kernels.
Require Import MD.Sasa.Model MD.Sasa.Proofs.
Open Scope Z_scope.

Lemma skeletons_ok : forallb ok_prog skeletons = true.
Proof. vm_compute. reflexivity. Qed.

Lemma skeleton_schedule_free : forall p, In p skeletons -> forall s0 inputs sched,
  covers (length inputs) sched -> parfor (body_of p) s0 [] inputs sched = reference (body_of p) s0 inputs.
Proof.
  intros p Hp s0 inputs sched Hc. apply ok_prog_schedule_free; [|assumption].
  pose proof skeletons_ok as H. rewrite forallb_forall in H. now apply H.
Qed.

(* today's SASA loop violates the discipline: the checker rejects it and a witness shows the dependence *)
Lemma sasa_cur_prog_rejected : ok_prog sasa_cur_prog = false.
Proof. reflexivity. Qed.

Lemma sasa_cur_prog_refuted : ~ body_ignores_scratch (body_of sasa_cur_prog).
Proof. intros H. specialize (H [0] [5] [1; 1]). vm_compute in H. discriminate. Qed.

(* one thread, two frames: the second frame's output is not the frame's own value *)
Lemma sasa_cur_prog_schedule_dependent :
  parfor (body_of sasa_cur_prog) [0] [] [[3; 2]; [3; 2]] (sched_serial 2) <>
  parfor (body_of sasa_cur_prog) [0] [] [[3; 2]; [3; 2]] (sched_one_each 2).
Proof. vm_compute. discriminate. Qed.

(* the skeleton is the per-atom update of the full SASA model (MD.Sasa.Model.atom_area) *)
Lemma sasa_skeleton_is_atom_area : forall K M pts ats i a prev,
  snd (run sasa_cur_prog [atom_count M pts ats i a; K * snd a * snd a] [prev]) = [atom_area K M pts ats i a prev].
Proof. intros. reflexivity. Qed.

(* the full model's bodies *)
Lemma sasa_body_cur_refuted : exists K M pts radii mask mapping row0,
  ~ body_ignores_scratch (body_cur K M pts radii mask mapping row0).
Proof.
  exists 1, 1, [(1, 0, 0)], [1], [true], [0%nat], [0]. intros H.
  specialize (H [0] [7] [(0, 0, 0)]). vm_compute in H. discriminate.
Qed.
