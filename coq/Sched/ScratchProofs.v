(* Soundness of the scratch discipline (C08): a body that never reads a cell before writing it in the same
   iteration writes outputs that do not depend on the incoming scratch. *)
From Coq Require Import List Arith ZArith Bool Lia.
Import ListNotations.
Require Import MD.Sched.ParFor MD.Sched.Proofs MD.Sched.Scratch.
Open Scope Z_scope.

Definition agree (w : list nat) (s s' : store) : Prop := forall c, In c w -> nth c s 0 = nth c s' 0.

Lemma eval_agree : forall inp w e s s', agree w s s' -> reads_ok w e = true -> eval inp s e = eval inp s' e.
Proof.
  intros inp w e. induction e as [k|c|z|a IHa b IHb|a IHa b IHb]; intros s s' Ha Hr; cbn in *; try reflexivity.
  - apply Ha. apply existsb_exists in Hr. destruct Hr as [x [Hx Hc]]. apply Nat.eqb_eq in Hc. now subst.
  - apply andb_prop in Hr. destruct Hr. erewrite IHa, IHb; eauto.
  - apply andb_prop in Hr. destruct Hr. erewrite IHa, IHb; eauto.
Qed.

Lemma set_cell_same : forall c v s, nth c (set_cell c v s) 0 = v.
Proof. induction c as [|c IH]; intros v [|x r]; cbn; auto. Qed.

Lemma set_cell_other : forall c d v s, c <> d -> nth d (set_cell c v s) 0 = nth d s 0.
Proof.
  induction c as [|c IH]; intros [|d] v [|x r] H; cbn; try congruence; auto.
  - now destruct d.
  - rewrite IH by congruence. now destruct d.
Qed.

Lemma agree_set : forall w c v s s', agree w s s' -> agree (c :: w) (set_cell c v s) (set_cell c v s').
Proof.
  intros w c v s s' Ha d Hd. destruct (Nat.eq_dec c d) as [->|Hne].
  - now rewrite !set_cell_same.
  - rewrite !set_cell_other by assumption. apply Ha. destruct Hd; [congruence|assumption].
Qed.

Lemma run_outputs_agree : forall inp p w s s', agree w s s' -> ok_from w p = true ->
  snd (run p inp s) = snd (run p inp s').
Proof.
  intros inp p. induction p as [|[c e|e] r IH]; intros w s s' Ha Hok; cbn in *; [reflexivity| |].
  - apply andb_prop in Hok. destruct Hok as [Hr Hk].
    rewrite (eval_agree inp w e s s' Ha Hr). eapply IH; [|exact Hk]. now apply agree_set.
  - apply andb_prop in Hok. destruct Hok as [Hr Hk].
    specialize (IH w s s' Ha Hk). destruct (run r inp s), (run r inp s'). cbn in *.
    now rewrite (eval_agree inp w e s s' Ha Hr), IH.
Qed.

Theorem ok_prog_ignores_scratch : forall p, ok_prog p = true -> body_ignores_scratch (body_of p).
Proof.
  intros p Hok s s' x. unfold body_of. apply (run_outputs_agree x p [] s s'); [|exact Hok].
  intros c [].
Qed.

(* every schedule, any number of threads: the loop's output array is the per-iteration reference *)
Theorem ok_prog_schedule_free : forall p s0 inputs sched, ok_prog p = true -> covers (length inputs) sched ->
  parfor (body_of p) s0 [] inputs sched = reference (body_of p) s0 inputs.
Proof. intros. apply parfor_schedule_free; [now apply ok_prog_ignores_scratch|assumption]. Qed.
