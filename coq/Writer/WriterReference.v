(* C19 — reference copy of the write() programs of the pinned mdtraj tree (with the three C19 fix: commits).

   Hand-maintained snapshot of what harness/props/C19.py emitted.  Used ONLY as a stand-in when the translator
   cannot follow a writer any more (evidence: translator degraded; the tie for that format is then the
   correspondence alone).  The *_asfound programs are the write() methods of hdf5.py / netcdf.py / mdcrd.py
   before the fix: commits, kept for the verdict of the checkers on them.  Definitions only. *)
From Coq Require Import List Bool.
Import ListNotations.
Require Import MD.Writer.Model MD.Writer.Dsl.

Definition h5_write : wprog :=
  (Seq (IfFirst Init Skip) (Seq (Check FAtoms Both) (Seq (Check FTime Extra) (Seq (Check FTime Missing) (Seq (Check FCell Extra) (Seq (Check FCell Missing) (Seq (Check FCell Extra) (Seq (Check FCell Missing) (Seq (Check FAtoms Both) (Seq (Mutate MCoords) (Seq (Check FTime Extra) (Seq (Mutate MTime) (Seq (Check FTime Missing) (Seq (Check FCell Extra) (Seq (Mutate MOther) (Seq (Check FCell Missing) (Seq (Check FCell Extra) (Seq (Mutate MCell) (Seq (Check FCell Missing) (Seq (Mutate MOther) Commit)))))))))))))))))))).
Definition h5_api : list field := [FAtoms; FCell; FTime].

Definition nc_write : wprog :=
  (Seq (IfFirst Init Skip) (Seq (Check FAtoms Both) (Seq (Check FTime Extra) (Seq (Check FTime Missing) (Seq (Check FCell Extra) (Seq (Check FCell Missing) (Seq (Check FCell Extra) (Seq (Check FCell Missing) (Seq (Check FAtoms Both) (Seq (Mutate MCoords) (Seq (Check FTime Extra) (Seq (Mutate MTime) (Seq (Check FCell Extra) (Seq (Mutate MCell) (Seq (Mutate MOther) (Seq (Check FCell Missing) (Seq (Check FTime Missing) Commit))))))))))))))))).
Definition nc_api : list field := [FAtoms; FCell; FTime].

Definition xtc_write : wprog :=
  (Seq (IfFirst Init (Seq (Check FAtoms Both) (Seq (Check FCell Missing) (Check FCell Extra)))) (Seq (Mutate MRows) Commit)).
Definition xtc_api : list field := [FAtoms; FCell; FTime].

Definition trr_write : wprog :=
  (Seq (IfFirst Init (Seq (Check FAtoms Both) (Seq (Check FCell Missing) (Check FCell Extra)))) (Seq (Mutate MRows) Commit)).
Definition trr_api : list field := [FAtoms; FCell; FTime].

Definition dcd_write : wprog :=
  (Seq (IfFirst Init (Seq (Check FAtoms Both) (Seq (Check FCell Missing) (Check FCell Extra)))) (Mutate MRows)).
Definition dcd_api : list field := [FAtoms; FCell].

Definition mdcrd_write : wprog :=
  (Seq (Check FAtoms Both) (Seq (IfFirst (Seq Init (Seq (Mutate MOther) Init)) (Seq (Check FCell Missing) (Check FCell Extra))) (Mutate MRows))).
Definition mdcrd_api : list field := [FAtoms; FCell].

Definition xyz_write : wprog :=
  (Mutate MRows).
Definition xyz_api : list field := [FAtoms].

Definition lammpstrj_write : wprog :=
  (Seq (Require FCell) (Mutate MRows)).
Definition lammpstrj_api : list field := [FAtoms; FCell].

Definition gro_write : wprog :=
  (Mutate MRows).
Definition gro_api : list field := [FAtoms; FCell; FTime].

Definition pdb_write : wprog :=
  (Seq (Mutate MCell) (Mutate MRows)).
Definition pdb_api : list field := [FAtoms; FCell].

Definition dtr_write : wprog :=
  (Seq (Require FCell) (Seq (Require FTime) (Seq (Require FCell) (Seq (Require FTime) (Seq (IfFirst Init (Seq (Check FAtoms Both) (Require FTime))) (Mutate MRows)))))).
Definition dtr_api : list field := [FAtoms; FCell; FTime].

(* hdf5.py:write before "fix: HDF5TrajectoryFile.write validates all fields before appending any" *)
Definition h5_write_asfound : wprog :=
  (Seq (IfFirst Init Skip) (Seq (Check FAtoms Both) (Seq (Mutate MCoords) (Seq (Check FTime Extra) (Seq (Mutate MTime)
  (Seq (Check FTime Missing) (Seq (Check FCell Extra) (Seq (Mutate MOther) (Seq (Check FCell Missing) (Seq (Check FCell Extra)
  (Seq (Mutate MCell) (Seq (Check FCell Missing) (Seq (Mutate MOther) Commit))))))))))))).
(* netcdf.py:write before "fix: NetCDFTrajectoryFile.write validates atoms and fields before depositing" *)
Definition nc_write_asfound : wprog :=
  (Seq (IfFirst Init Skip) (Seq (Check FAtoms Both) (Seq (Mutate MCoords) (Seq (Check FTime Extra) (Seq (Mutate MTime)
  (Seq (Check FCell Extra) (Seq (Mutate MCell) (Seq (Mutate MOther) (Seq (Check FCell Missing) (Seq (Check FTime Missing) Commit)))))))))).
(* mdcrd.py:write before "fix: MDCRDTrajectoryFile.write refuses a later call with a different atom count" *)
Definition mdcrd_write_asfound : wprog :=
  (Seq (IfFirst (Seq Init (Mutate MOther)) (Seq (Check FCell Missing) (Check FCell Extra))) (Mutate MRows)).
