(* C19 — soundness of the checkers of Writer/Dsl.v, proved once for all programs and all lawful backends. *)
From Coq Require Import List Bool Arith Lia.
Import ListNotations.
Require Import MD.Writer.Model MD.Writer.Dsl.

Record backend_ok {S : Type} (bk : backend S) : Prop := {
  init_some : forall b st s, bk_schema bk st = Some s -> bk_init bk b st = st;
  init_none : forall b st, bk_schema bk st = None -> bk_schema bk (bk_init bk b st) = Some (schema_of b);
  mut_schema : forall m b st, bk_schema bk (bk_mut bk m b st) = bk_schema bk st;
  commit_schema : forall b st, bk_schema bk (bk_commit bk b st) = bk_schema bk st
}.

Lemma field_eqb_eq a b : field_eqb a b = true <-> a = b.
Proof. destruct a, b; cbn; split; intros H; try reflexivity; try discriminate. Qed.
Lemma side_eqb_eq a b : side_eqb a b = true <-> a = b.
Proof. destruct a, b; cbn; split; intros H; try reflexivity; try discriminate. Qed.

(* ------------------------------------------------------------------ facts about [differs] *)
Lemma differs_self sd f b : differs sd f b (schema_of b) = false.
Proof.
  destruct f, sd; cbn; try (rewrite Nat.eqb_refl; reflexivity);
    try (destruct (b_cell b); reflexivity); try (destruct (b_time b); reflexivity).
Qed.

Lemma differs_both_split f b s : differs Both f b s = false ->
  differs Extra f b s = false /\ differs Missing f b s = false.
Proof.
  destruct f; cbn; [intros H; split; exact H | |];
    [destruct (b_cell b), (s_cell s) | destruct (b_time b), (s_time s)]; cbn; intros H; split; try reflexivity; discriminate.
Qed.

Lemma differs_both_join f b s : differs Extra f b s = false -> differs Missing f b s = false -> differs Both f b s = false.
Proof.
  destruct f; cbn; [intros H _; exact H | |];
    [destruct (b_cell b), (s_cell s) | destruct (b_time b), (s_time s)]; cbn; intros H1 H2; try reflexivity; discriminate.
Qed.

Lemma differs_missing_has f b s : f <> FAtoms -> b_has f b = true -> differs Missing f b s = false.
Proof. destruct f; cbn; intros Hf H; [contradiction | |]; rewrite H; reflexivity. Qed.

Lemma differs_to_both sd f b s : differs sd f b s = true -> differs Both f b s = true.
Proof.
  destruct f, sd; cbn; try (intros H; exact H);
    [destruct (b_cell b), (s_cell s) | destruct (b_cell b), (s_cell s)
    | destruct (b_time b), (s_time s) | destruct (b_time b), (s_time s)]; cbn; intros H; try reflexivity; discriminate.
Qed.

Lemma differs_atoms sd sd' b s : differs sd FAtoms b s = differs sd' FAtoms b s.
Proof. reflexivity. Qed.

Lemma differs_both_cases f b s : differs Both f b s = true -> differs Extra f b s = true \/ differs Missing f b s = true.
Proof.
  destruct f; cbn; [intros H; left; exact H | |];
    [destruct (b_cell b), (s_cell s) | destruct (b_time b), (s_time s)]; cbn; intros H; try discriminate; auto.
Qed.

Section Sound.
  Context {S : Type}.
  Variable bk : backend S.
  Hypothesis Hok : backend_ok bk.
  Variable b : batch.
  Variable st0 : S.

  (* ---------------------------------------------------------------- a write on a file that has schema s *)
  Section Later.
    Variable s : schema.

    Definition I (c : cst) (st : S) : Prop :=
      bk_schema bk st = Some s /\ inited c = true /\
      (dirty c = false -> st = st0) /\
      (forall f sd, In (f, sd) (vs c) -> differs sd f b s = false) /\
      (forall f, In f (rs c) -> b_has f b = true).

    Lemma mem_v_sound c st f sd : I c st -> mem_v c f sd = true -> differs sd f b s = false.
    Proof.
      intros [_ [_ [_ [Hv _]]]] H. unfold mem_v in H. apply existsb_exists in H. destruct H as [[f' sd'] [Hin He]].
      cbn in He. apply andb_true_iff in He. destruct He as [Hf Hs].
      apply field_eqb_eq in Hf. apply side_eqb_eq in Hs. subst. apply Hv, Hin.
    Qed.

    Lemma mem_r_sound c st f : I c st -> mem_r c f = true -> b_has f b = true.
    Proof.
      intros [_ [_ [_ [_ Hr]]]] H. unfold mem_r in H. apply existsb_exists in H. destruct H as [f' [Hin He]].
      apply field_eqb_eq in He. subst. apply Hr, Hin.
    Qed.

    Lemma validated_sound c st f sd : I c st -> validated c f sd = true -> differs sd f b s = false.
    Proof.
      intros HI H. destruct sd; cbn in H.
      - apply orb_true_iff in H. destruct H as [H|H]; [eapply mem_v_sound; eassumption|].
        apply andb_true_iff in H. destruct H as [H1 H2].
        apply differs_both_join; eapply mem_v_sound; eassumption.
      - apply orb_true_iff in H. destruct H as [H|H]; [|eapply mem_v_sound; eassumption].
        apply (differs_both_split f b s). eapply mem_v_sound; eassumption.
      - apply orb_true_iff in H. destruct H as [H|H].
        + apply orb_true_iff in H. destruct H as [H|H]; [|eapply mem_v_sound; eassumption].
          apply (differs_both_split f b s). eapply mem_v_sound; eassumption.
        + apply andb_true_iff in H. destruct H as [H1 H2].
          apply differs_missing_has; [|eapply mem_r_sound; eassumption].
          intros ->. discriminate.
    Qed.

    Lemma later_sound p : forall c c' st, acheck false p c = Some c' -> I c st ->
      match sem bk p b st with
      | (Refused, st') => st' = st0
      | (Ok, st') => I c' st'
      end.
    Proof.
      induction p as [| f sd | f | | m | | a IHa c1 IHc | a IHa c1 IHc]; intros c c' st Hc HI; cbn [acheck sem] in *.
      - inversion Hc; subst. exact HI.
      - destruct HI as [Hs [Hi [Hd [Hv Hr]]]]. rewrite Hs.
        destruct (dirty c && negb (validated c f sd)) eqn:Hg; [discriminate|]. inversion Hc; subst c'. clear Hc.
        destruct (differs sd f b s) eqn:Hdf.
        + apply andb_false_iff in Hg. destruct Hg as [Hg|Hg]; [apply Hd, Hg|].
          apply negb_false_iff in Hg.
          rewrite (validated_sound c st f sd (conj Hs (conj Hi (conj Hd (conj Hv Hr)))) Hg) in Hdf. discriminate.
        + repeat split; cbn; try assumption.
          intros f' sd' [Heq|Hin]; [inversion Heq; subst; exact Hdf | apply Hv, Hin].
      - destruct HI as [Hs [Hi [Hd [Hv Hr]]]].
        destruct (dirty c && negb (mem_r c f)) eqn:Hg; [discriminate|]. inversion Hc; subst c'. clear Hc.
        destruct (b_has f b) eqn:Hb.
        + repeat split; cbn; try assumption. intros f' [<-|Hin]; [exact Hb | apply Hr, Hin].
        + apply andb_false_iff in Hg. destruct Hg as [Hg|Hg]; [apply Hd, Hg|].
          apply negb_false_iff in Hg.
          rewrite (mem_r_sound c st f (conj Hs (conj Hi (conj Hd (conj Hv Hr)))) Hg) in Hb. discriminate.
      - destruct HI as [Hs [Hi [Hd [Hv Hr]]]]. rewrite Hi in Hc. inversion Hc; subst c'.
        rewrite (init_some bk Hok b st s Hs). repeat split; assumption.
      - inversion Hc; subst c'. destruct HI as [Hs [Hi [Hd [Hv Hr]]]].
        repeat split; cbn; try assumption; [rewrite (mut_schema bk Hok); exact Hs | discriminate].
      - inversion Hc; subst c'. destruct HI as [Hs [Hi [Hd [Hv Hr]]]].
        repeat split; cbn; try assumption; [rewrite (commit_schema bk Hok); exact Hs | discriminate].
      - pose proof HI as [Hs [Hi _]]. rewrite Hi in Hc. rewrite Hs. apply (IHc c c' st Hc HI).
      - destruct (acheck false a c) as [c1'|] eqn:Ha; [|discriminate].
        pose proof (IHa c c1' st Ha HI) as H1.
        destruct (sem bk a b st) as [[|] st1]; [|exact H1].
        apply (IHc c1' c' st1 Hc H1).
    Qed.
  End Later.

  (* ---------------------------------------------------------------- a write on a file without schema *)
  Definition J (c : cst) (st : S) : Prop :=
    (inited c = false -> bk_schema bk st = None) /\
    (inited c = true -> bk_schema bk st = Some (schema_of b)) /\
    (dirty c = false -> st = st0) /\
    (forall f, In f (rs c) -> b_has f b = true).

  Lemma first_sound p : forall c c' st, acheck true p c = Some c' -> J c st ->
    match sem bk p b st with
    | (Refused, st') => st' = st0
    | (Ok, st') => J c' st'
    end.
  Proof.
    induction p as [| f sd | f | | m | | a IHa c1 IHc | a IHa c1 IHc]; intros c c' st Hc HJ; cbn [acheck sem] in *.
    - inversion Hc; subst. exact HJ.
    - inversion Hc; subst c'. pose proof HJ as [Hn [Hs _]].
      destruct (inited c) eqn:Hi.
      + rewrite (Hs eq_refl), differs_self. exact HJ.
      + rewrite (Hn eq_refl). exact HJ.
    - destruct HJ as [Hn [Hs [Hd Hr]]].
      destruct (dirty c && negb (mem_r c f)) eqn:Hg; [discriminate|]. inversion Hc; subst c'. clear Hc.
      destruct (b_has f b) eqn:Hb.
      + repeat split; cbn; try assumption. intros f' [<-|Hin]; [exact Hb | apply Hr, Hin].
      + apply andb_false_iff in Hg. destruct Hg as [Hg|Hg]; [apply Hd, Hg|].
        apply negb_false_iff in Hg. unfold mem_r in Hg. apply existsb_exists in Hg. destruct Hg as [f' [Hin He]].
        apply field_eqb_eq in He. subst f'. rewrite (Hr f Hin) in Hb. discriminate.
    - pose proof HJ as [Hn [Hs [Hd Hr]]]. destruct (inited c) eqn:Hi; inversion Hc; subst c'.
      + rewrite (init_some bk Hok b st _ (Hs eq_refl)). exact HJ.
      + repeat split; cbn; try assumption; try discriminate.
        intros _. apply (init_none bk Hok), Hn. reflexivity.
    - inversion Hc; subst c'. destruct HJ as [Hn [Hs [Hd Hr]]].
      repeat split; cbn; try assumption; try discriminate; rewrite (mut_schema bk Hok); assumption.
    - inversion Hc; subst c'. destruct HJ as [Hn [Hs [Hd Hr]]].
      repeat split; cbn; try assumption; try discriminate; rewrite (commit_schema bk Hok); assumption.
    - pose proof HJ as [Hn [Hs _]]. destruct (inited c) eqn:Hi.
      + rewrite (Hs eq_refl). apply (IHc c c' st Hc HJ).
      + rewrite (Hn eq_refl). apply (IHa c c' st Hc HJ).
    - destruct (acheck true a c) as [c1'|] eqn:Ha; [|discriminate].
      pose proof (IHa c c1' st Ha HJ) as H1.
      destruct (sem bk a b st) as [[|] st1]; [|exact H1].
      apply (IHc c1' c' st1 Hc H1).
  Qed.
End Sound.

(* A program accepted by [check_vbm] refuses atomically: whatever the call and the state of the file, a
   refused write returns the state it was given *)
Theorem vbm_refused_atomic {S : Type} (bk : backend S) (p : wprog) :
  backend_ok bk -> check_vbm p = true ->
  forall b st, fst (sem bk p b st) = Refused -> snd (sem bk p b st) = st.
Proof.
  intros Hok Hc b st Hr. unfold check_vbm in Hc. apply andb_true_iff in Hc. destruct Hc as [H1 H2].
  destruct (bk_schema bk st) as [s|] eqn:Hs.
  - destruct (acheck false p (c0 true)) as [c'|] eqn:Ha; [|discriminate].
    pose proof (later_sound bk Hok b st s p (c0 true) c' st Ha) as H.
    assert (HI : I bk b st s (c0 true) st)
      by (unfold I; cbn; repeat split; try assumption; try reflexivity; intros; try reflexivity; try contradiction).
    specialize (H HI). destruct (sem bk p b st) as [[|] st']; cbn in *; [discriminate | exact H].
  - destruct (acheck true p (c0 false)) as [c'|] eqn:Ha; [|discriminate].
    pose proof (first_sound bk Hok b st p (c0 false) c' st Ha) as H.
    assert (HJ : J bk b st (c0 false) st)
      by (unfold J; cbn; repeat split; try assumption; try reflexivity; try discriminate; intros; try reflexivity; try contradiction; try discriminate; try assumption).
    specialize (H HJ). destruct (sem bk p b st) as [[|] st']; cbn in *; [discriminate | exact H].
Qed.

(* ------------------------------------------------------------------ completeness of the schema test *)
Lemma sem_schema_preserved {S : Type} (bk : backend S) (Hok : backend_ok bk) b s p : forall st st',
  bk_schema bk st = Some s -> sem bk p b st = (Ok, st') -> bk_schema bk st' = Some s.
Proof.
  induction p as [| f sd | f | | m | | a IHa c1 IHc | a IHa c1 IHc]; intros st st' Hs H; cbn [sem] in H.
  - inversion H; subst; exact Hs.
  - rewrite Hs in H. destruct (differs sd f b s); inversion H; subst; exact Hs.
  - destruct (b_has f b); inversion H; subst; exact Hs.
  - inversion H; subst. rewrite (init_some bk Hok b st s Hs). exact Hs.
  - inversion H; subst. rewrite (mut_schema bk Hok). exact Hs.
  - inversion H; subst. rewrite (commit_schema bk Hok). exact Hs.
  - rewrite Hs in H. eapply IHc; eassumption.
  - destruct (sem bk a b st) as [[|] st1] eqn:Ha; [|discriminate].
    eapply IHc; [eapply IHa; eassumption | exact H].
Qed.

Lemma cov_refuses {S : Type} (bk : backend S) (Hok : backend_ok bk) b s sd f p : forall st,
  cov sd f p = true -> bk_schema bk st = Some s -> differs sd f b s = true ->
  (requires f p = true -> sd <> Missing -> s_has f s = true) ->
  fst (sem bk p b st) = Refused.
Proof.
  induction p as [| f' sd' | f' | | m | | a IHa c1 IHc | a IHa c1 IHc]; intros st Hc Hs Hd Hreq; cbn [cov sem requires] in *;
    try discriminate.
  - rewrite Hs. apply andb_true_iff in Hc. destruct Hc as [Hf Hc]. apply field_eqb_eq in Hf. subst f'.
    assert (Hd' : differs sd' f b s = true).
    { apply orb_true_iff in Hc. destruct Hc as [Hc|Hc].
      - apply orb_true_iff in Hc. destruct Hc as [Hc|Hc]; apply side_eqb_eq in Hc; subst sd'.
        + eapply differs_to_both, Hd.
        + exact Hd.
      - apply field_eqb_eq in Hc. subst f. rewrite (differs_atoms sd' sd). exact Hd. }
    rewrite Hd'. reflexivity.
  - apply andb_true_iff in Hc. destruct Hc as [Hf Hna]. apply field_eqb_eq in Hf. subst f'.
    apply negb_true_iff in Hna.
    assert (Hne : f <> FAtoms) by (intros ->; discriminate).
    assert (Hb : b_has f b = false).
    { destruct sd.
      - assert (Hsh : s_has f s = true) by (apply Hreq; [rewrite (proj2 (field_eqb_eq f f) eq_refl); reflexivity | discriminate]).
        destruct f; cbn in *; try contradiction; rewrite Hsh in Hd;
          [destruct (b_cell b) | destruct (b_time b)]; cbn in Hd; try reflexivity; discriminate.
      - assert (Hsh : s_has f s = true) by (apply Hreq; [rewrite (proj2 (field_eqb_eq f f) eq_refl); reflexivity | discriminate]).
        destruct f; cbn in *; try contradiction; rewrite Hsh, andb_false_r in Hd; discriminate.
      - destruct f; cbn in *; try contradiction;
          [destruct (b_cell b) | destruct (b_time b)]; cbn in Hd; try reflexivity; discriminate. }
    rewrite Hb. reflexivity.
  - rewrite Hs. apply IHc; try assumption. intros Hr. apply Hreq. rewrite Hr. apply orb_true_r.
  - destruct (sem bk a b st) as [[|] st1] eqn:Ha; [|reflexivity].
    destruct (cov sd f a) eqn:Hca.
    + assert (Hx : fst (sem bk a b st) = Refused).
      { apply IHa; try assumption. intros Hr. apply Hreq. rewrite Hr. reflexivity. }
      rewrite Ha in Hx. discriminate.
    + cbn in Hc. apply IHc; try assumption.
      * eapply sem_schema_preserved; eassumption.
      * intros Hr. apply Hreq. rewrite Hr. apply orb_true_r.
Qed.

(* A program accepted by [check_complete api] refuses every call that differs from the file's schema in a
   field of the format's API.  (A field the program REQUIRES is assumed present in the file's schema: every
   accepted write had it.) *)
Theorem complete_ragged_refused {S : Type} (bk : backend S) (api : list field) (p : wprog) :
  backend_ok bk -> check_complete api p = true ->
  forall b st s f, In f api -> bk_schema bk st = Some s -> differs Both f b s = true ->
    (requires f p = true -> s_has f s = true) ->
    fst (sem bk p b st) = Refused.
Proof.
  intros Hok Hc b st s f Hin Hs Hd Hreq. unfold check_complete in Hc. rewrite forallb_forall in Hc.
  specialize (Hc f Hin). apply andb_true_iff in Hc. destruct Hc as [He Hm].
  destruct (differs_both_cases f b s Hd) as [Hx|Hx].
  - eapply (cov_refuses bk Hok b s Extra f p st He Hs Hx). intros Hr _. apply Hreq, Hr.
  - eapply (cov_refuses bk Hok b s Missing f p st Hm Hs Hx). intros _ Hne. exfalso. apply Hne. reflexivity.
Qed.

(* ------------------------------------------------------------------ the three backends are lawful *)
Lemma stream_bk_ok lay : backend_ok (stream_bk lay).
Proof.
  constructor; cbn.
  - intros b st s H. rewrite H. reflexivity.
  - intros b st H. rewrite H. reflexivity.
  - intros m b st. destruct m; reflexivity.
  - reflexivity.
Qed.

Lemma h5_bk_ok : backend_ok h5_bk.
Proof.
  constructor; cbn.
  - intros b st s H. rewrite H. reflexivity.
  - intros b st H. rewrite H. reflexivity.
  - intros m b st. destruct m; reflexivity.
  - reflexivity.
Qed.

Lemma nc_bk_ok : backend_ok nc_bk.
Proof.
  constructor; cbn.
  - intros b st s H. rewrite H. reflexivity.
  - intros b st H. rewrite H. reflexivity.
  - intros m b st. destruct m; try reflexivity; [destruct (b_time b) | destruct (b_cell b)]; reflexivity.
  - reflexivity.
Qed.
