(* C19 — the reflection theorems and the model-equality lemmas instantiated at the write() programs
   regenerated from /repo (Gen/WriterPrograms.v, Gen/WriterProgramsChecks.v). *)
From Coq Require Import List String Bool Arith.
Import ListNotations.
Require Import MD.Writer.Model MD.Writer.Proofs MD.Writer.Dsl MD.Writer.Reflect MD.Writer.SemEq
               MD.Writer.WriterReference MD.Gen.WriterPrograms MD.Gen.WriterProgramsChecks.

(* every write() of mdtraj, on every lawful storage backend: a refused write returns the state it was given *)
Lemma mdtraj_writers_refuse_atomically : forall n p api, In (n, p, api) writers ->
  forall (S : Type) (bk : backend S), backend_ok bk ->
  forall b st, fst (sem bk p b st) = Refused -> snd (sem bk p b st) = st.
Proof.
  intros n p api Hin S bk Hok. apply vbm_refused_atomic; [exact Hok|].
  pose proof all_vbm as H. rewrite forallb_forall in H. apply (H (n, p, api) Hin).
Qed.

(* the programs are the models the theorems of Props/C19.v speak about *)
Lemma h5_program_is_model : forall h, run (sem h5_bk h5_write) h h5init = run h5_fix h h5init.
Proof. intros h. apply sem_run_ext. exact sem_h5. Qed.

Lemma nc_program_is_model : forall h, run (sem nc_bk nc_write) h ncinit = run nc_fix h ncinit.
Proof. intros h. apply (nc_sem_run nc_write sem_nc). cbn. apply Nat.le_refl. Qed.

Definition stream_model (lay : policy) (T : wprog) : Prop := forall h,
  fst (run (sem (stream_bk lay) T) h sinit) = fst (run (swrite (pol_of lay T)) h sinit) /\
  sload (snd (run (sem (stream_bk lay) T) h sinit)) = sload (snd (run (swrite (pol_of lay T)) h sinit)).

Lemma stream_model_of_sim lay T : stream_sim lay T -> stream_model lay T.
Proof. intros H h. apply (stream_sim_run lay T H h sinit sinit); reflexivity. Qed.

Lemma stream_programs_are_models :
  stream_model pol_xdr xtc_write /\ stream_model pol_xdr trr_write /\ stream_model pol_dcd dcd_write /\
  stream_model pol_mdcrd mdcrd_write /\ stream_model pol_xyz xyz_write /\ stream_model pol_lammpstrj lammpstrj_write /\
  stream_model pol_gro gro_write /\ stream_model pol_pdb pdb_write /\ stream_model pol_dtr dtr_write.
Proof.
  pose proof (stream_model_of_sim _ _ sem_xtc). pose proof (stream_model_of_sim _ _ sem_trr).
  pose proof (stream_model_of_sim _ _ sem_dcd). pose proof (stream_model_of_sim _ _ sem_mdcrd).
  pose proof (stream_model_of_sim _ _ sem_xyz). pose proof (stream_model_of_sim _ _ sem_lammpstrj).
  pose proof (stream_model_of_sim _ _ sem_gro). pose proof (stream_model_of_sim _ _ sem_pdb).
  pose proof (stream_model_of_sim _ _ sem_dtr). tauto.
Qed.

(* the verdict of the checkers on the write() methods as they were before the fix: commits *)
Lemma asfound_verdicts :
  check_vbm h5_write_asfound = false /\ check_vbm nc_write_asfound = false /\
  check_complete [FAtoms; FCell] mdcrd_write_asfound = false /\
  check_vbm WriterReference.h5_write = true /\ check_vbm WriterReference.nc_write = true /\
  check_complete [FAtoms; FCell] WriterReference.mdcrd_write = true.
Proof. vm_compute. repeat split. Qed.

(* moving a mutation in front of a validation is rejected; so is a program that forgets to record the schema *)
Definition reordered : wprog := Seq (IfFirst Init Skip) (Seq (Mutate MCoords) (Seq (Check FTime Both) Commit)).
Lemma checker_rejects_reordered : check_vbm reordered = false /\
  exists b st, fst (sem h5_bk reordered b st) = Refused /\ snd (sem h5_bk reordered b st) <> st.
Proof.
  split; [reflexivity|].
  exists {| b_ids := [12]; b_atoms := 4; b_cell := true; b_time := false |},
         {| h_schema := Some {| s_atoms := 4; s_cell := true; s_time := true |}; h_coords := [(10, 4)];
            h_time := [TVal 10]; h_cell := [CVal 10] |}.
  vm_compute. split; [reflexivity | discriminate].
Qed.

(* ------------------------------------------------------------------ partition independence of the write() PROGRAMS
   The theorems of Proofs.v speak about the models; the lemmas sem_<fmt> (re-proved on every run) say the programs
   translated from today's source mean those models.  Composed: for every ordered partition of the frames into
   write calls, the program regenerated from /repo leaves the file md.load reads as the one-shot write. *)
Lemma h5_program_partition : forall s parts,
  h5_load (snd (run (sem h5_bk h5_write) (map (mk_batch s) parts) h5init)) =
  h5_load (snd (run (sem h5_bk h5_write) [mk_batch s (List.concat parts)] h5init)).
Proof. intros s parts. rewrite !h5_program_is_model. apply h5_fix_partition. Qed.

Lemma nc_program_partition : forall s parts,
  nc_load (snd (run (sem nc_bk nc_write) (map (mk_batch s) parts) ncinit)) =
  nc_load (snd (run (sem nc_bk nc_write) [mk_batch s (List.concat parts)] ncinit)).
Proof. intros s parts. rewrite !nc_program_is_model. apply nc_fix_partition. Qed.

Lemma h5_program_history : forall h,
  h5_load (snd (run (sem h5_bk h5_write) h h5init)) = expected_load h /\
  fst (run (sem h5_bk h5_write) h h5init) = full_codes None h.
Proof. intros h. rewrite h5_program_is_model. apply h5_fix_history. Qed.

Lemma nc_program_history : forall h,
  nc_load (snd (run (sem nc_bk nc_write) h ncinit)) = expected_load h /\
  fst (run (sem nc_bk nc_write) h ncinit) = full_codes None h.
Proof. intros h. rewrite nc_program_is_model. apply nc_fix_history. Qed.

Lemma run_single {S : Type} (f : batch -> S -> res * S) b st : snd (run f [b] st) = snd (f b st).
Proof. cbn [run]. destruct (f b st) as [r st']. reflexivity. Qed.

Definition stream_partition_ok (lay : policy) (T : wprog) : Prop := forall s parts,
  time_index_default lay = false \/ s_time s = true \/ store_time lay = false ->
  sload (snd (run (sem (stream_bk lay) T) (map (mk_batch s) parts) sinit)) =
  sload (snd (run (sem (stream_bk lay) T) [mk_batch s (List.concat parts)] sinit)).

Lemma stream_program_partition lay T : stream_model lay T -> stream_partition_ok lay T.
Proof.
  intros Hm s parts Hc.
  destruct (Hm (map (mk_batch s) parts)) as [_ H1]. destruct (Hm [mk_batch s (List.concat parts)]) as [_ H2].
  rewrite H1, H2, run_single.
  apply (stream_partition_independent (pol_of lay T) s parts sinit). exact Hc.
Qed.

Lemma stream_programs_partition :
  stream_partition_ok pol_xdr xtc_write /\ stream_partition_ok pol_xdr trr_write /\
  stream_partition_ok pol_dcd dcd_write /\ stream_partition_ok pol_mdcrd mdcrd_write /\
  stream_partition_ok pol_xyz xyz_write /\ stream_partition_ok pol_lammpstrj lammpstrj_write /\
  stream_partition_ok pol_gro gro_write /\ stream_partition_ok pol_pdb pdb_write /\
  stream_partition_ok pol_dtr dtr_write.
Proof.
  destruct stream_programs_are_models as [H1 [H2 [H3 [H4 [H5 [H6 [H7 [H8 H9]]]]]]]].
  repeat split; apply stream_program_partition; assumption.
Qed.

(* the DCD header count as dcdplugin.c:write_dcdstep maintains it today (the refresh interval is re-read from the C
   source on every run): whatever the reader does with the count, every frame of a completed write is loaded *)
Lemma dcd_header_durable : forall trust ops, hload trust (hrun dcd_header_every ops) = written ops.
Proof. rewrite dcd_header_every_frame. exact header_count_durable. Qed.
