(* C19 — incremental writing equals one-shot writing and survives a crash.

   Executable definitions only (no proofs in this file).

   A write call hands the file object a [batch]: k frames (identified by natural numbers; the harness writes
   frame i with xyz[i,0,0] = i, time i and a cubic cell of length i+2, so a frame read back IS its
   identifier), all with the same atom count, with or without cell and time information.

   Three writer families are modelled the way the code works:

   * [swrite pol]  append-only writers (xtc, trr, dcd, mdcrd, xyz, lammpstrj, gro, pdb models, dtr): the
     first accepted write fixes the schema; the format's [policy] says which parts of the schema later
     writes are validated against, which fields are required, what is stored when time is not supplied.
     In all of them validation precedes the first byte written.
   * [h5_cur]  HDF5TrajectoryFile.write as found: one extendable array per field; the fields are appended
     in the order coordinates, time, cell and the schema test of a field happens when its turn comes, so a
     refused write has already appended the earlier fields.  [h5_fix] validates first.
   * [nc_cur]  NetCDFTrajectoryFile.write as found: record variables sharing one unlimited dimension; the
     coordinates are deposited at [frame_index, frame_index+n) before anything is validated, the missing
     fields hold fill values, frame_index only advances on success (so the next accepted write overwrites
     the debris, and a close straight after a refusal leaves it in the file).  [nc_fix] validates first.

   [load] is what md.load makes of the file: None when the file is unreadable / garbled, else one
   observation row per frame. The durability automaton is at the end. *)
From Coq Require Import List Bool Arith.
Import ListNotations.

Record batch := { b_ids : list nat; b_atoms : nat; b_cell : bool; b_time : bool }.
Record schema := { s_atoms : nat; s_cell : bool; s_time : bool }.
Definition schema_of (b : batch) : schema :=
  {| s_atoms := b_atoms b; s_cell := b_cell b; s_time := b_time b |}.
Definition schema_eqb (a b : schema) : bool :=
  Nat.eqb (s_atoms a) (s_atoms b) && Bool.eqb (s_cell a) (s_cell b) && Bool.eqb (s_time a) (s_time b).

Inductive res := Ok | Refused.

(* what the file holds for one frame *)
Inductive tslot := TVal (n : nat)    (* a time supplied by a caller (the harness supplies the frame id) *)
                 | TIndex (k : nat)  (* xtc/trr: the index of the frame within its write call *)
                 | TFill             (* netCDF fill value *)
                 | TAbsent.          (* nothing stored *)
Inductive cslot := CVal (n : nat) (* a cell supplied by a caller *) | CFill | CZero (* gro: a zero box *) | CAbsent.
Record row := { r_id : nat; r_atoms : nat; r_t : tslot; r_c : cslot }.

(* ------------------------------------------------------------------ what md.load returns *)
Inductive ob := OVal (n : nat) | OBad | ONone.
Definition orow := (nat * ob * ob)%type.      (* frame id, time, cell *)

Definition t_present (t : tslot) := match t with TAbsent => false | _ => true end.
Definition c_present (c : cslot) := match c with CVal _ | CFill => true | _ => false end.

Definition uniform_atoms (rs : list row) : bool :=
  match rs with
  | [] => true
  | r :: _ => forallb (fun x => Nat.eqb (r_atoms x) (r_atoms r)) rs
  end.

Fixpoint obs_from (i : nat) (tp cp : bool) (rs : list row) : list orow :=
  match rs with
  | [] => []
  | r :: rs' =>
      (r_id r,
       if tp then match r_t r with TVal n => OVal n | TIndex k => OVal k | _ => OBad end
       else OVal i,                                  (* no time in the file: the loader numbers the frames *)
       if cp then match r_c r with CVal n => OVal n | _ => OBad end else ONone)
      :: obs_from (S i) tp cp rs'
  end.

(* time is reported from the file when every frame has one; a cell when some frame has a non-zero one *)
Definition load_rows (rs : list row) : option (list orow) :=
  if uniform_atoms rs
  then Some (obs_from 0 (forallb (fun r => t_present (r_t r)) rs && negb (Nat.eqb (length rs) 0))
                        (existsb (fun r => c_present (r_c r)) rs) rs)
  else None.

(* ------------------------------------------------------------------ append-only writers *)
Record policy := {
  chk_atoms : bool; chk_cell : bool; chk_time : bool;   (* later writes validated against the first one's schema *)
  req_cell : bool; req_time : bool;                     (* the write call insists on the field *)
  store_time : bool; store_cell : bool;                 (* the format has a place for it *)
  time_index_default : bool;                            (* xtc/trr: time=None stores arange(n_frames) of THIS call *)
  zero_box : bool                                       (* gro: a frame without cell gets a box line of zeros *)
}.

Record sfile := { sf_schema : option schema; sf_rows : list row }.
Definition sinit : sfile := {| sf_schema := None; sf_rows := [] |}.

Definition srefuses (pol : policy) (st : sfile) (b : batch) : bool :=
  (req_cell pol && negb (b_cell b)) || (req_time pol && negb (b_time b)) ||
  match sf_schema st with
  | None => false
  | Some s => (chk_atoms pol && negb (Nat.eqb (b_atoms b) (s_atoms s)))
              || (chk_cell pol && negb (Bool.eqb (b_cell b) (s_cell s)))
              || (chk_time pol && negb (Bool.eqb (b_time b) (s_time s)))
  end.

Fixpoint rows_of (pol : policy) (b : batch) (k : nat) (ids : list nat) : list row :=
  match ids with
  | [] => []
  | i :: ids' =>
      {| r_id := i; r_atoms := b_atoms b;
         r_t := if store_time pol
                then (if b_time b then TVal i else if time_index_default pol then TIndex k else TAbsent)
                else TAbsent;
         r_c := if store_cell pol then (if b_cell b then CVal i else if zero_box pol then CZero else CAbsent) else CAbsent |}
      :: rows_of pol b (S k) ids'
  end.

Definition swrite (pol : policy) (b : batch) (st : sfile) : res * sfile :=
  if srefuses pol st b then (Refused, st)
  else (Ok, {| sf_schema := match sf_schema st with None => Some (schema_of b) | s => s end;
               sf_rows := sf_rows st ++ rows_of pol b 0 (b_ids b) |}).

Definition sload (st : sfile) : option (list orow) := load_rows (sf_rows st).

Definition full_policy : policy :=
  {| chk_atoms := true; chk_cell := true; chk_time := true; req_cell := false; req_time := false;
     store_time := true; store_cell := true; time_index_default := false; zero_box := false |}.

(* the policies of the formats, as found (cell of .pdb is out of scope: one CRYST1 record per file, see C01) *)
Definition pol_xdr : policy :=       (* xtc, trr *)
  {| chk_atoms := true; chk_cell := true; chk_time := false; req_cell := false; req_time := false;
     store_time := true; store_cell := true; time_index_default := true; zero_box := false |}.
Definition pol_dcd : policy :=
  {| chk_atoms := true; chk_cell := true; chk_time := false; req_cell := false; req_time := false;
     store_time := false; store_cell := true; time_index_default := false; zero_box := false |}.
Definition pol_mdcrd : policy :=
  {| chk_atoms := false; chk_cell := true; chk_time := false; req_cell := false; req_time := false;
     store_time := false; store_cell := true; time_index_default := false; zero_box := false |}.
Definition pol_xyz : policy :=
  {| chk_atoms := false; chk_cell := false; chk_time := false; req_cell := false; req_time := false;
     store_time := false; store_cell := false; time_index_default := false; zero_box := false |}.
Definition pol_lammpstrj : policy :=
  {| chk_atoms := false; chk_cell := false; chk_time := false; req_cell := true; req_time := false;
     store_time := false; store_cell := true; time_index_default := false; zero_box := false |}.
Definition pol_gro : policy :=
  {| chk_atoms := false; chk_cell := false; chk_time := false; req_cell := false; req_time := false;
     store_time := true; store_cell := true; time_index_default := false; zero_box := true |}.
(* mdcrd with the proposed repair (fixes/C19-mdcrd-atom-count.diff): the atom count is validated *)
Definition pol_mdcrd_fix : policy :=
  {| chk_atoms := true; chk_cell := true; chk_time := false; req_cell := false; req_time := false;
     store_time := false; store_cell := true; time_index_default := false; zero_box := false |}.
Definition pol_pdb : policy := pol_xyz.
Definition pol_dtr : policy :=
  {| chk_atoms := true; chk_cell := false; chk_time := false; req_cell := true; req_time := true;
     store_time := true; store_cell := true; time_index_default := false; zero_box := false |}.

(* ------------------------------------------------------------------ HDF5: one extendable array per field *)
Record h5file := { h_schema : option schema;
                   h_coords : list (nat * nat);      (* (frame id, atoms) *)
                   h_time : list tslot; h_cell : list cslot }.
Definition h5init : h5file := {| h_schema := None; h_coords := []; h_time := []; h_cell := [] |}.

Definition h5_schema (st : h5file) (b : batch) : schema :=
  match h_schema st with Some s => s | None => schema_of b end.

(* hdf5.py:write — fields in the order coordinates, time, cell; a field's test happens at its turn *)
Definition h5_cur (b : batch) (st : h5file) : res * h5file :=
  let s := h5_schema st b in
  let st0 := {| h_schema := Some s; h_coords := h_coords st; h_time := h_time st; h_cell := h_cell st |} in
  if negb (Nat.eqb (b_atoms b) (s_atoms s)) then (Refused, st0)       (* EArray.append checks the shape first *)
  else
    let st1 := {| h_schema := Some s; h_coords := h_coords st ++ map (fun i => (i, b_atoms b)) (b_ids b);
                  h_time := h_time st; h_cell := h_cell st |} in
    if negb (Bool.eqb (b_time b) (s_time s)) then (Refused, st1)
    else
      let st2 := {| h_schema := Some s; h_coords := h_coords st1;
                    h_time := if b_time b then h_time st ++ map TVal (b_ids b) else h_time st;
                    h_cell := h_cell st |} in
      if negb (Bool.eqb (b_cell b) (s_cell s)) then (Refused, st2)
      else (Ok, {| h_schema := Some s; h_coords := h_coords st2; h_time := h_time st2;
                   h_cell := if b_cell b then h_cell st ++ map CVal (b_ids b) else h_cell st |}).

Definition h5_refuses (st : h5file) (b : batch) : bool :=
  match h_schema st with
  | None => false
  | Some s => negb (schema_eqb (schema_of b) s)
  end.

(* the repair: the same code behind a validation of the whole schema *)
Definition h5_fix (b : batch) (st : h5file) : res * h5file :=
  if h5_refuses st b then (Refused, st) else h5_cur b st.

Fixpoint zip3 (cs : list (nat * nat)) (ts : list tslot) (cl : list cslot) : list row :=
  match cs with
  | [] => []
  | (i, a) :: cs' =>
      {| r_id := i; r_atoms := a;
         r_t := match ts with t :: _ => t | [] => TAbsent end;
         r_c := match cl with c :: _ => c | [] => CAbsent end |}
      :: zip3 cs' (tl ts) (tl cl)
  end.

(* Trajectory construction fails when the arrays have different lengths *)
Definition h5_load (st : h5file) : option (list orow) :=
  let n := length (h_coords st) in
  let s_t := match h_schema st with Some s => s_time s | None => false end in
  let s_c := match h_schema st with Some s => s_cell s | None => false end in
  if (negb s_t || Nat.eqb (length (h_time st)) n) && (negb s_c || Nat.eqb (length (h_cell st)) n)
  then load_rows (zip3 (h_coords st) (h_time st) (h_cell st))
  else None.

(* ------------------------------------------------------------------ NetCDF: records at frame_index *)
Record ncfile := { n_schema : option schema; n_rows : list row; n_fi : nat }.
Definition ncinit : ncfile := {| n_schema := None; n_rows := []; n_fi := 0 |}.

(* variables[...][fi:fi+n] = ... : existing records are overwritten field-wise, new ones are created with
   fill values in the fields that are variables of the file *)
Fixpoint overwrite (rs : list row) (ids : list nat) (atoms : nat) (s : schema) (set_t set_c : bool) : list row :=
  match ids with
  | [] => rs
  | i :: ids' =>
      let old_t := match rs with r :: _ => r_t r | [] => if s_time s then TFill else TAbsent end in
      let old_c := match rs with r :: _ => r_c r | [] => if s_cell s then CFill else CAbsent end in
      {| r_id := i; r_atoms := atoms;
         r_t := if set_t then TVal i else old_t;
         r_c := if set_c then CVal i else old_c |}
      :: overwrite (tl rs) ids' atoms s set_t set_c
  end.
Definition deposit (rs : list row) (pos : nat) (ids : list nat) (atoms : nat) (s : schema)
                   (set_t set_c : bool) : list row :=
  firstn pos rs ++ overwrite (skipn pos rs) ids atoms s set_t set_c.

Definition nc_schema (st : ncfile) (b : batch) : schema :=
  match n_schema st with Some s => s | None => schema_of b end.

(* netcdf.py:write — coordinates first, then the supplied fields (KeyError when the file has no such
   variable), then the test for fields that were not supplied; frame_index advances only at the end *)
Definition nc_cur (b : batch) (st : ncfile) : res * ncfile :=
  let s := nc_schema st b in
  if negb (Nat.eqb (b_atoms b) (s_atoms s))
  then (Refused, {| n_schema := Some s; n_rows := n_rows st; n_fi := n_fi st |})
  else
    let dep set_t set_c := {| n_schema := Some s;
                              n_rows := deposit (n_rows st) (n_fi st) (b_ids b) (b_atoms b) s set_t set_c;
                              n_fi := n_fi st |} in
    if b_time b && negb (s_time s) then (Refused, dep false false)
    else if b_cell b && negb (s_cell s) then (Refused, dep (b_time b) false)
    else if negb (b_time b) && s_time s then (Refused, dep false (b_cell b))
    else if negb (b_cell b) && s_cell s then (Refused, dep (b_time b) false)
    else (Ok, {| n_schema := Some s;
                 n_rows := deposit (n_rows st) (n_fi st) (b_ids b) (b_atoms b) s (b_time b) (b_cell b);
                 n_fi := n_fi st + length (b_ids b) |}).

Definition nc_refuses (st : ncfile) (b : batch) : bool :=
  match n_schema st with
  | None => false
  | Some s => negb (schema_eqb (schema_of b) s)
  end.

Definition nc_fix (b : batch) (st : ncfile) : res * ncfile :=
  if nc_refuses st b then (Refused, st) else nc_cur b st.

Definition nc_load (st : ncfile) : option (list orow) := load_rows (n_rows st).

(* ------------------------------------------------------------------ histories *)
Section Run.
  Context {S : Type}.
  Variable step : batch -> S -> res * S.
  Fixpoint run (h : list batch) (st : S) : list res * S :=
    match h with
    | [] => ([], st)
    | b :: h' => let '(r, st') := step b st in
                 let '(rs, st'') := run h' st' in (r :: rs, st'')
    end.
End Run.

(* the frames a history is expected to leave behind: the first batch fixes the schema, batches with the
   same schema are accepted *)
Fixpoint accepted (sch : option schema) (h : list batch) : list batch :=
  match h with
  | [] => []
  | b :: h' =>
      match sch with
      | None => b :: accepted (Some (schema_of b)) h'
      | Some s => if schema_eqb (schema_of b) s then b :: accepted sch h' else accepted sch h'
      end
  end.

Definition mk_batch (s : schema) (ids : list nat) : batch :=
  {| b_ids := ids; b_atoms := s_atoms s; b_cell := s_cell s; b_time := s_time s |}.

(* ------------------------------------------------------------------ durability automaton
   The file is a sequence of frames of which a prefix is on disk ([durable]); frames written since the last
   flush sit in a library / stdio buffer.  [auto] = the writer flushes at the end of every write (HDF5) or
   writes through (DCD: unbuffered fio + header rewrite per time step).  A crash keeps the durable frames
   and an arbitrary prefix of the buffered ones (the operating system may have written part of the
   buffer): [crash_images] lists every possibility.  A file opened in append mode starts from the frames an
   earlier handle wrote and closed: the harness prefixes such a history with [DWrite pre; DClose], so the same
   automaton (and flush_durable) says that the old frames and every appended+flushed frame survive. *)
Inductive dop := DWrite (ids : list nat) | DFlush | DClose.
Record dstate := { durable : list nat; buffered : list nat }.
Definition dinit : dstate := {| durable := []; buffered := [] |}.

Definition dstep (auto : bool) (o : dop) (s : dstate) : dstate :=
  match o with
  | DWrite ids => if auto then {| durable := durable s ++ buffered s ++ ids; buffered := [] |}
                  else {| durable := durable s; buffered := buffered s ++ ids |}
  | DFlush | DClose => {| durable := durable s ++ buffered s; buffered := [] |}
  end.

Definition drun_from (auto : bool) (ops : list dop) (s : dstate) : dstate := fold_left (fun s o => dstep auto o s) ops s.
Definition drun (auto : bool) (ops : list dop) : dstate := drun_from auto ops dinit.

Fixpoint prefixes (l : list nat) : list (list nat) :=
  match l with
  | [] => [[]]
  | x :: l' => [] :: map (cons x) (prefixes l')
  end.
Definition crash_images (s : dstate) : list (list nat) := map (fun p => durable s ++ p) (prefixes (buffered s)).

(* frames of all writes of a history / of the writes up to and including the last flush or close *)
Fixpoint written (ops : list dop) : list nat :=
  match ops with
  | [] => []
  | DWrite ids :: ops' => ids ++ written ops'
  | _ :: ops' => written ops'
  end.

(* ------------------------------------------------------------------ evaluation for the correspondence *)
Definition res_eqb (a b : res) : bool := match a, b with Ok, Ok | Refused, Refused => true | _, _ => false end.
Definition ob_eqb (a b : ob) : bool :=
  match a, b with OVal x, OVal y => Nat.eqb x y | OBad, OBad | ONone, ONone => true | _, _ => false end.
Definition orow_eqb (a b : orow) : bool :=
  let '(i, t, c) := a in let '(j, u, d) := b in Nat.eqb i j && ob_eqb t u && ob_eqb c d.
Fixpoint list_eqb {A} (eqb : A -> A -> bool) (a b : list A) : bool :=
  match a, b with
  | [], [] => true
  | x :: a', y :: b' => eqb x y && list_eqb eqb a' b'
  | _, _ => false
  end.
Definition obs_eqb (a b : option (list orow)) : bool :=
  match a, b with
  | None, None => true
  | Some x, Some y => list_eqb orow_eqb x y
  | _, _ => false
  end.

(* variant numbers used by the harness *)
Definition policy_of (v : nat) : policy :=
  match v with
  | 0 => pol_xdr | 1 => pol_dcd | 2 => pol_mdcrd | 3 => pol_xyz | 4 => pol_lammpstrj | 5 => pol_gro
  | 6 => pol_pdb | 7 => pol_dtr | 9 => pol_mdcrd_fix | _ => full_policy
  end.

(* variants: 0..8 stream policies (8 = full), 10 = h5_cur, 11 = h5_fix, 12 = nc_cur, 13 = nc_fix.
   [pre] (h5 append mode): frames already in the file, written with cell and time and 4 atoms. *)
Definition run_case (c : nat * list nat * list batch) : list res * option (list orow) :=
  let '(v, pre, h) := c in
  let preb := {| b_ids := pre; b_atoms := 4; b_cell := true; b_time := true |} in
  let h' := match pre with [] => h | _ => preb :: h end in
  let drop (r : list res * option (list orow)) :=
      match pre with [] => r | _ => (tl (fst r), snd r) end in
  drop (match v with
        | 10 => let '(rs, st) := run h5_cur h' h5init in (rs, h5_load st)
        | 11 => let '(rs, st) := run h5_fix h' h5init in (rs, h5_load st)
        | 12 => let '(rs, st) := run nc_cur h' ncinit in (rs, nc_load st)
        | 13 => let '(rs, st) := run nc_fix h' ncinit in (rs, nc_load st)
        | _ => let '(rs, st) := run (swrite (policy_of v)) h' sinit in (rs, sload st)
        end).
Definition case_eqb (a b : list res * option (list orow)) : bool :=
  list_eqb res_eqb (fst a) (fst b) && obs_eqb (snd a) (snd b).

(* ------------------------------------------------------------------ header count (DCD)
   A DCD file carries its number of frames in the header.  [hevery] = the writer rewrites that count after every
   [hevery]-th frame (dcdplugin.c:write_dcdstep: 1, i.e. after every frame) and when the file is closed;
   [trust] = the reader believes a non-zero header count even when the file is longer (open_dcd_read as found:
   false, the count is always recomputed from the file size).  The frames themselves are written through.
   [hload] is what a reader sees at any moment, in particular after the writer was killed. *)
Record hstate := { hd_frames : list nat; hd_header : nat }.
Definition hinit : hstate := {| hd_frames := []; hd_header := 0 |}.

Fixpoint hwrite (hevery : nat) (ids : list nat) (s : hstate) : hstate :=
  match ids with
  | [] => s
  | i :: ids' =>
      let d := hd_frames s ++ [i] in
      hwrite hevery ids' {| hd_frames := d;
                            hd_header := if Nat.eqb (Nat.modulo (length d) hevery) 0 then length d else hd_header s |}
  end.

Definition hstep (hevery : nat) (o : dop) (s : hstate) : hstate :=
  match o with
  | DWrite ids => hwrite hevery ids s
  | DFlush => s
  | DClose => {| hd_frames := hd_frames s; hd_header := length (hd_frames s) |}
  end.
Definition hrun (hevery : nat) (ops : list dop) : hstate := fold_left (fun s o => hstep hevery o s) ops hinit.

Definition hload (trust : bool) (s : hstate) : list nat :=
  if trust && negb (Nat.eqb (hd_header s) 0) then firstn (hd_header s) (hd_frames s) else hd_frames s.

Definition header_crash_ok (c : nat * bool * list dop * list nat) : bool :=
  let '(hevery, trust, ops, got) := c in list_eqb Nat.eqb got (hload trust (hrun hevery ops)).
