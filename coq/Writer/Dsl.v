(* C19 — a small language for the body of a writer's write() method, in program order.

   Executable definitions only (no proofs in this file).

   harness/props/C19.py translates the `write` method of every streaming writer of mdtraj into a [wprog]
   (coq/Gen/WriterPrograms.v, regenerated on every run):

     Check f sd   a test of the call against the FILE's schema that raises: field f of the batch differs from
                  what the file holds ([Extra]: supplied but the file has no such field; [Missing]: not supplied
                  but the file expects it; [Both]: either; the atom count has only [Both])
     Require f    a test of the call alone that raises when the field is not supplied (ensure_type(...,
                  can_be_none=False), `if cell_lengths is None or times is None: raise`)
     Init         the first write records the schema (_needs_initialization = False, _initialize_headers(),
                  self.n_atoms = ..., self._w_has_box = ...)
     Mutate m     bytes reach the file object: an append to an array, a deposit into a record variable, a print
     Commit       the writer-side frame counter advances
     IfFirst a c  `if self._needs_initialization:` a `else:` c (and the other spellings of "first write")

   [sem] gives a program a meaning over any storage [backend]; three backends are the state types of
   Writer/Model.v (append-only stream, HDF5 field arrays, NetCDF records).  The checkers
   [check_vbm] ("validates before mutation") and [check_complete] are what Reflect.v proves sound. *)
From Coq Require Import List Bool Arith.
Import ListNotations.
Require Import MD.Writer.Model.

Inductive field := FAtoms | FCell | FTime.
Inductive side := Both | Extra | Missing.
Inductive mutation := MCoords | MTime | MCell | MRows | MOther.

Inductive wprog :=
| Skip
| Check (f : field) (sd : side)
| Require (f : field)
| Init
| Mutate (m : mutation)
| Commit
| IfFirst (a c : wprog)
| Seq (a c : wprog).

Definition field_eqb (a b : field) : bool :=
  match a, b with FAtoms, FAtoms | FCell, FCell | FTime, FTime => true | _, _ => false end.
Definition side_eqb (a b : side) : bool :=
  match a, b with Both, Both | Extra, Extra | Missing, Missing => true | _, _ => false end.

Definition b_has (f : field) (b : batch) : bool :=
  match f with FAtoms => true | FCell => b_cell b | FTime => b_time b end.
Definition s_has (f : field) (s : schema) : bool :=
  match f with FAtoms => true | FCell => s_cell s | FTime => s_time s end.

(* does the call differ from the file's schema in field f, in the direction sd? *)
Definition differs (sd : side) (f : field) (b : batch) (s : schema) : bool :=
  match f with
  | FAtoms => negb (Nat.eqb (b_atoms b) (s_atoms s))
  | _ => match sd with
         | Both => negb (Bool.eqb (b_has f b) (s_has f s))
         | Extra => b_has f b && negb (s_has f s)
         | Missing => negb (b_has f b) && s_has f s
         end
  end.

(* ------------------------------------------------------------------ storage backends *)
Record backend (S : Type) := {
  bk_schema : S -> option schema;
  bk_init : batch -> S -> S;
  bk_mut : mutation -> batch -> S -> S;
  bk_commit : batch -> S -> S
}.
Arguments bk_schema {S}. Arguments bk_init {S}. Arguments bk_mut {S}. Arguments bk_commit {S}.

Fixpoint sem {S : Type} (bk : backend S) (p : wprog) (b : batch) (st : S) : res * S :=
  match p with
  | Skip => (Ok, st)
  | Check f sd => match bk_schema bk st with
                  | Some s => if differs sd f b s then (Refused, st) else (Ok, st)
                  | None => (Ok, st)
                  end
  | Require f => if b_has f b then (Ok, st) else (Refused, st)
  | Init => (Ok, bk_init bk b st)
  | Mutate m => (Ok, bk_mut bk m b st)
  | Commit => (Ok, bk_commit bk b st)
  | IfFirst a c => match bk_schema bk st with None => sem bk a b st | Some _ => sem bk c b st end
  | Seq a c => match sem bk a b st with
               | (Ok, st') => sem bk c b st'
               | (Refused, st') => (Refused, st')
               end
  end.

(* append-only stream: the layout (what a frame record stores) is a [policy] of which only the store_*,
   time_index_default and zero_box fields are read *)
Definition stream_bk (lay : policy) : backend sfile := {|
  bk_schema := sf_schema;
  bk_init := fun b st => match sf_schema st with
                         | None => {| sf_schema := Some (schema_of b); sf_rows := sf_rows st |}
                         | Some _ => st end;
  bk_mut := fun m b st => match m with
                          | MRows | MCoords => {| sf_schema := sf_schema st;
                                                  sf_rows := sf_rows st ++ rows_of lay b 0 (b_ids b) |}
                          | _ => st end;
  bk_commit := fun _ st => st
|}.

Definition h5_bk : backend h5file := {|
  bk_schema := h_schema;
  bk_init := fun b st => match h_schema st with
                         | None => {| h_schema := Some (schema_of b); h_coords := h_coords st;
                                      h_time := h_time st; h_cell := h_cell st |}
                         | Some _ => st end;
  bk_mut := fun m b st =>
    match m with
    | MCoords => {| h_schema := h_schema st; h_coords := h_coords st ++ map (fun i => (i, b_atoms b)) (b_ids b);
                    h_time := h_time st; h_cell := h_cell st |}
    | MTime => {| h_schema := h_schema st; h_coords := h_coords st;
                  h_time := if b_time b then h_time st ++ map TVal (b_ids b) else h_time st; h_cell := h_cell st |}
    | MCell => {| h_schema := h_schema st; h_coords := h_coords st; h_time := h_time st;
                  h_cell := if b_cell b then h_cell st ++ map CVal (b_ids b) else h_cell st |}
    | _ => st
    end;
  bk_commit := fun _ st => st
|}.

Definition nc_bk : backend ncfile := {|
  bk_schema := n_schema;
  bk_init := fun b st => match n_schema st with
                         | None => {| n_schema := Some (schema_of b); n_rows := n_rows st; n_fi := n_fi st |}
                         | Some _ => st end;
  bk_mut := fun m b st =>
    let s := nc_schema st b in
    let dep set_t set_c := {| n_schema := n_schema st;
                              n_rows := deposit (n_rows st) (n_fi st) (b_ids b) (b_atoms b) s set_t set_c;
                              n_fi := n_fi st |} in
    match m with
    | MCoords => dep false false
    | MTime => if b_time b then dep true false else st
    | MCell => if b_cell b then dep false true else st
    | _ => st
    end;
  bk_commit := fun b st => {| n_schema := n_schema st; n_rows := n_rows st; n_fi := n_fi st + length (b_ids b) |}
|}.

(* ------------------------------------------------------------------ checker 1: validation precedes mutation *)
Record cst := { dirty : bool;                  (* Init (on a first write), Mutate or Commit has happened *)
                inited : bool;                 (* the file has a schema *)
                vs : list (field * side);      (* schema tests already passed *)
                rs : list field }.             (* required fields already seen supplied *)

Definition mem_v (c : cst) (f : field) (sd : side) : bool :=
  existsb (fun x => field_eqb (fst x) f && side_eqb (snd x) sd) (vs c).
Definition mem_r (c : cst) (f : field) : bool := existsb (field_eqb f) (rs c).

Definition validated (c : cst) (f : field) (sd : side) : bool :=
  match sd with
  | Both => mem_v c f Both || (mem_v c f Extra && mem_v c f Missing)
  | Extra => mem_v c f Both || mem_v c f Extra
  | Missing => mem_v c f Both || mem_v c f Missing || (mem_r c f && negb (field_eqb f FAtoms))
  end.

Definition set_dirty (c : cst) : cst := {| dirty := true; inited := inited c; vs := vs c; rs := rs c |}.

(* [first] = the analysis of a write on a file without schema *)
Fixpoint acheck (first : bool) (p : wprog) (c : cst) : option cst :=
  match p with
  | Skip => Some c
  | Check f sd =>
      if first then Some c          (* cannot fail: no schema yet, or the schema is the call's own *)
      else if dirty c && negb (validated c f sd) then None
      else Some {| dirty := dirty c; inited := inited c; vs := (f, sd) :: vs c; rs := rs c |}
  | Require f =>
      if dirty c && negb (mem_r c f) then None
      else Some {| dirty := dirty c; inited := inited c; vs := vs c; rs := f :: rs c |}
  | Init => if inited c then Some c
            else Some {| dirty := true; inited := true; vs := vs c; rs := rs c |}
  | Mutate _ | Commit => Some (set_dirty c)
  | IfFirst a c' => if inited c then acheck first c' c else acheck first a c
  | Seq a c' => match acheck first a c with Some c1 => acheck first c' c1 | None => None end
  end.

Definition c0 (init : bool) : cst := {| dirty := false; inited := init; vs := []; rs := [] |}.
Definition is_some {A} (x : option A) := match x with Some _ => true | None => false end.

Definition check_vbm (p : wprog) : bool := is_some (acheck true p (c0 false)) && is_some (acheck false p (c0 true)).

(* ------------------------------------------------------------------ checker 2: the schema test is complete *)
(* on a file that has a schema, is a call that differs in field f (direction sd) certainly met by a test? *)
Fixpoint cov (sd : side) (f : field) (p : wprog) : bool :=
  match p with
  | Check f' sd' => field_eqb f f' && (side_eqb sd' Both || side_eqb sd' sd || field_eqb f FAtoms)
  | Require f' => field_eqb f f' && negb (field_eqb f FAtoms)
  | Seq a c => cov sd f a || cov sd f c
  | IfFirst _ c => cov sd f c
  | _ => false
  end.
Fixpoint requires (f : field) (p : wprog) : bool :=
  match p with
  | Require f' => field_eqb f f'
  | Seq a c => requires f a || requires f c
  | IfFirst a c => requires f a || requires f c
  | _ => false
  end.

Definition check_complete (api : list field) (p : wprog) : bool :=
  forallb (fun f => cov Extra f p && cov Missing f p) api.

(* checker 3: a first write records the schema (otherwise every write is a "first" one) *)
Fixpoint inits (p : wprog) : bool :=
  match p with
  | Init => true
  | Seq a c => inits a || inits c
  | IfFirst a _ => inits a
  | _ => false
  end.
Fixpoint mutates (p : wprog) : bool :=
  match p with
  | Mutate (MRows | MCoords) => true
  | Seq a c => mutates a || mutates c
  | IfFirst a c => mutates a || mutates c
  | _ => false
  end.
Definition check_init (p : wprog) : bool := inits p.

(* policy read off a program: which fields it tests / requires (the layout part comes from [lay]) *)
Definition pol_of (lay : policy) (p : wprog) : policy :=
  {| chk_atoms := cov Extra FAtoms p; chk_cell := cov Extra FCell p && negb (requires FCell p);
     chk_time := cov Extra FTime p && negb (requires FTime p);
     req_cell := requires FCell p; req_time := requires FTime p;
     store_time := store_time lay; store_cell := store_cell lay;
     time_index_default := time_index_default lay; zero_box := zero_box lay |}.

(* what a frame record stores, as far as it can be read off the source of write(): its signature has a time / a cell
   parameter, and `if time is None: time = np.arange(n_frames)` (the default time is the index within the call).
   The translator emits these facts per format; they must agree with the layout table the theorems use. *)
Definition layout_agrees (lay : policy) (f : bool * bool * bool) : bool :=
  let '(st, sc, tid) := f in
  Bool.eqb (store_time lay) st && Bool.eqb (store_cell lay) sc && Bool.eqb (time_index_default lay) tid.
