(* C19 — lemmas about the writer models of Writer/Model.v. *)
From Coq Require Import List Bool Arith Lia.
Import ListNotations.
Require Import MD.Writer.Model.

(* ------------------------------------------------------------------ small facts *)
Lemma schema_eqb_refl s : schema_eqb s s = true.
Proof. unfold schema_eqb. rewrite Nat.eqb_refl, !eqb_reflx. reflexivity. Qed.

Lemma schema_eqb_eq a b : schema_eqb a b = true <-> a = b.
Proof.
  split; [|intros ->; apply schema_eqb_refl].
  unfold schema_eqb. destruct a as [a1 a2 a3], b as [b1 b2 b3]; cbn. intros H.
  apply andb_true_iff in H. destruct H as [H H3]. apply andb_true_iff in H. destruct H as [H1 H2].
  apply Nat.eqb_eq in H1. apply eqb_prop in H2. apply eqb_prop in H3. subst. reflexivity.
Qed.

Lemma schema_of_mk s ids : schema_of (mk_batch s ids) = s.
Proof. destruct s; reflexivity. Qed.

(* ------------------------------------------------------------------ append-only writers *)

(* a refused write changes nothing (validation precedes the first byte in every append-only writer) *)
Lemma swrite_refused_unchanged pol b st : fst (swrite pol b st) = Refused -> snd (swrite pol b st) = st.
Proof. unfold swrite. destruct (srefuses pol st b); cbn; [reflexivity | discriminate]. Qed.

(* whether a batch of schema s is refused does not depend on its frames *)
Lemma srefuses_mk pol st s ids ids' : srefuses pol st (mk_batch s ids) = srefuses pol st (mk_batch s ids').
Proof. reflexivity. Qed.

Lemma rows_of_app pol b : forall ids1 ids2 k,
  rows_of pol b k (ids1 ++ ids2) = rows_of pol b k ids1 ++ rows_of pol b (k + length ids1) ids2.
Proof.
  induction ids1 as [|i ids1 IH]; intros ids2 k; cbn.
  - rewrite Nat.add_0_r. reflexivity.
  - rewrite IH. replace (S k + length ids1) with (k + S (length ids1)) by lia. reflexivity.
Qed.

(* when the stored time does not depend on the position within the call, neither do the rows *)
Definition time_position_free (pol : policy) (s : schema) : Prop :=
  time_index_default pol = false \/ s_time s = true \/ store_time pol = false.

Lemma rows_of_shift pol s ids : time_position_free pol s -> forall ids0 k k',
  rows_of pol (mk_batch s ids0) k ids = rows_of pol (mk_batch s ids0) k' ids.
Proof.
  intros Hf ids0. induction ids as [|i ids IH]; intros k k'; cbn; [reflexivity|].
  rewrite (IH (S k) (S k')). f_equal.
  cbn [mk_batch b_time b_cell b_atoms].
  destruct Hf as [H|[H|H]]; rewrite H;
    repeat match goal with |- context[if ?x then _ else _] => destruct x end; reflexivity.
Qed.

Lemma rows_of_batch_irrelevant pol s ids ids0 ids1 k :
  rows_of pol (mk_batch s ids0) k ids = rows_of pol (mk_batch s ids1) k ids.
Proof. revert k. induction ids as [|i ids IH]; intros k; cbn; [reflexivity | rewrite IH; reflexivity]. Qed.

Lemma swrite_schema_after pol b st :
  fst (swrite pol b st) = Ok ->
  sf_schema (snd (swrite pol b st)) = match sf_schema st with None => Some (schema_of b) | x => x end.
Proof. unfold swrite. destruct (srefuses pol st b); cbn; [discriminate | reflexivity]. Qed.

(* once a batch of schema s has been accepted, a further batch of the same schema is accepted too *)
Lemma srefuses_after_accept pol s st ids ids' :
  srefuses pol st (mk_batch s ids) = false ->
  srefuses pol (snd (swrite pol (mk_batch s ids) st)) (mk_batch s ids') = false.
Proof.
  intros H. unfold swrite. rewrite H. cbn [snd].
  rewrite (srefuses_mk pol _ s ids' ids).
  unfold srefuses in *. cbn [sf_schema] in *.
  destruct (sf_schema st) as [s0|]; [exact H|].
  cbn [mk_batch schema_of b_atoms b_cell b_time s_atoms s_cell s_time] in *.
  rewrite Nat.eqb_refl, !eqb_reflx. cbn [negb]. rewrite !andb_false_r. cbn [orb]. exact H.
Qed.

Lemma swrite_true pol b st : srefuses pol st b = true -> swrite pol b st = (Refused, st).
Proof. intros H. unfold swrite. rewrite H. reflexivity. Qed.
Lemma swrite_false pol b st : srefuses pol st b = false ->
  swrite pol b st = (Ok, {| sf_schema := match sf_schema st with None => Some (schema_of b) | x => x end;
                            sf_rows := sf_rows st ++ rows_of pol b 0 (b_ids b) |}).
Proof. intros H. unfold swrite. rewrite H. reflexivity. Qed.

(* the rows after writing the concatenation = the rows after writing the two halves one after the other *)
Lemma swrite_app pol s st ids1 ids2 : time_position_free pol s ->
  sf_rows (snd (swrite pol (mk_batch s (ids1 ++ ids2)) st)) =
  sf_rows (snd (swrite pol (mk_batch s ids2) (snd (swrite pol (mk_batch s ids1) st)))).
Proof.
  intros Hf. destruct (srefuses pol st (mk_batch s ids1)) eqn:Hr.
  - rewrite (swrite_true pol (mk_batch s ids1) st Hr). cbn [snd].
    rewrite (swrite_true pol (mk_batch s (ids1 ++ ids2)) st), (swrite_true pol (mk_batch s ids2) st);
      [reflexivity | rewrite <- Hr; apply srefuses_mk | rewrite <- Hr; apply srefuses_mk].
  - pose proof (srefuses_after_accept pol s st ids1 ids2 Hr) as Hr2.
    rewrite (swrite_false _ _ _ Hr2).
    rewrite (swrite_false pol (mk_batch s ids1) st Hr).
    rewrite (swrite_false pol (mk_batch s (ids1 ++ ids2)) st); [|rewrite <- Hr; apply srefuses_mk].
    cbn [snd sf_rows mk_batch b_ids].
    rewrite rows_of_app, <- app_assoc. f_equal. f_equal.
    + apply rows_of_batch_irrelevant.
    + rewrite (rows_of_shift pol s ids2 Hf (ids1 ++ ids2) (0 + length ids1) 0). apply rows_of_batch_irrelevant.
Qed.

Lemma swrite_nil_rows pol s st : sf_rows (snd (swrite pol (mk_batch s []) st)) = sf_rows st.
Proof. unfold swrite. destruct (srefuses pol st (mk_batch s [])); cbn; [reflexivity | apply app_nil_r]. Qed.

(* rows only depend on the rows and on refusal, and refusal on the schema: two states with the same rows that
   refuse the same batches stay that way *)
Lemma run_swrite_rows pol s : time_position_free pol s -> forall parts st,
  sf_rows (snd (run (swrite pol) (map (mk_batch s) parts) st)) =
  sf_rows (snd (swrite pol (mk_batch s (concat parts)) st)).
Proof.
  intros Hf. induction parts as [|p parts IH]; intros st.
  - cbn [map run snd concat]. symmetry. apply swrite_nil_rows.
  - cbn [map run concat].
    destruct (swrite pol (mk_batch s p) st) as [r st'] eqn:Hw.
    destruct (run (swrite pol) (map (mk_batch s) parts) st') as [rs st''] eqn:Hrun. cbn [snd].
    pose proof (IH st') as IH'. rewrite Hrun in IH'. cbn [snd] in IH'. rewrite IH'.
    rewrite (swrite_app pol s st p (concat parts) Hf). rewrite Hw. reflexivity.
Qed.

(* partition independence for every append-only writer whose stored time does not depend on the position of
   the frame within its write call *)
Theorem stream_partition_independent pol s parts st : time_position_free pol s ->
  sload (snd (run (swrite pol) (map (mk_batch s) parts) st)) =
  sload (snd (swrite pol (mk_batch s (concat parts)) st)).
Proof. intros Hf. unfold sload. rewrite (run_swrite_rows pol s Hf parts st). reflexivity. Qed.

(* all three schema checks on: a batch whose schema differs from the file's is refused *)
Theorem stream_ragged_refused pol st s b :
  chk_atoms pol = true -> chk_cell pol = true -> chk_time pol = true ->
  sf_schema st = Some s -> schema_of b <> s -> fst (swrite pol b st) = Refused.
Proof.
  intros Ha Hc Ht Hs Hne. unfold swrite.
  assert (Hr : srefuses pol st b = true); [|rewrite Hr; reflexivity].
  unfold srefuses. rewrite Hs, Ha, Hc, Ht. cbn [andb].
  destruct (Nat.eqb (b_atoms b) (s_atoms s)) eqn:E1; cbn; [|apply orb_true_r].
  destruct (Bool.eqb (b_cell b) (s_cell s)) eqn:E2; cbn; [|apply orb_true_r].
  destruct (Bool.eqb (b_time b) (s_time s)) eqn:E3; cbn; [|apply orb_true_r].
  exfalso. apply Hne. apply Nat.eqb_eq in E1. apply eqb_prop in E2. apply eqb_prop in E3.
  destruct s; unfold schema_of; cbn in *; subst; reflexivity.
Qed.

(* ------------------------------------------------------------------ histories under the full policy *)
Definition full_rows (h : list batch) : list row := flat_map (fun b => rows_of full_policy b 0 (b_ids b)) h.
Definition full_codes (sch : option schema) (h : list batch) : list res :=
  (fix go (sch : option schema) (h : list batch) : list res :=
     match h with
     | [] => []
     | b :: h' => match sch with
                  | None => Ok :: go (Some (schema_of b)) h'
                  | Some s => if schema_eqb (schema_of b) s then Ok :: go sch h' else Refused :: go sch h'
                  end
     end) sch h.

Lemma full_refuses st b : srefuses full_policy st b =
  match sf_schema st with None => false | Some s => negb (schema_eqb (schema_of b) s) end.
Proof.
  unfold srefuses, full_policy, schema_eqb; cbn. destruct (sf_schema st) as [s|]; [|reflexivity].
  cbn. destruct (Nat.eqb (b_atoms b) (s_atoms s)), (Bool.eqb (b_cell b) (s_cell s)), (Bool.eqb (b_time b) (s_time s));
    reflexivity.
Qed.

(* after ANY history the file holds exactly the rows of the accepted batches, in order, and the result codes
   are those of the acceptance rule *)
Theorem full_history h : forall st,
  sf_rows (snd (run (swrite full_policy) h st)) = sf_rows st ++ full_rows (accepted (sf_schema st) h) /\
  fst (run (swrite full_policy) h st) = full_codes (sf_schema st) h.
Proof.
  induction h as [|b h IH]; intros st.
  - cbn. rewrite app_nil_r. split; reflexivity.
  - cbn [run]. unfold swrite at 1 3. rewrite full_refuses.
    destruct (sf_schema st) as [s|] eqn:Hs.
    + destruct (schema_eqb (schema_of b) s) eqn:He; cbn [negb].
      * specialize (IH {| sf_schema := Some s; sf_rows := sf_rows st ++ rows_of full_policy b 0 (b_ids b) |}).
        destruct (run (swrite full_policy) h _) as [rs st'']. cbn [fst snd sf_schema sf_rows] in *.
        destruct IH as [IH1 IH2]. cbn [accepted full_codes]. rewrite He. cbn [full_rows flat_map].
        rewrite IH1, <- app_assoc. split; [reflexivity | rewrite IH2; reflexivity].
      * specialize (IH st). destruct (run (swrite full_policy) h st) as [rs st'']. cbn [fst snd] in *.
        destruct IH as [IH1 IH2]. rewrite Hs in IH1, IH2. cbn [accepted full_codes]. rewrite He.
        split; [exact IH1 | rewrite IH2; reflexivity].
    + specialize (IH {| sf_schema := Some (schema_of b); sf_rows := sf_rows st ++ rows_of full_policy b 0 (b_ids b) |}).
      destruct (run (swrite full_policy) h _) as [rs st'']. cbn [fst snd sf_schema sf_rows] in *.
      destruct IH as [IH1 IH2]. cbn [accepted full_codes full_rows flat_map].
      rewrite IH1, <- app_assoc. split; [reflexivity | rewrite IH2; reflexivity].
Qed.

(* ------------------------------------------------------------------ refinement of the repaired HDF5 / NetCDF writers *)
(* HDF5: the arrays are aligned with the rows of the append-only model under the full policy *)
Definition h5_rel (st : h5file) (fs : sfile) : Prop :=
  h_schema st = sf_schema fs /\
  h_coords st = map (fun r => (r_id r, r_atoms r)) (sf_rows fs) /\
  (forall s, sf_schema fs = Some s ->
     h_time st = (if s_time s then map r_t (sf_rows fs) else []) /\
     h_cell st = (if s_cell s then map r_c (sf_rows fs) else []) /\
     Forall (fun r => r_t r = if s_time s then TVal (r_id r) else TAbsent) (sf_rows fs) /\
     Forall (fun r => r_c r = if s_cell s then CVal (r_id r) else CAbsent) (sf_rows fs)) /\
  (sf_schema fs = None -> sf_rows fs = [] /\ h_time st = [] /\ h_cell st = []).

Lemma full_rows_of_map b : forall ids k,
  map (fun r => (r_id r, r_atoms r)) (rows_of full_policy b k ids) = map (fun i => (i, b_atoms b)) ids /\
  map r_t (rows_of full_policy b k ids) = map (fun i => if b_time b then TVal i else TAbsent) ids /\
  map r_c (rows_of full_policy b k ids) = map (fun i => if b_cell b then CVal i else CAbsent) ids /\
  Forall (fun r => r_t r = if b_time b then TVal (r_id r) else TAbsent) (rows_of full_policy b k ids) /\
  Forall (fun r => r_c r = if b_cell b then CVal (r_id r) else CAbsent) (rows_of full_policy b k ids).
Proof.
  induction ids as [|i ids IH]; intros k; cbn.
  - repeat split; constructor.
  - destruct (IH (S k)) as [H1 [H2 [H3 [H4 H5]]]]. rewrite H1, H2, H3.
    repeat split; try (constructor; [reflexivity | assumption]).
Qed.

Lemma h5_fix_step b st fs : h5_rel st fs ->
  fst (h5_fix b st) = fst (swrite full_policy b fs) /\
  h5_rel (snd (h5_fix b st)) (snd (swrite full_policy b fs)).
Proof.
  intros [Hs [Hc [Hsome Hnone]]].
  unfold h5_fix, swrite. rewrite full_refuses. unfold h5_refuses. rewrite Hs.
  destruct (sf_schema fs) as [s|] eqn:Hfs.
  - destruct (schema_eqb (schema_of b) s) eqn:He; cbn [negb].
    + apply schema_eqb_eq in He.
      destruct (Hsome s eq_refl) as [Ht [Hl [Ft Fc]]].
      unfold h5_cur, h5_schema. rewrite Hs.
      assert (Ea : b_atoms b = s_atoms s) by (rewrite <- He; reflexivity).
      assert (Et : b_time b = s_time s) by (rewrite <- He; reflexivity).
      assert (Ec : b_cell b = s_cell s) by (rewrite <- He; reflexivity).
      rewrite Ea, Nat.eqb_refl, Et, Ec, !eqb_reflx. cbn [negb fst snd].
      split; [reflexivity|].
      destruct (full_rows_of_map b (b_ids b) 0) as [M1 [M2 [M3 [M4 M5]]]].
      unfold h5_rel. cbn [h_schema h_coords h_time h_cell sf_schema sf_rows].
      split; [reflexivity|]. split.
      * rewrite map_app, Hc, M1, Ea. reflexivity.
      * split; [|discriminate]. intros s' Hs'. inversion Hs'; subst s'. clear Hs'.
        rewrite !map_app, M2, M3, Et, Ec, Ht, Hl.
        repeat split.
        -- destruct (s_time s); reflexivity.
        -- destruct (s_cell s); reflexivity.
        -- apply Forall_app. split; [exact Ft | rewrite <- Et; exact M4].
        -- apply Forall_app. split; [exact Fc | rewrite <- Ec; exact M5].
    + cbn [fst snd]. split; [reflexivity|]. unfold h5_rel. rewrite Hfs. repeat split; try assumption; try discriminate.
      * apply (Hsome s0 H).
      * apply (Hsome s0 H).
      * apply (Hsome s0 H).
      * apply (Hsome s0 H).
  - destruct (Hnone eq_refl) as [Hr [Ht Hl]].
    unfold h5_cur, h5_schema. rewrite Hs.
    rewrite Nat.eqb_refl, !eqb_reflx. cbn [negb fst snd schema_of s_atoms s_time s_cell].
    split; [reflexivity|].
    destruct (full_rows_of_map b (b_ids b) 0) as [M1 [M2 [M3 [M4 M5]]]].
    unfold h5_rel. cbn [h_schema h_coords h_time h_cell sf_schema sf_rows].
    split; [reflexivity|]. split.
    + rewrite Hc, Hr. cbn. rewrite M1. reflexivity.
    + split; [|discriminate]. intros s' Hs'. inversion Hs'; subst s'. clear Hs'.
      cbn [schema_of s_time s_cell]. rewrite Hr, Ht, Hl. cbn [app]. rewrite M2, M3.
      repeat split.
      * destruct (b_time b); reflexivity.
      * destruct (b_cell b); reflexivity.
      * exact M4.
      * exact M5.
Qed.

Lemma h5_rel_init : h5_rel h5init sinit.
Proof. unfold h5_rel, h5init, sinit; cbn. repeat split; try reflexivity; discriminate. Qed.

Lemma h5_fix_run h : forall st fs, h5_rel st fs ->
  fst (run h5_fix h st) = fst (run (swrite full_policy) h fs) /\
  h5_rel (snd (run h5_fix h st)) (snd (run (swrite full_policy) h fs)).
Proof.
  induction h as [|b h IH]; intros st fs HR; cbn [run].
  - split; [reflexivity | exact HR].
  - destruct (h5_fix_step b st fs HR) as [Hc HR'].
    destruct (h5_fix b st) as [r st'], (swrite full_policy b fs) as [r' fs']. cbn [fst snd] in *.
    destruct (IH st' fs' HR') as [Hc' HR''].
    destruct (run h5_fix h st') as [rs st''], (run (swrite full_policy) h fs') as [rs' fs'']. cbn [fst snd] in *.
    subst. split; [reflexivity | exact HR''].
Qed.

Lemma zip3_rows : forall (rows : list row) (tp cp : bool),
  Forall (fun r => r_t r = if tp then TVal (r_id r) else TAbsent) rows ->
  Forall (fun r => r_c r = if cp then CVal (r_id r) else CAbsent) rows ->
  zip3 (map (fun r => (r_id r, r_atoms r)) rows)
       (if tp then map r_t rows else []) (if cp then map r_c rows else []) = rows.
Proof.
  induction rows as [|r rows IH]; intros tp cp Ft Fc.
  - destruct tp, cp; reflexivity.
  - inversion Ft as [|? ? Ht Ft']; inversion Fc as [|? ? Hc Fc']; subst.
    specialize (IH tp cp Ft' Fc').
    destruct r as [i a t c]. cbn in Ht, Hc. subst t c.
    destruct tp, cp; cbn in *; rewrite IH; reflexivity.
Qed.

Lemma h5_rel_load st fs : h5_rel st fs -> h5_load st = sload fs.
Proof.
  intros [Hs [Hc [Hsome Hnone]]]. unfold h5_load, sload. rewrite Hs, Hc, map_length.
  destruct (sf_schema fs) as [s|] eqn:Hfs.
  - destruct (Hsome s eq_refl) as [Ht [Hl [Ft Fc]]]. rewrite Ht, Hl.
    assert (L1 : (negb (s_time s) || Nat.eqb (length (if s_time s then map r_t (sf_rows fs) else [])) (length (sf_rows fs))) = true).
    { destruct (s_time s); cbn; [rewrite map_length; apply Nat.eqb_refl | reflexivity]. }
    assert (L2 : (negb (s_cell s) || Nat.eqb (length (if s_cell s then map r_c (sf_rows fs) else [])) (length (sf_rows fs))) = true).
    { destruct (s_cell s); cbn; [rewrite map_length; apply Nat.eqb_refl | reflexivity]. }
    rewrite L1, L2. cbn [andb]. rewrite (zip3_rows (sf_rows fs) (s_time s) (s_cell s) Ft Fc). reflexivity.
  - destruct (Hnone eq_refl) as [Hr [Ht Hl]]. rewrite Hr, Ht, Hl. reflexivity.
Qed.

(* the repaired HDF5 writer behaves, on every history, exactly like the append-only writer with all checks *)
Theorem h5_fix_refines h :
  fst (run h5_fix h h5init) = fst (run (swrite full_policy) h sinit) /\
  h5_load (snd (run h5_fix h h5init)) = sload (snd (run (swrite full_policy) h sinit)).
Proof.
  destruct (h5_fix_run h h5init sinit h5_rel_init) as [Hc HR]. split; [exact Hc | apply h5_rel_load, HR].
Qed.

Lemma h5_fix_refused_unchanged b st : fst (h5_fix b st) = Refused -> h5_refuses st b = true -> snd (h5_fix b st) = st.
Proof. intros _ H. unfold h5_fix. rewrite H. reflexivity. Qed.

(* NetCDF *)
Definition nc_rel (st : ncfile) (fs : sfile) : Prop :=
  n_schema st = sf_schema fs /\ n_rows st = sf_rows fs /\ n_fi st = length (sf_rows fs).

Lemma overwrite_nil s b : forall ids k,
  schema_of b = s ->
  overwrite [] ids (b_atoms b) s (b_time b) (b_cell b) = rows_of full_policy b k ids.
Proof.
  intros ids k He. revert k. induction ids as [|i ids IH]; intros k; cbn; [reflexivity|].
  rewrite (IH (S k)). f_equal.
  assert (Et : s_time s = b_time b) by (rewrite <- He; reflexivity).
  assert (Ec : s_cell s = b_cell b) by (rewrite <- He; reflexivity).
  rewrite Et, Ec. destruct (b_time b), (b_cell b); reflexivity.
Qed.

Lemma deposit_end rs ids atoms s set_t set_c :
  deposit rs (length rs) ids atoms s set_t set_c = rs ++ overwrite [] ids atoms s set_t set_c.
Proof. unfold deposit. rewrite firstn_all, skipn_all. reflexivity. Qed.

Lemma nc_fix_step b st fs : nc_rel st fs ->
  fst (nc_fix b st) = fst (swrite full_policy b fs) /\
  nc_rel (snd (nc_fix b st)) (snd (swrite full_policy b fs)).
Proof.
  intros [Hs [Hr Hf]]. unfold nc_fix, swrite. rewrite full_refuses. unfold nc_refuses. rewrite Hs.
  destruct (sf_schema fs) as [s|] eqn:Hfs.
  - destruct (schema_eqb (schema_of b) s) eqn:He; cbn [negb].
    + apply schema_eqb_eq in He.
      unfold nc_cur, nc_schema. rewrite Hs.
      assert (Ea : b_atoms b = s_atoms s) by (rewrite <- He; reflexivity).
      assert (Et : b_time b = s_time s) by (rewrite <- He; reflexivity).
      assert (Ec : b_cell b = s_cell s) by (rewrite <- He; reflexivity).
      rewrite <- Ea, Nat.eqb_refl, <- Et, <- Ec. cbn [negb].
      rewrite !andb_negb_r. cbn [fst snd].
      assert (X : negb (b_time b) && b_time b = false) by (destruct (b_time b); reflexivity).
      assert (Y : negb (b_cell b) && b_cell b = false) by (destruct (b_cell b); reflexivity).
      rewrite X, Y. cbn [fst snd]. split; [reflexivity|].
      unfold nc_rel. cbn [n_schema n_rows n_fi sf_schema sf_rows].
      split; [reflexivity|]. rewrite Hf, Hr, deposit_end, (overwrite_nil s b (b_ids b) 0 He).
      split; [reflexivity|]. rewrite app_length. f_equal.
      clear. generalize 0. induction (b_ids b) as [|i l IH]; intros k; cbn; [reflexivity | rewrite <- (IH (S k)); reflexivity].
    + cbn [fst snd]. split; [reflexivity|]. unfold nc_rel. rewrite Hfs. repeat split; assumption.
  - unfold nc_cur, nc_schema. rewrite Hs.
    rewrite Nat.eqb_refl. cbn [negb schema_of s_time s_cell].
    rewrite !andb_negb_r.
    assert (X : negb (b_time b) && b_time b = false) by (destruct (b_time b); reflexivity).
    assert (Y : negb (b_cell b) && b_cell b = false) by (destruct (b_cell b); reflexivity).
    rewrite X, Y. cbn [fst snd]. split; [reflexivity|].
    unfold nc_rel. cbn [n_schema n_rows n_fi sf_schema sf_rows].
    split; [reflexivity|]. rewrite Hf, Hr, deposit_end, (overwrite_nil (schema_of b) b (b_ids b) 0 eq_refl).
    split; [reflexivity|]. rewrite app_length. f_equal.
    clear. generalize 0. induction (b_ids b) as [|i l IH]; intros k; cbn; [reflexivity | rewrite <- (IH (S k)); reflexivity].
Qed.

Lemma nc_rel_init : nc_rel ncinit sinit.
Proof. repeat split. Qed.

Lemma nc_fix_run h : forall st fs, nc_rel st fs ->
  fst (run nc_fix h st) = fst (run (swrite full_policy) h fs) /\
  nc_rel (snd (run nc_fix h st)) (snd (run (swrite full_policy) h fs)).
Proof.
  induction h as [|b h IH]; intros st fs HR; cbn [run].
  - split; [reflexivity | exact HR].
  - destruct (nc_fix_step b st fs HR) as [Hc HR'].
    destruct (nc_fix b st) as [r st'], (swrite full_policy b fs) as [r' fs']. cbn [fst snd] in *.
    destruct (IH st' fs' HR') as [Hc' HR''].
    destruct (run nc_fix h st') as [rs st''], (run (swrite full_policy) h fs') as [rs' fs'']. cbn [fst snd] in *.
    subst. split; [reflexivity | exact HR''].
Qed.

Theorem nc_fix_refines h :
  fst (run nc_fix h ncinit) = fst (run (swrite full_policy) h sinit) /\
  nc_load (snd (run nc_fix h ncinit)) = sload (snd (run (swrite full_policy) h sinit)).
Proof.
  destruct (nc_fix_run h ncinit sinit nc_rel_init) as [Hc [_ [Hr _]]].
  split; [exact Hc | unfold nc_load, sload; rewrite Hr; reflexivity].
Qed.

(* ------------------------------------------------------------------ the properties for the repaired writers *)
Definition expected_load (h : list batch) : option (list orow) := load_rows (full_rows (accepted None h)).

Lemma full_history_load h : sload (snd (run (swrite full_policy) h sinit)) = expected_load h.
Proof. unfold sload, expected_load. destruct (full_history h sinit) as [H _]. rewrite H. reflexivity. Qed.

Theorem h5_fix_history h :
  h5_load (snd (run h5_fix h h5init)) = expected_load h /\ fst (run h5_fix h h5init) = full_codes None h.
Proof.
  destruct (h5_fix_refines h) as [Hc Hl]. destruct (full_history h sinit) as [_ H2].
  rewrite Hl, Hc, full_history_load. split; [reflexivity | exact H2].
Qed.

Theorem nc_fix_history h :
  nc_load (snd (run nc_fix h ncinit)) = expected_load h /\ fst (run nc_fix h ncinit) = full_codes None h.
Proof.
  destruct (nc_fix_refines h) as [Hc Hl]. destruct (full_history h sinit) as [_ H2].
  rewrite Hl, Hc, full_history_load. split; [reflexivity | exact H2].
Qed.

Lemma accepted_uniform s parts : accepted None (map (mk_batch s) parts) = map (mk_batch s) parts.
Proof.
  destruct parts as [|p parts]; [reflexivity|]. cbn [map accepted]. f_equal. rewrite schema_of_mk.
  induction parts as [|q parts IH]; [reflexivity|]. cbn [map accepted]. rewrite schema_of_mk, schema_eqb_refl.
  f_equal. exact IH.
Qed.

Lemma tpf_full s : time_position_free full_policy s.
Proof. left. reflexivity. Qed.

Lemma expected_load_partition s parts :
  expected_load (map (mk_batch s) parts) = expected_load [mk_batch s (concat parts)].
Proof.
  rewrite <- !full_history_load.
  pose proof (stream_partition_independent full_policy s parts sinit (tpf_full s)) as H. rewrite H.
  cbn [run]. destruct (swrite full_policy (mk_batch s (concat parts)) sinit). reflexivity.
Qed.

(* refused writes are atomic in the repaired writers, by construction *)
Lemma h5_fix_atomic b st : h5_refuses st b = true -> h5_fix b st = (Refused, st).
Proof. intros H. unfold h5_fix. rewrite H. reflexivity. Qed.
Lemma nc_fix_atomic b st : nc_refuses st b = true -> nc_fix b st = (Refused, st).
Proof. intros H. unfold nc_fix. rewrite H. reflexivity. Qed.

(* ------------------------------------------------------------------ as-found writers: witnesses *)
Definition bt (ids : list nat) (cell time : bool) (atoms : nat) : batch :=
  {| b_ids := ids; b_atoms := atoms; b_cell := cell; b_time := time |}.

(* hdf5.py: 2 frames accepted, then a write without time is refused after its coordinates were appended *)
Lemma h5_cur_not_atomic :
  let st1 := snd (h5_cur (bt [10; 11] true true 4) h5init) in
  fst (h5_cur (bt [12; 13] true false 4) st1) = Refused /\
  h5_load st1 = Some [(10, OVal 10, OVal 10); (11, OVal 11, OVal 11)] /\
  h5_load (snd (h5_cur (bt [12; 13] true false 4) st1)) = None.
Proof. vm_compute. repeat split. Qed.

(* netcdf.py: the same history leaves two records with fill values behind *)
Lemma nc_cur_not_atomic :
  let st1 := snd (nc_cur (bt [10; 11] true true 4) ncinit) in
  fst (nc_cur (bt [12; 13] true false 4) st1) = Refused /\
  nc_load st1 = Some [(10, OVal 10, OVal 10); (11, OVal 11, OVal 11)] /\
  nc_load (snd (nc_cur (bt [12; 13] true false 4) st1)) =
    Some [(10, OVal 10, OVal 10); (11, OVal 11, OVal 11); (12, OBad, OVal 12); (13, OBad, OVal 13)].
Proof. vm_compute. repeat split. Qed.

(* xtc/trr: time=None stores the index within the call: two calls of one frame each differ from one call *)
Lemma xdr_partition_dependent :
  let s := {| s_atoms := 4; s_cell := true; s_time := false |} in
  sload (snd (run (swrite pol_xdr) (map (mk_batch s) [[10]; [11]]) sinit)) =
    Some [(10, OVal 0, OVal 10); (11, OVal 0, OVal 11)] /\
  sload (snd (swrite pol_xdr (mk_batch s [10; 11]) sinit)) =
    Some [(10, OVal 0, OVal 10); (11, OVal 1, OVal 11)].
Proof. vm_compute. split; reflexivity. Qed.

(* the text writers accept a change of the atom count (gro: of cell and time presence too) *)
Lemma ragged_accepted_witnesses :
  let st pol := snd (swrite pol (bt [10; 11] true true 4) sinit) in
  fst (swrite pol_mdcrd (bt [12] true true 5) (st pol_mdcrd)) = Ok /\
  fst (swrite pol_xyz (bt [12] true true 5) (st pol_xyz)) = Ok /\
  fst (swrite pol_lammpstrj (bt [12] true true 5) (st pol_lammpstrj)) = Ok /\
  fst (swrite pol_gro (bt [12] true true 5) (st pol_gro)) = Ok /\
  fst (swrite pol_gro (bt [12] false true 4) (st pol_gro)) = Ok /\
  fst (swrite pol_gro (bt [12] true false 4) (st pol_gro)) = Ok /\
  fst (swrite pol_pdb (bt [12] true true 5) (st pol_pdb)) = Ok /\
  fst (swrite pol_xdr (bt [12] true false 4) (st pol_xdr)) = Ok /\
  sload (snd (swrite pol_mdcrd (bt [12] true true 5) (st pol_mdcrd))) = None.
Proof. vm_compute. repeat split. Qed.

(* ------------------------------------------------------------------ durability automaton *)
Lemma drun_from_app a ops1 ops2 s : drun_from a (ops1 ++ ops2) s = drun_from a ops2 (drun_from a ops1 s).
Proof. unfold drun_from. apply fold_left_app. Qed.

Lemma written_app ops1 ops2 : written (ops1 ++ ops2) = written ops1 ++ written ops2.
Proof.
  induction ops1 as [|o ops1 IH]; [reflexivity|]. destruct o; cbn; rewrite IH; [rewrite app_assoc|..]; reflexivity.
Qed.

(* nothing is invented, nothing reordered: durable ++ buffered is what was written *)
Lemma drun_from_inv a ops : forall s,
  durable (drun_from a ops s) ++ buffered (drun_from a ops s) = durable s ++ buffered s ++ written ops.
Proof.
  induction ops as [|o ops IH]; intros s.
  - cbn. rewrite app_nil_r. reflexivity.
  - unfold drun_from in *. cbn [fold_left]. rewrite IH. destruct o; cbn [dstep written].
    + destruct a; cbn [durable buffered]; rewrite <- ?app_assoc; reflexivity.
    + cbn [durable buffered]. rewrite <- app_assoc. reflexivity.
    + cbn [durable buffered]. rewrite <- app_assoc. reflexivity.
Qed.

(* durable data only grows *)
Lemma drun_from_durable_mono a ops : forall s, exists rest, durable (drun_from a ops s) = durable s ++ rest.
Proof.
  induction ops as [|o ops IH]; intros s.
  - exists []. cbn. rewrite app_nil_r. reflexivity.
  - unfold drun_from in *. cbn [fold_left]. destruct (IH (dstep a o s)) as [rest Hr]. rewrite Hr.
    destruct o; cbn [dstep].
    + destruct a; cbn [durable].
      * exists ((buffered s ++ ids) ++ rest). rewrite <- !app_assoc. reflexivity.
      * exists rest. reflexivity.
    + cbn [durable]. exists (buffered s ++ rest). rewrite <- app_assoc. reflexivity.
    + cbn [durable]. exists (buffered s ++ rest). rewrite <- app_assoc. reflexivity.
Qed.

Lemma in_prefixes l : forall p, In p (prefixes l) -> exists q, l = p ++ q.
Proof.
  induction l as [|x l IH]; intros p Hp; cbn in Hp.
  - destruct Hp as [<-|[]]. exists []. reflexivity.
  - destruct Hp as [<-|Hp]; [exists (x :: l); reflexivity|].
    apply in_map_iff in Hp. destruct Hp as [p' [<- Hp']]. destruct (IH p' Hp') as [q Hq].
    exists q. cbn. rewrite <- Hq. reflexivity.
Qed.

(* Whatever happens after a flush, a crash keeps every frame written before that flush and never shows a
   frame that was not written, in the order written.  ("partial": the meaning of DFlush — the library
   hands its buffers to the operating system, which keeps them when the process is killed — is an assumption
   built into [dstep]; it is sampled by the fault enumeration, not proved.) *)
Theorem flush_durable a ops1 ops2 img :
  In img (crash_images (drun a (ops1 ++ DFlush :: ops2))) ->
  exists rest rest', img = written ops1 ++ rest /\ written (ops1 ++ DFlush :: ops2) = img ++ rest'.
Proof.
  unfold crash_images, drun. intros Hin. apply in_map_iff in Hin. destruct Hin as [p [<- Hp]].
  destruct (in_prefixes _ _ Hp) as [q Hq].
  set (sf := drun_from a (ops1 ++ DFlush :: ops2) dinit) in *.
  pose proof (drun_from_inv a (ops1 ++ DFlush :: ops2) dinit) as Hinv. fold sf in Hinv. cbn [durable buffered dinit app] in Hinv.
  assert (Hd : exists rest, durable sf = written ops1 ++ rest).
  { unfold sf. rewrite drun_from_app. change (DFlush :: ops2) with ([DFlush] ++ ops2). rewrite drun_from_app.
    set (s1 := drun_from a ops1 dinit).
    pose proof (drun_from_inv a ops1 dinit) as H1. fold s1 in H1. cbn [durable buffered dinit app] in H1.
    destruct (drun_from_durable_mono a ops2 (drun_from a [DFlush] s1)) as [rest Hr]. rewrite Hr.
    unfold drun_from at 1. cbn [fold_left dstep durable]. rewrite H1. exists rest. reflexivity. }
  destruct Hd as [rest Hd].
  exists (rest ++ p), q. split.
  - rewrite Hd, <- app_assoc. reflexivity.
  - rewrite <- Hinv, Hq, app_assoc. reflexivity.
Qed.

(* a crash straight after the flush loses nothing and shows exactly the frames written *)
Theorem flush_then_crash_exact a ops img :
  In img (crash_images (drun a (ops ++ [DFlush]))) -> img = written ops.
Proof.
  unfold crash_images, drun. rewrite drun_from_app. unfold drun_from at 1. cbn [fold_left dstep buffered prefixes map durable].
  intros [<-|[]].
  pose proof (drun_from_inv a ops dinit) as H1. cbn [durable buffered dinit app] in H1. rewrite app_nil_r. exact H1.
Qed.

(* write-through writers (HDF5 flushes inside write(); DCD writes unbuffered and rewrites its header counts on
   every time step): every completed write is durable without an explicit flush *)
Theorem auto_flush_durable ops img : In img (crash_images (drun true ops)) -> exists rest, written ops = img ++ rest /\
  (forall ops1 ids ops2, ops = ops1 ++ DWrite ids :: ops2 -> exists r, img = written ops1 ++ ids ++ r).
Proof.
  unfold crash_images, drun. intros Hin. apply in_map_iff in Hin. destruct Hin as [p [<- Hp]].
  destruct (in_prefixes _ _ Hp) as [q Hq].
  pose proof (drun_from_inv true ops dinit) as Hinv. cbn [durable buffered dinit app] in Hinv.
  exists q. split; [rewrite <- Hinv, Hq, app_assoc; reflexivity|].
  intros ops1 ids ops2 ->. rewrite drun_from_app.
  change (DWrite ids :: ops2) with ([DWrite ids] ++ ops2). rewrite drun_from_app.
  set (s1 := drun_from true ops1 dinit).
  pose proof (drun_from_inv true ops1 dinit) as H1. fold s1 in H1. cbn [durable buffered dinit app] in H1.
  destruct (drun_from_durable_mono true ops2 (drun_from true [DWrite ids] s1)) as [rest Hr]. rewrite Hr.
  unfold drun_from at 1. cbn [fold_left dstep durable]. rewrite app_assoc, H1.
  exists (rest ++ p). rewrite <- !app_assoc. reflexivity.
Qed.

(* ------------------------------------------------------------------ partition independence of the HDF5 / NetCDF writers *)
Theorem h5_fix_partition s parts :
  h5_load (snd (run h5_fix (map (mk_batch s) parts) h5init)) =
  h5_load (snd (run h5_fix [mk_batch s (concat parts)] h5init)).
Proof.
  destruct (h5_fix_history (map (mk_batch s) parts)) as [H1 _].
  destruct (h5_fix_history [mk_batch s (concat parts)]) as [H2 _].
  rewrite H1, H2. apply expected_load_partition.
Qed.

Theorem nc_fix_partition s parts :
  nc_load (snd (run nc_fix (map (mk_batch s) parts) ncinit)) =
  nc_load (snd (run nc_fix [mk_batch s (concat parts)] ncinit)).
Proof.
  destruct (nc_fix_history (map (mk_batch s) parts)) as [H1 _].
  destruct (nc_fix_history [mk_batch s (concat parts)]) as [H2 _].
  rewrite H1, H2. apply expected_load_partition.
Qed.

(* on histories whose batches all have one schema the writers as found never refuse, hence coincide with
   the repaired ones: the code as it is today is partition independent too *)
Lemma h5_cur_uniform s : forall parts st, (h_schema st = None \/ h_schema st = Some s) ->
  run h5_cur (map (mk_batch s) parts) st = run h5_fix (map (mk_batch s) parts) st.
Proof.
  induction parts as [|p parts IH]; intros st Hs; [reflexivity|]. cbn [map run].
  assert (Hr : h5_refuses st (mk_batch s p) = false).
  { unfold h5_refuses. destruct Hs as [-> | ->]; [reflexivity|]. rewrite schema_of_mk, schema_eqb_refl. reflexivity. }
  unfold h5_fix at 1. rewrite Hr.
  assert (Hn : h_schema (snd (h5_cur (mk_batch s p) st)) = Some s).
  { unfold h5_cur, h5_schema.
    assert (Hx : match h_schema st with Some s0 => s0 | None => schema_of (mk_batch s p) end = s).
    { destruct Hs as [-> | ->]; [apply schema_of_mk | reflexivity]. }
    rewrite Hx. destruct s as [a c t]. cbn. rewrite Nat.eqb_refl, !eqb_reflx. reflexivity. }
  destruct (h5_cur (mk_batch s p) st) as [r st']. cbn [snd] in Hn.
  rewrite (IH st' (or_intror Hn)). reflexivity.
Qed.

Theorem h5_cur_partition s parts :
  h5_load (snd (run h5_cur (map (mk_batch s) parts) h5init)) =
  h5_load (snd (run h5_cur [mk_batch s (concat parts)] h5init)).
Proof.
  rewrite (h5_cur_uniform s parts h5init (or_introl eq_refl)).
  change [mk_batch s (concat parts)] with (map (mk_batch s) [concat parts]).
  rewrite (h5_cur_uniform s [concat parts] h5init (or_introl eq_refl)).
  pose proof (h5_fix_partition s parts) as H. cbn [map] in *. exact H.
Qed.

Lemma nc_cur_uniform s : forall parts st, (n_schema st = None \/ n_schema st = Some s) ->
  run nc_cur (map (mk_batch s) parts) st = run nc_fix (map (mk_batch s) parts) st.
Proof.
  induction parts as [|p parts IH]; intros st Hs; [reflexivity|]. cbn [map run].
  assert (Hr : nc_refuses st (mk_batch s p) = false).
  { unfold nc_refuses. destruct Hs as [-> | ->]; [reflexivity|]. rewrite schema_of_mk, schema_eqb_refl. reflexivity. }
  unfold nc_fix at 1. rewrite Hr.
  assert (Hn : n_schema (snd (nc_cur (mk_batch s p) st)) = Some s).
  { unfold nc_cur, nc_schema.
    assert (Hx : match n_schema st with Some s0 => s0 | None => schema_of (mk_batch s p) end = s).
    { destruct Hs as [-> | ->]; [apply schema_of_mk | reflexivity]. }
    rewrite Hx. destruct s as [a c t]. cbn. rewrite Nat.eqb_refl. destruct c, t; reflexivity. }
  destruct (nc_cur (mk_batch s p) st) as [r st']. cbn [snd] in Hn.
  rewrite (IH st' (or_intror Hn)). reflexivity.
Qed.

Theorem nc_cur_partition s parts :
  nc_load (snd (run nc_cur (map (mk_batch s) parts) ncinit)) =
  nc_load (snd (run nc_cur [mk_batch s (concat parts)] ncinit)).
Proof.
  rewrite (nc_cur_uniform s parts ncinit (or_introl eq_refl)).
  change [mk_batch s (concat parts)] with (map (mk_batch s) [concat parts]).
  rewrite (nc_cur_uniform s [concat parts] ncinit (or_introl eq_refl)).
  pose proof (nc_fix_partition s parts) as H. cbn [map] in *. exact H.
Qed.

(* ------------------------------------------------------------------ header count *)
Lemma hwrite_frames e ids : forall s, hd_frames (hwrite e ids s) = hd_frames s ++ ids.
Proof.
  induction ids as [|i ids IH]; intros s; cbn [hwrite]; [rewrite app_nil_r; reflexivity|].
  rewrite IH. cbn [hd_frames]. rewrite <- app_assoc. reflexivity.
Qed.

Lemma hrun_frames e ops : forall s, hd_frames (fold_left (fun s o => hstep e o s) ops s) = hd_frames s ++ written ops.
Proof.
  induction ops as [|o ops IH]; intros s; cbn [fold_left written]; [rewrite app_nil_r; reflexivity|].
  rewrite IH. destruct o; cbn [hstep hd_frames written]; [rewrite hwrite_frames, <- app_assoc|..]; reflexivity.
Qed.

(* a writer that refreshes the header after EVERY frame keeps header = number of frames *)
Lemma hwrite_header_1 ids : forall s, hd_header s = length (hd_frames s) ->
  hd_header (hwrite 1 ids s) = length (hd_frames (hwrite 1 ids s)).
Proof.
  induction ids as [|i ids IH]; intros s Hs; cbn [hwrite]; [exact Hs|].
  apply IH. cbn [hd_header hd_frames]. rewrite Nat.mod_1_r. reflexivity.
Qed.

Lemma hrun_header_1 ops : forall s, hd_header s = length (hd_frames s) ->
  hd_header (fold_left (fun s o => hstep 1 o s) ops s) = length (hd_frames (fold_left (fun s o => hstep 1 o s) ops s)).
Proof.
  induction ops as [|o ops IH]; intros s Hs; cbn [fold_left]; [exact Hs|].
  apply IH. destruct o; cbn [hstep hd_header hd_frames]; [apply hwrite_header_1, Hs | exact Hs | reflexivity].
Qed.

(* side condition of durability for formats with a frame count in the header: the header is refreshed after every
   frame, OR the reader derives the count from the file size.  Then, whatever the reader trusts, a killed writer's
   file shows exactly the frames of all completed writes *)
Theorem header_count_durable trust ops : hload trust (hrun 1 ops) = written ops.
Proof.
  unfold hload, hrun.
  pose proof (hrun_header_1 ops hinit eq_refl) as Hh. pose proof (hrun_frames 1 ops hinit) as Hf.
  cbn [hd_frames hinit app] in Hf.
  destruct (trust && negb (Nat.eqb (hd_header (fold_left (fun s o => hstep 1 o s) ops hinit)) 0)).
  - rewrite Hh, firstn_all. exact Hf.
  - exact Hf.
Qed.

Theorem size_derived_count_durable hevery ops : hload false (hrun hevery ops) = written ops.
Proof. unfold hload, hrun. cbn [andb]. apply (hrun_frames hevery ops hinit). Qed.

(* a writer that refreshes the header only every 8th frame, read by a reader that trusts a non-zero header:
   11 frames written and acknowledged, 8 loaded after a kill; a clean close repairs the header *)
Lemma header_refresh_every_8_loses_frames :
  hload true (hrun 8 [DWrite [1; 2; 3; 4; 5]; DWrite [6; 7; 8; 9; 10; 11]]) = [1; 2; 3; 4; 5; 6; 7; 8] /\
  hload true (hrun 8 [DWrite [1; 2; 3; 4; 5]; DWrite [6; 7; 8; 9; 10; 11]; DClose]) = [1; 2; 3; 4; 5; 6; 7; 8; 9; 10; 11] /\
  hload true (hrun 8 [DWrite [1; 2; 3; 4; 5; 6; 7]]) = [1; 2; 3; 4; 5; 6; 7].
Proof. vm_compute. repeat split. Qed.
