(* C19 — connecting the programs of Writer/Dsl.v to the models of Writer/Model.v.

   The lemmas `sem_<fmt>` of Gen/WriterPrograms.v (re-proved on every run, by the tactics below) say that the
   meaning of the write() program translated from today's source IS the model the theorems of Props/C19.v
   speak about: [swrite (pol_of lay T)] step by step (up to the schema field, which schema-less writers never
   set), [h5_fix], [nc_fix].  The lemmas here lift the step statements to whole histories. *)
From Coq Require Import List Bool Arith Lia.
Import ListNotations.
Require Import MD.Writer.Model MD.Writer.Proofs MD.Writer.Dsl MD.Writer.Reflect.

(* ------------------------------------------------------------------ append-only writers *)
Definition stream_sim (lay : policy) (T : wprog) : Prop :=
  forall b st st', sf_rows st = sf_rows st' -> (inits T = true -> sf_schema st = sf_schema st') ->
    fst (sem (stream_bk lay) T b st) = fst (swrite (pol_of lay T) b st') /\
    sf_rows (snd (sem (stream_bk lay) T b st)) = sf_rows (snd (swrite (pol_of lay T) b st')) /\
    (inits T = true -> sf_schema (snd (sem (stream_bk lay) T b st)) = sf_schema (snd (swrite (pol_of lay T) b st'))).

Lemma stream_sim_run lay T : stream_sim lay T -> forall h st st',
  sf_rows st = sf_rows st' -> (inits T = true -> sf_schema st = sf_schema st') ->
  fst (run (sem (stream_bk lay) T) h st) = fst (run (swrite (pol_of lay T)) h st') /\
  sload (snd (run (sem (stream_bk lay) T) h st)) = sload (snd (run (swrite (pol_of lay T)) h st')).
Proof.
  intros Hsim. induction h as [|b h IH]; intros st st' Hr Hs; cbn [run].
  - split; [reflexivity | unfold sload; cbn; rewrite Hr; reflexivity].
  - destruct (Hsim b st st' Hr Hs) as [H1 [H2 H3]].
    destruct (sem (stream_bk lay) T b st) as [r st1], (swrite (pol_of lay T) b st') as [r' st1']. cbn [fst snd] in *.
    destruct (IH st1 st1' H2 H3) as [I1 I2].
    destruct (run (sem (stream_bk lay) T) h st1) as [rs st2], (run (swrite (pol_of lay T)) h st1') as [rs' st2'].
    cbn [fst snd] in *. subst. split; [reflexivity | exact I2].
Qed.

Lemma rows_of_layout p p' b :
  store_time p = store_time p' -> store_cell p = store_cell p' ->
  time_index_default p = time_index_default p' -> zero_box p = zero_box p' ->
  forall ids k, rows_of p b k ids = rows_of p' b k ids.
Proof.
  intros H1 H2 H3 H4. induction ids as [|i ids IH]; intros k; cbn; [reflexivity|].
  rewrite IH, H1, H2, H3, H4. reflexivity.
Qed.

Ltac destruct_bool_vars :=
  repeat match goal with x : bool |- _ => destruct x end.

Ltac sem_stream_eq :=
  unfold stream_sim;
  match goal with |- context [pol_of ?lay ?T] =>
    let p := eval vm_compute in (pol_of lay T) in change (pol_of lay T) with p end;
  intros b [sch rows] [sch' rows'] Hr Hs; cbn [sf_rows sf_schema] in Hr, Hs; subst rows';
  first [ specialize (Hs eq_refl); subst sch' | clear Hs ];
  destruct b as [ids a c t];
  destruct sch as [[sa sc stt]|];
  try (destruct sch' as [[sa' sc' stt']|]);
  destruct_bool_vars;
  unfold swrite, srefuses; cbn;
  repeat match goal with |- context [Nat.eqb ?x ?y] => destruct (Nat.eqb x y) end;
  cbn; repeat split; try reflexivity; try (intros Hx; vm_compute in Hx; discriminate Hx);
  try (f_equal; apply rows_of_layout; reflexivity).

(* ------------------------------------------------------------------ HDF5 *)
Ltac simp_eqb :=
  repeat progress (cbn; rewrite ?Nat.eqb_refl;
                   repeat match goal with H : Nat.eqb ?x ?y = _ |- context [Nat.eqb ?x ?y] => rewrite H end).
Ltac crunch :=
  repeat (simp_eqb;
          match goal with
          | |- context [Nat.eqb ?x ?y] => destruct (Nat.eqb x y) eqn:?
          | |- context [if ?x then _ else _] => is_var x; destruct x
          end);
  simp_eqb.

Ltac sem_h5_eq :=
  intros b [sch co ti ce]; destruct b as [ids a c t];
  unfold h5_fix, h5_refuses, h5_cur, h5_schema, schema_eqb;
  destruct sch as [[sa sc stt]|];
  destruct_bool_vars; crunch; reflexivity.

Lemma sem_run_ext {S : Type} (f g : batch -> S -> res * S) :
  (forall b st, f b st = g b st) -> forall h st, run f h st = run g h st.
Proof.
  intros H. induction h as [|b h IH]; intros st; cbn [run]; [reflexivity|].
  rewrite H. destruct (g b st) as [r st']. rewrite IH. reflexivity.
Qed.

(* ------------------------------------------------------------------ NetCDF: deposits field by field = one deposit *)
Lemma overwrite_overwrite ids a s t1 c1 t2 c2 : forall rs,
  overwrite (overwrite rs ids a s t1 c1) ids a s t2 c2 = overwrite rs ids a s (t1 || t2) (c1 || c2).
Proof.
  induction ids as [|i ids IH]; intros rs; cbn; [reflexivity|].
  rewrite IH. f_equal. destruct t1, t2, c1, c2; reflexivity.
Qed.

Lemma deposit_deposit rs fi ids a s t1 c1 t2 c2 : fi <= length rs ->
  deposit (deposit rs fi ids a s t1 c1) fi ids a s t2 c2 = deposit rs fi ids a s (t1 || t2) (c1 || c2).
Proof.
  intros Hle. unfold deposit.
  assert (Hl : length (firstn fi rs) = fi) by (apply firstn_length_le, Hle).
  rewrite firstn_app, Hl, Nat.sub_diag, firstn_O, app_nil_r.
  rewrite <- Hl at 1. rewrite firstn_all.
  rewrite skipn_app, Hl, Nat.sub_diag. cbn [skipn].
  rewrite <- Hl at 2. rewrite skipn_all. cbn [app].
  rewrite overwrite_overwrite. reflexivity.
Qed.

Lemma deposit_length_ge rs fi ids a s t c : fi <= length rs -> fi <= length (deposit rs fi ids a s t c).
Proof.
  intros Hle. unfold deposit. rewrite app_length, firstn_length_le by exact Hle. lia.
Qed.

#[global] Arguments deposit : simpl never.

Ltac sem_nc_eq :=
  intros b [sch rows fi] Hfi; destruct b as [ids a c t]; cbn [n_fi n_rows] in Hfi;
  unfold nc_fix, nc_refuses, nc_cur, nc_schema, schema_eqb;
  destruct sch as [[sa sc stt]|];
  destruct_bool_vars; crunch;
  try reflexivity;
  repeat (rewrite deposit_deposit by (repeat apply deposit_length_ge; exact Hfi)); cbn; reflexivity.

(* the invariant the NetCDF lemma needs: frame_index never exceeds the number of records *)
Lemma nc_fix_fi_le b st : n_fi st <= length (n_rows st) ->
  n_fi (snd (nc_fix b st)) <= length (n_rows (snd (nc_fix b st))).
Proof.
  intros Hle. unfold nc_fix. destruct (nc_refuses st b); [exact Hle|].
  unfold nc_cur.
  repeat match goal with |- context [if ?x then _ else _] => destruct x end; cbn [snd n_fi n_rows];
    try exact Hle; try (apply deposit_length_ge; exact Hle).
  unfold deposit. rewrite app_length, firstn_length_le by exact Hle.
  assert (Ho : forall rs ids a s t c, length ids <= length (overwrite rs ids a s t c)).
  { intros rs ids. revert rs. induction ids as [|i ids IH]; intros rs a s t c; cbn; [lia|].
    specialize (IH (tl rs) a s t c). lia. }
  specialize (Ho (skipn (n_fi st) (n_rows st)) (b_ids b) (b_atoms b) (nc_schema st b) (b_time b) (b_cell b)). lia.
Qed.

Lemma nc_sem_run T : (forall b st, n_fi st <= length (n_rows st) -> sem nc_bk T b st = nc_fix b st) ->
  forall h st, n_fi st <= length (n_rows st) -> run (sem nc_bk T) h st = run nc_fix h st.
Proof.
  intros H. induction h as [|b h IH]; intros st Hle; cbn [run]; [reflexivity|].
  rewrite (H b st Hle). pose proof (nc_fix_fi_le b st Hle) as Hle'.
  destruct (nc_fix b st) as [r st']. cbn [snd] in Hle'. rewrite (IH st' Hle'). reflexivity.
Qed.
