(* C13 - solvent-accessible areas are correct, additive and selection-independent.
   Only statements, closed by [exact], and Print Assumptions. *)
From Coq Require Import String.
From Coq Require Import List Arith ZArith Bool.
Import ListNotations.
Require Import MD.Sched.ParFor MD.Sasa.Model MD.Sasa.Proofs MD.Gen.SasaTables.
Open Scope Z_scope.

(* The count the C loop produces with its rotating closest-neighbour cache, started from any cache position, is the
   number of sphere points that are strictly inside none of the neighbour spheres - for every point set. *)
Theorem opt_eq_naive : forall M a nb pts kc acc,
  count_cached M a nb pts kc acc = acc + count_naive M a nb pts.
Proof. exact count_cached_naive. Qed.
Print Assumptions opt_eq_naive.
