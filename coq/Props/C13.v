(* C13 - solvent-accessible areas are correct, additive and selection-independent.
   Only statements, closed by [exact], and Print Assumptions.
   Model: MD.Sasa.Model (exact integer arithmetic; sphere points an argument; K stands for 4*pi/n_sphere_points).
   What is NOT covered by these theorems: float32 rounding inside the kernel, the float code that generates the
   golden-spiral points, the quadrature error of that point set (those are tied/measured by the correspondence). *)
From Coq Require Import String.
From Coq Require Import List Arith ZArith Bool.
Import ListNotations.
Require Import MD.Sched.ParFor MD.Sasa.Model MD.Sasa.Proofs MD.Sasa.Spiral MD.Sasa.SpiralProofs MD.Sasa.LowLevel MD.Sasa.LowLevelProofs MD.Gen.SasaTables MD.Gen.SasaSpiral.
Open Scope Z_scope.

(* ---- correct: the count is an independent evaluation on the same point set ---- *)

(* The count the C loop produces with its rotating closest-neighbour cache, started from any cache position, is the
   number of sphere points strictly inside none of the neighbour spheres - for EVERY point set. *)
Theorem opt_eq_naive : forall M a nb pts kc acc,
  count_cached M a nb pts kc acc = acc + count_naive M a nb pts.
Proof. exact count_cached_naive. Qed.
Print Assumptions opt_eq_naive.

(* An atom that fails the sum-of-radii prefilter never contains a point of the atom's sphere (|s| <= 1). *)
Theorem prefilter_never_blocks : forall M (a b : atom) (s : vec),
  0 <= M -> 0 <= snd a -> 0 <= snd b -> norm2 s <= M * M ->
  is_nbr a b = false -> inside M (centred M a s) b = false.
Proof. exact non_neighbour_never_blocks. Qed.
Print Assumptions prefilter_never_blocks.

(* Hence: what asa_frame counts for atom i = number of points not strictly inside ANY other atom's expanded
   sphere (prefilter and cache are pure optimisations), for point sets on or inside the unit sphere. *)
Theorem count_is_spec : forall M pts ats i a,
  0 <= M -> 0 <= snd a -> Forall (fun b => 0 <= snd b) ats -> Forall (fun s => norm2 s <= M * M) pts ->
  atom_count M pts ats i a = count_naive M a (others ats i) pts.
Proof. exact atom_count_spec. Qed.
Print Assumptions count_is_spec.

(* An isolated selected atom gets n_points * K * r^2, i.e. 4*pi*(r+probe)^2 for K = 4*pi/n_points. *)
Theorem isolated_full : forall K M pts radii sel fr j,
  length fr = length radii ->
  match sel with Some idx => forallb (fun i => Nat.ltb i (length radii)) idx = true | None => True end ->
  (j < length radii)%nat -> selected sel j = true ->
  (forall k b, nth_error (combine fr radii) k = Some b -> k <> j ->
               is_nbr (nth j (combine fr radii) dflt_atom) b = false) ->
  nth j (atom_row K M pts radii sel fr) 0 = Z.of_nat (length pts) * (K * nth j radii 0 * nth j radii 0).
Proof. exact isolated_full_row. Qed.
Print Assumptions isolated_full.

(* Two overlapping spheres, PARTIAL: for a point ON atom a's unit sphere, "strictly inside atom b" is exactly the
   half-space condition of the analytic cap, cos(angle to the axis a->b) > (r_a^2 + d^2 - r_b^2)/(2 r_a d), written
   without division.  Full statement (not proved): |count/n - (1 + cos_cap)/2| <= quadrature error of the golden
   spiral; what is missing is a discrepancy bound for the float32 golden-spiral point set - the correspondence
   measures it instead (<= 2 points along the y axis, <= 0.4*sqrt(n)+2 points in general). *)
Theorem two_sphere_cap_partial : forall M (a b : atom) (s : vec),
  0 < M -> norm2 s = M * M ->
  inside M (centred M a s) b =
  (M * (snd a * snd a + d2 (fst a) (fst b) - snd b * snd b) <? 2 * snd a * dot s (vsub (fst b) (fst a))).
Proof. exact cap_criterion. Qed.
Print Assumptions two_sphere_cap_partial.

(* ---- asa_frame as the C code writes it: through its two work buffers ---- *)

(* neighbor_indices[] and centered_sphere_points[] are allocated once per thread and keep what the previous atom, frame
   or call left in them.  The buffer-level model (MD.Sasa.LowLevel: "neighbor_indices[n++] = j", the centred points
   stored at [j], read back as neighbor_indices[k % n] and centered_sphere_points[j]) computes exactly the areas of the
   list model used by every theorem above - whatever the buffers held, provided they are as long as sasa() allocates them. *)
Theorem asa_frame_buffers_refine : forall K M pts ats mask buf wb1 wb2,
  (length ats <= length wb1)%nat -> (length pts <= length wb2)%nat ->
  fst (asa_frame_ll K M pts ats mask buf wb1 wb2) = asa_frame K M pts ats mask buf.
Proof. exact asa_frame_ll_refines. Qed.
Print Assumptions asa_frame_buffers_refine.

Theorem asa_frame_ignores_work_buffers : forall K M pts ats mask buf wb1 wb2 wb1' wb2',
  (length ats <= length wb1)%nat -> (length pts <= length wb2)%nat ->
  (length ats <= length wb1')%nat -> (length pts <= length wb2')%nat ->
  fst (asa_frame_ll K M pts ats mask buf wb1 wb2) = fst (asa_frame_ll K M pts ats mask buf wb1' wb2').
Proof. exact asa_frame_ll_ignores_work_buffers. Qed.
Print Assumptions asa_frame_ignores_work_buffers.

(* The loop counter k / k_closest_neighbor of the point loop (a C int) never exceeds n_sphere_points * n_neighbours
   (+ n_neighbours inside one scan): no overflow as long as (n_sphere_points + 1) * n_atoms < 2^31. *)
Theorem cache_index_bounded : forall M ats wb1 n wb2 m j kc acc,
  0 <= kc -> let kc' := snd (count_ll M ats wb1 n wb2 j m kc acc) in kc <= kc' <= kc + Z.of_nat m * Z.of_nat n.
Proof. exact count_ll_k_bound. Qed.
Print Assumptions cache_index_bounded.

(* garbage in both buffers, two atoms, six points: same areas as the list model, buffers overwritten *)
Example work_buffers_hypotheses_satisfiable :
  asa_frame_ll 1 4 [(4, 0, 0); (-4, 0, 0); (0, 4, 0); (0, -4, 0); (0, 0, 4); (0, 0, -4)]
               [((0, 0, 0), 10); ((12, 0, 0), 8)] [true; true] [0; 0] [7%nat; 7%nat; 9%nat] (repeat (1, 2, 3) 6) =
  (asa_frame 1 4 [(4, 0, 0); (-4, 0, 0); (0, 4, 0); (0, -4, 0); (0, 0, 4); (0, 0, -4)]
             [((0, 0, 0), 10); ((12, 0, 0), 8)] [true; true] [0; 0],
   ([0%nat; 7%nat; 9%nat], [(80, 0, 0); (16, 0, 0); (48, 32, 0); (48, -32, 0); (48, 0, 32); (48, 0, -32)])) /\
  asa_frame 1 4 [(4, 0, 0); (-4, 0, 0); (0, 4, 0); (0, -4, 0); (0, 0, 4); (0, 0, -4)]
            [((0, 0, 0), 10); ((12, 0, 0), 8)] [true; true] [0; 0] = [500; 320].
Proof. split; vm_compute; reflexivity. Qed.
Print Assumptions work_buffers_hypotheses_satisfiable.

(* ---- the documented point set: golden-section spiral ---- *)

(* Per run: every point set the repository's generate_sphere_points produces for the n_sphere_points the correspondence
   uses (taken from a shim that includes sasa.cpp) satisfies the golden-spiral specification MD.Sasa.Spiral.spiral_ok:
   point i lies in the middle of the i-th of n equal-area bands in y, on the unit sphere, turned by the golden angle
   pi*(3 - sqrt 5) with respect to point i-1, and phi_0 = 0 - within the float32/grid tolerances [spiral_tolerances]. *)
Theorem documented_point_sets_are_golden_spirals : forallb point_set_ok shim_point_sets = true.
Proof. exact shim_points_are_golden_spiral. Qed.
Print Assumptions documented_point_sets_are_golden_spirals.

(* For a two-atom frame the count the kernel model produces for atom a is n minus the points buried in b. *)
Theorem two_atom_count_complement : forall M (a b : atom) pts,
  count_naive M a [b] pts = Z.of_nat (length pts) - blocked_by M a b pts.
Proof. exact two_atom_count_is_complement. Qed.
Print Assumptions two_atom_count_complement.

(* Two overlapping spheres, b on the +y axis of a at distance d, FULL (quadrature error included): for EVERY point set
   that satisfies the strata and sphere parts of the specification with tolerances tol and e,
        | buried/n - (1 - cos_cap)/2 |  <=  1/(2n) + tol/(2M) + ra*e/(4 M^3 d),     cos_cap = (ra^2 + d^2 - rb^2)/(2 ra d),
   written without division (multiply by 2*A*M*n, A = 2 ra M d; the bounds are clipped to [0, n]).  The analytic
   cap-removed area of a is 4 pi ra^2 (1 + cos_cap)/2, so area/(K ra^2) = n - buried is within half a point (plus the
   tolerance terms) of it.  Other directions of b: NOT proved (the discrepancy of the spiral in a general direction is
   measured by the correspondence: <= 0.4 sqrt(n) + 2 points); the -y axis follows by the symmetry of the strata but is
   not stated here. *)
Theorem two_sphere_cap_plus_y : forall M tol e (pts : list vec) (pa : vec) ra rb d,
  0 < M -> 0 <= tol -> 0 <= e -> 0 < ra -> 0 < d -> pts <> [] ->
  strata_sphere_ok M tol e pts = true ->
  let n := Z.of_nat (length pts) in
  let A := 2 * ra * M * d in
  let T := ra * ra + d * d - rb * rb in
  let c := blocked_by M (pa, ra) ((vx pa, vy pa + d, vz pa), rb) pts in
  Z.min (2 * A * M * n) (2 * A * M * n - (n * (M * M * T + ra * ra * e) + A * (n - 1) * M + A * n * tol) - 2 * A * M)
    <= 2 * A * M * c /\
  2 * A * M * c <= Z.max 0 (2 * A * M * n - (n * (M * M * T - ra * ra * e) + A * (n - 1) * M - A * n * tol)).
Proof. exact cap_plus_y_blocked. Qed.
Print Assumptions two_sphere_cap_plus_y.

(* the counting core of it: n points, one per band |n*y_i - (2i+1-n)*M| <= n*tol: how many satisfy A*y > B *)
Theorem strata_quadrature : forall M tol A B (ys : nat -> Z) len,
  0 < M -> 0 <= tol -> 0 < A -> (0 < len)%nat ->
  let n := Z.of_nat len in
  (forall i, (i < len)%nat -> Z.abs (n * ys i - (2 * Z.of_nat i + 1 - n) * M) <= n * tol) ->
  let c := cnt_idx (fun i => B <? A * ys i) len in
  let bl := n * B + A * (n - 1) * M + A * n * tol in
  let bu := n * B + A * (n - 1) * M - A * n * tol in
  Z.min (2 * A * M * n) (2 * A * M * n - bl - 2 * A * M) <= 2 * A * M * c /\
  2 * A * M * c <= Z.max 0 (2 * A * M * n - bu).
Proof. exact strata_count. Qed.
Print Assumptions strata_quadrature.

(* ---- additive ---- *)

(* Residue mode is the sum of atom mode over each residue's selected atoms (same selection, same frame). *)
Theorem residue_is_sum : forall K M pts radii sel fr,
  length fr = length radii ->
  match sel with Some idx => forallb (fun i => Nat.ltb i (length radii)) idx = true | None => True end ->
  forall resid nres, length resid = length radii ->
  forall g, (g < nres)%nat -> group_selected resid sel g = true ->
  nth g (group_row K M pts radii sel fr resid nres) 0 =
  gsum g resid (zero_unselected (mask_of (length radii) sel) (atom_row K M pts radii sel fr)).
Proof. exact residue_row_is_sum. Qed.
Print Assumptions residue_is_sum.

(* ---- selection-independent ---- *)

(* Restricting the output to a subset does not change the value of an atom that is kept ... *)
Theorem subset_independent : forall K M pts radii sel fr j,
  length fr = length radii ->
  match sel with Some idx => forallb (fun i => Nat.ltb i (length radii)) idx = true | None => True end ->
  (j < length radii)%nat -> selected sel j = true ->
  nth j (atom_row K M pts radii sel fr) 0 = nth j (atom_row K M pts radii None fr) 0.
Proof. exact subset_independent_atom. Qed.
Print Assumptions subset_independent.

(* ... nor, in residue mode, the contribution of the atoms kept. *)
Theorem subset_independent_residue : forall K M pts radii sel fr resid nres g,
  length fr = length radii ->
  match sel with Some idx => forallb (fun i => Nat.ltb i (length radii)) idx = true | None => True end ->
  length resid = length radii -> (g < nres)%nat -> group_selected resid sel g = true ->
  nth g (group_row K M pts radii sel fr resid nres) 0 =
  gsum g resid (zero_unselected (mask_of (length radii) sel) (atom_row K M pts radii None fr)).
Proof. exact residue_subset. Qed.
Print Assumptions subset_independent_residue.

(* Unselected atoms, and residues with no selected atom, are reported as -1. *)
Theorem unselected_minus1 : forall K M pts radii sel fr j,
  length fr = length radii ->
  match sel with Some idx => forallb (fun i => Nat.ltb i (length radii)) idx = true | None => True end ->
  (j < length radii)%nat -> selected sel j = false ->
  nth j (atom_row K M pts radii sel fr) 0 = -1.
Proof. exact unselected_atom_minus1. Qed.
Print Assumptions unselected_minus1.

Theorem unselected_minus1_residue : forall K M pts radii sel fr resid nres g,
  length fr = length radii -> length resid = length radii -> (g < nres)%nat -> group_selected resid sel g = false ->
  nth g (group_row K M pts radii sel fr resid nres) 0 = -1.
Proof. exact unselected_residue_minus1. Qed.
Print Assumptions unselected_minus1_residue.

(* ---- radii ---- *)

(* radius of atom j = (change_radii[symbol] if present else table[symbol]) + probe; nothing else changes. *)
Theorem radii_effect : forall tbl change probe elems l,
  radii_of tbl change probe elems = Some l ->
  length l = length elems /\
  forall j, (j < length elems)%nat ->
    exists v, match lookup_radius (nth j elems EmptyString) change with
              | Some w => w = v
              | None => lookup_radius (nth j elems EmptyString) tbl = Some v
              end /\ nth j l 0 = v + probe.
Proof. exact radii_of_spec. Qed.
Print Assumptions radii_effect.

Theorem radii_missing_symbol_is_error : forall tbl change probe elems e,
  In e elems -> lookup_radius e (change ++ tbl) = None -> radii_of tbl change probe elems = None.
Proof. exact radii_of_missing. Qed.
Print Assumptions radii_missing_symbol_is_error.

(* the table regenerated from sasa.py in this run: positive radii, no duplicate symbol *)
Theorem radii_table_wellformed : table_wf atomic_radii_U = true.
Proof. exact atomic_radii_wf. Qed.
Print Assumptions radii_table_wellformed.

(* ---- every frame starts from zero ---- *)

(* Repaired kernel (buffer zeroed per frame): for every schedule that runs each frame, each frame's row is the frame
   evaluated on its own. *)
Theorem frame_fresh_fixed : forall K M pts radii mask mapping row0 frames sched,
  covers (length frames) sched ->
  sasa_kernel K M pts radii mask mapping row0 true frames sched =
  map (fun fr => Some (frame_row K M pts radii mask mapping row0 fr)) frames.
Proof. exact sasa_fix_frame_fresh. Qed.
Print Assumptions frame_fresh_fixed.

(* Today's kernel (buffer carried across the frames of a thread): the same statement is FALSE ... *)
Theorem frame_fresh_current_refuted : exists K M pts radii mask mapping row0 frames sched,
  covers (length frames) sched /\
  sasa_kernel K M pts radii mask mapping row0 false frames sched <>
  map (fun fr => Some (frame_row K M pts radii mask mapping row0 fr)) frames.
Proof. exact sasa_cur_refuted. Qed.
Print Assumptions frame_fresh_current_refuted.

(* ... although it holds when every frame has a thread of its own (why 16 threads hide the defect). *)
Theorem frame_fresh_current_one_thread_per_frame : forall K M pts radii mask mapping row0 frames,
  sasa_kernel K M pts radii mask mapping row0 false frames (sched_one_each (length frames)) =
  map (fun fr => Some (frame_row K M pts radii mask mapping row0 fr)) frames.
Proof. exact sasa_cur_one_thread_per_frame. Qed.
Print Assumptions frame_fresh_current_one_thread_per_frame.

(* shrake_rupley as a whole (sasa.py + repaired kernel) does not depend on the schedule, and its rows are the
   single-frame rows the theorems above speak about. *)
Theorem shrake_rupley_schedule_independent : forall c sc1 sc2,
  covers (length (c_frames c)) sc1 -> covers (length (c_frames c)) sc2 ->
  shrake_rupley true sc1 c = shrake_rupley true sc2 c.
Proof. exact shrake_rupley_schedule_free. Qed.
Print Assumptions shrake_rupley_schedule_independent.

Theorem shrake_rupley_is_rows : forall c sched rows,
  covers (length (c_frames c)) sched -> shrake_rupley true sched c = Ok rows ->
  exists radii, radii_of (c_tbl c) (c_change c) (c_probe c) (c_elems c) = Some radii /\
    let n := length (c_elems c) in
    let mapping := mapping_of (c_mode c) n (c_resid c) in
    let ng := match c_mode c with AtomMode => n | ResidueMode => c_nres c end in
    rows = map (fun fr => Some (frame_row (c_K c) (c_M c) (c_pts c) radii (mask_of n (c_sel c)) mapping
                                          (init_row ng mapping (c_sel c)) fr)) (c_frames c).
Proof. exact shrake_rupley_rows. Qed.
Print Assumptions shrake_rupley_is_rows.

(* the two-stage form in which the correspondence evaluates the model (stage 1 once per system, stage 2 per mode)
   is the same function *)
Theorem shrake_rupley_two_stage_evaluation : forall c sched md, covers (length (c_frames c)) sched ->
  shrake_rupley true sched (set_mode md c) = shrake_rupley_post (set_mode md c) (shrake_rupley_pre c).
Proof.
  intros c sched md H. exact (eq_trans (shrake_rupley_two_stage (set_mode md c) sched H)
                                       (f_equal _ (shrake_rupley_pre_mode_irrelevant md c))).
Qed.
Print Assumptions shrake_rupley_two_stage_evaluation.

(* ---- atom order (radii and residue mapping are taken in Topology.atoms walk order, xyz in index order) ---- *)
(* For every topology whose walk order is the index order (all residues contiguous) the as-found code computes exactly
   the specified call ... *)
Theorem atom_order_contiguous_harmless : forall c,
  length (c_resid c) = length (c_elems c) ->
  as_found_view (seq 0 (length (c_elems c))) c = c.
Proof. exact as_found_view_contiguous. Qed.
Print Assumptions atom_order_contiguous_harmless.

(* ... and for an interleaved topology it does not: the statement "atom j gets the area of ITS expanded sphere" is
   false of the as-found code (witness: C and H far apart, residues interleaved; the areas come out swapped). *)
Theorem atom_order_current_refuted :
  shrake_rupley true (sched_serial 1) order_witness = Ok [Some [289; 144]] /\
  shrake_rupley true (sched_serial 1) (as_found_view (walk_order 2 [1%nat; 0%nat]) order_witness) = Ok [Some [144; 289]].
Proof. exact atom_order_current_refuted_lemma. Qed.
Print Assumptions atom_order_current_refuted.

(* ---- the form of atom_indices (sasa.py reads it twice: `ii in atom_indices` for the mask, numpy indexing for the overlay) ---- *)
(* Non-negative integer indices in range: both readings agree, the as-found code computes the specified call ... *)
Theorem atom_indices_valid_harmless : forall sched c l,
  Forall (fun i => 0 <= i < Z.of_nat (length (c_elems c))) l ->
  shrake_rupley_raw_cur sched c (RawInts l) = shrake_rupley true sched (set_sel (Some (map Z.to_nat l)) c) /\
  shrake_rupley_raw sched c (RawInts l) = shrake_rupley true sched (set_sel (Some (map Z.to_nat l)) c).
Proof. exact raw_valid_harmless. Qed.
Print Assumptions atom_indices_valid_harmless.

(* ... an index outside [-n, n) is refused by both ... *)
Theorem atom_indices_out_of_range_refused : forall sched c l, mode_refused c = false ->
  Exists (fun i => i < - Z.of_nat (length (c_elems c)) \/ Z.of_nat (length (c_elems c)) <= i) l ->
  shrake_rupley_raw_cur sched c (RawInts l) = ErrIndex /\ shrake_rupley_raw sched c (RawInts l) = ErrIndex.
Proof. exact raw_out_of_range_refused. Qed.
Print Assumptions atom_indices_out_of_range_refused.

(* ... but for a negative index the statement "an atom that is kept has the value it has without the restriction" is
   FALSE of the as-found code (atom_indices = [-1]: the last atom is reported as 0 instead of its area 289) ... *)
Theorem atom_indices_negative_current_refuted :
  shrake_rupley_raw_cur (sched_serial 1) rawsel_witness (RawInts [-1]) = Ok [Some [-1; -1; 0]] /\
  shrake_rupley_raw (sched_serial 1) rawsel_witness (RawInts [-1]) = Ok [Some [-1; -1; 289]] /\
  shrake_rupley true (sched_serial 1) (set_sel (Some [2%nat]) rawsel_witness) = Ok [Some [-1; -1; 289]].
Proof. exact raw_negative_refuted_lemma. Qed.
Print Assumptions atom_indices_negative_current_refuted.

(* ... and likewise for a boolean mask (an unselected atom gets area - 1, a selected one 0) *)
Theorem atom_indices_boolean_current_refuted :
  shrake_rupley_raw_cur (sched_serial 1) rawsel_witness (RawBools [true; false; true]) = Ok [Some [289; 288; 0]] /\
  shrake_rupley_raw (sched_serial 1) rawsel_witness (RawBools [true; false; true]) = Ok [Some [289; -1; 289]].
Proof. exact raw_boolean_refuted_lemma. Qed.
Print Assumptions atom_indices_boolean_current_refuted.

(* ---- non-vacuity: the hypotheses are satisfiable by non-trivial instances ---- *)

(* two overlapping atoms, a selection of one atom, two residues, six points on the unit sphere (M = 4):
   all hypotheses of the theorems above hold and the outputs are not trivial *)
Definition ex_pts : list vec := [(4, 0, 0); (-4, 0, 0); (0, 4, 0); (0, -4, 0); (0, 0, 4); (0, 0, -4)].
Definition ex_radii : list Z := [10; 8; 6].
Definition ex_frame : frame := [(0, 0, 0); (12, 0, 0); (100, 0, 0)].
Example hypotheses_satisfiable :
  length ex_frame = length ex_radii /\
  forallb (fun i => Nat.ltb i (length ex_radii)) [2%nat; 0%nat] = true /\
  Forall (fun s => norm2 s <= 4 * 4) ex_pts /\
  Forall (fun b => 0 <= snd b) (combine ex_frame ex_radii) /\
  atom_row 1 4 ex_pts ex_radii (Some [2%nat; 0%nat]) ex_frame = [500; -1; 216] /\
  group_row 1 4 ex_pts ex_radii (Some [2%nat; 0%nat]) ex_frame [0%nat; 0%nat; 1%nat] 3 = [500; 216; -1] /\
  atom_row 1 4 ex_pts ex_radii None ex_frame = [500; 320; 216] /\
  covers 3 (sched_static 3 2).
Proof.
  repeat split; try reflexivity; try (repeat constructor; cbn; discriminate).
  - intros i Hi. destruct i as [|[|[|i]]]; cbn; auto. exfalso. cbn in Hi. Lia.lia.
  - intros i Hi. cbn in Hi. destruct Hi as [<-|[<-|[<-|[]]]]; Lia.lia.
Qed.
Print Assumptions hypotheses_satisfiable.

Example radii_hypothesis_satisfiable :
  radii_of atomic_radii_U [("C"%string, 104857600)] 146800640 ["C"%string; "O"%string; "Cl"%string] =
  Some [104857600 + 146800640; 159383552 + 146800640; 189792256 + 146800640].
Proof. vm_compute. reflexivity. Qed.
Print Assumptions radii_hypothesis_satisfiable.

(* the hypotheses of two_sphere_cap_plus_y hold for the repository's own 96-point set with the run's tolerances, and the
   bounds pin the count: C (0.31 nm) at the origin, a second C 0.31 nm up the y axis: cos_cap = 1/2, 24 of 96 points buried *)
Example cap_plus_y_hypotheses_satisfiable :
  strata_sphere_ok spiral_M (t_y spiral_tolerances) (t_norm spiral_tolerances) shim_pts96 = true /\
  blocked_by spiral_M ((0, 0, 0), 310) ((0, 310, 0), 310) shim_pts96 = 24 /\
  count_naive spiral_M ((0, 0, 0), 310) [((0, 310, 0), 310)] shim_pts96 = 72.
Proof. repeat split; vm_compute; reflexivity. Qed.
Print Assumptions cap_plus_y_hypotheses_satisfiable.
