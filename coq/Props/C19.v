(* C19 — incremental writing equals one-shot writing and survives a crash.
   Only statements, closed by [exact], and Print Assumptions.

   [run step h st] feeds the write calls of history h to a writer; [sload]/[h5_load]/[nc_load] are what
   md.load makes of the file afterwards (None = unreadable or garbled).  [*_cur] = the code as found,
   [*_fix] = the proposed repair (validate, then write).  The policies pol_* say, per append-only format,
   what its write() validates and stores (Writer/Model.v). *)
From Coq Require Import List Bool Arith.
Import ListNotations.
Require Import MD.Writer.Model MD.Writer.Proofs MD.Writer.Dsl MD.Writer.Reflect MD.Writer.SemEq
               MD.Writer.WriterReference MD.Gen.WriterPrograms MD.Gen.WriterProgramsChecks MD.Writer.Instances.

(* ---- partition independence: any way of cutting the frames into consecutive write calls gives the file
   that one write call gives (frames, times, cells as md.load returns them) *)
Theorem partition_independent_append_only : forall pol s parts st,
  time_index_default pol = false \/ s_time s = true \/ store_time pol = false ->
  sload (snd (run (swrite pol) (map (mk_batch s) parts) st)) =
  sload (snd (swrite pol (mk_batch s (concat parts)) st)).
Proof. intros pol s parts st H. exact (stream_partition_independent pol s parts st H). Qed.
Print Assumptions partition_independent_append_only.

Theorem partition_independent_hdf5 : forall s parts,
  h5_load (snd (run h5_cur (map (mk_batch s) parts) h5init)) =
  h5_load (snd (run h5_cur [mk_batch s (concat parts)] h5init)).
Proof. exact h5_cur_partition. Qed.
Print Assumptions partition_independent_hdf5.

Theorem partition_independent_hdf5_fixed : forall s parts,
  h5_load (snd (run h5_fix (map (mk_batch s) parts) h5init)) =
  h5_load (snd (run h5_fix [mk_batch s (concat parts)] h5init)).
Proof. exact h5_fix_partition. Qed.
Print Assumptions partition_independent_hdf5_fixed.

Theorem partition_independent_netcdf : forall s parts,
  nc_load (snd (run nc_cur (map (mk_batch s) parts) ncinit)) =
  nc_load (snd (run nc_cur [mk_batch s (concat parts)] ncinit)).
Proof. exact nc_cur_partition. Qed.
Print Assumptions partition_independent_netcdf.

Theorem partition_independent_netcdf_fixed : forall s parts,
  nc_load (snd (run nc_fix (map (mk_batch s) parts) ncinit)) =
  nc_load (snd (run nc_fix [mk_batch s (concat parts)] ncinit)).
Proof. exact nc_fix_partition. Qed.
Print Assumptions partition_independent_netcdf_fixed.

(* xtc/trr as found: with time=None the stored time is the index within the call, so the file depends on
   the partition *)
Theorem partition_independent_xdr_without_time_refuted :
  let s := {| s_atoms := 4; s_cell := true; s_time := false |} in
  sload (snd (run (swrite pol_xdr) (map (mk_batch s) [[10]; [11]]) sinit)) =
    Some [(10, OVal 0, OVal 10); (11, OVal 0, OVal 11)] /\
  sload (snd (swrite pol_xdr (mk_batch s [10; 11]) sinit)) =
    Some [(10, OVal 0, OVal 10); (11, OVal 1, OVal 11)].
Proof. exact xdr_partition_dependent. Qed.
Print Assumptions partition_independent_xdr_without_time_refuted.

(* ---- ragged writes are refused *)
Theorem ragged_refused : forall pol st s b,
  chk_atoms pol = true -> chk_cell pol = true -> chk_time pol = true ->
  sf_schema st = Some s -> schema_of b <> s -> fst (swrite pol b st) = Refused.
Proof. exact stream_ragged_refused. Qed.
Print Assumptions ragged_refused.

(* the text writers (and xtc/trr for time) do not validate everything: witnesses *)
Theorem ragged_refused_text_writers_refuted :
  let st pol := snd (swrite pol (bt [10; 11] true true 4) sinit) in
  fst (swrite pol_mdcrd (bt [12] true true 5) (st pol_mdcrd)) = Ok /\
  fst (swrite pol_xyz (bt [12] true true 5) (st pol_xyz)) = Ok /\
  fst (swrite pol_lammpstrj (bt [12] true true 5) (st pol_lammpstrj)) = Ok /\
  fst (swrite pol_gro (bt [12] true true 5) (st pol_gro)) = Ok /\
  fst (swrite pol_gro (bt [12] false true 4) (st pol_gro)) = Ok /\
  fst (swrite pol_gro (bt [12] true false 4) (st pol_gro)) = Ok /\
  fst (swrite pol_pdb (bt [12] true true 5) (st pol_pdb)) = Ok /\
  fst (swrite pol_xdr (bt [12] true false 4) (st pol_xdr)) = Ok /\
  sload (snd (swrite pol_mdcrd (bt [12] true true 5) (st pol_mdcrd))) = None.
Proof. exact ragged_accepted_witnesses. Qed.
Print Assumptions ragged_refused_text_writers_refuted.

(* ---- a refused write leaves the file as it was *)
Theorem refused_write_atomic_append_only : forall pol b st,
  fst (swrite pol b st) = Refused -> snd (swrite pol b st) = st.
Proof. exact swrite_refused_unchanged. Qed.
Print Assumptions refused_write_atomic_append_only.

Theorem refused_write_atomic_hdf5_fixed : forall b st, h5_refuses st b = true -> h5_fix b st = (Refused, st).
Proof. exact h5_fix_atomic. Qed.
Print Assumptions refused_write_atomic_hdf5_fixed.

Theorem refused_write_atomic_netcdf_fixed : forall b st, nc_refuses st b = true -> nc_fix b st = (Refused, st).
Proof. exact nc_fix_atomic. Qed.
Print Assumptions refused_write_atomic_netcdf_fixed.

Theorem refused_write_atomic_hdf5_current_refuted :
  let st1 := snd (h5_cur (bt [10; 11] true true 4) h5init) in
  fst (h5_cur (bt [12; 13] true false 4) st1) = Refused /\
  h5_load st1 = Some [(10, OVal 10, OVal 10); (11, OVal 11, OVal 11)] /\
  h5_load (snd (h5_cur (bt [12; 13] true false 4) st1)) = None.
Proof. exact h5_cur_not_atomic. Qed.
Print Assumptions refused_write_atomic_hdf5_current_refuted.

Theorem refused_write_atomic_netcdf_current_refuted :
  let st1 := snd (nc_cur (bt [10; 11] true true 4) ncinit) in
  fst (nc_cur (bt [12; 13] true false 4) st1) = Refused /\
  nc_load st1 = Some [(10, OVal 10, OVal 10); (11, OVal 11, OVal 11)] /\
  nc_load (snd (nc_cur (bt [12; 13] true false 4) st1)) =
    Some [(10, OVal 10, OVal 10); (11, OVal 11, OVal 11); (12, OBad, OVal 12); (13, OBad, OVal 13)].
Proof. exact nc_cur_not_atomic. Qed.
Print Assumptions refused_write_atomic_netcdf_current_refuted.

(* ---- after ANY history of write calls (accepted and refused, in any order) the file loads with exactly the
   frames of the accepted calls, and the calls accepted are those with the schema of the first one *)
Theorem history_loads_accepted_all_checks : forall h st,
  sf_rows (snd (run (swrite full_policy) h st)) = sf_rows st ++ full_rows (accepted (sf_schema st) h) /\
  fst (run (swrite full_policy) h st) = full_codes (sf_schema st) h.
Proof. intros h st. exact (full_history h st). Qed.
Print Assumptions history_loads_accepted_all_checks.

Theorem history_loads_accepted_hdf5_fixed : forall h,
  h5_load (snd (run h5_fix h h5init)) = expected_load h /\ fst (run h5_fix h h5init) = full_codes None h.
Proof. exact h5_fix_history. Qed.
Print Assumptions history_loads_accepted_hdf5_fixed.

Theorem history_loads_accepted_netcdf_fixed : forall h,
  nc_load (snd (run nc_fix h ncinit)) = expected_load h /\ fst (run nc_fix h ncinit) = full_codes None h.
Proof. exact nc_fix_history. Qed.
Print Assumptions history_loads_accepted_netcdf_fixed.

(* ---- durability (partial: the meaning of flush is an assumption of the automaton, see Writer/Model.v) *)
Theorem flush_durable_partial : forall a ops1 ops2 img,
  In img (crash_images (drun a (ops1 ++ DFlush :: ops2))) ->
  exists rest rest', img = written ops1 ++ rest /\ written (ops1 ++ DFlush :: ops2) = img ++ rest'.
Proof. exact flush_durable. Qed.
Print Assumptions flush_durable_partial.

Theorem flush_then_crash_exact_partial : forall a ops img,
  In img (crash_images (drun a (ops ++ [DFlush]))) -> img = written ops.
Proof. exact flush_then_crash_exact. Qed.
Print Assumptions flush_then_crash_exact_partial.

Theorem write_through_durable_partial : forall ops img,
  In img (crash_images (drun true ops)) -> exists rest, written ops = img ++ rest /\
  (forall ops1 ids ops2, ops = ops1 ++ DWrite ids :: ops2 -> exists r, img = written ops1 ++ ids ++ r).
Proof. exact auto_flush_durable. Qed.
Print Assumptions write_through_durable_partial.

(* formats with a frame count in the header (DCD): durability needs the side condition that the header is refreshed
   after EVERY frame (hevery = 1), or that the reader derives the count from the file size (trust = false) *)
Theorem header_count_durable_partial : forall trust ops, hload trust (hrun 1 ops) = written ops.
Proof. exact header_count_durable. Qed.
Print Assumptions header_count_durable_partial.

Theorem size_derived_count_durable_partial : forall hevery ops, hload false (hrun hevery ops) = written ops.
Proof. exact size_derived_count_durable. Qed.
Print Assumptions size_derived_count_durable_partial.

(* ... instantiated at the refresh interval read from dcdplugin.c:write_dcdstep on every run *)
Theorem mdtraj_dcd_header_count_durable_partial : forall trust ops, hload trust (hrun dcd_header_every ops) = written ops.
Proof. exact dcd_header_durable. Qed.
Print Assumptions mdtraj_dcd_header_count_durable_partial.

(* without the side condition: header refreshed every 8th frame + a reader that trusts a non-zero header *)
Theorem header_refreshed_every_8_frames_refuted :
  hload true (hrun 8 [DWrite [1; 2; 3; 4; 5]; DWrite [6; 7; 8; 9; 10; 11]]) = [1; 2; 3; 4; 5; 6; 7; 8] /\
  hload true (hrun 8 [DWrite [1; 2; 3; 4; 5]; DWrite [6; 7; 8; 9; 10; 11]; DClose]) = [1; 2; 3; 4; 5; 6; 7; 8; 9; 10; 11] /\
  hload true (hrun 8 [DWrite [1; 2; 3; 4; 5; 6; 7]]) = [1; 2; 3; 4; 5; 6; 7].
Proof. exact header_refresh_every_8_loses_frames. Qed.
Print Assumptions header_refreshed_every_8_frames_refuted.

(* ---- reflection over the write() methods themselves (Writer/Dsl.v; programs regenerated from /repo by the
   translator of harness/props/C19.py into Gen/WriterPrograms.v on every run) *)

(* a write() whose schema tests all precede its first mutation refuses atomically — for EVERY program the checker
   accepts, every lawful storage backend, every call and every file state *)
Theorem validates_before_mutation_atomic : forall (S : Type) (bk : backend S) (p : wprog),
  backend_ok bk -> check_vbm p = true ->
  forall b st, fst (sem bk p b st) = Refused -> snd (sem bk p b st) = st.
Proof. exact @vbm_refused_atomic. Qed.
Print Assumptions validates_before_mutation_atomic.

(* a write() that tests every field of its API refuses every call whose schema differs from the file's *)
Theorem schema_complete_ragged_refused : forall (S : Type) (bk : backend S) (api : list field) (p : wprog),
  backend_ok bk -> check_complete api p = true ->
  forall b st s f, In f api -> bk_schema bk st = Some s -> differs Both f b s = true ->
    (requires f p = true -> s_has f s = true) ->
    fst (sem bk p b st) = Refused.
Proof. exact @complete_ragged_refused. Qed.
Print Assumptions schema_complete_ragged_refused.

(* today's sources: all eleven write() methods validate before they mutate *)
Theorem mdtraj_write_methods_refuse_atomically : forall n p api, In (n, p, api) writers ->
  forall (S : Type) (bk : backend S), backend_ok bk ->
  forall b st, fst (sem bk p b st) = Refused -> snd (sem bk p b st) = st.
Proof. exact mdtraj_writers_refuse_atomically. Qed.
Print Assumptions mdtraj_write_methods_refuse_atomically.

(* ... and their meaning is the model the theorems above speak about: the repaired HDF5 and NetCDF writers, and
   [swrite] with the policy READ OFF the program (pol_of) for the nine append-only writers *)
Theorem hdf5_write_program_is_model : forall h, run (sem h5_bk h5_write) h h5init = run h5_fix h h5init.
Proof. exact h5_program_is_model. Qed.
Print Assumptions hdf5_write_program_is_model.

Theorem netcdf_write_program_is_model : forall h, run (sem nc_bk nc_write) h ncinit = run nc_fix h ncinit.
Proof. exact nc_program_is_model. Qed.
Print Assumptions netcdf_write_program_is_model.

Theorem append_only_write_programs_are_models :
  stream_model pol_xdr xtc_write /\ stream_model pol_xdr trr_write /\ stream_model pol_dcd dcd_write /\
  stream_model pol_mdcrd mdcrd_write /\ stream_model pol_xyz xyz_write /\ stream_model pol_lammpstrj lammpstrj_write /\
  stream_model pol_gro gro_write /\ stream_model pol_pdb pdb_write /\ stream_model pol_dtr dtr_write.
Proof. exact stream_programs_are_models. Qed.
Print Assumptions append_only_write_programs_are_models.

(* ---- partition independence of the write() methods THEMSELVES: the programs regenerated from today's /repo (their
   equality with the models is re-proved on every run), for EVERY ordered partition of the frames into write calls *)
Theorem mdtraj_hdf5_write_partition_independent : forall s parts,
  h5_load (snd (run (sem h5_bk h5_write) (map (mk_batch s) parts) h5init)) =
  h5_load (snd (run (sem h5_bk h5_write) [mk_batch s (List.concat parts)] h5init)).
Proof. exact h5_program_partition. Qed.
Print Assumptions mdtraj_hdf5_write_partition_independent.

Theorem mdtraj_netcdf_write_partition_independent : forall s parts,
  nc_load (snd (run (sem nc_bk nc_write) (map (mk_batch s) parts) ncinit)) =
  nc_load (snd (run (sem nc_bk nc_write) [mk_batch s (List.concat parts)] ncinit)).
Proof. exact nc_program_partition. Qed.
Print Assumptions mdtraj_netcdf_write_partition_independent.

(* the nine append-only writers; the side condition (the stored time does not depend on the position of the frame
   within its call) fails only for xtc/trr called with time=None, see partition_independent_xdr_without_time_refuted *)
Theorem mdtraj_append_only_write_partition_independent :
  stream_partition_ok pol_xdr xtc_write /\ stream_partition_ok pol_xdr trr_write /\
  stream_partition_ok pol_dcd dcd_write /\ stream_partition_ok pol_mdcrd mdcrd_write /\
  stream_partition_ok pol_xyz xyz_write /\ stream_partition_ok pol_lammpstrj lammpstrj_write /\
  stream_partition_ok pol_gro gro_write /\ stream_partition_ok pol_pdb pdb_write /\
  stream_partition_ok pol_dtr dtr_write.
Proof. exact stream_programs_partition. Qed.
Print Assumptions mdtraj_append_only_write_partition_independent.

(* ... and after ANY history of accepted and refused calls the HDF5 / NetCDF programs leave exactly the accepted frames *)
Theorem mdtraj_hdf5_write_history_loads_accepted : forall h,
  h5_load (snd (run (sem h5_bk h5_write) h h5init)) = expected_load h /\
  fst (run (sem h5_bk h5_write) h h5init) = full_codes None h.
Proof. exact h5_program_history. Qed.
Print Assumptions mdtraj_hdf5_write_history_loads_accepted.

Theorem mdtraj_netcdf_write_history_loads_accepted : forall h,
  nc_load (snd (run (sem nc_bk nc_write) h ncinit)) = expected_load h /\
  fst (run (sem nc_bk nc_write) h ncinit) = full_codes None h.
Proof. exact nc_program_history. Qed.
Print Assumptions mdtraj_netcdf_write_history_loads_accepted.

(* the checkers' verdict on hdf5.py / netcdf.py / mdcrd.py as they were before the fix: commits, and on a program
   with a mutation moved in front of a validation (which really is not atomic) *)
Theorem write_methods_as_found_rejected_refuted :
  check_vbm h5_write_asfound = false /\ check_vbm nc_write_asfound = false /\
  check_complete [FAtoms; FCell] mdcrd_write_asfound = false /\
  check_vbm WriterReference.h5_write = true /\ check_vbm WriterReference.nc_write = true /\
  check_complete [FAtoms; FCell] WriterReference.mdcrd_write = true.
Proof. exact asfound_verdicts. Qed.
Print Assumptions write_methods_as_found_rejected_refuted.

Theorem reordered_program_rejected_and_not_atomic : check_vbm reordered = false /\
  exists b st, fst (sem h5_bk reordered b st) = Refused /\ snd (sem h5_bk reordered b st) <> st.
Proof. exact checker_rejects_reordered. Qed.
Print Assumptions reordered_program_rejected_and_not_atomic.

(* ---- non-vacuity: a partition with several parts, a ragged history, a crash with buffered frames *)
Example hypotheses_satisfiable :
  let s := {| s_atoms := 4; s_cell := true; s_time := true |} in
  sload (snd (run (swrite pol_xdr) (map (mk_batch s) [[10; 11]; [12]; [13; 14]]) sinit)) =
    Some [(10, OVal 10, OVal 10); (11, OVal 11, OVal 11); (12, OVal 12, OVal 12); (13, OVal 13, OVal 13);
          (14, OVal 14, OVal 14)] /\
  fst (run h5_fix [bt [10; 11] true true 4; bt [12] false true 4; bt [13] true true 5; bt [14] true true 4] h5init)
    = [Ok; Refused; Refused; Ok] /\
  h5_load (snd (run h5_fix [bt [10; 11] true true 4; bt [12] false true 4; bt [14] true true 4] h5init)) =
    Some [(10, OVal 10, OVal 10); (11, OVal 11, OVal 11); (14, OVal 14, OVal 14)] /\
  crash_images (drun false [DWrite [1; 2]; DFlush; DWrite [3; 4]]) = [[1; 2]; [1; 2; 3]; [1; 2; 3; 4]] /\
  schema_of (bt [12] false true 4) <> s /\
  sload (snd (run (sem (stream_bk pol_dcd) dcd_write) (map (mk_batch s) [[10]; []; [11; 12]]) sinit)) =
    Some [(10, OVal 0, OVal 10); (11, OVal 1, OVal 11); (12, OVal 2, OVal 12)] /\
  (time_index_default pol_dcd = false \/ s_time s = true \/ store_time pol_dcd = false).
Proof. vm_compute. repeat split; try discriminate. left; reflexivity. Qed.
Print Assumptions hypotheses_satisfiable.
