(* C04 — topology transformations preserve atoms, residues, chains and bonds; equal topologies
   hash equal; a copy is independent.
   Only statements, closed by [exact], and Print Assumptions.

   Vocabulary (coq/Topo/Model.v): a heap of Chain/Residue/Atom objects named by locations; a
   topology holds location lists and bonds whose ends are atom locations; [abs h t] is the value a
   chain-wise walk reads (names, elements, serials, indices, residue numbers, segment ids, chain ids,
   bonds as index pairs with type and order); [reach h t] every location the topology can hand out;
   [flags_cur] = mdtraj as found, [flags_fix] = the minimal repairs (fixes/C04-*.diff).
   [wfo h t] = well formed and built in chain order (coq/Topo/Copy.v). *)
From Coq Require Import String Ascii.
From Coq Require Import List Arith ZArith Bool.
Import ListNotations.
Require Import MD.Topo.Model MD.Topo.Carriers MD.Topo.Run MD.Topo.Basics MD.Topo.Build MD.Topo.AbsWalk MD.Topo.Copy
  MD.Topo.EqHash MD.Topo.Frame MD.Topo.Independent MD.Topo.Subset MD.Topo.CarrierProofs MD.Topo.BuildFrom MD.Topo.Join
  MD.Topo.Wf MD.Topo.Results MD.Topo.Inv MD.Topo.JoinFull MD.Topo.EqEquiv MD.Topo.Pickle MD.Topo.Witness
  MD.Topo.InvAll MD.Topo.PdbProofs MD.Topo.SubsetSet MD.Topo.PdbAtoms MD.Topo.EqCarrier.

(* ---------------------------------------------------------------- copy / deepcopy *)
(* the repaired copy() preserves every atom (name, element, serial, index), residue (name, number,
   segment id, index), chain (index AND chain id) and bond (ends, type, order) *)
Theorem copy_abs : forall h t h' t',
  wfo h t -> copy flags_fix h t = Some (h', t') -> abs h' t' = abs h t.
Proof. exact Copy.copy_abs. Qed.
Print Assumptions copy_abs.

(* as found: chain ids are lost *)
Theorem copy_abs_current_refuted :
  exists h t h' t', wfo h t /\ copy flags_cur h t = Some (h', t') /\ abs h' t' <> abs h t.
Proof. exact copy_abs_cur_refuted. Qed.
Print Assumptions copy_abs_current_refuted.

(* a copy is independent: every object it can reach (chains, residues, atoms, bond ends) was
   allocated by the copy, so it shares nothing with the source or with any other topology u *)
Theorem copy_fresh : forall h t h' t',
  wfo h t -> copy flags_fix h t = Some (h', t') -> forall l, In l (reach h' t') -> h_next h <= l.
Proof. exact Copy.copy_fresh. Qed.
Print Assumptions copy_fresh.

Theorem copy_independent : forall h t h' t' u,
  wfo h t -> wfo h u -> copy flags_fix h t = Some (h', t') ->
  forall l, In l (reach h' t') -> ~ In l (reach h' u).
Proof. exact Copy.copy_independent. Qed.
Print Assumptions copy_independent.

(* as found: the bonds of the copy are bonds between the SOURCE's atoms *)
Theorem copy_independent_current_refuted :
  exists h t h' t' l, wfo h t /\ copy flags_cur h t = Some (h', t') /\ In l (reach h' t') /\ In l (reach h' t).
Proof. exact copy_independent_cur_refuted. Qed.
Print Assumptions copy_independent_current_refuted.

(* copying modifies no object that existed before (so every other topology reads as before) ... *)
Theorem copy_frame : forall h t h' t',
  wfo h t -> copy flags_fix h t = Some (h', t') -> agree (h_next h) h h'.
Proof. exact Copy.copy_frame. Qed.
Print Assumptions copy_frame.

(* ... and both the copy and the source are well formed afterwards *)
Theorem copy_wf : forall h t h' t',
  wfo h t -> copy flags_fix h t = Some (h', t') -> wfo h' t' /\ wfo h' t.
Proof. exact Copy.copy_wfo. Qed.
Print Assumptions copy_wf.

(* ---------------------------------------------------------------- edits of either side *)
(* one edit (add_chain, add_residue, add_atom, add_bond, insert_atom, delete_atom_by_index; either
   variant) of a topology t changes neither the abstraction nor the reach of any topology u that
   shares no reachable object with t ([back_ok]: atoms of t point back to residues of t) *)
Theorem edit_frame : forall fl st o s t u,
  edit_slot o = Some s -> nth_error (st_tops st) s = Some t -> back_ok (st_heap st) t ->
  (forall l, In l (reach (st_heap st) u) -> l < h_next (st_heap st) /\ ~ In l (reach (st_heap st) t)) ->
  abs (st_heap (step fl st o)) u = abs (st_heap st) u /\
  reach (st_heap (step fl st o)) u = reach (st_heap st) u.
Proof. exact Frame.edit_frame. Qed.
Print Assumptions edit_frame.

(* hence: after a (repaired) copy, editing the source never changes the copy and editing the copy
   never changes the source *)
Theorem copy_edit_independent : forall h t h' t' st fl o s1 s2,
  wfo h t -> copy flags_fix h t = Some (h', t') ->
  st_heap st = h' -> nth_error (st_tops st) s1 = Some t -> nth_error (st_tops st) s2 = Some t' ->
  (edit_slot o = Some s1 -> abs (st_heap (step fl st o)) t' = abs h' t') /\
  (edit_slot o = Some s2 -> abs (st_heap (step fl st o)) t = abs h' t).
Proof. exact Independent.copy_edit_independent. Qed.
Print Assumptions copy_edit_independent.

(* as found, an edit of the source is seen through the copy (bond indices change) *)
Theorem edit_frame_current_refuted :
  let st1 := run flags_cur alias_ops in
  let st2 := step flags_cur st1 (OInsertAtom 0 0 "N" "N" (Some 0) (Some 0) None) in
  abs (st_heap st2) (slot st2 1) <> abs (st_heap st1) (slot st1 1).
Proof. exact edit_frame_cur_refuted. Qed.
Print Assumptions edit_frame_current_refuted.

(* ---------------------------------------------------------------- subset / atom_slice *)
(* the repaired _topology_from_subset computes exactly the specified restriction [subset_v] ... *)
Theorem subset_abs : forall h t keep h' t' v,
  wfo h t -> abs h t = Some v -> subset flags_fix h t keep = Some (h', t') -> abs h' t' = Some (subset_v keep v).
Proof. exact Subset.subset_abs. Qed.
Print Assumptions subset_abs.

(* ... whose atoms are the kept atoms in order, names/elements/serials unchanged, indices 0..n-1 *)
Theorem subset_spec_atoms : forall keep v,
  v_atoms (subset_v keep v) = renum_atoms 0 (filter (keepb keep) (v_atoms v)).
Proof. exact Subset.subset_spec_atoms. Qed.
Print Assumptions subset_spec_atoms.

(* ... whose residues keep name, resSeq and segment id and whose chains keep their id: indices aside,
   the subset is the source with the dropped atoms, then-empty residues and then-empty chains removed *)
Theorem subset_spec_content : forall keep v,
  map strip_chain (vt_chains (subset_v keep v)) = map strip_chain (filter has_res (map (sub_chain keep) (vt_chains v))).
Proof. exact Subset.subset_spec_content. Qed.
Print Assumptions subset_spec_content.

Theorem subset_spec_no_empty : forall keep v,
  (forall c, In c (vt_chains (subset_v keep v)) -> vc_res c <> []) /\
  (forall r, In r (v_residues (subset_v keep v)) -> vr_atoms r <> []).
Proof. exact Subset.subset_spec_no_empty. Qed.
Print Assumptions subset_spec_no_empty.

(* ... numbered 0,1,2,... (chains, residues, atoms) *)
Theorem subset_spec_normal : forall keep v, normal (vt_chains (subset_v keep v)).
Proof. exact Subset.subset_spec_normal. Qed.
Print Assumptions subset_spec_normal.

(* ... and a bond survives iff both ends are kept; it is re-pointed to the new indices, type and order kept *)
Theorem subset_spec_bonds : forall keep v b',
  In b' (vt_bonds (subset_v keep v)) <->
  exists b i j, In b (vt_bonds v) /\ rank keep v (vb_i b) = Some i /\ rank keep v (vb_j b) = Some j /\
                b' = {| vb_i := i; vb_j := j; vb_type := vb_type b; vb_order := vb_order b |}.
Proof. exact Subset.subset_spec_bonds. Qed.
Print Assumptions subset_spec_bonds.

(* the subset is made of fresh objects only and nothing that existed is modified *)
Theorem subset_independent : forall h t keep h' t' v u,
  wfo h t -> wfo h u -> abs h t = Some v -> subset flags_fix h t keep = Some (h', t') ->
  forall l, In l (reach h' t') -> ~ In l (reach h' u).
Proof. exact Subset.subset_independent. Qed.
Print Assumptions subset_independent.

Theorem subset_frame : forall h t keep h' t' v,
  wfo h t -> abs h t = Some v -> subset flags_fix h t keep = Some (h', t') -> agree (h_next h) h h'.
Proof. exact Subset.subset_frame. Qed.
Print Assumptions subset_frame.

(* as found: chain ids are lost and resSeq 0 is replaced by the residue index *)
Theorem subset_abs_current_refuted :
  exists h t keep h' t' v, wfo h t /\ abs h t = Some v /\ subset flags_cur h t keep = Some (h', t') /\
                           abs h' t' <> Some (subset_v keep v).
Proof. exact subset_abs_cur_refuted. Qed.
Print Assumptions subset_abs_current_refuted.

(* ---------------------------------------------------------------- join / stack *)
(* repaired join(other, keep_resSeq), both values: self's chains followed by other's chains (ids kept)
   renumbered after them — with keep_resSeq=False other's residues are numbered on from the residue that holds
   self's last atom ([join_v_gen], [last_resSeq], [reseq_chains]); self's bonds followed by other's bonds shifted
   by the number of atoms of self; nothing that existed is modified and everything the result reaches is fresh *)
Theorem join_abs : forall h t other keep h' t' va vo,
  wfo h t -> wfo h other -> abs h t = Some va -> abs h other = Some vo ->
  join flags_fix h t other keep = Some (h', t') ->
  Some (abs h' t') = option_map Some (join_v_gen keep va vo) /\
  agree (h_next h) h h' /\ (forall l, In l (reach h' t') -> h_next h <= l).
Proof. exact JoinFull.join_abs_full. Qed.
Print Assumptions join_abs.

Theorem join_abs_current_refuted :
  exists h t o h' t' va vo, wfo h t /\ wfo h o /\ abs h t = Some va /\ abs h o = Some vo /\
                            join flags_cur h t o true = Some (h', t') /\ abs h' t' <> Some (join_v va vo).
Proof. exact join_abs_cur_refuted. Qed.
Print Assumptions join_abs_current_refuted.

(* ---------------------------------------------------------------- carriers *)
(* a topology decoded from any carrier (from_dataframe, HDF5 JSON, PDB reader) is built by the add_* calls:
   chains/residues/atoms are numbered 0,1,2,..., bonds are oriented by index, only fresh objects are
   allocated and nothing that existed is modified *)
Theorem build_from_abs : forall h d h' t',
  hwf h -> build_from h d = Some (h', t') ->
  abs h' t' = Some {| vt_chains := num_chains 0 0 0 (fst d); vt_bonds := map orient (snd d) |} /\
  agree (h_next h) h h' /\ hwf h' /\ (forall l, In l (reach h' t') -> h_next h <= l).
Proof. exact BuildFrom.build_from_abs. Qed.
Print Assumptions build_from_abs.

(* HDF5 JSON: for every topology numbered along the walk, what comes back is the source with exactly the
   fields the schema lacks erased (full = false: serial, chain id, bond type, bond order); with a schema
   holding them (full = true) nothing is lost *)
Theorem h5_roundtrip : forall full v,
  normal (vt_chains v) ->
  num_chains 0 0 0 (fst (h5_round full v)) = map (erase_chain full) (vt_chains v) /\
  snd (h5_round full v) =
  map (fun b => if full then (vb_i b, vb_j b, vb_type b, vb_order b) else (vb_i b, vb_j b, None, None)) (vt_bonds v).
Proof. exact CarrierProofs.h5_roundtrip. Qed.
Print Assumptions h5_roundtrip.

Theorem h5_roundtrip_full : forall v, normal (vt_chains v) -> num_chains 0 0 0 (fst (h5_round true v)) = vt_chains v.
Proof. exact CarrierProofs.h5_roundtrip_full. Qed.
Print Assumptions h5_roundtrip_full.

(* as found: serial, chain id and bond type/order do not survive although JSON could hold them *)
Theorem h5_roundtrip_current_refuted :
  exists v, normal (vt_chains v) /\
            (num_chains 0 0 0 (fst (h5_round false v)) <> vt_chains v) /\
            (map orient (snd (h5_round false v)) <> vt_bonds v).
Proof. exact h5_roundtrip_cur_refuted. Qed.
Print Assumptions h5_roundtrip_current_refuted.

(* data frame (repaired from_dataframe), partial by nature of the carrier: exact when no chain/residue is
   empty and consecutive residues of a chain differ in (resSeq, resName); chain ids have no column.
   Atoms (serials included), residues and bonds with type and order come back unchanged *)
Theorem df_roundtrip_partial : forall v,
  normal (vt_chains v) -> df_exact v -> Forall vbond_ok (vt_bonds v) ->
  num_chains 0 0 0 (fst (df_round true v)) =
    map (fun c => {| vc_index := vc_index c; vc_id := None; vc_res := vc_res c |}) (vt_chains v) /\
  snd (df_round true v) = map bond4 (vt_bonds v).
Proof. exact CarrierProofs.df_roundtrip_partial. Qed.
Print Assumptions df_roundtrip_partial.

Example df_exact_witness : normal (vt_chains df_v) /\ df_exact df_v /\ Forall vbond_ok (vt_bonds df_v).
Proof. exact df_v_exact. Qed.
Print Assumptions df_exact_witness.

(* PDB.  Modelled in Coq and compared with mdtraj on every run: the writer (ATOM/TER/CONECT incl. the
   standardResidues filter) and the reader (chain/residue splitting, CONECT bonds, create_standard_bonds with the
   table of residues.xml regenerated into coq/Gen/TopoStdBonds.v).  Theorems: only the witnesses below; agreement
   of CONECT and ATOM numbering and the round trip for ALL topologies are established by the runs and by the
   model-free bond-graph oracle, not by a theorem.  Oracle/run-only (outside the Coq model): pdbNames.xml renaming,
   distance-based disulfide detection, element guessing, hybrid-36 numbering.
   As found: CONECT records carry numbers that are not the numbers of the ATOM records (single chain with serials
   5 and 9), the bond is lost on reload; the repaired writer keeps it. *)
Theorem pdb_conect_agrees_current_refuted :
  let st := run flags_cur pdb_ops in
  exists recs, pdb_write flags_cur true (st_heap st) (slot st 0) = Some recs /\ conect_refers_to_atoms recs = false.
Proof. exact pdb_conect_cur_refuted. Qed.
Print Assumptions pdb_conect_agrees_current_refuted.

Theorem pdb_roundtrip_bond_current_lost :
  let st := run flags_cur (pdb_ops ++ [OPdb 0 true])%list in
  option_map vt_bonds (abs (st_heap st) (slot st 1)) = Some [].
Proof. exact pdb_roundtrip_bond_cur_lost. Qed.
Print Assumptions pdb_roundtrip_bond_current_lost.

Example pdb_roundtrip_bond_fixed_kept :
  let st := run flags_fix (pdb_ops ++ [OPdb 0 true])%list in
  option_map vt_bonds (abs (st_heap st) (slot st 1)) = Some [{| vb_i := 0; vb_j := 1; vb_type := None; vb_order := None |}].
Proof. exact pdb_roundtrip_bond_fix_kept. Qed.
Print Assumptions pdb_roundtrip_bond_fixed_kept.

(* two hubs with five partners each: as found 8 of the 9 bonds come back, repaired all 9 *)
Theorem pdb_conect_continuation_current_refuted :
  let st := run flags_cur pdb_ops5 in
  option_map (fun v => length (vt_bonds v)) (abs (st_heap st) (slot st 1)) = Some 8.
Proof. exact pdb_conect_del_cur_refuted. Qed.
Print Assumptions pdb_conect_continuation_current_refuted.

Example pdb_conect_continuation_fixed :
  let st := run flags_fix pdb_ops5 in
  option_map (fun v => length (vt_bonds v)) (abs (st_heap st) (slot st 1)) = Some 9.
Proof. exact pdb_conect_del_fix_witness. Qed.
Print Assumptions pdb_conect_continuation_fixed.

(* ---------------------------------------------------------------- histories *)
(* [wf h t] (coq/Topo/Wf.v): chains without repetition and c_index = position; the residues of the chains
   are, without repetition, a permutation of _residues and r_index = position in _residues; likewise the
   atoms and _atoms with a_index = position; every atom points back to a residue of the topology; the counters
   equal the list lengths; every bond joins two atoms of _atoms and has a legal order.  It holds for
   topologies built and edited in any order.

   Headline: for EVERY finite sequence of new / add_chain / add_residue / add_atom / add_bond / insert_atom /
   delete_atom_by_index / copy / subset / join (either keep_resSeq) applied, in the repaired variants, from the
   empty state to any of the topologies created so far (ops that raise included): every topology is well
   formed, and any two topologies share no reachable object (in particular a copy or a subset and its source,
   whatever edits either has seen since). *)
Theorem wf_inv : forall ops i t,
  forallb hist_op ops = true -> nth_error (st_tops (run flags_fix ops)) i = Some t -> wf (st_heap (run flags_fix ops)) t.
Proof. exact Inv.wf_inv. Qed.
Print Assumptions wf_inv.

Theorem independent_inv : forall ops i j ti tj,
  forallb hist_op ops = true -> i <> j ->
  nth_error (st_tops (run flags_fix ops)) i = Some ti -> nth_error (st_tops (run flags_fix ops)) j = Some tj ->
  disjoint (reach (st_heap (run flags_fix ops)) ti) (reach (st_heap (run flags_fix ops)) tj).
Proof. exact Inv.independent_inv. Qed.
Print Assumptions independent_inv.

(* the inductive step, usable from any state satisfying the invariant *)
Theorem inv_step : forall st o, hist_op o = true -> inv st -> inv (step flags_fix st o).
Proof. exact Inv.inv_step. Qed.
Print Assumptions inv_step.

(* result lemmas that make the theorems compose: whatever the source looks like (only a successful call is
   assumed), copy / subset / join return a well-formed topology made of fresh objects only and modify nothing *)
Theorem copy_result : forall h t h' t',
  hwf h -> copy flags_fix h t = Some (h', t') ->
  wf h' t' /\ agree (h_next h) h h' /\ h_next h <= h_next h' /\ (forall l, In l (reach h' t') -> h_next h <= l).
Proof. exact Results.copy_result. Qed.
Print Assumptions copy_result.

Theorem subset_result : forall h t keep h' t',
  hwf h -> subset flags_fix h t keep = Some (h', t') ->
  wf h' t' /\ agree (h_next h) h h' /\ h_next h <= h_next h' /\ (forall l, In l (reach h' t') -> h_next h <= l).
Proof. exact Results.subset_result. Qed.
Print Assumptions subset_result.

Theorem join_result : forall h t other keep h' t',
  hwf h -> join flags_fix h t other keep = Some (h', t') ->
  wf h' t' /\ agree (h_next h) h h' /\ h_next h <= h_next h' /\ (forall l, In l (reach h' t') -> h_next h <= l).
Proof. exact Results.join_result. Qed.
Print Assumptions join_result.

(* non-vacuity: a history with edits after a copy and a subset satisfies the hypothesis *)
Example history_witness : forallb hist_op (alias_ops ++ [OInsertAtom 0 0 "N" "N" (Some 0) (Some 0) None; OSubset 1 [0; 2];
                                                        ODelete 1 1; OJoin 2 0 false])%list = true.
Proof. reflexivity. Qed.
Print Assumptions history_witness.

(* as found the invariant is false: *)
Theorem wf_inv_current_refuted_delete_by_equality :
  let st := run flags_cur del_ops in lists_agree (st_heap st) (slot st 0) = false.
Proof. exact delete_cur_breaks_ownership. Qed.
Print Assumptions wf_inv_current_refuted_delete_by_equality.

Theorem wf_inv_current_refuted_dangling_bond :
  let st := run flags_cur del_ops2 in bonds_owned (slot st 0) = false.
Proof. exact delete_cur_leaves_dangling_bond. Qed.
Print Assumptions wf_inv_current_refuted_dangling_bond.

Example wf_inv_fixed_delete_witnesses :
  (let st := run flags_fix del_ops in lists_agree (st_heap st) (slot st 0) = true) /\
  (let st := run flags_fix del_ops2 in bonds_owned (slot st 0) = true).
Proof. exact (conj delete_fix_keeps_ownership delete_fix_drops_bond). Qed.
Print Assumptions wf_inv_fixed_delete_witnesses.

(* ---------------------------------------------------------------- == and hash *)
(* repaired __hash__: for all topologies whose _atoms list is index-consistent, == implies equal
   hash (the four hashed tuples coincide) *)
Theorem eq_hash : eq_hash_stmt flags_fix.
Proof. exact eq_hash_fix_holds. Qed.
Print Assumptions eq_hash.

(* as found: two topologies differing only in resSeq are == but hash differently ... *)
Theorem eq_hash_current_refuted : ~ eq_hash_stmt flags_cur.
Proof. exact eq_hash_cur_refuted. Qed.
Print Assumptions eq_hash_current_refuted.

(* ... and so do two topologies holding the same bonds added in a different order *)
Theorem eq_hash_current_refuted_bond_order : ~ eq_hash_stmt flags_cur.
Proof. exact eq_hash_cur_refuted_bond_order. Qed.
Print Assumptions eq_hash_current_refuted_bond_order.

(* == (as a function of the chain-wise value) is an equivalence relation, on all topologies *)
Theorem eq_equivalence :
  (forall a, teq a a = true) /\ (forall a b, teq a b = true -> teq b a = true) /\
  (forall a b c, teq a b = true -> teq b c = true -> teq a c = true).
Proof. exact (conj teq_refl (conj teq_sym teq_trans)). Qed.
Print Assumptions eq_equivalence.

(* on the topologies reachable by ANY history (see wf_inv) == implies equal hash: the side conditions of
   [eq_hash] are consequences of well-formedness *)
Theorem eq_hash_reachable : forall ops i j ti tj va vb ka kb,
  forallb hist_op ops = true ->
  let st := run flags_fix ops in
  nth_error (st_tops st) i = Some ti -> nth_error (st_tops st) j = Some tj ->
  abs (st_heap st) ti = Some va -> abs (st_heap st) tj = Some vb ->
  hash_keys flags_fix (st_heap st) ti = Some ka -> hash_keys flags_fix (st_heap st) tj = Some kb ->
  teq va vb = true -> xor_equal ka kb = true.
Proof. exact EqEquiv.eq_hash_reachable. Qed.
Print Assumptions eq_hash_reachable.

(* eq_preserved: a copy compares equal to its source (both read in the new heap) ... *)
Theorem eq_preserved_copy : forall h t h' t' v,
  wfo h t -> abs h t = Some v -> copy flags_fix h t = Some (h', t') ->
  abs h' t = Some v /\ exists v', abs h' t' = Some v' /\ teq v v' = true /\ teq v' v = true.
Proof. exact EqEquiv.copy_eq. Qed.
Print Assumptions eq_preserved_copy.

(* ... so does the subset of ALL atoms of a topology without empty residues/chains (empty ones vanish) ... *)
Theorem eq_preserved_subset_all : forall h t keep h' t' v,
  wfo h t -> abs h t = Some v -> no_empty v ->
  (forall a, In a (v_atoms v) -> keepb keep a = true) ->
  (forall b, In b (vt_bonds v) -> vb_i b < length (v_atoms v) /\ vb_j b < length (v_atoms v)) ->
  subset flags_fix h t keep = Some (h', t') ->
  abs h' t' = Some v /\ teq v v = true.
Proof. exact EqEquiv.subset_all_eq. Qed.
Print Assumptions eq_preserved_subset_all.

(* ... and so does a pickle round trip (model: the object graph is duplicated at shifted locations): the
   abstraction, hence ==, is preserved for every topology, and nothing that existed is modified *)
Theorem eq_preserved_pickle : forall h t,
  hwf h -> abs (fst (pickle h t)) (snd (pickle h t)) = abs h t /\ agree (h_next h) h (fst (pickle h t)).
Proof. intros h t B. exact (conj (pickle_abs h t B) (pickle_agree h t)). Qed.
Print Assumptions eq_preserved_pickle.

(* ---------------------------------------------------------------- non-vacuity *)
(* a two-chain topology with chain ids, repeated residue number 0, non-contiguous serials, a virtual
   site and typed bonds across residues and chains satisfies [wfo], and the repaired copy runs on it *)
Example wfo_witness : wfo wit_h wit_t.
Proof. exact wit_wfo. Qed.
Print Assumptions wfo_witness.

Example copy_runs_on_witness : exists h' t', copy flags_fix wit_h wit_t = Some (h', t').
Proof. exact wit_copy_fix_runs. Qed.
Print Assumptions copy_runs_on_witness.

Example subset_runs_on_witness :
  exists h' t' v, abs wit_h wit_t = Some v /\ subset flags_fix wit_h wit_t wit_keep = Some (h', t').
Proof. exact wit_subset_fix_runs. Qed.
Print Assumptions subset_runs_on_witness.

(* ---------------------------------------------------------------- histories of EVERY op (deepening round) *)
(* The headline without a side condition on the op list: pickle round trips and the three carriers (to_dataframe +
   from_dataframe, HDF5 save + load, PDB save + load) are ops of the induction too, so the statement covers the whole
   quantifier of the property: after ANY finite sequence of new / add_* / insert_atom / delete_atom_by_index / copy /
   subset / join / pickle / data frame / .h5 / .pdb round trips applied (repaired variants) to any of the topologies
   created so far, every topology is well formed and any two share no reachable object. *)
Theorem wf_inv_all : forall ops i t,
  nth_error (st_tops (run flags_fix ops)) i = Some t -> wf (st_heap (run flags_fix ops)) t.
Proof. exact InvAll.wf_inv_all. Qed.
Print Assumptions wf_inv_all.

Theorem independent_inv_all : forall ops i j ti tj,
  i <> j ->
  nth_error (st_tops (run flags_fix ops)) i = Some ti -> nth_error (st_tops (run flags_fix ops)) j = Some tj ->
  disjoint (reach (st_heap (run flags_fix ops)) ti) (reach (st_heap (run flags_fix ops)) tj).
Proof. exact InvAll.independent_inv_all. Qed.
Print Assumptions independent_inv_all.

Theorem inv_step_all : forall st o, inv st -> inv (step flags_fix st o).
Proof. exact InvAll.inv_step_all. Qed.
Print Assumptions inv_step_all.

(* the two result lemmas behind it: a topology decoded from any carrier description, and an unpickled topology, are
   well formed, consist of fresh objects only, and nothing that existed is modified *)
Theorem build_from_result : forall h d h' t',
  hwf h -> build_from h d = Some (h', t') ->
  wf h' t' /\ agree (h_next h) h h' /\ h_next h <= h_next h' /\ (forall l, In l (reach h' t') -> h_next h <= l).
Proof. exact InvAll.build_from_result. Qed.
Print Assumptions build_from_result.

Theorem pickle_result : forall h t,
  wf h t ->
  wf (fst (pickle h t)) (snd (pickle h t)) /\ agree (h_next h) h (fst (pickle h t)) /\
  h_next h <= h_next (fst (pickle h t)) /\
  (forall l, In l (reach (fst (pickle h t)) (snd (pickle h t))) -> h_next h <= l).
Proof. exact InvAll.pickle_result. Qed.
Print Assumptions pickle_result.

(* == implies equal hash on every topology reachable by any history, round trips included *)
Theorem eq_hash_reachable_all : forall ops i j ti tj va vb ka kb,
  let st := run flags_fix ops in
  nth_error (st_tops st) i = Some ti -> nth_error (st_tops st) j = Some tj ->
  abs (st_heap st) ti = Some va -> abs (st_heap st) tj = Some vb ->
  hash_keys flags_fix (st_heap st) ti = Some ka -> hash_keys flags_fix (st_heap st) tj = Some kb ->
  teq va vb = true -> xor_equal ka kb = true.
Proof. exact InvAll.eq_hash_reachable_all. Qed.
Print Assumptions eq_hash_reachable_all.

(* non-vacuity: a history with every kind of op in which no op raises and every round trip returns atoms and bonds *)
Example history_all_witness :
  let st := run flags_fix all_ops in
  forallb negb (st_status st) = true /\ map t_numAtoms (st_tops st) = [4; 4; 3; 5; 4; 4; 8] /\
  map (fun t => length (t_bonds t)) (st_tops st) = [3; 3; 2; 3; 3; 3; 6].
Proof. exact all_ops_run. Qed.
Print Assumptions history_all_witness.

(* ---------------------------------------------------------------- PDB: CONECT and ATOM numbering agree *)
(* for EVERY heap and topology on which the repaired writer runs: every number occurring in a CONECT record is a
   number printed in an ATOM record of the same file (refuted for the writer as found: pdb_conect_agrees_current_refuted).
   Not proved: that the number is the one of the RIGHT atom for every topology (runs + bond-graph oracle). *)
Theorem pdb_conect_agrees_partial : forall ter h t recs,
  pdb_write flags_fix ter h t = Some recs -> conect_refers_to_atoms recs = true.
Proof. exact PdbProofs.pdb_conect_agrees. Qed.
Print Assumptions pdb_conect_agrees_partial.

(* the ATOM numbers, in file order, are the list the writer hands to its footer, and each lies in 0..99999 *)
Theorem pdb_atom_numbers_written : forall single ter cs recs nums,
  pdb_atoms_chains single ter cs 0 1 = (recs, nums) ->
  atom_numbers recs = nums /\ Forall (fun z => (0 <= z < 100000)%Z) nums.
Proof. exact PdbProofs.pdb_atom_numbers_written. Qed.
Print Assumptions pdb_atom_numbers_written.

Example pdb_conect_agrees_witness :
  let st := run flags_fix pdb_ops5 in
  exists recs, pdb_write flags_fix true (st_heap st) (slot st 0) = Some recs /\ 8 <= length (conect_numbers recs).
Proof. exact PdbProofs.pdb_conect_agrees_witness. Qed.
Print Assumptions pdb_conect_agrees_witness.

(* CONECT continuation lines: the repaired writer prints every partner of an atom exactly once, in order, on lines
   headed by the atom's own number with at most four partners each -- for every partner list; as found an atom with
   five partners loses one *)
Theorem pdb_conect_lines_complete : forall fuel i bonded,
  length bonded <= fuel ->
  partners (conect_lines 3 fuel i bonded) = bonded /\
  Forall (fun r => exists js, r = PConect (i :: js) /\ length js <= 4) (conect_lines 3 fuel i bonded).
Proof. exact PdbProofs.conect_lines_fix_complete. Qed.
Print Assumptions pdb_conect_lines_complete.

Theorem pdb_conect_lines_current_refuted :
  exists i bonded, length bonded <= 5 /\ partners (conect_lines 4 5 i bonded) <> bonded.
Proof. exact PdbProofs.conect_lines_cur_loses. Qed.
Print Assumptions pdb_conect_lines_current_refuted.

(* ---------------------------------------------------------------- PDB: the ATOM/TER part comes back *)
(* TER lines written (the default).  For EVERY list of chains in which every chain has a residue, every residue an
   atom, and consecutive residues of a chain differ in (resSeq mod 10000, first 3 characters of the name), the
   reader's chain/residue splitting rebuilds from the writer's records exactly the written chains, residues and
   atoms: chain id = first character of chain_id (or the letter of the position), residue name cut to 3, resSeq mod
   10000, segment id and atom name cut to 4, element symbol unchanged -- also when neighbouring chains carry the same
   id and the same residue number (the TER line separates them).  Serials are erased on both sides here (they are
   characterised by pdb_atom_numbers_written).  Partial with respect to the PDB round trip as a whole: the reader's
   renaming tables, element guessing and the bond part are not in this statement; ter=False is not covered. *)
Theorem pdb_atoms_roundtrip_partial : forall single cs recs nums,
  pdb_exact cs -> pdb_atoms_chains single true cs 0 1 = (recs, nums) ->
  map strip_dchain (pdb_read_chains (pdb_atoms_of recs false)) = expected_chains cs 0.
Proof. exact PdbAtoms.pdb_atoms_roundtrip. Qed.
Print Assumptions pdb_atoms_roundtrip_partial.

Example pdb_exact_witness :
  pdb_exact exact_cs /\ exists recs nums, pdb_atoms_chains false true exact_cs 0 1 = (recs, nums) /\ length nums = 4.
Proof. exact exact_cs_ok. Qed.
Print Assumptions pdb_exact_witness.

(* ---------------------------------------------------------------- subset: unsorted lists and duplicates *)
(* "atom.index in atom_indices": the specified restriction depends only on WHICH indices occur in the list; so
   subset_abs / subset_spec_* (stated for arbitrary lists) say that an unsorted list or a list with duplicates gives
   exactly what the strictly increasing list of the same indices gives *)
Theorem subset_v_same_set : forall k1 k2 v, same_set k1 k2 -> subset_v k1 v = subset_v k2 v.
Proof. exact SubsetSet.subset_v_same_set. Qed.
Print Assumptions subset_v_same_set.

Theorem subset_same_set : forall h t k1 k2 h1 t1 h2 t2 v,
  wfo h t -> abs h t = Some v -> same_set k1 k2 ->
  subset flags_fix h t k1 = Some (h1, t1) -> subset flags_fix h t k2 = Some (h2, t2) ->
  abs h1 t1 = abs h2 t2.
Proof. exact SubsetSet.subset_same_set. Qed.
Print Assumptions subset_same_set.

Example same_set_witness : same_set [2; 0; 2; 1] [0; 1; 2].
Proof. exact SubsetSet.same_set_witness. Qed.
Print Assumptions same_set_witness.

(* ---------------------------------------------------------------- == after the data-frame round trip *)
(* exact case of the carrier (df_exact), bonds as add_bond stores them (smaller index first, legal order): what the
   repaired from_dataframe rebuilds from the frames of to_dataframe compares equal (==) to the source, in both
   directions -- == ignores exactly what the frame cannot hold (chain ids).  Partial: outside df_exact residues or
   chains merge and == fails (the frame cannot represent the source). *)
Theorem eq_preserved_dataframe_partial : forall h v h' t',
  hwf h -> normal (vt_chains v) -> df_exact v -> Forall vbond_ok (vt_bonds v) -> Forall oriented (vt_bonds v) ->
  build_from h (df_round true v) = Some (h', t') ->
  exists v', abs h' t' = Some v' /\ teq v v' = true /\ teq v' v = true.
Proof. exact EqCarrier.df_roundtrip_eq. Qed.
Print Assumptions eq_preserved_dataframe_partial.

Example eq_preserved_dataframe_witness : Forall oriented (vt_bonds df_v) /\ vt_bonds df_v <> [].
Proof. exact EqCarrier.df_eq_witness. Qed.
Print Assumptions eq_preserved_dataframe_witness.
