(* C04 — topology transformations preserve atoms, residues, chains and bonds; equal topologies
   hash equal; a copy is independent.
   Only statements, closed by [exact], and Print Assumptions.

   Vocabulary (coq/Topo/Model.v): a heap of Chain/Residue/Atom objects named by locations; a
   topology holds location lists and bonds whose ends are atom locations; [abs h t] is the value a
   chain-wise walk reads (names, elements, serials, indices, residue numbers, segment ids, chain ids,
   bonds as index pairs with type and order); [reach h t] every location the topology can hand out;
   [flags_cur] = mdtraj as found, [flags_fix] = the minimal repairs (fixes/C04-*.diff).
   [wfo h t] = well formed and built in chain order (coq/Topo/Copy.v). *)
From Coq Require Import String Ascii.
From Coq Require Import List Arith ZArith Bool.
Import ListNotations.
Require Import MD.Topo.Model MD.Topo.Carriers MD.Topo.Run MD.Topo.Basics MD.Topo.Build MD.Topo.AbsWalk MD.Topo.Copy
  MD.Topo.EqHash MD.Topo.Frame MD.Topo.Independent MD.Topo.Subset MD.Topo.Witness.

(* ---------------------------------------------------------------- copy / deepcopy *)
(* the repaired copy() preserves every atom (name, element, serial, index), residue (name, number,
   segment id, index), chain (index AND chain id) and bond (ends, type, order) *)
Theorem copy_abs : forall h t h' t',
  wfo h t -> copy flags_fix h t = Some (h', t') -> abs h' t' = abs h t.
Proof. exact Copy.copy_abs. Qed.
Print Assumptions copy_abs.

(* as found: chain ids are lost *)
Theorem copy_abs_current_refuted :
  exists h t h' t', wfo h t /\ copy flags_cur h t = Some (h', t') /\ abs h' t' <> abs h t.
Proof. exact copy_abs_cur_refuted. Qed.
Print Assumptions copy_abs_current_refuted.

(* a copy is independent: every object it can reach (chains, residues, atoms, bond ends) was
   allocated by the copy, so it shares nothing with the source or with any other topology u *)
Theorem copy_fresh : forall h t h' t',
  wfo h t -> copy flags_fix h t = Some (h', t') -> forall l, In l (reach h' t') -> h_next h <= l.
Proof. exact Copy.copy_fresh. Qed.
Print Assumptions copy_fresh.

Theorem copy_independent : forall h t h' t' u,
  wfo h t -> wfo h u -> copy flags_fix h t = Some (h', t') ->
  forall l, In l (reach h' t') -> ~ In l (reach h' u).
Proof. exact Copy.copy_independent. Qed.
Print Assumptions copy_independent.

(* as found: the bonds of the copy are bonds between the SOURCE's atoms *)
Theorem copy_independent_current_refuted :
  exists h t h' t' l, wfo h t /\ copy flags_cur h t = Some (h', t') /\ In l (reach h' t') /\ In l (reach h' t).
Proof. exact copy_independent_cur_refuted. Qed.
Print Assumptions copy_independent_current_refuted.

(* copying modifies no object that existed before (so every other topology reads as before) ... *)
Theorem copy_frame : forall h t h' t',
  wfo h t -> copy flags_fix h t = Some (h', t') -> agree (h_next h) h h'.
Proof. exact Copy.copy_frame. Qed.
Print Assumptions copy_frame.

(* ... and both the copy and the source are well formed afterwards *)
Theorem copy_wf : forall h t h' t',
  wfo h t -> copy flags_fix h t = Some (h', t') -> wfo h' t' /\ wfo h' t.
Proof. exact Copy.copy_wfo. Qed.
Print Assumptions copy_wf.

(* ---------------------------------------------------------------- edits of either side *)
(* one edit (add_chain, add_residue, add_atom, add_bond, insert_atom, delete_atom_by_index; either
   variant) of a topology t changes neither the abstraction nor the reach of any topology u that
   shares no reachable object with t ([back_ok]: atoms of t point back to residues of t) *)
Theorem edit_frame : forall fl st o s t u,
  edit_slot o = Some s -> nth_error (st_tops st) s = Some t -> back_ok (st_heap st) t ->
  (forall l, In l (reach (st_heap st) u) -> l < h_next (st_heap st) /\ ~ In l (reach (st_heap st) t)) ->
  abs (st_heap (step fl st o)) u = abs (st_heap st) u /\
  reach (st_heap (step fl st o)) u = reach (st_heap st) u.
Proof. exact Frame.edit_frame. Qed.
Print Assumptions edit_frame.

(* hence: after a (repaired) copy, editing the source never changes the copy and editing the copy
   never changes the source *)
Theorem copy_edit_independent : forall h t h' t' st fl o s1 s2,
  wfo h t -> copy flags_fix h t = Some (h', t') ->
  st_heap st = h' -> nth_error (st_tops st) s1 = Some t -> nth_error (st_tops st) s2 = Some t' ->
  (edit_slot o = Some s1 -> abs (st_heap (step fl st o)) t' = abs h' t') /\
  (edit_slot o = Some s2 -> abs (st_heap (step fl st o)) t = abs h' t).
Proof. exact Independent.copy_edit_independent. Qed.
Print Assumptions copy_edit_independent.

(* as found, an edit of the source is seen through the copy (bond indices change) *)
Theorem edit_frame_current_refuted :
  let st1 := run flags_cur alias_ops in
  let st2 := step flags_cur st1 (OInsertAtom 0 0 "N" "N" (Some 0) (Some 0) None) in
  abs (st_heap st2) (slot st2 1) <> abs (st_heap st1) (slot st1 1).
Proof. exact edit_frame_cur_refuted. Qed.
Print Assumptions edit_frame_current_refuted.

(* ---------------------------------------------------------------- subset / atom_slice *)
(* the repaired _topology_from_subset computes exactly the specified restriction [subset_v] ... *)
Theorem subset_abs : forall h t keep h' t' v,
  wfo h t -> abs h t = Some v -> subset flags_fix h t keep = Some (h', t') -> abs h' t' = Some (subset_v keep v).
Proof. exact Subset.subset_abs. Qed.
Print Assumptions subset_abs.

(* ... whose atoms are the kept atoms in order, names/elements/serials unchanged, indices 0..n-1 *)
Theorem subset_spec_atoms : forall keep v,
  v_atoms (subset_v keep v) = renum_atoms 0 (filter (keepb keep) (v_atoms v)).
Proof. exact Subset.subset_spec_atoms. Qed.
Print Assumptions subset_spec_atoms.

(* ... whose residues keep name, resSeq and segment id and whose chains keep their id: indices aside,
   the subset is the source with the dropped atoms, then-empty residues and then-empty chains removed *)
Theorem subset_spec_content : forall keep v,
  map strip_chain (vt_chains (subset_v keep v)) = map strip_chain (filter has_res (map (sub_chain keep) (vt_chains v))).
Proof. exact Subset.subset_spec_content. Qed.
Print Assumptions subset_spec_content.

Theorem subset_spec_no_empty : forall keep v,
  (forall c, In c (vt_chains (subset_v keep v)) -> vc_res c <> []) /\
  (forall r, In r (v_residues (subset_v keep v)) -> vr_atoms r <> []).
Proof. exact Subset.subset_spec_no_empty. Qed.
Print Assumptions subset_spec_no_empty.

(* ... numbered 0,1,2,... (chains, residues, atoms) *)
Theorem subset_spec_normal : forall keep v, normal (vt_chains (subset_v keep v)).
Proof. exact Subset.subset_spec_normal. Qed.
Print Assumptions subset_spec_normal.

(* ... and a bond survives iff both ends are kept; it is re-pointed to the new indices, type and order kept *)
Theorem subset_spec_bonds : forall keep v b',
  In b' (vt_bonds (subset_v keep v)) <->
  exists b i j, In b (vt_bonds v) /\ rank keep v (vb_i b) = Some i /\ rank keep v (vb_j b) = Some j /\
                b' = {| vb_i := i; vb_j := j; vb_type := vb_type b; vb_order := vb_order b |}.
Proof. exact Subset.subset_spec_bonds. Qed.
Print Assumptions subset_spec_bonds.

(* the subset is made of fresh objects only and nothing that existed is modified *)
Theorem subset_independent : forall h t keep h' t' v u,
  wfo h t -> wfo h u -> abs h t = Some v -> subset flags_fix h t keep = Some (h', t') ->
  forall l, In l (reach h' t') -> ~ In l (reach h' u).
Proof. exact Subset.subset_independent. Qed.
Print Assumptions subset_independent.

Theorem subset_frame : forall h t keep h' t' v,
  wfo h t -> abs h t = Some v -> subset flags_fix h t keep = Some (h', t') -> agree (h_next h) h h'.
Proof. exact Subset.subset_frame. Qed.
Print Assumptions subset_frame.

(* as found: chain ids are lost and resSeq 0 is replaced by the residue index *)
Theorem subset_abs_current_refuted :
  exists h t keep h' t' v, wfo h t /\ abs h t = Some v /\ subset flags_cur h t keep = Some (h', t') /\
                           abs h' t' <> Some (subset_v keep v).
Proof. exact subset_abs_cur_refuted. Qed.
Print Assumptions subset_abs_current_refuted.

(* ---------------------------------------------------------------- == and hash *)
(* repaired __hash__: for all topologies whose _atoms list is index-consistent, == implies equal
   hash (the four hashed tuples coincide) *)
Theorem eq_hash : eq_hash_stmt flags_fix.
Proof. exact eq_hash_fix_holds. Qed.
Print Assumptions eq_hash.

(* as found: two topologies differing only in resSeq are == but hash differently ... *)
Theorem eq_hash_current_refuted : ~ eq_hash_stmt flags_cur.
Proof. exact eq_hash_cur_refuted. Qed.
Print Assumptions eq_hash_current_refuted.

(* ... and so do two topologies holding the same bonds added in a different order *)
Theorem eq_hash_current_refuted_bond_order : ~ eq_hash_stmt flags_cur.
Proof. exact eq_hash_cur_refuted_bond_order. Qed.
Print Assumptions eq_hash_current_refuted_bond_order.

(* ---------------------------------------------------------------- non-vacuity *)
(* a two-chain topology with chain ids, repeated residue number 0, non-contiguous serials, a virtual
   site and typed bonds across residues and chains satisfies [wfo], and the repaired copy runs on it *)
Example wfo_witness : wfo wit_h wit_t.
Proof. exact wit_wfo. Qed.
Print Assumptions wfo_witness.

Example copy_runs_on_witness : exists h' t', copy flags_fix wit_h wit_t = Some (h', t').
Proof. exact wit_copy_fix_runs. Qed.
Print Assumptions copy_runs_on_witness.

Example subset_runs_on_witness :
  exists h' t' v, abs wit_h wit_t = Some v /\ subset flags_fix wit_h wit_t wit_keep = Some (h', t').
Proof. exact wit_subset_fix_runs. Qed.
Print Assumptions subset_runs_on_witness.
