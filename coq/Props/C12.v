(* C12 - every selection expression selects exactly the atoms its meaning denotes.
   Only statements, closed by [exact], and Print Assumptions.
   cfg ranges over ALL grammar tables (keyword aliases, operator levels in any order, residue tables);
   gen_cfg is the table regenerated from mdtraj/core/selection.py on every run, ref_cfg the hand-kept copy of
   the table as found. *)
From Coq Require Import List String Ascii ZArith Bool Sorted Permutation.
Require Import MD.Select.Syntax MD.Select.Regex MD.Select.Model MD.Select.Types MD.Select.Run MD.Select.Layout
               MD.Select.ParsePrint MD.Select.Proofs MD.Select.Malformed MD.Select.Reference MD.Select.Precedence
               MD.Select.RegexProofs MD.Select.LexProofs MD.Select.Sugar MD.Select.Typing MD.Select.Order MD.Select.OrderProofs MD.Select.QuoteProofs
               MD.Gen.SelectTables MD.Select.GenChecks.
Import ListNotations.

(* ---- parsing: the grammar reads back every parse tree printed with the parentheses its own level table
   requires (all trees, all depths, every table without duplicate operator spellings) *)
Theorem parse_print : forall cfg, NoDup (all_ops cfg) ->
  forall e, wf cfg e -> parse_all cfg (print cfg e) = Some e.
Proof. exact parse_print_tokens. Qed.
Print Assumptions parse_print.

(* ... in particular for the table extracted from the source of this run *)
Theorem parse_print_source_tables : forall e, wf gen_cfg e -> parse_all gen_cfg (print gen_cfg e) = Some e.
Proof. exact (parse_print_tokens gen_cfg gen_ops_nodup). Qed.
Print Assumptions parse_print_source_tables.

Example parse_print_nonvacuous : wf gen_cfg demo_tree /\ NoDup (all_ops gen_cfg).
Proof. exact (conj demo_tree_wf gen_ops_nodup). Qed.
Print Assumptions parse_print_nonvacuous.

(* ---- and / or / not are intersection / union / complement, for every spelling, on the surface syntax *)
Theorem eval_bool_algebra : forall cfg, NoDup (all_ops cfg) -> forall strict atoms, NoDup (map a_index atoms) ->
  forall a b A B,
    wf cfg a -> wf cfg b -> is_lit_expr a = false -> is_lit_expr b = false ->
    select_tokens cfg strict atoms (print cfg a) = Sel A ->
    select_tokens cfg strict atoms (print cfg b) = Sel B ->
    (forall o, op_kind cfg o = Some KBinary -> assoc o (bin_sem cfg) = Some (SBool BAnd) ->
       exists R, select_tokens cfg strict atoms (print cfg (EBin a [(o, b)])) = Sel R /\
                 forall i, In i R <-> In i A /\ In i B) /\
    (forall o, op_kind cfg o = Some KBinary -> assoc o (bin_sem cfg) = Some (SBool BOr) ->
       exists R, select_tokens cfg strict atoms (print cfg (EBin a [(o, b)])) = Sel R /\
                 forall i, In i R <-> In i A \/ In i B) /\
    (forall o, op_kind cfg o = Some KUnary ->
       exists R, select_tokens cfg strict atoms (print cfg (EUn o a)) = Sel R /\
                 forall i, In i R <-> In i (map a_index atoms) /\ ~ In i A).
Proof. exact Proofs.eval_bool_algebra. Qed.
Print Assumptions eval_bool_algebra.

(* ---- ranges, implicit lists, implicit equality *)
Theorem range_spec : forall cfg strict k lo hi p,
  compile_expr cfg strict (ERange k lo hi) = Some p ->
  exists f vlo vhi, assoc k (sel_kws cfg) = Some f /\ lit_value cfg lo = Some vlo /\ lit_value cfg hi = Some vhi /\
    forall a, py_eval (attr cfg a) p =
              match cmp_apply CLe vlo (attr cfg a f) with
              | Err x => Err x
              | Ok r => if truthy r then cmp_apply CLe (attr cfg a f) vhi else Ok r
              end.
Proof. exact Proofs.range_spec. Qed.
Print Assumptions range_spec.

Theorem range_numeric : forall cfg strict k lo hi p f nlo nhi a x,
  compile_expr cfg strict (ERange k lo hi) = Some p ->
  assoc k (sel_kws cfg) = Some f ->
  option_map as_num (lit_value cfg lo) = Some (Some nlo) -> option_map as_num (lit_value cfg hi) = Some (Some nhi) ->
  as_num (attr cfg a f) = Some x ->
  py_eval (attr cfg a) p = Ok (VBool (num_le nlo x && num_le x nhi)).
Proof. exact Proofs.range_numeric. Qed.
Print Assumptions range_numeric.

Theorem inlist_spec : forall cfg strict k l1 l2 ls p,
  compile_expr cfg strict (EInList k (l1 :: l2 :: ls)) = Some p ->
  exists f vs, assoc k (sel_kws cfg) = Some f /\ map_opt (lit_value cfg) (l1 :: l2 :: ls) = Some vs /\
    forall a, py_eval (attr cfg a) p = Ok (VBool (existsb (veq (attr cfg a f)) vs)).
Proof. exact Proofs.inlist_spec. Qed.
Print Assumptions inlist_spec.

Theorem implicit_eq_spec : forall cfg strict k l p,
  compile_expr cfg strict (EInList k [l]) = Some p ->
  exists f v, assoc k (sel_kws cfg) = Some f /\ lit_value cfg l = Some v /\
    forall a, py_eval (attr cfg a) p = Ok (VBool (veq (attr cfg a f) v)).
Proof. exact Proofs.implicit_eq_spec. Qed.
Print Assumptions implicit_eq_spec.

(* ---- the result: strictly increasing indices of exactly the atoms whose predicate is truthy *)
Theorem select_sorted_nodup : forall cfg strict atoms s l,
  StronglySorted Z.lt (map a_index atoms) ->
  select_str cfg strict atoms s = Sel l ->
  StronglySorted Z.lt l /\ NoDup l /\ incl l (map a_index atoms).
Proof. exact Proofs.select_sorted_nodup. Qed.
Print Assumptions select_sorted_nodup.

Example select_sorted_nonvacuous :
  StronglySorted Z.lt (map a_index demo_atoms) /\
  select_str gen_cfg false demo_atoms "name CA C or water"%string = Sel [1%Z; 2%Z; 3%Z; 4%Z].
Proof. exact (conj demo_atoms_sorted demo_select). Qed.
Print Assumptions select_sorted_nonvacuous.

(* ---- the order of the result without the hypothesis that Topology.atoms walks the atoms in index order (it does not
   after Topology.add_atom on an earlier residue).  Two-variant rule: as found the result is then not increasing
   (witness: GLY + HOH with an OXT added to the GLY afterwards, "element O" -> [3; 5; 4]); with the minimal repair
   (the index list sorted) the result is strictly increasing for EVERY order of the atom list, is a rearrangement of
   the as-found result, errors and rejections are unchanged, and nothing changes where the hypothesis holds *)
Theorem select_sorted_fix : forall cfg strict atoms s,
  NoDup (map a_index atoms) ->
  match select_str cfg strict atoms s with
  | Sel l0 => exists l, select_str_sorted cfg strict atoms s = Sel l /\ StronglySorted Z.lt l /\ Permutation l0 l
                        /\ incl l (map a_index atoms)
  | o => select_str_sorted cfg strict atoms s = o
  end.
Proof. exact OrderProofs.select_sorted_fix. Qed.
Print Assumptions select_sorted_fix.

Theorem select_sorted_fix_conservative : forall cfg strict atoms s,
  StronglySorted Z.lt (map a_index atoms) ->
  select_str_sorted cfg strict atoms s = select_str cfg strict atoms s.
Proof. exact OrderProofs.select_sorted_fix_conservative. Qed.
Print Assumptions select_sorted_fix_conservative.

Theorem select_sorted_cur_refuted :
  NoDup (map a_index patched_atoms) /\
  exists l, select_str ref_cfg false patched_atoms "element O"%string = Sel l /\ ~ StronglySorted Z.lt l /\
            select_str_sorted ref_cfg false patched_atoms "element O"%string = Sel [3%Z; 4%Z; 5%Z].
Proof. exact OrderProofs.select_sorted_cur_refuted. Qed.
Print Assumptions select_sorted_cur_refuted.

(* select = the list comprehension of the generated source (same predicate, same atom order); in the model the
   two are one AST, the implementation side is checked by the run (eval(select_expression(s)) == select(s)) *)
Theorem source_agrees : forall cfg strict atoms ts p,
  compile_tokens cfg strict ts = Some p ->
  (forall a, In a atoms -> exists v, py_eval (attr cfg a) p = Ok v) ->
  select_tokens cfg strict atoms ts = Sel (comprehension (attr cfg) p atoms).
Proof. exact Proofs.select_exact. Qed.
Print Assumptions source_agrees.

(* ---- malformed input is rejected, whatever the operator table *)
Theorem malformed_rejected_tokens : forall cfg strict ts,
  ts = [] \/ n_lp ts <> n_rp ts \/ In TBad ts \/
  (exists a t, ts = a ++ [t] /\ ender t = false) \/
  (exists t a, ts = t :: a /\ starter cfg t = false) ->
  rejected cfg strict ts.
Proof. exact malformed_tokens_rejected. Qed.
Print Assumptions malformed_rejected_tokens.

Theorem malformed_rejected_tree : forall cfg strict ts e e',
  parse_all cfg ts = Some e -> sub e' e -> refused_node cfg e' -> rejected cfg strict ts.
Proof. exact malformed_tree_rejected. Qed.
Print Assumptions malformed_rejected_tree.

Theorem malformed_rejected_compare_chain : forall cfg strict ts e0 p1 p2 rest c,
  parse_all cfg ts = Some (EBin e0 (p1 :: p2 :: rest)) ->
  chain_sem cfg (p1 :: p2 :: rest) = Some (SCmp c) ->
  rejected cfg strict ts.
Proof. exact compare_chain_rejected. Qed.
Print Assumptions malformed_rejected_compare_chain.

(* a single literal: full statement for the repaired test ... *)
Theorem malformed_rejected_single_literal_fix : forall cfg ts l,
  parse_all cfg ts = Some (ELit l) ->
  (forall w, l = LWord w -> mem_str w safe_names = false) ->
  rejected cfg true ts.
Proof. exact single_literal_rejected_fix. Qed.
Print Assumptions malformed_rejected_single_literal_fix.

(* ... for the test as found only away from the numbers 0 and 1 (partial), which it lets through (refuted) *)
Theorem malformed_rejected_single_literal_cur_partial : forall cfg ts l,
  parse_all cfg ts = Some (ELit l) ->
  (forall w, l = LWord w -> mem_str w safe_names = false) ->
  (forall s m e, l = LNum s -> num_value s = Some (m, e) -> m <> 0%Z /\ m <> pow10 e) ->
  rejected cfg false ts.
Proof. exact single_literal_rejected_cur. Qed.
Print Assumptions malformed_rejected_single_literal_cur_partial.

Theorem malformed_rejected_single_literal_cur_refuted :
  select_str ref_cfg false demo_atoms "1"%string = Sel [0%Z; 1%Z; 2%Z; 3%Z; 4%Z] /\
  select_str ref_cfg false demo_atoms "0"%string = Sel [] /\
  select_str ref_cfg false demo_atoms "2"%string = Rejected /\
  select_str ref_cfg true demo_atoms "1"%string = Rejected /\ select_str ref_cfg true demo_atoms "0"%string = Rejected.
Proof. exact single_literal_as_found_refuted. Qed.
Print Assumptions malformed_rejected_single_literal_cur_refuted.

(* ---- precedence.  Under a conventional order of the levels (unary > comparisons and =~ > and > or) an operator
   of a looser class joins operands of tighter classes without parentheses ... *)
Theorem precedence_conventional_fix : forall cfg, NoDup (all_ops cfg) -> order_conventional cfg = true ->
  forall a b o, wf cfg a -> wf cfg b -> op_kind cfg o = Some KBinary ->
    expr_rank cfg a < op_rank cfg o -> expr_rank cfg b < op_rank cfg o ->
    parse_all cfg (print cfg a ++ TOp o :: print cfg b) = Some (EBin a [(o, b)]).
Proof. exact conventional_no_parens. Qed.
Print Assumptions precedence_conventional_fix.

(* ... and reordering any table by class yields such an order (the minimal repair the model proposes) *)
Theorem precedence_conventional_repair : forall cfg, order_conventional (conventional cfg) = true.
Proof. exact conventional_is_conventional. Qed.
Print Assumptions precedence_conventional_repair.

(* The order as found (one level per spelling, alphabetical) is not conventional: "mass lt 5 and mass gt 0.5" is
   not the conjunction of the comparisons (it is rejected), "protein and name =~ 'C.*'" raises TypeError on a
   topology with a non-protein atom and silently works on an all-protein one; the conventional order of the
   same operators reads both as intended. *)
Theorem precedence_conventional_refuted :
  order_conventional ref_cfg = false /\
  parse_all ref_cfg (print ref_cfg cmp_mass_lt ++ TOp "and" :: print ref_cfg cmp_mass_gt)
    <> Some (EBin cmp_mass_lt [("and"%string, cmp_mass_gt)]) /\
  select_str ref_cfg false demo_atoms "protein and name =~ 'C.*'"%string = EvalErr TypeErr /\
  select_str ref_cfg false demo_protein_only "protein and name =~ 'C.*'"%string = Sel [1%Z; 2%Z] /\
  select_str ref_cfg false demo_atoms "mass lt 5 and mass gt 0.5"%string = Rejected /\
  select_str (conventional ref_cfg) false demo_atoms "protein and name =~ 'C.*'"%string = Sel [1%Z; 2%Z] /\
  select_str (conventional ref_cfg) false demo_atoms "mass lt 5 and mass gt 0.5"%string = Sel [4%Z].
Proof. exact precedence_as_found_refuted. Qed.
Print Assumptions precedence_conventional_refuted.

(* ---- regular expressions: the matcher decides "some prefix of the string is in the language of the pattern" *)
Theorem regex_match_spec : forall r s,
  rx_match_prefix r s = true <-> exists s1 s2, s = s1 ++ s2 /\ lang r s1.
Proof. exact rx_match_prefix_correct. Qed.
Print Assumptions regex_match_spec.

(* ---- the regenerated tables are usable: no duplicate spelling, every operator has a meaning, the standard
   residues are where the documentation puts them *)
Theorem source_tables_wellformed :
  NoDup (all_ops gen_cfg) /\ NoDup (all_ops (conventional gen_cfg)).
Proof. exact (conj gen_ops_nodup gen_conv_ops_nodup). Qed.
Print Assumptions source_tables_wellformed.

(* every documented keyword, synonym and operator spelling is in the source tables with its documented meaning *)
Theorem source_tables_documented : documented_meaning gen_cfg = true.
Proof. exact gen_documented_meaning. Qed.
Print Assumptions source_tables_documented.

(* the correspondence run evaluates both single-literal variants with one parse: exactly the two model answers *)
Theorem correspondence_shortcut_sound : forall cfg atoms ts,
  select_pair cfg atoms ts = (select_tokens cfg false atoms ts, select_tokens cfg true atoms ts).
Proof. exact select_pair_correct. Qed.
Print Assumptions correspondence_shortcut_sound.

(* =====================================================================================================
   Strings.  [lexcfg_ok], [tok_ok], [layout_ok] are the boolean predicates that delimit the lexer's domain:
   operator spellings are words, words with one trailing blank, or symbolic; words are delimited, carry no operator
   word as proper prefix, an underscore only in keywords; quoted strings hold no quote and no backslash; a blank may
   be dropped where [follows_ok] allows (next to parentheses, between a symbolic operator and a word/number, ...). *)

(* the lexer reads back every admissible layout of tokens of its domain *)
Theorem lex_print_tokens : forall cfg l, lexcfg_ok cfg = true -> layout_ok cfg l 0 = true ->
  lex cfg (render_string cfg l) = Some (map snd l).
Proof. exact lex_render_string. Qed.
Print Assumptions lex_print_tokens.

(* string-level round trip, for every admissible spacing, in particular the loosest and the tightest *)
Theorem parse_print_string_layout : forall cfg, NoDup (all_ops cfg) -> lexcfg_ok cfg = true ->
  forall e l, wf cfg e -> map snd l = print cfg e -> layout_ok cfg l 0 = true ->
  parse_string cfg (render_string cfg l) = Some e.
Proof. exact parse_print_layout. Qed.
Print Assumptions parse_print_string_layout.

Theorem parse_print_string : forall cfg, NoDup (all_ops cfg) -> lexcfg_ok cfg = true ->
  forall e, wf cfg e -> forallb (tok_ok cfg) (print cfg e) = true ->
  parse_string cfg (print_loose cfg e) = Some e /\ parse_string cfg (print_tight cfg e) = Some e.
Proof. exact LexProofs.parse_print_string. Qed.
Print Assumptions parse_print_string.

Example parse_print_string_nonvacuous :
  lexcfg_ok gen_cfg = true /\ writable gen_cfg demo_tree /\
  print_loose gen_cfg demo_tree = " not ( name CA CB or resid 1 to 3 ) and mass < 5"%string /\
  print_tight gen_cfg demo_tree = "not (name CA CB or resid 1 to 3)and mass<5"%string.
Proof. exact (conj gen_lexcfg_ok (conj demo_tree_writable demo_strings)). Qed.
Print Assumptions parse_print_string_nonvacuous.

(* Topology.select on the printed string is the denotation of the tree *)
Theorem select_printed_string : forall cfg, NoDup (all_ops cfg) -> lexcfg_ok cfg = true ->
  forall strict atoms e, writable cfg e ->
  select_str cfg strict atoms (print_loose cfg e) = denote cfg strict atoms e /\
  select_str cfg strict atoms (print_tight cfg e) = denote cfg strict atoms e.
Proof.
  exact (fun cfg Hnd Hlex strict atoms e Hw =>
           conj (select_print_loose cfg Hnd Hlex strict atoms e Hw) (select_print_tight cfg Hnd Hlex strict atoms e Hw)).
Qed.
Print Assumptions select_printed_string.

(* ---- the documented sugar.  Every alias of a keyword and every spelling of an operator denote the same: replacing
   them by the first alias with the same meaning changes nothing (resid/resi, residue/resSeq, and/&&, or/||, lt/<,
   not/!, ...), for every table without duplicate keys - in particular the regenerated one *)
Theorem aliases_equivalent : forall cfg, NoDup (map fst (sel_kws cfg)) -> NoDup (map fst (bin_sem cfg)) ->
  forall strict atoms e,
    denote cfg strict atoms (respell (canon_kw cfg) (canon_op cfg) e) = denote cfg strict atoms e.
Proof. exact canonical_aliases. Qed.
Print Assumptions aliases_equivalent.

Theorem aliases_equivalent_general : forall cfg (fk fo : string -> string),
  (forall k, assoc (fk k) (sel_kws cfg) = assoc k (sel_kws cfg)) ->
  (forall o, assoc (fo o) (bin_sem cfg) = assoc o (bin_sem cfg)) ->
  forall strict atoms e, denote cfg strict atoms (respell fk fo e) = denote cfg strict atoms e.
Proof. exact alias_same_denotation. Qed.
Print Assumptions aliases_equivalent_general.

Theorem aliases_equivalent_source_tables : forall strict atoms e,
  denote gen_cfg strict atoms (respell (canon_kw gen_cfg) (canon_op gen_cfg) e) = denote gen_cfg strict atoms e.
Proof. exact (canonical_aliases gen_cfg (proj1 gen_keys_nodup) (proj2 gen_keys_nodup)). Qed.
Print Assumptions aliases_equivalent_source_tables.

(* same denotation => same selection from the strings, in either spacing *)
Theorem same_denotation_same_strings : forall cfg, NoDup (all_ops cfg) -> lexcfg_ok cfg = true ->
  forall strict atoms e1 e2, writable cfg e1 -> writable cfg e2 ->
    denote cfg strict atoms e1 = denote cfg strict atoms e2 ->
    select_str cfg strict atoms (print_loose cfg e1) = select_str cfg strict atoms (print_loose cfg e2) /\
    select_str cfg strict atoms (print_tight cfg e1) = select_str cfg strict atoms (print_tight cfg e2).
Proof. exact same_denotation_same_selection. Qed.
Print Assumptions same_denotation_same_strings.

(* De Morgan and double negation on selections *)
Theorem de_morgan : forall cfg strict atoms a b o o' n bo A B,
  assoc o (bin_sem cfg) = Some (SBool bo) -> assoc o' (bin_sem cfg) = Some (SBool (dual bo)) ->
  is_lit_expr a = false -> is_lit_expr b = false ->
  denote cfg strict atoms a = Sel A -> denote cfg strict atoms b = Sel B ->
  denote cfg strict atoms (EUn n (EBin a [(o, b)])) = denote cfg strict atoms (EBin (EUn n a) [(o', EUn n b)]).
Proof. exact Sugar.de_morgan. Qed.
Print Assumptions de_morgan.

Theorem double_negation : forall cfg strict atoms a n n' A, is_lit_expr a = false ->
  denote cfg strict atoms a = Sel A -> denote cfg strict atoms (EUn n (EUn n' a)) = Sel A.
Proof. exact Sugar.double_negation. Qed.
Print Assumptions double_negation.

(* "k lo to hi" = "(lo <= k) and (k <= hi)";  "k v1 v2 ..." = "(k == v1) or (k == v2) or ..." (errors included) *)
Theorem range_is_conjunction : forall cfg strict atoms k lo hi le le' an p,
  assoc le (bin_sem cfg) = Some (SCmp CLe) -> assoc le' (bin_sem cfg) = Some (SCmp CLe) ->
  assoc an (bin_sem cfg) = Some (SBool BAnd) ->
  compile_expr cfg strict (ERange k lo hi) = Some p ->
  denote cfg strict atoms (ERange k lo hi) =
  denote cfg strict atoms (EBin (cmp_tree (ELit lo) le (EKw k)) [(an, cmp_tree (EKw k) le' (ELit hi))]).
Proof. exact Sugar.range_is_conjunction. Qed.
Print Assumptions range_is_conjunction.

Theorem inlist_is_disjunction : forall cfg strict atoms k l1 l2 ls eq or p,
  assoc eq (bin_sem cfg) = Some (SCmp CEq) -> assoc or (bin_sem cfg) = Some (SBool BOr) ->
  compile_expr cfg strict (EInList k (l1 :: l2 :: ls)) = Some p ->
  denote cfg strict atoms (EInList k (l1 :: l2 :: ls)) =
  denote cfg strict atoms (EBin (eq_tree k eq l1) (map (fun l => (or, eq_tree k eq l)) (l2 :: ls))).
Proof. exact Sugar.inlist_is_disjunction. Qed.
Print Assumptions inlist_is_disjunction.

(* ---- when evaluation raises.  One comparison raises TypeError exactly when it is an ordering between values of
   different kinds (numbers incl. bool / strings / None) ... *)
Theorem comparison_raises_iff : forall c v w,
  cmp_apply c v w = Err TypeErr <-> is_ordering c = true /\ ord_ok (value_ty v) (value_ty w) = false.
Proof. exact cmp_raises_iff. Qed.
Print Assumptions comparison_raises_iff.

(* ... and a compiled predicate that passes the static check [type_of] raises TypeError on no atom of no topology
   (soundness; the check is conservative for and/or of operands of different kinds) *)
Theorem well_typed_never_raises : forall cfg p atoms, well_typed p = true ->
  select_py (attr cfg) p atoms <> Err TypeErr.
Proof. exact well_typed_no_type_error. Qed.
Print Assumptions well_typed_never_raises.

Theorem well_typed_value_kind : forall env, (forall f, has_ty (env f) (field_ty f)) ->
  forall p t, type_of p = Some t -> sound_res (py_eval env p) t.
Proof. exact type_of_sound. Qed.
Print Assumptions well_typed_value_kind.

Theorem correspondence_typing_shortcut_sound : forall cfg atoms ts,
  select_pair_t cfg atoms ts = (select_pair cfg atoms ts, tokens_well_typed cfg ts).
Proof. exact select_pair_t_correct. Qed.
Print Assumptions correspondence_typing_shortcut_sound.

(* ---- quoted literals with escapes (Model.scan_quoted, used by the lexer where the body has a backslash escape of a
   quote or the other kind of quote): conservative over the simple form, decodes an escaped quote / backslash to the
   character itself without closing the literal, and the literal is closed by a delimiter of the input *)
Theorem scan_quoted_plain : forall delim body rest,
  forallb (fun x => negb (is_backslash x) && negb (Ascii.eqb x delim)) body = true ->
  scan_quoted delim (body ++ delim :: rest) = Some (body, rest).
Proof. exact QuoteProofs.scan_quoted_plain. Qed.
Print Assumptions scan_quoted_plain.

Theorem scan_quoted_escape : forall delim d cs l rest,
  Ascii.eqb (Ascii.ascii_of_nat 92) delim = false ->
  (is_backslash d || is_quote d) = true ->
  scan_quoted delim cs = Some (l, rest) ->
  scan_quoted delim (Ascii.ascii_of_nat 92 :: d :: cs) = Some (d :: l, rest).
Proof. exact QuoteProofs.scan_quoted_escape. Qed.
Print Assumptions scan_quoted_escape.

Theorem scan_quoted_consumes : forall delim cs l rest,
  scan_quoted delim cs = Some (l, rest) -> exists pre, cs = pre ++ delim :: rest.
Proof. exact QuoteProofs.scan_quoted_consumes. Qed.
Print Assumptions scan_quoted_consumes.

Example scan_quoted_nonvacuous :
  scan_quoted "'"%char (list_ascii_of_string "O5\'' CA") = Some (list_ascii_of_string "O5'", list_ascii_of_string " CA").
Proof. exact QuoteProofs.scan_quoted_prime. Qed.
Print Assumptions scan_quoted_nonvacuous.
