(* C12 - every selection expression selects exactly the atoms its meaning denotes.
   Only statements, closed by [exact], and Print Assumptions.
   cfg ranges over ALL grammar tables (keyword aliases, operator levels in any order, residue tables);
   gen_cfg is the table regenerated from mdtraj/core/selection.py on every run, ref_cfg the hand-kept copy of
   the table as found. *)
From Coq Require Import List String ZArith Bool Sorted.
Require Import MD.Select.Syntax MD.Select.Regex MD.Select.Model MD.Select.Run MD.Select.ParsePrint MD.Select.Proofs
               MD.Select.Malformed MD.Select.Reference MD.Select.Precedence MD.Select.RegexProofs
               MD.Gen.SelectTables MD.Select.GenChecks.
Import ListNotations.

(* ---- parsing: the grammar reads back every parse tree printed with the parentheses its own level table
   requires (all trees, all depths, every table without duplicate operator spellings) *)
Theorem parse_print : forall cfg, NoDup (all_ops cfg) ->
  forall e, wf cfg e -> parse_all cfg (print cfg e) = Some e.
Proof. exact parse_print_tokens. Qed.
Print Assumptions parse_print.

(* ... in particular for the table extracted from the source of this run *)
Theorem parse_print_source_tables : forall e, wf gen_cfg e -> parse_all gen_cfg (print gen_cfg e) = Some e.
Proof. exact (parse_print_tokens gen_cfg gen_ops_nodup). Qed.
Print Assumptions parse_print_source_tables.

Example parse_print_nonvacuous : wf gen_cfg demo_tree /\ NoDup (all_ops gen_cfg).
Proof. exact (conj demo_tree_wf gen_ops_nodup). Qed.
Print Assumptions parse_print_nonvacuous.

(* ---- and / or / not are intersection / union / complement, for every spelling, on the surface syntax *)
Theorem eval_bool_algebra : forall cfg, NoDup (all_ops cfg) -> forall strict atoms, NoDup (map a_index atoms) ->
  forall a b A B,
    wf cfg a -> wf cfg b -> is_lit_expr a = false -> is_lit_expr b = false ->
    select_tokens cfg strict atoms (print cfg a) = Sel A ->
    select_tokens cfg strict atoms (print cfg b) = Sel B ->
    (forall o, op_kind cfg o = Some KBinary -> assoc o (bin_sem cfg) = Some (SBool BAnd) ->
       exists R, select_tokens cfg strict atoms (print cfg (EBin a [(o, b)])) = Sel R /\
                 forall i, In i R <-> In i A /\ In i B) /\
    (forall o, op_kind cfg o = Some KBinary -> assoc o (bin_sem cfg) = Some (SBool BOr) ->
       exists R, select_tokens cfg strict atoms (print cfg (EBin a [(o, b)])) = Sel R /\
                 forall i, In i R <-> In i A \/ In i B) /\
    (forall o, op_kind cfg o = Some KUnary ->
       exists R, select_tokens cfg strict atoms (print cfg (EUn o a)) = Sel R /\
                 forall i, In i R <-> In i (map a_index atoms) /\ ~ In i A).
Proof. exact Proofs.eval_bool_algebra. Qed.
Print Assumptions eval_bool_algebra.

(* ---- ranges, implicit lists, implicit equality *)
Theorem range_spec : forall cfg strict k lo hi p,
  compile_expr cfg strict (ERange k lo hi) = Some p ->
  exists f vlo vhi, assoc k (sel_kws cfg) = Some f /\ lit_value cfg lo = Some vlo /\ lit_value cfg hi = Some vhi /\
    forall a, py_eval (attr cfg a) p =
              match cmp_apply CLe vlo (attr cfg a f) with
              | Err x => Err x
              | Ok r => if truthy r then cmp_apply CLe (attr cfg a f) vhi else Ok r
              end.
Proof. exact Proofs.range_spec. Qed.
Print Assumptions range_spec.

Theorem range_numeric : forall cfg strict k lo hi p f nlo nhi a x,
  compile_expr cfg strict (ERange k lo hi) = Some p ->
  assoc k (sel_kws cfg) = Some f ->
  option_map as_num (lit_value cfg lo) = Some (Some nlo) -> option_map as_num (lit_value cfg hi) = Some (Some nhi) ->
  as_num (attr cfg a f) = Some x ->
  py_eval (attr cfg a) p = Ok (VBool (num_le nlo x && num_le x nhi)).
Proof. exact Proofs.range_numeric. Qed.
Print Assumptions range_numeric.

Theorem inlist_spec : forall cfg strict k l1 l2 ls p,
  compile_expr cfg strict (EInList k (l1 :: l2 :: ls)) = Some p ->
  exists f vs, assoc k (sel_kws cfg) = Some f /\ map_opt (lit_value cfg) (l1 :: l2 :: ls) = Some vs /\
    forall a, py_eval (attr cfg a) p = Ok (VBool (existsb (veq (attr cfg a f)) vs)).
Proof. exact Proofs.inlist_spec. Qed.
Print Assumptions inlist_spec.

Theorem implicit_eq_spec : forall cfg strict k l p,
  compile_expr cfg strict (EInList k [l]) = Some p ->
  exists f v, assoc k (sel_kws cfg) = Some f /\ lit_value cfg l = Some v /\
    forall a, py_eval (attr cfg a) p = Ok (VBool (veq (attr cfg a f) v)).
Proof. exact Proofs.implicit_eq_spec. Qed.
Print Assumptions implicit_eq_spec.

(* ---- the result: strictly increasing indices of exactly the atoms whose predicate is truthy *)
Theorem select_sorted_nodup : forall cfg strict atoms s l,
  StronglySorted Z.lt (map a_index atoms) ->
  select_str cfg strict atoms s = Sel l ->
  StronglySorted Z.lt l /\ NoDup l /\ incl l (map a_index atoms).
Proof. exact Proofs.select_sorted_nodup. Qed.
Print Assumptions select_sorted_nodup.

Example select_sorted_nonvacuous :
  StronglySorted Z.lt (map a_index demo_atoms) /\
  select_str gen_cfg false demo_atoms "name CA C or water"%string = Sel [1%Z; 2%Z; 3%Z; 4%Z].
Proof. exact (conj demo_atoms_sorted demo_select). Qed.
Print Assumptions select_sorted_nonvacuous.

(* select = the list comprehension of the generated source (same predicate, same atom order); in the model the
   two are one AST, the implementation side is checked by the run (eval(select_expression(s)) == select(s)) *)
Theorem source_agrees : forall cfg strict atoms ts p,
  compile_tokens cfg strict ts = Some p ->
  (forall a, In a atoms -> exists v, py_eval (attr cfg a) p = Ok v) ->
  select_tokens cfg strict atoms ts = Sel (comprehension (attr cfg) p atoms).
Proof. exact Proofs.select_exact. Qed.
Print Assumptions source_agrees.

(* ---- malformed input is rejected, whatever the operator table *)
Theorem malformed_rejected_tokens : forall cfg strict ts,
  ts = [] \/ n_lp ts <> n_rp ts \/ In TBad ts \/
  (exists a t, ts = a ++ [t] /\ ender t = false) \/
  (exists t a, ts = t :: a /\ starter cfg t = false) ->
  rejected cfg strict ts.
Proof. exact malformed_tokens_rejected. Qed.
Print Assumptions malformed_rejected_tokens.

Theorem malformed_rejected_tree : forall cfg strict ts e e',
  parse_all cfg ts = Some e -> sub e' e -> refused_node cfg e' -> rejected cfg strict ts.
Proof. exact malformed_tree_rejected. Qed.
Print Assumptions malformed_rejected_tree.

Theorem malformed_rejected_compare_chain : forall cfg strict ts e0 p1 p2 rest c,
  parse_all cfg ts = Some (EBin e0 (p1 :: p2 :: rest)) ->
  chain_sem cfg (p1 :: p2 :: rest) = Some (SCmp c) ->
  rejected cfg strict ts.
Proof. exact compare_chain_rejected. Qed.
Print Assumptions malformed_rejected_compare_chain.

(* a single literal: full statement for the repaired test ... *)
Theorem malformed_rejected_single_literal_fix : forall cfg ts l,
  parse_all cfg ts = Some (ELit l) ->
  (forall w, l = LWord w -> mem_str w safe_names = false) ->
  rejected cfg true ts.
Proof. exact single_literal_rejected_fix. Qed.
Print Assumptions malformed_rejected_single_literal_fix.

(* ... for the test as found only away from the numbers 0 and 1 (partial), which it lets through (refuted) *)
Theorem malformed_rejected_single_literal_cur_partial : forall cfg ts l,
  parse_all cfg ts = Some (ELit l) ->
  (forall w, l = LWord w -> mem_str w safe_names = false) ->
  (forall s m e, l = LNum s -> num_value s = Some (m, e) -> m <> 0%Z /\ m <> pow10 e) ->
  rejected cfg false ts.
Proof. exact single_literal_rejected_cur. Qed.
Print Assumptions malformed_rejected_single_literal_cur_partial.

Theorem malformed_rejected_single_literal_cur_refuted :
  select_str ref_cfg false demo_atoms "1"%string = Sel [0%Z; 1%Z; 2%Z; 3%Z; 4%Z] /\
  select_str ref_cfg false demo_atoms "0"%string = Sel [] /\
  select_str ref_cfg false demo_atoms "2"%string = Rejected /\
  select_str ref_cfg true demo_atoms "1"%string = Rejected /\ select_str ref_cfg true demo_atoms "0"%string = Rejected.
Proof. exact single_literal_as_found_refuted. Qed.
Print Assumptions malformed_rejected_single_literal_cur_refuted.

(* ---- precedence.  Under a conventional order of the levels (unary > comparisons and =~ > and > or) an operator
   of a looser class joins operands of tighter classes without parentheses ... *)
Theorem precedence_conventional_fix : forall cfg, NoDup (all_ops cfg) -> order_conventional cfg = true ->
  forall a b o, wf cfg a -> wf cfg b -> op_kind cfg o = Some KBinary ->
    expr_rank cfg a < op_rank cfg o -> expr_rank cfg b < op_rank cfg o ->
    parse_all cfg (print cfg a ++ TOp o :: print cfg b) = Some (EBin a [(o, b)]).
Proof. exact conventional_no_parens. Qed.
Print Assumptions precedence_conventional_fix.

(* ... and reordering any table by class yields such an order (the minimal repair the model proposes) *)
Theorem precedence_conventional_repair : forall cfg, order_conventional (conventional cfg) = true.
Proof. exact conventional_is_conventional. Qed.
Print Assumptions precedence_conventional_repair.

(* The order as found (one level per spelling, alphabetical) is not conventional: "mass lt 5 and mass gt 0.5" is
   not the conjunction of the comparisons (it is rejected), "protein and name =~ 'C.*'" raises TypeError on a
   topology with a non-protein atom and silently works on an all-protein one; the conventional order of the
   same operators reads both as intended. *)
Theorem precedence_conventional_refuted :
  order_conventional ref_cfg = false /\
  parse_all ref_cfg (print ref_cfg cmp_mass_lt ++ TOp "and" :: print ref_cfg cmp_mass_gt)
    <> Some (EBin cmp_mass_lt [("and"%string, cmp_mass_gt)]) /\
  select_str ref_cfg false demo_atoms "protein and name =~ 'C.*'"%string = EvalErr TypeErr /\
  select_str ref_cfg false demo_protein_only "protein and name =~ 'C.*'"%string = Sel [1%Z; 2%Z] /\
  select_str ref_cfg false demo_atoms "mass lt 5 and mass gt 0.5"%string = Rejected /\
  select_str (conventional ref_cfg) false demo_atoms "protein and name =~ 'C.*'"%string = Sel [1%Z; 2%Z] /\
  select_str (conventional ref_cfg) false demo_atoms "mass lt 5 and mass gt 0.5"%string = Sel [4%Z].
Proof. exact precedence_as_found_refuted. Qed.
Print Assumptions precedence_conventional_refuted.

(* ---- regular expressions: the matcher decides "some prefix of the string is in the language of the pattern" *)
Theorem regex_match_spec : forall r s,
  rx_match_prefix r s = true <-> exists s1 s2, s = s1 ++ s2 /\ lang r s1.
Proof. exact rx_match_prefix_correct. Qed.
Print Assumptions regex_match_spec.

(* ---- the regenerated tables are usable: no duplicate spelling, every operator has a meaning, the standard
   residues are where the documentation puts them *)
Theorem source_tables_wellformed :
  NoDup (all_ops gen_cfg) /\ NoDup (all_ops (conventional gen_cfg)).
Proof. exact (conj gen_ops_nodup gen_conv_ops_nodup). Qed.
Print Assumptions source_tables_wellformed.

(* every documented keyword, synonym and operator spelling is in the source tables with its documented meaning *)
Theorem source_tables_documented : documented_meaning gen_cfg = true.
Proof. exact gen_documented_meaning. Qed.
Print Assumptions source_tables_documented.

(* the correspondence run evaluates both single-literal variants with one parse: exactly the two model answers *)
Theorem correspondence_shortcut_sound : forall cfg atoms ts,
  select_pair cfg atoms ts = (select_tokens cfg false atoms ts, select_tokens cfg true atoms ts).
Proof. exact select_pair_correct. Qed.
Print Assumptions correspondence_shortcut_sound.
