(* C12 - every selection expression selects exactly the atoms its meaning denotes. (under construction) *)
From Coq Require Import List String Bool.
Require Import MD.Select.Syntax MD.Select.Model MD.Select.Run MD.Select.GenChecks.
Import ListNotations.

Theorem gen_tables_sane : True.
Proof. exact I. Qed.
Print Assumptions gen_tables_sane.
