(* C20 — existing files are never modified unless overwriting was requested.
   Only statements, closed by [exact], and Print Assumptions.

   Level 1 speaks about ONE constructor program and the node at its path; level 2 about Trajectory.save_* /
   md.open on a file system.  The theorems hold for EVERY program the checker accepts; the programs of the
   current /repo are regenerated into Gen/OverwritePrograms.v on every run and the checker is run on them
   there (lemmas all_ctors_guarded ... by vm_compute), which the mdtraj_* statements below combine. *)
From Coq Require Import List String Bool Arith.
Import ListNotations.
Require Import MD.Overwrite.Model MD.Overwrite.Proofs MD.Gen.OverwritePrograms MD.Gen.OverwriteChecks MD.Overwrite.Instances.

(* mode 'w', force_overwrite=False, something exists at the path: the constructor raises and the node is
   what it was — for every accepted program, every node, every value of the unknown conditions *)
Theorem guarded_safe : forall p, check_guarded p = true ->
  forall unk n, n <> None ->
    let E := {| e_mode := MW; e_force := false; e_unk := unk |} in
    fst (run p E {| s_node := n; s_h := HNone |}) = Error /\
    s_node (snd (run p E {| s_node := n; s_h := HNone |})) = n.
Proof. exact guarded_safe_node. Qed.
Print Assumptions guarded_safe.

(* mode 'w', force_overwrite=True: after constructing, writing [new] and closing, the path holds the old
   node untouched (an error came first), nothing, an empty file, or exactly [new] — never old and new mixed;
   and a run without error leaves exactly [new] *)
Theorem force_replaces : forall p, check_truncates p = true ->
  forall unk n new,
    let E := {| e_mode := MW; e_force := true; e_unk := unk |} in
    no_remnant n (snd (open_write_close p E n new)) new /\
    (fst (open_write_close p E n new) = Normal ->
     snd (open_write_close p E n new) = Some (File new) \/ snd (open_write_close p E n new) = Some (Dir new)).
Proof. exact force_replaces_node. Qed.
Print Assumptions force_replaces.

(* mode 'r': the node is untouched and nothing can be written through the handle *)
Theorem read_only_programs : forall p, check_readonly p = true ->
  forall unk fo n new,
    let E := {| e_mode := MR; e_force := fo; e_unk := unk |} in
    s_node (snd (run p E {| s_node := n; s_h := HNone |})) = n /\
    snd (open_write_close p E n new) = n.
Proof. exact read_only_node. Qed.
Print Assumptions read_only_programs.

(* Trajectory.save_* / md.open with force_overwrite=False, any number of frames (numbered restart files
   included): every path that existed before is unchanged *)
Theorem save_preserves_existing : forall p, check_save p = true ->
  forall E base cur F, se_force E = false -> forall q, F q <> None -> snd (srun p E base cur F) q = F q.
Proof. exact Proofs.save_preserves_existing. Qed.
Print Assumptions save_preserves_existing.

(* ... and it can only return normally when none of its targets existed *)
Theorem save_refuses_existing_target : forall p, check_save p = true ->
  forall E base cur F, se_force E = false -> fst (srun p E base cur F) = Normal ->
    forall t, In t (targets p (se_frames E) base cur) -> F t = None.
Proof. exact Proofs.save_refuses_existing_target. Qed.
Print Assumptions save_refuses_existing_target.

(* a save touches nothing but its targets *)
Theorem save_frame : forall p E base cur F q,
  ~ In q (targets p (se_frames E) base cur) -> snd (srun p E base cur F) q = F q.
Proof. exact Proofs.save_frame. Qed.
Print Assumptions save_frame.

(* force_overwrite=True on a file system: every path is afterwards untouched, absent, empty, or exactly
   the bytes of one frame set *)
Theorem save_force_replaces : forall p, check_save_truncates p = true ->
  forall E base cur F, se_force E = true -> forall q, no_remnant_fs E (F q) (snd (srun p E base cur F) q).
Proof. exact Proofs.save_force_replaces. Qed.
Print Assumptions save_force_replaces.

(* the programs regenerated from today's /repo *)
Theorem mdtraj_constructors_guarded : forall name p, In (name, p) ctors ->
  forall unk n, n <> None ->
    let E := {| e_mode := MW; e_force := false; e_unk := unk |} in
    fst (run p E {| s_node := n; s_h := HNone |}) = Error /\
    s_node (snd (run p E {| s_node := n; s_h := HNone |})) = n.
Proof. exact mdtraj_ctors_guarded. Qed.
Print Assumptions mdtraj_constructors_guarded.

Theorem mdtraj_constructors_readonly : forall name p, In (name, p) ctors ->
  forall unk fo n new,
    let E := {| e_mode := MR; e_force := fo; e_unk := unk |} in
    s_node (snd (run p E {| s_node := n; s_h := HNone |})) = n /\
    snd (open_write_close p E n new) = n.
Proof. exact mdtraj_ctors_readonly. Qed.
Print Assumptions mdtraj_constructors_readonly.

Theorem mdtraj_save_preserves_existing : forall ext p, In (ext, p) (savers ++ openers) ->
  forall E base cur F, se_force E = false -> forall q, F q <> None -> snd (srun p E base cur F) q = F q.
Proof. exact mdtraj_save_preserves. Qed.
Print Assumptions mdtraj_save_preserves_existing.

Theorem mdtraj_save_refuses_existing_target : forall ext p, In (ext, p) (savers ++ openers) ->
  forall E base cur F, se_force E = false -> fst (srun p E base cur F) = Normal ->
    forall t, In t (targets p (se_frames E) base cur) -> F t = None.
Proof. exact mdtraj_save_refuses. Qed.
Print Assumptions mdtraj_save_refuses_existing_target.

Theorem mdtraj_save_force_replaces : forall ext p, In (ext, p) (savers ++ openers) ->
  forall E base cur F, se_force E = true -> forall q, no_remnant_fs E (F q) (snd (srun p E base cur F) q).
Proof. exact mdtraj_save_force_replaces. Qed.
Print Assumptions mdtraj_save_force_replaces.

(* the checkers are not vacuous: they reject an unguarded / late-guarded / overlaying / appending program,
   and the rejected programs really break the property in the concrete semantics *)
Theorem checkers_reject_harmful_programs :
  check_guarded gro_unguarded = false /\ check_guarded gro_late_guard = false /\
  check_guarded overlay_writer = true /\ check_truncates overlay_writer = false /\
  check_readonly appending_reader = false.
Proof. exact rejected_programs. Qed.
Print Assumptions checkers_reject_harmful_programs.

Theorem unguarded_program_modifies_refuted : exists n, n <> None /\
  s_node (snd (run gro_unguarded {| e_mode := MW; e_force := false; e_unk := fun _ => false |}
                   {| s_node := n; s_h := HNone |})) <> n.
Proof. exact gro_unguarded_modifies. Qed.
Print Assumptions unguarded_program_modifies_refuted.

(* non-vacuity of the hypotheses: the translated gro constructor and the numbered-restart saver are accepted,
   the saver has several targets, and an existing node is a node *)
Example hypotheses_satisfiable :
  check_guarded ctor_Gro = true /\ check_truncates ctor_XTC = true /\ check_readonly ctor_HDF5 = true /\
  check_save save_amberrst7 = true /\
  targets save_amberrst7 3 (0, 0) (0, 0) = [(0, 1); (0, 2); (0, 3)] /\
  Some (File [1; 2]) <> None /\
  fst (srun save_amberrst7 {| se_force := false; se_frames := 3; se_unk := fun _ => false; se_new := fun i => [i] |}
            (0, 0) (0, 0) (fun q => if path_eqb q (0, 2) then Some (File [7]) else None)) = Error.
Proof. vm_compute. repeat split; discriminate. Qed.
Print Assumptions hypotheses_satisfiable.
