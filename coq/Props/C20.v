(* C20 — existing files are never modified unless overwriting was requested.
   Only statements, closed by [exact], and Print Assumptions.

   Level 1 speaks about ONE constructor program and the node at its path; level 2 about Trajectory.save_* /
   md.open on a file system.  The theorems hold for EVERY program the checker accepts; the programs of the
   current /repo are regenerated into Gen/OverwritePrograms.v on every run and the checker is run on them
   there (lemmas all_ctors_guarded ... by vm_compute), which the mdtraj_* statements below combine. *)
From Coq Require Import List String Bool Arith.
Import ListNotations.
Require Import MD.Overwrite.Model MD.Overwrite.Proofs MD.Gen.OverwritePrograms MD.Gen.OverwriteChecks MD.Overwrite.Instances
               MD.Overwrite.Sessions MD.Overwrite.SessionsProofs MD.Overwrite.SessionsInstances.

(* mode 'w', force_overwrite=False, something exists at the path: the constructor raises and the node is
   what it was — for every accepted program, every node, every value of the unknown conditions *)
Theorem guarded_safe : forall p, check_guarded p = true ->
  forall unk n, n <> None ->
    let E := {| e_mode := MW; e_force := false; e_unk := unk |} in
    fst (run p E {| s_node := n; s_h := HNone |}) = Error /\
    s_node (snd (run p E {| s_node := n; s_h := HNone |})) = n.
Proof. exact guarded_safe_node. Qed.
Print Assumptions guarded_safe.

(* mode 'w', force_overwrite=True: after constructing, writing [new] and closing, the path holds the old
   node untouched (an error came first), nothing, an empty file, or exactly [new] — never old and new mixed;
   and a run without error leaves exactly [new] *)
Theorem force_replaces : forall p, check_truncates p = true ->
  forall unk n new,
    let E := {| e_mode := MW; e_force := true; e_unk := unk |} in
    no_remnant n (snd (open_write_close p E n new)) new /\
    (fst (open_write_close p E n new) = Normal ->
     snd (open_write_close p E n new) = Some (File new) \/ snd (open_write_close p E n new) = Some (Dir new)).
Proof. exact force_replaces_node. Qed.
Print Assumptions force_replaces.

(* mode 'r': the node is untouched and nothing can be written through the handle *)
Theorem read_only_programs : forall p, check_readonly p = true ->
  forall unk fo n new,
    let E := {| e_mode := MR; e_force := fo; e_unk := unk |} in
    s_node (snd (run p E {| s_node := n; s_h := HNone |})) = n /\
    snd (open_write_close p E n new) = n.
Proof. exact read_only_node. Qed.
Print Assumptions read_only_programs.

(* Trajectory.save_* / md.open with force_overwrite=False, any number of frames (numbered restart files
   included): every path that existed before is unchanged *)
Theorem save_preserves_existing : forall p, check_save p = true ->
  forall E base cur F, se_force E = false -> forall q, F q <> None -> snd (srun p E base cur F) q = F q.
Proof. exact Proofs.save_preserves_existing. Qed.
Print Assumptions save_preserves_existing.

(* ... and it can only return normally when none of its targets existed *)
Theorem save_refuses_existing_target : forall p, check_save p = true ->
  forall E base cur F, se_force E = false -> fst (srun p E base cur F) = Normal ->
    forall t, In t (targets p (se_frames E) base cur) -> F t = None.
Proof. exact Proofs.save_refuses_existing_target. Qed.
Print Assumptions save_refuses_existing_target.

(* a save touches nothing but its targets *)
Theorem save_frame : forall p E base cur F q,
  ~ In q (targets p (se_frames E) base cur) -> snd (srun p E base cur F) q = F q.
Proof. exact Proofs.save_frame. Qed.
Print Assumptions save_frame.

(* force_overwrite=True on a file system: every path is afterwards untouched, absent, empty, or exactly
   the bytes of one frame set *)
Theorem save_force_replaces : forall p, check_save_truncates p = true ->
  forall E base cur F, se_force E = true -> forall q, no_remnant_fs E (F q) (snd (srun p E base cur F) q).
Proof. exact Proofs.save_force_replaces. Qed.
Print Assumptions save_force_replaces.

(* the programs regenerated from today's /repo *)
Theorem mdtraj_constructors_guarded : forall name p, In (name, p) ctors ->
  forall unk n, n <> None ->
    let E := {| e_mode := MW; e_force := false; e_unk := unk |} in
    fst (run p E {| s_node := n; s_h := HNone |}) = Error /\
    s_node (snd (run p E {| s_node := n; s_h := HNone |})) = n.
Proof. exact mdtraj_ctors_guarded. Qed.
Print Assumptions mdtraj_constructors_guarded.

Theorem mdtraj_constructors_readonly : forall name p, In (name, p) ctors ->
  forall unk fo n new,
    let E := {| e_mode := MR; e_force := fo; e_unk := unk |} in
    s_node (snd (run p E {| s_node := n; s_h := HNone |})) = n /\
    snd (open_write_close p E n new) = n.
Proof. exact mdtraj_ctors_readonly. Qed.
Print Assumptions mdtraj_constructors_readonly.

Theorem mdtraj_save_preserves_existing : forall ext p, In (ext, p) (savers ++ openers) ->
  forall E base cur F, se_force E = false -> forall q, F q <> None -> snd (srun p E base cur F) q = F q.
Proof. exact mdtraj_save_preserves. Qed.
Print Assumptions mdtraj_save_preserves_existing.

Theorem mdtraj_save_refuses_existing_target : forall ext p, In (ext, p) (savers ++ openers) ->
  forall E base cur F, se_force E = false -> fst (srun p E base cur F) = Normal ->
    forall t, In t (targets p (se_frames E) base cur) -> F t = None.
Proof. exact mdtraj_save_refuses. Qed.
Print Assumptions mdtraj_save_refuses_existing_target.

Theorem mdtraj_save_force_replaces : forall ext p, In (ext, p) (savers ++ openers) ->
  forall E base cur F, se_force E = true -> forall q, no_remnant_fs E (F q) (snd (srun p E base cur F) q).
Proof. exact mdtraj_save_force_replaces. Qed.
Print Assumptions mdtraj_save_force_replaces.

(* the checkers are not vacuous: they reject an unguarded / late-guarded / overlaying / appending program,
   and the rejected programs really break the property in the concrete semantics *)
Theorem checkers_reject_harmful_programs :
  check_guarded gro_unguarded = false /\ check_guarded gro_late_guard = false /\
  check_guarded overlay_writer = true /\ check_truncates overlay_writer = false /\
  check_readonly appending_reader = false.
Proof. exact rejected_programs. Qed.
Print Assumptions checkers_reject_harmful_programs.

Theorem unguarded_program_modifies_refuted : exists n, n <> None /\
  s_node (snd (run gro_unguarded {| e_mode := MW; e_force := false; e_unk := fun _ => false |}
                   {| s_node := n; s_h := HNone |})) <> n.
Proof. exact gro_unguarded_modifies. Qed.
Print Assumptions unguarded_program_modifies_refuted.

(* ---- the other ways a path is reached: mode 'a', unknown mode strings, the methods of an object opened for
   reading, the registered load functions (Overwrite/Sessions.v) *)

(* mode 'a', any force_overwrite, something exists at the path: the constructor leaves the node alone, and after
   writing [new] and closing the old bytes are still there, at most with [new] behind them *)
Theorem append_keeps_old : forall p, check_append p = true ->
  forall unk fo c new,
    let E := {| e_mode := MA; e_force := fo; e_unk := unk |} in
    s_node (snd (run p E {| s_node := Some c; s_h := HNone |})) = Some c /\
    (snd (open_write_close p E (Some c) new) = Some c \/
     exists old, c = File old /\ snd (open_write_close p E (Some c) new) = Some (File (old ++ new))).
Proof. exact append_keeps_old_node. Qed.
Print Assumptions append_keeps_old.

(* a mode string that is none of 'r', 'w', 'a': the constructor raises and the node is what it was *)
Theorem bad_mode_refused : forall p, check_badmode p = true ->
  forall unk fo n,
    let E := {| e_mode := MOther; e_force := fo; e_unk := unk |} in
    fst (run p E {| s_node := n; s_h := HNone |}) = Error /\
    s_node (snd (run p E {| s_node := n; s_h := HNone |})) = n.
Proof. exact bad_mode_refused_node. Qed.
Print Assumptions bad_mode_refused.

(* reading never alters a file: an object opened in mode 'r', then ANY sequence of calls of its methods' own
   open() sites (each may fail), leaves the node untouched and never holds a handle that can write *)
Theorem read_session_never_alters : forall ctor sites, check_session ctor sites = true ->
  forall unk fo n calls, (forall e, In e calls -> In e sites) ->
    let E := {| e_mode := MR; e_force := fo; e_unk := unk |} in
    let s := session E calls (snd (run ctor E {| s_node := n; s_h := HNone |})) in
    s_node s = n /\ not_writing (s_h s) = true.
Proof. exact read_session_untouched. Qed.
Print Assumptions read_session_never_alters.

(* a load function all of whose constructor calls are mode-'r' calls of read-only constructors changes no path *)
Theorem load_never_alters : forall p, check_load p = true ->
  forall E base cur F q, snd (srun p E base cur F) q = F q.
Proof. exact load_preserves_fs. Qed.
Print Assumptions load_never_alters.

(* Trajectory.save_*(mode='a'): every existing path keeps its old content as a prefix *)
Theorem save_append_keeps_old : forall p, check_save_append p = true ->
  forall E base cur F q, F q <> None -> extends (F q) (snd (srun p E base cur F) q).
Proof. exact save_append_extends. Qed.
Print Assumptions save_append_keeps_old.

(* today's /repo *)
Theorem mdtraj_constructors_append_keep_old : forall name p, In (name, p) ctors ->
  forall unk fo c new,
    let E := {| e_mode := MA; e_force := fo; e_unk := unk |} in
    s_node (snd (run p E {| s_node := Some c; s_h := HNone |})) = Some c /\
    (snd (open_write_close p E (Some c) new) = Some c \/
     exists old, c = File old /\ snd (open_write_close p E (Some c) new) = Some (File (old ++ new))).
Proof. exact mdtraj_ctors_append. Qed.
Print Assumptions mdtraj_constructors_append_keep_old.

Theorem mdtraj_constructors_refuse_unknown_modes : forall name p, In (name, p) ctors ->
  forall unk fo n,
    let E := {| e_mode := MOther; e_force := fo; e_unk := unk |} in
    fst (run p E {| s_node := n; s_h := HNone |}) = Error /\
    s_node (snd (run p E {| s_node := n; s_h := HNone |})) = n.
Proof. exact mdtraj_ctors_badmode. Qed.
Print Assumptions mdtraj_constructors_refuse_unknown_modes.

Theorem mdtraj_read_sessions_never_alter : forall name ctor sites, In (name, ctor, sites) read_sessions ->
  forall unk fo n calls, (forall e, In e calls -> In e sites) ->
    let E := {| e_mode := MR; e_force := fo; e_unk := unk |} in
    let s := session E calls (snd (run ctor E {| s_node := n; s_h := HNone |})) in
    s_node s = n /\ not_writing (s_h s) = true.
Proof. exact mdtraj_sessions. Qed.
Print Assumptions mdtraj_read_sessions_never_alter.

(* the registered load_* functions and md.open(path) with defaulted arguments *)
Theorem mdtraj_loaders_never_alter : forall ext p, In (ext, p) (loaders ++ open_defaults) ->
  forall E base cur F q, snd (srun p E base cur F) q = F q.
Proof. exact mdtraj_loaders. Qed.
Print Assumptions mdtraj_loaders_never_alter.

Theorem mdtraj_save_hdf5_append_keeps_old : forall name p, In (name, p) append_savers ->
  forall E base cur F q, F q <> None -> extends (F q) (snd (srun p E base cur F) q).
Proof. exact mdtraj_append_savers. Qed.
Print Assumptions mdtraj_save_hdf5_append_keeps_old.

(* every file class and md.open default to mode 'r' (the signatures are re-read on every run) *)
Theorem mdtraj_default_mode_is_read : forall name m, In (name, m) default_modes -> m = MR.
Proof. exact mdtraj_default_modes. Qed.
Print Assumptions mdtraj_default_mode_is_read.

(* every write-mode constructor call inside a Trajectory.save_* method, in whatever branch: force_overwrite is handed on *)
Theorem mdtraj_saver_constructor_calls_forward_force : forall l f, In (l, f) saver_ctor_calls -> f = FPass \/ f = FLit false.
Proof. exact mdtraj_saver_calls. Qed.
Print Assumptions mdtraj_saver_constructor_calls_forward_force.

(* the new checkers reject programs that break these clauses, and the rejected programs really do *)
Theorem session_checkers_reject_harmful_programs :
  check_append truncating_appender = false /\
  check_badmode late_mode_test = true /\ check_badmode open_anyway = false /\
  check_session ctor_XYZ rewriting_seek = false /\
  check_load writing_loader = false /\ check_save_append (SWith ctor_HDF5 MW FPass) = false.
Proof. exact sessions_rejected_programs. Qed.
Print Assumptions session_checkers_reject_harmful_programs.

Theorem truncating_append_loses_bytes_refuted :
  snd (open_write_close truncating_appender {| e_mode := MA; e_force := false; e_unk := fun _ => false |}
                        (Some (File [1; 2])) [9]) = Some (File [9]).
Proof. exact truncating_appender_loses_bytes. Qed.
Print Assumptions truncating_append_loses_bytes_refuted.

Theorem rewriting_seek_alters_refuted :
  s_node (session {| e_mode := MR; e_force := true; e_unk := fun _ => false |} rewriting_seek
                  (snd (run ctor_XYZ {| e_mode := MR; e_force := true; e_unk := fun _ => false |}
                            {| s_node := Some (File [1; 2]); s_h := HNone |}))) = Some (File []).
Proof. exact rewriting_seek_modifies. Qed.
Print Assumptions rewriting_seek_alters_refuted.

(* non-vacuity: HDF5 really appends in mode 'a', the text formats have method-level open sites, a loader exists *)
Example session_hypotheses_satisfiable :
  (exists unk, snd (open_write_close ctor_HDF5 {| e_mode := MA; e_force := false; e_unk := unk |}
                                     (Some (File [1; 2])) [9]) = Some (File [1; 2; 9])) /\
  check_append ctor_HDF5 = true /\ check_badmode ctor_Gro = true /\
  sites_XYZ <> [] /\ check_session ctor_XYZ sites_XYZ = true /\
  (exists p, In ("xtc"%string, p) loaders /\ check_load p = true) /\
  (exists p, In ("save_hdf5"%string, p) append_savers).
Proof.
  split.
  { (* the unknown conditions of the translated constructor (import checks, compression flags): one of them must
       hold for the constructor to go on; try each single one *)
    first [ exists (fun _ => false); vm_compute; reflexivity
          | exists (fun i => Nat.eqb i 1); vm_compute; reflexivity
          | exists (fun i => Nat.eqb i 2); vm_compute; reflexivity
          | exists (fun i => Nat.eqb i 3); vm_compute; reflexivity
          | exists (fun i => Nat.eqb i 4); vm_compute; reflexivity
          | exists (fun i => Nat.eqb i 5); vm_compute; reflexivity
          | exists (fun i => Nat.eqb i 6); vm_compute; reflexivity
          | exists (fun _ => true); vm_compute; reflexivity ]. }
  vm_compute. repeat split; try discriminate.
  - eexists. split; [repeat (first [left; reflexivity | right]) | reflexivity].
  - eexists. left; reflexivity.
Qed.
Print Assumptions session_hypotheses_satisfiable.

(* non-vacuity of the hypotheses: the translated gro constructor and the numbered-restart saver are accepted,
   the saver has several targets, and an existing node is a node *)
Example hypotheses_satisfiable :
  check_guarded ctor_Gro = true /\ check_truncates ctor_XTC = true /\ check_readonly ctor_HDF5 = true /\
  check_save save_amberrst7 = true /\
  targets save_amberrst7 3 (0, 0) (0, 0) = [(0, 1); (0, 2); (0, 3)] /\
  Some (File [1; 2]) <> None /\
  fst (srun save_amberrst7 {| se_force := false; se_frames := 3; se_unk := fun _ => false; se_new := fun i => [i] |}
            (0, 0) (0, 0) (fun q => if path_eqb q (0, 2) then Some (File [7]) else None)) = Error.
Proof. vm_compute. repeat split; discriminate. Qed.
Print Assumptions hypotheses_satisfiable.
