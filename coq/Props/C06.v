(* C06 -- RMSD is the optimal-superposition RMSD and superpose attains it.
   Only statements, closed by [exact], and Print Assumptions.
   Zf / Rf are regenerated from mdtraj/rmsd/src/theobald_rmsd.cpp:msdFromMandG on every run. *)
From Coq Require Import ZArith Reals List.
Import ListNotations.
Require Import MD.Gen.RmsdFormulas MD.Rmsd.Model MD.Rmsd.AlgebraZ MD.Rmsd.AlgebraR MD.Rmsd.Quaternion
               MD.Rmsd.Optimal MD.Rmsd.Variants MD.Rmsd.Solver MD.Rmsd.Headline.
Require Import MD.Gen.RmsdLayout MD.Rmsd.Layout MD.Rmsd.LayoutProofs MD.Rmsd.Selection MD.Rmsd.SelectionProofs.

(* ================= polynomial identities of the code, over Z (closed) ========================= *)
Section Z. Import ZM. Local Open Scope Z_scope.

(* det(K - t I) = t^4 + C_2 t^2 + C_1 t + C_0 with the code's C_2 = -2|M|^2, C_1 = -8 det M, C_0 = detK *)
Theorem charpoly : forall i t, detK_shift i t = ZM.charpoly i t.
Proof. exact charpoly_Z. Qed.
Print Assumptions charpoly.

(* at a root of that polynomial the vector the code normalises is an eigenvector of K (or zero) *)
Theorem adjugate_eigen : forall i, ZM.charpoly i (Zf.out_lambda i) = 0 ->
  let q0 := Zf.at_qsqr_q0 i in let q1 := Zf.at_qsqr_q1 i in let q2 := Zf.at_qsqr_q2 i in let q3 := Zf.at_qsqr_q3 i in
  let lam := Zf.out_lambda i in
  Zf.at_detK_k00 i * q0 + Zf.at_detK_k01 i * q1 + Zf.at_detK_k02 i * q2 + Zf.at_detK_k03 i * q3 = lam * q0 /\
  Zf.at_detK_k01 i * q0 + Zf.at_detK_k11 i * q1 + Zf.at_detK_k12 i * q2 + Zf.at_detK_k13 i * q3 = lam * q1 /\
  Zf.at_detK_k02 i * q0 + Zf.at_detK_k12 i * q1 + Zf.at_detK_k22 i * q2 + Zf.at_detK_k23 i * q3 = lam * q2 /\
  Zf.at_detK_k03 i * q0 + Zf.at_detK_k13 i * q1 + Zf.at_detK_k23 i * q2 + Zf.at_detK_k33 i * q3 = lam * q3.
Proof. exact adjugate_eigen_Z. Qed.
Print Assumptions adjugate_eigen.

(* rot rot^T = |q|^4 I and det rot = |q|^6 for every quaternion q *)
Theorem rot_orthogonal_poly : forall i, let n := qnorm2 i in
  Zf.out_rot0 i * Zf.out_rot0 i + Zf.out_rot1 i * Zf.out_rot1 i + Zf.out_rot2 i * Zf.out_rot2 i = n * n /\
  Zf.out_rot3 i * Zf.out_rot3 i + Zf.out_rot4 i * Zf.out_rot4 i + Zf.out_rot5 i * Zf.out_rot5 i = n * n /\
  Zf.out_rot6 i * Zf.out_rot6 i + Zf.out_rot7 i * Zf.out_rot7 i + Zf.out_rot8 i * Zf.out_rot8 i = n * n /\
  Zf.out_rot0 i * Zf.out_rot3 i + Zf.out_rot1 i * Zf.out_rot4 i + Zf.out_rot2 i * Zf.out_rot5 i = 0 /\
  Zf.out_rot0 i * Zf.out_rot6 i + Zf.out_rot1 i * Zf.out_rot7 i + Zf.out_rot2 i * Zf.out_rot8 i = 0 /\
  Zf.out_rot3 i * Zf.out_rot6 i + Zf.out_rot4 i * Zf.out_rot7 i + Zf.out_rot5 i * Zf.out_rot8 i = 0.
Proof. exact rot_orthogonal_Z. Qed.
Print Assumptions rot_orthogonal_poly.
Theorem rot_det_poly : forall i, let n := qnorm2 i in
  det3 (Zf.out_rot0 i) (Zf.out_rot1 i) (Zf.out_rot2 i) (Zf.out_rot3 i) (Zf.out_rot4 i) (Zf.out_rot5 i)
       (Zf.out_rot6 i) (Zf.out_rot7 i) (Zf.out_rot8 i) = n * n * n.
Proof. exact rot_det_Z. Qed.
Print Assumptions rot_det_poly.

(* sum_i |x_i.R(q) - |q|^2 y_i|^2 = |q|^4 (Ga+Gb) - 2 |q|^2 q^T K q   (all conformations, all quaternions) *)
Theorem residual_identity_poly : forall l lam qa qb qc qd,
  let i := inp_of l lam qa qb qc qd in let n := qa * qa + qb * qb + qc * qc + qd * qd in
  resid i n l = n * n * (Ga l + Gb l) - 2 * n * qKq i qa qb qc qd.
Proof. exact resid_identity_Z. Qed.
Print Assumptions residual_identity_poly.

Theorem eigen_upper_bound_poly : forall l lam qa qb qc qd,
  let i := inp_of l lam qa qb qc qd in let n := qa * qa + qb * qb + qc * qc + qd * qd in
  2 * n * qKq i qa qb qc qd <= n * n * (Ga l + Gb l).
Proof. exact eigen_upper_bound_Z. Qed.
Print Assumptions eigen_upper_bound_poly.

(* exchanging target and reference leaves the polynomial unchanged (and swaps the traces) *)
Theorem symmetric : forall l,
  coeffs (map swap l) = (let '(c2, c1, c0, ga, gb) := coeffs l in (c2, c1, c0, gb, ga)).
Proof. exact symmetric_Z. Qed.
Print Assumptions symmetric.

(* rotating either conformation by the rotation of a quaternion p multiplies C_2, C_1, C_0 by
   |p|^4, |p|^6, |p|^8 and the trace by |p|^4: nothing changes for a unit quaternion *)
Theorem rotation_invariant_first : forall a b c d l, let n := a * a + b * b + c * c + d * d in
  coeffs (map (rotx a b c d) l) =
  (let '(c2, c1, c0, ga, gb) := coeffs l in (n * n * c2, n * n * n * c1, n * n * n * n * c0, n * n * ga, gb)).
Proof. exact rotation_invariant_x_Z. Qed.
Print Assumptions rotation_invariant_first.
Theorem rotation_invariant_second : forall a b c d l, let n := a * a + b * b + c * c + d * d in
  coeffs (map (roty a b c d) l) =
  (let '(c2, c1, c0, ga, gb) := coeffs l in (n * n * c2, n * n * n * c1, n * n * n * n * c0, ga, n * n * gb)).
Proof. exact rotation_invariant_y_Z. Qed.
Print Assumptions rotation_invariant_second.

Theorem superpose_rigid_poly : forall i u v, let n := qnorm2 i in
  vnorm2 (vsub (rot_of i u) (rot_of i v)) = n * n * vnorm2 (vsub u v).
Proof. exact superpose_rigid_Z. Qed.
Print Assumptions superpose_rigid_poly.
End Z.

(* ================= memory layout and loop structure of the SIMD kernels (closed) ================ *)
(* Lay is regenerated from theobald_rmsd_sse.h:msd_atom_major, rotation_sse.h:rot_atom_major and
   center_sse.h:inplace_center_and_trace_atom_major on every run (iteration counts, mask table, set_ps loads) *)
Section LayoutZ. Local Open Scope nat_scope.

(* the lane pairs msd_atom_major multiplies are the n atom pairs in order, then zero pairs; no read outside 3 n floats *)
Theorem layout_msd_lanes : forall n a b, length a = 3 * n -> length b = 3 * n ->
  msd_pairs n a b = Some (pairs_spec n a b ++ repeat zero_pair (4 * Lay.msd_niters n - n)).
Proof. exact msd_pairs_spec. Qed.
Print Assumptions layout_msd_lanes.

(* hence msdFromMandG receives exactly Model.v's input record for the atom pairs (a_i, b_i): every n, all n mod 4 *)
Theorem layout_kernel_input : forall n a b lam qa qb qc qd, length a = 3 * n -> length b = 3 * n ->
  kernel_inp n a b lam qa qb qc qd = Some (ZM.inp_of (pairs_spec n a b) lam qa qb qc qd).
Proof. exact kernel_inp_spec. Qed.
Print Assumptions layout_kernel_input.

(* rot_atom_major and both passes of the centring kernel touch every atom 0..n-1 exactly once, in order *)
Theorem layout_rot_center_visit_each_atom_once : forall n,
  rot_visited n = seq 0 n /\ center_visited1 n = seq 0 n /\ center_visited2 n = seq 0 n.
Proof. intros n. exact (conj (rot_visits_each_atom_once n) (center_visits_each_atom_once n)). Qed.
Print Assumptions layout_rot_center_visit_each_atom_once.

Theorem layout_rot_buffer : forall n a r0 r1 r2 r3 r4 r5 r6 r7 r8, length a = 3 * n ->
  rot_buffer n a r0 r1 r2 r3 r4 r5 r6 r7 r8 =
  Some (map (fun i => (i, ZM.rowmul (unflat_atom a i) r0 r1 r2 r3 r4 r5 r6 r7 r8)) (seq 0 n)).
Proof. exact rot_buffer_spec. Qed.
Print Assumptions layout_rot_buffer.

(* asked for more atoms than the buffer holds, the kernel reads outside it (what md.rmsf does with atom_indices) *)
Theorem layout_rot_buffer_overrun : forall n m a r0 r1 r2 r3 r4 r5 r6 r7 r8, length a = 3 * n -> n < m ->
  rot_buffer m a r0 r1 r2 r3 r4 r5 r6 r7 r8 = None.
Proof. exact rot_buffer_overrun. Qed.
Print Assumptions layout_rot_buffer_overrun.

Theorem layout_strides : Lay.msd_stride = 12 /\ Lay.rot_stride = 12.
Proof. exact (conj eq_refl eq_refl). Qed.
Print Assumptions layout_strides.

Theorem layout_frame_pointer : forall n k buf i, atom_at (frame_ptr n k buf) i = atom_at buf (n * k + i).
Proof. exact frame_ptr_atom. Qed.
Print Assumptions layout_frame_pointer.

(* non-vacuity: the option type is not decoration -- a buffer one float short is an error *)
Example layout_short_buffer_is_an_error :
  msd_pairs 5 [1; 2; 3; 4; 5; 6; 7; 8; 9; 10; 11; 12; 13; 14]%Z [1; 2; 3; 4; 5; 6; 7; 8; 9; 10; 11; 12; 13; 14; 15]%Z = None.
Proof. exact short_buffer_is_an_error. Qed.
Print Assumptions layout_short_buffer_is_an_error.
End LayoutZ.

(* ================= statements over R (standard real-number axioms) ============================ *)
Section Real. Import RM. Local Open Scope R_scope.

(* rot_orthogonal + rot_det1: whatever the input, the matrix the code returns is a proper rotation *)
Theorem rot_proper : forall i, proper_rotation (out_rot i).
Proof. exact AlgebraR.rot_proper. Qed.
Print Assumptions rot_proper.

Theorem residual_identity : forall l lam a b c d, a * a + b * b + c * c + d * d = 1 ->
  resid (Rq a b c d) vzero l = Ga l + Gb l - 2 * qKq (inp_of l lam) a b c d.
Proof. exact residual_identity_R. Qed.
Print Assumptions residual_identity.

Theorem eigen_upper_bound : forall l lam a b c d, a * a + b * b + c * c + d * d = 1 ->
  qKq (inp_of l lam) a b c d <= (Ga l + Gb l) / 2.
Proof. exact eigen_upper_bound_R. Qed.
Print Assumptions eigen_upper_bound.

(* every proper rotation matrix is the matrix of a unit quaternion (with the code's formulas) *)
Theorem rotation_is_quaternion : forall r : mat9, proper_rotation r ->
  exists a b c d, a * a + b * b + c * c + d * d = 1 /\ r = Rq a b c d.
Proof. exact Quaternion.rotation_is_quaternion. Qed.
Print Assumptions rotation_is_quaternion.

(* if lam dominates p^T K p over unit p, no proper rotation + translation beats Ga+Gb-2 lam *)
Theorem optimal_given_top : forall l lam, centred l -> dominates (inp_of l lam) lam ->
  forall r t, proper_rotation r -> Ga l + Gb l - 2 * lam <= resid r t l.
Proof. exact optimal_all_rotations. Qed.
Print Assumptions optimal_given_top.

(* HEADLINE (partial: the hypotheses "lam is a root" and "lam dominates" are what DirectSolve is
   supposed to deliver and are NOT proved; the third hypothesis is the code's own non-fallback test) *)
Theorem rmsd_optimal_partial : forall l lam, let i := inp_of l lam in
  l <> [] -> centred l -> RM.charpoly i lam = 0 -> dominates i lam -> ~ Rf.fallback i ->
  proper_rotation (out_rot i) /\
  resid (out_rot i) vzero l = Ga l + Gb l - 2 * lam /\
  (forall r t, proper_rotation r -> resid (out_rot i) vzero l <= resid r t l) /\
  msd_code l lam = resid (out_rot i) vzero l / natoms l.
Proof. exact Optimal.rmsd_optimal_partial. Qed.
Print Assumptions rmsd_optimal_partial.

(* ---- the root solvers (Solver.v): hand models of NewtonSolve's Newton map and of DirectSolve's quartic branch *)
(* real-rooted polynomial (Vieta), start at or above the largest root: monotone decrease, never below the
   root, error times 3/4 per iteration *)
Theorem newton_monotone : forall a2 a1 a0 r1 r2 r3 r4 x0 n, real_rooted a2 a1 a0 r1 r2 r3 r4 ->
  r2 <= r1 -> r3 <= r1 -> r4 <= r1 -> r1 <= x0 ->
  r1 <= iter a2 a1 a0 n x0 <= x0 /\ iter a2 a1 a0 (S n) x0 <= iter a2 a1 a0 n x0 /\
  iter a2 a1 a0 n x0 - r1 <= (3 / 4) ^ n * (x0 - r1).
Proof. exact Solver.newton_monotone. Qed.
Print Assumptions newton_monotone.

(* Ferrari as coded: given a root u of the resolvent cubic with u - C_2 > 0 and non-negative discriminants, the
   value DirectSolve returns is a root of P and no real root is larger *)
Theorem direct_solve_top_root : forall a2 a1 a0 u, resolvent a2 a1 a0 u = 0 -> 0 < R2 a2 u -> 0 <= D2 a2 a1 u -> 0 <= E2 a2 a1 u ->
  P a2 a1 a0 (direct_solve a2 a1 u) = 0 /\ forall t, P a2 a1 a0 t = 0 -> t <= direct_solve a2 a1 u.
Proof. exact Solver.direct_solve_top_root. Qed.
Print Assumptions direct_solve_top_root.

(* HEADLINE, second form: remaining hypotheses = postcondition of solve_cubic_equation, the code's non-fallback
   test, and the spectral fact spectral_top about the symmetric matrix K *)
Theorem rmsd_optimal_from_solver_partial : forall l u,
  let lam := direct_solve (c2 l) (c1 l) u in let i := inp_of l lam in
  l <> [] -> centred l ->
  resolvent (c2 l) (c1 l) (c0 l) u = 0 -> 0 < R2 (c2 l) u -> 0 <= D2 (c2 l) (c1 l) u -> 0 <= E2 (c2 l) (c1 l) u ->
  spectral_top l -> ~ Rf.fallback i ->
  proper_rotation (out_rot i) /\
  resid (out_rot i) vzero l = Ga l + Gb l - 2 * lam /\
  (forall r t, proper_rotation r -> resid (out_rot i) vzero l <= resid r t l) /\
  msd_code l lam = resid (out_rot i) vzero l / natoms l.
Proof. exact Headline.rmsd_optimal_from_solver_partial. Qed.
Print Assumptions rmsd_optimal_from_solver_partial.

Theorem newton_solve_converges : forall l r1 r2 r3 r4 n,
  real_rooted (c2 l) (c1 l) (c0 l) r1 r2 r3 r4 -> r2 <= r1 -> r3 <= r1 -> r4 <= r1 ->
  let x0 := (Ga l + Gb l) / 2 in r1 <= x0 ->
  let x := iter (c2 l) (c1 l) (c0 l) in
  r1 <= x n x0 <= x0 /\ x (S n) x0 <= x n x0 /\ x n x0 - r1 <= (3 / 4) ^ n * (x0 - r1).
Proof. exact Headline.newton_solve_converges. Qed.
Print Assumptions newton_solve_converges.

Theorem self_zero : forall xs, let l := Optimal.self xs in let i := inp_of l (Ga l) in
  RM.charpoly i (Ga l) = 0 /\ dominates i (Ga l) /\ msd_code l (Ga l) = 0.
Proof. exact Optimal.self_zero. Qed.
Print Assumptions self_zero.

Theorem translation_invariant : forall t u al rf, al <> [] -> rf <> [] ->
  pairs_of (map (vadd t) al) (map (vadd u) rf) = pairs_of al rf.
Proof. exact pairs_translation_invariant. Qed.
Print Assumptions translation_invariant.

(* Trajectory.superpose preserves every interatomic distance (all inputs) *)
Theorem superpose_rigid : forall al rf lam u v,
  let f := fun x => vadd (rowmul (vsub x (mean al)) (superpose_rot al rf lam)) (mean rf) in
  dist2 (f u) (f v) = dist2 u v.
Proof. exact Optimal.superpose_rigid. Qed.
Print Assumptions superpose_rigid.

(* ... and attains the minimum over all proper rotations and translations (same hypotheses) *)
Theorem superpose_attains : forall al rf lam, let l := pairs_of al rf in let i := inp_of l lam in
  al <> [] -> length al = length rf -> RM.charpoly i lam = 0 -> dominates i lam -> ~ Rf.fallback i ->
  let dev := sumf (fun p => dist2 (fst p) (snd p)) (combine (superpose al rf al lam) rf) in
  dev = Ga l + Gb l - 2 * lam /\ (forall r t, proper_rotation r -> dev <= resid r t l).
Proof. exact Optimal.superpose_attains. Qed.
Print Assumptions superpose_attains.

(* ---- separate atom selections for the mobile and the reference structure (any order, repetitions allowed) *)
(* Trajectory.superpose(reference, frame, atom_indices=A, ref_atom_indices=B): ALL atoms are moved by one
   distance-preserving map, and the atoms A of the result against the atoms B of the reference attain the minimum
   over all proper rotations and translations (same solver hypotheses as superpose_attains) *)
Theorem superpose_honours_selections : forall A B mob ref lam al rf,
  select A mob = Some al -> select B ref = Some rf -> al <> [] -> length al = length rf ->
  let l := pairs_of al rf in let i := inp_of l lam in
  RM.charpoly i lam = 0 -> dominates i lam -> ~ Rf.fallback i ->
  exists out, superpose_sel A B mob ref lam = Some out /\ length out = length mob /\
    (exists f, out = map f mob /\ forall u v, dist2 (f u) (f v) = dist2 u v) /\
    exists al', select A out = Some al' /\
      let dev := sumf (fun p => dist2 (fst p) (snd p)) (combine al' rf) in
      dev = Ga l + Gb l - 2 * lam /\ forall r t, proper_rotation r -> dev <= resid r t l.
Proof. exact superpose_selection. Qed.
Print Assumptions superpose_honours_selections.

Theorem rmsd_honours_selections : forall A B tgt ref al rf, select A tgt = Some al -> select B ref = Some rf ->
  length A = length B -> rmsd_sel_pairs A B tgt ref = Some (pairs_of al rf) /\ length (pairs_of al rf) = length A.
Proof. exact rmsd_selection_pairs. Qed.
Print Assumptions rmsd_honours_selections.

Theorem selection_index_out_of_range_is_an_error : forall (A : list nat) (l : list v3) i,
  In i A -> (length l <= i)%nat -> select A l = None.
Proof. exact selection_out_of_range. Qed.
Print Assumptions selection_index_out_of_range_is_an_error.

(* two-variant rule for the choice of the adjugate column *)
Theorem superpose_attains_cur_refuted : exists l lam, let i := inp_of l lam in
  l <> [] /\ centred l /\ RM.charpoly i lam = 0 /\ dominates i lam /\
  resid (rot_cur i lam) vzero l <> Ga l + Gb l - 2 * lam /\
  (exists j, resid (rot_fix_with i lam j) vzero l = Ga l + Gb l - 2 * lam).
Proof. exact Variants.superpose_attains_cur_refuted. Qed.
Print Assumptions superpose_attains_cur_refuted.

Theorem superpose_attains_fix : forall l lam j, let i := inp_of l lam in
  centred l -> RM.charpoly i lam = 0 -> dominates i lam -> 0 < n4 (Kcol i lam j) ->
  proper_rotation (rot_fix_with i lam j) /\
  resid (rot_fix_with i lam j) vzero l = Ga l + Gb l - 2 * lam /\
  (forall r t, proper_rotation r -> resid (rot_fix_with i lam j) vzero l <= resid r t l).
Proof. exact Variants.superpose_attains_fix. Qed.
Print Assumptions superpose_attains_fix.

(* non-vacuity of the hypothesis set of rmsd_optimal_partial / superpose_attains *)
Example optimal_hypotheses_satisfiable : let l := oct_self in let i := inp_of l 6 in
  l <> [] /\ centred l /\ RM.charpoly i 6 = 0 /\ dominates i 6 /\ ~ Rf.fallback i.
Proof. exact Variants.optimal_hypotheses_satisfiable. Qed.
Print Assumptions optimal_hypotheses_satisfiable.
End Real.
