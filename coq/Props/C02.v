(* C02 - partial loading equals slicing the fully loaded trajectory.
   Only statements, closed by [exact], and Print Assumptions.

   Model: MD.Load.Model.  A file is a list of frames (any type A), atom selection a function on
   frames.  [spec_load], [spec_iterload], [spec_load_list] are the property's right-hand sides
   (slicing / chunking the full load).  [junk] is whatever an uninitialised buffer slot holds.
   Guards: stride >= 1, chunk >= 1 (chunk = 0 has its own theorem), skip within the file.
   "fuel" only bounds how many chunks the harness is willing to wait for: the theorems hold for
   EVERY fuel above the number of frames, i.e. the iteration ends by itself (ending = Fin). *)
From Coq Require Import List Arith Bool.
Import ListNotations.
Require Import MD.Lib.Strided MD.Load.Model MD.Load.Lemmas MD.Load.Proofs MD.Load.Theorems MD.Load.Refuted.
Require Import MD.Load.Reflect MD.Load.ReflectProofs MD.Load.Stamps.
Require MD.Cursor.Model MD.Load.CursorLink.
Require Import MD.Load.MultiModel MD.Load.MultiProofs MD.Load.MultiReflect MD.Load.MultiReflectProofs.

Section Statements.
Context {A : Type} (junk : A).

(* ---- load(stride): every family but arc *)
Theorem load_stride : forall fm (f : list A) str ai, stride_ok fm -> 1 <= str -> (fm = FTrr -> f <> []) ->
  load junk fm f str None ai = spec_load f str None ai.
Proof. exact (Theorems.load_stride junk). Qed.

(* ---- load_frame / load(frame=k): the k-th frame and nothing else *)
Theorem load_frame_nth_hdf5 : forall b (f : list A) str k ai, 1 <= str -> k < length f ->
  load junk (FArr b) f str (Some k) ai = spec_load f str (Some k) ai.
Proof. intros [|]; [exact (load_frame_arr_fix junk)|exact (load_frame_arr_cur junk)]. Qed.

Theorem load_frame_nth_netcdf : forall (f : list A) str k ai, 1 <= str -> k < length f ->
  load junk FNc f str (Some k) ai = spec_load f str (Some k) ai.
Proof. exact (load_frame_nc junk). Qed.

Theorem load_frame_nth_sequential : forall (f : list A) str k ai, 1 <= str -> k < length f ->
  load junk FSeq f str (Some k) ai = spec_load f str (Some k) ai.
Proof. exact (load_frame_seq junk). Qed.

Theorem load_frame_nth_xtc : forall (f : list A) str k ai, 1 <= str -> k < length f ->
  load junk FXtc f str (Some k) ai = spec_load f str (Some k) ai.
Proof. exact (load_frame_xtc junk). Qed.

Theorem load_frame_nth_trr : forall (f : list A) str k ai, 1 <= str -> k < length f ->
  load junk FTrr f str (Some k) ai = spec_load f str (Some k) ai.
Proof. exact (load_frame_trr junk). Qed.

(* ---- iterload(chunk, stride, skip) is the chunking of the strided, skipped, atom-sliced file *)
Theorem iterload_chunks_hdf5_repaired : forall g (f : list A) c str k ai fuel,
  1 <= c -> 1 <= str -> length f < fuel ->
  iterload junk g (FArr true) f c str k ai fuel = spec_iterload f c str k ai.
Proof. exact (iterload_arr_fix junk). Qed.

Theorem iterload_chunks_netcdf : forall g (f : list A) c str k ai fuel,
  1 <= c -> 1 <= str -> length f < fuel ->
  iterload junk g FNc f c str k ai fuel = spec_iterload f c str k ai.
Proof. exact (iterload_nc junk). Qed.

Theorem iterload_chunks_sequential : forall g (f : list A) c str k ai fuel,
  1 <= c -> 1 <= str -> k <= length f -> length f < fuel ->
  iterload junk g FSeq f c str k ai fuel = spec_iterload f c str k ai.
Proof. exact (iterload_seq junk). Qed.

Theorem iterload_chunks_trr : forall g (f : list A) c str k ai fuel,
  1 <= c -> 1 <= str -> k < length f -> length f < fuel ->
  iterload junk g FTrr f c str k ai fuel = spec_iterload f c str k ai.
Proof. exact (iterload_trr junk). Qed.

Theorem iterload_chunks_xtc_without_skip : forall g (f : list A) c str ai fuel,
  1 <= c -> 1 <= str -> length f < fuel ->
  iterload junk g FXtc f c str 0 ai fuel = spec_iterload f c str 0 ai.
Proof. exact (iterload_xtc_noskip junk). Qed.

Theorem iterload_chunks_gro_arc_repaired_without_skip : forall g (f : list A) c str ai fuel,
  1 <= c -> 1 <= str -> length f < fuel ->
  iterload junk g FSeqNoSeek f c str 0 ai fuel = spec_iterload f c str 0 ai.
Proof. exact (iterload_seq_noseek_noskip junk). Qed.

Theorem iterload_chunk0_repaired : forall g fm (f : list A) str k ai fuel, chunk0_fix g = true ->
  load junk fm f 1 None ai = spec_load f 1 None ai ->
  iterload junk g fm f 0 str k ai fuel = spec_iterload f 0 str k ai.
Proof. exact (Theorems.iterload_chunk0_repaired junk). Qed.

Theorem iterload_pdb_repaired : forall g b (f : list A) c str k ai fuel, pdbiter_fix g = true -> 1 <= c ->
  iterload junk g (FPdb b) f c str k ai fuel = spec_iterload f c str k ai.
Proof. exact (Theorems.iterload_pdb_repaired junk). Qed.

(* ---- what "= spec_iterload" gives: concatenation, chunk sizes, number of chunks, termination *)
Theorem iterload_concat : forall (f : list A) c str k ai, 1 <= c ->
  concat (fst (spec_iterload f c str k ai)) = map (app ai) (every str (skipn k f)).
Proof. exact spec_iterload_concat. Qed.

Theorem iterload_sizes : forall (f : list A) c str k ai, 1 <= c ->
  sizes_ok c (fst (spec_iterload f c str k ai)).
Proof. exact spec_iterload_sizes. Qed.

Theorem iterload_terminates : forall (f : list A) c str k ai, 1 <= c -> 1 <= str ->
  length (fst (spec_iterload f c str k ai)) = ((length f - k + str - 1) / str + c - 1) / c /\
  snd (spec_iterload f c str k ai) = Fin.
Proof. exact spec_iterload_count. Qed.

(* ---- load([f1;...;fk]) = join of the individual loads *)
Theorem load_list_join : forall fm (fs : list (list A)) str ai, stride_ok fm -> 1 <= str -> fs <> [] ->
  (fm = FTrr -> forall f, In f fs -> f <> []) ->
  load_list junk fm fs str ai = spec_load_list fs str ai.
Proof. exact (Theorems.load_list_join junk). Qed.

(* ---- atom subsetting commutes with partial loading *)
Theorem atoms_commute_load : forall (f : list A) str frame sel,
  spec_load f str frame (Some sel) =
  match spec_load f str frame None with Ok l => Ok (map sel l) | Raise => Raise end.
Proof. exact spec_load_atoms. Qed.

Theorem atoms_commute_iterload : forall (f : list A) c str k sel,
  spec_iterload f c str k (Some sel) =
  (map (map sel) (fst (spec_iterload f c str k None)), snd (spec_iterload f c str k None)).
Proof. exact spec_iterload_atoms. Qed.

(* on the models themselves, for the readers that satisfy the property *)
Theorem atoms_commute : forall g fm (f : list A) c str k sel fuel,
  1 <= c -> 1 <= str -> length f < fuel ->
  (fm = FArr true \/ fm = FNc \/ (fm = FSeq /\ k <= length f) \/ (fm = FTrr /\ k < length f)) ->
  iterload junk g fm f c str k (Some sel) fuel =
  (map (map sel) (fst (iterload junk g fm f c str k None fuel)), snd (iterload junk g fm f c str k None fuel)).
Proof. exact (atoms_commute_right_readers junk). Qed.

(* xtc as found, general form: after any seek, any stride > 1, any chunk, any file: never ends *)
Theorem iterload_xtc_after_skip_never_terminates : forall g (f : list A) c str k ai,
  1 <= c -> 1 < str -> 0 < k < length f ->
  forall fuel, snd (iterload junk g FXtc f c str k ai fuel) = Diverged.
Proof. exact (xtc_iterload_after_skip_diverges junk). Qed.

(* ---- the remaining corners, characterised for every file *)
Theorem iterload_gro_arc_repaired_skip_refused : forall g (f : list A) c str k ai fuel, 1 <= c -> 0 < k ->
  iterload junk g FSeqNoSeek f c str k ai fuel = ([], Raised).
Proof. exact (iterload_seq_noseek_skip_refused junk). Qed.

Theorem load_frame_gro_arc_repaired_refused : forall (f : list A) str k ai,
  load junk FSeqNoSeek f str (Some k) ai = Raise.
Proof. exact (load_frame_seq_noseek_refused junk). Qed.

Theorem load_stride_arc_repaired : forall (f : list A) str ai, 1 <= str ->
  load junk FSeqNoSeek f str None ai = spec_load f str None ai.
Proof. intros f str ai Hs. apply (Theorems.load_stride junk FSeqNoSeek); [exact I|exact Hs|discriminate]. Qed.

Theorem iterload_chunks_xtc_stride1_after_skip : forall g (f : list A) c k ai fuel,
  1 <= c -> 0 < k < length f -> length f < fuel ->
  iterload junk g FXtc f c 1 k ai fuel = spec_iterload f c 1 k ai.
Proof. exact (iterload_xtc_stride1_after_skip junk). Qed.

Theorem iterload_skip_all_xtc_trr_always_refused : forall g fm (f : list A) c str k ai fuel, fm = FXtc \/ fm = FTrr ->
  1 <= c -> 0 < k -> length f <= k ->
  iterload junk g fm f c str k ai fuel = ([], Raised).
Proof. exact (iterload_xdr_skip_all_refused junk). Qed.

(* ---- reflection: terms extracted from mdtraj's sources (coq/Gen/LoadReaders.v, regenerated on every run) that pass
   the checkers have exactly the semantics of the model; the per-run lemmas  check <term> = true  are in Gen *)
Theorem reflected_reader_is_model : forall r fm, classify r = Some fm ->
  (forall (f : list A) s n str ai, 1 <= str -> reader_sem r f s n str ai = rd junk fm f s n str ai) /\
  (forall (f : list A) s k, cnt s = pos s -> reader_seek r f s k = sk fm f s k).
Proof. exact (classify_sound junk). Qed.

Theorem reflected_loader_is_model : forall d r fm, check_loader d = true -> classify r = Some fm ->
  (forall b, fm <> FPdb b) -> forall (f : list A) str frame ai, 1 <= str ->
  loader_sem d (reader_sem r) (reader_seek r) f str frame ai = load junk fm f str frame ai.
Proof. exact (loader_sound junk). Qed.

Theorem reflected_iterload_is_model : forall g r fm gl, check_glue g = true -> classify r = Some fm ->
  (forall b, fm <> FPdb b) -> forall (f : list A) c str k ai fuel, 1 <= c -> 1 <= str ->
  glue_sem g (reader_sem r) (reader_seek r) f c str k ai fuel = iterload junk gl fm f c str k ai fuel.
Proof. exact (glue_sound junk). Qed.

Theorem reflected_iterload_satisfies_C02 : forall g r fm, check_glue g = true -> classify r = Some fm ->
  forall (f : list A) c str k ai fuel, 1 <= c -> 1 <= str -> length f < fuel ->
  (fm = FArr true \/ fm = FNc \/ (fm = FSeq /\ k <= length f) \/ (fm = FSeqNoSeek /\ k = 0)) ->
  glue_sem g (reader_sem r) (reader_seek r) f c str k ai fuel = spec_iterload f c str k ai.
Proof. exact (reflected_iterload_right junk). Qed.

(* ---- time stamps synthesised by read_as_traj / load_pdb agree with the full load (settime = any stamp overwrite) *)
Theorem iterload_time_synthesised : forall (settime : nat -> A -> A) fm (f : list A) c str k ai fuel,
  (fm = FSeq /\ k <= length f) \/ (fm = FSeqNoSeek /\ k = 0) ->
  1 <= c -> 1 <= str -> commutes settime ai -> length f < fuel ->
  iter_loop fuel (fun s => rd_synth junk settime fm f s (Some c) str ai) (mkst k k false) =
  spec_iterload (full settime f) c str k ai.
Proof. exact (iterload_synth_time junk). Qed.

Theorem load_time_synthesised : forall (settime : nat -> A -> A) fm (f : list A) str frame ai,
  rd junk fm = seq_read -> 1 <= str -> commutes settime ai ->
  (match frame with Some k => k < length f /\ fm = FSeq | None => True end) ->
  (let s1 := match frame with Some k => mkst k k false | None => st0 end in
   snd (rd_synth junk settime fm f s1 (match frame with Some _ => Some 1 | None => None end) str ai)) =
  spec_load (full settime f) str frame ai.
Proof. exact (load_synth_time junk). Qed.

Theorem load_pdb_time_repaired : forall (settime : nat -> A -> A) (f : list A) str frame ai, 1 <= str ->
  commutes settime ai -> pdb_load_time settime true f str frame ai = spec_load (full settime f) str frame ai.
Proof. exact pdb_load_time_repaired. Qed.

End Statements.

Print Assumptions load_stride.
Print Assumptions load_frame_nth_hdf5.
Print Assumptions load_frame_nth_netcdf.
Print Assumptions load_frame_nth_sequential.
Print Assumptions load_frame_nth_xtc.
Print Assumptions load_frame_nth_trr.
Print Assumptions iterload_chunks_hdf5_repaired.
Print Assumptions iterload_chunks_netcdf.
Print Assumptions iterload_chunks_sequential.
Print Assumptions iterload_chunks_trr.
Print Assumptions iterload_chunks_xtc_without_skip.
Print Assumptions iterload_chunks_gro_arc_repaired_without_skip.
Print Assumptions iterload_chunk0_repaired.
Print Assumptions iterload_pdb_repaired.
Print Assumptions iterload_concat.
Print Assumptions iterload_sizes.
Print Assumptions iterload_terminates.
Print Assumptions load_list_join.
Print Assumptions atoms_commute_load.
Print Assumptions atoms_commute_iterload.
Print Assumptions atoms_commute.
Print Assumptions iterload_xtc_after_skip_never_terminates.
Print Assumptions iterload_gro_arc_repaired_skip_refused.
Print Assumptions load_frame_gro_arc_repaired_refused.
Print Assumptions load_stride_arc_repaired.
Print Assumptions iterload_chunks_xtc_stride1_after_skip.
Print Assumptions iterload_skip_all_xtc_trr_always_refused.
Print Assumptions reflected_reader_is_model.
Print Assumptions reflected_loader_is_model.
Print Assumptions reflected_iterload_is_model.
Print Assumptions reflected_iterload_satisfies_C02.
Print Assumptions iterload_time_synthesised.
Print Assumptions load_time_synthesised.
Print Assumptions load_pdb_time_repaired.

(* ================================================================== the code as found: refuted *)
Theorem iterload_chunks_hdf5_current_refuted :
  exists (f : list nat) c s k, 1 <= c /\ 1 <= s /\ k <= length f /\
    iterload 99 g11 (FArr false) f c s k None (S (length f)) <> spec_iterload f c s k None.
Proof. exact arr_cur_iterload_refuted. Qed.
Print Assumptions iterload_chunks_hdf5_current_refuted.

Theorem iterload_chunks_xtc_after_skip_refuted :
  exists (f : list nat) c s k, 1 <= c /\ 1 <= s /\ k < length f /\
    iterload 99 g11 FXtc f c s k None (S (length f)) <> spec_iterload f c s k None.
Proof. exact xtc_cur_iterload_refuted. Qed.
Print Assumptions iterload_chunks_xtc_after_skip_refuted.

Theorem iterload_terminates_xtc_after_skip_refuted :
  forall fuel, snd (iterload 99 g11 FXtc (seq 0 10) 2 3 1 None fuel) = Diverged.
Proof. exact xtc_cur_iterload_diverges. Qed.
Print Assumptions iterload_terminates_xtc_after_skip_refuted.

Theorem iterload_skip_all_xtc_trr_refused :
  exists (f : list nat) c s, 1 <= c /\ 1 <= s /\
    iterload 99 g11 FTrr f c s (length f) None (S (length f)) <> spec_iterload f c s (length f) None /\
    iterload 99 g11 FXtc f c s (length f) None (S (length f)) <> spec_iterload f c s (length f) None.
Proof. exact xdr_skip_all_refused. Qed.
Print Assumptions iterload_skip_all_xtc_trr_refused.

Theorem iterload_sizes_gro_current_refuted :
  exists (f : list nat) c s, 1 <= c /\ 1 <= s /\
    iterload 99 g11 FGro f c s 0 None (S (length f)) <> spec_iterload f c s 0 None.
Proof. exact gro_cur_iterload_refuted. Qed.
Print Assumptions iterload_sizes_gro_current_refuted.

Theorem load_frame_gro_current_refused :
  exists (f : list nat) k, k < length f /\ load_frame 99 FGro f k None = Raise /\
              fst (iterload 99 g11 FGro f 3 1 k None (S (length f))) = [] /\
              snd (iterload 99 g11 FGro f 3 1 k None (S (length f))) = Raised.
Proof. exact gro_cur_load_frame_refused. Qed.
Print Assumptions load_frame_gro_current_refused.

Theorem load_frame_nth_dtr_current_refuted :
  exists (f : list nat) k, k < length f /\ load_frame 99 FDtr f k None <> spec_load f 1 (Some k) None.
Proof. exact dtr_cur_load_frame_refuted. Qed.
Print Assumptions load_frame_nth_dtr_current_refuted.

Theorem iterload_chunks_dtr_current_refuted :
  exists (f : list nat) c s k, 1 <= c /\ 1 <= s /\ k <= length f /\
    iterload 99 g11 FDtr f c s k None (S (length f)) <> spec_iterload f c s k None.
Proof. exact dtr_cur_iterload_refuted. Qed.
Print Assumptions iterload_chunks_dtr_current_refuted.

Theorem load_stride_arc_current_refused :
  exists (f : list nat) s, 1 <= s /\ load 99 FArc f s None None = Raise.
Proof. exact arc_cur_load_stride_refused. Qed.
Print Assumptions load_stride_arc_current_refused.

Theorem iterload_arc_current_raises_at_end :
  exists (f : list nat) c s, 1 <= c /\ 1 <= s /\
    fst (iterload 99 g11 FArc f c s 0 None (S (length f))) = fst (spec_iterload f c s 0 None) /\
    snd (iterload 99 g11 FArc f c s 0 None (S (length f))) = Raised.
Proof. exact arc_cur_iterload_raises_at_end. Qed.
Print Assumptions iterload_arc_current_raises_at_end.

Theorem atoms_arc_current_refused :
  exists (f : list nat), load 99 FArc f 1 None sel1 = Raise /\ load_frame 99 FArc f 0 None = Raise.
Proof. exact arc_cur_atoms_refused. Qed.
Print Assumptions atoms_arc_current_refused.

Theorem atoms_commute_pdb_frame_current_refused :
  exists (f : list nat) k, k < length f /\ load_frame 99 (FPdb false) f k sel1 = Raise.
Proof. exact pdb_cur_frame_atoms_refused. Qed.
Print Assumptions atoms_commute_pdb_frame_current_refused.

Theorem iterload_pdb_current_ignores_skip_refuted :
  exists (f : list nat) c s k, 1 <= c /\ 1 <= s /\ k <= length f /\
    iterload 99 g00 (FPdb true) f c s k None (S (length f)) <> spec_iterload f c s k None.
Proof. exact pdb_cur_iterload_ignores_skip. Qed.
Print Assumptions iterload_pdb_current_ignores_skip_refuted.

Theorem iterload_chunk0_current_drops_stride_refuted :
  exists (f : list nat) s k, 1 <= s /\ k <= length f /\
    iterload 99 g00 FNc f 0 s k None (S (length f)) <> spec_iterload f 0 s k None.
Proof. exact chunk0_cur_drops_stride. Qed.
Print Assumptions iterload_chunk0_current_drops_stride_refuted.

Theorem atoms_commute_chunk0_current_refuted :
  exists (f : list nat) k, k <= length f /\
    iterload 99 g00 FNc f 0 1 k sel1 (S (length f)) <> spec_iterload f 0 1 k sel1.
Proof. exact chunk0_cur_drops_atoms. Qed.
Print Assumptions atoms_commute_chunk0_current_refuted.

(* ================================================================== C02 <-> C18: one model
   the reader families of this development, at stride 1 without atom selection, driven by C18's operations,
   refine C18's abstract cursor (MD.Cursor.Model.spec_run) on every in-range history *)
Theorem load_readers_refine_cursor : forall fm (f : list nat) ops, CursorLink.linked fm ->
  MD.Cursor.Model.all_in_range (length f) 0 ops = true ->
  CursorLink.lrun fm f st0 ops = MD.Cursor.Model.spec_run f 0 ops.
Proof.
  intros fm f ops Hfm Hr.
  apply (CursorLink.load_readers_refine_cursor fm f Hfm ops st0 0); [split; reflexivity|apply Nat.le_0_l|exact Hr].
Qed.
Print Assumptions load_readers_refine_cursor.

Theorem load_pdb_time_current_refuted :
  exists (f : list (nat * nat)) k, k < length f /\
    pdb_load_time (fun t x => (t, snd x)) false f 1 (Some k) None <>
    spec_load (full (fun t x => (t, snd x)) f) 1 (Some k) None.
Proof. exact pdb_load_time_current_refuted. Qed.
Print Assumptions load_pdb_time_current_refuted.

(* non-vacuity: the hypotheses of the general theorems are satisfiable by a non-trivial instance,
   and on it the model really produces three chunks [1;4] [7] ... of the 10-frame file *)
Example guards_satisfiable :
  1 <= 2 /\ 1 <= 3 /\ 1 < length (seq 0 10) /\ length (seq 0 10) < 14 /\
  iterload 99 g11 FTrr (seq 0 10) 2 3 1 None 14 = ([[1; 4]; [7]], Fin) /\
  iterload 99 g11 (FArr true) (seq 0 10) 3 2 0 sel1 14 = ([[100; 102; 104]; [106; 108]], Fin).
Proof. repeat split; try (vm_compute; reflexivity); vm_compute; auto with arith. Qed.
Print Assumptions guards_satisfiable.

(* ================================================================== md.load of a LIST of files (round 5)
   [same] is the overlap test of Trajectory.join (all atoms within 2e-3 nm), any boolean relation on frames.
   load_list_d: every file through the loader with the same arguments, then md.join = the LEFT fold of
   Trajectory.join; spec_load_list_d: md.join of the strided, atom-sliced full files (the property). *)
Section Lists.
Context {A : Type} (junk : A) (same : A -> A -> bool).

Theorem load_list_discard_join : forall d fm (fs : list (list A)) str ai, stride_ok fm -> 1 <= str -> fs <> [] ->
  (fm = FTrr -> forall f, In f fs -> f <> []) ->
  load_list_d junk same d fm fs str ai = spec_load_list_d same d fs str ai.
Proof. exact (load_list_d_join junk same). Qed.

Theorem load_list_join_is_concatenation : forall (fs : list (list A)) str ai,
  spec_load_list_d same false fs str ai = spec_load_list fs str ai.
Proof. exact (spec_load_list_d_plain same). Qed.

Theorem load_list_layers_agree : forall fm (fs : list (list A)) str ai,
  load_list_d junk same false fm fs str ai = load_list junk fm fs str ai.
Proof. exact (load_list_d_plain junk same). Qed.

Theorem load_list_discard_without_overlap : forall (fs : list (list A)) str ai f0 x, 1 <= str ->
  lasto (map (app ai) (every str f0)) = Some x ->
  separated same x (map (fun f => map (app ai) (every str f)) fs) ->
  spec_load_list_d same true (f0 :: fs) str ai = spec_load_list (f0 :: fs) str ai.
Proof. exact (discard_without_overlap same). Qed.

Theorem load_list_discard_reassembles : forall (s0 : list A) segs ai x,
  (forall y, same (app ai y) (app ai y) = true) -> lasto s0 = Some x -> chain x segs ->
  spec_load_list_d same true (s0 :: segs) 1 ai = Ok (map (app ai) (s0 ++ concat (map (@tl A) segs))).
Proof. exact (discard_reassembles same). Qed.

(* ---- dispatch by file extension around the readers *)
Theorem dispatch_by_extension_conforming : forall g fm (f : list A) fs c str k frame ai d fuel,
  md_load junk disp_ok fm f str frame ai = load junk fm f str frame ai /\
  md_iterload junk disp_ok g fm f c str k ai fuel = iterload junk g fm f c str k ai fuel /\
  md_load_list junk same disp_ok d fm fs str ai = load_list_d junk same d fm fs str ai.
Proof. exact (dispatch_conforming junk same). Qed.

Theorem dispatch_unknown_topology_extension_refuses : forall dp g fm (f : list A) fs c str k frame ai d fuel,
  top_by_ext dp = false ->
  md_load junk dp fm f str frame ai = Raise /\
  md_load_list junk same dp d fm fs str ai = Raise /\
  md_iterload junk dp g fm f 0 str k ai fuel = ([], Raised) /\
  (has_fileobject dp = true -> calls_load fm c = false ->
   md_iterload junk dp g fm f c str k ai fuel = iterload junk g fm f c str k ai fuel).
Proof. exact (dispatch_unknown_topology_extension junk same). Qed.

Theorem dispatch_no_fileobject_refuses : forall dp g fm (f : list A) c str k ai fuel,
  has_fileobject dp = false -> calls_load fm c = false ->
  md_iterload junk dp g fm f c str k ai fuel = ([], Raised).
Proof. exact (dispatch_no_fileobject junk). Qed.

End Lists.

Print Assumptions load_list_discard_join.
Print Assumptions load_list_join_is_concatenation.
Print Assumptions load_list_layers_agree.
Print Assumptions load_list_discard_without_overlap.
Print Assumptions load_list_discard_reassembles.
Print Assumptions dispatch_by_extension_conforming.
Print Assumptions dispatch_unknown_topology_extension_refuses.
Print Assumptions dispatch_no_fileobject_refuses.

(* non-vacuity of chain / lasto: segments 0..3 | 3..5 | 5..8; plain joining doubles frames 3 and 5 *)
Example load_list_discard_example :
  spec_load_list_d nsame true [[0; 1; 2; 3]; [3; 4; 5]; [5; 6; 7; 8]] 1 None = Ok (seq 0 9) /\
  spec_load_list_d nsame false [[0; 1; 2; 3]; [3; 4; 5]; [5; 6; 7; 8]] 1 None = Ok [0; 1; 2; 3; 3; 4; 5; 5; 6; 7; 8] /\
  chain 3 [[3; 4; 5]; [5; 6; 7; 8]] /\ lasto [0; 1; 2; 3] = Some 3.
Proof. exact discard_example. Qed.
Print Assumptions load_list_discard_example.

Example load_list_discard_stride_example :
  spec_load_list_d nsame true [[0; 1; 2; 3]; [3; 4; 5]; [5; 6; 7; 8]] 2 None = Ok [0; 2; 3; 5; 7] /\
  spec_load_list_d nsame true [[0; 1; 2; 3; 4]; [4; 5; 6]] 2 None = Ok [0; 2; 4; 6].
Proof. exact discard_stride_example. Qed.
Print Assumptions load_list_discard_stride_example.

(* as found: md.load('x.hdf5') and md.iterload('x.stk', chunk > 0) refuse *)
Theorem load_hdf5_extension_current_refused :
  exists (f : list nat), f <> [] /\
    md_load 99 (mkdisp false true) (FArr true) f 1 None None <> spec_load f 1 None None /\
    md_load 99 (mkdisp false true) (FArr true) f 1 (Some 0) None <> spec_load f 1 (Some 0) None /\
    load_frame 99 (FArr true) f 0 None = spec_load f 1 (Some 0) None.
Proof. exact hdf5_extension_refuted. Qed.
Print Assumptions load_hdf5_extension_current_refused.

Theorem iterload_stk_current_refused :
  exists (f : list nat) c, 1 <= c /\
    md_iterload 99 (mkdisp true false) (mkglue true true) FNc f c 1 0 None (S (length f)) <> spec_iterload f c 1 0 None.
Proof. exact stk_iterload_refuted. Qed.
Print Assumptions iterload_stk_current_refused.

(* ---- reflection for the list-loading layer: the terms extracted from md.load's tail, md.join and the
   discard_overlapping_frames block of Trajectory.join (coq/Gen/LoadReaders.v: join_term, load_list_term) that pass the
   checkers denote exactly the model; [other] is whatever a different overlap test would compute *)
Theorem reflected_join_is_model : forall (A : Type) (same other : A -> A -> bool) j, check_join j = true ->
  forall d (a b : list A), join2_sem same other j d a b = join2 same d a b.
Proof. exact @join_reflection. Qed.
Print Assumptions reflected_join_is_model.

Theorem reflected_load_list_is_model : forall (A : Type) (junk : A) (same other : A -> A -> bool) m j,
  check_list m = true -> check_join j = true ->
  forall d fm (fs : list (list A)) str ai,
  list_sem junk same other m j d fm fs str ai = load_list_d junk same d fm fs str ai.
Proof. exact @list_reflection. Qed.
Print Assumptions reflected_load_list_is_model.

Theorem reflected_load_list_satisfies_C02 : forall (A : Type) (junk : A) (same other : A -> A -> bool) m j,
  check_list m = true -> check_join j = true ->
  forall d fm (fs : list (list A)) str ai, stride_ok fm -> 1 <= str -> fs <> [] ->
  (fm = FTrr -> forall f, In f fs -> f <> []) ->
  list_sem junk same other m j d fm fs str ai = spec_load_list_d same d fs str ai.
Proof. exact @list_reflection_satisfies_C02. Qed.
Print Assumptions reflected_load_list_satisfies_C02.

(* terms that differ denote something else: trimming the first frame of the later file keeps the other copy of the
   junction frame (another time stamp); a discard flag that is not handed on doubles the junction frame *)
Example reflected_join_other_trim_differs :
  join2_sem (fun a b : nat * nat => fst a =? fst b) (fun _ _ => false)
            (mkjterm JLast JFirst true true 20 TrimRightFirst true) true [(0, 0); (1, 1)] [(1, 0); (2, 1)]
    <> join2 (fun a b : nat * nat => fst a =? fst b) true [(0, 0); (1, 1)] [(1, 0); (2, 1)].
Proof. exact (proj2 trim_right_differs). Qed.
Print Assumptions reflected_join_other_trim_differs.

Example reflected_load_list_discard_dropped_differs :
  list_sem 99 nsame nsame (mkmlterm true true true false true) ref_jterm true FNc [[0; 1]; [1; 2]] 1 None
    <> spec_load_list_d nsame true [[0; 1]; [1; 2]] 1 None.
Proof. exact discard_not_passed_differs. Qed.
Print Assumptions reflected_load_list_discard_dropped_differs.

(* non-vacuity of [separated]: files 0..3 | 5..6 | 8 share no junction frame; discarding changes nothing *)
Example load_list_separated_example :
  lasto (map (app None) (every 1 [0; 1; 2; 3])) = Some 3 /\
  separated nsame 3 (map (fun f => map (app None) (every 1 f)) [[5; 6]; [8]]) /\
  spec_load_list_d nsame true [[0; 1; 2; 3]; [5; 6]; [8]] 1 None = Ok [0; 1; 2; 3; 5; 6; 8].
Proof. repeat split; reflexivity. Qed.
Print Assumptions load_list_separated_example.
