(* C11 -- re-imaging moves atoms only by lattice vectors and makes molecules whole.
   Only statements, closed by [exact], and Print Assumptions.  Model: MD.Whole.Model. *)
From Coq Require Import ZArith List Bool.
Import ListNotations.
Require Import MD.Neigh.Model MD.Whole.Model MD.Whole.Proofs.
Open Scope Z_scope.

(* make_whole: whatever the bond list, every atom ends at its original position minus an integer
   combination of the frame's cell vectors (the combination the model carries along) *)
Theorem whole_lattice_moves : forall B bonds xyz i,
  let st := make_whole B bonds (init_state xyz) in
  length st = length xyz /\ st_pos st i = vsub (pos xyz i) (latv B (st_shift st i)).
Proof.
  intros B bonds xyz i st. destruct (tracks_make_whole B xyz bonds _ (tracks_init B xyz)) as (H1 & H2).
  split; [exact H1|exact (H2 i)].
Qed.
Print Assumptions whole_lattice_moves.
