(* C11 -- re-imaging moves atoms only by lattice vectors and makes molecules whole.
   Only statements, closed by [exact], and Print Assumptions.
   Model: MD.Whole.Model -- hand-written from image_molecules.pxi (make_whole, anchor clustering, wrap_mols),
   geometry.cpp:find_closest_contact and the bond ordering / inplace plumbing of trajectory.py, in exact arithmetic
   on the dyadic inputs; tied to the compiled binary by the correspondence run (harness/props/C11.py). *)
From Coq Require Import ZArith List Bool.
Import ListNotations.
Require Import MD.Neigh.Model MD.Neigh.NeighborsProofs MD.Whole.Model MD.Whole.Proofs MD.Whole.Walk MD.Gen.WholeWalk.
Open Scope Z_scope.

(* make_whole, whatever the bond list: every atom ends at its original position minus an integer combination
   of the frame's cell vectors (the combination the model carries along) *)
Theorem whole_lattice_moves : forall B bonds xyz, tracks B xyz (make_whole B bonds (init_state xyz)).
Proof. exact whole_tracks. Qed.
Print Assumptions whole_lattice_moves.

(* image_molecules (one frame, with or without the make_whole stage, any anchors/others): the same -- the
   positions of the model lack only the ONE common translation T = diag/2 - centre(anchors) of the frame,
   which it returns separately *)
Theorem image_common_translation : forall B xyz walk anchors others,
  tracks B xyz (fst (fst (image_molecules_frame B walk anchors others xyz))).
Proof. exact image_frame_tracks. Qed.
Print Assumptions image_common_translation.

(* without the make_whole stage every molecule (anchor or not) is moved as a rigid unit: all its atoms carry the
   same lattice combination (molecules pairwise disjoint, indices valid) *)
Theorem image_units_rigid : forall B anchors others xyz,
  NoDup (concat (anchors ++ others)) -> (forall x, In x (concat (anchors ++ others)) -> (x < length xyz)%nat) ->
  forall m, In m (anchors ++ others) -> forall a b, In a m -> In b m ->
    st_shift (fst (fst (image_molecules_frame B None anchors others xyz))) a =
    st_shift (fst (fst (image_molecules_frame B None anchors others xyz))) b.
Proof. exact image_rigid_no_whole. Qed.
Print Assumptions image_units_rigid.

(* with it, the additional moves after make_whole are still rigid per molecule *)
Theorem image_units_rigid_after_whole : forall B anchors others st,
  NoDup (concat (anchors ++ others)) -> (forall x, In x (concat (anchors ++ others)) -> (x < length st)%nat) ->
  rigid (anchors ++ others) st (fst (fst (image_frame B anchors others st))).
Proof. exact image_frame_rigid. Qed.
Print Assumptions image_units_rigid_after_whole.

(* If the bond walk is parent-ordered (an atom that has occurred in a bond is never moved again) and every
   walked bond has a lattice image shorter than cn/cd <= half of every diagonal cell entry ("the molecule is
   shorter than half the cell"), every walked pair ends shorter than cn/cd and at its minimum over ALL images *)
Theorem whole_tree_ordered : forall B cn cd xyz l,
  box_ok B -> 0 < cd -> 0 <= cn -> half_width_ok B cn cd ->
  parent_ordered [] l ->
  (forall bond, In bond l -> (snd bond < length xyz)%nat /\ has_short_image B cn cd xyz bond) ->
  forall bond, In bond l ->
    let st := make_whole B l (init_state xyz) in
    let d := vsub (st_pos st (snd bond)) (st_pos st (fst bond)) in
    norm2 d * (cd * cd) < cn * cn /\ forall k1 k2 k3, norm2 d <= norm2 (vsub d (lat B k1 k2 k3)).
Proof. exact whole_parent_ordered. Qed.
Print Assumptions whole_tree_ordered.

(* The same for every bond list is FALSE of the code as found (bonds sorted on the first atom, second atom
   moved): atoms 0 and 1 both bonded to atom 2, atom 1 one cell away -- bond (0,2) ends 4146 units long.
   Known defect (KNOWN_FINDINGS C11-make-whole-bond-order). *)
Theorem whole_any_order_refuted :
  exists B cn cd xyz added,
    box_ok B /\ 0 < cd /\ 0 <= cn /\ half_width_ok B cn cd /\
    (forall bond, In bond added -> (snd bond < length xyz)%nat /\ has_short_image B cn cd xyz bond) /\
    exists bond, In bond added /\ ~ short_now cn cd (make_whole_cur B added xyz) bond.
Proof. exact whole_any_order_counterexample. Qed.
Print Assumptions whole_any_order_refuted.

(* REPAIR (committed in /repo: trajectory.py:_parent_first_bonds, modelled statement by statement as Model.pfb_walk:
   depth-first from the lowest-numbered unplaced atom, emitting (placed atom, new atom)).  FULL statement, no side
   condition on the bond graph: every system that can be made whole at all (sigma: lattice multipliers under which
   every bond is shorter than cn/cd <= half of every diagonal cell entry, i.e. every molecule shorter than half the
   cell) IS made whole -- every bonded pair, ring closures included, ends exactly at its displacement in the whole
   configuration: shorter than cn/cd and at its minimum over all lattice images. *)
Theorem whole_fixed_order : forall B cn cd xyz sg bonds,
  box_ok B -> 0 < cd -> 0 <= cn -> half_width_ok B cn cd ->
  (forall b, In b bonds -> (fst b < length xyz)%nat /\ (snd b < length xyz)%nat) ->
  makes_whole B cn cd xyz sg bonds ->
  forall bond, In bond bonds ->
    let st := make_whole B (pfb_walk (length xyz) bonds) (init_state xyz) in
    let d := vsub (st_pos st (snd bond)) (st_pos st (fst bond)) in
    d = sigma_disp B xyz sg bond /\ norm2 d * (cd * cd) < cn * cn /\
    forall k1 k2 k3, norm2 d <= norm2 (vsub d (lat B k1 k2 k3)).
Proof. exact whole_fixed_order_full. Qed.
Print Assumptions whole_fixed_order.

(* what makes it work, for EVERY bond list with valid indices: the walk is parent-ordered, made of bonds, and joins
   the two ends of every bond *)
Theorem parent_first_walk_covers : forall n bonds,
  (forall b, In b bonds -> (fst b < n)%nat /\ (snd b < n)%nat) ->
  parent_ordered [] (pfb_walk n bonds) /\
  (forall e, In e (pfb_walk n bonds) -> adj bonds (fst e) (snd e)) /\
  (forall b, In b bonds -> conn (pfb_walk n bonds) (fst b) (snd b)).
Proof. exact pfb_walk_ok. Qed.
Print Assumptions parent_first_walk_covers.

(* the traversal read off today's source of _parent_first_bonds by the translator (coq/Gen/WholeWalk.v, regenerated
   on every run) is the one the model implements *)
Theorem source_walk_is_modelled : gen_walk_spec = model_walk_spec.
Proof. reflexivity. Qed.
Print Assumptions source_walk_is_modelled.

(* a caller-supplied sorted_bonds is used verbatim: for any walk that passes the executable check [walk_ok]
   (parent-ordered, made of bonds, joins both ends of every bond under one root) the same conclusion holds *)
Theorem whole_explicit_walk_certified : forall B cn cd xyz sg bonds out,
  box_ok B -> 0 < cd -> 0 <= cn -> half_width_ok B cn cd ->
  walk_ok (length xyz) bonds out = true ->
  makes_whole B cn cd xyz sg bonds ->
  forall bond, In bond bonds ->
    let st := make_whole B out (init_state xyz) in
    let d := vsub (st_pos st (snd bond)) (st_pos st (fst bond)) in
    d = sigma_disp B xyz sg bond /\ norm2 d * (cd * cd) < cn * cn /\
    forall k1 k2 k3, norm2 d <= norm2 (vsub d (lat B k1 k2 k3)).
Proof. exact whole_certified_walk. Qed.
Print Assumptions whole_explicit_walk_certified.

(* Topology.find_molecules (modelled as the function "connected components in order of their lowest atom"; the
   Python traversal order is not modelled -- the partition is compared exactly on every generated topology):
   the molecules partition the atoms 0..n-1, and two atoms share a molecule iff the bond graph connects them *)
Theorem find_molecules_partition_connected : forall n bonds,
  (forall b, In b bonds -> (fst b < n)%nat /\ (snd b < n)%nat) ->
  let mols := find_molecules n bonds in
  (forall a, (a < n)%nat -> exists m, In m mols /\ In a m) /\
  NoDup (concat mols) /\
  (forall m a, In m mols -> In a m -> (a < n)%nat) /\
  (forall m a b, In m mols -> In a m -> In b m -> conn bonds a b) /\
  (forall a b, conn bonds a b -> forall m, In m mols -> (In a m <-> In b m)).
Proof. exact find_molecules_spec. Qed.
Print Assumptions find_molecules_partition_connected.

(* the repaired walk on the refutation witness *)
Theorem whole_fixed_on_witness : forall bond, In bond w_bonds -> short_now 300 1 (make_whole_fix w_box w_bonds w_xyz) bond.
Proof. exact whole_fix_on_counterexample. Qed.
Print Assumptions whole_fixed_on_witness.

(* Consequently (corollary of the lattice moves): the set of lattice images of every interatomic displacement is
   unchanged, hence every minimum-image distance, and every angle/dihedral built from minimum-image displacements *)
Theorem mic_observables_unchanged : forall B bonds xyz a b v,
  let st := make_whole B bonds (init_state xyz) in
  ((exists k1 k2 k3, vsub (vsub (st_pos st b) (st_pos st a)) (lat B k1 k2 k3) = v) <->
   (exists k1 k2 k3, vsub (vsub (pos xyz b) (pos xyz a)) (lat B k1 k2 k3) = v)).
Proof. exact images_unchanged_whole. Qed.
Print Assumptions mic_observables_unchanged.

Theorem mic_observables_unchanged_image : forall B walk anchors others xyz a b v,
  let st := fst (fst (image_molecules_frame B walk anchors others xyz)) in
  ((exists k1 k2 k3, vsub (vsub (st_pos st b) (st_pos st a)) (lat B k1 k2 k3) = v) <->
   (exists k1 k2 k3, vsub (vsub (pos xyz b) (pos xyz a)) (lat B k1 k2 k3) = v)).
Proof. exact images_unchanged_image. Qed.
Print Assumptions mic_observables_unchanged_image.

(* the Python plumbing as modelled (result = self[:] unless inplace): with inplace=False the receiver is returned
   unchanged; cells and times of the result are those of the receiver.  (Modelled, not verified: that self[:]
   copies every array -- the correspondence run checks the receiver bit for bit.) *)
Theorem not_inplace_pure : forall f t,
  snd (apply_frames f false t) = t /\
  t_cells (fst (apply_frames f false t)) = t_cells t /\ t_time (fst (apply_frames f false t)) = t_time t.
Proof. exact apply_frames_copy. Qed.
Print Assumptions not_inplace_pure.

Theorem cells_times_untouched : forall f t,
  snd (apply_frames f true t) = fst (apply_frames f true t) /\
  t_cells (fst (apply_frames f true t)) = t_cells t /\ t_time (fst (apply_frames f true t)) = t_time t /\
  fst (apply_frames f true t) = fst (apply_frames f false t).
Proof. exact apply_frames_inplace. Qed.
Print Assumptions cells_times_untouched.

(* non-vacuity of the hypothesis sets *)
Example parent_ordered_hypotheses_satisfiable :
  box_ok w_box /\ half_width_ok w_box 300 1 /\ parent_ordered [] ex_walk /\
  (forall bond, In bond ex_walk -> (snd bond < length ex_xyz)%nat /\ has_short_image w_box 300 1 ex_xyz bond) /\
  st_shift (make_whole w_box ex_walk (init_state ex_xyz)) 1 = (-1, 0, 2).
Proof. exact ex_parent_ordered_hyps. Qed.
Print Assumptions parent_ordered_hypotheses_satisfiable.

Example certificate_hypotheses_satisfiable :
  walk_ok (length w_xyz) (map norm_bond w_bonds) (pfb_walk (length w_xyz) (map norm_bond w_bonds)) = true /\
  makes_whole w_box 300 1 w_xyz (fun x => match x with 1%nat => (1, 0, 0) | _ => (0, 0, 0) end) (map norm_bond w_bonds).
Proof. exact ex_certificate. Qed.
Print Assumptions certificate_hypotheses_satisfiable.
