(* C11 -- re-imaging moves atoms only by lattice vectors and makes molecules whole.
   Only statements, closed by [exact], and Print Assumptions.
   Model: MD.Whole.Model -- hand-written from image_molecules.pxi (make_whole, anchor clustering, wrap_mols),
   geometry.cpp:find_closest_contact and the bond ordering / inplace plumbing of trajectory.py, in exact arithmetic
   on the dyadic inputs; tied to the compiled binary by the correspondence run (harness/props/C11.py). *)
From Coq Require Import ZArith List Bool.
Import ListNotations.
From Coq Require Import Permutation.
Require Import MD.Neigh.Model MD.Neigh.NeighborsProofs MD.Whole.Model MD.Whole.Proofs MD.Whole.Walk MD.Gen.WholeWalk
  MD.Whole.Anchors MD.Whole.AnchorsProofs MD.Gen.WholeDispatch MD.Whole.Molecules MD.Whole.MoleculesSweep.
Open Scope Z_scope.

(* make_whole, whatever the bond list: every atom ends at its original position minus an integer combination
   of the frame's cell vectors (the combination the model carries along) *)
Theorem whole_lattice_moves : forall B bonds xyz, tracks B xyz (make_whole B bonds (init_state xyz)).
Proof. exact whole_tracks. Qed.
Print Assumptions whole_lattice_moves.

(* image_molecules (one frame, with or without the make_whole stage, any anchors/others): the same -- the
   positions of the model lack only the ONE common translation T = diag/2 - centre(anchors) of the frame,
   which it returns separately *)
Theorem image_common_translation : forall B xyz walk anchors others,
  tracks B xyz (fst (fst (image_molecules_frame B walk anchors others xyz))).
Proof. exact image_frame_tracks. Qed.
Print Assumptions image_common_translation.

(* without the make_whole stage every molecule (anchor or not) is moved as a rigid unit: all its atoms carry the
   same lattice combination (molecules pairwise disjoint, indices valid) *)
Theorem image_units_rigid : forall B anchors others xyz,
  NoDup (concat (anchors ++ others)) -> (forall x, In x (concat (anchors ++ others)) -> (x < length xyz)%nat) ->
  forall m, In m (anchors ++ others) -> forall a b, In a m -> In b m ->
    st_shift (fst (fst (image_molecules_frame B None anchors others xyz))) a =
    st_shift (fst (fst (image_molecules_frame B None anchors others xyz))) b.
Proof. exact image_rigid_no_whole. Qed.
Print Assumptions image_units_rigid.

(* with it, the additional moves after make_whole are still rigid per molecule *)
Theorem image_units_rigid_after_whole : forall B anchors others st,
  NoDup (concat (anchors ++ others)) -> (forall x, In x (concat (anchors ++ others)) -> (x < length st)%nat) ->
  rigid (anchors ++ others) st (fst (fst (image_frame B anchors others st))).
Proof. exact image_frame_rigid. Qed.
Print Assumptions image_units_rigid_after_whole.

(* If the bond walk is parent-ordered (an atom that has occurred in a bond is never moved again) and every
   walked bond has a lattice image shorter than cn/cd <= half of every diagonal cell entry ("the molecule is
   shorter than half the cell"), every walked pair ends shorter than cn/cd and at its minimum over ALL images *)
Theorem whole_tree_ordered : forall B cn cd xyz l,
  box_ok B -> 0 < cd -> 0 <= cn -> half_width_ok B cn cd ->
  parent_ordered [] l ->
  (forall bond, In bond l -> (snd bond < length xyz)%nat /\ has_short_image B cn cd xyz bond) ->
  forall bond, In bond l ->
    let st := make_whole B l (init_state xyz) in
    let d := vsub (st_pos st (snd bond)) (st_pos st (fst bond)) in
    norm2 d * (cd * cd) < cn * cn /\ forall k1 k2 k3, norm2 d <= norm2 (vsub d (lat B k1 k2 k3)).
Proof. exact whole_parent_ordered. Qed.
Print Assumptions whole_tree_ordered.

(* The same for every bond list is FALSE of the code as found (bonds sorted on the first atom, second atom
   moved): atoms 0 and 1 both bonded to atom 2, atom 1 one cell away -- bond (0,2) ends 4146 units long.
   Known defect (KNOWN_FINDINGS C11-make-whole-bond-order). *)
Theorem whole_any_order_refuted :
  exists B cn cd xyz added,
    box_ok B /\ 0 < cd /\ 0 <= cn /\ half_width_ok B cn cd /\
    (forall bond, In bond added -> (snd bond < length xyz)%nat /\ has_short_image B cn cd xyz bond) /\
    exists bond, In bond added /\ ~ short_now cn cd (make_whole_cur B added xyz) bond.
Proof. exact whole_any_order_counterexample. Qed.
Print Assumptions whole_any_order_refuted.

(* REPAIR (committed in /repo: trajectory.py:_parent_first_bonds, modelled statement by statement as Model.pfb_walk:
   depth-first from the lowest-numbered unplaced atom, emitting (placed atom, new atom)).  FULL statement, no side
   condition on the bond graph: every system that can be made whole at all (sigma: lattice multipliers under which
   every bond is shorter than cn/cd <= half of every diagonal cell entry, i.e. every molecule shorter than half the
   cell) IS made whole -- every bonded pair, ring closures included, ends exactly at its displacement in the whole
   configuration: shorter than cn/cd and at its minimum over all lattice images. *)
Theorem whole_fixed_order : forall B cn cd xyz sg bonds,
  box_ok B -> 0 < cd -> 0 <= cn -> half_width_ok B cn cd ->
  (forall b, In b bonds -> (fst b < length xyz)%nat /\ (snd b < length xyz)%nat) ->
  makes_whole B cn cd xyz sg bonds ->
  forall bond, In bond bonds ->
    let st := make_whole B (pfb_walk (length xyz) bonds) (init_state xyz) in
    let d := vsub (st_pos st (snd bond)) (st_pos st (fst bond)) in
    d = sigma_disp B xyz sg bond /\ norm2 d * (cd * cd) < cn * cn /\
    forall k1 k2 k3, norm2 d <= norm2 (vsub d (lat B k1 k2 k3)).
Proof. exact whole_fixed_order_full. Qed.
Print Assumptions whole_fixed_order.

(* what makes it work, for EVERY bond list with valid indices: the walk is parent-ordered, made of bonds, and joins
   the two ends of every bond *)
Theorem parent_first_walk_covers : forall n bonds,
  (forall b, In b bonds -> (fst b < n)%nat /\ (snd b < n)%nat) ->
  parent_ordered [] (pfb_walk n bonds) /\
  (forall e, In e (pfb_walk n bonds) -> adj bonds (fst e) (snd e)) /\
  (forall b, In b bonds -> conn (pfb_walk n bonds) (fst b) (snd b)).
Proof. exact pfb_walk_ok. Qed.
Print Assumptions parent_first_walk_covers.

(* the traversal read off today's source of _parent_first_bonds by the translator (coq/Gen/WholeWalk.v, regenerated
   on every run) is the one the model implements *)
Theorem source_walk_is_modelled : gen_walk_spec = model_walk_spec.
Proof. reflexivity. Qed.
Print Assumptions source_walk_is_modelled.

(* a caller-supplied sorted_bonds is used verbatim: for any walk that passes the executable check [walk_ok]
   (parent-ordered, made of bonds, joins both ends of every bond under one root) the same conclusion holds *)
Theorem whole_explicit_walk_certified : forall B cn cd xyz sg bonds out,
  box_ok B -> 0 < cd -> 0 <= cn -> half_width_ok B cn cd ->
  walk_ok (length xyz) bonds out = true ->
  makes_whole B cn cd xyz sg bonds ->
  forall bond, In bond bonds ->
    let st := make_whole B out (init_state xyz) in
    let d := vsub (st_pos st (snd bond)) (st_pos st (fst bond)) in
    d = sigma_disp B xyz sg bond /\ norm2 d * (cd * cd) < cn * cn /\
    forall k1 k2 k3, norm2 d <= norm2 (vsub d (lat B k1 k2 k3)).
Proof. exact whole_certified_walk. Qed.
Print Assumptions whole_explicit_walk_certified.

(* Topology.find_molecules (modelled as the function "connected components in order of their lowest atom"; the
   Python traversal order is not modelled -- the partition is compared exactly on every generated topology):
   the molecules partition the atoms 0..n-1, and two atoms share a molecule iff the bond graph connects them *)
Theorem find_molecules_partition_connected : forall n bonds,
  (forall b, In b bonds -> (fst b < n)%nat /\ (snd b < n)%nat) ->
  let mols := find_molecules n bonds in
  (forall a, (a < n)%nat -> exists m, In m mols /\ In a m) /\
  NoDup (concat mols) /\
  (forall m a, In m mols -> In a m -> (a < n)%nat) /\
  (forall m a b, In m mols -> In a m -> In b m -> conn bonds a b) /\
  (forall a b, conn bonds a b -> forall m, In m mols -> (In a m <-> In b m)).
Proof. exact find_molecules_spec. Qed.
Print Assumptions find_molecules_partition_connected.

(* the repaired walk on the refutation witness *)
Theorem whole_fixed_on_witness : forall bond, In bond w_bonds -> short_now 300 1 (make_whole_fix w_box w_bonds w_xyz) bond.
Proof. exact whole_fix_on_counterexample. Qed.
Print Assumptions whole_fixed_on_witness.

(* Consequently (corollary of the lattice moves): the set of lattice images of every interatomic displacement is
   unchanged, hence every minimum-image distance, and every angle/dihedral built from minimum-image displacements *)
Theorem mic_observables_unchanged : forall B bonds xyz a b v,
  let st := make_whole B bonds (init_state xyz) in
  ((exists k1 k2 k3, vsub (vsub (st_pos st b) (st_pos st a)) (lat B k1 k2 k3) = v) <->
   (exists k1 k2 k3, vsub (vsub (pos xyz b) (pos xyz a)) (lat B k1 k2 k3) = v)).
Proof. exact images_unchanged_whole. Qed.
Print Assumptions mic_observables_unchanged.

Theorem mic_observables_unchanged_image : forall B walk anchors others xyz a b v,
  let st := fst (fst (image_molecules_frame B walk anchors others xyz)) in
  ((exists k1 k2 k3, vsub (vsub (st_pos st b) (st_pos st a)) (lat B k1 k2 k3) = v) <->
   (exists k1 k2 k3, vsub (vsub (pos xyz b) (pos xyz a)) (lat B k1 k2 k3) = v)).
Proof. exact images_unchanged_image. Qed.
Print Assumptions mic_observables_unchanged_image.

(* the Python plumbing as modelled (result = self[:] unless inplace): with inplace=False the receiver is returned
   unchanged; cells and times of the result are those of the receiver.  (Modelled, not verified: that self[:]
   copies every array -- the correspondence run checks the receiver bit for bit.) *)
Theorem not_inplace_pure : forall f t,
  snd (apply_frames f false t) = t /\
  t_cells (fst (apply_frames f false t)) = t_cells t /\ t_time (fst (apply_frames f false t)) = t_time t.
Proof. exact apply_frames_copy. Qed.
Print Assumptions not_inplace_pure.

Theorem cells_times_untouched : forall f t,
  snd (apply_frames f true t) = fst (apply_frames f true t) /\
  t_cells (fst (apply_frames f true t)) = t_cells t /\ t_time (fst (apply_frames f true t)) = t_time t /\
  fst (apply_frames f true t) = fst (apply_frames f false t).
Proof. exact apply_frames_inplace. Qed.
Print Assumptions cells_times_untouched.

(* non-vacuity of the hypothesis sets *)
Example parent_ordered_hypotheses_satisfiable :
  box_ok w_box /\ half_width_ok w_box 300 1 /\ parent_ordered [] ex_walk /\
  (forall bond, In bond ex_walk -> (snd bond < length ex_xyz)%nat /\ has_short_image w_box 300 1 ex_xyz bond) /\
  st_shift (make_whole w_box ex_walk (init_state ex_xyz)) 1 = (-1, 0, 2).
Proof. exact ex_parent_ordered_hyps. Qed.
Print Assumptions parent_ordered_hypotheses_satisfiable.

Example certificate_hypotheses_satisfiable :
  walk_ok (length w_xyz) (map norm_bond w_bonds) (pfb_walk (length w_xyz) (map norm_bond w_bonds)) = true /\
  makes_whole w_box 300 1 w_xyz (fun x => match x with 1%nat => (1, 0, 0) | _ => (0, 0, 0) end) (map norm_bond w_bonds).
Proof. exact ex_certificate. Qed.
Print Assumptions certificate_hypotheses_satisfiable.

(* ===================================================================================================================
   The argument handling of Trajectory.image_molecules / Topology.guess_anchor_molecules (MD.Whole.Anchors) *)

(* guessed anchors: molecules of the bond graph, each strictly larger than the size threshold; the FIRST anchor (where the
   clustering of image_molecules.pxi starts: "the largest molecule") is a largest molecule of the system *)
Theorem guessed_anchors_are_large_molecules : forall n bonds anchors,
  (forall b, In b bonds -> (fst b < n)%nat /\ (snd b < n)%nat) ->
  guess_anchor_molecules n bonds = Some anchors ->
  anchors <> [] /\
  (forall m, In m anchors -> In m (find_molecules n bonds) /\
                             (anchor_cutoff (sort_mols (find_molecules n bonds)) < length m)%nat) /\
  (forall m, In m (find_molecules n bonds) -> (length m <= length (hd [] anchors))%nat).
Proof. exact (fun n bonds anchors _ => guessed_anchors_spec n bonds anchors). Qed.
Print Assumptions guessed_anchors_are_large_molecules.

(* other_molecules=None: anchors and others together are the molecules of the system, each exactly once *)
Theorem default_others_complement : forall n bonds,
  (forall b, In b bonds -> (fst b < n)%nat /\ (snd b < n)%nat) -> forall anchors,
  guess_anchor_molecules n bonds = Some anchors ->
  Permutation (anchors ++ default_others n bonds anchors) (find_molecules n bonds).
Proof. exact AnchorsProofs.default_others_complement. Qed.
Print Assumptions default_others_complement.

(* the heuristic refuses (ValueError) whenever all molecules have one size, e.g. a system that is a single molecule *)
Theorem guess_refuses_equal_sizes : forall n bonds k,
  (forall m, In m (find_molecules n bonds) -> length m = k) -> guess_anchor_molecules n bonds = None.
Proof. exact AnchorsProofs.guess_refuses_equal_sizes. Qed.
Print Assumptions guess_refuses_equal_sizes.

(* which bond walk reaches the kernel: none with make_whole=False (an explicit sorted_bonds is dropped), else the caller's
   sorted_bonds verbatim or the parent-first walk; ValueError exactly without a unit cell / without a guessable anchor *)
Theorem image_plan_make_whole_false : forall n bonds anchors others sorted anchors' others' walk,
  image_molecules_plan true n bonds (mkImArgs anchors others sorted false) = ImPlan anchors' others' walk -> walk = None.
Proof. exact plan_make_whole_false. Qed.
Print Assumptions image_plan_make_whole_false.

Theorem image_plan_make_whole_true : forall n bonds anchors others sorted anchors' others' walk,
  image_molecules_plan true n bonds (mkImArgs anchors others sorted true) = ImPlan anchors' others' walk ->
  walk = Some (match sorted with Some l => l | None => pfb_walk n bonds end).
Proof. exact plan_make_whole_true. Qed.
Print Assumptions image_plan_make_whole_true.

Theorem image_plan_refuses_iff : forall has_cell n bonds a,
  image_molecules_plan has_cell n bonds a = ImValueError <->
  has_cell = false \/ (ia_anchors a = None /\ guess_anchor_molecules n bonds = None).
Proof. exact plan_refuses_iff. Qed.
Print Assumptions image_plan_refuses_iff.

(* END TO END with all arguments defaulted and make_whole=False: lattice moves plus one common translation, and every
   molecule of the system, anchor or not, moved as a rigid unit -- no hypothesis about the molecules is left *)
Theorem image_default_arguments_rigid : forall B n bonds xyz st SA NA,
  (forall b, In b bonds -> (fst b < n)%nat /\ (snd b < n)%nat) -> length xyz = n ->
  image_molecules_call B n bonds (mkImArgs None None None false) xyz = Some (st, SA, NA) ->
  tracks B xyz st /\
  forall m, In m (find_molecules n bonds) -> forall a b, In a m -> In b m -> st_shift st a = st_shift st b.
Proof. exact image_default_rigid. Qed.
Print Assumptions image_default_arguments_rigid.

Example anchors_model_runs :
  guess_anchor_molecules 14 anch_bonds = Some [[3; 2; 1; 0]]%nat /\
  length (default_others 14 anch_bonds [[3; 2; 1; 0]]%nat) = 10%nat /\
  guess_anchor_molecules 4 anch_bonds = None /\
  image_molecules_plan true 14 anch_bonds (mkImArgs None None (Some [(0, 1)]%nat) false) =
    ImPlan [[3; 2; 1; 0]]%nat (default_others 14 anch_bonds [[3; 2; 1; 0]]%nat) None.
Proof. exact anchors_example. Qed.
Print Assumptions anchors_model_runs.

(* the argument handling read off today's source of Trajectory.make_molecules_whole / image_molecules by the translator
   (coq/Gen/WholeDispatch.v, regenerated on every run) is the one MD.Whole.Anchors implements: unit-cell guard, copy unless
   inplace, default bond walk (dropped for make_whole=False), kernel run on the coordinates and cells of the result with
   the anchors' and others' atom indices, what is returned, default anchors and default others *)
Theorem source_dispatch_is_modelled : gen_dispatch_spec = model_dispatch_spec.
Proof. reflexivity. Qed.
Print Assumptions source_dispatch_is_modelled.

(* Topology.find_molecules AS A LOOP (MD.Whole.Molecules: atom_bonds, atom_stack / neighbor_stack, statement by statement)
   returns the molecules of the function model above -- same molecules, same order, same atoms.  BOUNDED (exhaustive
   evaluation, the bound is in the name): every bond graph on 4 atoms with its bonds added in every order (1957 lists), every
   list of at most 4 distinct bonds on 5 atoms (5861 lists), of at most 3 on 6 atoms.  PARTIAL: the refinement for every
   bond list is not proved; beyond the bound the loop model is compared with the implementation and with the function model
   on every generated topology of the correspondence run. *)
Theorem find_molecules_loop_agrees_all_graphs_on_4_atoms :
  forallb (loop_agrees 4) (inj_lists 6 (all_edges 4)) = true.
Proof. exact loop_agrees_4_atoms. Qed.
Print Assumptions find_molecules_loop_agrees_all_graphs_on_4_atoms.

Theorem find_molecules_loop_agrees_5_atoms_upto_4_bonds :
  forallb (loop_agrees 5) (inj_lists 4 (all_edges 5)) = true.
Proof. exact loop_agrees_5_atoms_4_bonds. Qed.
Print Assumptions find_molecules_loop_agrees_5_atoms_upto_4_bonds.

Theorem find_molecules_loop_agrees_6_atoms_upto_3_bonds :
  forallb (loop_agrees 6) (inj_lists 3 (all_edges 6)) = true.
Proof. exact loop_agrees_6_atoms_3_bonds. Qed.
Print Assumptions find_molecules_loop_agrees_6_atoms_upto_3_bonds.

Example find_molecules_loop_sweep_is_not_empty :
  length (inj_lists 6 (all_edges 4)) = 1957%nat /\ length (inj_lists 4 (all_edges 5)) = 5861%nat.
Proof. exact sweep_count. Qed.
Print Assumptions find_molecules_loop_sweep_is_not_empty.
